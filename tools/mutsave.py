#!/usr/bin/env python3
"""mutsave.py <PROP> <mN> <caught-by text> : archive a confirmed seeded change under /verif/seeded/."""
import json, os, shutil, sys
prop, m, caught = sys.argv[1], sys.argv[2], sys.argv[3]
checks = sys.argv[4].split(",") if len(sys.argv) > 4 else [prop]
rnd = m[:2] if m[:2] in ("r2", "r3", "r4", "r5") else ""
src = "/tmp/mut/%s/%s/%s" % (prop, {"r2": "_out2", "r3": "_out3", "r4": "_out4", "r5": "_out5", "": "_out"}[rnd], m[2:] if rnd else m)
dst = "/verif/seeded/%s-%s" % (prop, m)
os.makedirs(dst, exist_ok=True)
for f in os.listdir(src):
    shutil.copy(os.path.join(src, f), dst)
confirm = open("/var/tmp/mutout/%s-%s/confirm.txt" % (prop, m)).read().strip().splitlines()
meta = {"property": prop, "needs_to_manifest": open(os.path.join(src, "meta.txt")).read().strip(),
        "confirmed": confirm[0] if confirm else "", "checks_run": confirm[1:], "caught_by": caught, "checks": checks,
        "how_run": "tools/muteval.sh %s <mutant dir> <scratch worktree> <checks> (patch applied in a scratch worktree, VERIF_REPO pointing at it; /repo untouched)" % prop}
json.dump(meta, open(os.path.join(dst, "meta.json"), "w"), indent=1)
print("saved", dst)

#!/bin/bash
# mutround5.sh ID [extra checks...] : evaluate /tmp/mut/ID/_out5/m1 and m2 with check ID (+ extras)
ID=$1; shift
for m in m1 m2; do
  [ -f /tmp/mut/$ID/_out5/$m/patch.diff ] || { echo "$ID $m: no patch"; continue; }
  /verif/tools/muteval.sh $ID /tmp/mut/$ID/_out5/$m /tmp/mut/$ID $ID "$@" 2>&1 | tail -$((2 + $#)) | cut -c1-260
done

// Command lockskel translates Go methods into the lock skeletons of /verif/coq/theories/Conc.v.
//
//	lockskel <repo dir> <out.v>
//
// It is deliberately dumb (go/parser + go/ast only, no type checker): it records which
// fields of the receiver / of struct-typed parameters a method touches, which mutex
// operations it performs, which methods it calls on fields, and the control structure
// (sequence, branch, loop, return with the deferred calls expanded in LIFO order). Whether
// a call mutates, whether a field is guarded and by which lock is decided by the
// hand-written policy in Coq, not here. Anything it does not understand becomes
// Unsupported, which makes every check fail.
package main

import (
	"fmt"
	"go/ast"
	"go/parser"
	"go/token"
	"os"
	"path/filepath"
	"sort"
	"strings"
)

// ---- skeleton terms

type stmt struct {
	kind string // Skip Acq Rel Acc Call Seq Branch Loop Ret Unsupported
	a, b *stmt
	s1   string
	s2   string
	flag bool // Acc: write; Acq/Rel: exclusive
}

var skip = &stmt{kind: "Skip"}

func seq(xs ...*stmt) *stmt {
	var res *stmt
	for i := len(xs) - 1; i >= 0; i-- {
		x := xs[i]
		if x == nil || x.kind == "Skip" {
			continue
		}
		if res == nil {
			res = x
		} else {
			res = &stmt{kind: "Seq", a: x, b: res}
		}
	}
	if res == nil {
		return skip
	}
	return res
}

func branch(a, b *stmt) *stmt {
	if a.kind == "Skip" && b.kind == "Skip" {
		return skip
	}
	return &stmt{kind: "Branch", a: a, b: b}
}

func loop(a *stmt) *stmt {
	if a.kind == "Skip" {
		return skip
	}
	return &stmt{kind: "Loop", a: a}
}

func unsupported(what string) *stmt { return &stmt{kind: "Unsupported", s1: what} }

func q(s string) string { return "\"" + strings.ReplaceAll(s, "\"", "'") + "\"" }

func (s *stmt) coq(sb *strings.Builder, indent int) {
	pad := strings.Repeat(" ", indent)
	switch s.kind {
	case "Skip":
		sb.WriteString(pad + "Skip")
	case "Ret":
		sb.WriteString(pad + "Ret")
	case "Acq", "Rel":
		m := "Sh"
		if s.flag {
			m = "Ex"
		}
		fmt.Fprintf(sb, "%s%s %s %s", pad, s.kind, q(s.s1), m)
	case "Acc":
		w := "false"
		if s.flag {
			w = "true"
		}
		fmt.Fprintf(sb, "%sAcc %s %s", pad, q(s.s1), w)
	case "Call":
		fmt.Fprintf(sb, "%sCall %s %s", pad, q(s.s1), q(s.s2))
	case "Unsupported":
		fmt.Fprintf(sb, "%sUnsupported %s", pad, q(s.s1))
	case "Seq", "Branch":
		fmt.Fprintf(sb, "%s%s (\n", pad, s.kind)
		s.a.coq(sb, indent+1)
		sb.WriteString(") (\n")
		s.b.coq(sb, indent+1)
		sb.WriteString(")")
	case "Loop":
		fmt.Fprintf(sb, "%sLoop (\n", pad)
		s.a.coq(sb, indent+1)
		sb.WriteString(")")
	}
}

// ---- package facts

type pkgInfo struct {
	structs    map[string]*ast.StructType
	interfaces map[string]*ast.InterfaceType
	methods    map[string]*ast.FuncDecl // "T.m"
	byName     map[string][]string      // method name -> types having it
	mutexField map[string]bool          // "T.f" is a sync.Mutex / sync.RWMutex
	globals    map[string]bool          // package-level variables
	funcs      map[string]*ast.FuncDecl // package-level functions (no receiver)
	tag        string                   // "func" for the root package, "func.<dir>" otherwise
	fieldElem  map[string]string        // "T.f" -> element type name of the field's declared type (pointers, slices, arrays, map values unwrapped)
	external   map[string]bool          // "T.f": the element type belongs to another package (pkg.Type)
	selfSync   map[string]bool          // "T.f": sync/atomic value, sync.Map / Pool / Once / WaitGroup, channel: safe for concurrent use by itself
	chanField  map[string]bool          // field NAME whose declared type is a channel
	spawners   map[string]bool          // function / method names that start a goroutine and do not join it
	joiners    map[string]bool          // function / method names that receive from a channel field until it is closed
}

func typeName(e ast.Expr) string {
	switch t := e.(type) {
	case *ast.StarExpr:
		return typeName(t.X)
	case *ast.Ident:
		return t.Name
	case *ast.SelectorExpr:
		return typeName(t.X) + "." + t.Sel.Name
	}
	return ""
}

// elemTypeName unwraps pointers, slices, arrays and map values down to a named type.
func elemTypeName(e ast.Expr) string {
	switch t := e.(type) {
	case *ast.StarExpr:
		return elemTypeName(t.X)
	case *ast.ArrayType:
		return elemTypeName(t.Elt)
	case *ast.MapType:
		return elemTypeName(t.Value)
	case *ast.Ellipsis:
		return elemTypeName(t.Elt)
	case *ast.Ident:
		return t.Name
	case *ast.SelectorExpr:
		return typeName(t.X) + "." + t.Sel.Name
	}
	return ""
}

// hasField: struct tn of this package declares a field f.
func (p *pkgInfo) hasField(tn, f string) bool {
	st, ok := p.structs[tn]
	if !ok {
		return false
	}
	for _, fl := range st.Fields.List {
		for _, n := range fl.Names {
			if n.Name == f {
				return true
			}
		}
	}
	return false
}

// hasMethod: type tn of this package (struct or interface) declares method m.
func (p *pkgInfo) hasMethod(tn, m string) bool {
	if _, ok := p.methods[tn+"."+m]; ok {
		return true
	}
	if it, ok := p.interfaces[tn]; ok {
		for _, f := range it.Methods.List {
			for _, n := range f.Names {
				if n.Name == m {
					return true
				}
			}
		}
	}
	return false
}

func load(dir string, tag string) *pkgInfo {
	fset := token.NewFileSet()
	pkgs, err := parser.ParseDir(fset, dir, func(fi os.FileInfo) bool {
		if strings.HasSuffix(fi.Name(), "_test.go") {
			return false
		}
		// the production build: files that need the verif tag (instrumentation hooks) are left out
		if b, err := os.ReadFile(filepath.Join(dir, fi.Name())); err == nil {
			for _, l := range strings.Split(string(b[:min(len(b), 2000)]), "\n") {
				l = strings.TrimSpace(l)
				if strings.HasPrefix(l, "//go:build") && strings.Contains(l, "verif") && !strings.Contains(l, "!verif") {
					return false
				}
				if strings.HasPrefix(l, "package ") {
					break
				}
			}
		}
		return true
	}, 0)
	if err != nil {
		fmt.Fprintln(os.Stderr, "lockskel:", err)
		os.Exit(2)
	}
	p := &pkgInfo{structs: map[string]*ast.StructType{}, interfaces: map[string]*ast.InterfaceType{},
		methods: map[string]*ast.FuncDecl{}, byName: map[string][]string{}, mutexField: map[string]bool{},
		globals: map[string]bool{}, funcs: map[string]*ast.FuncDecl{}, tag: tag,
		fieldElem: map[string]string{}, external: map[string]bool{}, selfSync: map[string]bool{},
		chanField: map[string]bool{}, spawners: map[string]bool{}, joiners: map[string]bool{}}
	for _, pkg := range pkgs {
		for _, f := range pkg.Files {
			for _, d := range f.Decls {
				switch d := d.(type) {
				case *ast.GenDecl:
					for _, sp := range d.Specs {
						if vs, ok := sp.(*ast.ValueSpec); ok && d.Tok == token.VAR {
							for i, n := range vs.Names {
								if n.Name != "_" {
									p.globals[n.Name] = true
									// declared type, or the type of a composite-literal initialiser
									et := ""
									if vs.Type != nil {
										et = elemTypeName(vs.Type)
									} else if i < len(vs.Values) {
										v := vs.Values[i]
										if u, ok := v.(*ast.UnaryExpr); ok {
											v = u.X
										}
										if cl, ok := v.(*ast.CompositeLit); ok && cl.Type != nil {
											et = elemTypeName(cl.Type)
										}
									}
									if et != "" {
										p.fieldElem["global."+n.Name] = et
										if strings.Contains(et, ".") {
											p.external["global."+n.Name] = true // a value of another package's type
										}
										if strings.HasPrefix(et, "atomic.") || et == "sync.Map" || et == "sync.Pool" || et == "sync.Once" || et == "sync.WaitGroup" {
											p.selfSync["global."+n.Name] = true
										}
									}
								}
							}
						}
						ts, ok := sp.(*ast.TypeSpec)
						if !ok {
							continue
						}
						switch t := ts.Type.(type) {
						case *ast.StructType:
							p.structs[ts.Name.Name] = t
							for _, fl := range t.Fields.List {
								et := elemTypeName(fl.Type)
								if _, isChan := fl.Type.(*ast.ChanType); isChan {
									for _, n := range fl.Names {
										p.chanField[n.Name] = true
									}
								}
								for _, n := range fl.Names {
									p.fieldElem[ts.Name.Name+"."+n.Name] = et
									if strings.Contains(et, ".") {
										p.external[ts.Name.Name+"."+n.Name] = true
									}
									_, isChan := fl.Type.(*ast.ChanType)
									direct := typeName(fl.Type) // not through a slice or map: the field itself is the synchronised object
									if isChan || strings.HasPrefix(direct, "atomic.") || direct == "sync.Map" || direct == "sync.Pool" || direct == "sync.Once" || direct == "sync.WaitGroup" {
										p.selfSync[ts.Name.Name+"."+n.Name] = true
									}
								}
								tn := typeName(fl.Type)
								if tn == "sync.Mutex" || tn == "sync.RWMutex" {
									for _, n := range fl.Names {
										p.mutexField[ts.Name.Name+"."+n.Name] = true
									}
								}
							}
						case *ast.InterfaceType:
							p.interfaces[ts.Name.Name] = t
						}
					}
				case *ast.FuncDecl:
					if d.Recv != nil && len(d.Recv.List) == 1 && d.Body != nil {
						tn := typeName(d.Recv.List[0].Type)
						p.methods[tn+"."+d.Name.Name] = d
						// the class of a value returned by a method ("T.m()") has the method's first result type
						if d.Type.Results != nil && len(d.Type.Results.List) > 0 {
							if et := elemTypeName(d.Type.Results.List[0].Type); et != "" {
								p.fieldElem[tn+"."+d.Name.Name+"()"] = et
							}
						}
						p.byName[d.Name.Name] = append(p.byName[d.Name.Name], tn)
					} else if d.Recv == nil && d.Body != nil && d.Name.Name != "init" && d.Name.Name != "main" {
						p.funcs[d.Name.Name] = d
					}
				}
			}
		}
	}
	p.goroutines(pkgs)
	return p
}

// goroutines finds, structurally, the functions that leave a goroutine running when they return
// (a go statement, or a call of such a function, without a join) and the functions that join it
// (a range loop over a channel-typed field: it ends when the goroutine closes the channel).
func (p *pkgInfo) goroutines(pkgs map[string]*ast.Package) {
	type fn struct {
		name  string
		body  *ast.BlockStmt
		calls map[string]bool
		goes  bool
		joins bool
	}
	var fns []*fn
	for _, pkg := range pkgs {
		for _, f := range pkg.Files {
			for _, d := range f.Decls {
				fd, ok := d.(*ast.FuncDecl)
				if !ok || fd.Body == nil {
					continue
				}
				x := &fn{name: fd.Name.Name, body: fd.Body, calls: map[string]bool{}}
				ast.Inspect(fd.Body, func(n ast.Node) bool {
					switch m := n.(type) {
					case *ast.GoStmt:
						x.goes = true
					case *ast.RangeStmt:
						if sel, ok := m.X.(*ast.SelectorExpr); ok && p.chanField[sel.Sel.Name] {
							x.joins = true
						}
					case *ast.CallExpr:
						switch f := m.Fun.(type) {
						case *ast.Ident:
							x.calls[f.Name] = true
						case *ast.SelectorExpr:
							x.calls[f.Sel.Name] = true
						}
					}
					return true
				})
				fns = append(fns, x)
			}
		}
	}
	for _, x := range fns {
		if x.joins && !x.goes {
			p.joiners[x.name] = true
		}
	}
	for changed := true; changed; {
		changed = false
		for _, x := range fns {
			if p.spawners[x.name] || p.joiners[x.name] {
				continue
			}
			spawns, joins := x.goes, false
			for c := range x.calls {
				if p.spawners[c] {
					spawns = true
				}
				if p.joiners[c] {
					joins = true
				}
			}
			if spawns && !joins {
				p.spawners[x.name] = true
				changed = true
			}
		}
	}
}

// ---- translation of one function

// scope maps identifiers to the class they stand for: "=T" the tracked object of struct type
// T itself (receiver, parameter), "T.f" a value derived from field f of a T.
type scope struct {
	vars   map[string]string
	parent *scope
}

func (s *scope) lookup(n string) (string, bool) {
	for c := s; c != nil; c = c.parent {
		if v, ok := c.vars[n]; ok {
			return v, true
		}
	}
	return "", false
}

type fnTrans struct {
	p     *pkgInfo
	exits []*stmt // deferred calls, innermost last
}

// rootOf resolves a selector chain x.f.g.h to (class of the chain's root field, remaining
// path). ok=false if the chain is not rooted in a tracked identifier.
func (t *fnTrans) classOf(e ast.Expr, sc *scope) (string, bool) {
	switch x := e.(type) {
	case *ast.Ident:
		c, ok := sc.lookup(x.Name)
		if !ok && t.p.globals[x.Name] {
			return "global." + x.Name, true // a package-level variable (not shadowed by a local)
		}
		if !ok || c == "" {
			return "", false
		}
		return c, true
	case *ast.SelectorExpr:
		c, ok := t.classOf(x.X, sc)
		if !ok {
			return "", false
		}
		if strings.HasPrefix(c, "=") {
			return c[1:] + "." + x.Sel.Name, true
		}
		return c, true // deeper fields belong to the object owned by the root field
	case *ast.IndexExpr:
		return t.classOf(x.X, sc)
	case *ast.StarExpr:
		return t.classOf(x.X, sc)
	case *ast.ParenExpr:
		return t.classOf(x.X, sc)
	case *ast.TypeAssertExpr:
		return t.classOf(x.X, sc)
	case *ast.SliceExpr:
		return t.classOf(x.X, sc)
	case *ast.UnaryExpr:
		return t.classOf(x.X, sc)
	case *ast.CallExpr:
		// value returned by a method of a tracked object: derived from that object
		if sel, ok := x.Fun.(*ast.SelectorExpr); ok {
			if c, ok := t.classOf(sel.X, sc); ok {
				if strings.HasPrefix(c, "=") {
					return c[1:] + "." + sel.Sel.Name + "()", true
				}
				return c, true
			}
		}
		// append(x.f, ...) and friends: derived from the first tracked argument (a package-level
		// variable passed to anything but append does not make the result an alias of it:
		// tx.Bucket(bucketName), bytes.HasPrefix(k, prefix))
		isAppend := false
		if id, ok := x.Fun.(*ast.Ident); ok && id.Name == "append" {
			isAppend = true
		}
		for _, a := range x.Args {
			if c, ok := t.classOf(a, sc); ok && !strings.HasPrefix(c, "=") {
				if strings.HasPrefix(c, "global.") && !isAppend {
					continue
				}
				return c, true
			}
		}
	}
	return "", false
}

func acc(class string, w bool) *stmt {
	if strings.HasPrefix(class, "=") {
		return skip // the tracked pointer itself, not a field
	}
	return &stmt{kind: "Acc", s1: class, flag: w}
}

// expr emits the accesses and calls performed by evaluating e (as a read).
func (t *fnTrans) expr(e ast.Expr, sc *scope) *stmt {
	switch x := e.(type) {
	case nil:
		return skip
	case *ast.Ident, *ast.BasicLit:
		if id, ok := x.(*ast.Ident); ok {
			if c, ok := sc.lookup(id.Name); ok && c != "" && !strings.HasPrefix(c, "=") {
				return skip // a local copy / pointer already obtained; the access was at the definition
			} else if !ok && t.p.globals[id.Name] {
				return acc("global."+id.Name, false)
			}
		}
		return skip
	case *ast.SelectorExpr:
		if c, ok := t.classOf(x, sc); ok {
			return seq(t.exprNoRoot(x.X, sc), acc(c, false))
		}
		return t.expr(x.X, sc)
	case *ast.IndexExpr:
		return seq(t.expr(x.X, sc), t.expr(x.Index, sc))
	case *ast.SliceExpr:
		return seq(t.expr(x.X, sc), t.expr(x.Low, sc), t.expr(x.High, sc), t.expr(x.Max, sc))
	case *ast.StarExpr:
		return t.expr(x.X, sc)
	case *ast.ParenExpr:
		return t.expr(x.X, sc)
	case *ast.TypeAssertExpr:
		return t.expr(x.X, sc)
	case *ast.UnaryExpr:
		return t.expr(x.X, sc)
	case *ast.BinaryExpr:
		if x.Op == token.LAND || x.Op == token.LOR {
			return seq(t.expr(x.X, sc), branch(t.expr(x.Y, sc), skip))
		}
		return seq(t.expr(x.X, sc), t.expr(x.Y, sc))
	case *ast.KeyValueExpr:
		return seq(t.expr(x.Key, sc), t.expr(x.Value, sc))
	case *ast.CompositeLit:
		var xs []*stmt
		for _, el := range x.Elts {
			xs = append(xs, t.expr(el, sc))
		}
		return seq(xs...)
	case *ast.FuncLit:
		// a closure passed to a call: assumed to run zero or more times during the call
		inner := &fnTrans{p: t.p}
		body := inner.block(x.Body.List, litScope(x, sc), true)
		return loop(branch(body, skip))
	case *ast.CallExpr:
		return t.call(x, sc)
	case *ast.ArrayType, *ast.MapType, *ast.StructType, *ast.InterfaceType, *ast.FuncType, *ast.ChanType:
		return skip
	}
	return unsupported(fmt.Sprintf("expression %T", e))
}

// exprNoRoot evaluates the inner part of a selector chain without emitting a second access
// for the same root field.
func (t *fnTrans) exprNoRoot(e ast.Expr, sc *scope) *stmt {
	switch x := e.(type) {
	case *ast.Ident:
		return skip
	case *ast.SelectorExpr:
		return t.exprNoRoot(x.X, sc)
	case *ast.IndexExpr:
		return seq(t.exprNoRoot(x.X, sc), t.expr(x.Index, sc))
	case *ast.StarExpr:
		return t.exprNoRoot(x.X, sc)
	case *ast.ParenExpr:
		return t.exprNoRoot(x.X, sc)
	case *ast.TypeAssertExpr:
		return t.exprNoRoot(x.X, sc)
	}
	return t.expr(e, sc)
}

// litScope is the scope of a function literal's body: its parameters and named results are
// untracked locals (they shadow package-level names).
func litScope(f *ast.FuncLit, parent *scope) *scope {
	sc := &scope{vars: map[string]string{}, parent: parent}
	for _, fl := range []*ast.FieldList{f.Type.Params, f.Type.Results} {
		if fl == nil {
			continue
		}
		for _, par := range fl.List {
			for _, n := range par.Names {
				sc.vars[n.Name] = ""
			}
		}
	}
	return sc
}

func (t *fnTrans) args(args []ast.Expr, sc *scope) *stmt {
	var xs []*stmt
	for _, a := range args {
		xs = append(xs, t.expr(a, sc))
	}
	return seq(xs...)
}

func (t *fnTrans) call(x *ast.CallExpr, sc *scope) *stmt {
	args := t.args(x.Args, sc)
	// a goroutine left running by the callee is a resource held until a joining call
	switch f := x.Fun.(type) {
	case *ast.Ident:
		if _, local := sc.lookup(f.Name); !local && t.p.spawners[f.Name] {
			return seq(args, &stmt{kind: "Acq", s1: "goroutine", flag: true})
		}
		if _, local := sc.lookup(f.Name); !local && t.p.joiners[f.Name] {
			return seq(args, &stmt{kind: "Rel", s1: "goroutine", flag: true})
		}
	case *ast.SelectorExpr:
		if t.p.spawners[f.Sel.Name] {
			return seq(args, &stmt{kind: "Acq", s1: "goroutine", flag: true})
		}
		if t.p.joiners[f.Sel.Name] {
			return seq(args, &stmt{kind: "Rel", s1: "goroutine", flag: true})
		}
	}
	switch f := x.Fun.(type) {
	case *ast.Ident:
		switch f.Name {
		case "delete":
			if len(x.Args) > 0 {
				if c, ok := t.classOf(x.Args[0], sc); ok {
					return seq(args, acc(c, true))
				}
			}
			return args
		case "append", "len", "cap", "make", "new", "copy", "panic", "recover", "string", "uint64", "uint32", "int", "int32", "int64", "byte", "float64", "min", "max":
			return args
		}
		// plain function of the package: analysed like a method (table entry func.<name>)
		if _, local := sc.lookup(f.Name); !local && t.p.funcs[f.Name] != nil {
			return seq(args, &stmt{kind: "Call", s1: "@" + t.p.tag, s2: f.Name})
		}
		// a conversion, a function value held in a local, or a function without body
		return args
	case *ast.SelectorExpr:
		meth := f.Sel.Name
		// mutex operations on a field of a tracked object
		if c, ok := t.classOf(f.X, sc); ok && !strings.HasPrefix(c, "=") && t.p.mutexField[c] {
			switch meth {
			case "Lock":
				return seq(args, &stmt{kind: "Acq", s1: c, flag: true})
			case "Unlock":
				return seq(args, &stmt{kind: "Rel", s1: c, flag: true})
			case "RLock":
				return seq(args, &stmt{kind: "Acq", s1: c, flag: false})
			case "RUnlock":
				return seq(args, &stmt{kind: "Rel", s1: c, flag: false})
			}
			return seq(args, unsupported("mutex method "+meth))
		}
		if c, ok := t.classOf(f.X, sc); ok {
			if strings.HasPrefix(c, "=") {
				if _, isMethod := t.p.methods[c[1:]+"."+meth]; !isMethod {
					if _, isField := t.p.fieldElem[c[1:]+"."+meth]; isField || t.p.hasField(c[1:], meth) {
						// a function value stored in a field of the tracked object: reading the
						// field, then a call of an opaque function (like a function of another package)
						return seq(acc(c[1:]+"."+meth, false), args)
					}
				}
				// method of the tracked object itself
				return seq(args, &stmt{kind: "Call", s1: "@" + c[1:], s2: meth})
			}
			// the declared type of the field decides where the call goes: a method of one of
			// the package's own types (struct or interface) is a direct call of it
			if et := t.p.fieldElem[c]; et != "" && t.p.hasMethod(et, meth) {
				return seq(t.exprNoRoot(f.X, sc), acc(c, false), args, &stmt{kind: "Call", s1: "@" + et, s2: meth})
			}
			return seq(t.exprNoRoot(f.X, sc), args, &stmt{kind: "Call", s1: c, s2: meth})
		}
		// package-level function (fmt.Errorf, roaring.And, ...) or method of an untracked local
		return seq(t.expr(f.X, sc), args)
	case *ast.FuncLit:
		inner := &fnTrans{p: t.p}
		return seq(args, inner.block(f.Body.List, litScope(f, sc), true))
	case *ast.ParenExpr, *ast.ArrayType, *ast.MapType, *ast.StarExpr, *ast.InterfaceType:
		return args // conversion
	}
	return seq(args, unsupported(fmt.Sprintf("call %T", x.Fun)))
}

// write emits the write performed by assigning to lhs.
func (t *fnTrans) write(lhs ast.Expr, sc *scope) *stmt {
	switch x := lhs.(type) {
	case *ast.Ident:
		if _, ok := sc.lookup(x.Name); !ok && t.p.globals[x.Name] {
			return acc("global."+x.Name, true)
		}
		return skip
	case *ast.SelectorExpr, *ast.IndexExpr, *ast.StarExpr:
		if c, ok := t.classOf(x, sc); ok {
			var inner *stmt = skip
			if ie, ok := x.(*ast.IndexExpr); ok {
				inner = t.expr(ie.Index, sc)
			}
			return seq(inner, acc(c, true))
		}
		return skip
	case *ast.ParenExpr:
		return t.write(x.X, sc)
	}
	return unsupported(fmt.Sprintf("assignment target %T", lhs))
}

func (t *fnTrans) exitSeq() *stmt {
	var xs []*stmt
	for i := len(t.exits) - 1; i >= 0; i-- {
		xs = append(xs, t.exits[i])
	}
	return seq(xs...)
}

func (t *fnTrans) define(lhs []ast.Expr, rhs []ast.Expr, sc *scope) {
	for i, l := range lhs {
		id, ok := l.(*ast.Ident)
		if !ok || id.Name == "_" {
			continue
		}
		var src ast.Expr
		if len(rhs) == len(lhs) {
			src = rhs[i]
		} else if len(rhs) == 1 {
			src = rhs[0]
		}
		cls := ""
		if src != nil && i == 0 || (src != nil && len(rhs) == len(lhs)) {
			if c, ok := t.classOf(src, sc); ok && !strings.HasPrefix(c, "=") {
				cls = c
			}
		}
		sc.vars[id.Name] = cls // shadows whatever the name meant before (possibly the receiver)
	}
}

// block translates a statement list. closure=true: a function literal (return leaves only
// the literal; its own defers are not supported).
func (t *fnTrans) block(list []ast.Stmt, sc *scope, closure bool) *stmt {
	var xs []*stmt
	for i, s := range list {
		// "if c { ...; continue }  rest": rest runs only when the branch was not taken
		if is, ok := s.(*ast.IfStmt); ok && is.Else == nil && endsInBreak(is.Body, closure) && !containsDefer(is.Body) {
			nsc := &scope{vars: map[string]string{}, parent: sc}
			var init *stmt = skip
			if is.Init != nil {
				init = t.stmt(is.Init, nsc, closure)
			}
			cond := t.expr(is.Cond, nsc)
			thenSc := &scope{vars: map[string]string{}, parent: nsc}
			thenS := t.block(is.Body.List[:len(is.Body.List)-1], thenSc, closure)
			if rs, ok := is.Body.List[len(is.Body.List)-1].(*ast.ReturnStmt); ok {
				// a return inside a function literal only ends the literal
				var rx []*stmt
				for _, r := range rs.Results {
					rx = append(rx, t.expr(r, thenSc))
				}
				thenS = seq(thenS, seq(rx...))
			}
			rest := t.block(list[i+1:], sc, closure)
			xs = append(xs, init, cond, branch(thenS, rest))
			return seq(xs...)
		}
		xs = append(xs, t.stmt(s, sc, closure))
	}
	return seq(xs...)
}

func endsInBreak(b *ast.BlockStmt, closure bool) bool {
	if len(b.List) == 0 {
		return false
	}
	if _, ok := b.List[len(b.List)-1].(*ast.ReturnStmt); ok && closure {
		return true
	}
	br, ok := b.List[len(b.List)-1].(*ast.BranchStmt)
	return ok && (br.Tok == token.BREAK || br.Tok == token.CONTINUE)
}

func (t *fnTrans) stmt(s ast.Stmt, sc *scope, closure bool) *stmt {
	switch x := s.(type) {
	case *ast.ExprStmt:
		return t.expr(x.X, sc)
	case *ast.AssignStmt:
		var xs []*stmt
		for _, r := range x.Rhs {
			xs = append(xs, t.expr(r, sc))
		}
		if x.Tok == token.DEFINE {
			t.define(x.Lhs, x.Rhs, sc)
			return seq(xs...)
		}
		for i, l := range x.Lhs {
			if x.Tok != token.ASSIGN {
				xs = append(xs, t.expr(l, sc)) // op-assignment reads too
			}
			xs = append(xs, t.write(l, sc))
			// re-assignment of a local: it now stands for the new source
			if id, ok := l.(*ast.Ident); ok && x.Tok == token.ASSIGN {
				if _, known := sc.lookup(id.Name); known {
					var src ast.Expr
					if len(x.Rhs) == len(x.Lhs) {
						src = x.Rhs[i]
					} else if len(x.Rhs) == 1 && i == 0 {
						src = x.Rhs[0]
					}
					cls := ""
					if src != nil {
						if c, ok := t.classOf(src, sc); ok && !strings.HasPrefix(c, "=") {
							cls = c
						}
					}
					for c := sc; c != nil; c = c.parent {
						if old, ok := c.vars[id.Name]; ok {
							// taint is only ever added: the assignment may sit in a branch
							if !strings.HasPrefix(old, "=") && cls != "" {
								c.vars[id.Name] = cls
							}
							break
						}
					}
				}
			}
		}
		return seq(xs...)
	case *ast.IncDecStmt:
		return seq(t.expr(x.X, sc), t.write(x.X, sc))
	case *ast.DeclStmt:
		gd, ok := x.Decl.(*ast.GenDecl)
		if !ok {
			return unsupported("declaration")
		}
		var xs []*stmt
		for _, sp := range gd.Specs {
			if vs, ok := sp.(*ast.ValueSpec); ok {
				for _, v := range vs.Values {
					xs = append(xs, t.expr(v, sc))
				}
				var lhs []ast.Expr
				for _, n := range vs.Names {
					lhs = append(lhs, n)
				}
				t.define(lhs, vs.Values, sc)
			}
		}
		return seq(xs...)
	case *ast.ReturnStmt:
		var xs []*stmt
		for _, r := range x.Results {
			xs = append(xs, t.expr(r, sc))
		}
		if closure {
			// only as the last statement of the literal's body (checked by the caller's
			// pattern for nested returns): ends the literal, not the enclosing function
			return seq(xs...)
		}
		xs = append(xs, t.exitSeq(), &stmt{kind: "Ret"})
		return seq(xs...)
	case *ast.DeferStmt:
		if closure {
			return unsupported("defer inside a function literal")
		}
		d := t.call(x.Call, sc)
		// arguments are evaluated now, the call itself runs at exit; our skeletons do not
		// distinguish the two for mutex methods and closures without arguments
		t.exits = append(t.exits, d)
		return skip
	case *ast.IfStmt:
		nsc := &scope{vars: map[string]string{}, parent: sc}
		var init *stmt = skip
		if x.Init != nil {
			init = t.stmt(x.Init, nsc, closure)
		}
		cond := t.expr(x.Cond, nsc)
		// "if c { defer f() }": the deferred call runs at exit iff the branch was taken
		if !closure && x.Else == nil && len(x.Body.List) == 1 {
			if ds, ok := x.Body.List[0].(*ast.DeferStmt); ok {
				d := t.call(ds.Call, nsc)
				t.exits = append(t.exits, branch(d, skip))
				return seq(init, cond)
			}
		}
		if containsDefer(x.Body) || (x.Else != nil && containsDefer(x.Else)) {
			return unsupported("defer under a condition")
		}
		thenS := t.block(x.Body.List, &scope{vars: map[string]string{}, parent: nsc}, closure)
		var elseS *stmt = skip
		if x.Else != nil {
			elseS = t.stmt(x.Else, nsc, closure)
		}
		return seq(init, cond, branch(thenS, elseS))
	case *ast.BlockStmt:
		return t.block(x.List, &scope{vars: map[string]string{}, parent: sc}, closure)
	case *ast.ForStmt:
		if containsDefer(x.Body) {
			return unsupported("defer in a loop")
		}
		nsc := &scope{vars: map[string]string{}, parent: sc}
		var init, post *stmt = skip, skip
		if x.Init != nil {
			init = t.stmt(x.Init, nsc, closure)
		}
		cond := t.expr(x.Cond, nsc)
		if x.Post != nil {
			post = t.stmt(x.Post, nsc, closure)
		}
		body := t.block(x.Body.List, &scope{vars: map[string]string{}, parent: nsc}, closure)
		return seq(init, cond, loop(seq(body, post, cond)))
	case *ast.RangeStmt:
		if containsDefer(x.Body) {
			return unsupported("defer in a loop")
		}
		src := t.expr(x.X, sc)
		nsc := &scope{vars: map[string]string{}, parent: sc}
		cls := ""
		if c, ok := t.classOf(x.X, sc); ok && !strings.HasPrefix(c, "=") {
			cls = c
		}
		for _, kv := range []ast.Expr{x.Key, x.Value} {
			if id, ok := kv.(*ast.Ident); ok && id.Name != "_" {
				nsc.vars[id.Name] = cls
			}
		}
		var again *stmt = skip
		if cls != "" {
			again = acc(cls, false) // every iteration reads the container
		}
		body := t.block(x.Body.List, nsc, closure)
		return seq(src, loop(seq(again, body)))
	case *ast.SwitchStmt:
		nsc := &scope{vars: map[string]string{}, parent: sc}
		var init *stmt = skip
		if x.Init != nil {
			init = t.stmt(x.Init, nsc, closure)
		}
		tag := t.expr(x.Tag, nsc)
		return seq(init, tag, t.cases(x.Body, nsc, closure))
	case *ast.TypeSwitchStmt:
		nsc := &scope{vars: map[string]string{}, parent: sc}
		var init *stmt = skip
		if x.Init != nil {
			init = t.stmt(x.Init, nsc, closure)
		}
		return seq(init, t.stmt(x.Assign, nsc, closure), t.cases(x.Body, nsc, closure))
	case *ast.BranchStmt:
		return unsupported("break/continue/goto outside the supported pattern")
	case *ast.EmptyStmt:
		return skip
	case *ast.GoStmt:
		return unsupported("go statement")
	case *ast.SelectStmt:
		return unsupported("select")
	case *ast.SendStmt:
		return unsupported("channel send")
	case *ast.LabeledStmt:
		return t.stmt(x.Stmt, sc, closure)
	}
	return unsupported(fmt.Sprintf("statement %T", s))
}

func unsupportedIf(c bool, s *stmt) *stmt {
	if c {
		return unsupported("internal")
	}
	return s
}

func (t *fnTrans) cases(body *ast.BlockStmt, sc *scope, closure bool) *stmt {
	if containsDefer(body) {
		return unsupported("defer under a condition")
	}
	var res *stmt = skip
	for i := len(body.List) - 1; i >= 0; i-- {
		cc, ok := body.List[i].(*ast.CaseClause)
		if !ok {
			return unsupported("switch body")
		}
		var guards []*stmt
		for _, e := range cc.List {
			guards = append(guards, t.expr(e, sc))
		}
		arm := seq(seq(guards...), t.block(cc.Body, &scope{vars: map[string]string{}, parent: sc}, closure))
		res = branch(arm, res)
	}
	return res
}

func containsDefer(n ast.Node) bool {
	found := false
	ast.Inspect(n, func(m ast.Node) bool {
		switch m.(type) {
		case *ast.DeferStmt:
			found = true
		case *ast.FuncLit:
			return false
		}
		return !found
	})
	return found
}

// break/continue inside a loop body skip the rest of the iteration: make every statement
// after one optional. (A conservative rewrite: Branch(rest, Skip).)
func hasBreak(n ast.Node) bool {
	found := false
	ast.Inspect(n, func(m ast.Node) bool {
		if b, ok := m.(*ast.BranchStmt); ok && (b.Tok == token.BREAK || b.Tok == token.CONTINUE) {
			found = true
		}
		if _, ok := m.(*ast.FuncLit); ok {
			return false
		}
		return !found
	})
	return found
}

func (p *pkgInfo) translate(name string) *stmt {
	return p.translateDecl(p.methods[name])
}

func (p *pkgInfo) translateDecl(d *ast.FuncDecl) *stmt {
	t := &fnTrans{p: p}
	sc := &scope{vars: map[string]string{}}
	if d.Recv != nil {
		recv := d.Recv.List[0]
		if len(recv.Names) == 1 {
			sc.vars[recv.Names[0].Name] = "=" + typeName(recv.Type)
		}
	}
	for _, par := range d.Type.Params.List {
		tn := typeName(par.Type)
		for _, n := range par.Names {
			if _, ok := p.structs[tn]; ok {
				sc.vars[n.Name] = "=" + tn
			} else {
				sc.vars[n.Name] = "" // an untracked local; shadows a package-level name
			}
		}
	}
	if d.Type.Results != nil {
		for _, r := range d.Type.Results.List {
			for _, n := range r.Names {
				sc.vars[n.Name] = ""
			}
		}
	}
	body := t.block(d.Body.List, sc, false)
	return seq(body, t.exitSeq())
}

// A continue/break that is the LAST statement of an if-body inside the loop, where the
// statements following that if perform no tracked access, is harmless for our purposes; we
// accept only "continue"/"break" as the last statement of their block.
func loopWithBreakNeedsCare(body *ast.BlockStmt) bool {
	care := false
	var visit func(list []ast.Stmt)
	visit = func(list []ast.Stmt) {
		for i, s := range list {
			if b, ok := s.(*ast.BranchStmt); ok && (b.Tok == token.BREAK || b.Tok == token.CONTINUE) && i != len(list)-1 {
				care = true
			}
			ast.Inspect(s, func(m ast.Node) bool {
				switch mm := m.(type) {
				case *ast.BlockStmt:
					visit(mm.List)
					return false
				case *ast.CaseClause:
					visit(mm.Body)
					return false
				case *ast.FuncLit:
					return false
				}
				return true
			})
		}
	}
	visit(body.List)
	return care
}

func main() {
	dirs := []string{".", "driver"}
	if len(os.Args) >= 3 && strings.HasPrefix(os.Args[1], "-dirs=") {
		dirs = strings.Split(strings.TrimPrefix(os.Args[1], "-dirs="), ",")
		os.Args = append(os.Args[:1], os.Args[2:]...)
	}
	if len(os.Args) < 3 {
		fmt.Fprintln(os.Stderr, "usage: lockskel [-dirs=a,b] <repo dir> <out.v>")
		os.Exit(2)
	}
	repo, out := os.Args[1], os.Args[2]
	var sb strings.Builder
	sb.WriteString("(* Generated by /verif/tools/lockskel from the Go sources of the working tree. Do not edit. *)\n")
	sb.WriteString("From Coq Require Import String List.\nImport ListNotations.\nOpen Scope string_scope.\nFrom updog Require Import Conc.\n\n")
	sb.WriteString("Definition gen_funs : funtab := [\n")
	first := true
	var pairs []string
	var mutexPairs []string
	var allMutexes []string
	methodNames := map[string]bool{}
	var externalFields []string
	var selfSyncFields []string
	for _, dir := range dirs {
		tag := "func"
		if dir != "." {
			tag = "func." + dir
		}
		p := load(filepath.Join(repo, dir), tag)
		for m := range p.byName {
			methodNames[m] = true
		}
		for _, it := range p.interfaces {
			for _, m := range it.Methods.List {
				for _, mn := range m.Names {
					methodNames[mn.Name] = true
				}
			}
		}
		for f := range p.external {
			externalFields = append(externalFields, q(f))
		}
		for f := range p.selfSync {
			selfSyncFields = append(selfSyncFields, q(f))
		}
		perStruct := map[string][]string{}
		for mf := range p.mutexField {
			allMutexes = append(allMutexes, q(mf))
			st := mf[:strings.Index(mf, ".")]
			perStruct[st] = append(perStruct[st], mf)
		}
		for st, ms := range perStruct {
			if len(ms) == 1 {
				mutexPairs = append(mutexPairs, "("+q(st)+", "+q(ms[0])+")")
			}
		}
		var fnames []string
		for n := range p.funcs {
			fnames = append(fnames, n)
		}
		sort.Strings(fnames)
		for _, n := range fnames {
			s := p.translateDecl(p.funcs[n])
			if !first {
				sb.WriteString(";\n")
			}
			first = false
			fmt.Fprintf(&sb, " (%s,\n", q(tag+"."+n))
			s.coq(&sb, 2)
			sb.WriteString(")")
			collect(s, &pairs)
		}
		var names []string
		for n := range p.methods {
			names = append(names, n)
		}
		sort.Strings(names)
		for _, n := range names {
			s := p.translate(n)
			if !first {
				sb.WriteString(";\n")
			}
			first = false
			fmt.Fprintf(&sb, " (%s,\n", q(n))
			s.coq(&sb, 2)
			sb.WriteString(")")
			collect(s, &pairs)
		}
		// interface dispatch: I.m = a choice between all methods m of the package's types
		var inames []string
		for n := range p.interfaces {
			inames = append(inames, n)
		}
		sort.Strings(inames)
		for _, in := range inames {
			for _, m := range p.interfaces[in].Methods.List {
				for _, mn := range m.Names {
					impls := append([]string(nil), p.byName[mn.Name]...)
					sort.Strings(impls)
					var s *stmt = nil
					for i := len(impls) - 1; i >= 0; i-- {
						c := &stmt{kind: "Call", s1: "@" + impls[i], s2: mn.Name}
						if s == nil {
							s = c
						} else {
							s = &stmt{kind: "Branch", a: c, b: s}
						}
					}
					if s == nil {
						s = skip
					}
					if !first {
						sb.WriteString(";\n")
					}
					first = false
					fmt.Fprintf(&sb, " (%s,\n", q(in+"."+mn.Name))
					s.coq(&sb, 2)
					sb.WriteString(")")
				}
			}
		}
	}
	sb.WriteString("\n].\n\n")
	// structs with exactly one mutex field: that mutex is what guards the struct's mutable fields
	sb.WriteString("Definition gen_mutexes : list (string * string) := [")
	sort.Strings(mutexPairs)
	sb.WriteString(strings.Join(mutexPairs, "; "))
	sb.WriteString("].\n\n")
	// method names defined by the packages' own types and interfaces: a call of such a method
	// on a field must be resolved by the policy; any other method belongs to another package
	// every mutex field (candidates when a location has no guard of its own: see LockPolicy.choose_policy)
	sb.WriteString("Definition gen_all_mutexes : list string := [")
	sort.Strings(allMutexes)
	sb.WriteString(strings.Join(allMutexes, "; "))
	sb.WriteString("].\n\n")
	sb.WriteString("Definition gen_methods : list string := [")
	var ms []string
	for m := range methodNames {
		ms = append(ms, q(m))
	}
	sort.Strings(ms)
	sb.WriteString(strings.Join(ms, "; "))
	sb.WriteString("].\n\n")
	// fields whose declared (element) type belongs to another package: any method called on
	// them is that package's
	sb.WriteString("Definition gen_external : list string := [")
	sort.Strings(externalFields)
	sb.WriteString(strings.Join(externalFields, "; "))
	sb.WriteString("].\n\n")
	// fields that are safe for concurrent use by themselves (sync/atomic values, sync.Map, sync.Pool,
	// sync.Once, sync.WaitGroup, channels)
	sb.WriteString("Definition gen_selfsync : list string := [")
	sort.Strings(selfSyncFields)
	sb.WriteString(strings.Join(selfSyncFields, "; "))
	sb.WriteString("].\n\n")
	sb.WriteString("Definition gen_entry (n : string) : stmt :=\n  match lookup_fun gen_funs n with Some s => s | None => Unsupported (\"missing function \" ++ n) end.\n\n")
	sort.Strings(pairs)
	sb.WriteString("(* accesses and calls that occur (for writing the policy):\n")
	last := ""
	for _, pr := range pairs {
		if pr != last {
			sb.WriteString("   " + pr + "\n")
		}
		last = pr
	}
	sb.WriteString("*)\n")
	if err := os.WriteFile(out, []byte(sb.String()), 0644); err != nil {
		fmt.Fprintln(os.Stderr, "lockskel:", err)
		os.Exit(2)
	}
}

func collect(s *stmt, out *[]string) {
	if s == nil {
		return
	}
	switch s.kind {
	case "Acc":
		*out = append(*out, "Acc "+s.s1)
	case "Call":
		*out = append(*out, "Call "+s.s1+" "+s.s2)
	case "Acq", "Rel":
		*out = append(*out, "Lock "+s.s1)
	case "Unsupported":
		*out = append(*out, "UNSUPPORTED "+s.s1)
	}
	collect(s.a, out)
	collect(s.b, out)
}

module lockskel

go 1.23

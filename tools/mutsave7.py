#!/usr/bin/env python3
"""mutsave6.py <agent letter> <k> <caught-by text> <checks,comma> : archive a round-7 seeded change."""
import json, os, re, shutil, sys
x, k, caught, checks = sys.argv[1], sys.argv[2], sys.argv[3], sys.argv[4].split(",")
src = "/tmp/mut7/%s/_out/m%s" % (x, k)
meta = open(os.path.join(src, "meta.txt")).read().strip()
prop = re.search(r"PROPERTY:\s*(C\d\d)", meta).group(1)
name = "r7%sm%s" % (x, k)
dst = "/verif/seeded/%s-%s" % (prop, name)
os.makedirs(dst, exist_ok=True)
for f in os.listdir(src):
    if os.path.isfile(os.path.join(src, f)):
        shutil.copy(os.path.join(src, f), dst)
confirm = open("/var/tmp/mutout/%s-%s/confirm.txt" % (prop, name)).read().strip().splitlines()
json.dump({"property": prop, "needs_to_manifest": meta, "confirmed": confirm[0] if confirm else "", "checks_run": confirm[1:], "caught_by": caught, "checks": checks,
           "how_run": "tools/mutround7.sh %s (patch applied in a scratch copy of the repository, VERIF_REPO pointing at it; /repo untouched)" % x},
          open(os.path.join(dst, "meta.json"), "w"), indent=1)
print("saved", dst)

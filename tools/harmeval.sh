#!/bin/bash
# harmeval.sh <patch dir (contains patch.diff)> <name> <check ids...> : apply a HARMLESS change to a scratch
# worktree of /repo and run the named quick checks against it; every FAIL is a false alarm.
set -u
PD=$1; NAME=$2; shift 2
wt=/var/tmp/harmwt/$NAME
mkdir -p /var/tmp/harmwt /var/tmp/harmout
git -C /repo worktree remove --force $wt >/dev/null 2>&1; rm -rf $wt
git -C /repo worktree add -q --detach $wt HEAD >/dev/null 2>&1 || { echo "$NAME: worktree failed"; exit 0; }
( cd $wt && git apply $PD/patch.diff ) || { echo "$NAME: PATCH DOES NOT APPLY"; git -C /repo worktree remove --force $wt; exit 0; }
for c in "$@"; do
  out=/var/tmp/harmout/$NAME-$c; rm -rf $out; mkdir -p $out
  ( cd /verif && VERIF_REPO=$wt VERIF_OUT=$out timeout 2400 ./check $c --tier quick > $out/log 2>&1 ); rc=$?
  if [ $rc -eq 0 ]; then echo "$NAME $c: pass"; else echo "$NAME $c: ALARM rc=$rc $(grep -m1 'violation:' $out/log | cut -c1-260)"; fi
done
git -C /repo worktree remove --force $wt >/dev/null 2>&1; rm -rf $wt

#!/bin/bash
# mutround6.sh <agent letter A-D> [extra checks...] : evaluate /tmp/mut7/<X>/_out/m1..m8; the property comes
# from the PROPERTY line of meta.txt.
X=$1; shift
for k in 1 2 3 4 5 6 7 8; do
  d=/tmp/mut7/$X/_out/m$k
  [ -f $d/patch.diff ] || continue
  props=$(grep -m1 -oE '^PROPERTY:.*' $d/meta.txt | grep -oE 'C[0-9][0-9]' | tr '\n' ' ')
  [ -z "$props" ] && { echo "$X m$k: no PROPERTY line"; continue; }
  first=$(echo $props | cut -d' ' -f1)
  rm -rf /var/tmp/mut7w/$X$k; mkdir -p /var/tmp/mut7w; cp -r $d /var/tmp/mut7w/r7${X}m$k
  /verif/tools/muteval.sh $first /var/tmp/mut7w/r7${X}m$k /tmp/mut7/$X $props "$@" 2>&1 | grep -E "build=|check " | cut -c1-260
done

#!/bin/bash
# muteval.sh <PROP> <mutant dir (contains patch.diff + demo)> <worktree of the repo> <check ids...>
# 1. confirms in the worktree: the patch applies, builds, the project's tests still pass, and the
#    demonstration fails with the patch and passes without it;
# 2. runs the named quick checks with VERIF_REPO pointing at the patched worktree (evidence and
#    replays go to a scratch VERIF_OUT, /repo is never touched);
# 3. restores the worktree.
set -u
PROP=$1; MDIR=$2; WT=$3; shift 3
export GOFLAGS=-mod=mod GOPROXY=off GOSUMDB=off GOTOOLCHAIN=local
NAME=$(basename "$MDIR")
case "$MDIR" in *_out2*) NAME="r2$NAME";; *_out3*) NAME="r3$NAME";; *_out4*) NAME="r4$NAME";; *_out5*) NAME="r5$NAME";; esac
OUT=/var/tmp/mutout/$PROP-$NAME
rm -rf "$OUT"; mkdir -p "$OUT"
cd "$WT" || exit 2
git checkout -q -- . ; git clean -fdq -e _out -e _out2 -e _out3 -e _out4 -e _out5
DEMOFILES=$(ls "$MDIR" | grep -E '_test\.go$|\.go$' | grep -v '^patch')
rundemo() {
  # demos are test files for the project root unless DEMO.txt says otherwise
  for f in $DEMOFILES; do
    dir=$(grep -oE '(internal/queryparser|internal/convert|cmd/updog|driver)/?' "$MDIR/DEMO.txt" | head -1)
    dir=${dir%/}
    if [ -n "$dir" ]; then cp "$MDIR/$f" "$WT/$dir/$f"; else cp "$MDIR/$f" "$WT/$f"; fi
  done
  cmd=$(grep -oE 'go test[^`]*' "$MDIR/DEMO.txt" | head -1)
  [ -z "$cmd" ] && cmd="go test -vet=off -count=1 ./..."
  ( cd "$WT" && timeout 600 bash -c "$cmd" ) > "$OUT/demo-$1.log" 2>&1
  rc=$?
  for f in $DEMOFILES; do find "$WT" -name "$f" -not -path "*/_out/*" -not -path "*/_out2/*" -not -path "*/_out3/*" -not -path "*/_out4/*" -not -path "*/_out5/*" -delete; done
  return $rc
}
rundemo clean; DEMO_CLEAN=$?
git apply "$MDIR/patch.diff" || { echo "$PROP $NAME: PATCH DOES NOT APPLY"; exit 2; }
go build ./... > "$OUT/build.log" 2>&1; BUILD=$?
go test -vet=off -count=1 ./... > "$OUT/tests.log" 2>&1; TESTS=$?
rundemo patched; DEMO_PATCHED=$?
echo "$PROP $NAME: build=$BUILD tests=$TESTS demo_clean=$DEMO_CLEAN demo_patched=$DEMO_PATCHED" | tee "$OUT/confirm.txt"
for c in "$@"; do
  ( cd /verif && VERIF_REPO="$WT" VERIF_OUT="$OUT" timeout 2400 ./check "$c" --tier quick > "$OUT/check-$c.log" 2>&1; echo "$PROP $NAME: check $c rc=$? $(grep -c '^VIOLATION' "$OUT/check-$c.log") violation line(s): $(grep -m1 'violation:' "$OUT/check-$c.log" | cut -c1-220)" ) | tee -a "$OUT/confirm.txt"
done
cd "$WT" && git checkout -q -- . && git clean -fdq -e _out -e _out2 -e _out3 -e _out4 -e _out5

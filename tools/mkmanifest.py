#!/usr/bin/env python3
"""Regenerates /verif/MANIFEST.json from the table below (kept in one place so that the
manifest stays valid and in sync with what is built)."""
import json, os

VERIF = os.path.dirname(os.path.dirname(os.path.abspath(__file__)))

COMMON_NOTE = ("Trusted: Coq 8.16.1 kernel, std++ 1.8.0, extraction (ExtrOcamlBasic only), the OCaml driver, "
               "the Go harness and Python comparator of /verif; modelled rather than verified: roaring, bbolt, xxhash "
               "(as an injective function), gob, protobuf, gRPC, database/sql, the Go runtime. The theorems are about the "
               "Gallina model; the model is tied to /repo's working tree on every run by the differential correspondence.")

CHECKS = {
    "C07": dict(
        text=("Theorems over the Gallina model of LRUCache for every operation list, capacity (0 included) and overhead: a hit "
              "returns the latest Put on that key; byte bound after every operation; residents are exactly the m most recently "
              "used keys of the history; fits-then-retrievable; no needless eviction; counters. Tied to cache.go by running "
              "LRUCache and the extracted model on the same exhaustive short and random long operation sequences, with trace "
              "monitors evaluating the property text directly on the implementation."),
        design="5/C07",
        technique="Coq proof (invariant + history refinement over fold of steps) + extracted-model differential correspondence"),
}

PENDING = {}


def main():
    all_ids = [json.loads(l)["id"] for l in open(os.path.join(VERIF, "properties.jsonl"))]
    checks = []
    for pid in all_ids:
        if pid not in CHECKS:
            continue
        c = CHECKS[pid]
        checks.append({
            "property_id": pid,
            "quick_cmd": "./check %s --tier quick" % pid,
            "thorough_cmd": "./check %s --tier thorough" % pid,
            "evidence_file": "/verif/evidence/%s.json" % pid,
            "replay_cmd_template": "./check %s --replay {path}" % pid,
            "engine": "coq-model+correspondence",
            "level_claimed": {"category": c.get("category", "proof"), "text": c["text"], "design_ref": "DESIGN.md section " + c["design"]},
            "level_note": c.get("note", COMMON_NOTE),
            "technique": c["technique"],
        })
    na = [{"property_id": pid, "reason": PENDING.get(pid, "check not built yet at this commit (work in progress; planned per DESIGN.md section 5)")}
          for pid in all_ids if pid not in CHECKS]
    man = {
        "version": 1,
        "setup_cmd": "./setup.sh",
        "hooks": {
            "guard": "verif",
            "enable": "go build -tags verif (the checks build a scratch copy of /repo's working tree with this tag)",
            "baseline_off_cmd": "cd /repo && GOFLAGS=-mod=mod GOPROXY=off GOSUMDB=off GOTOOLCHAIN=local go test -json -vet=off -count=1 -timeout 25m ./...",
            "source_commits": HOOK_COMMITS,
            "add_only": True,
        },
        "engines": [{"name": "coq-model+correspondence", "path": "/verif/check",
                     "serves_properties": [c["property_id"] for c in checks],
                     "kind_free_text": "Gallina models + theorems (coq/theories, Props/Cxx.v), extracted to OCaml (modeldrv) and compared with the Go implementation driven by harness/ in a scratch copy of /repo's working tree"}],
        "checks": checks,
        "notes": "See DESIGN.md. known_findings.json lists recorded/fixed defects. Exit 2 from a check means the framework failed (no verdict).",
        "not_applicable": na,
    }
    with open(os.path.join(VERIF, "MANIFEST.json"), "w") as fh:
        json.dump(man, fh, indent=1)
    print("MANIFEST.json: %d checks, %d not_applicable" % (len(checks), len(na)))


HOOK_COMMITS = []

if __name__ == "__main__":
    main()

#!/usr/bin/env python3
"""Regenerates /verif/MANIFEST.json from the table below (kept in one place so that the
manifest stays valid and in sync with what is built)."""
import json, os

VERIF = os.path.dirname(os.path.dirname(os.path.abspath(__file__)))

COMMON_NOTE = ("Trusted: Coq 8.16.1 kernel, std++ 1.8.0, extraction (ExtrOcamlBasic only), the OCaml driver, "
               "the Go harness and Python comparator of /verif; modelled rather than verified: roaring, bbolt, xxhash "
               "(as an injective function), gob, protobuf, gRPC, database/sql, the Go runtime. The theorems are about the "
               "Gallina model; the model is tied to /repo's working tree on every run by the differential correspondence.")

T_DIFF = "extracted-model differential correspondence (Go harness in a scratch copy of the working tree vs the OCaml extraction of the Gallina model)"

CHECKS = {
    "C01": dict(
        text=("Theorem (Props/C01.v): for every dataset (< 2^32 rows, NUL-free column names), every expression with non-empty AND/OR, "
              "every writer and open mode, run_query = the row-scan specification (count, or error iff a tested column occurs in no row); "
              "proved by refinement writer -> store -> index (invariant over the row list) and structural induction on the expression, "
              "hash idealised as injective. Tied to the code by building every dataset with IndexWriter.Flush, WriteToBoltDatabase and "
              "BigIndexWriter, opening on demand and preloaded, and comparing counts with the extracted model, the extracted specification "
              "and an independent Python row scan (boundary sizes 999..65537, hostile strings, one leaf query per stored value)."),
        design="5/C01", technique="Coq proof (refinement + structural induction) + " + T_DIFF),
    "C02": dict(
        text=("Theorems (Props/C02.v): the nested group-by refinement computes spec_groups for any group-by list (repeated/unknown columns), "
              "and spec_groups is characterised declaratively: per-group exact counts > 0, completeness, partition of rows, strictly "
              "increasing lexicographic order (hence no duplicates), empty list -> no groups. Tied to the code by comparing ordered groups "
              "(fields, counts, errors) for group-by lists of length 0..6 on all writer/open configurations."),
        design="5/C02", technique="Coq proof (fold invariant over group-by columns, sortedness/uniqueness) + " + T_DIFF),
    "C03": dict(
        text=("Theorems (Props/C03.v): cache keys are injective on expressions; for EVERY cache satisfying a two-clause contract (hit returns "
              "a value some expression with that key evaluates to; such puts keep the invariant) every result of every finite query history "
              "equals the uncached execute; instances: no cache and the LRU cache with any capacity (0 included), overhead and size function. "
              "Tied to the code by histories of 2..40 queries on one handle behind a recording cache (capacities 0..ample, on demand and "
              "preloaded), compared with a fresh uncached handle and the model; cached/preloaded bitmaps re-serialised to detect mutation."),
        design="5/C03", technique="Coq proof (logical invariant over cache states, key injectivity) + " + T_DIFF),
    "C04": dict(
        text=("Theorems: (Props/C04.v) evaluation as a resumption with one atomic cache operation per step returns, under EVERY schedule of any "
              "number of threads, exactly the sequential uncached answers (logical relation on resumptions), and some schedule finishes; "
              "(Conc.v + coq/obligations/ObC04.v) the lock skeletons regenerated from cache.go/query.go/index.go by tools/lockskel satisfy the "
              "lockset discipline, which is proved to imply race freedom (conflicting accesses separated by release/acquire) and atomicity of "
              "exclusive sections. Partial: data races inside roaring/bbolt/metric sinks are outside the skeletons; the -race stress "
              "(2..16 goroutines, all cache configurations, LRUCache hammered directly) is supporting evidence and the search for a replay."),
        design="5/C04", technique="Coq proof (logical relation over resumptions; lockset soundness) + source-to-skeleton translator + race-detector stress"),
    "C05": dict(
        text=("Theorems (Props/C05.v): AddRow ids are 0..n-1 for both writers; both writers produce the SAME store for every hash function; the "
              "opened index has exactly the sorted columns/values added and one row per AddRow; membership of every (column,value) is exact "
              "(every query = row scan). Tied to the code by AddRow return values, GetSchema before/after reopen, per-value probes, group-by on a "
              "unique column, datasets on both sides of the 1000-value and 1000-row batches."),
        design="5/C05", technique="Coq proof (simulation between writers, sorted-list uniqueness) + " + T_DIFF),
    "C06": dict(
        text=("Theorems (Props/C06.v): every crash state (empty database, any committed prefix of the flush transactions, any map iteration "
              "order) of both writers is rejected by open_index or IS the complete index; opening never panics. Partial: atomicity of a bbolt "
              "commit and SIGKILL inside a system call are trusted. Tied to the code by a verif-tag hook that snapshots the output file after "
              "every commit; each snapshot must be rejected (lock released, file untouched) or answer schema and probes like the complete "
              "index; plus a SIGKILL stream on `updog create`."),
        design="5/C06", technique="Coq proof (invariant over commit prefixes) + commit-point fault enumeration via build-tag hook"),
    "C07": dict(
        text=("Theorems over the Gallina model of LRUCache for every operation list, capacity (0 included) and overhead: a hit "
              "returns the latest Put on that key; byte bound after every operation; residents are exactly the m most recently "
              "used keys of the history; fits-then-retrievable; no needless eviction; counters. Tied to cache.go by running "
              "LRUCache and the extracted model on the same exhaustive short and random long operation sequences, with trace "
              "monitors evaluating the property text directly on the implementation."),
        design="5/C07",
        technique="Coq proof (invariant + history refinement over fold of steps) + extracted-model differential correspondence"),
    "C08": dict(
        text=("Theorem (Props/C08.v): any sequence of executions of one Query value on any indexes returns what fresh equal queries return and "
              "leaves the visible fields unchanged; the pinned variant (scratch list kept) is refuted by a computed example. Tied to the code "
              "by executing one *updog.Query 1..5 times on 1..3 indexes with different schemas and comparing with fresh queries and the model."),
        design="5/C08", technique="Coq proof (induction over the execution sequence) + " + T_DIFF),
    "C09": dict(
        text=("Theorems (Props/C09.v): parse_query is total on every byte string (fuel proved sufficient); it returns a query iff the input "
              "lexes without error to a sentence of the file-header grammar (inductive G_query), and the tree is the unique one the grammar "
              "prescribes (n-ary chains, ^ tightest, parentheses only group); lexer errors reject; the lexer stream always ends with one "
              "EOF/error item. Tied to the code by ~6000 (thorough 60000) strings per run: derivations with random white space, token "
              "mutations, raw bytes, placeholder edge cases, chains of up to 2500 comparisons; accept/reject and tree compared; goroutine count must "
              "return to baseline; (ObC09.v) on the skeleton of ParseQuery regenerated from the source every path to a return joins the lexer "
              "goroutine it started (lockset soundness of Conc.v with goroutine start / join as acquire / release). "
              "Partial: goroutine stack exhaustion at ~10^6 nesting levels cannot be exhibited by the model."),
        design="5/C09", technique="Coq proof (soundness/completeness of a fuelled recursive-descent parser w.r.t. an inductive grammar) + " + T_DIFF),
    "C10": dict(
        text=("Theorems (Props/C10.v): for every well-formed tree the formatted text is accepted, the re-parsed tree equals the original after "
              "normalisation with the same group-by, re-parsed trees are well-formed, and the second-round text is a fixpoint; values survive "
              "quoting for all byte strings. Tied to the code by comparing QueryToString / ParseQuery with the model byte for byte over small "
              "trees exhaustively and random deep/wide trees with hostile values."),
        design="5/C10", technique="Coq proof (lexer-on-spelled-tokens lemma, grammar derivation for formatted trees, normal forms) + " + T_DIFF),
    "C11": dict(
        text=("Theorems (Props/C11.v): bind succeeds iff enough arguments, and then is exactly the substitution relation (functional, shape "
              "preserving, no placeholder left, extra arguments ignored); too few arguments is Err, never Panic; prepared path = direct path "
              "when the count matches. Tied to the code by ReplacePlaceholders on random trees/arguments (template serialised before/after) "
              "and by DB.Query / DB.Prepare+Stmt.Query with 1..5 executions against the model's rows."),
        design="5/C11", technique="Coq proof (inductive substitution relation) + " + T_DIFF),
    "C12": dict(
        text=("Theorems (Props/C12.v): a statement returns rows iff bind and execute succeed, and the rows are rows_of the library result: "
              "columns = group-by columns then count, TEXT.. then BIGINT, one row per group in library order, no rows for grouped-no-match, "
              "one count row ungrouped; library error => error; never Panic. Tied to the code through database/sql with DSN options "
              "{-, preload, lrucache+size, both, invalid size}: Columns, ColumnTypes and every scanned row compared."),
        design="5/C12", technique="Coq proof (characterisation of rows_of / statement path) + " + T_DIFF),
    "C13": dict(
        text=("Theorems (Props/C13.v): serve returns Ok rs iff every member succeeds, and then rs has one result per query in order, each "
              "carrying the query's id (position+1 when 0) and the library's count and groups; any invalid member makes the whole call Err "
              "(never a partial response); conversion is lossless both ways; the grpc statement path yields the same rows as the file path. "
              "Tied to the code by the real `updog server` (cache on/off x preload on/off) on a loopback port: batches of 0..12 queries with "
              "explicit/zero/negative/duplicate ids and invalid members compared in full with the model; database/sql grpc:// vs file:. "
              "Partial: transport and protobuf are trusted; non-UTF-8 strings cannot cross gRPC (known finding)."),
        design="5/C13", technique="Coq proof (characterisation of the batch handler, lossless conversion) + " + T_DIFF + " against the real server process"),
    "C14": dict(
        text=("Theorems (Props/C14.v): for every wire tree with any omission (unset oneof, Not without operand, empty/unset And/Or members, "
              "no expression) serve never panics or hangs; a request is an error exactly when a member has no expression, a hole, or is "
              "rejected by the library; later requests are unaffected. Tied to the code by systematic omission at every position of valid "
              "trees, deep nesting and bad members inside batches, run in-process under recover and against the real server process, which "
              "must be alive and answering at the end; every answer compared with the model."),
        design="5/C14", technique="Coq proof (totality / error characterisation over wire trees with omissions) + " + T_DIFF + " + liveness monitor on the server process"),
    "C15": dict(
        text=("Theorems (Props/C15.v): a failed open leaves content and locks unchanged, a missing path stays missing, no panic/hang without a "
              "writer, close releases and is idempotent, and for every open/close sequence the lock is held iff a live handle exists and the "
              "file is unchanged. Partial: flock(2) itself is trusted. Tied to the code by files damaged through the bbolt API (every single "
              "defect, pairs across schema/counter/bitmaps, zero-length, garbage, missing) x 4 option sets: outcome class vs model, lock "
              "probe, file hash, double Close, reopen."),
        design="5/C15", technique="Coq proof (state machine over files and locks) + " + T_DIFF + " + fault enumeration of damaged files"),
    "C16": dict(
        text=("Theorems (Props/C16.v, small): flush on an existing path is Err and leaves the file system unchanged; the read path never "
              "changes file contents. The assurance comes mostly from the tie: pre-existing contents {empty, valid index, random, read-only, "
              "short} x both create paths, and open/query/GetSchema/close rounds under 4 option sets, SHA-256 before/after."),
        design="5/C16", technique="Coq proof (file-system model) + file-hash differential on the implementation"),
    "C17": dict(
        text=("Theorems (Props/C17.v): for every well-formed driver-level operation list no operation panics/hangs, every query is evaluated "
              "on the index of the file its handle was opened on, and when the last handle on a file is closed the file is released and the "
              "cache entry gone (exact reference counting invariant); pinned variant refuted. (ObC17.v) the connection cache is accessed only "
              "under the driver mutex, taken at most once per Open/Close (skeletons regenerated from driver.go), so every schedule is an "
              "operation list. Tied to the code by random well-formed histories vs the extracted state machine (fresh process each), "
              "database/sql scenarios with pools 1..4, 16 goroutines' first use, lock probes, relative and absolute data source names; the "
              "name parsing of Open/openFile is modelled (Dsn.v: the cache key determines the options; url.ParseQuery with percent-decoding, "
              "DsnEscape.v: unescape undoes QueryEscape on every byte string and is the identity on escape-free text), histories also over the same "
              "options spelled differently. Partial: database/sql's pool policy is trusted."),
        design="5/C17", technique="Coq proof (state-machine invariant with exact counting; lockset soundness) + source-to-skeleton translator + " + T_DIFF),
    "C18": dict(
        text=("Theorems: (Props/C18.v, AddRowConc.v) for every schedule of any number of threads executing AddRow as micro-steps under a mutex, "
              "the final writer state is the sequential insertion in lock-acquisition order, the k-th acquiring call returned id k, ids are a "
              "permutation of 0..n-1, no row is lost or duplicated (both writers); without the mutex or with the increment after the unlock a "
              "duplicate id is computed. (ObC18.v + Conc.v) the AddRow skeletons regenerated from the source keep every access to writer state "
              "inside one exclusive section of the writer mutex, hence race freedom and atomicity. Tied to the code by 2..32 goroutines adding "
              "tagged rows under -race: ids a permutation, flushed index equal to the model's index of the rows in id order."),
        design="5/C18", technique="Coq proof (invariant over micro-step interleavings; lockset soundness) + source-to-skeleton translator + race-detector stress + " + T_DIFF),
    "C19": dict(
        text=("Theorems (Props/C19.v): header normalisation maps every code point to a-z or '_' (one byte per rune); record i is row i with field "
              "j under header column j; normal and --big modes give the same result; existing output or malformed CSV => error; the created "
              "index answers every query like a row scan over the ingested records; from the BYTES of the file (CsvBytes.v: encoding/csv "
              "reader with create.go's configuration, Go's rune decoding): every spelling of a table reads back exactly, ragged tables are "
              "rejected, CR LF = LF, UTF-8 round trip, create_bytes(written table) = create(table). The reader / rune models are compared "
              "with the real ones text by text (exhaustive for short texts) and the binary is run on hand-made files the model decides. "
              "Tied to the code by the built binary on CSVs written by "
              "encoding/csv (hostile fields and headers, 0..1500 records) in both modes: exit status, second run on the existing output "
              "(hash unchanged), created index vs the model's index, malformed files, and header normalisation vs normalize_rune (sampled; all "
              "code points in thorough)."),
        design="5/C19", technique="Coq proof (ingest characterisation, corollary of C01/C02/C05) + " + T_DIFF + " on the built binary"),
}

PENDING = {}


def main():
    all_ids = [json.loads(l)["id"] for l in open(os.path.join(VERIF, "properties.jsonl"))]
    checks = []
    for pid in all_ids:
        if pid not in CHECKS:
            continue
        c = CHECKS[pid]
        checks.append({
            "property_id": pid,
            "quick_cmd": "./check %s --tier quick" % pid,
            "thorough_cmd": "./check %s --tier thorough" % pid,
            "evidence_file": "/verif/evidence/%s.json" % pid,
            "replay_cmd_template": "./check %s --replay {path}" % pid,
            "engine": "coq-model+correspondence",
            "level_claimed": {"category": c.get("category", "proof"), "text": c["text"], "design_ref": "DESIGN.md section " + c["design"]},
            "level_note": c.get("note", COMMON_NOTE),
            "technique": c["technique"],
        })
    na = [{"property_id": pid, "reason": PENDING.get(pid, "check not built yet at this commit (work in progress; planned per DESIGN.md section 5)")}
          for pid in all_ids if pid not in CHECKS]
    man = {
        "version": 1,
        "setup_cmd": "./setup.sh",
        "hooks": {
            "guard": "verif",
            "enable": "go build -tags verif (the checks build a scratch copy of /repo's working tree with this tag)",
            "baseline_off_cmd": "cd /repo && GOFLAGS=-mod=mod GOPROXY=off GOSUMDB=off GOTOOLCHAIN=local go test -json -vet=off -count=1 -timeout 25m ./...",
            "source_commits": HOOK_COMMITS,
            "add_only": True,
        },
        "engines": [{"name": "coq-model+correspondence", "path": "/verif/check",
                     "serves_properties": [c["property_id"] for c in checks],
                     "kind_free_text": "Gallina models + theorems (coq/theories, Props/Cxx.v), extracted to OCaml (modeldrv) and compared with the Go implementation driven by harness/ in a scratch copy of /repo's working tree"}],
        "checks": checks,
        "notes": "See DESIGN.md. known_findings.json lists recorded/fixed defects. Exit 2 from a check means the framework failed (no verdict).",
        "not_applicable": na,
    }
    with open(os.path.join(VERIF, "MANIFEST.json"), "w") as fh:
        json.dump(man, fh, indent=1)
    print("MANIFEST.json: %d checks, %d not_applicable" % (len(checks), len(na)))


HOOK_COMMITS = ["9b80845"]

if __name__ == "__main__":
    main()

#!/bin/bash
# Re-evaluate every archived seeded change against the current checks (8 at a time), each in its
# own scratch worktree of /repo. Prints one line per (change, check): caught / MISSED.
set -u
mkdir -p /var/tmp/mutregress
cd /verif
ls -d seeded/*/ | sed 's#/$##' | grep -E "${MUTFILTER:-.}" | xargs -P 8 -I{} bash -c '
  d={}; name=$(basename $d); wt=/var/tmp/mutregress/$name
  git -C /repo worktree remove --force $wt >/dev/null 2>&1; rm -rf $wt
  git -C /repo worktree add -q --detach $wt HEAD >/dev/null 2>&1 || { echo "$name: worktree failed"; exit 0; }
  ( cd $wt && git apply /verif/$d/patch.diff ) || { echo "$name: PATCH DOES NOT APPLY"; git -C /repo worktree remove --force $wt; exit 0; }
  for c in $(python3 -c "import json;print(\" \".join(json.load(open(\"/verif/$d/meta.json\"))[\"checks\"]))"); do
    out=/var/tmp/mutregress/out-$name-$c; rm -rf $out; mkdir -p $out
    ( cd /verif && VERIF_REPO=$wt VERIF_OUT=$out timeout 2400 ./check $c --tier quick --seed ${MUTSEED:-1} > $out/log 2>&1 ); rc=$?
    n=$(grep -c "^VIOLATION" $out/log)
    if [ $rc -eq 1 ] && [ $n -gt 0 ]; then echo "$name $c: caught ($(grep -m1 -c no-failing-input-found $out/log) nfi)"; else echo "$name $c: MISSED rc=$rc"; fi
  done
  git -C /repo worktree remove --force $wt >/dev/null 2>&1; rm -rf $wt
'

#!/bin/sh
# One-time build after a fresh restore (offline): the Coq development (full .vo build),
# the extracted OCaml model driver, and a warm-up build of the Go harness.
set -e
cd "$(dirname "$0")"
export GOFLAGS=-mod=mod GOPROXY=off GOSUMDB=off GOTOOLCHAIN=local
( cd coq && coq_makefile -f _CoqProject -o Makefile >/dev/null && timeout 3000 make -j16 )
./modeldrv/build.sh
# warm the Go build cache (plain and race) from a scratch copy, then remove it
S=$(mktemp -d /var/tmp/updog-verif-setup.XXXXXX)
trap 'rm -rf "$S"' EXIT
rsync -a --exclude .git "${VERIF_REPO:-/repo}/" "$S/repo/"
mkdir -p "$S/repo/zzverif" && cp harness/*.go "$S/repo/zzverif/"
( cd "$S/repo" && go build -tags verif -o "$S/zz" ./zzverif && go build -tags verif -race -o "$S/zzr" ./zzverif && go build -tags verif -o "$S/updog" ./cmd/updog ) || echo "warm-up build failed (checks will report it)"
echo "setup done"

#!/bin/sh
# Extract the Coq models to OCaml and build the model driver.
set -e
cd "$(dirname "$0")"
timeout 600 coqc -Q ../coq/theories updog Extract.v > extract.log 2>&1 || { cat extract.log; exit 1; }
rm -f Extract.vo Extract.vok Extract.vos Extract.glob .Extract.aux
ocamlfind ocamlopt -O3 -w -a -package str model.mli model.ml driver.ml -o modeldrv 2>/dev/null || \
ocamlfind ocamlopt -w -a model.mli model.ml driver.ml -o modeldrv

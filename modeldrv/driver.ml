(* Model driver: reads a case file, evaluates the extracted Coq model, prints one
   observable per line.  Hand-written glue (trusted): parsing and printing only. *)
open Model

let rec pos_of_int (i : int) : positive =
  if i = 1 then XH else if i land 1 = 0 then XO (pos_of_int (i lsr 1)) else XI (pos_of_int (i lsr 1))
let n_of_int (i : int) : n = if i = 0 then N0 else Npos (pos_of_int i)
let rec int_of_pos (p : positive) : int =
  match p with XH -> 1 | XO q -> 2 * int_of_pos q | XI q -> 2 * int_of_pos q + 1
let int_of_n (x : n) : int = match x with N0 -> 0 | Npos p -> int_of_pos p

let tokens (line : string) : string list =
  List.filter (fun s -> s <> "") (String.split_on_char ' ' line)

let read_lines (path : string) : string list =
  let ic = open_in path in
  let rec go acc = match input_line ic with
    | l -> go (l :: acc)
    | exception End_of_file -> close_in ic; List.rev acc in
  go []

let out = Buffer.create (1 lsl 20)
let pr fmt = Printf.bprintf out fmt

(* ---------------------------------------------------------------- C07 *)
let c07 (lines : string list) =
  let flush_case hdr ops =
    match hdr with
    | None -> ()
    | Some (id, cap, ovh) ->
      let ops = List.rev ops in
      let (rs, (((g, p), h), m)) = lru_observe (n_of_int cap) (n_of_int ovh) ops in
      pr "CASE %s\n" id;
      List.iter (fun r -> match r with
        | RPut -> pr "PUT\n"
        | RHit b -> pr "HIT %d\n" (int_of_n b)
        | RMiss -> pr "MISS\n") rs;
      pr "CNT %d %d %d %d\n" (int_of_n g) (int_of_n p) (int_of_n h) (int_of_n m) in
  let rec go hdr ops = function
    | [] -> flush_case hdr ops
    | l :: rest ->
      (match tokens l with
       | ["CASE"; id; "CAP"; cap; "OVH"; ovh] ->
         flush_case hdr ops; go (Some (id, int_of_string cap, int_of_string ovh)) [] rest
       | ["P"; k; sz; b] ->
         go hdr (Put (n_of_int (int_of_string k), n_of_int (int_of_string sz), n_of_int (int_of_string b)) :: ops) rest
       | ["G"; k] -> go hdr (Get (n_of_int (int_of_string k)) :: ops) rest
       | [] -> go hdr ops rest
       | _ -> failwith ("c07: bad line: " ^ l)) in
  go None [] lines

let () =
  let prop = Sys.argv.(1) and path = Sys.argv.(2) in
  let lines = read_lines path in
  (match prop with
   | "c07" -> c07 lines
   | _ -> failwith ("unknown property " ^ prop));
  print_string (Buffer.contents out)

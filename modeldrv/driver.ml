(* Model driver: reads a case file, evaluates the extracted Coq model, prints one
   observable per line.  Hand-written glue (trusted): parsing and printing only. *)
open Model

let rec pos_of_int (i : int) : positive =
  if i = 1 then XH else if i land 1 = 0 then XO (pos_of_int (i lsr 1)) else XI (pos_of_int (i lsr 1))
let n_of_int (i : int) : n = if i = 0 then N0 else Npos (pos_of_int i)
let rec int_of_pos (p : positive) : int =
  match p with XH -> 1 | XO q -> 2 * int_of_pos q | XI q -> 2 * int_of_pos q + 1
let int_of_n (x : n) : int = match x with N0 -> 0 | Npos p -> int_of_pos p

(* decimal strings beyond OCaml's 63-bit ints (capacities up to 2^64-1) *)
let n_of_string (s : string) : n =
  let ten = n_of_int 10 in
  let acc = ref N0 in
  String.iter (fun ch -> acc := N.add (N.mul ten !acc) (n_of_int (Char.code ch - 48))) s;
  !acc

(* decimal printing of numbers beyond OCaml's ints (value indexes up to 2^64-1) *)
let string_of_n (x : n) : string =
  let ten = n_of_int 10 in
  let rec go x acc = match x with
    | N0 -> acc
    | _ -> go (N.div x ten) (String.make 1 (Char.chr (48 + int_of_n (N.modulo x ten))) ^ acc) in
  match x with N0 -> "0" | _ -> go x ""

let tokens (line : string) : string list =
  List.filter (fun s -> s <> "") (String.split_on_char ' ' line)

let read_lines (path : string) : string list =
  let ic = open_in path in
  let rec go acc = match input_line ic with
    | l -> go (l :: acc)
    | exception End_of_file -> close_in ic; List.rev acc in
  go []

let out = Buffer.create (1 lsl 20)
let pr fmt = Printf.bprintf out fmt

(* ---------------------------------------------------------------- C07 *)
let c07 (lines : string list) =
  let flush_case hdr ops =
    match hdr with
    | None -> ()
    | Some (id, cap, ovh) ->
      let ops = List.rev ops in
      let (rs, (((g, p), h), m)) = lru_observe (n_of_string cap) (n_of_int ovh) ops in
      pr "CASE %s\n" id;
      List.iter (fun r -> match r with
        | RPut -> pr "PUT\n"
        | RHit b -> pr "HIT %d\n" (int_of_n b)
        | RMiss -> pr "MISS\n") rs;
      pr "CNT %d %d %d %d\n" (int_of_n g) (int_of_n p) (int_of_n h) (int_of_n m) in
  let rec go hdr ops = function
    | [] -> flush_case hdr ops
    | l :: rest ->
      (match tokens l with
       | ["CASE"; id; "CAP"; cap; "OVH"; ovh] ->
         flush_case hdr ops; go (Some (id, cap, int_of_string ovh)) [] rest
       | ["P"; k; sz; b] ->
         go hdr (Put (n_of_string k, n_of_int (int_of_string sz), n_of_int (int_of_string b)) :: ops) rest
       | ["G"; k] -> go hdr (Get (n_of_string k) :: ops) rest
       | [] -> go hdr ops rest
       | _ -> failwith ("c07: bad line: " ^ l)) in
  go None [] lines


(* ---------------------------------------------------------------- data plane (C01 C02 C05 C08 ...) *)
(* token cursor *)
type cur = { mutable toks : string list }
let next c = match c.toks with [] -> failwith "line too short" | t :: r -> c.toks <- r; t
let next_int c = int_of_string (next c)
let next_str c : n list =
  let len = next_int c in
  let rec go i acc = if i = 0 then List.rev acc else go (i - 1) (n_of_int (next_int c) :: acc) in
  go len []
let rec next_expr c : expr =
  match next c with
  | "E" -> let col = next_str c in let v = next_str c in Eq0 (col, v)
  | "N" -> Not (next_expr c)
  | "A" -> let k = next_int c in And (List.init k (fun _ -> next_expr c))
  | "O" -> let k = next_int c in Or (List.init k (fun _ -> next_expr c))
  | t -> failwith ("bad expr token " ^ t)

let pr_str (s : n list) =
  pr " %d" (List.length s); List.iter (fun b -> pr " %d" (int_of_n b)) s

let pr_result tag qid (r : result outcome) =
  pr "%s %s" tag qid;
  (match r with
   | Ok r ->
     pr " OK %d %d" (int_of_n r.r_count) (List.length r.r_groups);
     List.iter (fun (fields, cnt) ->
       pr " %d" (List.length fields);
       List.iter (fun (c, v) -> pr_str c; pr_str v) fields;
       pr " %d" (int_of_n cnt)) r.r_groups
   | Err -> pr " ERR" | Panic -> pr " PANIC" | Hang -> pr " HANG");
  pr "\n"

let pr_schema tag qid (s : (n list * n list list) list) =
  pr "%s %s OK %d" tag qid (List.length s);
  List.iter (fun (c, vs) -> pr_str c; pr " %d" (List.length vs); List.iter pr_str vs) s;
  pr "\n"

let writer_of = function "mem" | "memdb" | "mem2" | "memr" | "mem3" -> WMem | "big" | "bigr" -> WBig | w -> failwith ("writer " ^ w)

let dp (lines : string list) =
  let datasets : (string, (n list * n list) list list) Hashtbl.t = Hashtbl.create 16 in
  let stores : (string * writer_kind, store outcome) Hashtbl.t = Hashtbl.create 16 in
  let indexes : (string * writer_kind * bool, index outcome) Hashtbl.t = Hashtbl.create 16 in
  let get_store ds w =
    match Hashtbl.find_opt stores (ds, w) with
    | Some s -> s
    | None -> let s = m_build_store w (Hashtbl.find datasets ds) in Hashtbl.replace stores (ds, w) s; s in
  let get_index ds w pre =
    match Hashtbl.find_opt indexes (ds, w, pre) with
    | Some i -> i
    | None ->
      let i = (match get_store ds w with
               | Ok s -> m_open_index pre s | Err -> Err | Panic -> Panic | Hang -> Hang) in
      Hashtbl.replace indexes (ds, w, pre) i; i in
  let rec go = function
    | [] -> ()
    | l :: rest ->
      let c = { toks = tokens l } in
      (match c.toks with
       | [] -> go rest
       | _ ->
         (match next c with
          | "DATASET" ->
            let id = next c in let nrows = next_int c in
            let rec take k acc ls = if k = 0 then (List.rev acc, ls) else
                match ls with
                | [] -> failwith "dataset truncated"
                | rl :: ls' ->
                  let rc = { toks = tokens rl } in
                  if next rc <> "R" then failwith "expected R";
                  let k' = next_int rc in
                  let row = List.init k' (fun _ -> let a = next_str rc in let b = next_str rc in (a, b)) in
                  take (k - 1) (row :: acc) ls' in
            let (rows, rest') = take nrows [] rest in
            Hashtbl.replace datasets id rows;
            (* drop cached stores of a previous dataset with the same id *)
            go rest'
          | "CSV" ->
            (* CSV cid big nh ; then nh lines HDR n runes.. ; then NREC k ; then k lines REC n fields *)
            let cid = next c in let big = (next c = "big") in let nh = next_int c in
            let rec take_h k acc ls = if k = 0 then (List.rev acc, ls) else
                match ls with
                | hl :: ls' -> let hc = { toks = tokens hl } in
                  if next hc <> "HDR" then failwith "expected HDR";
                  let n = next_int hc in
                  take_h (k - 1) (List.init n (fun _ -> n_of_int (next_int hc)) :: acc) ls'
                | [] -> failwith "csv truncated" in
            let (hdr, rest1) = take_h nh [] rest in
            let (nrec, rest2) = (match rest1 with
              | nl :: r -> let nc = { toks = tokens nl } in if next nc <> "NREC" then failwith "expected NREC"; (next_int nc, r)
              | [] -> failwith "csv truncated") in
            let rec take_r k acc ls = if k = 0 then (List.rev acc, ls) else
                match ls with
                | rl :: ls' -> let rc = { toks = tokens rl } in
                  if next rc <> "REC" then failwith "expected REC";
                  let n = next_int rc in
                  take_r (k - 1) (List.init n (fun _ -> next_str rc) :: acc) ls'
                | [] -> failwith "csv truncated" in
            let (recs, rest3) = take_r nrec [] rest2 in
            (match m_create big false hdr recs with
             | CreateOk s ->
               pr "CSV %s OK\n" cid;
               Hashtbl.replace datasets cid (ingest hdr recs);
               Hashtbl.replace stores (cid, WMem) (Ok s); Hashtbl.replace stores (cid, WBig) (Ok s)
             | CreateErr -> pr "CSV %s ERR\n" cid
             | CreatePanic -> pr "CSV %s PANIC\n" cid);
            pr "NORM %s %d" cid (List.length hdr);
            List.iter (fun h -> pr_str (normalize_header h)) hdr; pr "\n";
            go rest3
          | "CSVRAW" ->
            (* CSVRAW cid normal|big <bytes of the input file> : create from the file's bytes *)
            let cid = next c in let big = (next c = "big") in let file = next_str c in
            (match m_create_bytes big false file, csv_read file with
             | CreateOk s, Some (hdr :: recs) ->
               let hdr = List.map utf8_decode hdr in
               pr "CSV %s OK\n" cid;
               Hashtbl.replace datasets cid (ingest hdr recs);
               Hashtbl.replace stores (cid, WMem) (Ok s); Hashtbl.replace stores (cid, WBig) (Ok s);
               pr "NORM %s %d" cid (List.length hdr);
               List.iter (fun h -> pr_str (normalize_header h)) hdr; pr "\n"
             | CreatePanic, _ -> pr "CSV %s PANIC\n" cid
             | _, _ -> pr "CSV %s ERR\n" cid);
            go rest
          | "LOADINDEX" -> go rest
          | "DROP" ->
            let id = next c in
            Hashtbl.remove datasets id;
            Hashtbl.filter_map_inplace (fun (d, _) v -> if d = id then None else Some v) stores;
            Hashtbl.filter_map_inplace (fun (d, _, _) v -> if d = id then None else Some v) indexes;
            go rest
          | "QUERY" ->
            let qid = next c in let ds = next c in let w = writer_of (next c) in
            let pre = (next c = "preload") in
            let spec = next_int c in
            let e = next_expr c in
            if next c <> "GB" then failwith "expected GB";
            let m = next_int c in
            let gb = List.init m (fun _ -> next_str c) in
            let q = { q_expr = e; q_group_by = gb } in
            let r = (match get_index ds w pre with
                     | Ok ix -> m_execute ix q | Err -> Err | Panic -> Panic | Hang -> Hang) in
            pr_result "Q" qid r;
            if spec = 1 then pr_result "S" qid (spec_execute (Hashtbl.find datasets ds) q);
            go rest
          | "HIST" | "ENDHIST" | "CONC" | "LRUD" | "CRASH" | "CLOBBER" | "READONLY" | "ADDROW" -> go rest
          | "DAMAGE" ->
            let cid = next c in let ds = next c in let mode = next c in
            let _seed = next c in
            let defects = c.toks in
            let special = (match defects with ["missing"] | ["zerolen"] | ["garbage"] | ["truncfile"] -> true | _ -> false) in
            if special then pr "DAMAGE %s ERR\n" cid
            else begin
              let dl = List.filter_map (fun d -> match d with
                | "none" -> None
                | "nobucket" -> Some DNoBucket | "noS" -> Some DNoS
                | "truncS" | "randS" | "emptyS" -> Some DBadS
                | "noI" -> Some DNoI | "I0" -> Some (DBadI (n_of_int 0)) | "I3" -> Some (DBadI (n_of_int 3))
                | "I5" -> Some (DBadI (n_of_int 5))
                | "badV1" | "emptyV1" -> Some DBadVOne | "badVall" -> Some DBadVAll
                | x -> failwith ("defect " ^ x)) defects in
              let pre = (mode = "preload" || mode = "cached+preload") in
              (match get_store ds WMem with
               | Ok s -> (match m_open_index pre (m_damage_store s dl) with
                          | Ok _ -> pr "DAMAGE %s OK\n" cid
                          | Err -> pr "DAMAGE %s ERR\n" cid
                          | Panic -> pr "DAMAGE %s PANIC\n" cid
                          | Hang -> pr "DAMAGE %s HANG\n" cid)
               | _ -> pr "DAMAGE %s NOSTORE\n" cid)
            end;
            go rest
          | "HQ" ->
            let qid = next c in let ds = next c in let w = writer_of (next c) in
            let pre = (next c = "preload") in
            let e = next_expr c in
            if next c <> "GB" then failwith "expected GB";
            let m = next_int c in
            let gb = List.init m (fun _ -> next_str c) in
            let q = { q_expr = e; q_group_by = gb } in
            let r = (match get_index ds w pre with
                     | Ok ix -> m_execute ix q | Err -> Err | Panic -> Panic | Hang -> Hang) in
            pr_result "HQ" qid r;
            go rest
          | "HREUSE" ->
            let qid = next c in let ds = next c in let w = writer_of (next c) in
            let pre = (next c = "preload") in
            let e1 = next_expr c in
            if next c <> "THEN" then failwith "expected THEN";
            let e2 = next_expr c in
            if next c <> "GB" then failwith "expected GB";
            let m = next_int c in
            let gb = List.init m (fun _ -> next_str c) in
            List.iter (fun (sfx, e) ->
              let q = { q_expr = e; q_group_by = gb } in
              let r = (match get_index ds w pre with
                       | Ok ix -> m_execute ix q | Err -> Err | Panic -> Panic | Hang -> Hang) in
              pr_result "HQ" (qid ^ sfx) r) [(".a", e1); (".b", e2)];
            go rest
          | "QHOLE" ->
            let qid = next c in let ds = next c in let w = writer_of (next c) in
            let pre = (next c = "preload") in
            let e = next_expr c in
            if next c <> "GB" then failwith "expected GB";
            let m = next_int c in
            let gb = List.init m (fun _ -> next_str c) in
            pr "QH %s.0 ERR-OR-OK\n" qid;
            let q = { q_expr = e; q_group_by = gb } in
            let r = (match get_index ds w pre with
                     | Ok ix -> m_execute ix q | Err -> Err | Panic -> Panic | Hang -> Hang) in
            pr_result "QH" (qid ^ ".1") r;
            go rest
          | "QMOD" ->
            let qid = next c in let ds = next c in let w = writer_of (next c) in
            let pre = (next c = "preload") in
            let e1 = next_expr c in
            let rdgb () = (if next c <> "GB" then failwith "expected GB"); let m = next_int c in List.init m (fun _ -> next_str c) in
            let gb1 = rdgb () in
            if next c <> "THEN" then failwith "expected THEN";
            let e2 = next_expr c in
            let gb2 = rdgb () in
            List.iteri (fun j (e, gb) ->
              let q = { q_expr = e; q_group_by = gb } in
              let r = (match get_index ds w pre with
                       | Ok ix -> m_execute ix q | Err -> Err | Panic -> Panic | Hang -> Hang) in
              pr_result "QM" (Printf.sprintf "%s.%d" qid j) r) [(e1, gb1); (e2, gb2); (e2, []); (e2, gb1)];
            go rest
          | "QVAL" ->
            let qid = next c in
            let k = next_int c in
            let dss = List.init k (fun _ -> next c) in
            let w = writer_of (next c) in
            let pre = (next c = "preload") in
            let e = next_expr c in
            if next c <> "GB" then failwith "expected GB";
            let m = next_int c in
            let gb = List.init m (fun _ -> next_str c) in
            (* indexes that could not be built/opened are skipped on both sides *)
            let q = ref { qv_expr = e; qv_group_by = gb; qv_hidden = [] } in
            List.iteri (fun j ds ->
              match get_index ds w pre with
              | Ok ix ->
                let (r, q') = m_execute_q ix !q in
                q := q';
                pr_result "QV" (Printf.sprintf "%s.%d" qid j) r
              | Err -> pr "QV %s.%d ERR\n" qid j
              | Panic -> pr "QV %s.%d PANIC\n" qid j
              | Hang -> pr "QV %s.%d HANG\n" qid j) dss;
            pr "QVF %s SAME\n" qid;
            go rest
          | "SCHEMA" ->
            let qid = next c in let ds = next c in let w = writer_of (next c) in
            (match get_index ds w false with
             | Ok ix -> pr_schema "SCHEMA" qid (m_get_schema ix)
             | Err -> pr "SCHEMA %s ERR\n" qid | Panic -> pr "SCHEMA %s PANIC\n" qid | Hang -> pr "SCHEMA %s HANG\n" qid);
            pr_schema "SS" qid (spec_schema (Hashtbl.find datasets ds));
            go rest
          | "REOPEN" | "KEYFEED" -> go rest
          | "RAWKEYS" ->
            (* the file format: value of key I, header keys, number of V keys *)
            let qid = next c in let ds = next c in let w = writer_of (next c) in
            (match get_store ds w with
             | Ok st ->
               let hex l = String.concat "" (List.map (fun b -> Printf.sprintf "%02x" (int_of_n b)) l) in
               (match m_store_count st with
                | Some n -> pr "RAWKEYS %s I %s HDR IS NV %d SHAPE ok\n" qid (hex (count_value n)) (int_of_n (m_store_nvals st))
                | None -> pr "RAWKEYS %s NOCOUNT\n" qid)
             | Err -> pr "RAWKEYS %s ERR\n" qid | Panic -> pr "RAWKEYS %s PANIC\n" qid | Hang -> pr "RAWKEYS %s HANG\n" qid);
            go rest
          | "CURSOR" ->
            let qid = next c in let n = next_int c in
            let pairs = List.init n (fun _ -> let h = n_of_string (next c) in let r = n_of_string (next c) in (h, r)) in
            let keys = cursor_order (List.map (fun (h, r) -> temp_key h r) pairs) in
            (* a key put twice is stored once *)
            let rec dedup = function a :: (b :: _ as t) -> if a = b then dedup t else a :: dedup t | l -> l in
            let keys = dedup keys in
            pr "CURSOR %s %d" qid (List.length keys);
            List.iter (fun k -> let (h, r) = temp_key_decode k in pr " %s %s" (string_of_n h) (string_of_n r)) keys;
            pr "\n"; go rest
          | "IDS" ->
            let qid = next c in let ds = next c in let w = writer_of (next c) in
            let rows = Hashtbl.find datasets ds in
            let ids = (match w with WMem -> m_add_rows_mem rows | WBig -> m_add_rows_big rows) in
            pr "IDS %s %d" qid (List.length ids); List.iter (fun i -> pr " %d" (int_of_n i)) ids; pr "\n";
            go rest
          | t -> failwith ("dp: bad line: " ^ l))) in
  go lines

(* ---------------------------------------------------------------- text layer (C09 C10 C11) *)
let rec next_pexpr c : pexpr =
  match next c with
  | "E" -> let col = next_str c in let v = next_str c in let ph = next_int c in PEq (col, v, n_of_int ph)
  | "N" -> PNot (next_pexpr c)
  | "A" -> let k = next_int c in PAnd (List.init k (fun _ -> next_pexpr c))
  | "O" -> let k = next_int c in POr (List.init k (fun _ -> next_pexpr c))
  | t -> failwith ("bad tree token " ^ t)

let rec pr_pexpr (e : pexpr) =
  match e with
  | PEq (col, v, ph) -> pr "E"; pr_str col; pr_str v; pr " %d" (int_of_n ph)
  | PNot e' -> pr "N "; pr_pexpr e'
  | PAnd es -> pr "A %d" (List.length es); List.iter (fun x -> pr " "; pr_pexpr x) es
  | POr es -> pr "O %d" (List.length es); List.iter (fun x -> pr " "; pr_pexpr x) es

let pr_pquery (q : pquery) =
  pr_pexpr q.pq_expr;
  pr " GB %d" (List.length q.pq_group_by);
  List.iter pr_str q.pq_group_by

let next_pquery c : pquery =
  let e = next_pexpr c in
  if next c <> "GB" then failwith "expected GB";
  let m = next_int c in
  let gb = List.init m (fun _ -> next_str c) in
  { pq_expr = e; pq_group_by = gb }

let pr_parse tag id (r : pquery outcome) =
  pr "%s %s " tag id;
  (match r with
   | Ok q -> pr "ACCEPT "; pr_pquery q
   | Err -> pr "REJECT" | Panic -> pr "PANIC" | Hang -> pr "HANG");
  pr "\n"

let pr_text tag id (s : n list) = pr "%s %s TEXT" tag id; pr_str s; pr "\n"

let parse (lines : string list) =
  List.iter (fun l ->
    let c = { toks = tokens l } in
    match c.toks with
    | [] -> ()
    | _ ->
      (match next c with
       | "P" -> let id = next c in let s = next_str c in pr_parse "P" id (parse_query s)
       | "F" ->
         let id = next c in let q = next_pquery c in
         let t1 = format_query q in
         pr_text "F" id t1;
         let r1 = parse_query t1 in
         pr_parse "F1" id r1;
         (match r1 with
          | Ok q1 ->
            let t2 = format_query q1 in
            pr_text "F2" id t2;
            (match parse_query t2 with
             | Ok q2 -> pr_text "F3" id (format_query q2)
             | Err -> pr "F3 %s REJECT\n" id | Panic -> pr "F3 %s PANIC\n" id | Hang -> pr "F3 %s HANG\n" id)
          | _ -> ());
         (* well-formedness and normal forms, for the evidence / oracle *)
         pr "FW %s %s\n" id (if wf_query q then "WF" else "NOTWF");
         (match r1 with
          | Ok q1 -> pr "FN %s %s\n" id (if norm q1.pq_expr = norm q.pq_expr && q1.pq_group_by = q.pq_group_by then "NORM-EQUAL" else "NORM-DIFF")
          | _ -> ())
       | "B" ->
         let id = next c in let q = next_pquery c in
         let n = next_int c in
         let vals = List.init n (fun _ -> next_str c) in
         (* ReplacePlaceholders itself: in-range placeholders replaced, others left in place *)
         pr "B %s OK SAME " id; pr_pquery { pq_expr = subst vals q.pq_expr; pq_group_by = q.pq_group_by }; pr "\n";
         pr "BM %s %d\n" id (int_of_n (max_ph q.pq_expr))
       | t -> failwith ("parse: bad line " ^ l))) lines

(* ---------------------------------------------------------------- database/sql driver (C11 C12) *)
let bytes_of_string (s : string) : n list = List.init (String.length s) (fun i -> n_of_int (Char.code s.[i]))

let pr_rowset tag id (r : rowset outcome) =
  pr "%s %s " tag id;
  (match r with
   | Ok rs ->
     pr "ROWS %d" (List.length rs.rs_cols);
     List.iter pr_str rs.rs_cols;
     pr " TYPES";
     List.iter (fun t -> match t with TText -> pr " TEXT:string" | TBigint -> pr " BIGINT:int64") rs.rs_types;
     pr " N %d" (List.length rs.rs_rows);
     List.iter (fun row -> pr " |"; List.iter (fun c -> match c with
       | CText s -> pr " T"; pr_str s
       | CInt i -> pr " I %d" (int_of_n i)) row) rs.rs_rows
   | Err -> pr "ERR" | Panic -> pr "PANIC" | Hang -> pr "HANG");
  pr "\n"

(* The data source name the harness builds for (dataset, option string), parsed by the MODEL
   (Dsn.parse_dsn): (preload, the open succeeds as far as the options go, option part of the
   connection-cache key). *)
let opts_info3 (opts : string) : bool * bool * string =
  let name = "file:/F/x" ^ (if opts = "-" then "" else "?" ^ opts) in
  match parse_dsn (bytes_of_string name) with
  | DsnFile (_, cfg, key) -> (cfg.fc_preload, true, String.concat "" (List.map (fun b -> String.make 1 (Char.chr (int_of_n b))) key))
  | _ -> (false, false, "")
let opts_info (opts : string) : bool * bool = let (p, v, _) = opts_info3 opts in (p, v)

let sql (lines : string list) =
  let datasets : (string, (n list * n list) list list) Hashtbl.t = Hashtbl.create 16 in
  let broken : (string, unit) Hashtbl.t = Hashtbl.create 4 in
  let dbs : (string, (string * bool * bool)) Hashtbl.t = Hashtbl.create 16 in
  let index_of ds pre : index outcome =
    if Hashtbl.mem broken ds then Err else
    match m_build_store WMem (Hashtbl.find datasets ds) with
    | Ok s -> m_open_index pre s | Err -> Err | Panic -> Panic | Hang -> Hang in
  let rec go = function
    | [] -> ()
    | l :: rest ->
      let c = { toks = tokens l } in
      (match c.toks with
       | [] -> go rest
       | _ ->
         (match next c with
          | "DATASET" ->
            let id = next c in let nrows = next_int c in
            let rec take k acc ls = if k = 0 then (List.rev acc, ls) else
                match ls with
                | [] -> failwith "dataset truncated"
                | rl :: ls' ->
                  let rc = { toks = tokens rl } in
                  if next rc <> "R" then failwith "expected R";
                  let k' = next_int rc in
                  let row = List.init k' (fun _ -> let a = next_str rc in let b = next_str rc in (a, b)) in
                  take (k - 1) (row :: acc) ls' in
            let (rows, rest') = take nrows [] rest in
            Hashtbl.replace datasets id rows; go rest'
          | "MISSINGFILE" | "GARBAGEFILE" -> Hashtbl.replace broken (next c) (); go rest
          | "SQLOPEN" ->
            let h = next c in let ds = next c in let opts = next c in
            let (pre, valid) = opts_info opts in
            Hashtbl.replace dbs h (ds, pre, valid);
            pr "SQLOPEN %s OK\n" h; go rest
          | "SQLQ" ->
            let id = next c in let h = next c in let mode = next c in
            let text = next_str c in
            let k = next_int c in
            let rec take k acc ls = if k = 0 then (List.rev acc, ls) else
                match ls with
                | [] -> failwith "args truncated"
                | al :: ls' ->
                  let ac = { toks = tokens al } in
                  if next ac <> "ARGS" then failwith "expected ARGS";
                  let n = next_int ac in
                  let args = List.init n (fun _ -> match next ac with
                    | "S" | "NS" | "PS" -> next_str ac
                    | "I" | "NI" -> bytes_of_string (string_of_int (next_int ac))
                    | "BT" -> bytes_of_string "true"
                    | "BF" -> bytes_of_string "false"
                    | _ -> failwith "bad arg") in
                  take (k - 1) (args :: acc) ls' in
            let (argsets, rest') = take k [] rest in
            (match Hashtbl.find_opt dbs h with
             | None -> List.iteri (fun j _ -> pr "SQL %s.%d NODB\n" id j) argsets
             | Some (ds, pre, valid) ->
               List.iteri (fun j args ->
                 let r = if not valid then Err else
                   (match index_of ds pre with
                    | Ok ix -> if mode = "prepared" then m_prepared_query ix text args else m_sql_query ix text args
                    | Err -> Err | Panic -> Panic | Hang -> Hang) in
                 pr_rowset "SQL" (Printf.sprintf "%s.%d" id j) r) argsets);
            go rest'
          | "SQLPREPSLEEP" ->
            let id = next c in let h = next c in let text = next_str c in
            (match Hashtbl.find_opt dbs h with
             | None -> pr "SQL %s.0 NODB\nSQL %s.1 NODB\n" id id
             | Some (ds, pre, valid) ->
               List.iter (fun j ->
                 let r = if not valid then Err else
                   (match index_of ds pre with
                    | Ok ix -> m_prepared_query ix text []
                    | Err -> Err | Panic -> Panic | Hang -> Hang) in
                 pr_rowset "SQL" (Printf.sprintf "%s.%d" id j) r) [0; 1]);
            go rest
          | "SQLCLOSE" -> let h = next c in Hashtbl.remove dbs h; pr "SQLCLOSE %s OK\n" h; go rest
          | "SQLPROBE" -> let id = next c in pr "SQLPROBE %s RELEASED\n" id; go rest
          | "SQLCONC" | "SQLCHURN" | "DOPEN" | "DQUERY" | "DCLOSE" | "RELPATHS" -> go rest
          | t -> failwith ("sql: bad line: " ^ l))) in
  go lines

(* ---------------------------------------------------------------- driver connection cache (C17) *)
let drv (lines : string list) =
  let files : (string, int) Hashtbl.t = Hashtbl.create 8 in
  let optsn : (string, int) Hashtbl.t = Hashtbl.create 8 in
  let handles : (string, int) Hashtbl.t = Hashtbl.create 8 in
  let invalid : (int, unit) Hashtbl.t = Hashtbl.create 8 in
  let num tbl k = match Hashtbl.find_opt tbl k with Some i -> i | None -> let i = Hashtbl.length tbl + 1 in Hashtbl.replace tbl k i; i in
  let ops = ref [] and labels = ref [] in
  List.iter (fun l ->
    let c = { toks = tokens l } in
    match c.toks with
    | [] -> ()
    | _ ->
      (match next c with
       | "MISSINGFILE" | "GARBAGEFILE" -> Hashtbl.replace invalid (num files (next c)) ()
       | "DOPEN" ->
         let h = next c in let f = next c in let o = next c in
         (* the driver's key: canonical option string; an invalid cache size is an open error *)
         let (pre, valid, canon) = opts_info3 o in
         let fi = num files f in
         let fi' = if valid then fi else (let bad = 1000 + fi in Hashtbl.replace invalid bad (); bad) in
         ops := DOpen (n_of_int (num handles h), { k_file = n_of_int fi'; k_opts = n_of_int (num optsn canon) }) :: !ops;
         labels := ("D " ^ h) :: !labels
       | "DQUERY" ->
         let id = next c in let h = next c in
         ops := DQuery (n_of_int (num handles h)) :: !ops; labels := ("D " ^ id) :: !labels
       | "DCLOSE" ->
         let h = next c in
         ops := DClose (n_of_int (num handles h)) :: !ops; labels := ("D " ^ h ^ ".close") :: !labels
       | _ -> ())) lines;
  let ops = List.rev !ops and labels = List.rev !labels in
  let valid f = not (Hashtbl.mem invalid (int_of_n f)) in
  let wf = wf_ops valid [] [] ops in
  pr "WF %s\n" (if wf then "true" else "false");
  let (_, rs) = m_d_run valid d_init ops in
  List.iter2 (fun lab r ->
    pr "%s %s\n" lab (match r with
      | ROpened -> "OPENED" | ROpenErr -> "OPENERR"
      | RRows f -> (let name = Hashtbl.fold (fun k v acc -> if v = int_of_n f then k else acc) files "?" in "ROWSOF " ^ name)
      | RClosed -> "CLOSED" | RPanic -> "PANIC" | RHang -> "HANG" | RMisuse -> "MISUSE")) labels rs

(* ---------------------------------------------------------------- gRPC batch handler (C13 C14) *)
let rec next_wexpr c : wexpr =
  match next c with
  | "U" -> WUnset
  | "E" -> let col = next_str c in let v = next_str c in let ph = next_int c in WEq (col, v, n_of_int (max ph 0))
  | "N0" -> WNot None
  | "N" -> WNot (Some (next_wexpr c))
  | "A" -> let k = next_int c in WAnd (List.init k (fun _ -> next_wexpr c))
  | "O" -> let k = next_int c in WOr (List.init k (fun _ -> next_wexpr c))
  | t -> failwith ("bad wire token " ^ t)

let z_of_int (i : int) : z = if i = 0 then Z0 else if i > 0 then Zpos (pos_of_int i) else Zneg (pos_of_int (- i))
let int_of_z (x : z) : int = match x with Z0 -> 0 | Zpos p -> int_of_pos p | Zneg p -> - (int_of_pos p)

let wire (lines : string list) =
  let rows = ref [] in
  let index = ref None in
  let get_index () = match !index with
    | Some ix -> ix
    | None -> let ix = (match m_build_store WMem !rows with Ok s -> m_open_index false s | _ -> Err) in index := Some ix; ix in
  let rec go = function
    | [] -> ()
    | l :: rest ->
      let c = { toks = tokens l } in
      (match c.toks with
       | [] -> go rest
       | _ ->
         (match next c with
          | "DATASET" ->
            let _id = next c in let nrows = next_int c in
            let rec take k acc ls = if k = 0 then (List.rev acc, ls) else
                match ls with
                | [] -> failwith "dataset truncated"
                | rl :: ls' ->
                  let rc = { toks = tokens rl } in
                  if next rc <> "R" then failwith "expected R";
                  let k' = next_int rc in
                  let row = List.init k' (fun _ -> let a = next_str rc in let b = next_str rc in (a, b)) in
                  take (k - 1) (row :: acc) ls' in
            let (rs, rest') = take nrows [] rest in
            rows := rs; index := None; go rest'
          | "REQ" ->
            let rid = next c in let nq = next_int c in
            let rec take k acc ls = if k = 0 then (List.rev acc, ls) else
                match ls with
                | [] -> failwith "request truncated"
                | ql :: ls' ->
                  let qc = { toks = tokens ql } in
                  if next qc <> "WQ" then failwith "expected WQ";
                  let id = next_int qc in
                  let e = (match next qc with "NONE" -> None | "X" -> Some (next_wexpr qc) | _ -> failwith "bad WQ") in
                  if next qc <> "GB" then failwith "expected GB";
                  let m = next_int qc in
                  let gb = List.init m (fun _ -> next_str qc) in
                  take (k - 1) ({ wq_id = z_of_int id; wq_expr = e; wq_group_by = gb } :: acc) ls' in
            let (qs, rest') = take nq [] rest in
            (match get_index () with
             | Ok ix ->
               (match m_serve ix qs with
                | Ok rs ->
                  pr "REQ %s OK %d" rid (List.length rs);
                  List.iter (fun r ->
                    pr " | %d %d %d" (int_of_z r.wr_id) (int_of_n r.wr_count) (List.length r.wr_groups);
                    List.iter (fun (fields, cnt) ->
                      pr " %d" (List.length fields);
                      List.iter (fun (col, v) -> pr_str col; pr_str v) fields;
                      pr " %d" (int_of_n cnt)) r.wr_groups) rs;
                  pr "\n"
                | Err -> pr "REQ %s ERR\n" rid | Panic -> pr "REQ %s PANIC\n" rid | Hang -> pr "REQ %s HANG\n" rid)
             | _ -> pr "REQ %s NOINDEX\n" rid);
            go rest'
          | t -> failwith ("wire: bad line: " ^ l))) in
  go lines

(* ---------------------------------------------------------------- CSV reader / UTF-8 decoding (C19) *)
let csvbytes (lines : string list) =
  List.iter (fun l ->
    let c = { toks = tokens l } in
    match c.toks with
    | [] -> ()
    | _ ->
      (match next c with
       | "CSVTEXT" ->
         let id = next c in let file = next_str c in
         (match csv_read file with
          | None -> pr "CSVREAD %s ERR\n" id
          | Some recs ->
            pr "CSVREAD %s OK %d" id (List.length recs);
            List.iter (fun r -> pr " R %d" (List.length r); List.iter pr_str r) recs;
            pr "\n")
       | "RUNES" ->
         let id = next c in let s = next_str c in
         let rs = utf8_decode s in
         pr "RUNES %s %d" id (List.length rs);
         List.iter (fun r -> pr " %d" (int_of_n r)) rs; pr "\n"
       | t -> failwith ("csvbytes: bad line: " ^ l))) lines

let () =
  let prop = Sys.argv.(1) and path = Sys.argv.(2) in
  let lines = read_lines path in
  (match prop with
   | "c07" -> c07 lines
   | "dp" -> dp lines
   | "parse" -> parse lines
   | "sql" -> sql lines
   | "drv" -> drv lines
   | "wire" -> wire lines
   | "csvbytes" -> csvbytes lines
   | _ -> failwith ("unknown property " ^ prop));
  print_string (Buffer.contents out)

(** Extraction of the executable models.  Only [ExtrOcamlBasic] is used: [N], [positive],
    [nat] stay the extracted inductive datatypes. *)
From updog Require Import Prelude LRU.
Require Import ExtrOcamlBasic.
Extraction Language OCaml.
Extraction "model.ml" lru_observe.

(** Extraction of the executable models.  Only [ExtrOcamlBasic] is used: [N], [positive],
    [nat] stay the extracted inductive datatypes. *)
From updog Require Import Prelude LRU Index QParser CacheEval Adapters Files DriverSM Csv CsvBytes Dsn KeyBytes.
Require Import ExtrOcamlBasic.
Extraction Language OCaml.

(** The data-plane model instantiated with the idealised injective hash. *)
Definition m_build_store := build_store H_enc.
Definition m_open_index := open_index.
Definition m_execute := execute H_enc.
Definition m_get_schema := get_schema.
Definition m_add_rows_mem (rows : list row) := (w_add_rows H_enc (w_init) rows).1.
Definition m_add_rows_big (rows : list row) := (b_add_rows H_enc (b_init) rows).1.

Definition m_execute_q := execute_q H_enc.
Definition m_damage_store := damage_store.
Definition m_sql_query := sql_query H_enc.
Definition m_prepared_query := prepared_query H_enc.
Definition m_serve := serve H_enc.
Definition m_d_run := d_run.
Definition m_create := create H_enc.
Definition m_store_nvals (s : store) : N := N.of_nat (size (st_vals s)).
Definition m_store_count (s : store) : option N := match st_count s with Some (CountOk n) => Some n | _ => None end.
Definition m_create_bytes := create_bytes H_enc.

Extraction "model.ml" lru_observe m_execute_q m_damage_store
  parse_query format_query subst max_ph norm wf_query
  m_sql_query m_prepared_query m_serve m_d_run d_init wf_ops m_create normalize_header ingest m_create_bytes csv_read utf8_decode parse_dsn temp_key temp_key_decode cursor_order count_value value_key m_store_nvals m_store_count
  m_build_store m_open_index m_execute m_get_schema m_add_rows_mem m_add_rows_big
  spec_execute spec_schema.

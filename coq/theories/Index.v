(** Model of the data plane: writers, the bbolt store, OpenIndex, expression evaluation and
    group-by (types.go, writer.go, writer_big.go, index.go, query.go), and the row-scan
    specification it is proved equal to.  No proofs in this file. *)
From updog Require Import Prelude.
From stdpp Require Import mapset.
Local Open Scope N_scope.

(** * Bitmaps: finite sets of row ids *)
Notation bitmap := (gset N).

(** [Add]: insertion into the underlying trie (logarithmic; [{[x]} ∪ b] would be linear). *)
Definition bm_add (x : N) (b : bitmap) : bitmap :=
  let (m) := b in Mapset (<[x := ()]> m).
Definition bm_of_list (l : list N) : bitmap := foldr bm_add ∅ l.

Fixpoint range_from (start : N) (len : nat) : list N :=
  match len with O => [] | S l => start :: range_from (N.succ start) l end.
Definition N_range (n : N) : list N := range_from 0 (N.to_nat n).

(** [roaring.Flip(bm, 0, n)]: ids below [n] are complemented, ids from [n] on are kept. *)
Definition bm_flip (b : bitmap) (n : N) : bitmap :=
  (bm_of_list (N_range n) ∖ b) ∪ filter (λ x, n ≤ x) b.
Definition bm_card (b : bitmap) : N := N.of_nat (size b).
Definition bm_is_empty (b : bitmap) : bool := bool_decide (b = ∅).

(** [FastAnd] / [FastOr]: no operand gives the empty bitmap. *)
Definition fast_and (bs : list bitmap) : bitmap :=
  match bs with [] => ∅ | b :: bs' => foldl (∩) b bs' end.
Definition fast_or (bs : list bitmap) : bitmap := foldl (∪) ∅ bs.

(** * Expressions, rows, specification *)
Inductive expr :=
| Eq (c v : str)
| Not (e : expr)
| And (es : list expr)
| Or (es : list expr).

(** A row is what [AddRow] receives: a Go map, i.e. an association list with distinct keys
    in some (unspecified) iteration order. *)
Notation row := (list (str * str)).
Definition row_wf (r : row) : Prop := NoDup (r.*1).

Definition row_has (r : row) (c v : str) : bool := bool_decide ((c, v) ∈ r).

Fixpoint sat (r : row) (e : expr) : bool :=
  match e with
  | Eq c v => row_has r c v
  | Not e => negb (sat r e)
  | And es => forallb (sat r) es
  | Or es => existsb (sat r) es
  end.

Definition columns (rows : list row) : list str := flat_map (λ r, r.*1) rows.

Fixpoint expr_columns (e : expr) : list str :=
  match e with
  | Eq c _ => [c]
  | Not e => expr_columns e
  | And es | Or es => flat_map expr_columns es
  end.

Definition known_columns (rows : list row) (e : expr) : bool :=
  bool_decide (Forall (λ c, c ∈ columns rows) (expr_columns e)).

(** "every AND/OR has at least one operand" *)
Fixpoint nonempty_ops (e : expr) : bool :=
  match e with
  | Eq _ _ => true
  | Not e => nonempty_ops e
  | And es | Or es => negb (bool_decide (es = [])) && forallb nonempty_ops es
  end.

(** C01's specification: a row scan. *)
Definition spec_count (rows : list row) (e : expr) : outcome N :=
  if known_columns rows e then Ok (N.of_nat (length (filter (λ r, sat r e = true) rows))) else Err.

(** * Hash-indexed part of the model *)

(** The schema (types.go): column → value → value index. *)
Notation schema := (gmap str (gmap str N)).
Notation field := (str * str)%type.

Section WithHash.
Context (H : list N → N).

(** [getValueIndex]: hash of column ‖ 0x00 ‖ value. *)
Definition vidx (c v : str) : N := H (c ++ 0 :: v).

(** ** Schema (types.go) *)

Definition schema_add (sch : schema) (c v : str) : schema :=
  let col := default ∅ (sch !! c) in
  <[c := match col !! v with Some _ => col | None => <[v := vidx c v]> col end]> sch.

(** ** In-memory writer (writer.go) *)
Record wstate := WState { w_schema : schema; w_vals : gmap N bitmap; w_next : N }.
Definition w_init : wstate := WState ∅ ∅ 0.

Definition w_add_pair (rid : N) (st : wstate) (cv : str * str) : wstate :=
  let h := vidx cv.1 cv.2 in
  WState (schema_add (w_schema st) cv.1 cv.2)
         (<[h := bm_add rid (default ∅ (w_vals st !! h))]> (w_vals st))
         (w_next st).

Definition w_add_row (st : wstate) (r : row) : N * wstate :=
  let st' := foldl (w_add_pair (w_next st)) st r in
  (w_next st, WState (w_schema st') (w_vals st') (w_next st + 1)).

Fixpoint w_add_rows (st : wstate) (rows : list row) : list N * wstate :=
  match rows with
  | [] => ([], st)
  | r :: rows' => let '(id, st1) := w_add_row st r in
                  let '(ids, st2) := w_add_rows st1 rows' in (id :: ids, st2)
  end.

(** ** The bbolt bucket "data" *)
Inductive sval := SchemaOk (s : schema) | SchemaBad.
Inductive cval := CountOk (n : N) | CountBad (len : N).
Inductive bval := BitmapOk (b : bitmap) | BitmapBad.

Definition is_bad (b : bval) : bool := match b with BitmapBad => true | BitmapOk _ => false end.

Record store := Store {
  st_bucket : bool;              (* does the bucket "data" exist *)
  st_schema : option sval;       (* key 'S' *)
  st_count : option cval;        (* key 'I' *)
  st_vals : gmap N bval          (* keys 'V' ‖ hash *)
}.
Definition empty_store : store := Store false None None ∅.

Inductive put := PutBucket | PutS (s : schema) | PutI (n : N) | PutV (h : N) (b : bitmap).

Definition apply_put (s : store) (p : put) : store :=
  match p with
  | PutBucket => Store true (st_schema s) (st_count s) (st_vals s)
  | PutS sch => Store (st_bucket s) (Some (SchemaOk sch)) (st_count s) (st_vals s)
  | PutI n => Store (st_bucket s) (st_schema s) (Some (CountOk n)) (st_vals s)
  | PutV h b => Store (st_bucket s) (st_schema s) (st_count s) (<[h := BitmapOk b]> (st_vals s))
  end.
Definition apply_tx (s : store) (tx : list put) : store := foldl apply_put s tx.

(** The store after each commit, given the transactions in commit order. *)
Fixpoint commit_states (s : store) (txs : list (list put)) : list store :=
  match txs with
  | [] => []
  | tx :: txs' => apply_tx s tx :: commit_states (apply_tx s tx) txs'
  end.
Definition final_store (txs : list (list put)) : store := foldl apply_tx empty_store txs.

(** Splitting the value puts into the batches [WriteToBoltDatabase] commits: a commit after
    every 1000th put; the remainder (possibly empty) goes into the last transaction. *)
Fixpoint batches (fuel : nat) (n : nat) (l : list put) : list (list put) * list put :=
  match fuel with
  | O => ([], l)
  | S f => if decide (n ≤ length l)%nat
           then let '(full, rest) := batches f n (drop n l) in (take n l :: full, rest)
           else ([], l)
  end.

Definition batch_size : nat := 1000.

(** Transactions of [IndexWriter.WriteToBoltDatabase], given the iteration order of the
    values map: bitmaps first, the header keys 'S' and 'I' in the LAST transaction. *)
Definition mem_flush_txs (st : wstate) (order : list (N * bitmap)) : list (list put) :=
  let '(full, rest) := batches (length order) batch_size (map (λ hb, PutV hb.1 hb.2) order) in
  match full with
  | [] => [PutBucket :: rest ++ [PutS (w_schema st); PutI (w_next st `mod` 2^32)]]
  | b :: full' => ((PutBucket :: b) :: full') ++ [rest ++ [PutS (w_schema st); PutI (w_next st `mod` 2^32)]]
  end.

(** ** Big writer (writer_big.go) *)
(** [b_temp]: the keys put into the temp bucket (most recent first; the order is irrelevant,
    the bucket is read back in key order). *)
Record bstate := BState { b_schema : schema; b_temp : list (N * N); b_next : N }.
Definition b_init : bstate := BState ∅ [] 0.

Definition b_add_pair (rid : N) (st : bstate) (cv : str * str) : bstate :=
  BState (schema_add (b_schema st) cv.1 cv.2) ((vidx cv.1 cv.2, rid) :: b_temp st) (b_next st).

Definition b_add_row (st : bstate) (r : row) : N * bstate :=
  let st' := foldl (b_add_pair (b_next st)) st r in
  (b_next st, BState (b_schema st') (b_temp st') (b_next st + 1)).

Fixpoint b_add_rows (st : bstate) (rows : list row) : list N * bstate :=
  match rows with
  | [] => ([], st)
  | r :: rows' => let '(id, st1) := b_add_row st r in
                  let '(ids, st2) := b_add_rows st1 rows' in (id :: ids, st2)
  end.

(** The temp bucket is a B+tree keyed by be64(hash) ‖ be32(row): the cursor yields the keys
    in lexicographic order, each key once. *)
Definition key_le (a b : N * N) : Prop := a.1 < b.1 ∨ (a.1 = b.1 ∧ a.2 ≤ b.2).
Global Instance key_le_dec a b : Decision (key_le a b).
Proof. unfold key_le. apply _. Defined.

(** A key put twice is stored once; adding a row id twice to a bitmap is idempotent, so the
    model does not need to deduplicate. *)
Definition temp_keys (st : bstate) : list (N * N) := merge_sort key_le (b_temp st).

(** The streaming loop of [BigIndexWriter.Flush]: [(currentValueIdx, bm, puts so far)].
    [None] as result is the nil-pointer panic of [bm.Add] on a nil bitmap. *)
Definition big_step (acc : option (N * option bitmap * list put)) (k : N * N)
  : option (N * option bitmap * list put) :=
  match acc with
  | None => None
  | Some (cur, bm, out) =>
      let '(cur', bm', out') :=
        if bool_decide (bm = None) || negb (cur =? k.1)
        then (k.1, Some (∅ : bitmap), match bm with Some b => out ++ [PutV cur b] | None => out end)
        else (cur, bm, out) in
      match bm' with
      | None => None
      | Some b => Some (cur', Some (bm_add k.2 b), out')
      end
  end.

Definition big_flush_tx (st : bstate) : outcome (list put) :=
  match foldl big_step (Some (0, None, [])) (temp_keys st) with
  | None => Panic
  | Some (cur, bm, out) =>
      Ok (PutBucket :: out ++ match bm with Some b => [PutV cur b] | None => [] end
                    ++ [PutI (b_next st `mod` 2^32); PutS (b_schema st)])
  end.

(** ** OpenIndex *)
Record index := Index {
  ix_schema : schema;
  ix_next : N;
  ix_vals : gmap N bval;
  ix_preloaded : bool
}.

Definition open_index (preload : bool) (s : store) : outcome index :=
  if negb (st_bucket s) then Err else
  match st_schema s with
  | None | Some SchemaBad => Err
  | Some (SchemaOk sch) =>
      match st_count s with
      | None | Some (CountBad _) => Err
      | Some (CountOk n) =>
          if preload && existsb is_bad (map snd (map_to_list (st_vals s))) then Err
          else Ok (Index sch n (st_vals s) preload)
      end
  end.

(** [GetCol]: [None] is (nil bitmap / error), which an EQUAL leaf turns into the empty bitmap. *)
Definition get_col (ix : index) (h : N) : option bitmap :=
  match ix_vals ix !! h with
  | Some (BitmapOk b) => Some b
  | _ => None
  end.

(** ** Evaluation (query.go), without cache *)
Fixpoint eval (ix : index) (e : expr) : outcome bitmap :=
  match e with
  | Eq c v =>
      match ix_schema ix !! c with
      | None => Err
      | Some _ => Ok (default ∅ (get_col ix (vidx c v)))
      end
  | Not e => out_bind (eval ix e) (λ b, Ok (bm_flip b (ix_next ix)))
  | And es =>
      out_bind ((fix go (es : list expr) : outcome (list bitmap) :=
                   match es with
                   | [] => Ok []
                   | e :: es' => out_bind (eval ix e) (λ b, out_bind (go es') (λ bs, Ok (b :: bs)))
                   end) es)
               (λ bs, Ok (fast_and bs))
  | Or es =>
      out_bind ((fix go (es : list expr) : outcome (list bitmap) :=
                   match es with
                   | [] => Ok []
                   | e :: es' => out_bind (eval ix e) (λ b, out_bind (go es') (λ bs, Ok (b :: bs)))
                   end) es)
               (λ bs, Ok (fast_or bs))
  end.

(** ** Group-by *)

(** [populateGroupBy]: per listed column its values in ascending order with their index. *)
Definition gb_column (sch : schema) (c : str) : option (str * list (str * N)) :=
  match sch !! c with
  | None => None
  | Some col => Some (c, merge_sort (λ a b, str_le a.1 b.1) (map_to_list col))
  end.

Fixpoint populate_group_by (sch : schema) (cols : list str) : option (list (str * list (str * N))) :=
  match cols with
  | [] => Some []
  | c :: cols' =>
      match gb_column sch c with
      | None => None
      | Some g => match populate_group_by sch cols' with None => None | Some gs => Some (g :: gs) end
      end
  end.

(** One round of the nested refinement: every partial group is intersected with every value
    of the column; empty intersections are dropped.  [None] (bitmap not loadable) skips the
    value, as the [continue] in the code does. *)
Definition gb_refine (ix : index) (g : str * list (str * N)) (groups : list (list field * bitmap))
  : list (list field * bitmap) :=
  flat_map (λ rg, omap (λ vh, match get_col ix vh.2 with
                              | None => None
                              | Some vbm => let r := rg.2 ∩ vbm in
                                            if bm_is_empty r then None else Some (rg.1 ++ [(g.1, vh.1)], r)
                              end) g.2) groups.

Definition group_by (ix : index) (gbs : list (str * list (str * N))) (result : bitmap)
  : list (list field * N) :=
  match gbs with
  | [] => []
  | _ => map (λ rg, (rg.1, bm_card rg.2)) (foldl (λ groups g, gb_refine ix g groups) [([], result)] gbs)
  end.

Record query := Query { q_expr : expr; q_group_by : list str }.
Record result := Result { r_count : N; r_groups : list (list field * N) }.

(** [Index.Execute]: group-by columns are resolved first, then the expression is evaluated. *)
Definition execute (ix : index) (q : query) : outcome result :=
  match populate_group_by (ix_schema ix) (q_group_by q) with
  | None => Err
  | Some gbs => out_bind (eval ix (q_expr q)) (λ b, Ok (Result (bm_card b) (group_by ix gbs b)))
  end.

(** [GetSchema]: columns ascending, values ascending. *)
Definition get_schema (ix : index) : list (str * list str) :=
  merge_sort (λ a b, str_le a.1 b.1)
             (map (λ cv, (cv.1, merge_sort str_le (map fst (map_to_list cv.2)))) (map_to_list (ix_schema ix))).

(** ** End-to-end builders used by the theorems and by the correspondence check *)
Inductive writer_kind := WMem | WBig.

Definition build_store (w : writer_kind) (rows : list row) : outcome store :=
  match w with
  | WMem => let st := (w_add_rows w_init rows).2 in
            Ok (final_store (mem_flush_txs st (map_to_list (w_vals st))))
  | WBig => let st := (b_add_rows b_init rows).2 in
            out_map (λ tx, final_store [tx]) (big_flush_tx st)
  end.

Definition run_query (w : writer_kind) (preload : bool) (rows : list row) (q : query) : outcome result :=
  out_bind (build_store w rows) (λ s, out_bind (open_index preload s) (λ ix, execute ix q)).

End WithHash.

(** * Specification of group-by and schema (no hash involved) *)

(** Distinct values of a column in ascending order. *)
Definition col_values (rows : list row) (c : str) : list str :=
  merge_sort str_le (remove_dups (flat_map (λ r, omap (λ cv, if decide (cv.1 = c) then Some cv.2 else None) r) rows)).

(** All tuples over the listed columns in lexicographic order. *)
Definition extend_tuples (ts : list (list str)) (vs : list str) : list (list str) :=
  flat_map (λ t, map (λ v, t ++ [v]) vs) ts.
Definition all_tuples (vss : list (list str)) : list (list str) := foldl extend_tuples [[]] vss.

Definition row_in_group (cols : list str) (t : list str) (r : row) : bool :=
  forallb (λ cv, row_has r cv.1 cv.2) (zip cols t).

Definition group_count (rows : list row) (e : expr) (cols : list str) (t : list str) : N :=
  N.of_nat (length (filter (λ r, sat r e && row_in_group cols t r = true) rows)).

Definition spec_groups (rows : list row) (e : expr) (cols : list str) : list (list field * N) :=
  match cols with
  | [] => []
  | _ => omap (λ t, let n := group_count rows e cols t in
                    if n =? 0 then None else Some (zip cols t, n))
              (all_tuples (map (col_values rows) cols))
  end.

Definition spec_execute (rows : list row) (q : query) : outcome result :=
  if bool_decide (Forall (λ c, c ∈ columns rows) (q_group_by q)) then
    out_bind (spec_count rows (q_expr q)) (λ n, Ok (Result n (spec_groups rows (q_expr q) (q_group_by q))))
  else Err.

Definition spec_schema (rows : list row) : list (str * list str) :=
  map (λ c, (c, col_values rows c)) (merge_sort str_le (remove_dups (columns rows))).

(** The idealised hash used when the model is executed: an injection into [N]. *)
Definition H_enc (l : list N) : N := Npos (encode l).

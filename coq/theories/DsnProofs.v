(** Data source names (Dsn.v): the connection-cache key determines the configuration. *)
From updog Require Import Prelude Dsn.
From Coq Require Import ZifyN ZifyNat ZifyBool.
Local Open Scope N_scope.

(** Two [file:] sources whose option keys are equal ask for the same index options: sharing a
    connection never hands out an index configured differently from what the name asked for. *)
Lemma key_determines_cfg kvs1 kvs2 c1 k1 c2 k2 :
  file_options kvs1 = Some (c1, k1) → file_options kvs2 = Some (c2, k2) → k1 = k2 → c1 = c2.
Proof.
  unfold file_options. intros H1 H2 Hk.
  destruct (str_eqb (values_get kvs1 s_preload) s_true) eqn:Hp1;
  destruct (str_eqb (values_get kvs2 s_preload) s_true) eqn:Hp2;
  destruct (str_eqb (values_get kvs1 s_lrucache) s_true) eqn:Hl1;
  destruct (str_eqb (values_get kvs2 s_lrucache) s_true) eqn:Hl2;
  repeat match goal with
  | H : match parse_uint64 ?s with _ => _ end = _ |- _ => let E := fresh "E" in destruct (parse_uint64 s) eqn:E; [|discriminate H]
  end;
  injection H1 as <- <-; injection H2 as <- <-;
  cbv [k_preload k_lrucache k_lrucachesize s_preload s_lrucache s_lrucachesize s_true app] in *;
  try discriminate Hk; try reflexivity;
  injection Hk as Hsz; rewrite Hsz in *; congruence.
Qed.

Lemma parse_dsn_key_determines_cfg n1 n2 p1 c1 k1 p2 c2 k2 :
  parse_dsn n1 = DsnFile p1 c1 k1 → parse_dsn n2 = DsnFile p2 c2 k2 → (p1, k1) = (p2, k2) → c1 = c2.
Proof.
  unfold parse_dsn. intros H1 H2 [= -> Hk].
  destruct (cut 58 n1) as [sch1 [rest1|]]; [|discriminate].
  destruct (cut 58 n2) as [sch2 [rest2|]]; [|discriminate].
  destruct (str_eqb sch1 s_file); [|destruct (str_eqb sch1 s_grpc); [destruct rest1 as [|? [|? ?]]; repeat case_match; discriminate|discriminate]].
  destruct (str_eqb sch2 s_file); [|destruct (str_eqb sch2 s_grpc); [destruct rest2 as [|? [|? ?]]; repeat case_match; discriminate|discriminate]].
  destruct (cut 63 rest1) as [pa qa], (cut 63 rest2) as [pb qb].
  destruct (file_options (parse_query (default [] qa))) as [[ca ka]|] eqn:Ea; [|discriminate].
  destruct (file_options (parse_query (default [] qb))) as [[cb kb]|] eqn:Eb; [|discriminate].
  injection H1 as <- <- <-. injection H2 as <- <- <-.
  eapply key_determines_cfg; eauto.
Qed.

(** [parse_uint64] accepts exactly non-empty digit strings whose value fits 64 bits. *)
Lemma digits_value_digits acc s v : digits_value acc s = Some v → Forall (λ d, 48 ≤ d ∧ d ≤ 57) s.
Proof.
  revert acc; induction s as [|d s IH]; intros acc Hv; [constructor|].
  cbn [digits_value] in Hv.
  destruct (N.leb_spec 48 d), (N.leb_spec d 57); cbn [andb] in Hv; try discriminate.
  constructor; [lia | eapply IH, Hv].
Qed.

Lemma parse_uint64_spec s v : parse_uint64 s = Some v → s ≠ [] ∧ Forall (λ d, 48 ≤ d ∧ d ≤ 57) s ∧ v < 2 ^ 64.
Proof.
  unfold parse_uint64. destruct s as [|d s]; [discriminate|].
  destruct (digits_value 0 (d :: s)) as [w|] eqn:E; [|discriminate].
  destruct (N.ltb_spec w (2 ^ 64)); [|discriminate]. intros [= <-].
  split; [discriminate|]. split; [eapply digits_value_digits, E | assumption].
Qed.

(** The options without a cache never fail; with [lrucache=true] they fail exactly when the
    size is not a 64-bit decimal number. *)
Lemma file_options_no_cache kvs :
  str_eqb (values_get kvs s_lrucache) s_true = false →
  ∃ k, file_options kvs = Some (FileCfg (str_eqb (values_get kvs s_preload) s_true) None, k).
Proof. intros E. unfold file_options. rewrite E. eauto. Qed.

Lemma file_options_cache kvs :
  str_eqb (values_get kvs s_lrucache) s_true = true →
  file_options kvs = None ↔ parse_uint64 (values_get kvs s_lrucachesize) = None.
Proof. intros E. unfold file_options. rewrite E. destruct (parse_uint64 _); split; congruence. Qed.

(* non-vacuity: concrete names *)
Definition bytes_of (l : list N) := l.
Example dsn_ex1 :
  (* file:/d/x.updog?preload=true&lrucache=true&lrucachesize=100 *)
  parse_dsn ([102;105;108;101;58;47;100;47;120;63] ++ s_preload ++ [61] ++ s_true ++ [38] ++ s_lrucache ++ [61] ++ s_true ++ [38] ++ s_lrucachesize ++ [61;49;48;48])
  = DsnFile [47;100;47;120] (FileCfg true (Some 100)) (k_preload ++ k_lrucache ++ k_lrucachesize ++ [49;48;48]).
Proof. vm_compute. reflexivity. Qed.
Example dsn_ex2 : (* file:rel?lrucache=true&lrucachesize=18446744073709551616 : overflow *)
  parse_dsn ([102;105;108;101;58;114;101;108;63] ++ s_lrucache ++ [61] ++ s_true ++ [38] ++ s_lrucachesize ++ [61;49;56;52;52;54;55;52;52;48;55;51;55;48;57;53;53;49;54;49;54]) = DsnError.
Proof. vm_compute. reflexivity. Qed.
Example dsn_ex3 : (* file:rel?preload=false&preload=true : Get takes the first value *)
  parse_dsn ([102;105;108;101;58;114;101;108;63] ++ s_preload ++ [61;102;97;108;115;101;38] ++ s_preload ++ [61] ++ s_true) = DsnFile [114;101;108] (FileCfg false None) [].
Proof. vm_compute. reflexivity. Qed.

(** Proofs about evaluation through a result cache (properties C03 and C04).

    PART 1: cache keys are injective on expressions whose columns contain no NUL byte
            (the hash is assumed injective), hence keys separate meanings.
    PART 2: evaluation through ANY cache that obeys the contract [cache_ok] returns exactly
            what evaluation without a cache returns; [null_cache] and [lru_cache] (any
            capacity, any overhead, any size function) obey the contract.
    PART 3: the evaluation as a resumption, interleaved by ANY scheduler over ANY cache that
            obeys the contract: every thread that finishes returns the answer of the
            uncached sequential evaluation; and some schedule finishes every thread. *)
From updog Require Import Prelude Index IndexProofs LRU LRUProofs CacheEval.
From Coq Require Import ZifyN ZifyNat ZifyBool.
Local Open Scope N_scope.

(* [Arguments] given inside the section of CacheEval.v do not survive the section. *)
Local Arguments cget {C}.
Local Arguments cput {C}.

Section CacheProofs.
Context (H : list N → N) (H_inj : Inj (=) (=) H).

(** * PART 1: keys separate meanings *)

Lemma nul_free_Eq c v : expr_nul_free (Eq c v) ↔ nul_free c.
Proof. unfold expr_nul_free. simpl. apply Forall_singleton. Qed.

Lemma nul_free_Not e : expr_nul_free (Not e) ↔ expr_nul_free e.
Proof. done. Qed.

Lemma nul_free_And es : expr_nul_free (And es) ↔ Forall expr_nul_free es.
Proof. unfold expr_nul_free. simpl. apply Forall_flat_map. Qed.

Lemma nul_free_Or es : expr_nul_free (Or es) ↔ Forall expr_nul_free es.
Proof. unfold expr_nul_free. simpl. apply Forall_flat_map. Qed.

Lemma map_key_inj es1 :
  Forall (λ e1, ∀ e2, expr_nul_free e1 → expr_nul_free e2 →
                      cache_key H e1 = cache_key H e2 → e1 = e2) es1 →
  ∀ es2, Forall expr_nul_free es1 → Forall expr_nul_free es2 →
         map (cache_key H) es1 = map (cache_key H) es2 → es1 = es2.
Proof.
  induction 1 as [|e1 es1 He1 _ IH]; intros [|e2 es2] Hn1 Hn2 Hm; simpl in Hm; try done.
  injection Hm as Hk Hm.
  apply Forall_cons in Hn1 as [Hn1 Hn1'], Hn2 as [Hn2 Hn2'].
  f_equal; [by apply He1|by apply IH].
Qed.

Theorem cache_key_inj e1 e2 :
  expr_nul_free e1 → expr_nul_free e2 → cache_key H e1 = cache_key H e2 → e1 = e2.
Proof.
  revert e2. induction e1 as [c v|e IH|es IH|es IH] using expr_ind';
    intros [c2 v2|e2|es2|es2] Hn1 Hn2 Hk; simpl in Hk; apply H_inj in Hk;
    unfold tagE, tagN, tagA, tagO in Hk; try discriminate.
  - injection Hk as Hk. apply nul_free_Eq in Hn1, Hn2.
    destruct (enc_inj _ _ _ _ Hn1 Hn2 Hk) as [-> ->]. done.
  - injection Hk as Hk. f_equal. by apply IH.
  - injection Hk as Hk. f_equal. apply nul_free_And in Hn1, Hn2. by apply (map_key_inj es).
  - injection Hk as Hk. f_equal. apply nul_free_Or in Hn1, Hn2. by apply (map_key_inj es).
Qed.

Corollary key_inj ix e1 e2 :
  expr_nul_free e1 → expr_nul_free e2 → cache_key H e1 = cache_key H e2 →
  eval H ix e1 = eval H ix e2.
Proof. intros Hn1 Hn2 Hk. by rewrite (cache_key_inj e1 e2 Hn1 Hn2 Hk). Qed.

(** * PART 2: transparency of every cache that obeys the contract *)

Section WithIndex.
Context (ix : index).

(** What a key means on this index. *)
Definition ksem (k : N) (b : bitmap) : Prop :=
  ∃ e, expr_nul_free e ∧ cache_key H e = k ∧ eval H ix e = Ok b.

Lemma ksem_intro e b : expr_nul_free e → eval H ix e = Ok b → ksem (cache_key H e) b.
Proof. intros Hn He. by exists e. Qed.

Lemma ksem_eval e b : expr_nul_free e → ksem (cache_key H e) b → eval H ix e = Ok b.
Proof.
  intros Hn (e' & Hn' & Hk & He'). by rewrite <- (key_inj ix e' e Hn' Hn Hk).
Qed.

(** The cache contract: whatever a lookup returns is the meaning of the key, and storing
    the meaning of a key preserves the invariant. *)
Record cache_ok {C : Type} (ops : cache_ops C) (cinv : C → Prop) : Prop := {
  get_ok : ∀ c k r c', cinv c → cget ops c k = (r, c') → cinv c' ∧ (∀ b, r = Some b → ksem k b);
  put_ok : ∀ c k b, cinv c → ksem k b → cinv (cput ops c k b)
}.

Section WithCache.
Context {C : Type} (ops : cache_ops C) (cinv : C → Prop) (Hok : cache_ok ops cinv).

(** The inner loop of [eval_c] for AND/OR, as a named function. *)
Definition eval_c_list : list expr → C → outcome (list bitmap) * C :=
  fix go (es : list expr) (c : C) : outcome (list bitmap) * C :=
    match es with
    | [] => (Ok [], c)
    | e1 :: es' =>
        match eval_c H ops ix e1 c with
        | (Ok b, c') => match go es' c' with
                        | (Ok bs, c'') => (Ok (b :: bs), c'')
                        | (Err, c'') => (Err, c'') | (Panic, c'') => (Panic, c'') | (Hang, c'') => (Hang, c'')
                        end
        | (Err, c') => (Err, c') | (Panic, c') => (Panic, c') | (Hang, c') => (Hang, c')
        end
    end.

Lemma eval_c_list_cons e1 es c :
  eval_c_list (e1 :: es) c =
  match eval_c H ops ix e1 c with
  | (Ok b, c') => match eval_c_list es c' with
                  | (Ok bs, c'') => (Ok (b :: bs), c'')
                  | (Err, c'') => (Err, c'') | (Panic, c'') => (Panic, c'') | (Hang, c'') => (Hang, c'')
                  end
  | (Err, c') => (Err, c') | (Panic, c') => (Panic, c') | (Hang, c') => (Hang, c')
  end.
Proof. reflexivity. Qed.

Lemma eval_c_And es c :
  eval_c H ops ix (And es) c =
  match cget ops c (cache_key H (And es)) with
  | (Some b, c1) => (Ok b, c1)
  | (None, c1) =>
      match eval_c_list es c1 with
      | (Ok bs, c2) => (Ok (fast_and bs), cput ops c2 (cache_key H (And es)) (fast_and bs))
      | (Err, c2) => (Err, c2) | (Panic, c2) => (Panic, c2) | (Hang, c2) => (Hang, c2)
      end
  end.
Proof. reflexivity. Qed.

Lemma eval_c_Or es c :
  eval_c H ops ix (Or es) c =
  match cget ops c (cache_key H (Or es)) with
  | (Some b, c1) => (Ok b, c1)
  | (None, c1) =>
      match eval_c_list es c1 with
      | (Ok bs, c2) => (Ok (fast_or bs), cput ops c2 (cache_key H (Or es)) (fast_or bs))
      | (Err, c2) => (Err, c2) | (Panic, c2) => (Panic, c2) | (Hang, c2) => (Hang, c2)
      end
  end.
Proof. reflexivity. Qed.

Lemma eval_list_cons e es :
  eval_list H ix (e :: es) =
  out_bind (eval H ix e) (λ b, out_bind (eval_list H ix es) (λ bs, Ok (b :: bs))).
Proof. reflexivity. Qed.

Definition transparent_at (e : expr) : Prop :=
  expr_nul_free e → ∀ c, cinv c → ∃ c', eval_c H ops ix e c = (eval H ix e, c') ∧ cinv c'.

Lemma eval_c_list_transparent es :
  Forall transparent_at es → Forall expr_nul_free es →
  ∀ c, cinv c → ∃ c', eval_c_list es c = (eval_list H ix es, c') ∧ cinv c'.
Proof.
  induction 1 as [|e es He _ IH]; intros Hn c Hc.
  - exists c. done.
  - apply Forall_cons in Hn as [Hn Hn'].
    rewrite eval_c_list_cons, eval_list_cons.
    destruct (He Hn c Hc) as (c1 & -> & Hc1).
    destruct (eval H ix e) as [b| | |]; simpl; try (by exists c1).
    destruct (IH Hn' c1 Hc1) as (c2 & -> & Hc2).
    destruct (eval_list H ix es) as [bs| | |]; simpl; by exists c2.
Qed.

(** A lookup either misses or returns the uncached value. *)
Lemma get_sound e c r c1 :
  expr_nul_free e → cinv c → cget ops c (cache_key H e) = (r, c1) →
  cinv c1 ∧ (∀ b, r = Some b → eval H ix e = Ok b).
Proof.
  intros Hn Hc Hg. destruct (get_ok _ _ Hok _ _ _ _ Hc Hg) as [Hc1 Hr].
  split; [done|]. intros b ->. apply ksem_eval; [done|]. by apply Hr.
Qed.

Theorem eval_c_transparent e c :
  cinv c → expr_nul_free e → ∃ c', eval_c H ops ix e c = (eval H ix e, c') ∧ cinv c'.
Proof.
  intros Hc Hn. revert e Hn c Hc. fold transparent_at.
  induction e as [col v|e IH|es IH|es IH] using expr_ind'; intros Hn c Hc.
  - simpl. destruct (ix_schema ix !! col) as [cm|] eqn:Hs; [|by exists c].
    destruct (cget ops c (H (tagE :: col ++ 0 :: v))) as [r c1] eqn:Hg.
    destruct (get_sound (Eq col v) c r c1 Hn Hc Hg) as [Hc1 Hr].
    destruct r as [b|].
    + specialize (Hr b eq_refl). simpl in Hr. rewrite Hs in Hr. rewrite Hr. by exists c1.
    + eexists; split; [done|]. apply (put_ok _ _ Hok); [done|].
      apply (ksem_intro (Eq col v)); [done|]. simpl. by rewrite Hs.
  - simpl. destruct (cget ops c (H [tagN; cache_key H e])) as [r c1] eqn:Hg.
    destruct (get_sound (Not e) c r c1 Hn Hc Hg) as [Hc1 Hr].
    destruct r as [b|].
    + specialize (Hr b eq_refl). simpl in Hr. rewrite Hr. by exists c1.
    + destruct (IH Hn c1 Hc1) as (c2 & -> & Hc2).
      destruct (eval H ix e) as [b| | |] eqn:He; simpl; try (by exists c2).
      eexists; split; [done|]. apply (put_ok _ _ Hok); [done|].
      apply (ksem_intro (Not e)); [done|]. simpl. by rewrite He.
  - rewrite eval_c_And, eval_And.
    destruct (cget ops c (cache_key H (And es))) as [r c1] eqn:Hg.
    destruct (get_sound (And es) c r c1 Hn Hc Hg) as [Hc1 Hr].
    destruct r as [b|].
    + specialize (Hr b eq_refl). rewrite eval_And in Hr. rewrite Hr. by exists c1.
    + pose proof Hn as Hn'. apply nul_free_And in Hn'.
      destruct (eval_c_list_transparent es IH Hn' c1 Hc1) as (c2 & -> & Hc2).
      destruct (eval_list H ix es) as [bs| | |] eqn:He; simpl; try (by exists c2).
      eexists; split; [done|]. apply (put_ok _ _ Hok); [done|].
      apply (ksem_intro (And es)); [done|]. rewrite eval_And, He. done.
  - rewrite eval_c_Or, eval_Or.
    destruct (cget ops c (cache_key H (Or es))) as [r c1] eqn:Hg.
    destruct (get_sound (Or es) c r c1 Hn Hc Hg) as [Hc1 Hr].
    destruct r as [b|].
    + specialize (Hr b eq_refl). rewrite eval_Or in Hr. rewrite Hr. by exists c1.
    + pose proof Hn as Hn'. apply nul_free_Or in Hn'.
      destruct (eval_c_list_transparent es IH Hn' c1 Hc1) as (c2 & -> & Hc2).
      destruct (eval_list H ix es) as [bs| | |] eqn:He; simpl; try (by exists c2).
      eexists; split; [done|]. apply (put_ok _ _ Hok); [done|].
      apply (ksem_intro (Or es)); [done|]. rewrite eval_Or, He. done.
Qed.

Theorem execute_c_transparent q c :
  cinv c → expr_nul_free (q_expr q) →
  ∃ c', execute_c H ops ix q c = (execute H ix q, c') ∧ cinv c'.
Proof.
  intros Hc Hn. unfold execute_c, execute.
  destruct (populate_group_by (ix_schema ix) (q_group_by q)) as [gbs|]; [|by exists c].
  destruct (eval_c_transparent (q_expr q) c Hc Hn) as (c' & -> & Hc').
  destruct (eval H ix (q_expr q)); simpl; by exists c'.
Qed.

Lemma history_transparent_inv qs c :
  cinv c → Forall (λ q, expr_nul_free (q_expr q)) qs →
  ∃ c', run_history H ops ix c qs = (map (execute H ix) qs, c') ∧ cinv c'.
Proof.
  intros Hc Hn. revert c Hc. induction Hn as [|q qs Hq _ IH]; intros c Hc; simpl.
  - by exists c.
  - destruct (execute_c_transparent q c Hc Hq) as (c1 & -> & Hc1).
    destruct (IH c1 Hc1) as (c2 & -> & Hc2). by exists c2.
Qed.

Theorem history_transparent qs c :
  cinv c → Forall (λ q, expr_nul_free (q_expr q)) qs →
  (run_history H ops ix c qs).1 = map (execute H ix) qs.
Proof.
  intros Hc Hn. destruct (history_transparent_inv qs c Hc Hn) as (c' & -> & _). done.
Qed.

End WithCache.

(** ** The two built-in caches obey the contract *)

Lemma null_cache_ok : cache_ok null_cache (λ _, True).
Proof. split; [|done]. intros c k r c' _ [= <- <-]. done. Qed.

(** Every resident entry's identity resolves to the meaning of the entry's key, and identities
    in the table are below the next fresh one. *)
Definition lru_inv (c : lru_bm) : Prop :=
  (∀ e, e ∈ entries (lb_lru c) → ∃ b, lb_tbl c !! e_bm e = Some b ∧ ksem (e_key e) b)
  ∧ (∀ id b, lb_tbl c !! id = Some b → id < lb_next c).

Lemma lru_inv_init max o : lru_inv (lru_bm_init max o).
Proof.
  split; simpl.
  - intros e He. by apply elem_of_nil in He.
  - intros id b Hl. by rewrite lookup_empty in Hl.
Qed.

(** The eviction loop only drops entries (no hypothesis on the size counter). *)
Lemma evict_sub max o es c e : e ∈ fst (evict max o es c) → e ∈ es.
Proof.
  revert c; induction es as [|x es IH]; intros c; simpl; [done|].
  destruct (max <? c); [|done]. intros He. right. by eapply IH.
Qed.

Lemma lru_put_sub s k sz id e :
  e ∈ entries (lru_put s k sz id) → e = Entry k sz id ∨ e ∈ entries s.
Proof.
  destruct (put_unfold s k sz id) as (pre & Hpre & ->). simpl. intros He.
  apply evict_sub in He. rewrite Hpre in He.
  destruct (find_key k (entries s)) as [old|]; simpl in He;
    apply elem_of_app in He as [He|He].
  - right. by apply elem_of_remove_key in He as [? _].
  - left. by apply elem_of_list_singleton in He.
  - by right.
  - left. by apply elem_of_list_singleton in He.
Qed.

Lemma lru_get_sub s k e :
  e ∈ entries (lru_get s k).2 → e ∈ entries s.
Proof.
  unfold lru_get. destruct (find_key k (entries s)) as [e'|] eqn:Hf; simpl; [|done].
  intros He. apply elem_of_app in He as [He|He].
  - by apply elem_of_remove_key in He as [? _].
  - apply elem_of_list_singleton in He as ->. by apply find_key_Some in Hf as [? _].
Qed.

Lemma lru_get_hit s k id s' :
  lru_get s k = (RHit id, s') → ∃ e, e ∈ entries s ∧ e_key e = k ∧ e_bm e = id.
Proof.
  unfold lru_get. destruct (find_key k (entries s)) as [e|] eqn:Hf; [|done].
  intros [= <- _]. apply find_key_Some in Hf as [Hin Hk]. by exists e.
Qed.

Theorem lru_cache_ok size_of : cache_ok (lru_cache size_of) lru_inv.
Proof.
  split.
  - intros [s tbl nx] k r c' [Hent Hfresh]. simpl in *.
    destruct (lru_get s k) as [res s'] eqn:Hg.
    assert (lru_inv (LruBm s' tbl nx)) as Hinv'.
    { split; simpl; [|done]. intros e He. apply Hent.
      apply (lru_get_sub s k). by rewrite Hg. }
    destruct res as [|id|]; intros [= <- <-]; (split; [done|]); try done.
    intros b Hb. apply lru_get_hit in Hg as (e & Hin & <- & <-).
    destruct (Hent e Hin) as (b' & Hl & Hs). congruence.
  - intros [s tbl nx] k b [Hent Hfresh] Hs. simpl in *. split; simpl.
    + intros e He. apply lru_put_sub in He as [->|He]; simpl.
      * exists b. by rewrite lookup_insert.
      * destruct (Hent e He) as (b' & Hl & Hs'). exists b'. split; [|done].
        rewrite lookup_insert_ne; [done|]. apply Hfresh in Hl. lia.
    + intros id b' Hl. destruct (decide (id = nx)) as [->|Hne]; [lia|].
      rewrite lookup_insert_ne in Hl by done. apply Hfresh in Hl. lia.
Qed.

(** ** C03 for the two built-in caches *)

Corollary C03_null qs :
  Forall (λ q, expr_nul_free (q_expr q)) qs →
  (run_history H null_cache ix () qs).1 = map (execute H ix) qs.
Proof. by apply (history_transparent null_cache (λ _, True) null_cache_ok). Qed.

Corollary C03_lru size_of max o qs :
  Forall (λ q, expr_nul_free (q_expr q)) qs →
  (run_history H (lru_cache size_of) ix (lru_bm_init max o) qs).1 = map (execute H ix) qs.
Proof.
  apply (history_transparent (lru_cache size_of) lru_inv (lru_cache_ok size_of)).
  apply lru_inv_init.
Qed.

(** * PART 3: every interleaving returns the sequential answers *)

(** [good t p]: whatever the (contract-obeying) cache answers, [p] can only finish with [t],
    and it only ever stores the meaning of a key. *)
Inductive good (t : outcome bitmap) : prog → Prop :=
| good_ret : good t (Ret t)
| good_get k cont : (∀ r, (∀ b, r = Some b → ksem k b) → good t (cont r)) → good t (DoGet k cont)
| good_put k b cont : ksem k b → good t cont → good t (DoPut k b cont).

(** The inner loop of [compile] for AND/OR, as a named function. *)
Definition compile_list (K : outcome bitmap → prog) (fin : list bitmap → prog)
  : list expr → list bitmap → prog :=
  fix go (es : list expr) (acc : list bitmap) : prog :=
    match es with
    | [] => fin (rev acc)
    | e1 :: es' => compile H ix e1 (λ o, match o with
                                         | Ok b => go es' (b :: acc)
                                         | Err => K Err | Panic => K Panic | Hang => K Hang
                                         end)
    end.

Lemma compile_list_cons K fin e1 es acc :
  compile_list K fin (e1 :: es) acc =
  compile H ix e1 (λ o, match o with
                        | Ok b => compile_list K fin es (b :: acc)
                        | Err => K Err | Panic => K Panic | Hang => K Hang
                        end).
Proof. reflexivity. Qed.

Lemma compile_And es K :
  compile H ix (And es) K =
  DoGet (cache_key H (And es))
        (λ r, match r with
              | Some b => K (Ok b)
              | None => compile_list K (λ l, DoPut (cache_key H (And es)) (fast_and l) (K (Ok (fast_and l)))) es []
              end).
Proof. reflexivity. Qed.

Lemma compile_Or es K :
  compile H ix (Or es) K =
  DoGet (cache_key H (Or es))
        (λ r, match r with
              | Some b => K (Ok b)
              | None => compile_list K (λ l, DoPut (cache_key H (Or es)) (fast_or l) (K (Ok (fast_or l)))) es []
              end).
Proof. reflexivity. Qed.

Definition compile_good_at (e : expr) : Prop :=
  expr_nul_free e → ∀ K t, good t (K (eval H ix e)) → good t (compile H ix e K).

Lemma compile_list_good K fin t es :
  Forall compile_good_at es → Forall expr_nul_free es →
  ∀ acc, good t (match eval_list H ix es with
                 | Ok bs => fin (rev acc ++ bs)
                 | Err => K Err | Panic => K Panic | Hang => K Hang
                 end) →
         good t (compile_list K fin es acc).
Proof.
  induction 1 as [|e es He _ IH]; intros Hn acc Hg.
  - simpl in *. by rewrite app_nil_r in Hg.
  - apply Forall_cons in Hn as [Hn Hn'].
    rewrite compile_list_cons. apply He; [done|].
    rewrite eval_list_cons in Hg.
    destruct (eval H ix e) as [b| | |]; simpl in Hg |- *; try done.
    apply IH; [done|].
    destruct (eval_list H ix es) as [bs| | |]; simpl in Hg |- *; try done.
    by rewrite <- app_assoc.
Qed.

Theorem compile_good e :
  expr_nul_free e → ∀ K t, good t (K (eval H ix e)) → good t (compile H ix e K).
Proof.
  fold (compile_good_at e).
  induction e as [col v|e IH|es IH|es IH] using expr_ind'; intros Hn K t Hg.
  - simpl in *. destruct (ix_schema ix !! col) as [cm|] eqn:Hs; [|done].
    constructor. intros [b|] Hr.
    + specialize (Hr b eq_refl). apply (ksem_eval (Eq col v)) in Hr; [|done].
      simpl in Hr. rewrite Hs in Hr. by rewrite <- Hr.
    + constructor; [|done]. apply (ksem_intro (Eq col v)); [done|]. simpl. by rewrite Hs.
  - simpl. constructor. intros [b|] Hr.
    + specialize (Hr b eq_refl). apply (ksem_eval (Not e)) in Hr; [|done]. by rewrite <- Hr.
    + apply IH; [done|]. simpl in Hg.
      destruct (eval H ix e) as [b| | |] eqn:He; simpl in Hg |- *; try done.
      constructor; [|done]. apply (ksem_intro (Not e)); [done|]. simpl. by rewrite He.
  - rewrite compile_And. constructor. intros [b|] Hr.
    + specialize (Hr b eq_refl). apply (ksem_eval (And es)) in Hr; [|done]. by rewrite <- Hr.
    + pose proof Hn as Hn'. apply nul_free_And in Hn'.
      apply compile_list_good; [done|done|]. simpl. rewrite eval_And in Hg.
      destruct (eval_list H ix es) as [bs| | |] eqn:He; simpl in Hg |- *; try done.
      constructor; [|done]. apply (ksem_intro (And es)); [done|]. by rewrite eval_And, He.
  - rewrite compile_Or. constructor. intros [b|] Hr.
    + specialize (Hr b eq_refl). apply (ksem_eval (Or es)) in Hr; [|done]. by rewrite <- Hr.
    + pose proof Hn as Hn'. apply nul_free_Or in Hn'.
      apply compile_list_good; [done|done|]. simpl. rewrite eval_Or in Hg.
      destruct (eval_list H ix es) as [bs| | |] eqn:He; simpl in Hg |- *; try done.
      constructor; [|done]. apply (ksem_intro (Or es)); [done|]. by rewrite eval_Or, He.
Qed.

Corollary thread_good e : expr_nul_free e → good (eval H ix e) (thread_of H ix e).
Proof. intros Hn. apply compile_good; [done|]. constructor. Qed.

Lemma good_ret_inv t r : good t (Ret r) → r = t.
Proof. by inversion 1. Qed.

Section Sched.
Context {C : Type} (ops : cache_ops C) (cinv : C → Prop) (Hok : cache_ok ops cinv).

Lemma step1_good c t p :
  cinv c → good t p → cinv (step1 ops c p).1 ∧ good t (step1 ops c p).2.
Proof.
  intros Hc [|k cont Hcont|k b cont Hs Hcont]; simpl.
  - split; [done|constructor].
  - destruct (cget ops c k) as [r c'] eqn:Hg. simpl.
    destruct (get_ok _ _ Hok _ _ _ _ Hc Hg) as [Hc' Hr]. split; [done|]. by apply Hcont.
  - split; [|done]. by apply (put_ok _ _ Hok).
Qed.

Theorem any_schedule targets c ts :
  cinv c → Forall2 good targets ts →
  ∀ sched, cinv (run_sched ops sched c ts).1 ∧ Forall2 good targets (run_sched ops sched c ts).2.
Proof.
  intros Hc Hg sched. revert c ts Hc Hg.
  induction sched as [|i sched IH]; intros c ts Hc Hg; simpl; [done|].
  destruct (ts !! i) as [p|] eqn:Hl; [|by apply IH].
  destruct (Forall2_lookup_r _ _ _ _ _ Hg Hl) as (t & Ht & Hp).
  destruct (step1_good c t p Hc Hp) as [Hc' Hp'].
  destruct (step1 ops c p) as [c' p']. simpl in *.
  apply IH; [done|]. rewrite <- (list_insert_id targets i t) by done.
  by apply Forall2_insert.
Qed.

Lemma threads_good es :
  Forall expr_nul_free es → Forall2 good (map (eval H ix) es) (map (thread_of H ix) es).
Proof.
  induction 1 as [|e es He _ IH]; simpl; constructor; [by apply thread_good|done].
Qed.

Lemma map_lookup_Some {A B} (f : A → B) l i y :
  map f l !! i = Some y → ∃ x, l !! i = Some x ∧ y = f x.
Proof.
  revert i; induction l as [|x l IH]; intros [|i]; simpl; try done.
  - intros [= <-]. by exists x.
  - apply IH.
Qed.

(** C04: under every schedule, over every cache that obeys the contract, a thread that has
    finished returned exactly what its expression evaluates to alone and without a cache. *)
Theorem C04_any_schedule c es :
  cinv c → Forall expr_nul_free es →
  ∀ sched i r, (run_sched ops sched c (map (thread_of H ix) es)).2 !! i = Some (Ret r) →
               ∃ e, es !! i = Some e ∧ r = eval H ix e.
Proof.
  intros Hc Hn sched i r Hl.
  destruct (any_schedule _ c _ Hc (threads_good es Hn) sched) as [_ Hg].
  destruct (Forall2_lookup_r _ _ _ _ _ Hg Hl) as (t & Ht & Hp).
  apply good_ret_inv in Hp as ->.
  apply map_lookup_Some in Ht as (e & He & ->). by exists e.
Qed.

(** ** Non-vacuity: some schedule finishes every thread (for any cache whatsoever) *)

Lemma run_sched_app s1 s2 c ts :
  run_sched ops (s1 ++ s2) c ts =
  run_sched ops s2 (run_sched ops s1 c ts).1 (run_sched ops s1 c ts).2.
Proof.
  revert c ts; induction s1 as [|i s1 IH]; intros c ts; simpl; [done|].
  destruct (ts !! i) as [p|]; [|done]. by destruct (step1 ops c p).
Qed.

(** A resumption is a well-founded tree: stepping one thread alone finishes it, whatever the
    cache answers, and leaves the other threads untouched. *)
Lemma run_one p :
  ∀ c ts i, ts !! i = Some p →
            ∃ sched c' r, run_sched ops sched c ts = (c', <[i := Ret r]> ts).
Proof.
  induction p as [r|k cont IH|k b cont IH]; intros c ts i Hl.
  - exists [], c, r. simpl. by rewrite list_insert_id.
  - destruct (cget ops c k) as [r c1] eqn:Hg.
    destruct (IH r c1 (<[i := cont r]> ts) i) as (sched & c' & r' & Hrun).
    { apply list_lookup_insert. by eapply lookup_lt_Some. }
    exists (i :: sched), c', r'. simpl. rewrite Hl. simpl. rewrite Hg, Hrun.
    by rewrite list_insert_insert.
  - destruct (IH (cput ops c k b) (<[i := cont]> ts) i) as (sched & c' & r' & Hrun).
    { apply list_lookup_insert. by eapply lookup_lt_Some. }
    exists (i :: sched), c', r'. simpl. rewrite Hl. simpl. rewrite Hrun.
    by rewrite list_insert_insert.
Qed.

Definition finished (p : prog) : Prop := ∃ r, p = Ret r.

Lemma finish_prefix c ts (n : nat) :
  ∃ sched, length (run_sched ops sched c ts).2 = length ts
           ∧ ∀ j p, (j < n)%nat → (run_sched ops sched c ts).2 !! j = Some p → finished p.
Proof.
  induction n as [|n (sched & Hlen & Hfin)].
  - exists []. split; [done|]. intros j p Hj. lia.
  - destruct ((run_sched ops sched c ts).2 !! n) as [p|] eqn:Hl.
    + destruct (run_one p (run_sched ops sched c ts).1 _ n Hl) as (s2 & c' & r & Hrun).
      exists (sched ++ s2). rewrite run_sched_app, Hrun. simpl. rewrite insert_length.
      split; [done|]. intros j q Hj Hq.
      destruct (decide (j = n)) as [->|Hne].
      * rewrite list_lookup_insert in Hq by (by eapply lookup_lt_Some).
        injection Hq as <-. by exists r.
      * rewrite list_lookup_insert_ne in Hq by done. apply (Hfin j); [lia|done].
    + exists sched. split; [done|]. intros j q Hj Hq.
      destruct (decide (j = n)) as [->|Hne]; [congruence|]. apply (Hfin j); [lia|done].
Qed.

Theorem some_schedule_finishes c ts :
  ∃ sched, Forall finished (run_sched ops sched c ts).2.
Proof.
  destruct (finish_prefix c ts (length ts)) as (sched & Hlen & Hfin).
  exists sched. apply Forall_lookup. intros j p Hl. apply (Hfin j); [|done].
  apply lookup_lt_Some in Hl. lia.
Qed.

Lemma good_finished targets ts :
  Forall2 good targets ts → Forall finished ts → ts = map Ret targets.
Proof.
  induction 1 as [|t p targets ts Hg _ IH]; intros Hf; [done|].
  apply Forall_cons in Hf as [[r ->] Hf]. simpl.
  apply good_ret_inv in Hg as ->. f_equal. by apply IH.
Qed.

(** There is a schedule under which every thread finishes, and then (as under every such
    schedule) every thread holds the uncached sequential answer. *)
Theorem C04_complete_schedule c es :
  cinv c → Forall expr_nul_free es →
  ∃ sched, (run_sched ops sched c (map (thread_of H ix) es)).2
           = map (λ e, Ret (eval H ix e)) es.
Proof.
  intros Hc Hn.
  destruct (some_schedule_finishes c (map (thread_of H ix) es)) as [sched Hfin].
  exists sched.
  destruct (any_schedule _ c _ Hc (threads_good es Hn) sched) as [_ Hg].
  rewrite (good_finished _ _ Hg Hfin). by rewrite map_map.
Qed.

End Sched.

(** C04 for the two built-in caches. *)
Corollary C04_null es sched i r :
  Forall expr_nul_free es →
  (run_sched null_cache sched () (map (thread_of H ix) es)).2 !! i = Some (Ret r) →
  ∃ e, es !! i = Some e ∧ r = eval H ix e.
Proof.
  intros Hn. by apply (C04_any_schedule null_cache (λ _, True) null_cache_ok).
Qed.

Corollary C04_lru size_of max o es sched i r :
  Forall expr_nul_free es →
  (run_sched (lru_cache size_of) sched (lru_bm_init max o) (map (thread_of H ix) es)).2 !! i
    = Some (Ret r) →
  ∃ e, es !! i = Some e ∧ r = eval H ix e.
Proof.
  intros Hn.
  apply (C04_any_schedule (lru_cache size_of) lru_inv (lru_cache_ok size_of)); [|done].
  apply lru_inv_init.
Qed.

End WithIndex.
End CacheProofs.

(** * The idealised hash of the executable model is an instance *)
Global Instance H_enc_inj : Inj (=) (=) H_enc.
Proof. intros l1 l2 Heq. unfold H_enc in Heq. injection Heq as Heq. by apply (inj encode). Qed.

(** * A concrete run: two threads, an interleaved schedule, an LRU cache with room for one
    entry only (so that evictions happen), and the null cache. *)
Section Example.
Let col : str := [99].
Let v1 : str := [1].
Let v2 : str := [2].
Let ex_ix : index :=
  Index {[ col := {[ v1 := vidx H_enc col v1; v2 := vidx H_enc col v2 ]} ]} 3
        {[ vidx H_enc col v1 := BitmapOk {[0; 2]}; vidx H_enc col v2 := BitmapOk {[1]} ]} false.
Let ea : expr := Not (Eq col v1).
Let eb : expr := Or [Eq col v1; Eq col v2; Not (Eq col v1)].

Let show (ps : list prog) : list (option (outcome (list N))) :=
  map (λ p, match p with
            | Ret (Ok b) => Some (Ok (elements b))
            | Ret Err => Some Err | Ret Panic => Some Panic | Ret Hang => Some Hang
            | _ => None
            end) ps.

Let sched : list nat := [0; 1; 1; 0; 1; 0; 1; 1; 0; 1; 0; 1; 1; 1; 1; 0; 0; 1; 1; 1]%nat.

Example C04_example_lru :
  show (run_sched (lru_cache (λ _, 8)) sched (lru_bm_init 80 64)
                  (map (thread_of H_enc ex_ix) [ea; eb])).2
  = [Some (Ok [1]); Some (Ok [0; 1; 2])]
  ∧ show (map (λ e, Ret (eval H_enc ex_ix e)) [ea; eb]) = [Some (Ok [1]); Some (Ok [0; 1; 2])].
Proof. vm_compute. done. Qed.

Example C04_example_null :
  show (run_sched null_cache sched () (map (thread_of H_enc ex_ix) [ea; eb])).2
  = [Some (Ok [1]); Some (Ok [0; 1; 2])].
Proof. vm_compute. done. Qed.
End Example.

Print Assumptions cache_key_inj.
Print Assumptions key_inj.
Print Assumptions eval_c_transparent.
Print Assumptions execute_c_transparent.
Print Assumptions history_transparent.
Print Assumptions null_cache_ok.
Print Assumptions lru_cache_ok.
Print Assumptions C03_null.
Print Assumptions C03_lru.
Print Assumptions compile_good.
Print Assumptions any_schedule.
Print Assumptions C04_any_schedule.
Print Assumptions some_schedule_finishes.
Print Assumptions C04_complete_schedule.
Print Assumptions C04_null.
Print Assumptions C04_lru.
Print Assumptions C04_example_lru.

(** C18: concurrent [AddRow] on the two index writers (writer.go, writer_big.go).

    Every thread performs its [AddRow] calls one after the other; a call is a sequence of
    micro-steps on the shared writer ([SLock; SReadId; SPair cv ...; SIncr; SUnlock]); a
    scheduler (an arbitrary list of thread numbers) interleaves the micro-steps.  The proofs
    are generic in a record [writer] of the three shared-state operations (read the next row
    id / add one pair under a row id / increment the next row id) and are instantiated for
    the in-memory writer ([wstate]) and the big writer ([bstate]). *)
From updog Require Import Prelude Index.
From Coq Require Import ZifyN ZifyNat ZifyBool.
Local Open Scope N_scope.

(** * Model *)

(** The micro-steps of one [AddRow] call. *)
Inductive mstep :=
| SLock                      (* idx.mtx.Lock() *)
| SReadId                    (* rowID := idx.nextRowID *)
| SPair (cv : str * str)     (* one iteration of the loop over the map *)
| SIncr                      (* deferred idx.nextRowID++ *)
| SUnlock.                   (* deferred idx.mtx.Unlock() *)

(** The three operations on the shared writer state that the micro-steps use. *)
Record writer (S : Type) := Writer {
  wr_init : S;
  wr_next : S → N;                       (* idx.nextRowID *)
  wr_pair : N → S → str * str → S;       (* schema.add + bitmap add / temp-bucket put *)
  wr_incr : S → S                        (* idx.nextRowID++ *)
}.
Arguments wr_init {S} _.
Arguments wr_next {S} _ _.
Arguments wr_pair {S} _ _ _ _.
Arguments wr_incr {S} _ _.

Record writer_ok {S} (W : writer S) : Prop := WriterOk {
  wr_next_init : wr_next W (wr_init W) = 0;
  wr_next_pair rid st cv : wr_next W (wr_pair W rid st cv) = wr_next W st;
  wr_next_incr st : wr_next W (wr_incr W st) = wr_next W st + 1
}.

(** Sequential [AddRow] / insertion of a list of rows, in terms of the three operations. *)
Definition add_row {S} (W : writer S) (st : S) (r : row) : N * S :=
  (wr_next W st, wr_incr W (foldl (wr_pair W (wr_next W st)) st r)).

Fixpoint add_rows {S} (W : writer S) (st : S) (rows : list row) : list N * S :=
  match rows with
  | [] => ([], st)
  | r :: rows' => let '(id, st1) := add_row W st r in
                  let '(ids, st2) := add_rows W st1 rows' in (id :: ids, st2)
  end.

(** The code of one call.  [prog_locked] is the code of the implementation. *)
Definition prog_locked (r : row) : list mstep :=
  [SLock; SReadId] ++ map SPair r ++ [SIncr; SUnlock].
(** Variant without the mutex ([SLock]/[SUnlock] removed, i.e. no-ops). *)
Definition prog_nomutex (r : row) : list mstep :=
  [SReadId] ++ map SPair r ++ [SIncr].
(** Variant in which the deferred calls run in the wrong order: increment after unlock. *)
Definition prog_late_incr (r : row) : list mstep :=
  [SLock; SReadId] ++ map SPair r ++ [SUnlock; SIncr].

(** Shared state: the writer, the mutex (its holder), and a ghost log of the calls that
    acquired the mutex (thread number and row of the call), in acquisition order. *)
Record shared (S : Type) := Shared {
  sh_st : S;
  sh_mtx : option nat;
  sh_acq : list (nat * row)
}.
Arguments Shared {S} _ _ _.
Arguments sh_st {S} _.
Arguments sh_mtx {S} _.
Arguments sh_acq {S} _.

(** Thread-local state: the call in progress (its row and the remaining micro-steps, i.e.
    the program counter), the local variable [rowID], the rows of the calls not yet started,
    and the ids returned by the completed calls. *)
Record thread := Thread {
  t_call : option (row * list mstep);
  t_rid : N;
  t_todo : list row;
  t_ret : list N
}.

Record config (S : Type) := Config {
  c_sh : shared S;
  c_ths : list thread
}.
Arguments Config {S} _ _.
Arguments c_sh {S} _.
Arguments c_ths {S} _.

Section Model.
Context {S : Type} (W : writer S).
(** The code of a call. *)
Context (prog : row → list mstep).

(** One micro-step of thread [i] (executing a call for row [r], local variable [rid]).
    [None]: the step is not enabled ([SLock] while the mutex is held). *)
Definition exec (i : nat) (r : row) (s : mstep) (rid : N) (sh : shared S) : option (N * shared S) :=
  match s with
  | SLock => match sh_mtx sh with
             | None => Some (rid, Shared (sh_st sh) (Some i) (sh_acq sh ++ [(i, r)]))
             | Some _ => None
             end
  | SReadId => Some (wr_next W (sh_st sh), sh)
  | SPair cv => Some (rid, Shared (wr_pair W rid (sh_st sh) cv) (sh_mtx sh) (sh_acq sh))
  | SIncr => Some (rid, Shared (wr_incr W (sh_st sh)) (sh_mtx sh) (sh_acq sh))
  | SUnlock => Some (rid, Shared (sh_st sh) None (sh_acq sh))
  end.

(** What the thread executes next: row and remaining code of the current call (a new call
    is started when none is in progress), and the rows that remain after it. *)
Definition pending (t : thread) : option (row * list mstep * list row) :=
  match t_call t with
  | Some (r, code) => Some (r, code, t_todo t)
  | None => match t_todo t with
            | [] => None
            | r :: todo' => Some (r, prog r, todo')
            end
  end.

(** After the last micro-step the call returns [rowID]. *)
Definition advance (r : row) (code' : list mstep) (rid' : N) (todo' : list row) (ret : list N) : thread :=
  match code' with
  | [] => Thread None rid' todo' (ret ++ [rid'])
  | _ :: _ => Thread (Some (r, code')) rid' todo' ret
  end.

Definition th_step (i : nat) (t : thread) (sh : shared S) : thread * shared S :=
  match pending t with
  | Some (r, s :: code', todo') =>
      match exec i r s (t_rid t) sh with
      | None => (t, sh)                            (* blocked *)
      | Some (rid', sh') => (advance r code' rid' todo' (t_ret t), sh')
      end
  | _ => (t, sh)                                   (* finished *)
  end.

(** The scheduler picks thread [i]. *)
Definition step (c : config S) (i : nat) : config S :=
  match c_ths c !! i with
  | None => c
  | Some t => let '(t', sh') := th_step i t (c_sh c) in Config sh' (<[i := t']> (c_ths c))
  end.

Definition run (sched : list nat) (c : config S) : config S := foldl step c sched.

Definition init (rows : list (list row)) : config S :=
  Config (Shared (wr_init W) None []) (map (λ R, Thread None 0 R []) rows).

Definition finished (t : thread) : Prop := t_call t = None ∧ t_todo t = [].
Definition all_finished (c : config S) : Prop := Forall finished (c_ths c).

(** Observables of a run: final writer state, returned ids per thread, acquisition order. *)
Definition final_state (c : config S) : S := sh_st (c_sh c).
Definition returned (c : config S) : list (list N) := map t_ret (c_ths c).
Definition acquired (c : config S) : list (nat * row) := sh_acq (c_sh c).
End Model.

(** The entries of a thread-tagged log that belong to thread [i]. *)
Definition of_thread {A} (i : nat) (l : list (nat * A)) : list A :=
  (filter (λ p, p.1 = i) l).*2.
(** The log of acquisitions with the position of each acquisition. *)
Definition positions (acq : list (nat * row)) : list (nat * N) :=
  imap (λ k p, (p.1, N.of_nat k)) acq.

(** * The two writers *)
Section Writers.
Context (H : list N → N).

Definition W_mem : writer wstate :=
  Writer wstate w_init w_next (w_add_pair H)
         (λ st, WState (w_schema st) (w_vals st) (w_next st + 1)).
Definition W_big : writer bstate :=
  Writer bstate b_init b_next (b_add_pair H)
         (λ st, BState (b_schema st) (b_temp st) (b_next st + 1)).

Lemma W_mem_ok : writer_ok W_mem.
Proof. by split. Qed.
Lemma W_big_ok : writer_ok W_big.
Proof. by split. Qed.

Lemma w_next_foldl rid st r : w_next (foldl (w_add_pair H rid) st r) = w_next st.
Proof. revert st; induction r as [|cv r IH]; intros st; simpl; [done|]. by rewrite IH. Qed.
Lemma b_next_foldl rid st r : b_next (foldl (b_add_pair H rid) st r) = b_next st.
Proof. revert st; induction r as [|cv r IH]; intros st; simpl; [done|]. by rewrite IH. Qed.

Lemma add_rows_mem st rows : add_rows W_mem st rows = w_add_rows H st rows.
Proof.
  revert st; induction rows as [|r rows IH]; intros st; [done|].
  simpl. unfold add_row, w_add_row. simpl. rewrite w_next_foldl, IH. done.
Qed.
Lemma add_rows_big st rows : add_rows W_big st rows = b_add_rows H st rows.
Proof.
  revert st; induction rows as [|r rows IH]; intros st; [done|].
  simpl. unfold add_row, b_add_row. simpl. rewrite b_next_foldl, IH. done.
Qed.
End Writers.

(** * (E) Without the mutex, or with the increment after the unlock, ids are duplicated *)

Definition ex_rows : list (list row) := [[[([1], [2])]]; [[([1], [3])]]].

Theorem C18_unlocked_refuted :
  ∃ sched, let c := run (W_mem H_enc) prog_nomutex sched (init (W_mem H_enc) ex_rows) in
    all_finished c ∧ returned c = [[0]; [0]].
Proof.
  exists [0; 1; 0; 1; 0; 1]%nat. split.
  - vm_compute. repeat constructor.
  - vm_compute. reflexivity.
Qed.

Theorem C18_late_incr_refuted :
  ∃ sched, let c := run (W_mem H_enc) prog_late_incr sched (init (W_mem H_enc) ex_rows) in
    all_finished c ∧ returned c = [[0]; [0]].
Proof.
  exists [0; 0; 0; 0; 1; 1; 1; 1; 0; 1]%nat. split.
  - vm_compute. repeat constructor.
  - vm_compute. reflexivity.
Qed.

Theorem C18_unlocked_refuted_big :
  ∃ sched, let c := run (W_big H_enc) prog_nomutex sched (init (W_big H_enc) ex_rows) in
    all_finished c ∧ returned c = [[0]; [0]].
Proof.
  exists [0; 1; 0; 1; 0; 1]%nat. split.
  - vm_compute. repeat constructor.
  - vm_compute. reflexivity.
Qed.

(** * Generic lemmas on tagged logs *)
Lemma filter_complement_perm {A} (P : A → Prop) `{∀ x, Decision (P x)} (l : list A) :
  filter P l ++ filter (λ x, ¬ P x) l ≡ₚ l.
Proof.
  induction l as [|x l IH]; [done|].
  destruct (decide (P x)) as [HP|HP].
  - rewrite filter_cons_True, (filter_cons_False (λ x, ¬ P x)) by tauto. simpl. by f_equiv.
  - rewrite filter_cons_False, (filter_cons_True (λ x, ¬ P x)) by tauto.
    rewrite <-Permutation_middle. by f_equiv.
Qed.

Section Tagged.
Context {A : Type}.
Implicit Types l : list (nat * A).

Lemma of_thread_app i l1 l2 : of_thread i (l1 ++ l2) = of_thread i l1 ++ of_thread i l2.
Proof. unfold of_thread. by rewrite filter_app, fmap_app. Qed.
Lemma of_thread_same i (a : A) : of_thread i [(i, a)] = [a].
Proof. unfold of_thread. rewrite filter_cons_True by done. done. Qed.
Lemma of_thread_other i j (a : A) : j ≠ i → of_thread i [(j, a)] = [].
Proof. intros Hne. unfold of_thread. rewrite filter_cons_False by done. done. Qed.
Lemma of_thread_all_other i j l : j ≠ i → Forall (λ p, p.1 = j) l → of_thread i l = [].
Proof.
  intros Hne Hall. induction Hall as [|[k a] l Hk Hall IH]; [done|].
  simpl in Hk. subst k. change ((j, a) :: l) with ([(j, a)] ++ l).
  rewrite of_thread_app, of_thread_other, IH; done.
Qed.

(** Splitting a log by thread: a permutation. *)
Lemma of_thread_concat (n : nat) l :
  Forall (λ p, (p.1 < n)%nat) l →
  concat (map (λ i, of_thread i l) (seq 0 n)) ≡ₚ l.*2.
Proof.
  revert l; induction n as [|n IH]; intros l Hall.
  - destruct l as [|p l]; [done|]. apply Forall_cons in Hall as [Hp _]. lia.
  - rewrite seq_S, map_app, concat_app. simpl. rewrite app_nil_r.
    trans ((filter (λ p, p.1 = n) l ++ filter (λ p, ¬ p.1 = n) l).*2);
      [|by rewrite filter_complement_perm].
    rewrite fmap_app, (comm (++)). apply Permutation_app; [done|].
    rewrite <-(IH (filter (λ p, ¬ p.1 = n) l)).
    + apply reflexive_eq. f_equal. apply map_ext_in. intros i Hi.
      apply in_seq in Hi. unfold of_thread. f_equal.
      rewrite list_filter_filter. apply list_filter_iff. intros p. lia.
    + apply Forall_forall. intros p Hp. apply elem_of_list_filter in Hp as [Hpn Hp].
      rewrite Forall_forall in Hall. specialize (Hall p Hp). lia.
Qed.
End Tagged.

Lemma positions_app acq1 acq2 :
  positions (acq1 ++ acq2) = positions acq1 ++ imap (λ k p, (p.1, N.of_nat (length acq1 + k))) acq2.
Proof. unfold positions. by rewrite imap_app. Qed.
Lemma positions_snoc acq i r :
  positions (acq ++ [(i, r)]) = positions acq ++ [(i, N.of_nat (length acq))].
Proof. rewrite positions_app. simpl. by rewrite Nat.add_0_r. Qed.
Lemma positions_fst acq : (positions acq).*1 = acq.*1.
Proof.
  induction acq as [|[i r] acq IH] using rev_ind; [done|].
  by rewrite positions_snoc, !fmap_app, IH.
Qed.
Lemma positions_snd acq : (positions acq).*2 = map N.of_nat (seq 0 (length acq)).
Proof.
  induction acq as [|p acq IH] using rev_ind; [done|].
  destruct p as [i r]. rewrite positions_snoc, fmap_app, IH, app_length, Nat.add_1_r, seq_S, map_app.
  done.
Qed.

(** * (A) The invariant of the locked program *)
Section Proofs.
Context {S : Type} (W : writer S) (HW : writer_ok W).

(** The writer state after the sequential insertion of [l]. *)
Definition serial (l : list row) : S := (add_rows W (wr_init W) l).2.

Lemma add_rows_app st l1 l2 :
  add_rows W st (l1 ++ l2) =
  ((add_rows W st l1).1 ++ (add_rows W (add_rows W st l1).2 l2).1,
   (add_rows W (add_rows W st l1).2 l2).2).
Proof.
  revert st; induction l1 as [|r l1 IH]; intros st; simpl.
  - by destruct (add_rows W st l2).
  - rewrite IH. destruct (add_rows W _ l1) as [ids1 st1]; simpl.
    by destruct (add_rows W st1 l2).
Qed.

Lemma serial_snoc l r :
  serial (l ++ [r]) = wr_incr W (foldl (wr_pair W (wr_next W (serial l))) (serial l) r).
Proof. unfold serial. rewrite add_rows_app. done. Qed.

Lemma next_foldl rid st r : wr_next W (foldl (wr_pair W rid) st r) = wr_next W st.
Proof.
  revert st; induction r as [|cv r IH]; intros st; simpl; [done|].
  by rewrite IH, (wr_next_pair W HW).
Qed.

Lemma next_add_rows st l : wr_next W (add_rows W st l).2 = wr_next W st + N.of_nat (length l).
Proof.
  revert st; induction l as [|r l IH]; intros st; simpl; [lia|].
  specialize (IH (wr_incr W (foldl (wr_pair W (wr_next W st)) st r))).
  destruct (add_rows W _ l) as [ids st2]; simpl in *.
  rewrite IH, (wr_next_incr W HW), next_foldl. lia.
Qed.

Lemma next_serial l : wr_next W (serial l) = N.of_nat (length l).
Proof. unfold serial. rewrite next_add_rows, (wr_next_init W HW). lia. Qed.

(** Sequential insertion returns the ids [next, next+1, ...]. *)
Lemma ids_add_rows st l :
  (add_rows W st l).1 = map (λ k, wr_next W st + N.of_nat k) (seq 0 (length l)).
Proof.
  revert st; induction l as [|r l IH]; intros st; simpl; [done|].
  specialize (IH (wr_incr W (foldl (wr_pair W (wr_next W st)) st r))).
  destruct (add_rows W _ l) as [ids st2]; simpl in *.
  rewrite IH, (wr_next_incr W HW), next_foldl. f_equal; [f_equal; lia|].
  rewrite <-seq_shift, map_map. apply map_ext. intros k. lia.
Qed.

Lemma ids_serial l : (add_rows W (wr_init W) l).1 = map N.of_nat (seq 0 (length l)).
Proof. rewrite ids_add_rows, (wr_next_init W HW). apply map_ext. intros k. lia. Qed.

Notation th_step := (th_step W prog_locked).
Notation step := (step W prog_locked).
Notation run := (run W prog_locked).
Notation init := (init W).

Definition full (sh : shared S) : S := serial (sh_acq sh).*2.

(** Thread [i] is inside a call for [r] with remaining code [code]: it holds the mutex, its
    call is the last one in the log, and the writer state is the serial state of the earlier
    calls plus what the call has done so far. *)
Definition call_inv (i : nat) (sh : shared S) (t : thread) (r : row) (code : list mstep) : Prop :=
  sh_mtx sh = Some i ∧
  ∃ acq', sh_acq sh = acq' ++ [(i, r)] ∧ t_ret t = of_thread i (positions acq') ∧
    let base := serial acq'.*2 in
    (code = SReadId :: map SPair r ++ [SIncr; SUnlock] ∧ sh_st sh = base) ∨
    (∃ done rest, r = done ++ rest ∧ code = map SPair rest ++ [SIncr; SUnlock] ∧
        t_rid t = wr_next W base ∧ sh_st sh = foldl (wr_pair W (wr_next W base)) base done) ∨
    (code = [SUnlock] ∧ t_rid t = wr_next W base ∧ sh_st sh = full sh).

Definition th_inv (i : nat) (R : list row) (sh : shared S) (t : thread) : Prop :=
  of_thread i (sh_acq sh) ++ t_todo t = R ∧
  match t_call t with
  | None => sh_mtx sh ≠ Some i ∧ t_ret t = of_thread i (positions (sh_acq sh))
  | Some (r, code) => call_inv i sh t r code
  end.

Definition Inv (rows : list (list row)) (c : config S) : Prop :=
  length (c_ths c) = length rows ∧
  (∀ i t R, c_ths c !! i = Some t → rows !! i = Some R → th_inv i R (c_sh c) t) ∧
  (sh_mtx (c_sh c) = None → sh_st (c_sh c) = full (c_sh c)) ∧
  (∀ k, sh_mtx (c_sh c) = Some k → ∃ t, c_ths c !! k = Some t ∧ is_Some (t_call t)) ∧
  Forall (λ p, (p.1 < length rows)%nat) (sh_acq (c_sh c)).

Lemma advance_app r c1 s c2 rid todo ret :
  advance r (c1 ++ s :: c2) rid todo ret = Thread (Some (r, c1 ++ s :: c2)) rid todo ret.
Proof. by destruct c1. Qed.

Lemma th_inv_other i j R sh sh' t l :
  j ≠ i → sh_mtx sh ≠ Some j → sh_mtx sh' ≠ Some j →
  sh_acq sh' = sh_acq sh ++ l → Forall (λ p, p.1 = i) l →
  th_inv j R sh t → th_inv j R sh' t.
Proof.
  intros Hne Hm Hm' Hacq Hl [Hrows Hc]. unfold th_inv.
  assert (i ≠ j) as Hne' by congruence.
  assert (of_thread j (sh_acq sh') = of_thread j (sh_acq sh)) as Hof.
  { rewrite Hacq, of_thread_app, (of_thread_all_other j i l Hne' Hl). by rewrite app_nil_r. }
  rewrite Hof. split; [done|].
  destruct (t_call t) as [[r code]|].
  - destruct Hc as [Hmj _]. done.
  - destruct Hc as [_ Hret]. split; [done|]. rewrite Hret, Hacq, positions_app, of_thread_app.
    rewrite (of_thread_all_other j i (imap _ l) Hne'); [by rewrite app_nil_r|].
    clear -Hl. apply Forall_forall. intros q Hq.
    apply elem_of_lookup_imap in Hq as (k & p & -> & Hp). simpl.
    rewrite Forall_forall in Hl. apply Hl. by eapply elem_of_list_lookup_2.
Qed.

Lemma th_step_inv i R sh t t' sh' :
  th_inv i R sh t → (sh_mtx sh = None → sh_st sh = full sh) →
  th_step i t sh = (t', sh') →
  th_inv i R sh' t' ∧
  (sh_mtx sh' = None → sh_st sh' = full sh') ∧
  (∃ l, sh_acq sh' = sh_acq sh ++ l ∧ Forall (λ p, p.1 = i) l) ∧
  (sh' = sh ∨ ((sh_mtx sh = None ∨ sh_mtx sh = Some i) ∧ (sh_mtx sh' = None ∨ sh_mtx sh' = Some i))) ∧
  (sh_mtx sh' = Some i → is_Some (t_call t')).
Proof.
  intros [Hrows Hc] Hfull Hstep.
  assert (∀ a : list (nat * row), ∃ l, a = a ++ l ∧ Forall (λ p : nat * row, p.1 = i) l) as Hnil.
  { intros a. exists []. by rewrite app_nil_r. }
  destruct t as [call rid todo ret], sh as [st mtx acq]. unfold th_step, pending in Hstep. simpl in *.
  destruct call as [[r code]|].
  - destruct Hc as (Hm & acq' & Hacq & Hret & Hphase). simpl in *. subst mtx acq.
    destruct Hphase as [[-> Hst] | [(done & rest & -> & -> & Hrid & Hst) | (-> & Hrid & Hst)]].
    + (* SReadId *)
      simpl in Hstep. rewrite advance_app in Hstep. injection Hstep as <- <-.
      split_and!; simpl; [|done|apply Hnil|by left|by eauto].
      split; [done|]. split; [done|]. exists acq'. split_and!; [done..|].
      right. left. exists [], r. simpl. by rewrite Hst.
    + destruct rest as [|cv rest]; simpl in Hstep.
      * (* SIncr *)
        injection Hstep as <- <-. rewrite app_nil_r in *.
        split_and!; simpl; [|done|apply Hnil|right; by auto|by eauto].
        split; [done|]. split; [done|]. exists acq'. split_and!; [done..|].
        right. right. split_and!; [done..|]. simpl.
        unfold full. simpl. rewrite fmap_app. simpl. rewrite serial_snoc. by rewrite Hst.
      * (* SPair *)
        rewrite advance_app in Hstep. injection Hstep as <- <-.
        split_and!; simpl; [|done|apply Hnil|right; by auto|by eauto].
        split; [done|]. split; [done|]. exists acq'. split_and!; [done..|].
        right. left. exists (done ++ [cv]), rest. split_and!; [by rewrite <-app_assoc|done..|].
        simpl. rewrite foldl_app. simpl. by rewrite Hst, Hrid.
    + (* SUnlock *)
      simpl in Hstep. injection Hstep as <- <-.
      split_and!; simpl; [|done|apply Hnil|right; by auto|done].
      split; [done|]. simpl. split; [done|].
      rewrite positions_snoc, of_thread_app, of_thread_same, Hret, Hrid, next_serial.
      by rewrite fmap_length.
  - destruct Hc as [Hm Hret]. simpl in *. destruct todo as [|r todo].
    + (* finished *)
      injection Hstep as <- <-. split_and!; simpl; [|done|apply Hnil|by left|by intros Hx].
      split; [done|]. simpl. done.
    + simpl in Hstep. destruct mtx as [k|]; simpl in Hstep.
      * (* blocked *)
        injection Hstep as <- <-. split_and!; simpl; [|done|apply Hnil|by left|by intros Hx].
        split; [done|]. simpl. done.
      * (* SLock *)
        injection Hstep as <- <-.
        split_and!; simpl; [|done| |right; by auto|by eauto].
        -- split; simpl.
           { by rewrite of_thread_app, of_thread_same, <-app_assoc. }
           split; [done|]. exists acq. split_and!; [done..|].
           left. split; [done|]. simpl. by apply Hfull.
        -- exists [(i, r)]. split; [done|]. by constructor.
Qed.

Lemma Inv_init rows : Inv rows (init rows).
Proof.
  unfold Inv, init. simpl. split_and!.
  - by rewrite map_length.
  - intros i t R Ht HR. rewrite list_lookup_fmap, HR in Ht. injection Ht as <-.
    split; simpl; [done|]. done.
  - done.
  - done.
  - constructor.
Qed.

Lemma Inv_step rows c i : Inv rows c → Inv rows (step c i).
Proof.
  intros (Hlen & Hths & Hfull & Hholder & Htags). unfold step.
  destruct (c_ths c !! i) as [t|] eqn:Hti; [|done].
  destruct (th_step i t (c_sh c)) as [t' sh'] eqn:Hstep.
  assert (i < length rows)%nat as Hi by (rewrite <-Hlen; by eapply lookup_lt_Some).
  destruct (lookup_lt_is_Some_2 rows i Hi) as [R HR].
  destruct (th_step_inv i R _ _ _ _ (Hths i t R Hti HR) Hfull Hstep)
    as (Hinv' & Hfull' & (l & Hacq & Hl) & Hchg & Hcall).
  unfold Inv. simpl. split_and!.
  - by rewrite insert_length.
  - intros j tj Rj Htj HRj. destruct (decide (j = i)) as [->|Hne].
    + rewrite list_lookup_insert in Htj by (by eapply lookup_lt_Some).
      injection Htj as <-. by simplify_eq.
    + rewrite list_lookup_insert_ne in Htj by done.
      destruct Hchg as [->|[Hm Hm']]; [by eapply Hths|].
      eapply (th_inv_other i j); [done| | |done..|by eapply Hths].
      * intros Hj. destruct Hm as [Hm|Hm]; congruence.
      * intros Hj. destruct Hm' as [Hm'|Hm']; congruence.
  - done.
  - intros k Hk. destruct (decide (k = i)) as [->|Hne].
    + exists t'. rewrite list_lookup_insert by (by eapply lookup_lt_Some). auto.
    + rewrite list_lookup_insert_ne by done.
      destruct Hchg as [->|[_ Hm']]; [by apply Hholder|].
      destruct Hm' as [Hm'|Hm']; congruence.
  - rewrite Hacq. apply Forall_app. split; [done|].
    eapply Forall_impl; [done|]. intros p Hp. simpl in Hp. by rewrite Hp.
Qed.

Lemma Inv_run rows sched c : Inv rows c → Inv rows (run sched c).
Proof.
  revert c; induction sched as [|i sched IH]; intros c Hc; [done|].
  simpl. apply IH. by apply Inv_step.
Qed.

(** ** Theorem (A) *)
Theorem addrow_invariant rows sched :
  let c := run sched (init rows) in
  (* at most one thread is between SLock and SUnlock *)
  (∀ i j ti tj, c_ths c !! i = Some ti → c_ths c !! j = Some tj →
     is_Some (t_call ti) → is_Some (t_call tj) → i = j) ∧
  (* the shared writer state *)
  match sh_mtx (c_sh c) with
  | None =>
      Forall (λ t, t_call t = None) (c_ths c) ∧
      final_state c = (add_rows W (wr_init W) (acquired c).*2).2
  | Some i =>
      ∃ t r code acq' done,
        c_ths c !! i = Some t ∧ t_call t = Some (r, code) ∧
        acquired c = acq' ++ [(i, r)] ∧ done `prefix_of` r ∧
        let base := (add_rows W (wr_init W) acq'.*2).2 in
        (final_state c = foldl (wr_pair W (N.of_nat (length acq'))) base done ∨
         (code = [SUnlock] ∧ final_state c = (add_rows W (wr_init W) (acquired c).*2).2))
  end.
Proof.
  intros c. pose proof (Inv_run rows sched _ (Inv_init rows)) as HI. fold c in HI.
  destruct HI as (Hlen & Hths & Hfull & Hholder & Htags).
  assert (∀ i t, c_ths c !! i = Some t → is_Some (t_call t) → sh_mtx (c_sh c) = Some i) as Hin.
  { intros i t Ht [[r code] Hcall].
    assert (i < length rows)%nat as Hi by (rewrite <-Hlen; by eapply lookup_lt_Some).
    destruct (lookup_lt_is_Some_2 rows i Hi) as [R HR].
    destruct (Hths i t R Ht HR) as [_ Hc]. rewrite Hcall in Hc. by destruct Hc as [Hm _]. }
  split.
  { intros i j ti tj Hi Hj Hci Hcj. pose proof (Hin i ti Hi Hci). pose proof (Hin j tj Hj Hcj).
    congruence. }
  destruct (sh_mtx (c_sh c)) as [i|] eqn:Hm.
  - destruct (Hholder i eq_refl) as (t & Ht & [[r code] Hcall]).
    assert (i < length rows)%nat as Hi by (rewrite <-Hlen; by eapply lookup_lt_Some).
    destruct (lookup_lt_is_Some_2 rows i Hi) as [R HR].
    destruct (Hths i t R Ht HR) as [_ Hc]. rewrite Hcall in Hc.
    destruct Hc as (_ & acq' & Hacq & _ & Hphase). simpl in Hphase.
    destruct Hphase as [[-> Hst] | [(done & rest & -> & -> & Hrid & Hst) | (-> & Hrid & Hst)]].
    + eexists t, r, _, acq', []. split_and!; [done..|apply prefix_nil|]. by left.
    + eexists t, (done ++ rest), _, acq', done. split_and!; [done..|by apply prefix_app_r|].
      left. rewrite next_serial, fmap_length in Hst. done.
    + eexists t, r, _, acq', r. split_and!; [done..|]. right. done.
  - split; [|by apply Hfull].
    apply Forall_forall. intros t Ht. apply elem_of_list_lookup in Ht as [i Ht].
    destruct (t_call t) as [rc|] eqn:Hcall; [|done].
    assert (None = Some i) by (apply (Hin i t Ht); by rewrite Hcall). congruence.
Qed.

(** ** Theorem (B) *)

Lemma of_thread_positions_length i (acq : list (nat * row)) :
  length (of_thread i (positions acq)) = length (of_thread i acq).
Proof.
  induction acq as [|[j r] acq IH] using rev_ind; [done|].
  rewrite positions_snoc, !of_thread_app, !app_length, IH. f_equal.
  destruct (decide (j = i)) as [->|Hne]; [by rewrite !of_thread_same|by rewrite !of_thread_other].
Qed.

Lemma of_thread_lookup {A} i (l : list (nat * A)) k a :
  l !! k = Some (i, a) → of_thread i l !! length (of_thread i (take k l)) = Some a.
Proof.
  intros Hk. generalize (take k l) (take_drop_middle l k (i, a) Hk). intros l1 <-.
  rewrite of_thread_app, lookup_app_r by done. rewrite Nat.sub_diag.
  change ((i, a) :: drop (Datatypes.S k) l) with ([(i, a)] ++ drop (Datatypes.S k) l).
  by rewrite of_thread_app, of_thread_same.
Qed.

Lemma positions_lookup (acq : list (nat * row)) k i r :
  acq !! k = Some (i, r) → positions acq !! k = Some (i, N.of_nat k).
Proof. intros Hk. unfold positions. by rewrite list_lookup_imap, Hk. Qed.

Lemma positions_take (acq : list (nat * row)) k : take k (positions acq) = positions (take k acq).
Proof.
  destruct (decide (k ≤ length acq)%nat) as [Hle|Hgt].
  - rewrite <-(take_drop k acq) at 1. rewrite positions_app, take_app_alt; [done|].
    unfold positions. rewrite imap_length, take_length. lia.
  - rewrite !take_ge; [done|lia|]. unfold positions. rewrite imap_length. lia.
Qed.

Theorem C18_serial_gen rows sched :
  let c := run sched (init rows) in
  all_finished c →
  let acq := acquired c in
  let order := acq.*2 in
  let n := length (concat rows) in
  (* the final writer state is the one of the sequential insertion of [order] *)
  final_state c = (add_rows W (wr_init W) order).2 ∧
  (* in which the k-th row gets id k *)
  (add_rows W (wr_init W) order).1 = map N.of_nat (seq 0 n) ∧
  (* thread i's calls are, in its own order, the calls tagged i in the log, and they
     returned the positions of these calls in the log *)
  rows = map (λ i, of_thread i acq) (seq 0 (length rows)) ∧
  returned c = map (λ i, of_thread i (positions acq)) (seq 0 (length rows)) ∧
  (* the m-th call of thread i, if it was the k-th to acquire the mutex, returned k *)
  (∀ k i r, acq !! k = Some (i, r) → ∃ R ids m,
     rows !! i = Some R ∧ returned c !! i = Some ids ∧ R !! m = Some r ∧ ids !! m = Some (N.of_nat k)) ∧
  (* the returned ids are exactly 0..n-1, without duplicates *)
  concat (returned c) ≡ₚ map N.of_nat (seq 0 n) ∧
  NoDup (concat (returned c)) ∧
  (* every row was added exactly once *)
  order ≡ₚ concat rows ∧
  length order = n.
Proof.
  intros c Hfin acq order n.
  pose proof (Inv_run rows sched _ (Inv_init rows)) as HI. fold c in HI.
  destruct HI as (Hlen & Hths & Hfull & Hholder & Htags).
  assert (sh_mtx (c_sh c) = None) as Hm.
  { destruct (sh_mtx (c_sh c)) as [k|] eqn:Hm; [|done].
    destruct (Hholder k eq_refl) as (t & Ht & [rc Hcall]).
    unfold all_finished in Hfin. rewrite Forall_forall in Hfin.
    destruct (Hfin t (elem_of_list_lookup_2 _ _ _ Ht)) as [Hnone _]. congruence. }
  assert (∀ i R, rows !! i = Some R → R = of_thread i acq ∧
            returned c !! i = Some (of_thread i (positions acq))) as Hthread.
  { intros i R HR.
    assert (i < length (c_ths c))%nat as Hi by (rewrite Hlen; by eapply lookup_lt_Some).
    destruct (lookup_lt_is_Some_2 _ i Hi) as [t Ht].
    destruct (Hths i t R Ht HR) as [Hrows Hc].
    unfold all_finished in Hfin. rewrite Forall_forall in Hfin.
    destruct (Hfin t (elem_of_list_lookup_2 _ _ _ Ht)) as [Hnone Htodo].
    rewrite Hnone in Hc. destruct Hc as [_ Hret]. rewrite Htodo, app_nil_r in Hrows.
    split; [done|]. unfold returned. rewrite list_lookup_fmap, Ht. simpl. by rewrite Hret. }
  assert (rows = map (λ i, of_thread i acq) (seq 0 (length rows))) as Hrows.
  { apply list_eq_same_length with (length rows); [by rewrite map_length, seq_length|done|].
    intros i R R' Hi HR HR'. rewrite list_lookup_fmap, lookup_seq_lt in HR' by done.
    injection HR' as <-. by apply Hthread. }
  assert (returned c = map (λ i, of_thread i (positions acq)) (seq 0 (length rows))) as Hrets.
  { apply list_eq_same_length with (length rows);
      [by rewrite map_length, seq_length|by unfold returned; rewrite map_length|].
    intros i ids ids' Hi Hids Hids'. rewrite list_lookup_fmap, lookup_seq_lt in Hids' by done.
    injection Hids' as <-. destruct (lookup_lt_is_Some_2 rows i Hi) as [R HR].
    destruct (Hthread i R HR) as [_ Hret]. congruence. }
  assert (order ≡ₚ concat rows) as Hperm.
  { trans (concat (map (λ i, of_thread i acq) (seq 0 (length rows)))).
    - symmetry. by apply of_thread_concat.
    - apply reflexive_eq. f_equal. symmetry. exact Hrows. }
  assert (length order = n) as Hn by (unfold n; by apply Permutation_length).
  assert (concat (returned c) ≡ₚ map N.of_nat (seq 0 n)) as Hpermids.
  { rewrite Hrets, of_thread_concat, positions_snd.
    - unfold order in Hn. rewrite fmap_length in Hn. by rewrite Hn.
    - assert (Forall (λ i, (i < length rows)%nat) (positions acq).*1) as Hp.
      { rewrite positions_fst. apply Forall_fmap. exact Htags. }
      apply Forall_fmap in Hp. exact Hp. }
  split_and!; try done.
  - by apply Hfull.
  - by rewrite ids_serial, Hn.
  - intros k i r Hk.
    assert (i < length rows)%nat as Hi.
    { rewrite Forall_forall in Htags. apply (Htags (i, r)). by eapply elem_of_list_lookup_2. }
    destruct (lookup_lt_is_Some_2 rows i Hi) as [R HR].
    destruct (Hthread i R HR) as [-> Hret].
    eexists (of_thread i acq), _, (length (of_thread i (take k acq))).
    split_and!; [done..|by eapply of_thread_lookup|].
    rewrite <-of_thread_positions_length, <-positions_take.
    eapply of_thread_lookup. by eapply positions_lookup.
  - rewrite Hpermids. apply NoDup_fmap; [apply _|apply NoDup_seq].
Qed.

End Proofs.

(** * (D) Non-vacuity: some schedule completes all calls *)
Section Completes.
Context {S : Type} (W : writer S).
Notation th_step := (th_step W prog_locked).
Notation step := (step W prog_locked).
Notation run := (run W prog_locked).

(** Run one call of thread [i] to completion: [length r + 4] micro-steps. *)
Definition call_sched (i : nat) (r : row) : list nat := [i; i] ++ replicate (length r) i ++ [i; i].
Definition thread_sched (i : nat) (R : list row) : list nat := concat (map (call_sched i) R).
Fixpoint sched_from (i : nat) (rows : list (list row)) : list nat :=
  match rows with
  | [] => []
  | R :: rows' => thread_sched i R ++ sched_from (Datatypes.S i) rows'
  end.
(** Thread 0 runs all its calls, then thread 1, ... *)
Definition seq_sched (rows : list (list row)) : list nat := sched_from 0 rows.

Lemma run_app s1 s2 c : run (s1 ++ s2) c = run s2 (run s1 c).
Proof. apply foldl_app. Qed.

Lemma step_at sh ths i t t' sh' :
  ths !! i = Some t → th_step i t sh = (t', sh') →
  step (Config sh ths) i = Config sh' (<[i := t']> ths).
Proof. intros Ht Hs. unfold step. simpl. by rewrite Ht, Hs. Qed.

Lemma run_pairs i r rid todo ret rest st mtx acq ths :
  ths !! i = Some (Thread (Some (r, map SPair rest ++ [SIncr; SUnlock])) rid todo ret) →
  run (replicate (length rest) i) (Config (Shared st mtx acq) ths) =
  Config (Shared (foldl (wr_pair W rid) st rest) mtx acq)
         (<[i := Thread (Some (r, [SIncr; SUnlock])) rid todo ret]> ths).
Proof.
  revert st ths; induction rest as [|cv rest IH]; intros st ths Ht; simpl.
  - by rewrite list_insert_id.
  - erewrite step_at; [|done|unfold th_step, pending; simpl; by rewrite advance_app].
    simpl. rewrite IH.
    + by rewrite list_insert_insert.
    + apply list_lookup_insert. by eapply lookup_lt_Some.
Qed.

Lemma run_call i r rid todo ret sh ths :
  sh_mtx sh = None → ths !! i = Some (Thread None rid (r :: todo) ret) →
  ∃ sh' rid' ret', sh_mtx sh' = None ∧
    run (call_sched i r) (Config sh ths) = Config sh' (<[i := Thread None rid' todo ret']> ths).
Proof.
  intros Hm Ht. destruct sh as [st mtx acq]. simpl in Hm. subst mtx.
  assert (i < length ths)%nat as Hi by (by eapply lookup_lt_Some).
  unfold call_sched. rewrite !run_app. simpl.
  (* SLock *)
  erewrite step_at; [|done|unfold th_step, pending; simpl; reflexivity].
  (* SReadId *)
  erewrite step_at; [|by apply list_lookup_insert|unfold th_step, pending; simpl; by rewrite (advance_app _ (map SPair r) SIncr)].
  simpl. rewrite list_insert_insert.
  (* pairs *)
  erewrite run_pairs; [|by apply list_lookup_insert]. rewrite list_insert_insert.
  (* SIncr *)
  erewrite step_at; [|by apply list_lookup_insert|unfold th_step, pending; simpl; done].
  simpl. rewrite list_insert_insert.
  (* SUnlock *)
  erewrite step_at; [|by apply list_lookup_insert|unfold th_step, pending; simpl; done].
  simpl. rewrite list_insert_insert. eexists _, _, _. split; [|reflexivity]. done.
Qed.

Lemma run_thread i todo rid ret sh ths :
  sh_mtx sh = None → ths !! i = Some (Thread None rid todo ret) →
  ∃ sh' rid' ret', sh_mtx sh' = None ∧
    run (thread_sched i todo) (Config sh ths) = Config sh' (<[i := Thread None rid' [] ret']> ths).
Proof.
  revert rid ret sh ths; induction todo as [|r todo IH]; intros rid ret sh ths Hm Ht.
  - exists sh, rid, ret. split; [done|]. simpl. by rewrite list_insert_id.
  - change (thread_sched i (r :: todo)) with (call_sched i r ++ thread_sched i todo).
    rewrite run_app.
    destruct (run_call i r rid todo ret sh ths Hm Ht) as (sh1 & rid1 & ret1 & Hm1 & ->).
    destruct (IH rid1 ret1 sh1 (<[i := Thread None rid1 todo ret1]> ths) Hm1)
      as (sh2 & rid2 & ret2 & Hm2 & Hrun).
    { apply list_lookup_insert. by eapply lookup_lt_Some. }
    exists sh2, rid2, ret2. split; [done|].
    by rewrite Hrun, list_insert_insert.
Qed.

Lemma run_sched_from suf : ∀ k sh ths,
  sh_mtx sh = None → Forall (λ t, t_call t = None) ths →
  t_todo <$> ths = replicate k [] ++ suf →
  all_finished (run (sched_from k suf) (Config sh ths)).
Proof.
  induction suf as [|R suf IH]; intros k sh ths Hm Hidle Htodo.
  - simpl. rewrite app_nil_r in Htodo. unfold all_finished. simpl.
    apply Forall_forall. intros t Ht. rewrite Forall_forall in Hidle. split; [by apply Hidle|].
    assert (t_todo t ∈ replicate k ([] : list row)) as Hin by (rewrite <-Htodo; by apply elem_of_list_fmap_1).
    by apply elem_of_replicate in Hin as [-> _].
  - simpl. rewrite run_app.
    assert ((t_todo <$> ths) !! k = Some R) as Hk.
    { rewrite Htodo, lookup_app_r; rewrite replicate_length; [|done]. by rewrite Nat.sub_diag. }
    rewrite list_lookup_fmap in Hk. destruct (ths !! k) as [t|] eqn:Ht; [|done].
    simpl in Hk. injection Hk as HR.
    assert (t_call t = None) as Hcall.
    { rewrite Forall_forall in Hidle. apply Hidle. by eapply elem_of_list_lookup_2. }
    destruct t as [call rid todo ret]. simpl in *. subst call todo.
    destruct (run_thread k R rid ret sh ths Hm Ht) as (sh' & rid' & ret' & Hm' & ->).
    apply (IH (Datatypes.S k)); [done| |].
    + apply Forall_insert; done.
    + rewrite list_fmap_insert, Htodo.
      rewrite insert_app_r_alt; rewrite replicate_length; [|done].
      rewrite Nat.sub_diag, replicate_S_end, <-app_assoc. done.
Qed.

Theorem some_schedule_completes_gen (rows : list (list row)) :
  ∃ sched, all_finished (run sched (init W rows)).
Proof.
  exists (seq_sched rows). apply run_sched_from; simpl.
  - done.
  - apply Forall_fmap, Forall_forall. done.
  - change (t_todo <$> map (λ R, Thread None 0 R []) rows) with (map t_todo (map (λ R, Thread None 0 R []) rows)).
    rewrite map_map. simpl. by rewrite map_id.
Qed.
End Completes.

(** * (B), (C), (D) for the two writers *)
Section Instances.
Context (H : list N → N).

(** In-memory writer (writer.go). *)
Theorem C18_invariant_mem rows sched :
  let c := run (W_mem H) prog_locked sched (init (W_mem H) rows) in
  (∀ i j ti tj, c_ths c !! i = Some ti → c_ths c !! j = Some tj →
     is_Some (t_call ti) → is_Some (t_call tj) → i = j) ∧
  match sh_mtx (c_sh c) with
  | None =>
      Forall (λ t, t_call t = None) (c_ths c) ∧
      final_state c = (w_add_rows H w_init (acquired c).*2).2
  | Some i =>
      ∃ t r code acq' done,
        c_ths c !! i = Some t ∧ t_call t = Some (r, code) ∧
        acquired c = acq' ++ [(i, r)] ∧ done `prefix_of` r ∧
        let base := (w_add_rows H w_init acq'.*2).2 in
        (final_state c = foldl (w_add_pair H (N.of_nat (length acq'))) base done ∨
         (code = [SUnlock] ∧ final_state c = (w_add_rows H w_init (acquired c).*2).2))
  end.
Proof.
  pose proof (addrow_invariant (W_mem H) (W_mem_ok H) rows sched) as HA.
  cbv zeta in *. destruct HA as [HA1 HA2]. split; [exact HA1|].
  destruct (sh_mtx _) as [i|].
  - destruct HA2 as (t & r & code & acq' & done & Ht & Hcall & Hacq & Hpre & Hst).
    exists t, r, code, acq', done. rewrite <-!add_rows_mem. split_and!; [done..|]. exact Hst.
  - rewrite <-add_rows_mem. exact HA2.
Qed.

Theorem C18_serial rows sched :
  let c := run (W_mem H) prog_locked sched (init (W_mem H) rows) in
  all_finished c →
  let acq := acquired c in
  let order := acq.*2 in
  let n := length (concat rows) in
  final_state c = (w_add_rows H w_init order).2 ∧
  (w_add_rows H w_init order).1 = map N.of_nat (seq 0 n) ∧
  rows = map (λ i, of_thread i acq) (seq 0 (length rows)) ∧
  returned c = map (λ i, of_thread i (positions acq)) (seq 0 (length rows)) ∧
  (∀ k i r, acq !! k = Some (i, r) → ∃ R ids m,
     rows !! i = Some R ∧ returned c !! i = Some ids ∧ R !! m = Some r ∧ ids !! m = Some (N.of_nat k)) ∧
  concat (returned c) ≡ₚ map N.of_nat (seq 0 n) ∧
  NoDup (concat (returned c)) ∧
  order ≡ₚ concat rows ∧
  length order = n.
Proof.
  intros c Hfin. pose proof (C18_serial_gen (W_mem H) (W_mem_ok H) rows sched Hfin) as HB.
  cbv zeta. rewrite <-!add_rows_mem. exact HB.
Qed.

Theorem some_schedule_completes (rows : list (list row)) :
  ∃ sched, all_finished (run (W_mem H) prog_locked sched (init (W_mem H) rows)).
Proof. apply some_schedule_completes_gen. Qed.

(** Big writer (writer_big.go). *)
Theorem C18_invariant_big rows sched :
  let c := run (W_big H) prog_locked sched (init (W_big H) rows) in
  (∀ i j ti tj, c_ths c !! i = Some ti → c_ths c !! j = Some tj →
     is_Some (t_call ti) → is_Some (t_call tj) → i = j) ∧
  match sh_mtx (c_sh c) with
  | None =>
      Forall (λ t, t_call t = None) (c_ths c) ∧
      final_state c = (b_add_rows H b_init (acquired c).*2).2
  | Some i =>
      ∃ t r code acq' done,
        c_ths c !! i = Some t ∧ t_call t = Some (r, code) ∧
        acquired c = acq' ++ [(i, r)] ∧ done `prefix_of` r ∧
        let base := (b_add_rows H b_init acq'.*2).2 in
        (final_state c = foldl (b_add_pair H (N.of_nat (length acq'))) base done ∨
         (code = [SUnlock] ∧ final_state c = (b_add_rows H b_init (acquired c).*2).2))
  end.
Proof.
  pose proof (addrow_invariant (W_big H) (W_big_ok H) rows sched) as HA.
  cbv zeta in *. destruct HA as [HA1 HA2]. split; [exact HA1|].
  destruct (sh_mtx _) as [i|].
  - destruct HA2 as (t & r & code & acq' & done & Ht & Hcall & Hacq & Hpre & Hst).
    exists t, r, code, acq', done. rewrite <-!add_rows_big. split_and!; [done..|]. exact Hst.
  - rewrite <-add_rows_big. exact HA2.
Qed.

Theorem C18_serial_big rows sched :
  let c := run (W_big H) prog_locked sched (init (W_big H) rows) in
  all_finished c →
  let acq := acquired c in
  let order := acq.*2 in
  let n := length (concat rows) in
  final_state c = (b_add_rows H b_init order).2 ∧
  (b_add_rows H b_init order).1 = map N.of_nat (seq 0 n) ∧
  rows = map (λ i, of_thread i acq) (seq 0 (length rows)) ∧
  returned c = map (λ i, of_thread i (positions acq)) (seq 0 (length rows)) ∧
  (∀ k i r, acq !! k = Some (i, r) → ∃ R ids m,
     rows !! i = Some R ∧ returned c !! i = Some ids ∧ R !! m = Some r ∧ ids !! m = Some (N.of_nat k)) ∧
  concat (returned c) ≡ₚ map N.of_nat (seq 0 n) ∧
  NoDup (concat (returned c)) ∧
  order ≡ₚ concat rows ∧
  length order = n.
Proof.
  intros c Hfin. pose proof (C18_serial_gen (W_big H) (W_big_ok H) rows sched Hfin) as HB.
  cbv zeta. rewrite <-!add_rows_big. exact HB.
Qed.

Theorem some_schedule_completes_big (rows : list (list row)) :
  ∃ sched, all_finished (run (W_big H) prog_locked sched (init (W_big H) rows)).
Proof. apply some_schedule_completes_gen. Qed.
End Instances.

(** A concrete run: three threads, the schedule of (D) and an interleaved one. *)
Example ex_seq_sched :
  let rows := [[[([1], [2])]; [([1], [3]); ([4], [5])]]; [[]]; [[([4], [5])]]] in
  let c := run (W_mem H_enc) prog_locked (seq_sched rows) (init (W_mem H_enc) rows) in
  returned c = [[0; 1]; [2]; [3]] ∧ (acquired c).*1 = [0; 0; 1; 2]%nat.
Proof. vm_compute. done. Qed.

Example ex_interleaved :
  let rows := [[[([1], [2])]; [([1], [3]); ([4], [5])]]; [[]]; [[([4], [5])]]] in
  let sched := [1; 0; 2; 1; 0; 1; 2; 1; 2; 0; 2; 2; 2; 0; 0; 2; 0; 0; 0; 0; 0; 0; 0; 0; 0; 0; 0]%nat in
  let c := run (W_mem H_enc) prog_locked sched (init (W_mem H_enc) rows) in
  returned c = [[2; 3]; [0]; [1]] ∧ (acquired c).*1 = [1; 2; 0; 0]%nat.
Proof. vm_compute. done. Qed.

Print Assumptions C18_invariant_mem.
Print Assumptions C18_serial.
Print Assumptions C18_invariant_big.
Print Assumptions C18_serial_big.
Print Assumptions some_schedule_completes.
Print Assumptions some_schedule_completes_big.
Print Assumptions C18_unlocked_refuted.
Print Assumptions C18_late_incr_refuted.

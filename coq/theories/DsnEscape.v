(** Percent-encoding of option strings (net/url [QueryEscape] / [QueryUnescape], as used by
    [url.ParseQuery] under driver.go [Open]): the decoder of Dsn.v is the identity on text
    without '%' and '+', and undoes the encoder on every byte string. *)
From updog Require Import Prelude Dsn.
From Coq Require Import ZifyN ZifyNat ZifyBool.
Local Open Scope N_scope.

(** [net/url.shouldEscape] in query-component mode: letters, digits, '-', '_', '.', '~' stay. *)
Definition unreserved (c : N) : bool :=
  ((48 <=? c) && (c <=? 57)) || ((65 <=? c) && (c <=? 90)) || ((97 <=? c) && (c <=? 122))
  || (c =? 45) || (c =? 95) || (c =? 46) || (c =? 126).

(** [upperhex] *)
Definition hexdigit (n : N) : N := if n <? 10 then 48 + n else 55 + n.

Definition escape_byte (c : N) : str :=
  if unreserved c then [c]
  else if c =? 32 then [43]
  else [37; hexdigit (c / 16); hexdigit (c mod 16)].

(** [url.QueryEscape] *)
Fixpoint escape (s : str) : str :=
  match s with
  | [] => []
  | c :: r => escape_byte c ++ escape r
  end.

(** Text without '%' and '+' decodes to itself (the option strings of the earlier model). *)
Lemma unescape_plain s : Forall (λ c, c ≠ 37 ∧ c ≠ 43) s → unescape s = Some s.
Proof.
  induction s as [|c r IH]; intros H; [reflexivity|].
  inversion H as [|? ? [H37 H43] Hr]; subst.
  cbn [unescape].
  destruct (c =? 37) eqn:E1; [lia|].
  rewrite (IH Hr).
  destruct (c =? 43) eqn:E2; [lia|reflexivity].
Qed.

(** One byte: what decoding the encoding of [c] in front of [t] gives. *)
Definition byte_ok (c : N) : bool :=
  match unescape (escape_byte c ++ [0]) with
  | Some [c'; 0] => c' =? c
  | _ => false
  end.

Lemma bytes_sweep : forallb byte_ok (map N.of_nat (seq 0 256)) = true.
Proof. vm_compute. reflexivity. Qed.

Lemma byte_ok_all c : c < 256 → byte_ok c = true.
Proof.
  intros Hc.
  pose proof bytes_sweep as Hs.
  rewrite forallb_forall in Hs. apply Hs.
  apply in_map_iff. exists (N.to_nat c). split; [lia|].
  apply in_seq. lia.
Qed.

Lemma unescape_escape_byte c t :
  c < 256 → unescape (escape_byte c ++ t) = match unescape t with Some u => Some (c :: u) | None => None end.
Proof.
  intros Hc. pose proof (byte_ok_all c Hc) as Hb.
  unfold byte_ok, escape_byte in *.
  destruct (unreserved c) eqn:Eu.
  - cbn [app unescape] in *.
    destruct (c =? 37) eqn:E1; [discriminate|].
    destruct (c =? 43) eqn:E2.
    + apply N.eqb_eq in E2. subst c. vm_compute in Eu. discriminate.
    + reflexivity.
  - destruct (c =? 32) eqn:E3.
    + cbn [app unescape]. change (43 =? 37) with false. change (43 =? 43) with true. cbv iota.
      destruct (unescape t); [|reflexivity]. f_equal. f_equal. lia.
    + cbn [app unescape] in *. change (37 =? 37) with true in *. cbv iota in *.
      destruct (hexval (hexdigit (c / 16))) as [x|]; [|discriminate].
      destruct (hexval (hexdigit (c mod 16))) as [y|]; [|discriminate].
      change (0 =? 37) with false in Hb. change (0 =? 43) with false in Hb. cbv iota in Hb.
      destruct (unescape t); [|reflexivity]. f_equal. f_equal. lia.
Qed.

(** The decoder undoes the encoder on every byte string. *)
Theorem unescape_escape s : Forall (λ c, c < 256) s → unescape (escape s) = Some s.
Proof.
  induction s as [|c r IH]; intros H; [reflexivity|].
  inversion H as [|? ? Hc Hr]; subst.
  cbn [escape]. rewrite unescape_escape_byte by exact Hc. rewrite (IH Hr). reflexivity.
Qed.

(** The encoder writes no '&', '=', ';' or '#': an encoded key or value never splits a pair. *)
Lemma escape_byte_safe c x : c < 256 → In x (escape_byte c) → x ≠ 38 ∧ x ≠ 61 ∧ x ≠ 59 ∧ x ≠ 35.
Proof.
  intros Hc Hin.
  assert (Hs : forallb (λ c, forallb (λ x, negb ((x =? 38) || (x =? 61) || (x =? 59) || (x =? 35))) (escape_byte c))
                 (map N.of_nat (seq 0 256)) = true) by (vm_compute; reflexivity).
  rewrite forallb_forall in Hs.
  assert (Hi : In c (map N.of_nat (seq 0 256))).
  { apply in_map_iff. exists (N.to_nat c). split; [lia|]. apply in_seq. lia. }
  specialize (Hs c Hi). rewrite forallb_forall in Hs. specialize (Hs x Hin). lia.
Qed.

(** Non-vacuity: a value with every kind of byte. *)
Example escape_example :
  escape [112; 32; 37; 43; 38; 61; 59; 255] = [112; 43; 37; 50; 53; 37; 50; 66; 37; 50; 54; 37; 51; 68; 37; 51; 66; 37; 70; 70]
  ∧ unescape (escape [112; 32; 37; 43; 38; 61; 59; 255]) = Some [112; 32; 37; 43; 38; 61; 59; 255]
  ∧ unescape [37; 122; 122] = None ∧ unescape [116; 37] = None.
Proof. vm_compute. repeat split. Qed.

(** [url.ParseQuery] as modelled before percent-decoding was added. *)
Definition parse_query_plain (q : str) : list (str * str) :=
  omap (λ p, match p with
             | [] => None
             | _ => let '(k, v) := cut 61 p in Some (k, default [] v)
             end) (split_on 38 q).

Definition plain (s : str) : Prop := Forall (λ c, c ≠ 37 ∧ c ≠ 43 ∧ c ≠ 59) s.

Lemma split_on_Forall (P : N → Prop) c s : Forall P s → Forall (Forall P) (split_on c s).
Proof.
  induction s as [|x s' IH]; intros H; cbn [split_on].
  - repeat constructor.
  - inversion H as [|? ? Hx Hs]; subst. specialize (IH Hs).
    destruct (split_on c s') as [|h t]; [repeat constructor|].
    inversion IH as [|? ? Hh Ht]; subst.
    destruct (x =? c); repeat constructor; assumption.
Qed.

Lemma cut_Forall (P : N → Prop) c s :
  Forall P s → Forall P (cut c s).1 ∧ (∀ b, (cut c s).2 = Some b → Forall P b).
Proof.
  induction s as [|x s' IH]; intros H; cbn [cut].
  - split; [constructor|]. intros b Hb. discriminate.
  - inversion H as [|? ? Hx Hs]; subst. specialize (IH Hs).
    destruct (x =? c).
    + split; [constructor|]. cbn. intros b Hb. injection Hb as <-. exact Hs.
    + destruct (cut c s') as [a b']. cbn in *. destruct IH as [Ha Hb]. split; [constructor; assumption|exact Hb].
Qed.

Lemma plain_unescape s : plain s → unescape s = Some s.
Proof.
  induction s as [|c r IH]; intros H; [reflexivity|].
  inversion H as [|? ? [H37 [H43 _]] Hr]; subst.
  cbn [unescape].
  destruct (c =? 37) eqn:E1; [lia|].
  rewrite (IH Hr).
  destruct (c =? 43) eqn:E2; [lia|reflexivity].
Qed.

Lemma plain_no_semicolon s : plain s → has_byte 59 s = false.
Proof.
  unfold has_byte. induction s as [|c r IH]; intros H; [reflexivity|].
  inversion H as [|? ? [_ [_ H59]] Hr]; subst. cbn [existsb]. rewrite (IH Hr).
  destruct (59 =? c) eqn:E; [lia|reflexivity].
Qed.

(** On option strings without '%', '+' and ';' the decoding parser is the plain one: the
    theorems and correspondence runs of the earlier model are statements about this one. *)
Theorem parse_query_plain_eq q : plain q → parse_query q = parse_query_plain q.
Proof.
  intros Hq. unfold parse_query, parse_query_plain.
  pose proof (split_on_Forall _ 38 q Hq) as Hall.
  induction Hall as [|p ps Hp Hps IH]; [reflexivity|].
  cbn [omap list_omap]. rewrite IH.
  destruct p as [|x p']; [reflexivity|].
  rewrite (plain_no_semicolon _ Hp).
  destruct (cut_Forall _ 61 (x :: p') Hp) as [Hk Hv].
  destruct (cut 61 (x :: p')) as [k v]. cbn [fst snd] in *.
  rewrite (plain_unescape k Hk).
  destruct v as [v|]; simpl.
  - change (unescape v) with (unescape v). pose proof (plain_unescape v (Hv v eq_refl)) as E. simpl in E. rewrite E. reflexivity.
  - reflexivity.
Qed.
Print Assumptions parse_query_plain_eq.
Print Assumptions unescape_escape.
Print Assumptions unescape_plain.

(** [updog create] (cmd/updog/create.go): header normalisation and record ingestion (C19).
    The CSV reader itself (encoding/csv) is trusted: the model starts from the records it
    yields.  No proofs in this file. *)
From updog Require Import Prelude Index.
Local Open Scope N_scope.

(** [normalizeHeader] on one code point: [strings.ToLower] then the [strings.Map] callback.
    The only code points outside A-Z/a-z that Go's ToLower sends into a-z are U+0130 (to
    'i') and U+212A (KELVIN SIGN, to 'k').  One output byte per input rune. *)
Definition normalize_rune (r : N) : N :=
  if (65 <=? r) && (r <=? 90) then r + 32
  else if (97 <=? r) && (r <=? 122) then r
  else if r =? 304 then 105
  else if r =? 8490 then 107
  else 95.

Definition normalize_header (runes : list N) : str := map normalize_rune runes.

(** One record: field [i] becomes the value of header column [i] (a Go map: a later field
    overwrites an earlier one under the same normalised name). *)
Fixpoint row_put (r : row) (c v : str) : row :=
  match r with
  | [] => [(c, v)]
  | (c', v') :: r' => if str_eqb c' c then (c', v) :: r' else (c', v') :: row_put r' c v
  end.

Definition record_row (header : list str) (rec : list str) : row :=
  fold_left (λ r cv, row_put r cv.1 cv.2) (zip header rec) [].

(** encoding/csv accepts a file only if every record has as many fields as the header. *)
Definition well_shaped (header : list str) (records : list (list str)) : bool :=
  forallb (λ rec, (length rec =? length header)%nat) records.

Definition ingest (header : list (list N)) (records : list (list str)) : list row :=
  map (record_row (map normalize_header header)) records.

Inductive create_result := CreateOk (s : store) | CreateErr | CreatePanic.

Section WithHash.
Context (H : list N → N).

(** The command: [exists] says whether the output path already exists. *)
Definition create (big : bool) (exists_ : bool) (header : list (list N)) (records : list (list str)) : create_result :=
  if exists_ then CreateErr
  else if negb (well_shaped header records) then CreateErr
  else match build_store H (if big then WBig else WMem) (ingest header records) with
       | Ok s => CreateOk s
       | Err => CreateErr
       | _ => CreatePanic
       end.
End WithHash.

(** Byte-level encodings of the bbolt keys and of the row counter (writer.go, writer_big.go,
    index.go: encoding/binary.BigEndian), and the order bbolt's cursor yields them in
    (bytes.Compare = [str_ltb]).  Index.v works with numbers and sorts the temp bucket of the
    big writer by [key_le]; the theorems in KeyBytesProofs.v show that this is the byte order of
    the encoded keys.  No proofs in this file. *)
From updog Require Import Prelude Index.
Local Open Scope N_scope.

(** [k] bytes, most significant first (binary.BigEndian.PutUint64 / PutUint32). *)
Fixpoint be (k : nat) (n : N) : str :=
  match k with
  | O => []
  | S k' => be k' (n / 256) ++ [n mod 256]
  end.

(** binary.BigEndian.Uint64 / Uint32 *)
Definition be_decode (s : str) : N := fold_left (λ acc b, acc * 256 + b) s 0.

(** least significant first: what the keys would be with binary.LittleEndian (refuted below) *)
Fixpoint le (k : nat) (n : N) : str :=
  match k with
  | O => []
  | S k' => (n mod 256) :: le k' (n / 256)
  end.

(** temp bucket of the big writer: be64(value index) ‖ be32(row id) *)
Definition temp_key (h r : N) : str := be 8 h ++ be 4 r.
Definition temp_key_decode (k : str) : N * N := (be_decode (take 8 k), be_decode (drop 8 k)).

(** data bucket: 'V' ‖ be64(value index); 'S' schema; 'I' be32(number of rows) *)
Definition value_key (h : N) : str := 86 :: be 8 h.
Definition key_schema : str := [83].
Definition key_count : str := [73].
Definition count_value (n : N) : str := be 4 n.

(** bytes.Compare(a, b) <= 0 *)
Definition str_leb (a b : str) : bool := negb (str_ltb b a).

(** What a bbolt cursor over a bucket holding exactly these keys yields: the keys in byte
    order (a key put twice is stored once). *)
Definition str_le (a b : str) : Prop := str_leb a b = true.
Global Instance str_le_dec a b : Decision (str_le a b).
Proof. unfold str_le. apply _. Defined.
Definition cursor_order (keys : list str) : list str := merge_sort str_le keys.

(** Schema and row-id theorems (C05): both writers hand out the ids 0,1,2,…; [GetSchema] on
    an index that represents [rows] is the specification's schema. *)
From updog Require Import Prelude Index IndexProofs BigProofs.
From stdpp Require Import mapset.
From Coq Require Import ZifyN ZifyNat ZifyBool.
Local Open Scope N_scope.

(** * Sorting is determined by the set of elements *)

Global Instance str_le_antisymm : AntiSymm (=) str_le.
Proof. intros a b Hab Hba. by apply str_le_antisym. Qed.

Lemma merge_sort_str_ext (l1 l2 : list str) :
  NoDup l1 → NoDup l2 → (∀ x, x ∈ l1 ↔ x ∈ l2) →
  merge_sort str_le l1 = merge_sort str_le l2.
Proof.
  intros Hn1 Hn2 Heq.
  apply (Sorted_unique str_le); [apply Sorted_merge_sort, _ | apply Sorted_merge_sort, _ |].
  rewrite !merge_sort_Permutation. by apply NoDup_Permutation.
Qed.

(** Ordering pairs by their first component. *)
Definition key1_le {B} (a b : str * B) : Prop := str_le a.1 b.1.

Global Instance key1_le_dec {B} (a b : str * B) : Decision (key1_le a b).
Proof. unfold key1_le. apply _. Defined.
Global Instance key1_le_total {B} : Total (@key1_le B).
Proof. intros a b. unfold key1_le. apply str_le_total. Qed.
Global Instance key1_le_trans {B} : Transitive (@key1_le B).
Proof. intros a b c. unfold key1_le. apply str_le_trans. Qed.

(** [key1_le] is not antisymmetric, but sorted lists with distinct keys are still unique. *)
Lemma StronglySorted_key1_unique {B} (l1 l2 : list (str * B)) :
  StronglySorted key1_le l1 → StronglySorted key1_le l2 → l1 ≡ₚ l2 → NoDup l1.*1 → l1 = l2.
Proof.
  intros Hl1. revert l2. induction Hl1 as [|x1 l1 Hs1 IH Hx1]; intros l2 Hl2 E Hnd.
  { symmetry. by apply Permutation_nil. }
  destruct Hl2 as [|x2 l2 Hs2 Hx2].
  { by apply Permutation_nil_r in E. }
  rewrite fmap_cons in Hnd. apply NoDup_cons in Hnd as [Hnotin Hnd].
  assert (x1 = x2) as Hx; [|subst x2].
  { rewrite Forall_forall in Hx1, Hx2.
    assert (x2 ∈ x1 :: l1) as Hx2' by (rewrite E; left).
    assert (x1 ∈ x2 :: l2) as Hx1' by (rewrite <- E; left).
    apply elem_of_cons in Hx2' as [->|Hx2']; [done|].
    apply elem_of_cons in Hx1' as [->|Hx1']; [done|].
    exfalso. apply Hnotin.
    assert (x1.1 = x2.1) as ->.
    { apply str_le_antisym; [apply (Hx1 _ Hx2')|apply (Hx2 _ Hx1')]. }
    apply elem_of_list_fmap. by exists x2. }
  f_equal. apply IH; [done| |done]. by apply (inj (x1 ::.)).
Qed.

(** Sorting by key commutes with attaching a payload to the keys. *)
Lemma merge_sort_key1_map {B} (g : str → B) (l : list str) :
  NoDup l →
  merge_sort key1_le (map (λ c, (c, g c)) l) = map (λ c, (c, g c)) (merge_sort str_le l).
Proof.
  intros Hnd. apply StronglySorted_key1_unique.
  - apply StronglySorted_merge_sort; apply _.
  - apply (StronglySorted_fmap (λ c, (c, g c)) str_le key1_le); [by intros x y|].
    apply StronglySorted_merge_sort; apply _.
  - rewrite merge_sort_Permutation.
    change (map (λ c, (c, g c)) ?l) with ((λ c, (c, g c)) <$> l).
    by rewrite merge_sort_Permutation.
  - rewrite merge_sort_Permutation.
    change (map (λ c, (c, g c)) l) with ((λ c, (c, g c)) <$> l).
    rewrite <- list_fmap_compose.
    replace (fst ∘ (λ c : str, (c, g c)) <$> l) with l; [done|].
    symmetry. rewrite <- (list_fmap_id l) at 2. by apply list_fmap_ext.
Qed.

(** * Content of the specification lists *)

Lemma has_pair_exists rows c v :
  (∃ i, has_pair rows i c v) ↔ ∃ r, r ∈ rows ∧ (c, v) ∈ r.
Proof.
  split.
  - intros (i & r & Hl & Hin). exists r. split; [|done]. by apply elem_of_list_lookup_2 in Hl.
  - intros (r & Hr & Hin). apply elem_of_list_lookup_1 in Hr as [n Hn].
    exists (N.of_nat n), r. by rewrite Nat2N.id.
Qed.

Lemma elem_of_col_values_raw rows c v :
  v ∈ flat_map (λ r : row, omap (λ cv, if decide (cv.1 = c) then Some cv.2 else None) r) rows
  ↔ ∃ r, r ∈ rows ∧ (c, v) ∈ r.
Proof.
  rewrite elem_of_list_In, in_flat_map. split.
  - intros (r & Hr & Hv). apply elem_of_list_In in Hr, Hv.
    apply elem_of_list_omap in Hv as ([c' v'] & Hin & Hf). cbn [fst snd] in Hf.
    destruct (decide (c' = c)) as [->|]; [|done]. injection Hf as ->. eauto.
  - intros (r & Hr & Hin). exists r. rewrite <- !elem_of_list_In. split; [done|].
    apply elem_of_list_omap. exists (c, v). split; [done|]. cbn [fst snd].
    by rewrite decide_True.
Qed.

Section Schema.
Context (H : list N → N).

(** * Row ids *)
Lemma mem_ids rows : (w_add_rows H w_init rows).1 = map N.of_nat (seq 0 (length rows)).
Proof. apply (mem_writer_rep H rows). Qed.

Lemma big_ids rows : (b_add_rows H b_init rows).1 = map N.of_nat (seq 0 (length rows)).
Proof. rewrite (big_ids_eq_mem H rows). apply mem_ids. Qed.

(** * GetSchema *)

(** The values of one column. *)
Lemma schema_col_values rows ix c col :
  IxRep H rows ix → ix_schema ix !! c = Some col →
  merge_sort str_le (map fst (map_to_list col)) = col_values rows c.
Proof.
  intros HR Hcol. unfold col_values. apply merge_sort_str_ext.
  - apply NoDup_fst_map_to_list.
  - apply NoDup_remove_dups.
  - intros v. rewrite elem_of_remove_dups, elem_of_col_values_raw, <- has_pair_exists.
    change (map fst (map_to_list col)) with ((map_to_list col).*1).
    rewrite elem_of_list_fmap. split.
    + intros ([v' h] & -> & Hin). apply elem_of_map_to_list in Hin. cbn [fst].
      apply (ir_schema _ _ _ HR c col Hcol) in Hin as [_ Hp]. done.
    + intros Hp. exists (v, vidx H c v). split; [done|]. apply elem_of_map_to_list.
      apply (ir_schema _ _ _ HR c col Hcol). done.
Qed.

Lemma get_schema_spec rows ix : IxRep H rows ix → get_schema ix = spec_schema rows.
Proof.
  intros HR. unfold get_schema, spec_schema.
  change (λ a b : str * list str, str_le a.1 b.1) with (@key1_le (list str)).
  assert (map (λ cv : str * gmap str N, (cv.1, merge_sort str_le (map fst (map_to_list cv.2))))
              (map_to_list (ix_schema ix))
          = map (λ c, (c, col_values rows c)) (map fst (map_to_list (ix_schema ix)))) as ->.
  { rewrite map_map. apply map_ext_in. intros [c col] Hin. cbn [fst snd]. f_equal.
    apply elem_of_list_In, elem_of_map_to_list in Hin. by apply (schema_col_values rows ix c col). }
  etrans; [apply (merge_sort_key1_map (col_values rows)), NoDup_fst_map_to_list|]. f_equal.
  apply merge_sort_str_ext.
  - apply NoDup_fst_map_to_list.
  - apply NoDup_remove_dups.
  - intros c. rewrite elem_of_remove_dups, <- (ir_cols _ _ _ HR).
    change (map fst ?l) with (l.*1). rewrite elem_of_list_fmap. split.
    + intros ([c' col] & -> & Hin). apply elem_of_map_to_list in Hin. cbn [fst]. by eexists.
    + intros [col Hcol]. exists (c, col). split; [done|]. by apply elem_of_map_to_list.
Qed.

(** The schema of the index built by either writer. *)
Lemma mem_get_schema rows preload ix :
  N.of_nat (length rows) < 2^32 →
  out_bind (build_store H WMem rows) (open_index preload) = Ok ix →
  get_schema ix = spec_schema rows.
Proof.
  intros Hlen Hopen. cbn [build_store out_bind] in Hopen.
  destruct (mem_index_rep H rows preload (map_to_list (w_vals (w_add_rows H w_init rows).2)) Hlen)
    as (ix' & Hix & HR); [done|].
  rewrite Hix in Hopen. injection Hopen as <-. by apply get_schema_spec.
Qed.

Lemma big_get_schema rows preload ix :
  N.of_nat (length rows) < 2^32 →
  out_bind (build_store H WBig rows) (open_index preload) = Ok ix →
  get_schema ix = spec_schema rows.
Proof. rewrite big_store_eq_mem. apply mem_get_schema. Qed.

End Schema.

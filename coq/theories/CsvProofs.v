(** C19: [updog create] — header normalisation, record ingestion, and the resulting index
    answers queries like a row scan over the ingested records. *)
From updog Require Import Prelude Index IndexProofs BigProofs DataPlane Csv.
From Coq Require Import ZifyN ZifyNat ZifyBool.
Local Open Scope N_scope.

(** * Header normalisation *)

Theorem normalize_rune_range r :
  let b := normalize_rune r in (97 ≤ b ∧ b ≤ 122) ∨ b = 95.
Proof.
  cbn zeta. unfold normalize_rune.
  destruct (N.leb_spec 65 r) as [H65|H65], (N.leb_spec r 90) as [H90|H90]; cbn [andb]; try lia;
    destruct (N.leb_spec 97 r) as [H97|H97], (N.leb_spec r 122) as [H122|H122]; cbn [andb]; try lia;
    destruct (N.eqb_spec r 304) as [H304|H304]; try lia;
    destruct (N.eqb_spec r 8490) as [H8490|H8490]; lia.
Qed.

Theorem normalize_rune_upper r : 65 ≤ r → r ≤ 90 → normalize_rune r = r + 32.
Proof.
  intros Hlo Hhi. unfold normalize_rune.
  destruct (N.leb_spec 65 r) as [H65|H65], (N.leb_spec r 90) as [H90|H90]; cbn [andb]; lia.
Qed.

Theorem normalize_rune_lower r : 97 ≤ r → r ≤ 122 → normalize_rune r = r.
Proof.
  intros Hlo Hhi. unfold normalize_rune.
  destruct (N.leb_spec 65 r) as [H65|H65], (N.leb_spec r 90) as [H90|H90]; cbn [andb]; try lia;
    destruct (N.leb_spec 97 r) as [H97|H97], (N.leb_spec r 122) as [H122|H122]; cbn [andb]; lia.
Qed.

Theorem normalize_rune_dotted_I : normalize_rune 304 = 105.
Proof. reflexivity. Qed.
Theorem normalize_rune_kelvin : normalize_rune 8490 = 107.
Proof. reflexivity. Qed.

Theorem normalize_rune_other r :
  ¬ (65 ≤ r ∧ r ≤ 90) → ¬ (97 ≤ r ∧ r ≤ 122) → r ≠ 304 → r ≠ 8490 → normalize_rune r = 95.
Proof.
  intros Hu Hl Hi Hk. unfold normalize_rune.
  destruct (N.leb_spec 65 r) as [H65|H65], (N.leb_spec r 90) as [H90|H90]; cbn [andb]; try lia;
    destruct (N.leb_spec 97 r) as [H97|H97], (N.leb_spec r 122) as [H122|H122]; cbn [andb]; try lia;
    destruct (N.eqb_spec r 304) as [H304|H304]; try lia;
    destruct (N.eqb_spec r 8490) as [H8490|H8490]; lia.
Qed.

(** Total characterisation in one statement. *)
Theorem normalize_rune_spec r :
  normalize_rune r =
  if decide (65 ≤ r ∧ r ≤ 90) then r + 32
  else if decide (97 ≤ r ∧ r ≤ 122) then r
  else if decide (r = 304) then 105
  else if decide (r = 8490) then 107
  else 95.
Proof.
  destruct (decide (65 ≤ r ∧ r ≤ 90)) as [[Ha Hb]|Hu]; [by apply normalize_rune_upper|].
  destruct (decide (97 ≤ r ∧ r ≤ 122)) as [[Ha Hb]|Hl]; [by apply normalize_rune_lower|].
  destruct (decide (r = 304)) as [->|Hi]; [done|].
  destruct (decide (r = 8490)) as [->|Hk]; [done|].
  by apply normalize_rune_other.
Qed.

Theorem normalize_header_length rs : length (normalize_header rs) = length rs.
Proof. apply map_length. Qed.

Theorem normalize_header_bytes rs :
  Forall (λ b, (97 ≤ b ∧ b ≤ 122) ∨ b = 95) (normalize_header rs).
Proof. unfold normalize_header. apply Forall_fmap, Forall_forall. intros r _. apply normalize_rune_range. Qed.

Theorem normalize_header_nul_free rs : nul_free (normalize_header rs).
Proof.
  unfold nul_free. intros Hin.
  pose proof (normalize_header_bytes rs) as Hall. rewrite Forall_forall in Hall.
  specialize (Hall 0 Hin). lia.
Qed.

(** * One record *)

Lemma row_put_keys (r : row) c v :
  (row_put r c v).*1 = if decide (c ∈ r.*1) then r.*1 else r.*1 ++ [c].
Proof.
  induction r as [|[c' v'] r IH]; cbn [row_put fmap list_fmap].
  - rewrite decide_False by apply not_elem_of_nil. done.
  - destruct (str_eqb c' c) eqn:Heq.
    + apply str_eqb_eq in Heq as ->. cbn. rewrite decide_True by left. done.
    + apply str_eqb_neq in Heq. cbn. fold (fmap (M:=list) (@fst str str)). rewrite IH.
      destruct (decide (c ∈ r.*1)) as [Hin|Hnin].
      * rewrite decide_True by (by right). done.
      * rewrite decide_False; [done|]. intros [Hx|Hx]%elem_of_cons; [congruence|done].
Qed.

Lemma row_put_elem (r : row) c v c' v' :
  NoDup (r.*1) →
  (c', v') ∈ row_put r c v ↔ (c' = c ∧ v' = v) ∨ (c' ≠ c ∧ (c', v') ∈ r).
Proof.
  induction r as [|[c0 v0] r IH]; cbn [row_put fmap list_fmap]; intros Hnd.
  - rewrite elem_of_list_singleton. split.
    + intros [= -> ->]. by left.
    + intros [[-> ->]|[_ Hx]]; [done|by apply elem_of_nil in Hx].
  - fold (fmap (M:=list) (@fst str str)) in Hnd. apply NoDup_cons in Hnd as [Hnin Hnd].
    destruct (str_eqb c0 c) eqn:Heq.
    + apply str_eqb_eq in Heq as ->. rewrite !elem_of_cons. split.
      * intros [[= -> ->]|Hin]; [by left|]. right. split; [|by right].
        intros ->. apply Hnin. apply elem_of_list_fmap. by exists (c, v').
      * intros [[-> ->]|[Hne [[= -> ->]|Hin]]]; [by left|done|by right].
    + apply str_eqb_neq in Heq. rewrite !elem_of_cons, (IH Hnd). split.
      * intros [[= -> ->]|[[-> ->]|[Hne Hin]]]; [right; split; [done|by left]|by left|].
        right. split; [done|by right].
      * intros [[-> ->]|[Hne [[= -> ->]|Hin]]]; [right; by left|by left|]. right. right. done.
Qed.

Lemma row_put_NoDup (r : row) c v : NoDup (r.*1) → NoDup ((row_put r c v).*1).
Proof.
  intros Hnd. rewrite row_put_keys. destruct (decide (c ∈ r.*1)) as [Hin|Hnin]; [done|].
  apply NoDup_app. split; [done|]. split; [|apply NoDup_singleton].
  intros x Hx ->%elem_of_list_singleton. done.
Qed.

Lemma fold_row_put_keys (l : list (str * str)) (acc : row) c :
  c ∈ (fold_left (λ r cv, row_put r cv.1 cv.2) l acc).*1 ↔ c ∈ acc.*1 ∨ c ∈ l.*1.
Proof.
  revert acc. induction l as [|[c0 v0] l IH]; intros acc; cbn [fold_left fmap list_fmap fst snd].
  - rewrite elem_of_nil. tauto.
  - fold (fmap (M:=list) (@fst str str)). rewrite IH, row_put_keys, elem_of_cons.
    destruct (decide (c0 ∈ acc.*1)) as [Hin|Hnin].
    + split; [tauto|]. intros [Hx|[->|Hx]]; tauto.
    + rewrite elem_of_app, elem_of_list_singleton. tauto.
Qed.

Lemma fold_row_put_NoDup (l : list (str * str)) (acc : row) :
  NoDup (acc.*1) → NoDup ((fold_left (λ r cv, row_put r cv.1 cv.2) l acc).*1).
Proof.
  revert acc. induction l as [|[c0 v0] l IH]; intros acc Hnd; cbn [fold_left]; [done|].
  apply IH. by apply row_put_NoDup.
Qed.

Lemma fold_row_put_elem (l : list (str * str)) (acc : row) c v :
  NoDup (acc.*1) → NoDup (l.*1) → (∀ x, x ∈ l.*1 → x ∉ acc.*1) →
  (c, v) ∈ fold_left (λ r cv, row_put r cv.1 cv.2) l acc ↔ (c, v) ∈ acc ∨ (c, v) ∈ l.
Proof.
  revert acc. induction l as [|[c0 v0] l IH]; intros acc Hacc Hl Hdisj; cbn [fold_left fst snd].
  - rewrite elem_of_nil. tauto.
  - cbn [fmap list_fmap fst] in Hl, Hdisj. fold (fmap (M:=list) (@fst str str)) in Hl, Hdisj.
    apply NoDup_cons in Hl as [Hc0 Hl].
    rewrite IH; [|by apply row_put_NoDup|done|].
    + rewrite (row_put_elem acc c0 v0 c v Hacc), elem_of_cons. split.
      * intros [[[-> ->]|[Hne Hin]]|Hin]; [right; by left|by left|right; by right].
      * intros [Hin|[[= -> ->]|Hin]]; [|left; by left|by right].
        left. right. split; [|done]. intros ->. apply (Hdisj c0); [by left|].
        apply elem_of_list_fmap. by exists (c0, v).
    + intros x Hx. rewrite row_put_keys. destruct (decide (c0 ∈ acc.*1)) as [Hin|Hnin].
      * apply Hdisj. by right.
      * rewrite elem_of_app, elem_of_list_singleton. intros [Hxa| ->]; [|done].
        apply (Hdisj x); [by right|done].
Qed.

Lemma zip_keys_NoDup (header rec : list str) : NoDup header → NoDup ((zip header rec).*1).
Proof.
  revert rec. induction header as [|c header IH]; intros [|v rec] Hnd; cbn; try apply NoDup_nil_2.
  apply NoDup_cons in Hnd as [Hnin Hnd]. apply NoDup_cons. split; [|by apply IH].
  intros ((c' & v') & -> & Hin)%elem_of_list_fmap. cbn in Hnin. by apply elem_of_zip_l in Hin.
Qed.

(** With pairwise distinct normalised headers the row is the header/field pairing, as a set
    of pairs, and a well-formed row.  (The length hypothesis of the target statement is not
    needed for this part; it is what makes every header column present, below.) *)
Theorem record_row_lookup header rec c v :
  NoDup header → (c, v) ∈ record_row header rec ↔ (c, v) ∈ zip header rec.
Proof.
  intros Hnd. unfold record_row. rewrite fold_row_put_elem.
  - rewrite elem_of_nil. tauto.
  - apply NoDup_nil_2.
  - by apply zip_keys_NoDup.
  - intros x _. apply not_elem_of_nil.
Qed.

Theorem record_row_wf header rec : row_wf (record_row header rec).
Proof. unfold row_wf, record_row. apply fold_row_put_NoDup, NoDup_nil_2. Qed.

Theorem record_row_NoDup header rec : NoDup (record_row header rec).*1.
Proof. apply record_row_wf. Qed.

Theorem record_row_keys header rec c :
  length rec = length header → c ∈ (record_row header rec).*1 ↔ c ∈ header.
Proof.
  intros Hlen. unfold record_row. rewrite fold_row_put_keys, fst_zip by lia.
  cbn. rewrite elem_of_nil. tauto.
Qed.

Lemma record_row_keys_sub header rec c : c ∈ (record_row header rec).*1 → c ∈ header.
Proof.
  unfold record_row. rewrite fold_row_put_keys. cbn. rewrite elem_of_nil.
  intros [[]|((c' & v') & -> & Hin)%elem_of_list_fmap]. by apply elem_of_zip_l in Hin.
Qed.

(** Field [i] is the value of header column [i]. *)
Corollary record_row_field header rec i c v :
  NoDup header → header !! i = Some c → rec !! i = Some v → (c, v) ∈ record_row header rec.
Proof.
  intros Hnd Hc Hv. apply record_row_lookup; [done|].
  apply elem_of_list_lookup. exists i. apply lookup_zip_with_Some. by exists c, v.
Qed.

Corollary record_row_functional header rec c v1 v2 :
  (c, v1) ∈ record_row header rec → (c, v2) ∈ record_row header rec → v1 = v2.
Proof.
  intros H1 H2. pose proof (record_row_NoDup header rec) as Hnd.
  apply elem_of_list_lookup in H1 as [i Hi], H2 as [j Hj].
  assert (i = j) as ->.
  { eapply NoDup_lookup; [exact Hnd| |]; rewrite list_lookup_fmap.
    - by rewrite Hi.
    - by rewrite Hj. }
  congruence.
Qed.

(** * All records *)
Theorem ingest_length header records : length (ingest header records) = length records.
Proof. apply map_length. Qed.

Theorem ingest_lookup header records i :
  ingest header records !! i = record_row (map normalize_header header) <$> (records !! i).
Proof. apply list_lookup_fmap. Qed.

Corollary ingest_lookup_Some header records i rec :
  records !! i = Some rec →
  ingest header records !! i = Some (record_row (map normalize_header header) rec).
Proof. intros Hl. by rewrite ingest_lookup, Hl. Qed.

Theorem ingest_rows_wf header records : Forall row_wf (ingest header records).
Proof. unfold ingest. apply Forall_fmap, Forall_forall. intros rec _. apply record_row_wf. Qed.

Theorem ingest_nul_free header records : rows_nul_free (ingest header records).
Proof.
  unfold rows_nul_free, columns. apply Forall_flat_map, Forall_forall.
  intros r (rec & -> & _)%elem_of_list_fmap. apply Forall_forall. intros c Hc.
  apply record_row_keys_sub, elem_of_list_fmap in Hc as (rs & -> & _).
  apply normalize_header_nul_free.
Qed.

(** * The command *)
Section WithHash.
Context (H : list N → N).

Theorem create_modes_equal ex hdr recs : create H true ex hdr recs = create H false ex hdr recs.
Proof. unfold create. by rewrite big_store_eq_mem. Qed.

Theorem create_existing_output big hdr recs : create H big true hdr recs = CreateErr.
Proof. reflexivity. Qed.

Theorem create_malformed big ex hdr recs :
  well_shaped hdr recs = false → create H big ex hdr recs = CreateErr.
Proof. unfold create. intros ->. by destruct ex. Qed.

Theorem create_never_panics big ex hdr recs : create H big ex hdr recs ≠ CreatePanic.
Proof.
  destruct big; [rewrite create_modes_equal|]; unfold create;
    destruct ex; [done| |done|]; destruct (negb _); done.
Qed.

(** Exact outcome: the store of the in-memory writer on the ingested rows. *)
Theorem create_ok_iff big ex hdr recs s :
  create H big ex hdr recs = CreateOk s ↔
  ex = false ∧ well_shaped hdr recs = true ∧ build_store H WMem (ingest hdr recs) = Ok s.
Proof.
  assert (Hmem : create H false ex hdr recs = CreateOk s ↔
                 ex = false ∧ well_shaped hdr recs = true ∧ build_store H WMem (ingest hdr recs) = Ok s).
  { unfold create. destruct ex.
    - split; [done|]. by intros [Hd _].
    - destruct (well_shaped hdr recs); cbn [negb].
      + destruct (build_store H WMem (ingest hdr recs)) as [s'| | |].
        * split; [by intros [= <-]|]. by intros (_ & _ & [= <-]).
        * split; [done|]. by intros (_ & _ & Hd).
        * split; [done|]. by intros (_ & _ & Hd).
        * split; [done|]. by intros (_ & _ & Hd).
      + split; [done|]. by intros (_ & Hd & _). }
  destruct big; [rewrite create_modes_equal|]; exact Hmem.
Qed.

Context (H_inj : Inj (=) (=) H).

(** A query on the created index is a row scan over the ingested records. *)
Theorem C19_rows w preload hdr recs q :
  N.of_nat (length recs) < 2^32 →
  expr_nul_free (q_expr q) → nonempty_ops (q_expr q) = true →
  run_query H w preload (ingest hdr recs) q = spec_execute (ingest hdr recs) q.
Proof.
  intros Hlen Hq Hne. apply (run_query_spec H H_inj); [|apply ingest_nul_free|done|done].
  by rewrite ingest_length.
Qed.

(** The statement with all the hypotheses of the contract (distinct normalised headers and
    well-shaped records are what make [ingest] the intended table; the equation itself does
    not need them). *)
Corollary C19_rows_contract w preload hdr recs q :
  NoDup (map normalize_header hdr) → well_shaped hdr recs = true →
  N.of_nat (length recs) < 2^32 →
  expr_nul_free (q_expr q) → nonempty_ops (q_expr q) = true →
  run_query H w preload (ingest hdr recs) q = spec_execute (ingest hdr recs) q.
Proof. intros _ _. apply C19_rows. Qed.

(** End to end: the file written by the command, opened and queried. *)
Theorem C19_create_then_query big hdr recs s preload q :
  create H big false hdr recs = CreateOk s →
  N.of_nat (length recs) < 2^32 →
  expr_nul_free (q_expr q) → nonempty_ops (q_expr q) = true →
  out_bind (open_index preload s) (λ ix, execute H ix q) = spec_execute (ingest hdr recs) q.
Proof.
  intros (_ & _ & Hs)%create_ok_iff Hlen Hq Hne.
  rewrite <- (C19_rows WMem preload hdr recs q Hlen Hq Hne). unfold run_query. by rewrite Hs.
Qed.

End WithHash.

(** Non-vacuity: a header with upper case, a non-letter and the Kelvin sign. *)
Example C19_instance :
  let hdr := [[78; 97; 109; 101]; [65; 45; 8490]] in
  let recs := [[[120]; [49]]; [[121]; [50]]] in
  map normalize_header hdr = [[110; 97; 109; 101]; [97; 95; 107]]
  ∧ NoDup (map normalize_header hdr) ∧ well_shaped hdr recs = true
  ∧ ingest hdr recs = [[([110; 97; 109; 101], [120]); ([97; 95; 107], [49])];
                        [([110; 97; 109; 101], [121]); ([97; 95; 107], [50])]]
  ∧ out_map r_count (run_query H_enc WBig true (ingest hdr recs) (Query (Eq [97; 95; 107] [50]) [])) = Ok 1.
Proof.
  cbn zeta. split; [reflexivity|]. split; [|split; [reflexivity|split; [reflexivity|vm_compute; reflexivity]]].
  cbn. apply NoDup_cons. split; [|apply NoDup_singleton].
  intros Hin%elem_of_list_singleton. discriminate Hin.
Qed.

(** Two headers that normalise to the same name: the later field overwrites the earlier one
    (what the Go map does); this is why distinctness is a hypothesis of [record_row_lookup]. *)
Example C19_duplicate_header :
  record_row (map normalize_header [[65]; [97]]) [[49]; [50]] = [([97], [50])].
Proof. reflexivity. Qed.

Print Assumptions normalize_rune_range.
Print Assumptions normalize_rune_spec.
Print Assumptions record_row_lookup.
Print Assumptions record_row_wf.
Print Assumptions ingest_lookup.
Print Assumptions create_modes_equal.
Print Assumptions create_never_panics.
Print Assumptions C19_rows.
Print Assumptions C19_create_then_query.

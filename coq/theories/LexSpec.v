(** A declarative lexical specification of the query language, and the proof that the
    lexer model [QParser.lex] meets it exactly.  The specification ([Lexeme], [follow_ok],
    [Tokens], [LexError]) does not mention [lex_go]; with it the byte-level grammar theorem
    [parse_query_spec] is stated without any reference to the lexer function. *)
From updog Require Import Prelude QParser ParserProofs.
From Coq Require Import ZifyN ZifyNat ZifyBool.
Local Open Scope N_scope.

(** * The specification *)

(** The inside of a quoted value: bytes other than the quote, and doubled quotes. *)
Inductive ValueBody : str → Prop :=
| VB_nil : ValueBody []
| VB_byte b r : b ≠ quote → ValueBody r → ValueBody (b :: r)
| VB_qq r : ValueBody r → ValueBody (quote :: quote :: r).

(** [Lexeme t l]: the byte string [l] is a spelling of the token [t]. *)
Inductive Lexeme : tok → str → Prop :=
| Lx_lp : Lexeme TLP [40]
| Lx_rp : Lexeme TRP [41]
| Lx_and : Lexeme TAnd [38]
| Lx_or : Lexeme TOr [124]
| Lx_not : Lexeme TNot [94]
| Lx_eq : Lexeme TEq [61]
| Lx_comma : Lexeme TComma [44]
| Lx_semi : Lexeme TSemi [59]
| Lx_field c : ident c = true → Lexeme (TField c) c
| Lx_ph ds : forallb is_digit ds = true → Lexeme (TPh (dollar :: ds)) (dollar :: ds)
| Lx_value body :
    ValueBody body → Lexeme (TValue (quote :: body ++ [quote])) (quote :: body ++ [quote]).

(** The remaining input does not start with a byte of class [p]. *)
Definition not_next (p : N → bool) (rest : str) : Prop :=
  match rest with b :: _ => p b = false | [] => True end.

(** Maximal munch. *)
Definition follow_ok (t : tok) (rest : str) : Prop :=
  match t with
  | TField _ => not_next is_ident rest
  | TPh _ => not_next is_digit rest
  | TValue _ => not_next (λ b, b =? quote) rest
  | _ => True
  end.

(** [Tokens s ts]: the input [s] is the token sequence [ts], white space skipped. *)
Inductive Tokens : str → list tok → Prop :=
| Tk_nil : Tokens [] []
| Tk_ws b s ts : is_ws b = true → Tokens s ts → Tokens (b :: s) ts
| Tk_tok t l rest ts :
    Lexeme t l → follow_ok t rest → Tokens rest ts → Tokens (l ++ rest) (t :: ts).

(** [LexError s]: after a tokenisable prefix there is an unknown byte in text position, or
    a value whose closing quote is missing (what follows its opening quote is a complete
    [ValueBody] up to the end of the input). *)
Inductive LexError : str → Prop :=
| LE_ws b s : is_ws b = true → LexError s → LexError (b :: s)
| LE_tok t l rest : Lexeme t l → follow_ok t rest → LexError rest → LexError (l ++ rest)
| LE_unknown b s :
    is_ws b = false → single_tok b = None → is_alpha b = false → b ≠ quote → b ≠ dollar →
    LexError (b :: s)
| LE_unterminated s : ValueBody s → LexError (quote :: s).

(** * One-step unfolding of the lexer *)
Lemma lexs_text_cons b s : lex_go MText [] (b :: s) = text_step b s.
Proof. apply (lex_go_cons MText). Qed.

Lemma lexs_field_cons acc b s :
  lex_go MField acc (b :: s) =
  if is_ident b then lex_go MField (b :: acc) s else TField (rev acc) :: text_step b s.
Proof. apply (lex_go_cons MField). Qed.

Lemma lexs_ph_cons acc b s :
  lex_go MPh acc (b :: s) =
  if is_digit b then lex_go MPh (b :: acc) s else TPh (rev acc) :: text_step b s.
Proof. apply (lex_go_cons MPh). Qed.

Lemma lexs_value_cons acc b s :
  lex_go MValue acc (b :: s) =
  if b =? quote then lex_go MValueQ (b :: acc) s else lex_go MValue (b :: acc) s.
Proof. apply (lex_go_cons MValue). Qed.

Lemma lexs_valueq_cons acc b s :
  lex_go MValueQ acc (b :: s) =
  if b =? quote then lex_go MValue (b :: acc) s else TValue (rev acc) :: text_step b s.
Proof. apply (lex_go_cons MValueQ). Qed.

(** * Runs: what each mode does on a lexeme tail followed by a proper follower *)
Lemma lexs_field_run more : ∀ acc rest,
  forallb is_ident more = true → not_next is_ident rest →
  lex_go MField acc (more ++ rest) = TField (rev acc ++ more) :: lex_go MText [] rest.
Proof.
  induction more as [|b more IH]; intros acc rest Hall Hnext.
  - rewrite app_nil_r. change ([] ++ rest) with rest. destruct rest as [|c rest'].
    + reflexivity.
    + simpl in Hnext. rewrite lexs_field_cons, Hnext, lexs_text_cons. reflexivity.
  - simpl in Hall. apply andb_prop in Hall as [Hb Hall].
    change ((b :: more) ++ rest) with (b :: (more ++ rest)).
    rewrite lexs_field_cons, Hb, IH by done.
    simpl. rewrite <- app_assoc. reflexivity.
Qed.

Lemma lexs_ph_run more : ∀ acc rest,
  forallb is_digit more = true → not_next is_digit rest →
  lex_go MPh acc (more ++ rest) = TPh (rev acc ++ more) :: lex_go MText [] rest.
Proof.
  induction more as [|b more IH]; intros acc rest Hall Hnext.
  - rewrite app_nil_r. change ([] ++ rest) with rest. destruct rest as [|c rest'].
    + reflexivity.
    + simpl in Hnext. rewrite lexs_ph_cons, Hnext, lexs_text_cons. reflexivity.
  - simpl in Hall. apply andb_prop in Hall as [Hb Hall].
    change ((b :: more) ++ rest) with (b :: (more ++ rest)).
    rewrite lexs_ph_cons, Hb, IH by done.
    simpl. rewrite <- app_assoc. reflexivity.
Qed.

Lemma lexs_valueq_end acc rest :
  not_next (λ b, b =? quote) rest →
  lex_go MValueQ acc rest = TValue (rev acc) :: lex_go MText [] rest.
Proof.
  destruct rest as [|c rest']; [reflexivity|]. intros Hc. simpl in Hc.
  rewrite lexs_valueq_cons, Hc, lexs_text_cons. reflexivity.
Qed.

Lemma lexs_value_run body :
  ValueBody body → ∀ acc rest, not_next (λ b, b =? quote) rest →
  lex_go MValue acc (body ++ quote :: rest) =
  TValue (rev acc ++ body ++ [quote]) :: lex_go MText [] rest.
Proof.
  induction 1 as [|b r Hb HV IH|r HV IH]; intros acc rest Hnext.
  - change ([] ++ quote :: rest) with (quote :: rest).
    rewrite lexs_value_cons, N.eqb_refl, lexs_valueq_end by done. reflexivity.
  - change ((b :: r) ++ quote :: rest) with (b :: (r ++ quote :: rest)).
    rewrite lexs_value_cons. destruct (N.eqb_spec b quote) as [Heq|_]; [done|].
    rewrite IH by done. simpl. rewrite <- app_assoc. reflexivity.
  - change ((quote :: quote :: r) ++ quote :: rest) with (quote :: quote :: (r ++ quote :: rest)).
    rewrite lexs_value_cons, N.eqb_refl, lexs_valueq_cons, N.eqb_refl, IH by done.
    simpl. rewrite <- !app_assoc. reflexivity.
Qed.

(** A value whose closing quote is missing. *)
Lemma lexs_value_open s : ValueBody s → ∀ acc, lex_go MValue acc s = [TError].
Proof.
  induction 1 as [|b r Hb HV IH|r HV IH]; intros acc.
  - reflexivity.
  - rewrite lexs_value_cons. destruct (N.eqb_spec b quote) as [Heq|_]; [done|]. apply IH.
  - rewrite lexs_value_cons, N.eqb_refl, lexs_valueq_cons, N.eqb_refl. apply IH.
Qed.

(** * Text position: which byte starts what *)
Lemma single_tok_none_alpha b : is_alpha b = true → single_tok b = None.
Proof.
  unfold is_alpha, is_upper, is_lower, single_tok. intros Ha.
  repeat match goal with
         | |- context [b =? ?k] => destruct (N.eqb_spec b k) as [Hk|_]; [lia|]
         end.
  reflexivity.
Qed.

Lemma alpha_not_ws b : is_alpha b = true → is_ws b = false.
Proof. unfold is_alpha, is_upper, is_lower, is_ws. lia. Qed.

Lemma text_step_alpha b s : is_alpha b = true → text_step b s = lex_go MField [b] s.
Proof.
  intros Ha. unfold text_step.
  rewrite (alpha_not_ws b Ha), (single_tok_none_alpha b Ha), Ha. reflexivity.
Qed.

Lemma text_step_ws b s : is_ws b = true → text_step b s = lex_go MText [] s.
Proof. intros Hw. unfold text_step. rewrite Hw. reflexivity. Qed.

Lemma single_tok_lexeme b t : single_tok b = Some t → Lexeme t [b].
Proof.
  unfold single_tok. intros Hs.
  repeat match type of Hs with
         | (if ?b =? ?k then _ else _) = _ => destruct (N.eqb_spec b k) as [Hk|_]
         end; try discriminate; inversion Hs; subst; constructor.
Qed.

Lemma single_tok_follow b t rest : single_tok b = Some t → follow_ok t rest.
Proof.
  unfold single_tok. intros Hs.
  repeat match type of Hs with
         | (if ?c then _ else _) = _ => destruct c
         end; try discriminate; inversion Hs; subst; exact I.
Qed.

(** * Completeness: a tokenisation according to the specification is what the lexer yields *)
Lemma lexs_lexeme t l rest :
  Lexeme t l → follow_ok t rest → lex_go MText [] (l ++ rest) = t :: lex_go MText [] rest.
Proof.
  intros HL HF. destruct HL as [| | | | | | | |c Hc|ds Hds|body Hb].
  1-8: reflexivity.
  - destruct c as [|b r]; [done|]. simpl in Hc. apply andb_prop in Hc as [Ha Hr].
    change ((b :: r) ++ rest) with (b :: (r ++ rest)).
    rewrite lexs_text_cons, (text_step_alpha b _ Ha).
    apply (lexs_field_run r [b] rest Hr HF).
  - change ((dollar :: ds) ++ rest) with (dollar :: (ds ++ rest)).
    rewrite lexs_text_cons. change (text_step dollar (ds ++ rest)) with (lex_go MPh [dollar] (ds ++ rest)).
    apply (lexs_ph_run ds [dollar] rest Hds HF).
  - change ((quote :: body ++ [quote]) ++ rest) with (quote :: ((body ++ [quote]) ++ rest)).
    rewrite <- app_assoc. change ([quote] ++ rest) with (quote :: rest).
    rewrite lexs_text_cons.
    change (text_step quote (body ++ quote :: rest))
      with (lex_go MValue [quote] (body ++ quote :: rest)).
    apply (lexs_value_run body Hb [quote] rest HF).
Qed.

Theorem lex_spec_complete s ts : Tokens s ts → lex s = ts ++ [TEOF].
Proof.
  unfold lex. induction 1 as [|b s ts Hw HT IH|t l rest ts HL HF HT IH].
  - reflexivity.
  - rewrite lexs_text_cons, text_step_ws by done. exact IH.
  - rewrite (lexs_lexeme t l rest HL HF), IH. reflexivity.
Qed.

Corollary Tokens_functional s ts1 ts2 : Tokens s ts1 → Tokens s ts2 → ts1 = ts2.
Proof.
  intros H1 H2. apply lex_spec_complete in H1. apply lex_spec_complete in H2.
  rewrite H1 in H2. by apply app_inj_tail in H2 as [-> _].
Qed.

(** * Decomposition of arbitrary inputs (pure list facts) *)
Lemma span_run (p : N → bool) s :
  ∃ more rest, s = more ++ rest ∧ forallb p more = true ∧ not_next p rest ∧
               (length rest ≤ length s)%nat.
Proof.
  induction s as [|b s IH].
  - exists [], []. simpl. auto.
  - destruct (p b) eqn:Hp.
    + destruct IH as (more & rest & Heq & Hall & Hnext & Hlen).
      exists (b :: more), rest. subst s. simpl. rewrite Hp, Hall. repeat split; auto; lia.
    + exists [], (b :: s). simpl. auto.
Qed.

Lemma value_decomp n : ∀ s, (length s ≤ n)%nat →
  ValueBody s ∨
  ∃ body rest, s = body ++ quote :: rest ∧ ValueBody body ∧ not_next (λ b, b =? quote) rest.
Proof.
  induction n as [|n IH]; intros s Hlen.
  - destruct s; [|simpl in Hlen; lia]. left. constructor.
  - destruct s as [|b s']; [left; constructor|]. simpl in Hlen.
    destruct (N.eqb_spec b quote) as [->|Hb].
    + destruct s' as [|c s''].
      * right. exists [], []. split; [reflexivity|]. split; [constructor|exact I].
      * destruct (N.eqb_spec c quote) as [->|Hc].
        -- simpl in Hlen. destruct (IH s'') as [HV|(body & rest & -> & HV & Hnext)]; [lia| |].
           ++ left. by constructor.
           ++ right. exists (quote :: quote :: body), rest.
              split; [reflexivity|]. split; [by constructor|done].
        -- right. exists [], (c :: s''). split; [reflexivity|]. split; [constructor|].
           simpl. by apply N.eqb_neq.
    + destruct (IH s') as [HV|(body & rest & -> & HV & Hnext)]; [lia| |].
      * left. by constructor.
      * right. exists (b :: body), rest. split; [reflexivity|]. split; [by constructor|done].
Qed.

(** * Soundness: what the lexer yields is a tokenisation according to the specification *)
Lemma cons_eq_snoc (t e : tok) l ts :
  t :: l = ts ++ [e] → t ≠ e → ∃ ts', ts = t :: ts' ∧ l = ts' ++ [e].
Proof.
  intros Heq Hne. destruct ts as [|t0 ts']; simpl in Heq.
  - injection Heq as Ht _. done.
  - injection Heq as -> ->. eauto.
Qed.

Lemma Lexeme_plain t l : Lexeme t l → plain_tok t.
Proof. intros []; split; discriminate. Qed.

(** The three ways the lexer leaves text position into a multi-byte lexeme, decomposed. *)
Lemma text_field b s' :
  is_alpha b = true →
  ∃ more rest, s' = more ++ rest ∧ (length rest ≤ length s')%nat ∧
    Lexeme (TField (b :: more)) (b :: more) ∧ follow_ok (TField (b :: more)) rest ∧
    lex_go MText [] (b :: s') = TField (b :: more) :: lex_go MText [] rest.
Proof.
  intros Ha. destruct (span_run is_ident s') as (more & rest & Heq & Hall & Hnext & Hlen).
  assert (Lexeme (TField (b :: more)) (b :: more)) as HL.
  { constructor. simpl. by rewrite Ha, Hall. }
  exists more, rest. repeat split; try done.
  rewrite Heq. apply (lexs_lexeme _ (b :: more) rest HL Hnext).
Qed.

Lemma text_ph s' :
  ∃ more rest, s' = more ++ rest ∧ (length rest ≤ length s')%nat ∧
    Lexeme (TPh (dollar :: more)) (dollar :: more) ∧ follow_ok (TPh (dollar :: more)) rest ∧
    lex_go MText [] (dollar :: s') = TPh (dollar :: more) :: lex_go MText [] rest.
Proof.
  destruct (span_run is_digit s') as (more & rest & Heq & Hall & Hnext & Hlen).
  assert (Lexeme (TPh (dollar :: more)) (dollar :: more)) as HL by by constructor.
  exists more, rest. repeat split; try done.
  rewrite Heq. apply (lexs_lexeme _ (dollar :: more) rest HL Hnext).
Qed.

Lemma text_value s' :
  (ValueBody s' ∧ lex_go MText [] (quote :: s') = [TError]) ∨
  ∃ body rest, s' = body ++ quote :: rest ∧ (length rest < length s')%nat ∧
    Lexeme (TValue (quote :: body ++ [quote])) (quote :: body ++ [quote]) ∧
    follow_ok (TValue (quote :: body ++ [quote])) rest ∧
    lex_go MText [] (quote :: s') = TValue (quote :: body ++ [quote]) :: lex_go MText [] rest.
Proof.
  destruct (value_decomp (length s') s') as [HV|(body & rest & Heq & HV & Hnext)]; [done| |].
  - left. split; [done|]. rewrite lexs_text_cons. apply (lexs_value_open s' HV [quote]).
  - right. assert (Lexeme (TValue (quote :: body ++ [quote])) (quote :: body ++ [quote])) as HL
      by by constructor.
    exists body, rest. repeat split; try done.
    + rewrite Heq, app_length. simpl. lia.
    + rewrite Heq. rewrite <- (lexs_lexeme _ _ rest HL Hnext).
      simpl. rewrite <- app_assoc. reflexivity.
Qed.

(** The classification of a byte in text position. *)
Inductive text_class (b : N) : Prop :=
| TC_ws : is_ws b = true → text_class b
| TC_single t : is_ws b = false → single_tok b = Some t → text_class b
| TC_alpha : is_ws b = false → single_tok b = None → is_alpha b = true → text_class b
| TC_quote : b = quote → text_class b
| TC_dollar : b = dollar → text_class b
| TC_unknown :
    is_ws b = false → single_tok b = None → is_alpha b = false → b ≠ quote → b ≠ dollar →
    text_class b.

Lemma text_classify b : text_class b.
Proof.
  destruct (is_ws b) eqn:Hw; [by apply TC_ws|].
  destruct (single_tok b) as [t|] eqn:Hs; [by eapply TC_single|].
  destruct (is_alpha b) eqn:Ha; [by apply TC_alpha|].
  destruct (N.eqb_spec b quote) as [Hq|Hq]; [by apply TC_quote|].
  destruct (N.eqb_spec b dollar) as [Hd|Hd]; [by apply TC_dollar|].
  by apply TC_unknown.
Qed.

Lemma text_step_single b t s : is_ws b = false → single_tok b = Some t →
  text_step b s = t :: lex_go MText [] s.
Proof. intros Hw Hs. unfold text_step. rewrite Hw, Hs. reflexivity. Qed.

Lemma text_step_unknown b s :
  is_ws b = false → single_tok b = None → is_alpha b = false → b ≠ quote → b ≠ dollar →
  text_step b s = [TError].
Proof.
  intros Hw Hs Ha Hq Hd. unfold text_step. rewrite Hw, Hs, Ha.
  destruct (N.eqb_spec b quote) as [|_]; [done|].
  destruct (N.eqb_spec b dollar) as [|_]; [done|]. reflexivity.
Qed.

Lemma lex_go_sound n : ∀ s ts,
  (length s ≤ n)%nat → lex_go MText [] s = ts ++ [TEOF] → Tokens s ts.
Proof.
  induction n as [|n IH]; intros s ts Hlen Hlex.
  - destruct s; [|simpl in Hlen; lia]. simpl in Hlex.
    destruct ts as [|t0 [|t1 ts']]; try discriminate. constructor.
  - destruct s as [|b s'].
    { simpl in Hlex. destruct ts as [|t0 [|t1 ts']]; try discriminate. constructor. }
    simpl in Hlen.
    destruct (text_classify b) as [Hw|t Hw Hs|Hw Hs Ha|Hq|Hd|Hw Hs Ha Hq Hd].
    + rewrite lexs_text_cons, text_step_ws in Hlex by done.
      apply Tk_ws; [done|]. apply IH; [lia|done].
    + rewrite lexs_text_cons, (text_step_single b t) in Hlex by done.
      pose proof (single_tok_lexeme b t Hs) as HL.
      apply cons_eq_snoc in Hlex as (ts' & -> & Hlex); [|apply (Lexeme_plain _ _ HL)].
      apply (Tk_tok t [b] s' ts' HL); [by eapply single_tok_follow|].
      apply IH; [lia|done].
    + destruct (text_field b s' Ha) as (more & rest & Heq & Hl & HL & HF & Hrun).
      rewrite Hrun in Hlex.
      apply cons_eq_snoc in Hlex as (ts' & -> & Hlex); [|discriminate].
      rewrite Heq. apply (Tk_tok _ (b :: more) rest ts' HL HF). apply IH; [lia|done].
    + subst b. destruct (text_value s') as [[_ Herr]|(body & rest & Heq & Hl & HL & HF & Hrun)].
      * rewrite Herr in Hlex. destruct ts as [|t0 [|t1 ts']]; discriminate.
      * rewrite Hrun in Hlex.
        apply cons_eq_snoc in Hlex as (ts' & -> & Hlex); [|discriminate].
        rewrite Heq.
        replace (quote :: body ++ quote :: rest) with ((quote :: body ++ [quote]) ++ rest)
          by (simpl; rewrite <- app_assoc; reflexivity).
        apply (Tk_tok _ _ rest ts' HL HF). apply IH; [lia|done].
    + subst b. destruct (text_ph s') as (more & rest & Heq & Hl & HL & HF & Hrun).
      rewrite Hrun in Hlex.
      apply cons_eq_snoc in Hlex as (ts' & -> & Hlex); [|discriminate].
      rewrite Heq. apply (Tk_tok _ (dollar :: more) rest ts' HL HF). apply IH; [lia|done].
    + rewrite lexs_text_cons, text_step_unknown in Hlex by done.
      destruct ts as [|t0 [|t1 ts']]; discriminate.
Qed.

Theorem lex_spec_sound s ts : lex s = ts ++ [TEOF] → Tokens s ts.
Proof. apply (lex_go_sound (length s)). done. Qed.

Theorem lex_spec s ts : lex s = ts ++ [TEOF] ↔ Tokens s ts.
Proof. split; [apply lex_spec_sound | apply lex_spec_complete]. Qed.

(** * Lexical errors *)
Lemma lex_go_error_sound n : ∀ s ts,
  (length s ≤ n)%nat → lex_go MText [] s = ts ++ [TError] → LexError s.
Proof.
  induction n as [|n IH]; intros s ts Hlen Hlex.
  - destruct s; [|simpl in Hlen; lia]. simpl in Hlex.
    destruct ts as [|t0 [|t1 ts']]; discriminate.
  - destruct s as [|b s'].
    { simpl in Hlex. destruct ts as [|t0 [|t1 ts']]; discriminate. }
    simpl in Hlen.
    destruct (text_classify b) as [Hw|t Hw Hs|Hw Hs Ha|Hq|Hd|Hw Hs Ha Hq Hd].
    + rewrite lexs_text_cons, text_step_ws in Hlex by done.
      apply LE_ws; [done|]. apply (IH s' ts); [lia|done].
    + rewrite lexs_text_cons, (text_step_single b t) in Hlex by done.
      pose proof (single_tok_lexeme b t Hs) as HL.
      apply cons_eq_snoc in Hlex as (ts' & -> & Hlex); [|apply (Lexeme_plain _ _ HL)].
      apply (LE_tok t [b] s' HL); [by eapply single_tok_follow|].
      apply (IH s' ts'); [lia|done].
    + destruct (text_field b s' Ha) as (more & rest & Heq & Hl & HL & HF & Hrun).
      rewrite Hrun in Hlex.
      apply cons_eq_snoc in Hlex as (ts' & -> & Hlex); [|discriminate].
      rewrite Heq. apply (LE_tok _ (b :: more) rest HL HF). apply (IH rest ts'); [lia|done].
    + subst b. destruct (text_value s') as [[HV _]|(body & rest & Heq & Hl & HL & HF & Hrun)].
      * by apply LE_unterminated.
      * rewrite Hrun in Hlex.
        apply cons_eq_snoc in Hlex as (ts' & -> & Hlex); [|discriminate].
        rewrite Heq.
        replace (quote :: body ++ quote :: rest) with ((quote :: body ++ [quote]) ++ rest)
          by (simpl; rewrite <- app_assoc; reflexivity).
        apply (LE_tok _ _ rest HL HF). apply (IH rest ts'); [lia|done].
    + subst b. destruct (text_ph s') as (more & rest & Heq & Hl & HL & HF & Hrun).
      rewrite Hrun in Hlex.
      apply cons_eq_snoc in Hlex as (ts' & -> & Hlex); [|discriminate].
      rewrite Heq. apply (LE_tok _ (dollar :: more) rest HL HF). apply (IH rest ts'); [lia|done].
    + by apply LE_unknown.
Qed.

Lemma lex_go_error_complete s : LexError s → ∃ ts, lex_go MText [] s = ts ++ [TError].
Proof.
  induction 1 as [b s Hw HE IH|t l rest HL HF HE IH|b s Hw Hs Ha Hq Hd|s HV].
  - destruct IH as (ts & IH). exists ts. by rewrite lexs_text_cons, text_step_ws.
  - destruct IH as (ts & IH). exists (t :: ts). rewrite (lexs_lexeme t l rest HL HF), IH. done.
  - exists []. by rewrite lexs_text_cons, text_step_unknown.
  - exists []. rewrite lexs_text_cons. apply (lexs_value_open s HV [quote]).
Qed.

(** The lexer reports an error exactly on the inputs described by [LexError]. *)
Theorem lex_error_spec s : (∃ ts, lex s = ts ++ [TError]) ↔ LexError s.
Proof.
  split.
  - intros (ts & Hlex). by apply (lex_go_error_sound (length s) s ts).
  - apply lex_go_error_complete.
Qed.

Theorem lex_error_iff s : (∃ ts, lex s = ts ++ [TError]) ↔ ¬ ∃ ts, Tokens s ts.
Proof.
  split.
  - intros (ts & Herr) (ts' & HT). apply lex_spec_complete in HT. rewrite HT in Herr.
    by apply app_inj_tail in Herr as [_ [=]].
  - intros Hno. destruct (lex_shape s) as (ts & t & Hlex & [->| ->] & _).
    + destruct Hno. exists ts. by apply lex_spec_sound.
    + by exists ts.
Qed.

(** Every input is either tokenisable or a lexical error, never both. *)
Corollary LexError_iff s : LexError s ↔ ¬ ∃ ts, Tokens s ts.
Proof. rewrite <- lex_error_spec. apply lex_error_iff. Qed.

Corollary Tokens_or_LexError s : (∃ ts, Tokens s ts) ∨ LexError s.
Proof.
  destruct (lex_shape s) as (ts & t & Hlex & [->| ->] & _).
  - left. exists ts. by apply lex_spec_sound.
  - right. apply lex_error_spec. by exists ts.
Qed.

(** * The byte-level theorems, without the lexer function *)
Theorem parse_query_spec s q :
  parse_query s = Ok q ↔ ∃ ts, Tokens s ts ∧ G_query ts q.
Proof.
  rewrite parse_query_ok_iff. split; intros (ts & Hlex & HG); exists ts; split; try done.
  - by apply lex_spec_sound.
  - by apply lex_spec_complete.
Qed.

Theorem parse_query_reject s :
  parse_query s = Err ↔ ¬ ∃ ts q, Tokens s ts ∧ G_query ts q.
Proof.
  split.
  - intros Herr (ts & q & HT & HG).
    assert (parse_query s = Ok q) as Hok by (apply parse_query_spec; eauto).
    rewrite Herr in Hok. discriminate.
  - intros Hno. destruct (parse_query s) as [q| | |] eqn:Hp.
    + destruct Hno. apply parse_query_spec in Hp as (ts & HT & HG). eauto.
    + reflexivity.
    + by destruct (parse_query_total s) as [Hpanic _].
    + by destruct (parse_query_total s) as [_ Hhang].
Qed.

(** The parse result is determined by the specification alone. *)
Corollary parse_query_spec_functional s ts1 ts2 q1 q2 :
  Tokens s ts1 → G_query ts1 q1 → Tokens s ts2 → G_query ts2 q2 → q1 = q2.
Proof.
  intros HT1 HG1 HT2 HG2. rewrite (Tokens_functional s ts1 ts2 HT1 HT2) in HG1.
  by eapply G_query_deterministic.
Qed.

(** * Non-vacuity *)
(* In the comments ' stands for the double-quote byte 34. *)
(* a = 'x''y' & ^b=$2 *)
Definition ex_bytes : str :=
  [97;32;61;32;34;120;34;34;121;34;32;38;32;94;98;61;36;50].
Definition ex_toks : list tok :=
  [TField [97]; TEq; TValue [34;120;34;34;121;34]; TAnd; TNot; TField [98]; TEq; TPh [36;50]].

(* via the lexer *)
Example ex_tokens : Tokens ex_bytes ex_toks.
Proof. apply lex_spec_sound. vm_compute. reflexivity. Qed.

(* by explicit derivation *)
Example ex_tokens_derived : Tokens ex_bytes ex_toks.
Proof.
  unfold ex_bytes, ex_toks.
  apply (Tk_tok (TField [97]) [97]); [by apply Lx_field | reflexivity |].
  apply Tk_ws; [reflexivity|].
  apply (Tk_tok TEq [61]); [apply Lx_eq | exact I |].
  apply Tk_ws; [reflexivity|].
  apply (Tk_tok _ (quote :: [120;34;34;121] ++ [quote])); [| reflexivity |].
  { apply (Lx_value [120;34;34;121]). apply VB_byte; [discriminate|]. apply VB_qq.
    apply VB_byte; [discriminate|]. apply VB_nil. }
  apply Tk_ws; [reflexivity|].
  apply (Tk_tok TAnd [38]); [apply Lx_and | exact I |].
  apply Tk_ws; [reflexivity|].
  apply (Tk_tok TNot [94]); [apply Lx_not | exact I |].
  apply (Tk_tok (TField [98]) [98]); [by apply Lx_field | reflexivity |].
  apply (Tk_tok TEq [61]); [apply Lx_eq | exact I |].
  apply (Tk_tok (TPh [36;50]) [36;50] []); [by apply (Lx_ph [50]) | exact I |].
  apply Tk_nil.
Qed.

Example ex_parse :
  ∃ ts, Tokens ex_bytes ts ∧
        G_query ts (PQuery (PAnd [PEq [97] [120;34;121] 0; PNot (PEq [98] [] 2)]) []).
Proof. apply parse_query_spec. vm_compute. reflexivity. Qed.

(* a lone dollar is a placeholder token (which the grammar then rejects) *)
Example ex_lone_dollar : Tokens [97;61;36] [TField [97]; TEq; TPh [36]].
Proof. apply lex_spec_sound. vm_compute. reflexivity. Qed.

Example ex_lone_dollar_rejected : ¬ ∃ ts q, Tokens [97;61;36] ts ∧ G_query ts q.
Proof. apply parse_query_reject. vm_compute. reflexivity. Qed.

(* maximal munch: ab is one field, never two *)
Example ex_munch : ¬ Tokens [97;98] [TField [97]; TField [98]].
Proof.
  intros HT. assert (Tokens [97;98] [TField [97;98]]) as HT'
    by (apply lex_spec_sound; vm_compute; reflexivity).
  pose proof (Tokens_functional _ _ _ HT HT') as Heq. discriminate.
Qed.

(* a # b : unknown byte;  a='x : unterminated value;  a=''' : a doubled quote, then the end *)
Example ex_unknown_byte : LexError [97;32;35;32;98].
Proof. apply lex_error_spec. exists [TField [97]]. vm_compute. reflexivity. Qed.

Example ex_unterminated_value : ¬ ∃ ts, Tokens [97;61;34;120] ts.
Proof. apply lex_error_iff. exists [TField [97]; TEq]. vm_compute. reflexivity. Qed.

Example ex_unterminated_doubled : LexError [97;61;34;34;34].
Proof.
  apply (LE_tok (TField [97]) [97]); [by apply Lx_field | reflexivity |].
  apply (LE_tok TEq [61]); [apply Lx_eq | exact I |].
  apply LE_unterminated. apply VB_qq. apply VB_nil.
Qed.

Print Assumptions lex_spec_sound.
Print Assumptions lex_spec_complete.
Print Assumptions Tokens_functional.
Print Assumptions lex_error_iff.
Print Assumptions lex_error_spec.
Print Assumptions parse_query_reject.
Print Assumptions parse_query_spec.

(** Models of the adapters around the library: the Query value with its hidden scratch state
    (query.go, C08), conversion between wire and library types (internal/convert), the sql
    driver's statement path and result rows (driver/driver.go, C11/C12), and the gRPC batch
    handler (cmd/updog/server.go, C13/C14).  No proofs in this file. *)
From updog Require Import Prelude Index QParser.
Local Open Scope N_scope.

Section WithHash.
Context (H : list N → N).

(** * C08: a Query value executed repeatedly *)

(** [qv_hidden] is [Query.groupByFields]: the group-by columns resolved against the schema of
    the index of the previous execution. *)
Record qval := QVal {
  qv_expr : expr;
  qv_group_by : list str;
  qv_hidden : list (str * list (str * N))
}.

(** [populateGroupBy] appends the resolved columns one by one and stops at the first unknown
    column (what was resolved so far stays in the Query). *)
Fixpoint populate_into (sch : schema) (cols : list str) (acc : list (str * list (str * N)))
  : bool * list (str * list (str * N)) :=
  match cols with
  | [] => (true, acc)
  | c :: cols' =>
      match gb_column sch c with
      | None => (false, acc)
      | Some g => populate_into sch cols' (acc ++ [g])
      end
  end.

(** [Index.Execute] on a Query value: the resolution starts from an empty list on every
    execution. *)
Definition execute_q (ix : index) (q : qval) : outcome result * qval :=
  let '(ok, hidden) := populate_into (ix_schema ix) (qv_group_by q) [] in
  let q' := QVal (qv_expr q) (qv_group_by q) hidden in
  if ok then
    (out_bind (eval H ix (qv_expr q)) (λ b, Ok (Result (bm_card b) (group_by ix hidden b))), q')
  else (Err, q').

(** The pinned (unrepaired) behaviour: the list of the previous execution is kept and
    extended.  Only used to state what the repair removed. *)
Definition execute_q_pinned (ix : index) (q : qval) : outcome result * qval :=
  let '(ok, hidden) := populate_into (ix_schema ix) (qv_group_by q) (qv_hidden q) in
  let q' := QVal (qv_expr q) (qv_group_by q) hidden in
  if ok then
    (out_bind (eval H ix (qv_expr q)) (λ b, Ok (Result (bm_card b) (group_by ix hidden b))), q')
  else (Err, q').

(** The same Query value executed on a sequence of indexes. *)
Fixpoint run_q (q : qval) (ixs : list index) : list (outcome result) * qval :=
  match ixs with
  | [] => ([], q)
  | ix :: ixs' => let '(r, q1) := execute_q ix q in
                  let '(rs, q2) := run_q q1 ixs' in (r :: rs, q2)
  end.

Fixpoint run_q_pinned (q : qval) (ixs : list index) : list (outcome result) * qval :=
  match ixs with
  | [] => ([], q)
  | ix :: ixs' => let '(r, q1) := execute_q_pinned ix q in
                  let '(rs, q2) := run_q_pinned q1 ixs' in (r :: rs, q2)
  end.

(** * Conversion (convert.go) *)

(** [ToQuery]/[toExpr] on a complete tree: the placeholder number is dropped. *)
Fixpoint to_expr (e : pexpr) : expr :=
  match e with
  | PEq c v _ => Eq c v
  | PNot e' => Not (to_expr e')
  | PAnd es => And (map to_expr es)
  | POr es => Or (map to_expr es)
  end.

Definition to_query (q : pquery) : query := Query (to_expr (pq_expr q)) (pq_group_by q).

(** * C12: result → rows (driver.go newRows and the rows methods) *)
Inductive cell := CText (s : str) | CInt (n : N).
Inductive ctype := TText | TBigint.
Record rowset := RowSet { rs_cols : list str; rs_types : list ctype; rs_rows : list (list cell) }.

Definition count_name : str := [99; 111; 117; 110; 116].   (* "count" *)

(** One row per group when there is a group-by clause (none if no group matched); without a
    group-by clause exactly one row holding the total count. *)
Definition rows_of (r : result) (group_by : list str) : rowset :=
  RowSet (group_by ++ [count_name])
         (map (λ _, TText) group_by ++ [TBigint])
         (match group_by with
          | [] => [[CInt (r_count r)]]
          | _ => map (λ g : list field * N, map (λ f : field, CText f.2) g.1 ++ [CInt g.2]) (r_groups r)
          end).

(** The statement path of the file data source: parse, bind, convert, execute, rows. *)
Definition stmt_query (ix : index) (q : pquery) (args : list str) : outcome rowset :=
  out_bind (bind (pq_expr q) args)
           (λ e, out_map (λ r, rows_of r (pq_group_by q))
                         (execute H ix (Query (to_expr e) (pq_group_by q)))).

Definition sql_query (ix : index) (text : str) (args : list str) : outcome rowset :=
  out_bind (parse_query text) (λ q, stmt_query ix q args).

(** database/sql's Prepare path: the library itself rejects a call whose argument count
    differs from [NumInput] (documented behaviour of database/sql, assumed). *)
Definition prepared_query (ix : index) (text : str) (args : list str) : outcome rowset :=
  out_bind (parse_query text)
           (λ q, if max_ph (pq_expr q) =? N.of_nat (length args) then stmt_query ix q args else Err).

(** * C13/C14: the wire format and the batch handler *)

(** Exactly the shapes [proto.Unmarshal] can produce: a set [oneof] member is never nil,
    repeated elements are never nil, but any message field may be absent. *)
Inductive wexpr :=
| WUnset                                   (* Expression without a value *)
| WEq (c v : str) (ph : N)
| WNot (e : option wexpr)
| WAnd (es : list wexpr)
| WOr (es : list wexpr).

Record wquery := WQuery { wq_id : Z; wq_expr : option wexpr; wq_group_by : list str }.
Record wresult := WResult { wr_id : Z; wr_count : N; wr_groups : list (list field * N) }.

(** [toExpr] tolerates every omission; an incomplete tree is rejected by [Execute] with an
    error before anything is evaluated.  [None] = the tree has a hole somewhere. *)
Fixpoint wire_expr (e : wexpr) : option expr :=
  match e with
  | WUnset => None
  | WEq c v _ => Some (Eq c v)
  | WNot None => None
  | WNot (Some e') => match wire_expr e' with Some x => Some (Not x) | None => None end
  | WAnd es =>
      match (fix go (es : list wexpr) : option (list expr) :=
               match es with
               | [] => Some []
               | e1 :: es' => match wire_expr e1, go es' with
                              | Some x, Some xs => Some (x :: xs)
                              | _, _ => None
                              end
               end) es with
      | Some xs => Some (And xs)
      | None => None
      end
  | WOr es =>
      match (fix go (es : list wexpr) : option (list expr) :=
               match es with
               | [] => Some []
               | e1 :: es' => match wire_expr e1, go es' with
                              | Some x, Some xs => Some (x :: xs)
                              | _, _ => None
                              end
               end) es with
      | Some xs => Some (Or xs)
      | None => None
      end
  end.

Definition serve_one (ix : index) (pos : nat) (q : wquery) : outcome wresult :=
  match wq_expr q with
  | None => Err
  | Some we =>
      match wire_expr we with
      | None => Err
      | Some e =>
          out_map (λ r, WResult (if (wq_id q =? 0)%Z then Z.of_nat (S pos) else wq_id q) (r_count r) (r_groups r))
                  (execute H ix (Query e (wq_group_by q)))
      end
  end.

(** [server.Query]: queries are answered in order; the first error aborts the whole call. *)
Fixpoint serve_from (ix : index) (pos : nat) (qs : list wquery) : outcome (list wresult) :=
  match qs with
  | [] => Ok []
  | q :: qs' => out_bind (serve_one ix pos q) (λ r, out_map (cons r) (serve_from ix (S pos) qs'))
  end.
Definition serve (ix : index) (qs : list wquery) : outcome (list wresult) := serve_from ix 0 qs.

(** A wire query made from a parsed, bound query (what the sql driver's grpc path sends). *)
Fixpoint to_wire (e : pexpr) : wexpr :=
  match e with
  | PEq c v ph => WEq c v ph
  | PNot e' => WNot (Some (to_wire e'))
  | PAnd es => WAnd (map to_wire es)
  | POr es => WOr (map to_wire es)
  end.

(** [ToProtobufResult] then [ToResult]. *)
Definition result_of_wire (w : wresult) : result := Result (wr_count w) (wr_groups w).

(** The grpc statement path: one query per request, exactly one result expected. *)
Definition grpc_stmt_query (ix : index) (q : pquery) (args : list str) : outcome rowset :=
  out_bind (bind (pq_expr q) args)
           (λ e, match serve ix [WQuery 0 (Some (to_wire e)) (pq_group_by q)] with
                 | Ok [w] => Ok (rows_of (result_of_wire w) (pq_group_by q))
                 | Ok _ => Err
                 | Err => Err | Panic => Panic | Hang => Hang
                 end).

End WithHash.

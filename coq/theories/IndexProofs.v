(** Proofs about the data-plane model: the writer/flush/open/eval pipeline computes the
    row-scan specification (C01), both writers agree (C05), group-by (C02). *)
From updog Require Import Prelude Index.
From stdpp Require Import mapset.
From Coq Require Import ZifyN ZifyNat ZifyBool.
Local Open Scope N_scope.

(** * Bitmaps *)

Lemma bm_add_union x (b : bitmap) : bm_add x b = {[x]} ∪ b.
Proof.
  destruct b as [m]. unfold bm_add. unfold union, singleton. simpl.
  unfold gset_union, gset_singleton, mapset_union, mapset_singleton. simpl.
  f_equal. apply insert_union_singleton_l.
Qed.

Lemma elem_of_bm_add x y (b : bitmap) : y ∈ bm_add x b ↔ y = x ∨ y ∈ b.
Proof. rewrite bm_add_union. set_solver. Qed.

Lemma elem_of_bm_of_list x l : x ∈ bm_of_list l ↔ x ∈ l.
Proof.
  induction l as [|y l IH]; simpl; [set_solver|].
  rewrite elem_of_bm_add, IH, elem_of_cons. done.
Qed.

Lemma elem_of_range_from x start len :
  x ∈ range_from start len ↔ start ≤ x < start + N.of_nat len.
Proof.
  revert start; induction len as [|len IH]; intros start; simpl.
  - rewrite elem_of_nil. lia.
  - rewrite elem_of_cons, IH. lia.
Qed.

Lemma elem_of_N_range x n : x ∈ N_range n ↔ x < n.
Proof. unfold N_range. rewrite elem_of_range_from. lia. Qed.

Lemma elem_of_bm_flip x (b : bitmap) n :
  x ∈ bm_flip b n ↔ (x < n ∧ x ∉ b) ∨ (n ≤ x ∧ x ∈ b).
Proof.
  unfold bm_flip. rewrite elem_of_union, elem_of_difference, elem_of_bm_of_list, elem_of_N_range.
  rewrite elem_of_filter. tauto.
Qed.

Lemma elem_of_foldl_inter x (b : bitmap) bs :
  x ∈ foldl (∩) b bs ↔ x ∈ b ∧ Forall (λ b', x ∈ b') bs.
Proof.
  revert b; induction bs as [|b' bs IH]; intros b; simpl.
  - rewrite Forall_nil. tauto.
  - rewrite IH, Forall_cons, elem_of_intersection. tauto.
Qed.

Lemma elem_of_fast_and x bs : bs ≠ [] → x ∈ fast_and bs ↔ Forall (λ b, x ∈ b) bs.
Proof.
  destruct bs as [|b bs]; [done|]. intros _. simpl.
  rewrite elem_of_foldl_inter, Forall_cons. done.
Qed.

Lemma elem_of_foldl_union x (b : bitmap) bs :
  x ∈ foldl (∪) b bs ↔ x ∈ b ∨ Exists (λ b', x ∈ b') bs.
Proof.
  revert b; induction bs as [|b' bs IH]; intros b; simpl.
  - rewrite Exists_nil. tauto.
  - rewrite IH, Exists_cons, elem_of_union. tauto.
Qed.

Lemma elem_of_fast_or x bs : x ∈ fast_or bs ↔ Exists (λ b, x ∈ b) bs.
Proof. unfold fast_or. rewrite elem_of_foldl_union. set_solver. Qed.

Lemma bm_is_empty_spec (b : bitmap) : bm_is_empty b = true ↔ b = ∅.
Proof. unfold bm_is_empty. apply bool_decide_eq_true. Qed.

(** * A custom induction principle for the nested expression type *)
Lemma expr_ind' (P : expr → Prop) :
  (∀ c v, P (Eq c v)) →
  (∀ e, P e → P (Not e)) →
  (∀ es, Forall P es → P (And es)) →
  (∀ es, Forall P es → P (Or es)) →
  ∀ e, P e.
Proof.
  intros HEq HNot HAnd HOr. fix IH 1. intros [c v|e|es|es].
  - apply HEq.
  - apply HNot, IH.
  - apply HAnd. induction es as [|e es IHes]; constructor; [apply IH|apply IHes].
  - apply HOr. induction es as [|e es IHes]; constructor; [apply IH|apply IHes].
Qed.

(** * The content of a dataset *)

(** Row [i] was added with value [v] for column [c]. *)
Definition has_pair (rows : list row) (i : N) (c v : str) : Prop :=
  ∃ r, rows !! N.to_nat i = Some r ∧ (c, v) ∈ r.

Lemma has_pair_snoc rows r i c v :
  has_pair (rows ++ [r]) i c v ↔
  has_pair rows i c v ∨ (i = N.of_nat (length rows) ∧ (c, v) ∈ r).
Proof.
  unfold has_pair. split.
  - intros (r' & Hl & Hin). apply lookup_app_Some in Hl as [Hl|[Hlen Hl]]; [left; eauto|].
    right. apply list_lookup_singleton_Some in Hl as [Hi ->]. split; [lia|done].
  - intros [(r' & Hl & Hin)|[-> Hin]].
    + exists r'. split; [|done]. by apply lookup_app_l_Some.
    + exists r. split; [|done]. rewrite Nat2N.id. by rewrite list_lookup_middle.
Qed.

Lemma has_pair_bound rows i c v : has_pair rows i c v → i < N.of_nat (length rows).
Proof. intros (r & Hl & _). apply lookup_lt_Some in Hl. lia. Qed.

Lemma elem_of_columns rows c : c ∈ columns rows ↔ ∃ r v, r ∈ rows ∧ (c, v) ∈ r.
Proof.
  unfold columns. rewrite elem_of_list_In, in_flat_map. split.
  - intros (r & Hr & Hc). apply elem_of_list_In in Hr, Hc.
    apply elem_of_list_fmap in Hc as ([c' v] & -> & Hin). eauto.
  - intros (r & v & Hr & Hin). exists r. rewrite <- !elem_of_list_In. split; [done|].
    apply elem_of_list_fmap. by exists (c, v).
Qed.

Lemma columns_snoc rows r c : c ∈ columns (rows ++ [r]) ↔ c ∈ columns rows ∨ c ∈ r.*1.
Proof.
  unfold columns. rewrite flat_map_app. simpl. rewrite app_nil_r, elem_of_app. done.
Qed.

Section WithHash.
Context (H : list N → N).
Notation vidx := (vidx H).

(** * The in-memory writer *)

(** What a writer state means: [WRep rows st]. *)
Record WRep (rows : list row) (sch : schema) (vals : gmap N bitmap) (next : N) : Prop := {
  wr_next : next = N.of_nat (length rows);
  wr_vals : ∀ h i, i ∈ default ∅ (vals !! h) ↔ ∃ c v, has_pair rows i c v ∧ vidx c v = h;
  wr_vals_nonempty : ∀ h b, vals !! h = Some b → b ≠ ∅;
  wr_cols : ∀ c, is_Some (sch !! c) ↔ c ∈ columns rows;
  wr_schema : ∀ c col, sch !! c = Some col →
              ∀ v h, col !! v = Some h ↔ (h = vidx c v ∧ ∃ i, has_pair rows i c v)
}.

Lemma WRep_init : WRep [] ∅ ∅ 0.
Proof.
  split.
  - done.
  - intros h i. rewrite lookup_empty. simpl. split; [set_solver|].
    intros (c & v & (r & Hl & _) & _). by rewrite lookup_nil in Hl.
  - intros h b. by rewrite lookup_empty.
  - intros c. rewrite lookup_empty. split; [by intros [? ?]|]. intros Hc. by apply elem_of_nil in Hc.
  - intros c col. by rewrite lookup_empty.
Qed.

(** Adding the pairs of one row: [pre] are the pairs already added, [r] the whole row. *)
Record WRepPartial (rows : list row) (pre : row) (sch : schema) (vals : gmap N bitmap) : Prop := {
  wp_vals : ∀ h i, i ∈ default ∅ (vals !! h) ↔
            (∃ c v, has_pair rows i c v ∧ vidx c v = h)
            ∨ (i = N.of_nat (length rows) ∧ ∃ c v, (c, v) ∈ pre ∧ vidx c v = h);
  wp_vals_nonempty : ∀ h b, vals !! h = Some b → b ≠ ∅;
  wp_cols : ∀ c, is_Some (sch !! c) ↔ c ∈ columns rows ∨ c ∈ pre.*1;
  wp_schema : ∀ c col, sch !! c = Some col →
              ∀ v h, col !! v = Some h ↔
                     (h = vidx c v ∧ ((∃ i, has_pair rows i c v) ∨ (c, v) ∈ pre))
}.

Lemma schema_add_lookup sch c v c' :
  schema_add H sch c v !! c' =
  if decide (c' = c) then
    Some (let col := default ∅ (sch !! c) in
          match col !! v with Some _ => col | None => <[v := vidx c v]> col end)
  else sch !! c'.
Proof.
  unfold schema_add. destruct (decide (c' = c)) as [->|Hne].
  - by rewrite lookup_insert.
  - by rewrite lookup_insert_ne.
Qed.

Lemma WRepPartial_step rows pre sch vals next cv :
  WRepPartial rows pre sch vals →
  let st' := w_add_pair H (N.of_nat (length rows)) (WState sch vals next) cv in
  WRepPartial rows (pre ++ [cv]) (w_schema st') (w_vals st') ∧ w_next st' = next.
Proof.
  intros [Hv Hne Hc Hs]. destruct cv as [c v]. simpl. split; [|done]. split.
  - intros h i. destruct (decide (h = vidx c v)) as [->|Hh].
    + rewrite lookup_insert. simpl. rewrite elem_of_bm_add, Hv. split.
      * intros [->|[?|[-> (c' & v' & Hin & Heq)]]]; [right|by left|right].
        -- split; [done|]. exists c, v. split; [|done]. apply elem_of_app. right. by left.
        -- split; [done|]. exists c', v'. split; [|done]. apply elem_of_app. by left.
      * intros [?|[-> (c' & v' & Hin & Heq)]]; [right; by left|].
        apply elem_of_app in Hin as [Hin|Hin]; [right; right; split; [done|]; eauto|].
        by left.
    + rewrite lookup_insert_ne by done. rewrite Hv. split.
      * intros [?|[-> (c' & v' & Hin & Heq)]]; [by left|right]. split; [done|].
        exists c', v'. split; [|done]. apply elem_of_app. by left.
      * intros [?|[-> (c' & v' & Hin & Heq)]]; [by left|right]. split; [done|].
        apply elem_of_app in Hin as [Hin|Hin]; [eauto|].
        apply elem_of_list_singleton in Hin. injection Hin as -> ->. congruence.
  - intros h b. destruct (decide (h = vidx c v)) as [->|Hh].
    + rewrite lookup_insert. intros [= <-]. rewrite bm_add_union. set_solver.
    + rewrite lookup_insert_ne by done. apply Hne.
  - intros c'. rewrite schema_add_lookup. rewrite fmap_app, elem_of_app. simpl.
    destruct (decide (c' = c)) as [->|Hne'].
    + split; [|by eauto]. intros _. right. right. by left.
    + rewrite Hc. rewrite elem_of_list_singleton. tauto.
  - intros c' col. rewrite schema_add_lookup. destruct (decide (c' = c)) as [->|Hne'].
    + intros [= <-]. intros v' h.
      destruct (sch !! c) as [col0|] eqn:Hcol0; simpl.
      * pose proof (Hs c col0 Hcol0) as Hs0.
        destruct (col0 !! v) as [h0|] eqn:Hv0.
        -- rewrite Hs0. rewrite elem_of_app, elem_of_list_singleton.
           split; [intros (-> & [?|?]); split; auto|].
           intros (-> & [?|[?|Heq]]); split; auto.
           injection Heq as ->. apply Hs0 in Hv0 as (_ & ?). done.
        -- destruct (decide (v' = v)) as [->|Hnv].
           ++ rewrite lookup_insert. rewrite elem_of_app, elem_of_list_singleton.
              split; [intros [= <-]; split; auto|]. by intros (-> & _).
           ++ rewrite lookup_insert_ne by done. rewrite Hs0.
              rewrite elem_of_app, elem_of_list_singleton.
              split; [intros (-> & [?|?]); split; auto|].
              intros (-> & [?|[?|Heq]]); split; auto. congruence.
      * assert (c ∉ columns rows ∧ c ∉ pre.*1) as [Hn1 Hn2].
        { split; intros Hin; assert (is_Some (sch !! c)) as [? ?] by (apply Hc; auto); congruence. }
        rewrite lookup_empty.
        destruct (decide (v' = v)) as [->|Hnv].
        -- rewrite lookup_insert. rewrite elem_of_app, elem_of_list_singleton.
           split; [intros [= <-]; split; auto|]. by intros (-> & _).
        -- rewrite lookup_insert_ne by done. rewrite lookup_empty.
           rewrite elem_of_app, elem_of_list_singleton. split; [done|].
           intros (-> & [(i & r & Hl & Hin)|[Hin|Heq]]).
           ++ exfalso. apply Hn1. apply elem_of_columns. exists r, v'. split; [|done].
              by apply elem_of_list_lookup_2 in Hl.
           ++ exfalso. apply Hn2. apply elem_of_list_fmap. by exists (c, v').
           ++ congruence.
    + intros Hcol v' h. rewrite (Hs c' col Hcol). rewrite elem_of_app, elem_of_list_singleton.
      split; [intros (-> & [?|?]); split; auto|].
      intros (-> & [?|[?|Heq]]); split; auto. congruence.
Qed.

Lemma WRepPartial_row rows (r pre : row) sch vals next :
  WRepPartial rows pre sch vals →
  let st' := foldl (w_add_pair H (N.of_nat (length rows))) (WState sch vals next) r in
  WRepPartial rows (pre ++ r) (w_schema st') (w_vals st') ∧ w_next st' = next.
Proof.
  revert pre sch vals. induction r as [|cv r IH]; intros pre sch vals HP; simpl.
  - by rewrite app_nil_r.
  - destruct (WRepPartial_step rows pre sch vals next cv HP) as [HP' Hn].
    remember (w_add_pair H (N.of_nat (length rows)) (WState sch vals next) cv) as st1.
    destruct st1 as [sch1 vals1 next1]. simpl in *. subst next1.
    specialize (IH (pre ++ [cv]) sch1 vals1 HP'). rewrite <- app_assoc in IH. apply IH.
Qed.

Lemma WRep_add_row rows r sch vals next :
  WRep rows sch vals next →
  let '(id, st') := w_add_row H (WState sch vals next) r in
  id = N.of_nat (length rows) ∧ WRep (rows ++ [r]) (w_schema st') (w_vals st') (w_next st').
Proof.
  intros [Hn Hv Hne Hc Hs]. unfold w_add_row. simpl. split; [done|].
  assert (WRepPartial rows [] sch vals) as HP.
  { split; [| done | |].
    - intros h i. rewrite Hv. split; [by left|]. intros [?|[_ (c & v & Hin & _)]]; [done|].
      by apply elem_of_nil in Hin.
    - intros c. rewrite Hc. simpl. rewrite elem_of_nil. tauto.
    - intros c col Hcol v h. rewrite (Hs c col Hcol). rewrite elem_of_nil. tauto. }
  subst next.
  destruct (WRepPartial_row rows r [] sch vals (N.of_nat (length rows)) HP) as [[Hv' Hne' Hc' Hs'] Hn'].
  simpl in *. split; simpl.
  - rewrite app_length. simpl. lia.
  - intros h i. rewrite Hv'. split.
    + intros [(c & v & Hp & Heq)|[-> (c & v & Hin & Heq)]]; exists c, v; (split; [|done]);
        apply has_pair_snoc; auto.
    + intros (c & v & Hp & Heq). apply has_pair_snoc in Hp as [Hp|[-> Hin]]; [left|right]; eauto.
  - done.
  - intros c. rewrite Hc', columns_snoc. done.
  - intros c col Hcol v h. rewrite (Hs' c col Hcol). split.
    + intros (-> & [(i & Hp)|Hin]); (split; [done|]).
      * exists i. apply has_pair_snoc. auto.
      * exists (N.of_nat (length rows)). apply has_pair_snoc. auto.
    + intros (-> & i & Hp). split; [done|]. apply has_pair_snoc in Hp as [Hp|[-> Hin]]; eauto.
Qed.

Lemma w_add_rows_cons st r rows :
  w_add_rows H st (r :: rows) =
  let '(id, st1) := w_add_row H st r in
  let '(ids, st2) := w_add_rows H st1 rows in (id :: ids, st2).
Proof. reflexivity. Qed.

Lemma WRep_add_rows rows0 rows sch vals next :
  WRep rows0 sch vals next →
  let res := w_add_rows H (WState sch vals next) rows in
  res.1 = map (λ k, N.of_nat (length rows0 + k)) (seq 0 (length rows))
  ∧ WRep (rows0 ++ rows) (w_schema res.2) (w_vals res.2) (w_next res.2).
Proof.
  revert rows0 sch vals next. induction rows as [|r rows IH]; intros rows0 sch vals next HR.
  - simpl. rewrite app_nil_r. done.
  - cbv zeta. rewrite w_add_rows_cons.
    pose proof (WRep_add_row rows0 r sch vals next HR) as Hrow.
    destruct (w_add_row H (WState sch vals next) r) as [id [sch1 vals1 next1]].
    destruct Hrow as [-> HR1]. cbn [w_schema w_vals w_next] in HR1.
    specialize (IH (rows0 ++ [r]) sch1 vals1 next1 HR1). cbv zeta in IH.
    destruct (w_add_rows H (WState sch1 vals1 next1) rows) as [ids st2]. cbn [fst snd] in *.
    destruct IH as [-> HR2]. rewrite <- app_assoc in HR2. split; [|done].
    cbn [length seq map]. f_equal; [f_equal; lia|]. rewrite <- seq_shift, map_map. apply map_ext. intros k.
    rewrite app_length. cbn [length]. f_equal. lia.
Qed.

(** * Flush, store, open *)

Lemma batches_concat fuel n l :
  let '(full, rest) := batches fuel n l in concat full ++ rest = l.
Proof.
  revert l; induction fuel as [|f IH]; intros l; simpl; [done|].
  destruct (decide (n ≤ length l)%nat); [|done].
  specialize (IH (drop n l)). destruct (batches f n (drop n l)) as [full rest]. simpl.
  rewrite <- app_assoc, IH. apply take_drop.
Qed.

Lemma apply_tx_app s a b : apply_tx s (a ++ b) = apply_tx (apply_tx s a) b.
Proof. unfold apply_tx. apply foldl_app. Qed.

Lemma final_store_concat txs : final_store txs = apply_tx empty_store (concat txs).
Proof.
  unfold final_store. generalize empty_store. induction txs as [|tx txs IH]; intros s; simpl; [done|].
  rewrite IH, apply_tx_app. done.
Qed.

Lemma mem_flush_concat st order :
  concat (mem_flush_txs st order) =
  PutBucket :: map (λ hb, PutV hb.1 hb.2) order ++ [PutS (w_schema st); PutI (w_next st `mod` 2^32)].
Proof.
  unfold mem_flush_txs.
  pose proof (batches_concat (length order) batch_size (map (λ hb, PutV hb.1 hb.2) order)) as Hb.
  destruct (batches _ _ _) as [full rest]. rewrite <- Hb.
  destruct full as [|b full]; simpl.
  - by rewrite app_nil_r.
  - rewrite concat_app. simpl. rewrite app_nil_r, <- !app_assoc. done.
Qed.

Lemma apply_putv_fields s order :
  let s' := apply_tx s (map (λ hb : N * bitmap, PutV hb.1 hb.2) order) in
  st_bucket s' = st_bucket s ∧ st_schema s' = st_schema s ∧ st_count s' = st_count s
  ∧ st_vals s' = foldl (λ m hb, <[hb.1 := BitmapOk hb.2]> m) (st_vals s) order.
Proof.
  unfold apply_tx. revert s; induction order as [|[h b] order IH]; intros s; simpl; [done|].
  pose proof (IH (apply_put s (PutV h b))) as IH'. simpl in IH'.
  destruct IH' as (-> & -> & -> & ->). done.
Qed.

Lemma foldl_insert_lookup (m : gmap N bval) (order : list (N * bitmap)) h :
  NoDup order.*1 →
  foldl (λ m hb, <[hb.1 := BitmapOk hb.2]> m) m order !! h =
  match list_to_map (M := gmap N bitmap) order !! h with
  | Some b => Some (BitmapOk b)
  | None => m !! h
  end.
Proof.
  revert m; induction order as [|[h' b'] order IH]; intros m Hnd; simpl.
  - by rewrite lookup_empty.
  - apply NoDup_cons in Hnd as [Hnotin Hnd]. rewrite IH by done.
    destruct (decide (h = h')) as [->|Hne].
    + rewrite lookup_insert. rewrite (not_elem_of_list_to_map_1 _ h') by done.
      by rewrite lookup_insert.
    + rewrite !lookup_insert_ne by done. done.
Qed.

Lemma mem_final_store st order :
  order ≡ₚ map_to_list (w_vals st) →
  final_store (mem_flush_txs st order) =
  Store true (Some (SchemaOk (w_schema st))) (Some (CountOk (w_next st `mod` 2^32)))
        (BitmapOk <$> w_vals st).
Proof.
  intros Hperm. rewrite final_store_concat, mem_flush_concat.
  change (PutBucket :: ?l) with ([PutBucket] ++ l). rewrite !apply_tx_app.
  destruct (apply_putv_fields (apply_tx empty_store [PutBucket]) order) as (Hb & Hs & Hc & Hv).
  remember (apply_tx (apply_tx empty_store [PutBucket]) (map (λ hb, PutV hb.1 hb.2) order)) as s1.
  destruct s1 as [b1 s1 c1 v1]. simpl in *. subst. unfold apply_tx. simpl. f_equal.
  apply map_eq. intros h.
  assert (NoDup order.*1) as Hnd.
  { rewrite Hperm. apply NoDup_fst_map_to_list. }
  rewrite foldl_insert_lookup by done. rewrite lookup_empty, lookup_fmap.
  assert (list_to_map (M := gmap N bitmap) order = w_vals st) as ->.
  { rewrite <- (list_to_map_to_list (w_vals st)). by apply list_to_map_proper. }
  by destruct (w_vals st !! h).
Qed.

Lemma existsb_is_bad_fmap (m : gmap N bitmap) :
  existsb is_bad (map snd (map_to_list (BitmapOk <$> m))) = false.
Proof.
  apply not_true_is_false. intros Hex. apply existsb_exists in Hex as (x & Hin & Hbad).
  apply elem_of_list_In in Hin. change (map snd ?l) with (l.*2) in Hin.
  apply elem_of_list_fmap in Hin as ([h bv] & -> & Hin).
  apply elem_of_map_to_list in Hin. rewrite lookup_fmap in Hin.
  destruct (m !! h); simpl in *; [|done]. injection Hin as <-. done.
Qed.

(** * What an open index means *)
Record IxRep (rows : list row) (ix : index) : Prop := {
  ir_next : ix_next ix = N.of_nat (length rows);
  ir_vals : ∀ h i, i ∈ default ∅ (get_col ix h) ↔ ∃ c v, has_pair rows i c v ∧ vidx c v = h;
  ir_cols : ∀ c, is_Some (ix_schema ix !! c) ↔ c ∈ columns rows;
  ir_schema : ∀ c col, ix_schema ix !! c = Some col →
              ∀ v h, col !! v = Some h ↔ (h = vidx c v ∧ ∃ i, has_pair rows i c v);
  ir_loaded : ∀ c v, (∃ i, has_pair rows i c v) → is_Some (get_col ix (vidx c v))
}.

Lemma open_mem_store rows preload st order :
  (N.of_nat (length rows) < 2^32) →
  WRep rows (w_schema st) (w_vals st) (w_next st) →
  order ≡ₚ map_to_list (w_vals st) →
  ∃ ix, open_index preload (final_store (mem_flush_txs st order)) = Ok ix ∧ IxRep rows ix.
Proof.
  intros Hlen [Hn Hv Hne Hc Hs] Hperm. rewrite (mem_final_store st order Hperm).
  unfold open_index. simpl. rewrite existsb_is_bad_fmap, andb_false_r.
  eexists; split; [reflexivity|].
  assert (∀ h, get_col (Index (w_schema st) (w_next st `mod` 2^32) (BitmapOk <$> w_vals st) preload) h
               = w_vals st !! h) as Hget.
  { intros h. unfold get_col. simpl. rewrite lookup_fmap. by destruct (w_vals st !! h). }
  split; simpl.
  - rewrite Hn. apply N.mod_small. done.
  - intros h i. rewrite Hget. apply Hv.
  - done.
  - done.
  - intros c v (i & Hp). rewrite Hget.
    destruct (w_vals st !! vidx c v) as [b|] eqn:Hb; [by eauto|].
    exfalso. assert (i ∈ default (∅ : bitmap) (w_vals st !! vidx c v)) as Hin by (apply Hv; eauto).
    rewrite Hb in Hin. set_solver.
Qed.

(** * Evaluation computes the row scan *)

(** The pre-hash encoding separates column and value when columns contain no NUL byte, and
    the hash is assumed injective ("64-bit collisions are assumed away"). *)
Definition nul_free (c : str) : Prop := 0 ∉ c.

Lemma enc_inj c1 v1 c2 v2 :
  nul_free c1 → nul_free c2 → c1 ++ 0 :: v1 = c2 ++ 0 :: v2 → c1 = c2 ∧ v1 = v2.
Proof.
  unfold nul_free. revert c2; induction c1 as [|x c1 IH]; intros [|y c2] H1 H2 Heq; simpl in *.
  - by injection Heq as ->.
  - injection Heq as <- _. exfalso. apply H2. left.
  - injection Heq as -> _. exfalso. apply H1. left.
  - injection Heq as -> Heq. apply not_elem_of_cons in H1 as [_ H1], H2 as [_ H2].
    destruct (IH c2 H1 H2 Heq) as [-> ->]. done.
Qed.

Definition rows_nul_free (rows : list row) : Prop := Forall nul_free (columns rows).

Definition expr_nul_free (e : expr) : Prop := Forall nul_free (expr_columns e).

Lemma Forall_flat_map {A B} (P : B → Prop) (f : A → list B) l :
  Forall P (flat_map f l) ↔ Forall (λ x, Forall P (f x)) l.
Proof.
  induction l as [|x l IH]; simpl; [by rewrite !Forall_nil|].
  rewrite Forall_app, Forall_cons, IH. done.
Qed.

Context (H_inj : Inj (=) (=) H).

Lemma vidx_inj c1 v1 c2 v2 :
  nul_free c1 → nul_free c2 → vidx c1 v1 = vidx c2 v2 → c1 = c2 ∧ v1 = v2.
Proof. intros H1 H2 Heq. apply H_inj in Heq. by apply enc_inj. Qed.

Lemma has_pair_column rows i c v : has_pair rows i c v → c ∈ columns rows.
Proof.
  intros (r & Hl & Hin). apply elem_of_columns. exists r, v. split; [|done].
  by apply elem_of_list_lookup_2 in Hl.
Qed.

Lemma ix_leaf rows ix c v i :
  rows_nul_free rows → nul_free c → IxRep rows ix →
  i ∈ default ∅ (get_col ix (vidx c v)) ↔ has_pair rows i c v.
Proof.
  intros Hnf Hc HR. rewrite (ir_vals _ _ HR). split; [|by eauto].
  intros (c' & v' & Hp & Heq).
  assert (nul_free c') as Hc'.
  { unfold rows_nul_free in Hnf. rewrite Forall_forall in Hnf. apply Hnf.
    by eapply has_pair_column. }
  destruct (vidx_inj _ _ _ _ Hc' Hc Heq) as [-> ->]. done.
Qed.

Definition row_at (rows : list row) (i : N) : row := default [] (rows !! N.to_nat i).

Lemma has_pair_row_has rows i c v :
  has_pair rows i c v ↔ i < N.of_nat (length rows) ∧ row_has (row_at rows i) c v = true.
Proof.
  unfold has_pair, row_at, row_has. rewrite bool_decide_eq_true. split.
  - intros (r & Hl & Hin). rewrite Hl. split; [apply lookup_lt_Some in Hl; lia|done].
  - intros [Hlt Hin]. destruct (rows !! N.to_nat i) as [r|] eqn:Hl; simpl in *; [by eauto|].
    by apply elem_of_nil in Hin.
Qed.

Definition eval_list (ix : index) : list expr → outcome (list bitmap) :=
  fix go (es : list expr) : outcome (list bitmap) :=
    match es with
    | [] => Ok []
    | e :: es' => out_bind (eval H ix e) (λ b, out_bind (go es') (λ bs, Ok (b :: bs)))
    end.

Lemma eval_And ix es : eval H ix (And es) = out_bind (eval_list ix es) (λ bs, Ok (fast_and bs)).
Proof. reflexivity. Qed.
Lemma eval_Or ix es : eval H ix (Or es) = out_bind (eval_list ix es) (λ bs, Ok (fast_or bs)).
Proof. reflexivity. Qed.

Lemma known_columns_spec rows e :
  known_columns rows e = true ↔ Forall (λ c, c ∈ columns rows) (expr_columns e).
Proof. unfold known_columns. apply bool_decide_eq_true. Qed.

Lemma known_columns_list rows es :
  bool_decide (Forall (λ c, c ∈ columns rows) (flat_map expr_columns es)) = forallb (known_columns rows) es.
Proof.
  apply eq_true_iff_eq. rewrite bool_decide_eq_true, Forall_flat_map, forallb_forall, Forall_forall.
  split; intros Hx e He.
  - apply known_columns_spec, Hx. by apply elem_of_list_In.
  - apply known_columns_spec, Hx. by apply elem_of_list_In.
Qed.

Definition sem_of (rows : list row) (e : expr) (b : bitmap) : Prop :=
  ∀ i, i ∈ b ↔ i < N.of_nat (length rows) ∧ sat (row_at rows i) e = true.

Definition eval_ok (rows : list row) (ix : index) (e : expr) : Prop :=
  if known_columns rows e then ∃ b, eval H ix e = Ok b ∧ sem_of rows e b else eval H ix e = Err.

Lemma eval_children rows ix es :
  Forall (eval_ok rows ix) es →
  if forallb (known_columns rows) es
  then ∃ bs, eval_list ix es = Ok bs ∧ Forall2 (sem_of rows) es bs
  else eval_list ix es = Err.
Proof.
  induction es as [|e es IH]; intros Hall; simpl.
  - exists []. split; [done|constructor].
  - apply Forall_cons in Hall as [He Hall]. specialize (IH Hall). unfold eval_ok in He.
    destruct (known_columns rows e); simpl.
    + destruct He as (b & -> & Hb). simpl. destruct (forallb (known_columns rows) es).
      * destruct IH as (bs & -> & Hbs). simpl. exists (b :: bs). split; [done|by constructor].
      * by rewrite IH.
    + by rewrite He.
Qed.

Lemma sem_Forall rows es bs i :
  Forall2 (sem_of rows) es bs →
  Forall (λ b, i ∈ b) bs ↔ Forall (λ e, i < N.of_nat (length rows) ∧ sat (row_at rows i) e = true) es.
Proof.
  induction 1 as [|e b es bs Hb _ IH]; [by rewrite !Forall_nil|].
  rewrite !Forall_cons, IH, (Hb i). done.
Qed.

Lemma sem_Exists rows es bs i :
  Forall2 (sem_of rows) es bs →
  Exists (λ b, i ∈ b) bs ↔ Exists (λ e, i < N.of_nat (length rows) ∧ sat (row_at rows i) e = true) es.
Proof.
  induction 1 as [|e b es bs Hb _ IH]; [by rewrite !Exists_nil|].
  rewrite !Exists_cons, IH, (Hb i). done.
Qed.

(** The main semantic lemma: on an index that represents [rows], evaluation yields exactly
    the ids of the satisfying rows, and an error iff some tested column is unknown. *)
Lemma eval_sem rows ix e :
  rows_nul_free rows → IxRep rows ix → expr_nul_free e → nonempty_ops e = true →
  eval_ok rows ix e.
Proof.
  intros Hnf HR. induction e as [c v|e IH|es IH|es IH] using expr_ind'; intros Henf Hne.
  - (* Eq *)
    unfold eval_ok, known_columns. simpl in *. rewrite bool_decide_decide.
    destruct (decide (Forall (λ c0, c0 ∈ columns rows) [c])) as [Hk|Hk].
    + rewrite Forall_singleton in Hk. apply (ir_cols _ _ HR) in Hk as [col Hcol]. rewrite Hcol.
      unfold expr_nul_free in Henf. simpl in Henf. rewrite Forall_singleton in Henf.
      eexists; split; [reflexivity|]. intros i.
      rewrite (ix_leaf rows ix c v i Hnf Henf HR). apply has_pair_row_has.
    + destruct (ix_schema ix !! c) eqn:Hcol; [|done]. exfalso. apply Hk, Forall_singleton.
      apply (ir_cols _ _ HR). eauto.
  - (* Not *)
    simpl in *. specialize (IH Henf Hne). unfold eval_ok, known_columns in *. simpl.
    destruct (bool_decide _); [|by rewrite IH].
    destruct IH as (b & -> & Hb). simpl. eexists; split; [reflexivity|]. intros i.
    rewrite elem_of_bm_flip, (ir_next _ _ HR), (Hb i). cbn [sat]. rewrite negb_true_iff.
    destruct (sat (row_at rows i) e).
    + split; [intros [[? Hn]|[? [? _]]]; [exfalso; apply Hn; by split|lia]|by intros [_ ?]].
    + split; [intros [[? _]|[? [? _]]]; [by split|lia]|]. intros [? _]. left. split; [done|]. by intros [_ ?].
  - (* And *)
    unfold expr_nul_free in Henf. simpl in Henf, Hne. apply Forall_flat_map in Henf.
    apply andb_true_iff in Hne as [Hne1 Hne2].
    rewrite negb_true_iff, bool_decide_eq_false in Hne1. rewrite forallb_forall in Hne2.
    assert (Forall (eval_ok rows ix) es) as Hall.
    { rewrite Forall_forall in IH, Henf |- *. intros e He. apply IH; [done|by apply Henf|].
      apply Hne2. by apply elem_of_list_In. }
    pose proof (eval_children rows ix es Hall) as Hch.
    unfold eval_ok, known_columns. cbn [expr_columns]. rewrite known_columns_list, eval_And.
    destruct (forallb (known_columns rows) es).
    + destruct Hch as (bs & -> & Hbs). simpl. eexists; split; [reflexivity|]. intros i.
      rewrite elem_of_fast_and.
      2:{ intros ->. apply Forall2_nil_inv_r in Hbs. done. }
      rewrite (sem_Forall rows es bs i Hbs). cbn [sat]. rewrite forallb_forall, Forall_forall.
      destruct es as [|e0 es]; [done|]. split.
      * intros Hx. split; [apply (Hx e0); left|]. intros e He. apply Hx. by apply elem_of_list_In.
      * intros [Hlt Hx] e He. split; [done|]. apply Hx. by apply elem_of_list_In.
    + by rewrite Hch.
  - (* Or *)
    unfold expr_nul_free in Henf. simpl in Henf, Hne. apply Forall_flat_map in Henf.
    apply andb_true_iff in Hne as [Hne1 Hne2].
    rewrite forallb_forall in Hne2.
    assert (Forall (eval_ok rows ix) es) as Hall.
    { rewrite Forall_forall in IH, Henf |- *. intros e He. apply IH; [done|by apply Henf|].
      apply Hne2. by apply elem_of_list_In. }
    pose proof (eval_children rows ix es Hall) as Hch.
    unfold eval_ok, known_columns. cbn [expr_columns]. rewrite known_columns_list, eval_Or.
    destruct (forallb (known_columns rows) es).
    + destruct Hch as (bs & -> & Hbs). simpl. eexists; split; [reflexivity|]. intros i.
      rewrite elem_of_fast_or, (sem_Exists rows es bs i Hbs), Exists_exists. cbn [sat]. split.
      * intros (e & He & Hlt & Hs). split; [done|]. apply existsb_exists. exists e.
        split; [by apply elem_of_list_In|done].
      * intros [Hlt Hx]. apply existsb_exists in Hx as (e & He & Hs). exists e.
        split; [by apply elem_of_list_In|done].
    + by rewrite Hch.
Qed.

(** * Cardinality = number of satisfying rows *)
Fixpoint sat_ids (P : row → bool) (k : N) (rows : list row) : list N :=
  match rows with
  | [] => []
  | r :: rows' => (if P r then [k] else []) ++ sat_ids P (N.succ k) rows'
  end.

Lemma elem_of_sat_ids P k rows i :
  i ∈ sat_ids P k rows ↔ ∃ j r, i = k + N.of_nat j ∧ rows !! j = Some r ∧ P r = true.
Proof.
  revert k; induction rows as [|r rows IH]; intros k; simpl.
  - rewrite elem_of_nil. split; [done|]. by intros (j & r & _ & ? & _).
  - rewrite elem_of_app, IH. split.
    + intros [Hin|(j & r' & -> & Hl & HP)].
      * destruct (P r) eqn:HP; [|by apply elem_of_nil in Hin].
        apply elem_of_list_singleton in Hin as ->. exists 0%nat, r. split; [lia|done].
      * exists (S j), r'. split; [lia|done].
    + intros ([|j] & r' & -> & Hl & HP); simpl in Hl.
      * injection Hl as ->. rewrite HP. left. apply elem_of_list_singleton. lia.
      * right. exists j, r'. split; [lia|done].
Qed.

Lemma NoDup_sat_ids P k rows : NoDup (sat_ids P k rows).
Proof.
  revert k; induction rows as [|r rows IH]; intros k; simpl; [constructor|].
  apply NoDup_app. split; [destruct (P r); [apply NoDup_singleton|constructor]|]. split; [|apply IH].
  intros x Hx Hin. destruct (P r); [|by apply elem_of_nil in Hx].
  apply elem_of_list_singleton in Hx as ->. apply elem_of_sat_ids in Hin as (j & _ & Heq & _). lia.
Qed.

Lemma length_sat_ids P k rows : length (sat_ids P k rows) = length (filter (λ r, P r = true) rows).
Proof.
  revert k; induction rows as [|r rows IH]; intros k; simpl; [done|].
  rewrite app_length, IH, filter_cons. destruct (decide (P r = true)) as [->|Hn]; [done|].
  destruct (P r); [done|]. done.
Qed.

Lemma card_sem rows e (b : bitmap) :
  sem_of rows e b → bm_card b = N.of_nat (length (filter (λ r, sat r e = true) rows)).
Proof.
  intros Hb. unfold bm_card. f_equal.
  assert (b = list_to_set (sat_ids (λ r, sat r e) 0 rows)) as ->.
  { apply set_eq. intros i. rewrite elem_of_list_to_set, elem_of_sat_ids, (Hb i). unfold row_at. split.
    - intros [Hlt Hs]. destruct (rows !! N.to_nat i) as [r|] eqn:Hl.
      + exists (N.to_nat i), r. split; [lia|done].
      + apply lookup_ge_None in Hl. lia.
    - intros (j & r & -> & Hl & Hs). rewrite N.add_0_l, Nat2N.id, Hl. simpl.
      split; [apply lookup_lt_Some in Hl; lia|done]. }
  rewrite size_list_to_set by apply NoDup_sat_ids. apply length_sat_ids.
Qed.

End WithHash.

(** * C01 for the in-memory writer *)
Section MemWriter.
Context (H : list N → N) (H_inj : Inj (=) (=) H).

Lemma mem_writer_rep rows :
  let st := (w_add_rows H (w_init) rows).2 in
  (w_add_rows H w_init rows).1 = map N.of_nat (seq 0 (length rows))
  ∧ WRep H rows (w_schema st) (w_vals st) (w_next st).
Proof.
  pose proof (WRep_add_rows H [] rows ∅ ∅ 0 (WRep_init H)) as [H1 H2]. simpl in *. done.
Qed.

Lemma mem_index_rep rows preload order :
  N.of_nat (length rows) < 2^32 →
  let st := (w_add_rows H w_init rows).2 in
  order ≡ₚ map_to_list (w_vals st) →
  ∃ ix, open_index preload (final_store (mem_flush_txs st order)) = Ok ix ∧ IxRep H rows ix.
Proof.
  intros Hlen st Hperm. destruct (mem_writer_rep rows) as [_ HR].
  by apply (open_mem_store H rows preload st order).
Qed.

(** On any index representing [rows], the count is the specification's. *)
Lemma execute_count rows ix e gbs :
  rows_nul_free rows → IxRep H rows ix → expr_nul_free e → nonempty_ops e = true →
  out_map r_count (out_bind (eval H ix e) (λ b, Ok (Result (bm_card b) (group_by ix gbs b))))
  = spec_count rows e.
Proof.
  intros Hnf HR Henf Hne. pose proof (eval_sem H H_inj rows ix e Hnf HR Henf Hne) as Hev.
  unfold eval_ok in Hev. unfold spec_count. destruct (known_columns rows e).
  - destruct Hev as (b & -> & Hb). simpl. f_equal. by apply card_sem.
  - by rewrite Hev.
Qed.

End MemWriter.

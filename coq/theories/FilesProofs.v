(** Proofs about files, locks and crash points: index creation is crash-atomic (C06),
    opening fails cleanly and releases the file (C15), the read path never modifies a file
    and a flush never clobbers one (C16). *)
From updog Require Import Prelude Index IndexProofs BigProofs Files.
From stdpp Require Import mapset.
From Coq Require Import ZifyN ZifyNat ZifyBool.
Local Open Scope N_scope.

(** * OpenIndex needs the complete header *)

Lemma open_requires_header preload s ix :
  open_index preload s = Ok ix →
  st_bucket s = true ∧ ∃ sch n, st_schema s = Some (SchemaOk sch) ∧ st_count s = Some (CountOk n).
Proof.
  unfold open_index. intros Hopen.
  destruct (st_bucket s); simpl in Hopen; [|done].
  destruct (st_schema s) as [[sch|]|]; try done.
  destruct (st_count s) as [[n|len]|]; try done.
  split; [done|]. by exists sch, n.
Qed.

Lemma open_index_clean preload s :
  open_index preload s ≠ Panic ∧ open_index preload s ≠ Hang.
Proof.
  unfold open_index.
  destruct (negb (st_bucket s)); [done|].
  destruct (st_schema s) as [[sch|]|]; try done.
  destruct (st_count s) as [[n|len]|]; try done.
  by destruct (preload && _).
Qed.

Lemma open_no_schema preload s : st_schema s = None → open_index preload s = Err.
Proof.
  intros Hs. unfold open_index. rewrite Hs. by destruct (negb (st_bucket s)).
Qed.

(** * Commit sequences *)

(** A put that does not write a header key. *)
Definition hdr_free (p : put) : Prop :=
  match p with PutS _ | PutI _ => False | _ => True end.

Lemma apply_tx_hdr_free s tx :
  Forall hdr_free tx → st_schema (apply_tx s tx) = st_schema s ∧ st_count (apply_tx s tx) = st_count s.
Proof.
  unfold apply_tx. revert s. induction tx as [|p tx IH]; intros s Hall; [done|].
  apply Forall_cons in Hall as [Hp Hall]. cbn [foldl].
  destruct (IH (apply_put s p) Hall) as [-> ->]. by destruct p.
Qed.

Lemma commit_states_length s txs : length (commit_states s txs) = length txs.
Proof. revert s. induction txs as [|tx txs IH]; intros s; simpl; [done|]. by rewrite IH. Qed.

(** The state after the commit number [k] is the store with the first [k+1] transactions
    applied. *)
Lemma commit_states_lookup s txs k :
  (k < length txs)%nat →
  commit_states s txs !! k = Some (apply_tx s (concat (take (S k) txs))).
Proof.
  revert s k. induction txs as [|tx txs IH]; intros s k Hk; simpl in Hk; [lia|].
  destruct k as [|k]; simpl.
  - destruct txs; simpl; by rewrite app_nil_r.
  - rewrite IH by lia. by rewrite apply_tx_app.
Qed.

Lemma final_store_foldl s txs : foldl apply_tx s txs = apply_tx s (concat txs).
Proof.
  revert s. induction txs as [|tx txs IH]; intros s; simpl; [done|].
  by rewrite IH, apply_tx_app.
Qed.

Lemma commit_states_last s txs :
  txs ≠ [] → last (commit_states s txs) = Some (foldl apply_tx s txs).
Proof.
  revert s. induction txs as [|tx txs IH]; intros s Hne; [done|].
  destruct txs as [|tx' txs]; [done|].
  change (commit_states s (tx :: tx' :: txs))
    with (apply_tx s tx :: commit_states (apply_tx s tx) (tx' :: txs)).
  change (commit_states (apply_tx s tx) (tx' :: txs))
    with (apply_tx (apply_tx s tx) tx' :: commit_states (apply_tx (apply_tx s tx) tx') txs) at 1.
  rewrite last_cons_cons.
  change (apply_tx (apply_tx s tx) tx' :: commit_states (apply_tx (apply_tx s tx) tx') txs)
    with (commit_states (apply_tx s tx) (tx' :: txs)).
  by rewrite IH.
Qed.

Lemma commit_states_final_last txs :
  txs ≠ [] → last (commit_states empty_store txs) = Some (final_store txs).
Proof. apply commit_states_last. Qed.

(** If all transactions but the last are free of header puts, every commit state but the
    last has no schema key. *)
Lemma commit_states_hdr_free s init lst s' :
  Forall (Forall hdr_free) init →
  st_schema s = None →
  s' ∈ commit_states s (init ++ [lst]) →
  st_schema s' = None ∨ s' = foldl apply_tx s (init ++ [lst]).
Proof.
  revert s. induction init as [|tx init IH]; intros s Hall Hs Hin; cbn [app commit_states] in Hin.
  - apply elem_of_list_singleton in Hin. by right.
  - apply Forall_cons in Hall as [Htx Hall].
    destruct (apply_tx_hdr_free s tx Htx) as [Hs1 _].
    apply elem_of_cons in Hin as [->|Hin].
    + left. by rewrite Hs1.
    + change (foldl apply_tx s ((tx :: init) ++ [lst])) with (foldl apply_tx (apply_tx s tx) (init ++ [lst])).
      apply IH; [done| |done]. by rewrite Hs1.
Qed.

(** * The batches of a flush *)

Lemma batches_Forall (P : put → Prop) fuel n l :
  Forall P l → Forall (Forall P) (batches fuel n l).1 ∧ Forall P (batches fuel n l).2.
Proof.
  revert l. induction fuel as [|f IH]; intros l Hall; simpl; [by split|].
  destruct (decide (n ≤ length l)%nat); [|simpl; by split].
  specialize (IH (drop n l) (Forall_drop _ _ _ Hall)).
  destruct (batches f n (drop n l)) as [full rest]. simpl in *.
  destruct IH as [IH1 IH2]. split; [|done].
  apply Forall_cons; split; [by apply Forall_take|done].
Qed.

Section WithHash.
Context (H : list N → N).

Lemma mem_flush_txs_shape st order :
  ∃ init lst, mem_flush_txs st order = init ++ [lst] ∧ Forall (Forall hdr_free) init.
Proof.
  unfold mem_flush_txs.
  assert (Forall hdr_free (map (λ hb : N * bitmap, PutV hb.1 hb.2) order)) as Hall.
  { apply Forall_map. by apply Forall_true. }
  destruct (batches_Forall hdr_free (length order) batch_size _ Hall) as [Hfull _].
  destruct (batches _ _ _) as [full rest]. simpl in Hfull.
  destruct full as [|b full].
  - exists [], (PutBucket :: rest ++ [PutS (w_schema st); PutI (w_next st `mod` 2^32)]). by split.
  - apply Forall_cons in Hfull as [Hb Hfull].
    exists ((PutBucket :: b) :: full), (rest ++ [PutS (w_schema st); PutI (w_next st `mod` 2^32)]).
    split; [done|]. apply Forall_cons; split; [|done]. by apply Forall_cons.
Qed.

Lemma mem_flush_txs_nonempty st order : mem_flush_txs st order ≠ [].
Proof.
  destruct (mem_flush_txs_shape st order) as (init & lst & -> & _). by destruct init.
Qed.

Lemma mem_crash_states_last st order :
  last (mem_crash_states st order) = Some (final_store (mem_flush_txs st order)).
Proof.
  unfold mem_crash_states.
  pose proof (mem_flush_txs_nonempty st order) as Hne.
  pose proof (commit_states_final_last _ Hne) as Hlast.
  destruct (commit_states empty_store (mem_flush_txs st order)) as [|s0 l] eqn:E; [done|].
  by rewrite last_cons_cons.
Qed.

(** Every crash state of the in-memory writer has no schema key or is the complete index. *)
Lemma mem_crash_states_schema st order s :
  s ∈ mem_crash_states st order →
  st_schema s = None ∨ s = final_store (mem_flush_txs st order).
Proof.
  unfold mem_crash_states. intros Hin.
  apply elem_of_cons in Hin as [->|Hin]; [by left|].
  destruct (mem_flush_txs_shape st order) as (init & lst & Heq & Hall).
  rewrite Heq in Hin |- *. by apply (commit_states_hdr_free empty_store init lst).
Qed.

(** C06, in-memory writer. *)
Theorem C06_mem st order s preload :
  s ∈ mem_crash_states st order →
  open_index preload s = Err ∨ s = final_store (mem_flush_txs st order).
Proof.
  intros Hin. destruct (mem_crash_states_schema st order s Hin) as [Hs| ->]; [|by right].
  left. by apply open_no_schema.
Qed.

(** Hence a crash state that opens answers every query like the complete index. *)
Corollary C06_mem_queries st order s preload ix q :
  s ∈ mem_crash_states st order →
  open_index preload s = Ok ix →
  open_index preload (final_store (mem_flush_txs st order)) = Ok ix ∧
  execute H ix q = out_bind (open_index preload (final_store (mem_flush_txs st order))) (λ ix', execute H ix' q).
Proof.
  intros Hin Hopen. destruct (C06_mem st order s preload Hin) as [Herr| ->]; [congruence|].
  by rewrite Hopen.
Qed.

(** C06, big writer. *)
Theorem C06_big st s preload :
  s ∈ big_crash_states st →
  open_index preload s = Err ∨ (∃ tx, big_flush_tx st = Ok tx ∧ s = final_store [tx]).
Proof.
  unfold big_crash_states. intros Hin.
  apply elem_of_cons in Hin as [->|Hin]; [by left|].
  destruct (big_flush_tx st) as [tx| | |]; try by apply elem_of_nil in Hin.
  apply elem_of_list_singleton in Hin. right. by exists tx.
Qed.

Theorem C06_never_panics st order bst s preload :
  s ∈ mem_crash_states st order ∨ s ∈ big_crash_states bst →
  open_index preload s ≠ Panic ∧ open_index preload s ≠ Hang.
Proof. intros _. apply open_index_clean. Qed.

End WithHash.

(** * The pinned commit order is not crash-atomic *)

Definition pin_rows : list row := [[([99], [1])]; [([99], [2])]; [([99], [3])]].
Definition pin_st : wstate := (w_add_rows H_enc w_init pin_rows).2.
Definition pin_order : list (N * bitmap) := map_to_list (w_vals pin_st).
Definition pin_txs : list (list put) := mem_flush_txs_pinned 2 pin_st pin_order.
Definition pin_q : query := Query (Or [Eq [99] [1]; Eq [99] [2]; Eq [99] [3]]) [].

Definition pin_s : store := apply_tx empty_store (default [] (head pin_txs)).

Lemma pin_s_crash_state : commit_states empty_store pin_txs !! 0%nat = Some pin_s.
Proof. vm_cast_no_check (eq_refl (Some pin_s)). Qed.

Lemma pin_s_opens : is_ok (open_index false pin_s) = true.
Proof. vm_compute. reflexivity. Qed.

Lemma pin_s_size : (size (st_vals pin_s), size (st_vals (final_store pin_txs))) = (2%nat, 3%nat).
Proof. vm_compute. reflexivity. Qed.

Definition count_on (s : store) (q : query) : outcome N :=
  out_bind (open_index false s) (λ ix, out_map r_count (execute H_enc ix q)).

Lemma pin_s_count : (count_on pin_s pin_q, count_on (final_store pin_txs) pin_q) = (Ok 2, Ok 3).
Proof. vm_compute. reflexivity. Qed.

Theorem C06_pinned_refuted :
  ∃ st order s,
    s ∈ (empty_store :: commit_states empty_store (mem_flush_txs_pinned 2 st order)) ∧
    s ≠ final_store (mem_flush_txs_pinned 2 st order) ∧
    ∃ ix, open_index false s = Ok ix ∧
    ∃ q, execute H_enc ix q ≠
         out_bind (open_index false (final_store (mem_flush_txs_pinned 2 st order)))
                  (λ ix', execute H_enc ix' q).
Proof.
  exists pin_st, pin_order, pin_s. fold pin_txs.
  pose proof pin_s_crash_state as Hlook. pose proof pin_s_opens as Hok.
  pose proof pin_s_size as Hsize. pose proof pin_s_count as Hcount.
  generalize dependent pin_s. generalize dependent (final_store pin_txs).
  intros sf s Hlook Hok Hsize Hcount. split.
  { apply elem_of_cons. right. by apply elem_of_list_lookup_2 in Hlook. }
  split.
  { intros ->. by injection Hsize as ->. }
  unfold count_on in Hcount.
  destruct (open_index false s) as [ix| | |] eqn:Hopen; try done.
  exists ix. split; [done|]. exists pin_q. cbn [out_bind] in Hcount. intros Heq.
  rewrite Heq in Hcount.
  destruct (open_index false sf) as [ixf| | |]; try done. cbn [out_bind] in Hcount.
  clear Heq. destruct (execute H_enc ixf pin_q) as [r| | |]; cbn [out_map] in Hcount; congruence.
Qed.

(** * C15: opening fails cleanly and always releases the file *)

(** Unless the open succeeds, nothing changes: content, reader counts and writer locks. *)
Lemma fs_open_not_ok_unchanged fs p preload :
  is_ok (fs_open fs p preload).1 = false → (fs_open fs p preload).2 = fs.
Proof.
  unfold fs_open. destruct (fs_files fs !! p) as [[|s]|]; try done.
  case_bool_decide; [done|]. by destruct (open_index preload s).
Qed.

Lemma fs_open_fail_clean fs p preload :
  (fs_open fs p preload).1 = Err → (fs_open fs p preload).2 = fs.
Proof. intros Herr. apply fs_open_not_ok_unchanged. by rewrite Herr. Qed.

Lemma fs_open_missing fs p preload :
  fs_files fs !! p = None → fs_open fs p preload = (Err, fs).
Proof. intros Hnone. unfold fs_open. by rewrite Hnone. Qed.

Lemma fs_open_garbage fs p preload :
  fs_files fs !! p = Some Garbage → fs_open fs p preload = (Err, fs).
Proof. intros Hg. unfold fs_open. by rewrite Hg. Qed.

Lemma fs_open_partial fs p preload s :
  fs_files fs !! p = Some (Bolt s) → p ∉ fs_writer fs → open_index preload s = Err →
  fs_open fs p preload = (Err, fs).
Proof.
  intros Hs Hw Herr. unfold fs_open. rewrite Hs, Herr. by rewrite bool_decide_eq_false_2.
Qed.

(** C16: the read path never modifies a file. *)
Lemma fs_open_files_unchanged fs p preload : fs_files (fs_open fs p preload).2 = fs_files fs.
Proof.
  unfold fs_open. destruct (fs_files fs !! p) as [[|s]|]; try done.
  case_bool_decide; [done|]. by destruct (open_index preload s).
Qed.

Lemma fs_open_writer_unchanged fs p preload : fs_writer (fs_open fs p preload).2 = fs_writer fs.
Proof.
  unfold fs_open. destruct (fs_files fs !! p) as [[|s]|]; try done.
  case_bool_decide; [done|]. by destruct (open_index preload s).
Qed.

Lemma fs_close_files_unchanged fs h : fs_files (fs_close fs h).1 = fs_files fs.
Proof. unfold fs_close. by destruct (h_closed h). Qed.

Lemma fs_close_writer_unchanged fs h : fs_writer (fs_close fs h).1 = fs_writer fs.
Proof. unfold fs_close. by destruct (h_closed h). Qed.

Lemma fs_open_no_panic fs p preload :
  p ∉ fs_writer fs → (fs_open fs p preload).1 ≠ Panic ∧ (fs_open fs p preload).1 ≠ Hang.
Proof.
  intros Hw. unfold fs_open. destruct (fs_files fs !! p) as [[|s]|]; try done.
  rewrite bool_decide_eq_false_2 by done.
  destruct (open_index_clean preload s) as [Hp Hh].
  by destruct (open_index preload s).
Qed.

(** Which opens succeed. *)
Definition open_ok (files : gmap N fcontent) (p : N) (preload : bool) : bool :=
  match files !! p with
  | Some (Bolt s) => is_ok (open_index preload s)
  | _ => false
  end.

Lemma open_ok_spec files p preload :
  open_ok files p preload = true ↔ ∃ s, files !! p = Some (Bolt s) ∧ is_ok (open_index preload s) = true.
Proof.
  unfold open_ok. split.
  - destruct (files !! p) as [[|s]|]; try done. intros Hok. by exists s.
  - intros (s & -> & Hok). done.
Qed.

Lemma fs_open_ok_iff fs p preload :
  p ∉ fs_writer fs →
  is_ok (fs_open fs p preload).1 = open_ok (fs_files fs) p preload.
Proof.
  intros Hw. unfold fs_open, open_ok. destruct (fs_files fs !! p) as [[|s]|]; try done.
  rewrite bool_decide_eq_false_2 by done. by destruct (open_index preload s).
Qed.

Lemma readers_insert fs p n q files w :
  readers (FSys files (<[p := n]> (fs_readers fs)) w) q = if decide (q = p) then n else readers fs q.
Proof.
  unfold readers. cbn [fs_readers]. destruct (decide (q = p)) as [->|Hne].
  - by rewrite lookup_insert.
  - by rewrite lookup_insert_ne.
Qed.

Lemma fs_open_ok_readers fs p preload ix fs' :
  fs_open fs p preload = (Ok ix, fs') →
  readers fs' p = S (readers fs p) ∧ ∀ q, q ≠ p → readers fs' q = readers fs q.
Proof.
  unfold fs_open. destruct (fs_files fs !! p) as [[|s]|]; try done.
  case_bool_decide; [done|]. destruct (open_index preload s); try done.
  intros [= <- <-]. split.
  - rewrite readers_insert. by rewrite decide_True.
  - intros q Hne. rewrite readers_insert. by rewrite decide_False.
Qed.

(** A successful open followed by the close of its handle restores every reader count. *)
Lemma fs_close_releases fs p preload ix fs' :
  fs_open fs p preload = (Ok ix, fs') →
  ∀ q, readers (fs_close fs' (Handle p ix false)).1 q = readers fs q.
Proof.
  intros Hopen q. destruct (fs_open_ok_readers _ _ _ _ _ Hopen) as [Hp Hq].
  unfold fs_close. cbn [h_closed h_path fst]. rewrite readers_insert.
  destruct (decide (q = p)) as [->|Hne].
  - by rewrite Hp.
  - by apply Hq.
Qed.

Lemma fs_close_idempotent fs h :
  fs_close (fs_close fs h).1 (fs_close fs h).2 = fs_close fs h.
Proof.
  unfold fs_close at 2 3 4. destruct (h_closed h) eqn:Hc; cbn [fst snd].
  - unfold fs_close. by rewrite Hc.
  - done.
Qed.

Lemma fs_close_closed fs h : h_closed (fs_close fs h).2 = true.
Proof. unfold fs_close. by destruct (h_closed h) eqn:Hc. Qed.

(** ** Sequences of opens and closes on one path *)

Definition live (hs : list handle) : nat := length (filter (λ h, h_closed h = false) hs).

Definition expected (files : gmap N fcontent) (p : N) (ops : list fop) : list (outcome unit) :=
  omap (λ o, match o with
             | FOpen preload => Some (if open_ok files p preload then Ok () else Err)
             | FClose _ => None
             end) ops.

Lemma expected_open files p preload ops :
  expected files p (FOpen preload :: ops)
  = (if open_ok files p preload then Ok () else Err) :: expected files p ops.
Proof. done. Qed.
Lemma expected_close files p i ops : expected files p (FClose i :: ops) = expected files p ops.
Proof. done. Qed.

Lemma expected_clean files p ops :
  Forall (λ r, r ≠ Panic ∧ r ≠ Hang) (expected files p ops).
Proof.
  induction ops as [|[preload|i] ops IH]; [constructor| |by rewrite expected_close].
  rewrite expected_open. apply Forall_cons; split; [|done]. by destruct (open_ok files p preload).
Qed.

Lemma live_snoc hs h : live (hs ++ [h]) = (live hs + (if h_closed h then 0 else 1))%nat.
Proof.
  unfold live. rewrite filter_app, app_length. f_equal.
  destruct (h_closed h) eqn:Hc.
  - by rewrite filter_cons_False by (by rewrite Hc).
  - by rewrite filter_cons_True by done.
Qed.

Lemma live_insert_close hs i h :
  hs !! i = Some h → h_closed h = false →
  live hs = S (live (<[i := Handle (h_path h) (h_index h) true]> hs)).
Proof.
  unfold live. revert i. induction hs as [|h0 hs IH]; intros i Hi Hc; [done|].
  destruct i as [|i]; cbn [lookup list_lookup] in Hi.
  - injection Hi as ->. cbn [list_insert insert].
    rewrite filter_cons_True by done. by rewrite filter_cons_False by done.
  - cbn [list_insert insert]. rewrite !filter_cons.
    destruct (decide (h_closed h0 = false)); cbn [length]; by rewrite (IH i Hi Hc).
Qed.

Lemma fs_run_inv fs p hs ops :
  p ∉ fs_writer fs →
  Forall (λ h, h_path h = p) hs →
  readers fs p = live hs →
  let '(rs, fs', hs') := fs_run fs p hs ops in
  rs = expected (fs_files fs) p ops ∧ fs_files fs' = fs_files fs ∧ fs_writer fs' = fs_writer fs ∧
  (∀ q, q ≠ p → readers fs' q = readers fs q) ∧
  readers fs' p = live hs' ∧ Forall (λ h, h_path h = p) hs'.
Proof.
  revert fs hs. induction ops as [|[preload|i] ops IH]; intros fs hs Hw Hpath Hlive.
  - by cbn.
  - cbn [fs_run]. rewrite expected_open.
    pose proof (fs_open_ok_iff fs p preload Hw) as Hiff.
    pose proof (fs_open_files_unchanged fs p preload) as Hfiles.
    pose proof (fs_open_writer_unchanged fs p preload) as Hwr.
    pose proof (fs_open_no_panic fs p preload Hw) as [Hnp Hnh].
    pose proof (fs_open_not_ok_unchanged fs p preload) as Hsame.
    destruct (fs_open fs p preload) as [[ix| | |] fs1] eqn:Hopen; cbn [fst snd] in *; try done.
    + destruct (fs_open_ok_readers _ _ _ _ _ Hopen) as [Hr1 Hrq].
      specialize (IH fs1 (hs ++ [Handle p ix false])).
      destruct (fs_run fs1 p (hs ++ [Handle p ix false]) ops) as [[rs fs2] hs2].
      rewrite <- Hiff. rewrite Hfiles, Hwr in IH.
      destruct IH as (-> & Hf & Hw2 & Hq2 & Hl2 & Hp2); [done| | |].
      { apply Forall_app; split; [done|]. by apply Forall_singleton. }
      { rewrite live_snoc, Hr1, Hlive. cbn [h_closed]. lia. }
      repeat split; try done. intros q Hne. rewrite Hq2 by done. by apply Hrq.
    + rewrite (Hsame eq_refl) in *. specialize (IH fs hs Hw Hpath Hlive).
      destruct (fs_run fs p hs ops) as [[rs fs2] hs2]. rewrite <- Hiff.
      destruct IH as (-> & Hrest). done.
  - cbn [fs_run]. rewrite expected_close. destruct (hs !! i) as [h|] eqn:Hi; [|by apply IH].
    unfold fs_close. destruct (h_closed h) eqn:Hc.
    + rewrite list_insert_id by done. by apply IH.
    + assert (h_path h = p) as Hhp by (by eapply (proj1 (Forall_lookup _ _) Hpath)).
      rewrite Hhp.
      set (fs1 := FSys (fs_files fs) (<[p := pred (readers fs p)]> (fs_readers fs)) (fs_writer fs)).
      set (hs1 := <[i := Handle p (h_index h) true]> hs).
      specialize (IH fs1 hs1).
      destruct (fs_run fs1 p hs1 ops) as [[rs fs2] hs2]. cbn [fs_files fs_writer fs1] in IH.
      destruct IH as (-> & Hf & Hw2 & Hq2 & Hl2 & Hp2); [done| | |].
      { apply Forall_insert; done. }
      { unfold fs1, hs1. rewrite readers_insert, decide_True by done.
        rewrite Hlive. rewrite <- Hhp. by rewrite (live_insert_close hs i h Hi Hc). }
      repeat split; try done. intros q Hne. rewrite Hq2 by done.
      unfold fs1. by rewrite readers_insert, decide_False.
Qed.

(** C15 on sequences: no outcome is a panic or a hang; an open succeeds exactly if the path
    holds a complete index; the lock count is the number of live handles; the file content
    never changes. *)
Theorem fs_run_spec fs p ops :
  fs_writer fs = ∅ → readers fs p = 0%nat →
  let '(rs, fs', hs') := fs_run fs p [] ops in
  Forall (λ r, r ≠ Panic ∧ r ≠ Hang) rs ∧
  rs = expected (fs_files fs) p ops ∧
  readers fs' p = live hs' ∧
  (∀ q, q ≠ p → readers fs' q = readers fs q) ∧
  fs_files fs' = fs_files fs ∧ fs_writer fs' = ∅.
Proof.
  intros Hw Hr. pose proof (fs_run_inv fs p [] ops) as Hinv.
  destruct (fs_run fs p [] ops) as [[rs fs'] hs'].
  destruct Hinv as (-> & Hf & Hw2 & Hq & Hl & _).
  { rewrite Hw. set_solver. } { constructor. } { done. }
  repeat split; try done; [apply expected_clean|congruence].
Qed.

(** The lock is held exactly while a live handle exists. *)
Corollary fs_run_locked fs p ops :
  fs_writer fs = ∅ → readers fs p = 0%nat →
  let '(rs, fs', hs') := fs_run fs p [] ops in
  locked fs' p = true ↔ ∃ h, h ∈ hs' ∧ h_closed h = false.
Proof.
  intros Hw Hr. pose proof (fs_run_spec fs p ops Hw Hr) as Hspec.
  destruct (fs_run fs p [] ops) as [[rs fs'] hs'].
  destruct Hspec as (_ & _ & Hl & _ & _ & Hw').
  unfold locked. rewrite Hw', Hl. rewrite bool_decide_eq_false_2 by set_solver. cbn [orb].
  unfold live. split.
  - intros Hne. destruct (filter (λ h, h_closed h = false) hs') as [|h l] eqn:E; [done|].
    exists h. apply and_comm, (elem_of_list_filter (λ h, h_closed h = false)). rewrite E. left.
  - intros (h & Hin & Hc).
    assert (h ∈ filter (λ h, h_closed h = false) hs') as Hin' by (by apply elem_of_list_filter).
    destruct (filter (λ h, h_closed h = false) hs'); [by apply elem_of_nil in Hin'|done].
Qed.

(** * C16: a flush never clobbers an existing file *)

Lemma fs_flush_no_clobber fs p s :
  is_Some (fs_files fs !! p) → fs_flush fs p s = (Err, fs).
Proof. intros [c Hc]. unfold fs_flush. by rewrite Hc. Qed.

Lemma fs_flush_creates fs p s :
  fs_files fs !! p = None →
  ∃ fs', fs_flush fs p s = (Ok (), fs') ∧
         fs_files fs' !! p = Some (Bolt s) ∧
         (∀ q, q ≠ p → fs_files fs' !! q = fs_files fs !! q) ∧
         fs_readers fs' = fs_readers fs ∧ fs_writer fs' = fs_writer fs.
Proof.
  intros Hnone. unfold fs_flush. rewrite Hnone. eexists. split; [done|]. cbn.
  split; [by rewrite lookup_insert|]. split; [|done].
  intros q Hne. by rewrite lookup_insert_ne.
Qed.

(** A flush changes the file system only by creating its own path; every other operation of
    the model leaves all file contents alone. *)
Lemma fs_flush_files fs p s q c :
  fs_files fs !! q = Some c → fs_files (fs_flush fs p s).2 !! q = Some c.
Proof.
  intros Hq. unfold fs_flush. destruct (fs_files fs !! p) eqn:Hp; [done|].
  cbn. rewrite lookup_insert_ne; [done|]. intros ->. congruence.
Qed.

Print Assumptions C06_mem.
Print Assumptions C06_big.
Print Assumptions C06_never_panics.
Print Assumptions C06_pinned_refuted.
Print Assumptions fs_run_spec.
Print Assumptions fs_run_locked.
Print Assumptions fs_close_releases.
Print Assumptions fs_flush_no_clobber.
Print Assumptions fs_flush_creates.

(** Proofs about the query-parser model [QParser]: the lexer always terminates its stream with
    exactly one [TEOF]/[TError]; the fuelled parser is monotone in its fuel, never runs out of
    fuel with [parse_fuel], and accepts exactly the grammar [G_query], returning the tree the
    grammar prescribes. *)
From updog Require Import Prelude QParser.
From Coq Require Import ZifyN ZifyNat ZifyBool.

(** * Token equality *)
Lemma tok_eqb_eq a b : tok_eqb a b = true ↔ a = b.
Proof.
  destruct a, b; simpl; try (split; congruence);
    rewrite str_eqb_eq; split; congruence.
Qed.

Lemma tok_eqb_refl a : tok_eqb a a = true.
Proof. by apply tok_eqb_eq. Qed.

Definition hd_not (op : tok) (rest : list tok) : Prop :=
  match rest with t :: _ => tok_eqb t op = false | [] => True end.

(** * T1: shape of the lexer's output *)
Definition lex_shaped (l : list tok) : Prop :=
  ∃ ts t, l = ts ++ [t] ∧ (t = TEOF ∨ t = TError) ∧ Forall plain_tok ts.

Lemma lex_shaped_eof : lex_shaped [TEOF].
Proof. exists [], TEOF. repeat split; auto. Qed.

Lemma lex_shaped_error : lex_shaped [TError].
Proof. exists [], TError. repeat split; auto. Qed.

Lemma lex_shaped_cons t l : plain_tok t → lex_shaped l → lex_shaped (t :: l).
Proof.
  intros Ht (ts & t' & -> & Hend & Hall). exists (t :: ts), t'.
  repeat split; auto.
Qed.

Lemma single_tok_plain b t : single_tok b = Some t → plain_tok t.
Proof.
  unfold single_tok. intros H.
  repeat match type of H with
         | (if ?c then _ else _) = _ => destruct c
         end; inversion H; subst; split; discriminate.
Qed.

Definition text_step (b : N) (s' : str) : list tok :=
  if is_ws b then lex_go MText [] s'
  else match single_tok b with
       | Some t => t :: lex_go MText [] s'
       | None =>
           if is_alpha b then lex_go MField [b] s'
           else if (b =? quote)%N then lex_go MValue [b] s'
           else if (b =? dollar)%N then lex_go MPh [b] s'
           else [TError]
       end.

Lemma lex_go_cons m acc b s' :
  lex_go m acc (b :: s') =
  match m with
  | MText => text_step b s'
  | MField => if is_ident b then lex_go MField (b :: acc) s' else TField (rev acc) :: text_step b s'
  | MPh => if is_digit b then lex_go MPh (b :: acc) s' else TPh (rev acc) :: text_step b s'
  | MValue => if (b =? quote)%N then lex_go MValueQ (b :: acc) s' else lex_go MValue (b :: acc) s'
  | MValueQ => if (b =? quote)%N then lex_go MValue (b :: acc) s' else TValue (rev acc) :: text_step b s'
  end.
Proof. destruct m; reflexivity. Qed.

Lemma plain_field s : plain_tok (TField s).
Proof. split; discriminate. Qed.
Lemma plain_value s : plain_tok (TValue s).
Proof. split; discriminate. Qed.
Lemma plain_ph s : plain_tok (TPh s).
Proof. split; discriminate. Qed.

Lemma lex_go_shape s : ∀ m acc, lex_shaped (lex_go m acc s).
Proof.
  induction s as [|b s' IH]; intros m acc.
  - destruct m; simpl;
      auto using lex_shaped_eof, lex_shaped_error, lex_shaped_cons,
        plain_field, plain_value, plain_ph.
  - assert (lex_shaped (text_step b s')) as Htext.
    { unfold text_step. destruct (is_ws b); [apply IH|].
      destruct (single_tok b) as [t|] eqn:Et.
      - apply lex_shaped_cons; [by eapply single_tok_plain | apply IH].
      - destruct (is_alpha b); [apply IH|].
        destruct (b =? quote)%N; [apply IH|].
        destruct (b =? dollar)%N; [apply IH|]. apply lex_shaped_error. }
    rewrite lex_go_cons. destruct m.
    + done.
    + destruct (is_ident b); [apply IH|]. apply lex_shaped_cons; [apply plain_field | done].
    + destruct (is_digit b); [apply IH|]. apply lex_shaped_cons; [apply plain_ph | done].
    + destruct (b =? quote)%N; apply IH.
    + destruct (b =? quote)%N; [apply IH|]. apply lex_shaped_cons; [apply plain_value | done].
Qed.

Theorem lex_shape s :
  ∃ ts t, lex s = ts ++ [t] ∧ (t = TEOF ∨ t = TError) ∧ Forall plain_tok ts.
Proof. apply lex_go_shape. Qed.

(** * Unfolding lemmas for the fuelled parser *)
Inductive sclass :=
| CGroup (r : list tok)
| CNot (r : list tok)
| CLeaf (e : pexpr) (r : list tok)
| CBad.

Definition classify (ts : list tok) : sclass :=
  match ts with
  | TLP :: r => CGroup r
  | TNot :: r => CNot r
  | TField c :: TEq :: TValue raw :: r => CLeaf (PEq c (decode_string raw) 0) r
  | TField c :: TEq :: TPh raw :: r =>
      match decode_placeholder raw with
      | Some n => CLeaf (PEq c [] n) r
      | None => CBad
      end
  | _ => CBad
  end.

Definition close_group (x : res (pexpr * list tok)) : res (pexpr * list tok) :=
  match x with
  | Good (e, TRP :: r') => Good (e, r')
  | Good _ => Bad
  | Bad => Bad
  | Fuel => Fuel
  end.

Definition wrap_not (x : res (pexpr * list tok)) : res (pexpr * list tok) :=
  match x with
  | Good (e, r') => Good (PNot e, r')
  | Bad => Bad
  | Fuel => Fuel
  end.

Definition wrap (mk : list pexpr → pexpr) (x : res (list pexpr * list tok)) : res (pexpr * list tok) :=
  match x with
  | Good (es, r') => Good (mk es, r')
  | Bad => Bad
  | Fuel => Fuel
  end.

Lemma parse_simple_0 ts : parse_simple 0 ts = Fuel.
Proof. reflexivity. Qed.
Lemma parse_expr_aux_0 ts : parse_expr_aux 0 ts = Fuel.
Proof. reflexivity. Qed.
Lemma parse_chain_0 op acc ts : parse_chain 0 op acc ts = Fuel.
Proof. reflexivity. Qed.

Lemma parse_simple_S f ts :
  parse_simple (S f) ts =
  match classify ts with
  | CGroup r => close_group (parse_expr_aux f r)
  | CNot r => wrap_not (parse_simple f r)
  | CLeaf e r => Good (e, r)
  | CBad => Bad
  end.
Proof.
  destruct ts as [|t ts]; [reflexivity|].
  destruct t; try reflexivity.
  destruct ts as [|t ts]; [reflexivity|].
  destruct t; try reflexivity.
  destruct ts as [|t ts]; [reflexivity|].
  destruct t; try reflexivity.
  unfold classify. cbn [parse_simple]. destruct (decode_placeholder raw); reflexivity.
Qed.

Lemma parse_expr_aux_S f ts :
  parse_expr_aux (S f) ts =
  match parse_simple f ts with
  | Good (e, r) =>
      match r with
      | TAnd :: _ => wrap PAnd (parse_chain f TAnd [e] r)
      | TOr :: _ => wrap POr (parse_chain f TOr [e] r)
      | _ => Good (e, r)
      end
  | Bad => Bad
  | Fuel => Fuel
  end.
Proof. reflexivity. Qed.

Lemma parse_chain_S f op acc ts :
  parse_chain (S f) op acc ts =
  match ts with
  | t :: r =>
      if tok_eqb t op then
        match parse_simple f r with
        | Good (e, r') => parse_chain f op (acc ++ [e]) r'
        | Bad => Bad
        | Fuel => Fuel
        end
      else Good (acc, ts)
  | [] => Good (acc, ts)
  end.
Proof. reflexivity. Qed.

Lemma close_group_good x e r' : close_group x = Good (e, r') → x = Good (e, TRP :: r').
Proof.
  destruct x as [| |[e0 [|t r0]]]; simpl; try discriminate.
  destruct t; try discriminate. by intros [= -> ->].
Qed.

Lemma close_group_fuel x : close_group x = Fuel → x = Fuel.
Proof.
  destruct x as [| |[e0 [|t r0]]]; simpl; try discriminate; [done|].
  destruct t; discriminate.
Qed.

Lemma wrap_not_good x e r' : wrap_not x = Good (e, r') → ∃ e0, x = Good (e0, r') ∧ e = PNot e0.
Proof. destruct x as [| |[e0 r0]]; simpl; try discriminate. intros [= <- <-]. eauto. Qed.

Lemma wrap_not_fuel x : wrap_not x = Fuel → x = Fuel.
Proof. destruct x as [| |[e0 r0]]; simpl; try discriminate; done. Qed.

Lemma wrap_good mk x e r' : wrap mk x = Good (e, r') → ∃ es, x = Good (es, r') ∧ e = mk es.
Proof. destruct x as [| |[es r0]]; simpl; try discriminate. intros [= <- <-]. eauto. Qed.

Lemma wrap_fuel mk x : wrap mk x = Fuel → x = Fuel.
Proof. destruct x as [| |[e0 r0]]; simpl; try discriminate; done. Qed.

(** A view of [classify] that hides the deep pattern match. *)
Inductive classify_view : list tok → sclass → Prop :=
| cv_group r : classify_view (TLP :: r) (CGroup r)
| cv_not r : classify_view (TNot :: r) (CNot r)
| cv_lit c raw r :
    classify_view (TField c :: TEq :: TValue raw :: r) (CLeaf (PEq c (decode_string raw) 0) r)
| cv_ph c raw n r :
    decode_placeholder raw = Some n →
    classify_view (TField c :: TEq :: TPh raw :: r) (CLeaf (PEq c [] n) r)
| cv_bad ts : classify_view ts CBad.

Lemma classify_spec ts : classify_view ts (classify ts).
Proof.
  destruct ts as [|t ts]; [constructor|].
  destruct t; try constructor.
  destruct ts as [|t ts]; [constructor|].
  destruct t; try constructor.
  destruct ts as [|t ts]; [constructor|].
  destruct t; try constructor.
  unfold classify. destruct (decode_placeholder raw) eqn:E; by constructor.
Qed.

Lemma classify_ph c raw n r :
  decode_placeholder raw = Some n →
  classify (TField c :: TEq :: TPh raw :: r) = CLeaf (PEq c [] n) r.
Proof. intros H. unfold classify. by rewrite H. Qed.

(** * T2: fuel monotonicity *)
Definition mono_at (f : nat) : Prop :=
  (∀ ts f', f ≤ f' → parse_simple f ts ≠ Fuel → parse_simple f' ts = parse_simple f ts) ∧
  (∀ ts f', f ≤ f' → parse_expr_aux f ts ≠ Fuel → parse_expr_aux f' ts = parse_expr_aux f ts) ∧
  (∀ op acc ts f', f ≤ f' → parse_chain f op acc ts ≠ Fuel →
                   parse_chain f' op acc ts = parse_chain f op acc ts).

Lemma parse_mono : ∀ f, mono_at f.
Proof.
  induction f as [|f (IHs & IHe & IHc)]; (split; [|split]).
  - intros ts f' _ H. exfalso. by apply H.
  - intros ts f' _ H. exfalso. by apply H.
  - intros op acc ts f' _ H. exfalso. by apply H.
  - intros ts [|f'] Hle H; [lia|].
    rewrite parse_simple_S in H. rewrite !parse_simple_S.
    destruct (classify ts) as [r|r|e r|]; try reflexivity.
    + assert (parse_expr_aux f r ≠ Fuel) as Hn by (intros E; by rewrite E in H).
      by rewrite (IHe r f' ltac:(lia) Hn).
    + assert (parse_simple f r ≠ Fuel) as Hn by (intros E; by rewrite E in H).
      by rewrite (IHs r f' ltac:(lia) Hn).
  - intros ts [|f'] Hle H; [lia|].
    rewrite parse_expr_aux_S in H. rewrite !parse_expr_aux_S.
    assert (parse_simple f ts ≠ Fuel) as Hn by (intros E; by rewrite E in H).
    rewrite (IHs ts f' ltac:(lia) Hn).
    destruct (parse_simple f ts) as [| |[e r]]; try reflexivity.
    destruct r as [|t r]; [reflexivity|]. destruct t; try reflexivity.
    + assert (parse_chain f TAnd [e] (TAnd :: r) ≠ Fuel) as Hn2 by (intros E; by rewrite E in H).
      by rewrite (IHc _ _ _ f' ltac:(lia) Hn2).
    + assert (parse_chain f TOr [e] (TOr :: r) ≠ Fuel) as Hn2 by (intros E; by rewrite E in H).
      by rewrite (IHc _ _ _ f' ltac:(lia) Hn2).
  - intros op acc ts [|f'] Hle H; [lia|].
    rewrite parse_chain_S in H. rewrite !parse_chain_S.
    destruct ts as [|t r]; [reflexivity|].
    destruct (tok_eqb t op); [|reflexivity].
    assert (parse_simple f r ≠ Fuel) as Hn by (intros E; by rewrite E in H).
    rewrite (IHs r f' ltac:(lia) Hn).
    destruct (parse_simple f r) as [| |[e r']]; try reflexivity.
    apply IHc; [lia | done].
Qed.

Lemma parse_simple_mono f f' ts :
  f ≤ f' → parse_simple f ts ≠ Fuel → parse_simple f' ts = parse_simple f ts.
Proof. intros. by apply (parse_mono f). Qed.
Lemma parse_expr_aux_mono f f' ts :
  f ≤ f' → parse_expr_aux f ts ≠ Fuel → parse_expr_aux f' ts = parse_expr_aux f ts.
Proof. intros. by apply (parse_mono f). Qed.
Lemma parse_chain_mono f f' op acc ts :
  f ≤ f' → parse_chain f op acc ts ≠ Fuel → parse_chain f' op acc ts = parse_chain f op acc ts.
Proof. intros. by apply (parse_mono f). Qed.

Theorem parse_simple_mono_good f f' ts x :
  parse_simple f ts = Good x → f ≤ f' → parse_simple f' ts = Good x.
Proof. intros H Hle. rewrite <- H. apply parse_simple_mono; [done|]. by rewrite H. Qed.
Theorem parse_simple_mono_bad f f' ts :
  parse_simple f ts = Bad → f ≤ f' → parse_simple f' ts = Bad.
Proof. intros H Hle. rewrite <- H. apply parse_simple_mono; [done|]. by rewrite H. Qed.
Theorem parse_expr_aux_mono_good f f' ts x :
  parse_expr_aux f ts = Good x → f ≤ f' → parse_expr_aux f' ts = Good x.
Proof. intros H Hle. rewrite <- H. apply parse_expr_aux_mono; [done|]. by rewrite H. Qed.
Theorem parse_expr_aux_mono_bad f f' ts :
  parse_expr_aux f ts = Bad → f ≤ f' → parse_expr_aux f' ts = Bad.
Proof. intros H Hle. rewrite <- H. apply parse_expr_aux_mono; [done|]. by rewrite H. Qed.
Theorem parse_chain_mono_good f f' op acc ts x :
  parse_chain f op acc ts = Good x → f ≤ f' → parse_chain f' op acc ts = Good x.
Proof. intros H Hle. rewrite <- H. apply parse_chain_mono; [done|]. by rewrite H. Qed.
Theorem parse_chain_mono_bad f f' op acc ts :
  parse_chain f op acc ts = Bad → f ≤ f' → parse_chain f' op acc ts = Bad.
Proof. intros H Hle. rewrite <- H. apply parse_chain_mono; [done|]. by rewrite H. Qed.

(** * Right-nested view of chains *)
(** [ChainTail P op tail es]: [tail] is a sequence [op s1 op s2 … op sk] where each [si] is a
    [P]-phrase with tree [ei], and [es = [e1; …; ek]].  This is what [parse_chain] consumes. *)
Inductive ChainTail (P : list tok → pexpr → Prop) (op : tok) : list tok → list pexpr → Prop :=
| CT_nil : ChainTail P op [] []
| CT_cons ts1 e1 tail es :
    P ts1 e1 → ChainTail P op tail es → ChainTail P op (op :: ts1 ++ tail) (e1 :: es).

Lemma ChainTail_snoc P op tail es ts e :
  ChainTail P op tail es → P ts e → ChainTail P op (tail ++ op :: ts) (es ++ [e]).
Proof.
  intros HT Hp. induction HT as [|ts1 e1 tail es H1 HT IH]; simpl.
  - rewrite <- (app_nil_r ts). by repeat constructor.
  - rewrite <- app_assoc. by constructor.
Qed.

Lemma ChainTail_head P op tail es :
  ChainTail P op tail es → es ≠ [] → ∃ r, tail = op :: r.
Proof. intros [|ts1 e1 tail' es' H1 HT] Hne; [done|eauto]. Qed.

Lemma G_chain_tail op ts es tail es' :
  G_chain op ts es → ChainTail G_simple op tail es' → G_chain op (ts ++ tail) (es ++ es').
Proof.
  intros HG HT. revert ts es HG.
  induction HT as [|ts1 e1 tail es' H1 HT IH]; intros ts es HG.
  - by rewrite !app_nil_r.
  - replace (ts ++ op :: ts1 ++ tail) with ((ts ++ op :: ts1) ++ tail)
      by (by rewrite <- app_assoc).
    replace (es ++ e1 :: es') with ((es ++ [e1]) ++ es') by (by rewrite <- app_assoc).
    apply IH. by apply Gc_more.
Qed.

Lemma G_chain_build op ts1 e1 ts2 e2 tail es :
  G_simple ts1 e1 → G_simple ts2 e2 → ChainTail G_simple op tail es →
  G_chain op (ts1 ++ op :: ts2 ++ tail) (e1 :: e2 :: es).
Proof.
  intros H1 H2 HT.
  replace (ts1 ++ op :: ts2 ++ tail) with ((ts1 ++ op :: ts2) ++ tail)
    by (by rewrite <- app_assoc).
  change (e1 :: e2 :: es) with ([e1; e2] ++ es).
  apply G_chain_tail; [|done]. by apply Gc_two.
Qed.

(** * T6: soundness of the three parsing functions *)
Definition sound_at (f : nat) : Prop :=
  (∀ ts e r, parse_simple f ts = Good (e, r) → ∃ pre, ts = pre ++ r ∧ G_simple pre e) ∧
  (∀ ts e r, parse_expr_aux f ts = Good (e, r) → ∃ pre, ts = pre ++ r ∧ G_expr pre e) ∧
  (∀ op acc ts es r, parse_chain f op acc ts = Good (es, r) →
     ∃ pre es', ts = pre ++ r ∧ es = acc ++ es' ∧ ChainTail G_simple op pre es').

Lemma parse_sound_fuel : ∀ f, sound_at f.
Proof.
  induction f as [|f (IHs & IHe & IHc)]; (split; [|split]).
  - intros ts e r H. discriminate.
  - intros ts e r H. discriminate.
  - intros op acc ts es r H. discriminate.
  - intros ts e r. rewrite parse_simple_S.
    destruct (classify_spec ts) as [r0|r0|c raw r0|c raw n r0 Hn|ts]; intros H.
    + apply close_group_good in H. apply IHe in H as (pre & -> & HG).
      exists (TLP :: pre ++ [TRP]). split; [simpl; by rewrite <- app_assoc|].
      by apply Gs_group.
    + apply wrap_not_good in H as (e0 & H & ->). apply IHs in H as (pre & -> & HG).
      exists (TNot :: pre). split; [done|]. by apply Gs_not.
    + injection H as <- <-. exists [TField c; TEq; TValue raw]. split; [done|]. apply Gs_lit.
    + injection H as <- <-. exists [TField c; TEq; TPh raw]. split; [done|]. by apply Gs_ph.
    + discriminate.
  - assert (∀ op e1 r1 es r', parse_chain f op [e1] (op :: r1) = Good (es, r') →
              ∃ pre2 e2 pre3 es', r1 = pre2 ++ pre3 ++ r' ∧ es = e1 :: e2 :: es' ∧
                G_simple pre2 e2 ∧ ChainTail G_simple op pre3 es') as Hstart.
    { intros op e1 r1 es r' H.
      apply (parse_chain_mono_good f (S f)) in H; [|lia].
      rewrite parse_chain_S, tok_eqb_refl in H.
      destruct (parse_simple f r1) as [| |[e2 r2]] eqn:E2; try discriminate.
      apply IHs in E2 as (pre2 & -> & HG2).
      apply IHc in H as (pre3 & es' & -> & -> & HT).
      exists pre2, e2, pre3, es'. by rewrite <- app_assoc. }
    intros ts e r H. rewrite parse_expr_aux_S in H.
    destruct (parse_simple f ts) as [| |[e1 r1]] eqn:E1; try discriminate.
    apply IHs in E1 as (pre1 & -> & HG1).
    destruct r1 as [|t r1].
    { injection H as <- <-. exists pre1. split; [done|]. by apply Ge_simple. }
    destruct t; try (injection H as <- <-; exists pre1; split; [done|]; by apply Ge_simple).
    + apply wrap_good in H as (es & H & ->).
      apply Hstart in H as (pre2 & e2 & pre3 & es' & -> & -> & HG2 & HT).
      exists (pre1 ++ TAnd :: pre2 ++ pre3). split.
      { rewrite <- !app_assoc. simpl. by rewrite <- !app_assoc. }
      apply Ge_and. by apply G_chain_build.
    + apply wrap_good in H as (es & H & ->).
      apply Hstart in H as (pre2 & e2 & pre3 & es' & -> & -> & HG2 & HT).
      exists (pre1 ++ TOr :: pre2 ++ pre3). split.
      { rewrite <- !app_assoc. simpl. by rewrite <- !app_assoc. }
      apply Ge_or. by apply G_chain_build.
  - intros op acc ts es r H. rewrite parse_chain_S in H.
    destruct ts as [|t ts].
    { injection H as <- <-. exists [], []. split; [done|]. split; [by rewrite app_nil_r|constructor]. }
    destruct (tok_eqb t op) eqn:Et.
    + apply tok_eqb_eq in Et as ->.
      destruct (parse_simple f ts) as [| |[e1 r1]] eqn:E1; try discriminate.
      apply IHs in E1 as (pre1 & -> & HG1).
      apply IHc in H as (pre2 & es' & -> & -> & HT).
      exists (op :: pre1 ++ pre2), (e1 :: es'). split; [|split].
      * simpl. by rewrite <- app_assoc.
      * by rewrite <- app_assoc.
      * by constructor.
    + injection H as <- <-. exists [], []. split; [done|]. split; [by rewrite app_nil_r|constructor].
Qed.

Theorem parse_simple_sound f ts e r :
  parse_simple f ts = Good (e, r) → ∃ pre, ts = pre ++ r ∧ G_simple pre e.
Proof. apply (parse_sound_fuel f). Qed.

Theorem parse_expr_aux_sound f ts e r :
  parse_expr_aux f ts = Good (e, r) → ∃ pre, ts = pre ++ r ∧ G_expr pre e.
Proof. apply (parse_sound_fuel f). Qed.

Theorem parse_chain_sound f op acc ts es r :
  parse_chain f op acc ts = Good (es, r) →
  ∃ pre es', ts = pre ++ r ∧ es = acc ++ es' ∧ ChainTail G_simple op pre es'.
Proof. apply (parse_sound_fuel f). Qed.

(** * T3: the remaining tokens are a (strict) suffix *)
Lemma G_simple_nonnil ts e : G_simple ts e → ts ≠ [].
Proof. by intros []. Qed.

Lemma G_chain_nonnil op ts es : G_chain op ts es → ts ≠ [].
Proof. intros [] Heq; by apply app_eq_nil in Heq as [_ ?]. Qed.

Lemma G_expr_nonnil ts e : G_expr ts e → ts ≠ [].
Proof. intros []; eauto using G_simple_nonnil, G_chain_nonnil. Qed.

Theorem parse_simple_suffix f ts e r :
  parse_simple f ts = Good (e, r) → ∃ pre, ts = pre ++ r ∧ pre ≠ [].
Proof.
  intros H. apply parse_simple_sound in H as (pre & -> & HG).
  exists pre. split; [done|]. by eapply G_simple_nonnil.
Qed.

Theorem parse_expr_aux_suffix f ts e r :
  parse_expr_aux f ts = Good (e, r) → ∃ pre, ts = pre ++ r ∧ pre ≠ [].
Proof.
  intros H. apply parse_expr_aux_sound in H as (pre & -> & HG).
  exists pre. split; [done|]. by eapply G_expr_nonnil.
Qed.

Theorem parse_chain_suffix f op acc ts es r :
  parse_chain f op acc ts = Good (es, r) → ∃ pre, ts = pre ++ r.
Proof. intros H. apply parse_chain_sound in H as (pre & es' & -> & _). eauto. Qed.

Lemma parse_simple_shorter f ts e r :
  parse_simple f ts = Good (e, r) → length r < length ts.
Proof.
  intros H. apply parse_simple_suffix in H as (pre & -> & Hne).
  rewrite app_length. destruct pre; [done|]. simpl. lia.
Qed.

(** * T4: [parse_fuel] is enough *)
Definition nofuel_at (f : nat) : Prop :=
  (∀ ts, 2 * length ts + 1 ≤ f → parse_simple f ts ≠ Fuel) ∧
  (∀ ts, 2 * length ts + 2 ≤ f → parse_expr_aux f ts ≠ Fuel) ∧
  (∀ op acc ts, 2 * length ts + 1 ≤ f → parse_chain f op acc ts ≠ Fuel).

Lemma parse_nofuel : ∀ f, nofuel_at f.
Proof.
  induction f as [|f (IHs & IHe & IHc)]; (split; [|split]).
  - intros ts Hle. lia.
  - intros ts Hle. lia.
  - intros op acc ts Hle. lia.
  - intros ts. rewrite parse_simple_S.
    destruct (classify_spec ts) as [r0|r0|c raw r0|c raw n r0 Hn|ts]; simpl length;
      intros Hle H; try discriminate.
    + apply close_group_fuel in H. revert H. apply IHe. lia.
    + apply wrap_not_fuel in H. revert H. apply IHs. lia.
  - intros ts Hle. rewrite parse_expr_aux_S.
    pose proof (IHs ts ltac:(lia)) as Hs.
    destruct (parse_simple f ts) as [| |[e r]] eqn:E; [done|discriminate|].
    apply parse_simple_shorter in E.
    destruct r as [|t r]; [discriminate|].
    destruct t; try discriminate.
    + intros H. apply wrap_fuel in H. revert H. apply IHc. lia.
    + intros H. apply wrap_fuel in H. revert H. apply IHc. lia.
  - intros op acc ts Hle. rewrite parse_chain_S.
    destruct ts as [|t ts]; [discriminate|]. simpl length in Hle.
    destruct (tok_eqb t op); [|discriminate].
    pose proof (IHs ts ltac:(lia)) as Hs.
    destruct (parse_simple f ts) as [| |[e r]] eqn:E; [done|discriminate|].
    apply parse_simple_shorter in E. apply IHc. lia.
Qed.

Lemma parse_expr_aux_nofuel f ts : 2 * length ts + 2 ≤ f → parse_expr_aux f ts ≠ Fuel.
Proof. apply (parse_nofuel f). Qed.

(** * The field list *)
Inductive FieldsTail : list tok → list str → Prop :=
| FT_nil : FieldsTail [] []
| FT_cons c tail cs : FieldsTail tail cs → FieldsTail (TComma :: TField c :: tail) (c :: cs).

Lemma FieldsTail_snoc tail cs c :
  FieldsTail tail cs → FieldsTail (tail ++ [TComma; TField c]) (cs ++ [c]).
Proof. induction 1; simpl; by repeat constructor. Qed.

Lemma parse_fields_more_spec n : ∀ ts, length ts ≤ n →
  parse_fields_more ts = Bad ∨
  ∃ cs r pre, parse_fields_more ts = Good (cs, r) ∧ ts = pre ++ r ∧ FieldsTail pre cs.
Proof.
  induction n as [|n IH]; intros ts Hn.
  { destruct ts; [|simpl in Hn; lia]. right. exists [], [], []. repeat split. constructor. }
  assert (∀ ts', parse_fields_more ts' = Good ([], ts') →
     parse_fields_more ts' = Bad ∨
     ∃ cs r pre, parse_fields_more ts' = Good (cs, r) ∧ ts' = pre ++ r ∧ FieldsTail pre cs) as Hother.
  { intros ts' E. right. exists [], ts', []. repeat split; [done|constructor]. }
  destruct ts as [|t ts]; [by apply Hother|].
  destruct t; try by apply Hother.
  destruct ts as [|t2 ts]; [by left|].
  destruct t2; try by left.
  simpl in Hn. destruct (IH ts ltac:(lia)) as [E|(cs & r & pre & E & -> & HT)].
  - left. simpl. by rewrite E.
  - right. exists (s :: cs), r, (TComma :: TField s :: pre). simpl. rewrite E.
    repeat split. by constructor.
Qed.

Lemma parse_fields_more_nofuel ts : parse_fields_more ts ≠ Fuel.
Proof.
  destruct (parse_fields_more_spec (length ts) ts ltac:(lia)) as [E|(cs & r & pre & E & _)];
    by rewrite E.
Qed.

Lemma parse_fields_nofuel ts : parse_fields ts ≠ Fuel.
Proof.
  destruct ts as [|t ts]; [discriminate|]. destruct t; try discriminate. simpl.
  pose proof (parse_fields_more_nofuel ts) as H.
  destruct (parse_fields_more ts) as [| |[cs r]]; done.
Qed.

Lemma G_fields_tail ts cs tail cs' :
  G_fields ts cs → FieldsTail tail cs' → G_fields (ts ++ tail) (cs ++ cs').
Proof.
  intros HG HT. revert ts cs HG.
  induction HT as [|c tail cs' HT IH]; intros ts cs HG.
  - by rewrite !app_nil_r.
  - replace (ts ++ TComma :: TField c :: tail) with ((ts ++ [TComma; TField c]) ++ tail)
      by (by rewrite <- app_assoc).
    replace (cs ++ c :: cs') with ((cs ++ [c]) ++ cs') by (by rewrite <- app_assoc).
    apply IH. by apply Gf_more.
Qed.

Lemma parse_fields_sound ts cs r :
  parse_fields ts = Good (cs, r) → ∃ pre, ts = pre ++ r ∧ G_fields pre cs.
Proof.
  destruct ts as [|t ts]; [discriminate|]. destruct t; try discriminate. simpl.
  destruct (parse_fields_more_spec (length ts) ts ltac:(lia)) as [E|(cs' & r' & pre & E & -> & HT)];
    rewrite E; [discriminate|].
  intros [= <- <-]. exists (TField s :: pre). split; [done|].
  change (TField s :: pre) with ([TField s] ++ pre). change (s :: cs') with ([s] ++ cs').
  apply G_fields_tail; [constructor | done].
Qed.

Lemma G_fields_view fs cs :
  G_fields fs cs → ∃ c tail cs', fs = TField c :: tail ∧ cs = c :: cs' ∧ FieldsTail tail cs'.
Proof.
  induction 1 as [c|ts cs c HG (c0 & tail & cs' & -> & -> & HT)].
  - exists c, [], []. repeat split. constructor.
  - exists c0, (tail ++ [TComma; TField c]), (cs' ++ [c]). repeat split.
    by apply FieldsTail_snoc.
Qed.

Lemma parse_fields_more_complete tail cs :
  FieldsTail tail cs → ∀ rest, hd_not TComma rest →
  parse_fields_more (tail ++ rest) = Good (cs, rest).
Proof.
  induction 1 as [|c tail cs HT IH]; intros rest Hr.
  - simpl. destruct rest as [|t rest]; [done|]. destruct t; try reflexivity. discriminate.
  - simpl. by rewrite IH.
Qed.

Lemma parse_fields_complete fs cs rest :
  G_fields fs cs → hd_not TComma rest → parse_fields (fs ++ rest) = Good (cs, rest).
Proof.
  intros HG Hr. apply G_fields_view in HG as (c & tail & cs' & -> & -> & HT).
  simpl. by rewrite (parse_fields_more_complete _ _ HT).
Qed.

(** * The top level *)
Definition finish (e : pexpr) (r : list tok) : res pquery :=
  match r with
  | [TEOF] => Good (PQuery e [])
  | TSemi :: r' =>
      match parse_fields r' with
      | Good (cs, [TEOF]) => Good (PQuery e cs)
      | Good _ => Bad
      | Bad => Bad
      | Fuel => Fuel
      end
  | _ => Bad
  end.

Lemma parse_tokens_fuel_eq f ts :
  parse_tokens_fuel f ts =
  match parse_expr_aux f ts with
  | Good (e, r) => finish e r
  | Bad => Bad
  | Fuel => Fuel
  end.
Proof. reflexivity. Qed.

Lemma finish_good e r q :
  finish e r = Good q →
  (r = [TEOF] ∧ q = PQuery e []) ∨
  (∃ r' cs, r = TSemi :: r' ∧ parse_fields r' = Good (cs, [TEOF]) ∧ q = PQuery e cs).
Proof.
  destruct r as [|t r]; [discriminate|]. destruct t; try discriminate; simpl.
  - destruct (parse_fields r) as [| |[cs [|t2 r2]]] eqn:E; try discriminate.
    destruct t2; try discriminate. destruct r2; try discriminate.
    intros [= <-]. right. by exists r, cs.
  - destruct r; [|discriminate]. intros [= <-]. by left.
Qed.

Lemma finish_nofuel e r : finish e r ≠ Fuel.
Proof.
  destruct r as [|t r]; [discriminate|]. destruct t; try discriminate; simpl.
  - pose proof (parse_fields_nofuel r) as H.
    destruct (parse_fields r) as [| |[cs [|t2 r2]]]; try done.
    destruct t2; try done. destruct r2; done.
  - destruct r; discriminate.
Qed.

(** T4 *)
Theorem parse_tokens_nofuel ts : parse_tokens ts ≠ Fuel.
Proof.
  unfold parse_tokens. rewrite parse_tokens_fuel_eq.
  pose proof (parse_expr_aux_nofuel (parse_fuel ts) ts ltac:(unfold parse_fuel; lia)) as H.
  destruct (parse_expr_aux (parse_fuel ts) ts) as [| |[e r]]; [done|discriminate|].
  apply finish_nofuel.
Qed.

Corollary parse_query_total s : parse_query s ≠ Panic ∧ parse_query s ≠ Hang.
Proof.
  unfold parse_query. pose proof (parse_tokens_nofuel (lex s)) as H.
  destruct (parse_tokens (lex s)); done.
Qed.

(** Any fuel at which the run is not [Fuel] gives the result of [parse_tokens]. *)
Lemma parse_tokens_fuel_stable f ts :
  parse_tokens_fuel f ts ≠ Fuel → parse_tokens ts = parse_tokens_fuel f ts.
Proof.
  intros Hf. unfold parse_tokens. rewrite !parse_tokens_fuel_eq in *.
  assert (parse_expr_aux f ts ≠ Fuel) as Hn by (intros E; by rewrite E in Hf).
  assert (parse_expr_aux (parse_fuel ts) ts ≠ Fuel) as Hn'
    by (apply parse_expr_aux_nofuel; unfold parse_fuel; lia).
  rewrite <- (parse_expr_aux_mono (parse_fuel ts) (f `max` parse_fuel ts) ts ltac:(lia) Hn').
  by rewrite (parse_expr_aux_mono f (f `max` parse_fuel ts) ts ltac:(lia) Hn).
Qed.

(** * T5: completeness *)
Scheme G_simple_min := Minimality for G_simple Sort Prop
  with G_chain_min := Minimality for G_chain Sort Prop
  with G_expr_min := Minimality for G_expr Sort Prop.
Combined Scheme G_mutind from G_simple_min, G_chain_min, G_expr_min.

Definition C_simple (ts : list tok) (e : pexpr) : Prop :=
  ∀ rest, ∃ f0, ∀ f, f0 ≤ f → parse_simple f (ts ++ rest) = Good (e, rest).

Definition C_chain (op : tok) (ts : list tok) (es : list pexpr) : Prop :=
  ∃ ts1 e1 tail es',
    ts = ts1 ++ tail ∧ es = e1 :: es' ∧ C_simple ts1 e1 ∧
    ChainTail C_simple op tail es' ∧ es' ≠ [].

Definition C_expr (ts : list tok) (e : pexpr) : Prop :=
  ∀ rest, hd_not TAnd rest → hd_not TOr rest →
    ∃ f0, ∀ f, f0 ≤ f → parse_expr_aux f (ts ++ rest) = Good (e, rest).

Lemma chain_tail_complete op tail es :
  ChainTail C_simple op tail es → ∀ acc rest, hd_not op rest →
  ∃ f0, ∀ f, f0 ≤ f → parse_chain f op acc (tail ++ rest) = Good (acc ++ es, rest).
Proof.
  induction 1 as [|ts1 e1 tail es H1 HT IH]; intros acc rest Hr.
  - exists 1. intros [|f] Hf; [lia|]. rewrite parse_chain_S, app_nil_r. simpl.
    destruct rest as [|t rest]; [done|]. simpl in Hr. by rewrite Hr.
  - destruct (H1 (tail ++ rest)) as [f1 Hf1].
    destruct (IH (acc ++ [e1]) rest Hr) as [f2 Hf2].
    exists (S (f1 + f2)). intros [|f] Hf; [lia|].
    rewrite parse_chain_S. simpl. rewrite tok_eqb_refl, <- app_assoc.
    rewrite Hf1 by lia. rewrite Hf2 by lia. by rewrite <- app_assoc.
Qed.

Lemma C_chain_expr op mk ts es :
  (op = TAnd ∧ mk = PAnd) ∨ (op = TOr ∧ mk = POr) →
  C_chain op ts es → C_expr ts (mk es).
Proof.
  intros Hop (ts1 & e1 & tail & es' & -> & -> & H1 & HT & Hne) rest Ha Ho.
  assert (hd_not op rest) as Hr by (by destruct Hop as [[-> _]|[-> _]]).
  destruct (ChainTail_head _ _ _ _ HT Hne) as [r0 Ht].
  destruct (chain_tail_complete _ _ _ HT [e1] rest Hr) as [f2 Hf2].
  destruct (H1 (tail ++ rest)) as [f1 Hf1].
  exists (S (f1 + f2)). intros [|f] Hf; [lia|].
  rewrite parse_expr_aux_S, <- app_assoc. rewrite Hf1 by lia.
  specialize (Hf2 f ltac:(lia)). subst tail.
  destruct Hop as [[-> ->]|[-> ->]]; simpl; simpl in Hf2; by rewrite Hf2.
Qed.

Lemma parse_complete_fuel :
  (∀ ts e, G_simple ts e → C_simple ts e) ∧
  (∀ op ts es, G_chain op ts es → C_chain op ts es) ∧
  (∀ ts e, G_expr ts e → C_expr ts e).
Proof.
  apply G_mutind.
  - intros c raw rest. exists 1. intros [|f] Hf; [lia|]. by rewrite parse_simple_S.
  - intros c raw n Hn rest. exists 1. intros [|f] Hf; [lia|].
    rewrite parse_simple_S. simpl app. by rewrite (classify_ph _ _ _ _ Hn).
  - intros ts e _ IH rest. destruct (IH rest) as [f0 H0].
    exists (S f0). intros [|f] Hf; [lia|].
    rewrite parse_simple_S. simpl. by rewrite H0 by lia.
  - intros ts e _ IH rest. destruct (IH (TRP :: rest) eq_refl eq_refl) as [f0 H0].
    exists (S f0). intros [|f] Hf; [lia|].
    rewrite parse_simple_S. simpl. rewrite <- app_assoc. simpl. by rewrite H0 by lia.
  - intros op ts1 e1 ts2 e2 _ IH1 _ IH2.
    exists ts1, e1, (op :: ts2 ++ []), [e2]. split; [by rewrite app_nil_r|].
    split; [done|]. split; [done|]. split; [|done]. by repeat constructor.
  - intros op ts es ts' e _ (ts1 & e1 & tail & es' & -> & -> & H1 & HT & Hne) _ IH2.
    exists ts1, e1, (tail ++ op :: ts'), (es' ++ [e]). split; [by rewrite <- app_assoc|].
    split; [done|]. split; [done|]. split; [by apply ChainTail_snoc|].
    by destruct es'.
  - intros ts e _ IH rest Ha Ho. destruct (IH rest) as [f0 H0].
    exists (S f0). intros [|f] Hf; [lia|].
    rewrite parse_expr_aux_S. rewrite H0 by lia.
    destruct rest as [|t rest]; [done|]. destruct t; try done; simpl in Ha, Ho; discriminate.
  - intros ts es _ IH. apply (C_chain_expr TAnd PAnd); auto.
  - intros ts es _ IH. apply (C_chain_expr TOr POr); auto.
Qed.

Theorem parse_simple_complete ts e rest :
  G_simple ts e → ∃ f0, ∀ f, f0 ≤ f → parse_simple f (ts ++ rest) = Good (e, rest).
Proof. intros H. by apply parse_complete_fuel. Qed.

Theorem parse_expr_aux_complete ts e rest :
  G_expr ts e → hd_not TAnd rest → hd_not TOr rest →
  ∃ f0, ∀ f, f0 ≤ f → parse_expr_aux f (ts ++ rest) = Good (e, rest).
Proof. intros H. by apply parse_complete_fuel. Qed.

Theorem parse_chain_complete op ts es :
  G_chain op ts es →
  ∃ ts1 e1 tail, ts = ts1 ++ tail ∧
    ∀ rest, hd_not op rest → ∃ f0, ∀ f, f0 ≤ f →
      parse_simple f (ts ++ rest) = Good (e1, tail ++ rest) ∧
      parse_chain f op [e1] (tail ++ rest) = Good (es, rest).
Proof.
  intros H. apply parse_complete_fuel in H
    as (ts1 & e1 & tail & es' & -> & -> & H1 & HT & _).
  exists ts1, e1, tail. split; [done|]. intros rest Hr.
  destruct (H1 (tail ++ rest)) as [f1 Hf1].
  destruct (chain_tail_complete _ _ _ HT [e1] rest Hr) as [f2 Hf2].
  exists (f1 + f2). intros f Hf. split.
  - rewrite <- app_assoc. apply Hf1. lia.
  - apply Hf2. lia.
Qed.

Theorem parse_complete ts q : G_query ts q → parse_tokens (ts ++ [TEOF]) = Good q.
Proof.
  intros [ts' e HG|ts' e fs cs HG HF].
  - destruct (parse_expr_aux_complete ts' e [TEOF] HG eq_refl eq_refl) as [f0 H0].
    assert (parse_tokens_fuel f0 (ts' ++ [TEOF]) = Good (PQuery e [])) as E
      by (by rewrite parse_tokens_fuel_eq, H0).
    rewrite <- E. apply parse_tokens_fuel_stable. by rewrite E.
  - destruct (parse_expr_aux_complete ts' e (TSemi :: fs ++ [TEOF]) HG eq_refl eq_refl)
      as [f0 H0].
    assert (parse_tokens_fuel f0 ((ts' ++ TSemi :: fs) ++ [TEOF]) = Good (PQuery e cs)) as E.
    { rewrite parse_tokens_fuel_eq, <- app_assoc. simpl. rewrite H0 by lia. simpl.
      by rewrite (parse_fields_complete fs cs [TEOF] HF eq_refl). }
    rewrite <- E. apply parse_tokens_fuel_stable. by rewrite E.
Qed.

(** * T6 (top level): soundness *)
Lemma parse_tokens_good_inv f ts q :
  parse_tokens_fuel f ts = Good q →
  ∃ pre, ts = pre ++ [TEOF] ∧ G_query pre q.
Proof.
  rewrite parse_tokens_fuel_eq.
  destruct (parse_expr_aux f ts) as [| |[e r]] eqn:E; try discriminate.
  apply parse_expr_aux_sound in E as (pre & -> & HG).
  intros H. apply finish_good in H as [[-> ->]|(r' & cs & -> & HF & ->)].
  - exists pre. split; [done|]. by constructor.
  - apply parse_fields_sound in HF as (fpre & -> & HF).
    exists (pre ++ TSemi :: fpre). split; [by rewrite <- app_assoc|]. by constructor.
Qed.

Theorem parse_sound_strong ts q : parse_tokens (ts ++ [TEOF]) = Good q → G_query ts q.
Proof.
  intros H. apply parse_tokens_good_inv in H as (pre & Heq & HG).
  apply app_inj_tail in Heq as [-> _]. done.
Qed.

Theorem parse_sound ts q :
  Forall plain_tok ts → parse_tokens (ts ++ [TEOF]) = Good q → G_query ts q.
Proof. intros _. apply parse_sound_strong. Qed.

(** * T7: the parser accepts exactly the grammar *)
Theorem parse_iff_strong ts q : parse_tokens (ts ++ [TEOF]) = Good q ↔ G_query ts q.
Proof. split; [apply parse_sound_strong | apply parse_complete]. Qed.

Theorem parse_iff ts q :
  Forall plain_tok ts → (parse_tokens (ts ++ [TEOF]) = Good q ↔ G_query ts q).
Proof. intros _. apply parse_iff_strong. Qed.

Theorem G_query_deterministic ts q1 q2 : G_query ts q1 → G_query ts q2 → q1 = q2.
Proof.
  intros H1 H2. apply parse_complete in H1, H2. rewrite H1 in H2. by injection H2.
Qed.

(** Grammar sentences contain neither [TEOF] nor [TError]. *)
Lemma G_plain :
  (∀ ts e, G_simple ts e → Forall plain_tok ts) ∧
  (∀ op ts es, G_chain op ts es → plain_tok op → Forall plain_tok ts) ∧
  (∀ ts e, G_expr ts e → Forall plain_tok ts).
Proof.
  assert (∀ t, t ≠ TEOF → t ≠ TError → plain_tok t) as Hp by (by split).
  apply G_mutind.
  - intros c raw. repeat constructor; discriminate.
  - intros c raw n _. repeat constructor; discriminate.
  - intros ts e _ IH. constructor; [by apply Hp|done].
  - intros ts e _ IH. constructor; [by apply Hp|]. apply Forall_app. split; [done|].
    repeat constructor; discriminate.
  - intros op ts1 e1 ts2 e2 _ IH1 _ IH2 Hop. apply Forall_app. split; [done|]. by constructor.
  - intros op ts es ts' e _ IH1 _ IH2 Hop. apply Forall_app. split; [by apply IH1|].
    by constructor.
  - done.
  - intros ts es _ IH. apply IH. by apply Hp.
  - intros ts es _ IH. apply IH. by apply Hp.
Qed.

Lemma G_fields_plain fs cs : G_fields fs cs → Forall plain_tok fs.
Proof.
  induction 1 as [c|ts cs c HG IH].
  - repeat constructor; discriminate.
  - apply Forall_app. split; [done|]. repeat constructor; discriminate.
Qed.

Theorem G_query_plain ts q : G_query ts q → Forall plain_tok ts.
Proof.
  intros [ts' e HG|ts' e fs cs HG HF].
  - by apply G_plain in HG.
  - apply Forall_app. split; [by apply G_plain in HG|].
    constructor; [split; discriminate|]. by eapply G_fields_plain.
Qed.

(** * T8: a lexer error is a parse error *)
Theorem parse_tokens_error ts : parse_tokens (ts ++ [TError]) = Bad.
Proof.
  destruct (parse_tokens (ts ++ [TError])) as [| |q] eqn:E; [|done|].
  - by apply parse_tokens_nofuel in E.
  - apply parse_tokens_good_inv in E as (pre & Heq & _).
    apply app_inj_tail in Heq as [_ [=]].
Qed.

Theorem lex_error_rejects s ts :
  lex s = ts ++ [TError] → Forall plain_tok ts → parse_query s = Err.
Proof. intros E _. unfold parse_query. by rewrite E, parse_tokens_error. Qed.

(** Together with [lex_shape]: [parse_query] succeeds exactly when the lexer produced a
    grammatical sentence followed by [TEOF]. *)
Theorem parse_query_ok_iff s q :
  parse_query s = Ok q ↔ ∃ ts, lex s = ts ++ [TEOF] ∧ G_query ts q.
Proof.
  unfold parse_query. split.
  - destruct (parse_tokens (lex s)) as [| |q'] eqn:E; try discriminate.
    intros [= ->]. unfold parse_tokens in E. apply parse_tokens_good_inv in E. done.
  - intros (ts & -> & HG). by rewrite (parse_complete _ _ HG).
Qed.

(** * T9: shape facts *)
Lemma G_chain_length op ts es : G_chain op ts es → 2 ≤ length es.
Proof. induction 1; [simpl; lia | rewrite app_length; simpl; lia]. Qed.

Lemma G_chain_operands_simple op ts es :
  G_chain op ts es → Forall (λ e, ∃ ts', G_simple ts' e) es.
Proof.
  induction 1 as [op ts1 e1 ts2 e2 H1 H2|op ts es ts' e HC IH HS].
  - repeat constructor; eauto.
  - apply Forall_app. split; [done|]. repeat constructor; eauto.
Qed.

Lemma G_and_length :
  (∀ ts e, G_simple ts e → ∀ es, e = PAnd es ∨ e = POr es → 2 ≤ length es) ∧
  (∀ op ts es, G_chain op ts es → 2 ≤ length es) ∧
  (∀ ts e, G_expr ts e → ∀ es, e = PAnd es ∨ e = POr es → 2 ≤ length es).
Proof.
  apply G_mutind.
  - intros c raw es [?|?]; discriminate.
  - intros c raw n _ es [?|?]; discriminate.
  - intros ts e _ IH es [?|?]; discriminate.
  - intros ts e _ IH. done.
  - intros. simpl. lia.
  - intros op ts es ts' e _ IH _ _. rewrite app_length. simpl. lia.
  - done.
  - intros ts es _ IH es' [[= <-]|?]; [done|discriminate].
  - intros ts es _ IH es' [?|[= <-]]; [discriminate|done].
Qed.

Lemma G_expr_and_length ts es : G_expr ts (PAnd es) → 2 ≤ length es.
Proof. intros H. eapply G_and_length; eauto. Qed.

Lemma G_expr_or_length ts es : G_expr ts (POr es) → 2 ≤ length es.
Proof. intros H. eapply G_and_length; eauto. Qed.

(** Concrete inputs (bytes of the query text; in the comments ' stands for the double-quote byte 34). *)
(* a='1' & b='2' | c='3' : mixing & and | without parentheses is rejected *)
Example ex_mixed_ops :
  parse_query [97;61;34;49;34;32;38;32;98;61;34;50;34;32;124;32;99;61;34;51;34]%N = Err.
Proof. vm_compute. reflexivity. Qed.

(* a='1' 'abc : unterminated value *)
Example ex_unterminated :
  parse_query [97;61;34;49;34;32;34;97;98;99]%N = Err.
Proof. vm_compute. reflexivity. Qed.

(* a=$4294967297 *)
Example ex_ph_overflow32 :
  parse_query [97;61;36;52;50;57;52;57;54;55;50;57;55]%N = Err.
Proof. vm_compute. reflexivity. Qed.

(* a=$2147483648 *)
Example ex_ph_too_big :
  parse_query [97;61;36;50;49;52;55;52;56;51;54;52;56]%N = Err.
Proof. vm_compute. reflexivity. Qed.

(* a=$2147483647 : the largest placeholder *)
Example ex_ph_max :
  parse_query [97;61;36;50;49;52;55;52;56;51;54;52;55]%N =
  Ok (PQuery (PEq [97%N] [] 2147483647%N) []).
Proof. vm_compute. reflexivity. Qed.

(* a=$0 *)
Example ex_ph_zero : parse_query [97;61;36;48]%N = Err.
Proof. vm_compute. reflexivity. Qed.

(* a=$ *)
Example ex_ph_empty : parse_query [97;61;36]%N = Err.
Proof. vm_compute. reflexivity. Qed.

(* ^a='1'&b='2' : negation binds tighter than & *)
Example ex_not_binds_tighter :
  parse_query [94;97;61;34;49;34;38;98;61;34;50;34]%N =
  Ok (PQuery (PAnd [PNot (PEq [97%N] [49%N] 0%N); PEq [98%N] [50%N] 0%N]) []).
Proof. vm_compute. reflexivity. Qed.

(* a='x''y' : a doubled quote is one quote; the value is x'y *)
Example ex_doubled_quote :
  parse_query [97;61;34;120;34;34;121;34]%N =
  Ok (PQuery (PEq [97%N] [120;34;121]%N 0%N) []).
Proof. vm_compute. reflexivity. Qed.

(* a='1' & (b='2' | c='3') ; x, y *)
Example ex_group_by :
  parse_query [97;61;34;49;34;32;38;32;40;98;61;34;50;34;32;124;32;99;61;34;51;34;41;32;59;32;120;44;32;121]%N =
  Ok (PQuery (PAnd [PEq [97%N] [49%N] 0%N;
                    POr [PEq [98%N] [50%N] 0%N; PEq [99%N] [51%N] 0%N]])
             [[120%N]; [121%N]]).
Proof. vm_compute. reflexivity. Qed.

Print Assumptions lex_shape.
Print Assumptions parse_tokens_nofuel.
Print Assumptions parse_query_total.
Print Assumptions parse_complete.
Print Assumptions parse_sound.
Print Assumptions parse_iff.
Print Assumptions G_query_deterministic.
Print Assumptions lex_error_rejects.
Print Assumptions parse_query_ok_iff.

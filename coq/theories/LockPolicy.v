(** Hand-written lock policies for the skeletons generated from the Go sources by
    tools/lockskel (which field is guarded by which mutex, which fields are immutable after
    construction, what a method call on a field does).  Part of the model: the generated
    obligations (coq/obligations) check the current source against these policies. *)
From Coq Require Import String Ascii List Bool.
Import ListNotations.
Open Scope string_scope.
From updog Require Import Conc.

Fixpoint assoc {A} (k : string) (l : list (string * A)) : option A :=
  match l with
  | [] => None
  | (k', v) :: l' => if String.eqb k k' then Some v else assoc k l'
  end.

Fixpoint assoc2 {A} (k1 k2 : string) (l : list (string * string * A)) : option A :=
  match l with
  | [] => None
  | (a, b, v) :: l' => if String.eqb k1 a && String.eqb k2 b then Some v else assoc2 k1 k2 l'
  end.

(** A call written [Call "@T" "m"] by the translator is a direct call of method m of the
    package's type T. *)
Definition direct_call (loc meth : string) : option effect :=
  match loc with
  | String c rest => if Ascii.eqb c "@"%char then Some (ECall (rest ++ "." ++ meth)) else None
  | EmptyString => None
  end.

Definition mk_policy (guards : list (string * guard)) (effects : list (string * string * effect)) : policy :=
  {| guard_of := fun loc => assoc loc guards;
     effect_of := fun loc meth =>
       match direct_call loc meth with
       | Some e => Some e
       | None => assoc2 loc meth effects
       end |}.

(** The generated table holds every method of the packages; an obligation looks only at the
    functions its entry points can reach (listed by hand: a missing one makes the check fail). *)
Definition restrict (names : list string) (funs : funtab) : funtab :=
  filter (fun p => existsb (String.eqb (fst p)) names) funs.

(** Functions reachable from a list of entry points through calls the policy resolves to
    analysed functions (computed, so that a new helper method is picked up without editing a
    list; its accesses must still be known to the policy). *)
Fixpoint call_targets (pol : policy) (s : stmt) : list string :=
  match s with
  | Call loc meth => match effect_of pol loc meth with Some (ECall fn) => [fn] | _ => [] end
  | Seq a b | Branch a b => call_targets pol a ++ call_targets pol b
  | Loop a => call_targets pol a
  | _ => []
  end.

Definition mem_str (x : string) (l : list string) : bool := existsb (String.eqb x) l.

Fixpoint reach (pol : policy) (funs : funtab) (fuel : nat) (todo seen : list string) : list string :=
  match fuel with
  | O => seen
  | S f =>
      match todo with
      | [] => seen
      | fn :: rest =>
          if mem_str fn seen then reach pol funs f rest seen
          else match lookup_fun funs fn with
               | Some body => reach pol funs f (call_targets pol body ++ rest) (fn :: seen)
               | None => reach pol funs f rest (fn :: seen)
               end
      end
  end.

Definition reachable_funs (pol : policy) (funs : funtab) (entries : list string) : funtab :=
  restrict (reach pol funs 2000 entries []) funs.

(** Which accesses and calls of a skeleton the policy does not know (each makes the check
    fail): used to explain a failing obligation. *)
Fixpoint unknowns (pol : policy) (s : stmt) : list string :=
  match s with
  | Acc loc _ => match guard_of pol loc with Some _ => [] | None => ["access to " ++ loc] end
  | Call loc m =>
      match effect_of pol loc m with
      | Some EWrite | Some ERead =>
          match guard_of pol loc with Some _ => [] | None => ["call " ++ loc ++ "." ++ m ++ " (touches " ++ loc ++ ", which has no guard)"] end
      | Some _ => []
      | None => ["call " ++ loc ++ "." ++ m]
      end
  | Seq a b | Branch a b => unknowns pol a ++ unknowns pol b
  | Loop a => unknowns pol a
  | Unsupported w => ["unsupported: " ++ w]
  | _ => []
  end.

(** calls resolved to a function the table does not hold *)
Fixpoint missing_callees (pol : policy) (funs : funtab) (s : stmt) : list string :=
  match s with
  | Call loc m => match effect_of pol loc m with
                  | Some (ECall fn) => match lookup_fun funs fn with Some _ => [] | None => ["call of " ++ fn ++ ", which is not an analysed function"] end
                  | _ => []
                  end
  | Seq a b | Branch a b => missing_callees pol funs a ++ missing_callees pol funs b
  | Loop a => missing_callees pol funs a
  | _ => []
  end.

Definition diagnose (pol : policy) (funs : funtab) (entries : list string) : list string :=
  flat_map (fun p => map (fun u => fst p ++ ": " ++ u) (unknowns pol (snd p) ++ missing_callees pol funs (snd p))) (reachable_funs pol funs entries).

(** * Inferred guards.

    The soundness theorems of Conc.v hold for ANY policy under which the check succeeds: the
    guard table only has to be consistent with the code, it is not a trusted description of it
    (trusted are only the [Unshared] declarations and the effects of calls into other
    packages).  So the table is mostly computed from the skeletons: a location that no
    function reachable from the entry points writes is [Immutable]; a written field of a
    struct with exactly one mutex (the translator lists them, [gen_mutexes]) is guarded by
    that mutex; a written location of anything else (a struct without mutex, a package-level
    variable [global.x]) has no guard and fails the check unless the explicit table gives
    one.  Renaming fields, locals or the mutex, and adding fields or helper methods, therefore
    does not disturb the obligations as long as the discipline is kept. *)
Fixpoint written_locs (eff : string -> string -> option effect) (s : stmt) : list string :=
  match s with
  | Acc loc true => [loc]
  | Call loc m => match eff loc m with Some EWrite => [loc] | _ => [] end
  | Seq a b | Branch a b => written_locs eff a ++ written_locs eff b
  | Loop a => written_locs eff a
  | _ => []
  end.

Fixpoint struct_of (loc : string) : string :=
  match loc with
  | EmptyString => EmptyString
  | String c r => if Ascii.eqb c "."%char then EmptyString else String c (struct_of r)
  end.

(** The mutex of a struct, or a name no code can hold (the check then fails). *)
Definition mutex_of (mutexes : list (string * string)) (t : string) : string :=
  match assoc t mutexes with Some m => m | None => "<no unique mutex in " ++ t ++ ">" end.

(** Calls: a direct call of a package method, else the explicit table, else — when the method
    name is not one the analysed packages define ([methods], listed by the translator) — a
    method of another package's type, taken to modify the object it is called on (the most
    demanding reading: it needs the lock exclusively).  A call of a package method through a
    field must be resolved explicitly (its body has to be analysed) unless the translator
    resolved it from the field's declared type ([Call "@T" m]); a field whose declared type
    belongs to another package ([external], listed by the translator) only has methods of that
    package, whatever their names. *)
Definition mk_policy_inferred (explicit : list (string * guard)) (effects : list (string * string * effect))
    (mutexes : list (string * string)) (methods external selfsync : list string) (funs : funtab) (entries : list string) : policy :=
  let eff := fun loc meth =>
    match direct_call loc meth with
    | Some e => Some e
    | None => match assoc2 loc meth effects with
              | Some e => Some e
              | None => if mem_str loc external then Some EWrite      (* declared type of another package *)
                        else if mem_str meth methods then None else Some EWrite
              end
    end in
  let reach := reachable_funs {| guard_of := fun _ => None; effect_of := eff |} funs entries in
  let written := flat_map (fun p => written_locs eff (snd p)) reach in
  {| guard_of := fun loc =>
       match assoc loc explicit with
       | Some g => Some g
       | None =>
         (* sync/atomic values, sync.Map / Pool / Once / WaitGroup and channels synchronise themselves *)
         if mem_str loc selfsync then Some Unshared else
         (* "T.*": every location of struct T (fields, values returned by its methods) *)
         match assoc (struct_of loc ++ ".*") explicit with
         | Some g => Some g
         | None =>
           if mem_str loc written
           then match assoc (struct_of loc) mutexes with Some m => Some (GuardedBy m) | None => None end
           else Some Immutable
         end
       end;
     effect_of := eff |}.

(** * Guards found by search.

    A written location without a guard of its own (a field of a struct that has no mutex or
    several: the nodes of an intrusive list owned by a cache, a memo guarded by a second, leaf
    mutex) fails the check under the inferred policy.  Because the soundness theorems hold for
    every policy under which the check succeeds, the obligations may also SEARCH: each mutex
    field of the packages ([gen_all_mutexes]) is tried as the guard of all such locations, and the
    first candidate under which every entry point is well locked is taken.  Package-level
    variables are excluded: no mutex of one object can guard state shared by all objects. *)
Definition is_global (loc : string) : bool := String.eqb (struct_of loc) "global".

Definition with_fallback (pol : policy) (m : string) : policy :=
  {| guard_of := fun loc => match guard_of pol loc with
                            | Some g => Some g
                            | None => if is_global loc then None else Some (GuardedBy m)
                            end;
     effect_of := effect_of pol |}.

Definition choose_policy (pol : policy) (funs : funtab) (entries : list string) (cands : list string) : policy :=
  let rf := reachable_funs pol funs entries in
  let es := map (fun n => match lookup_fun funs n with Some s => s | None => Unsupported ("missing function " ++ n) end) entries in
  if well_locked_all pol rf es then pol
  else match find (fun m => well_locked_all (with_fallback pol m) rf es) cands with
       | Some m => with_fallback pol m
       | None => pol
       end.

(** * C04: queries, schema reads and the LRU cache used concurrently on one open index *)
Definition entries_C04 : list string := ["Index.Execute"; "Index.GetSchema"; "LRUCache.Get"; "LRUCache.Put"].

Definition policy_C04 (mutexes : list (string * string)) (methods external selfsync : list string) (funs : funtab) : policy := mk_policy_inferred
  [ (* a Query value belongs to the goroutine that executes it (its expression tree is only
       read: a write to a field of an Expr* node is a write to a struct without mutex) *)
    ("Query.GroupBy", Unshared); ("Query.groupByFields", Unshared); ("Query.Expr", Unshared) ]
  [ (* calls through fields of the package's own types are resolved by the translator from the
       declared field types; reading the cardinality of a result bitmap: *)
    ("Index.values", "GetCardinality", ERead); ("Query.Expr", "GetCardinality", ERead);
    (* container/list, bbolt, atomic and roaring methods called under a lock need no entry: the
       default reading (modifies the object) holds there *)
    (* trusted to be safe for concurrent use: metric sinks, bbolt read transactions *)
    ("LRUCache.metrics", "Inc", ENone); ("Index.metrics", "Observe", ENone); ("onDemandColGetter.db", "View", ENone) ]
  mutexes methods external selfsync funs entries_C04.

(** * C18: AddRow called concurrently on one writer *)
Definition entries_C18_mem : list string := ["IndexWriter.AddRow"].
Definition entries_C18_big : list string := ["BigIndexWriter.AddRow"].

Definition policy_C18_mem (mutexes : list (string * string)) (methods external selfsync : list string) (funs : funtab) : policy := mk_policy_inferred
  [ (* the schema object belongs to the writer *)
    ("schema.*", GuardedBy (mutex_of mutexes "IndexWriter")) ]
  [ ]
  mutexes methods external selfsync funs entries_C18_mem.

Definition policy_C18_big (mutexes : list (string * string)) (methods external selfsync : list string) (funs : funtab) : policy := mk_policy_inferred
  [ ("schema.*", GuardedBy (mutex_of mutexes "BigIndexWriter")) ]
  [ ("BigIndexWriter.tempDB", "Begin", ERead) ]
  mutexes methods external selfsync funs entries_C18_big.

(** * C17: the driver's connection cache *)
Definition entries_C17 : list string := ["updogDriver.openFile"; "fileConn.Close"].

Definition policy_C17 (mutexes : list (string * string)) (methods external selfsync : list string) (funs : funtab) : policy := mk_policy_inferred
  [ (* a shared connection's index pointer and reference count belong to the driver's cache *)
    ("fileConn.idx", GuardedBy (mutex_of mutexes "updogDriver")); ("fileConn.refs", GuardedBy (mutex_of mutexes "updogDriver")) ]
  [ (* a connection found in the map, then closed (error path): Close of fileConn is not what is
       meant, the index behind it is *)
    ("updogDriver.fileConnCache", "Close", EWrite) ]
  mutexes methods external selfsync funs entries_C17.

(** The largest number of acquisitions of lock [l] on any path through a skeleton (calls of
    analysed functions inlined up to [fuel]; a loop that acquires counts as "many").  An entry
    point with at most one acquisition whose guarded accesses all lie under [l] (well_locked)
    performs them inside ONE critical section. *)
Fixpoint max_acq (pol : policy) (funs : funtab) (l : string) (fuel : nat) (s : stmt) : nat :=
  match fuel with
  | O => 99
  | S f =>
      (fix go (s : stmt) : nat :=
         match s with
         | Acq l' _ => if String.eqb l l' then 1 else 0
         | Seq a b => go a + go b
         | Branch a b => Nat.max (go a) (go b)
         | Loop a => if Nat.eqb (go a) 0 then 0 else 99
         | Call loc meth =>
             match effect_of pol loc meth with
             | Some (ECall fn) => match lookup_fun funs fn with Some body => max_acq pol funs l f body | None => 99 end
             | Some _ => 0
             | None => 99
             end
         | Unsupported _ => 99
         | _ => 0
         end) s
  end.

(** Hand-written lock policies for the skeletons generated from the Go sources by
    tools/lockskel (which field is guarded by which mutex, which fields are immutable after
    construction, what a method call on a field does).  Part of the model: the generated
    obligations (coq/obligations) check the current source against these policies. *)
From Coq Require Import String Ascii List Bool.
Import ListNotations.
Open Scope string_scope.
From updog Require Import Conc.

Fixpoint assoc {A} (k : string) (l : list (string * A)) : option A :=
  match l with
  | [] => None
  | (k', v) :: l' => if String.eqb k k' then Some v else assoc k l'
  end.

Fixpoint assoc2 {A} (k1 k2 : string) (l : list (string * string * A)) : option A :=
  match l with
  | [] => None
  | (a, b, v) :: l' => if String.eqb k1 a && String.eqb k2 b then Some v else assoc2 k1 k2 l'
  end.

(** A call written [Call "@T" "m"] by the translator is a direct call of method m of the
    package's type T. *)
Definition direct_call (loc meth : string) : option effect :=
  match loc with
  | String c rest => if Ascii.eqb c "@"%char then Some (ECall (rest ++ "." ++ meth)) else None
  | EmptyString => None
  end.

Definition mk_policy (guards : list (string * guard)) (effects : list (string * string * effect)) : policy :=
  {| guard_of := fun loc => assoc loc guards;
     effect_of := fun loc meth =>
       match direct_call loc meth with
       | Some e => Some e
       | None => assoc2 loc meth effects
       end |}.

(** The generated table holds every method of the packages; an obligation looks only at the
    functions its entry points can reach (listed by hand: a missing one makes the check fail). *)
Definition restrict (names : list string) (funs : funtab) : funtab :=
  filter (fun p => existsb (String.eqb (fst p)) names) funs.

(** Functions reachable from a list of entry points through calls the policy resolves to
    analysed functions (computed, so that a new helper method is picked up without editing a
    list; its accesses must still be known to the policy). *)
Fixpoint call_targets (pol : policy) (s : stmt) : list string :=
  match s with
  | Call loc meth => match effect_of pol loc meth with Some (ECall fn) => [fn] | _ => [] end
  | Seq a b | Branch a b => call_targets pol a ++ call_targets pol b
  | Loop a => call_targets pol a
  | _ => []
  end.

Definition mem_str (x : string) (l : list string) : bool := existsb (String.eqb x) l.

Fixpoint reach (pol : policy) (funs : funtab) (fuel : nat) (todo seen : list string) : list string :=
  match fuel with
  | O => seen
  | S f =>
      match todo with
      | [] => seen
      | fn :: rest =>
          if mem_str fn seen then reach pol funs f rest seen
          else match lookup_fun funs fn with
               | Some body => reach pol funs f (call_targets pol body ++ rest) (fn :: seen)
               | None => reach pol funs f rest (fn :: seen)
               end
      end
  end.

Definition reachable_funs (pol : policy) (funs : funtab) (entries : list string) : funtab :=
  restrict (reach pol funs 2000 entries []) funs.

(** Which accesses and calls of a skeleton the policy does not know (each makes the check
    fail): used to explain a failing obligation. *)
Fixpoint unknowns (pol : policy) (s : stmt) : list string :=
  match s with
  | Acc loc _ => match guard_of pol loc with Some _ => [] | None => ["access to " ++ loc] end
  | Call loc m => match effect_of pol loc m with Some _ => [] | None => ["call " ++ loc ++ "." ++ m] end
  | Seq a b | Branch a b => unknowns pol a ++ unknowns pol b
  | Loop a => unknowns pol a
  | Unsupported w => ["unsupported: " ++ w]
  | _ => []
  end.

Definition diagnose (pol : policy) (funs : funtab) (entries : list string) : list string :=
  flat_map (fun p => map (fun u => fst p ++ ": " ++ u) (unknowns pol (snd p))) (reachable_funs pol funs entries).

(** Package-level variables (the translator writes them global.<name>): the ones below are
    initialised once and only read afterwards. Any other package-level variable touched by an
    analysed function is unknown to the policies, so the obligation fails: no mutex of one
    object can guard state shared by all objects. *)
Definition global_guards : list (string * guard) :=
  [ ("global.keySchema", Immutable); ("global.keyNextRowID", Immutable); ("global.keyPrefixValue", Immutable);
    ("global.lruCacheItemSize", Immutable); ("global.listElementSize", Immutable) ].

(** * C04: queries, schema reads and the LRU cache used concurrently on one open index *)
Definition policy_C04 : policy := mk_policy (global_guards ++
  [ (* an Index is immutable after OpenIndex *)
    ("Index.metrics", Immutable); ("Index.schema", Immutable); ("Index.nextRowID", Immutable);
    ("Index.values", Immutable); ("Index.cache", Immutable);
    ("schema.Columns", Immutable);
    ("preloadedColGetter.values", Immutable); ("onDemandColGetter.db", Immutable);
    (* the cache serialises its own state *)
    ("LRUCache.entries", GuardedBy "LRUCache.mtx"); ("LRUCache.lruList", GuardedBy "LRUCache.mtx");
    ("LRUCache.curSize", GuardedBy "LRUCache.mtx");
    ("LRUCache.maxSize", Immutable); ("LRUCache.metrics", Immutable);
    (* a Query value belongs to the goroutine that executes it; expression trees are read-only *)
    ("Query.GroupBy", Unshared); ("Query.groupByFields", Unshared); ("Query.Expr", Unshared);
    ("ExprEqual.Column", Immutable); ("ExprEqual.Value", Immutable); ("ExprNot.Expr", Immutable);
    ("ExprAnd.Exprs", Immutable); ("ExprOr.Exprs", Immutable) ])
  [ ("Index.cache", "Get", ECall "Cache.Get"); ("Index.cache", "Put", ECall "Cache.Put");
    ("Index.values", "GetCol", ECall "colGetter.GetCol"); ("Index.values", "GetCardinality", ERead);
    ("Query.Expr", "eval", ECall "Expression.eval"); ("Query.Expr", "GetCardinality", ERead);
    ("ExprNot.Expr", "eval", ECall "Expression.eval"); ("ExprAnd.Exprs", "eval", ECall "Expression.eval");
    ("ExprOr.Exprs", "eval", ECall "Expression.eval");
    ("ExprNot.Expr", "cacheKey", ECall "Expression.cacheKey"); ("ExprAnd.Exprs", "cacheKey", ECall "Expression.cacheKey");
    ("ExprOr.Exprs", "cacheKey", ECall "Expression.cacheKey");
    ("LRUCache.lruList", "MoveToFront", EWrite); ("LRUCache.lruList", "PushFront", EWrite);
    ("LRUCache.lruList", "Remove", EWrite); ("LRUCache.lruList", "Back", ERead); ("LRUCache.lruList", "Len", ERead);
    (* trusted to be safe for concurrent use: metric sinks, bbolt read transactions *)
    ("LRUCache.metrics", "Inc", ENone); ("Index.metrics", "Observe", ENone); ("onDemandColGetter.db", "View", ENone) ].

Definition entries_C04 : list string := ["Index.Execute"; "Index.GetSchema"; "LRUCache.Get"; "LRUCache.Put"].
Definition funs_C04 : list string :=
  entries_C04 ++
  ["LRUCache.evict"; "Query.populateGroupBy"; "Query.groupBy";
   "ExprEqual.eval"; "ExprNot.eval"; "ExprAnd.eval"; "ExprOr.eval";
   "ExprEqual.cacheKey"; "ExprNot.cacheKey"; "ExprAnd.cacheKey"; "ExprOr.cacheKey";
   "nullCache.Get"; "nullCache.Put"; "onDemandColGetter.GetCol"; "preloadedColGetter.GetCol";
   "Cache.Get"; "Cache.Put"; "colGetter.GetCol"; "Expression.eval"; "Expression.cacheKey"].

(** * C18: AddRow called concurrently on one writer *)
Definition policy_C18_mem : policy := mk_policy (global_guards ++
  [ ("IndexWriter.nextRowID", GuardedBy "IndexWriter.mtx"); ("IndexWriter.schema", GuardedBy "IndexWriter.mtx");
    ("IndexWriter.values", GuardedBy "IndexWriter.mtx"); ("IndexWriter.getValueBitmap()", GuardedBy "IndexWriter.mtx");
    ("schema.Columns", GuardedBy "IndexWriter.mtx") ])
  [ ("IndexWriter.schema", "add", ECall "schema.add"); ("IndexWriter.getValueBitmap()", "Add", EWrite) ].

Definition policy_C18_big : policy := mk_policy (global_guards ++
  [ ("BigIndexWriter.nextRowID", GuardedBy "BigIndexWriter.mtx"); ("BigIndexWriter.schema", GuardedBy "BigIndexWriter.mtx");
    ("BigIndexWriter.tempTx", GuardedBy "BigIndexWriter.mtx"); ("BigIndexWriter.tempDB", GuardedBy "BigIndexWriter.mtx");
    ("BigIndexWriter.db", Immutable);
    ("schema.Columns", GuardedBy "BigIndexWriter.mtx") ])
  [ ("BigIndexWriter.schema", "add", ECall "schema.add");
    ("BigIndexWriter.tempTx", "Bucket", ERead); ("BigIndexWriter.tempTx", "Put", EWrite);
    ("BigIndexWriter.tempTx", "Commit", EWrite); ("BigIndexWriter.tempDB", "Begin", ERead) ].

Definition funs_C18_mem : list string := ["IndexWriter.AddRow"; "IndexWriter.getValueBitmap"; "schema.add"].
Definition funs_C18_big : list string := ["BigIndexWriter.AddRow"; "schema.add"].

(** * C17: the driver's connection cache *)
Definition policy_C17 : policy := mk_policy (global_guards ++
  [ ("updogDriver.fileConnCache", GuardedBy "updogDriver.fileConnMtx");
    ("fileConn.idx", GuardedBy "updogDriver.fileConnMtx"); ("fileConn.refs", GuardedBy "updogDriver.fileConnMtx");
    ("fileConn.key", Immutable); ("fileConn.d", Immutable) ])
  [ ("fileConn.d", "release", ECall "updogDriver.release");
    ("fileConn.idx", "Close", EWrite); ("updogDriver.fileConnCache", "Close", EWrite);
    ("fileConn.refs", "Add", EWrite); ("fileConn.refs", "Load", ERead);
    ("updogDriver.fileConnCache", "Add", EWrite); ("updogDriver.fileConnCache", "Load", ERead) ].

Definition entries_C17 : list string := ["updogDriver.openFile"; "fileConn.Close"].
Definition funs_C17 : list string := entries_C17 ++ ["updogDriver.release"].

(** The largest number of acquisitions of lock [l] on any path through a skeleton (calls of
    analysed functions inlined up to [fuel]; a loop that acquires counts as "many").  An entry
    point with at most one acquisition whose guarded accesses all lie under [l] (well_locked)
    performs them inside ONE critical section. *)
Fixpoint max_acq (pol : policy) (funs : funtab) (l : string) (fuel : nat) (s : stmt) : nat :=
  match fuel with
  | O => 99
  | S f =>
      (fix go (s : stmt) : nat :=
         match s with
         | Acq l' _ => if String.eqb l l' then 1 else 0
         | Seq a b => go a + go b
         | Branch a b => Nat.max (go a) (go b)
         | Loop a => if Nat.eqb (go a) 0 then 0 else 99
         | Call loc meth =>
             match effect_of pol loc meth with
             | Some (ECall fn) => match lookup_fun funs fn with Some body => max_acq pol funs l f body | None => 99 end
             | Some _ => 0
             | None => 99
             end
         | Unsupported _ => 99
         | _ => 0
         end) s
  end.

(** Property C15 — opening fails cleanly on non-index files and always releases the file.
    Statements only; proofs are [exact] of FilesProofs.v. *)
From updog Require Import Prelude Index Files FilesProofs.

(** A missing path is an error and stays missing. *)
Theorem C15_missing_path fs p preload : fs_files fs !! p = None → fs_open fs p preload = (Err, fs).
Proof. exact (fs_open_missing fs p preload). Qed.

(** Whenever opening fails, nothing changed: content untouched, no lock left behind. *)
Theorem C15_fail_clean fs p preload : (fs_open fs p preload).1 = Err → (fs_open fs p preload).2 = fs.
Proof. exact (fs_open_fail_clean fs p preload). Qed.

(** A bbolt file that is not a complete index (no bucket, missing or undecodable schema,
    missing or malformed counter, undecodable bitmap when preloading) is an error, never a
    panic: [open_index] has no panicking branch, and [fs_open] adds none. *)
Theorem C15_no_panic fs p preload :
  p ∉ fs_writer fs → (fs_open fs p preload).1 ≠ Panic ∧ (fs_open fs p preload).1 ≠ Hang.
Proof. exact (fs_open_no_panic fs p preload). Qed.

(** Close releases; Close twice is Close once. *)
Theorem C15_close_releases fs p preload ix fs' :
  fs_open fs p preload = (Ok ix, fs') →
  ∀ q, readers (fs_close fs' (Handle p ix false)).1 q = readers fs q.
Proof. exact (fs_close_releases fs p preload ix fs'). Qed.
Theorem C15_close_idempotent fs h : fs_close (fs_close fs h).1 (fs_close fs h).2 = fs_close fs h.
Proof. exact (fs_close_idempotent fs h). Qed.

(** Every sequence of opens and closes on a path nobody writes: no panic, no hang; each open
    succeeds iff the file is a complete index; the lock is held exactly while a live handle
    exists; the file is never modified. *)
Theorem C15_sequences fs p ops :
  fs_writer fs = ∅ → readers fs p = 0%nat →
  let '(rs, fs', hs') := fs_run fs p [] ops in
  Forall (λ r, r ≠ Panic ∧ r ≠ Hang) rs ∧ rs = expected (fs_files fs) p ops
  ∧ readers fs' p = live hs' ∧ (∀ q, q ≠ p → readers fs' q = readers fs q)
  ∧ fs_files fs' = fs_files fs ∧ fs_writer fs' = ∅.
Proof. exact (fs_run_spec fs p ops). Qed.

Print Assumptions C15_fail_clean.
Print Assumptions C15_sequences.

(** Property C12 — the sql driver returns exactly the library's result as rows.
    Statements only; proofs are [exact] of AdapterProofs.v. *)
From updog Require Import Prelude Index QParser Adapters AdapterProofs.

Section C12.
  Context (H : list N → N).

  (** A statement returns rows exactly when binding and the library succeed, and then the
      rows are [rows_of] the library's result; a query the library rejects is an error. *)
  Theorem C12_rows_iff ix q args rs :
    stmt_query H ix q args = Ok rs ↔
    ∃ e r, bind (pq_expr q) args = Ok e ∧ execute H ix (Query (to_expr e) (pq_group_by q)) = Ok r
           ∧ rs = rows_of r (pq_group_by q).
  Proof. exact (stmt_query_ok_iff H ix q args rs). Qed.

  Theorem C12_library_error_is_error ix q args e :
    bind (pq_expr q) args = Ok e → execute H ix (Query (to_expr e) (pq_group_by q)) = Err →
    stmt_query H ix q args = Err.
  Proof. exact (stmt_query_execute_err H ix q args e). Qed.

  Theorem C12_never_panics ix q args : stmt_query H ix q args ≠ Panic ∧ stmt_query H ix q args ≠ Hang.
  Proof. exact (stmt_query_never_panics H ix q args). Qed.
End C12.

(** Columns: the group-by columns followed by "count"; types TEXT... then BIGINT. *)
Theorem C12_columns r gb : rs_cols (rows_of r gb) = gb ++ [count_name].
Proof. exact (rows_of_cols r gb). Qed.
Theorem C12_types r gb :
  rs_types (rows_of r gb) = replicate (length gb) TText ++ [TBigint]
  ∧ length (rs_types (rows_of r gb)) = length (rs_cols (rows_of r gb)).
Proof. exact (rows_of_types r gb). Qed.

(** Without a group-by clause: exactly one row holding the total count. *)
Theorem C12_ungrouped r : rs_rows (rows_of r []) = [[CInt (r_count r)]].
Proof. exact (rows_of_ungrouped r). Qed.

(** With a group-by clause: one row per group, in the library's order, the group's values in
    group-by order followed by its count; no matching group, no rows. *)
Theorem C12_grouped r gb i :
  gb ≠ [] →
  rs_rows (rows_of r gb) !! i = (λ g : list field * N, map (λ f : field, CText f.2) g.1 ++ [CInt g.2]) <$> (r_groups r !! i).
Proof. exact (rows_of_grouped_lookup r gb i). Qed.
Theorem C12_grouped_length r gb : gb ≠ [] → length (rs_rows (rows_of r gb)) = length (r_groups r).
Proof. exact (rows_of_grouped_length r gb). Qed.
Theorem C12_grouped_no_match r gb : gb ≠ [] → r_groups r = [] → rs_rows (rows_of r gb) = [].
Proof. exact (rows_of_grouped_no_match r gb). Qed.

Print Assumptions C12_rows_iff.
Print Assumptions C12_grouped.
Print Assumptions C12_never_panics.

(** Property C17 — sql driver handles survive any open/close sequence.  Statements only;
    proofs are [exact] of DriverProofs.v.  Operations are driver-level (Open of a pool
    connection, a statement on it, its Close); each is one critical section of the driver
    mutex (lock obligations coq/obligations/ObC17.v, regenerated from the source), so every
    schedule of concurrent goroutines is an operation list.  Well-formedness is what
    database/sql guarantees: a connection is used between its open and its single close. *)
From updog Require Import Prelude DriverSM DriverProofs Dsn DsnProofs DsnEscape Utf8Proofs.

Theorem C17_no_panic_no_hang valid ops :
  wf_ops valid [] [] ops = true →
  let '(_, rs) := d_run valid d_init ops in
  Forall (λ r, r ≠ RPanic ∧ r ≠ RHang ∧ r ≠ RMisuse) rs.
Proof. exact (C17_sequences valid ops). Qed.

(** Every query on an open handle is evaluated on the index of the file the handle was
    opened on (also after other handles on that file or key were closed and reopened). *)
Theorem C17_queries_correct valid ops i j h k :
  wf_ops valid [] [] ops = true → ops !! j = Some (DOpen h k) → ops !! i = Some (DQuery h) →
  (d_run valid d_init ops).2 !! i = Some (RRows (k_file k)).
Proof. exact (DriverProofs.C17_queries_correct valid ops i j h k). Qed.

(** Once the last handle on a file is closed the file is released (and while one is open it
    is held); with no handle left the connection cache is empty. *)
Theorem C17_release valid ops :
  wf_ops valid [] [] ops = true →
  let s := (d_run valid d_init ops).1 in
  let hk := (spec_run valid ∅ ops).1 in
  (∀ f, (∀ h k, hk !! h = Some k → k_file k ≠ f) → file_readers s f = 0%nat)
  ∧ (∀ h k, hk !! h = Some k → (1 ≤ file_readers s (k_file k))%nat)
  ∧ (d_handles s = ∅ → d_cache s = ∅ ∧ ∀ f, file_readers s f = 0%nat).
Proof. exact (DriverProofs.C17_release valid ops). Qed.

(** What the repair removed: the cache entry survived the last close, so reopening the same
    data source handed out the closed connection. *)
Theorem C17_pinned_refuted :
  wf_ops (λ _, true) [] [] pin_ops = true
  ∧ (d_run_pinned (λ _, true) d_init pin_ops).2 = [ROpened; RRows 7; RClosed; ROpened; RPanic]
  ∧ (d_run (λ _, true) d_init pin_ops).2 = [ROpened; RRows 7; RClosed; ROpened; RRows 7].
Proof. exact DriverProofs.C17_pinned_refuted. Qed.

(** The key under which a [file:] data source name shares its connection (file path and the
    option part computed by openFile) determines the index options the name asks for: a
    handle never gets an index configured differently from its name (Dsn.v models Open's
    parsing of the name). *)
Theorem C17_key_determines_options n1 n2 p1 c1 k1 p2 c2 k2 :
  parse_dsn n1 = DsnFile p1 c1 k1 → parse_dsn n2 = DsnFile p2 c2 k2 → (p1, k1) = (p2, k2) → c1 = c2.
Proof. exact (parse_dsn_key_determines_cfg n1 n2 p1 c1 k1 p2 c2 k2). Qed.

(** The cache size of a data source name: exactly the decimal numbers below 2^64 are accepted
    ([decimal n]: the usual digits of n), and they denote themselves. *)
Theorem C17_cache_size_accepted n : (n < 2 ^ 64)%N → parse_uint64 (decimal n) = Some n.
Proof. exact (parse_uint64_decimal n). Qed.
Theorem C17_cache_size_overflow n : (2 ^ 64 ≤ n)%N → parse_uint64 (decimal n) = None.
Proof. exact (parse_uint64_overflow n). Qed.

(** Option strings are percent-decoded the way net/url does it (Dsn.unescape inside
    parse_query): text without '%' and '+' stands for itself, and the decoder undoes
    url.QueryEscape on every byte string, so any key or value can be written in a name. *)
Theorem C17_option_text_plain s : Forall (λ c, c ≠ 37 ∧ c ≠ 43)%N s → unescape s = Some s.
Proof. exact (unescape_plain s). Qed.
Theorem C17_option_text_escaped s : Forall (λ c, c < 256)%N s → unescape (escape s) = Some s.
Proof. exact (unescape_escape s). Qed.

(** On option strings without '%', '+' and ';' the decoding parser coincides with plain
    splitting at '&' and the first '=' (the model before percent-decoding was added). *)
Theorem C17_options_plain q : plain q → Dsn.parse_query q = parse_query_plain q.
Proof. exact (parse_query_plain_eq q). Qed.

Print Assumptions C17_options_plain.
Print Assumptions C17_option_text_plain.
Print Assumptions C17_option_text_escaped.
Print Assumptions C17_cache_size_accepted.
Print Assumptions C17_key_determines_options.
Print Assumptions C17_no_panic_no_hang.
Print Assumptions C17_queries_correct.
Print Assumptions C17_release.

(** Property C18 — concurrent AddRow calls lose, duplicate and mix nothing.
    Statements only; proofs are [exact] of AddRowConc.v.  A call is the micro-step sequence
    lock; read id; one step per (column,value) pair; increment; unlock.  A schedule is an
    arbitrary list of thread numbers; a thread scheduled while another holds the mutex stays
    blocked.  (That the real AddRow has this shape — every access under the writer mutex, the
    increment before the unlock — is the lock obligation coq/obligations/ObC18.v, regenerated
    from the source.) *)
From updog Require Import Prelude Index AddRowConc.

Section C18.
  Context (H : list N → N).

  (** Every schedule that completes all calls, in-memory writer: the final writer state is the
      sequential insertion of the rows in lock-acquisition order; the k-th acquiring call
      returned id k; the returned ids are a permutation of 0..n-1 without duplicates; every
      thread's rows keep their order; no row is lost or duplicated. *)
  Theorem C18_serial_mem rows sched :
    let c := run (W_mem H) prog_locked sched (init (W_mem H) rows) in
    all_finished c →
    let acq := acquired c in let order := acq.*2 in let n := length (concat rows) in
    final_state c = (w_add_rows H w_init order).2 ∧
    (w_add_rows H w_init order).1 = map N.of_nat (seq 0 n) ∧
    rows = map (λ i, of_thread i acq) (seq 0 (length rows)) ∧
    returned c = map (λ i, of_thread i (positions acq)) (seq 0 (length rows)) ∧
    (∀ k i r, acq !! k = Some (i, r) → ∃ R ids m,
       rows !! i = Some R ∧ returned c !! i = Some ids ∧ R !! m = Some r ∧ ids !! m = Some (N.of_nat k)) ∧
    concat (returned c) ≡ₚ map N.of_nat (seq 0 n) ∧ NoDup (concat (returned c)) ∧
    order ≡ₚ concat rows ∧ length order = n.
  Proof. exact (C18_serial H rows sched). Qed.

  Theorem C18_serial_bigwriter rows sched :
    let c := run (W_big H) prog_locked sched (init (W_big H) rows) in
    all_finished c →
    let acq := acquired c in let order := acq.*2 in let n := length (concat rows) in
    final_state c = (b_add_rows H b_init order).2 ∧
    (b_add_rows H b_init order).1 = map N.of_nat (seq 0 n) ∧
    rows = map (λ i, of_thread i acq) (seq 0 (length rows)) ∧
    returned c = map (λ i, of_thread i (positions acq)) (seq 0 (length rows)) ∧
    (∀ k i r, acq !! k = Some (i, r) → ∃ R ids m,
       rows !! i = Some R ∧ returned c !! i = Some ids ∧ R !! m = Some r ∧ ids !! m = Some (N.of_nat k)) ∧
    concat (returned c) ≡ₚ map N.of_nat (seq 0 n) ∧ NoDup (concat (returned c)) ∧
    order ≡ₚ concat rows ∧ length order = n.
  Proof. exact (C18_serial_big H rows sched). Qed.

  (** Not vacuous: some schedule completes all calls. *)
  Theorem C18_some_schedule_completes rows :
    ∃ sched, all_finished (run (W_mem H) prog_locked sched (init (W_mem H) rows)).
  Proof. exact (some_schedule_completes H rows). Qed.
End C18.

(** Without the mutex, or with the increment after the unlock, two calls can return the same
    id. *)
Theorem C18_unlocked_refuted :
  ∃ sched, let c := run (W_mem H_enc) prog_nomutex sched (init (W_mem H_enc) ex_rows) in
           all_finished c ∧ returned c = [[0%N]; [0%N]].
Proof. exact AddRowConc.C18_unlocked_refuted. Qed.
Theorem C18_late_increment_refuted :
  ∃ sched, let c := run (W_mem H_enc) prog_late_incr sched (init (W_mem H_enc) ex_rows) in
           all_finished c ∧ returned c = [[0%N]; [0%N]].
Proof. exact AddRowConc.C18_late_incr_refuted. Qed.

Print Assumptions C18_serial_mem.
Print Assumptions C18_serial_bigwriter.

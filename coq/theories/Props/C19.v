(** Property C19 — [updog create] ingests a CSV faithfully in both modes.
    Statements only; proofs are [exact] of CsvProofs.v. *)
From updog Require Import Prelude Index IndexProofs Csv CsvProofs.
Local Open Scope N_scope.

(** Header normalisation: one byte per rune, a-z kept, A-Z lower-cased, everything else '_'
    (U+0130 and U+212A are the two runes Go's ToLower folds into a-z). *)
Theorem C19_normalize r :
  let b := normalize_rune r in (97 ≤ b ∧ b ≤ 122) ∨ b = 95.
Proof. exact (normalize_rune_range r). Qed.

(** Record i is row i, with field j as the value of header column j. *)
Theorem C19_row_i header records i rec :
  records !! i = Some rec →
  ingest header records !! i = Some (record_row (map normalize_header header) rec).
Proof. exact (ingest_lookup_Some header records i rec). Qed.
Theorem C19_fields header rec c v :
  NoDup header → ((c, v) ∈ record_row header rec ↔ (c, v) ∈ zip header rec).
Proof. exact (record_row_lookup header rec c v). Qed.

Section C19.
  Context (H : list N → N).

  Theorem C19_modes_equal ex hdr recs : create H true ex hdr recs = create H false ex hdr recs.
  Proof. exact (create_modes_equal H ex hdr recs). Qed.
  Theorem C19_existing_output big hdr recs : create H big true hdr recs = CreateErr.
  Proof. exact (create_existing_output H big hdr recs). Qed.
  Theorem C19_malformed big ex hdr recs : well_shaped hdr recs = false → create H big ex hdr recs = CreateErr.
  Proof. exact (create_malformed H big ex hdr recs). Qed.

  Context (H_inj : Inj (=) (=) H).

  (** The created index answers every query like a row scan over the ingested records (so
      C01/C02/C05 apply verbatim). *)
  Theorem C19_index_is_the_table big hdr recs s preload q :
    create H big false hdr recs = CreateOk s → N.of_nat (length recs) < 2^32 →
    expr_nul_free (q_expr q) → nonempty_ops (q_expr q) = true →
    out_bind (open_index preload s) (λ ix, execute H ix q) = spec_execute (ingest hdr recs) q.
  Proof. exact (C19_create_then_query H H_inj big hdr recs s preload q). Qed.
End C19.

Print Assumptions C19_modes_equal.
Print Assumptions C19_index_is_the_table.

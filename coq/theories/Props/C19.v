(** Property C19 — [updog create] ingests a CSV faithfully in both modes.
    Statements only; proofs are [exact] of CsvProofs.v. *)
From updog Require Import Prelude Index IndexProofs Csv CsvProofs CsvBytes CsvBytesProofs Utf8Proofs.
Local Open Scope N_scope.

(** Header normalisation: one byte per rune, a-z kept, A-Z lower-cased, everything else '_'
    (U+0130 and U+212A are the two runes Go's ToLower folds into a-z). *)
Theorem C19_normalize r :
  let b := normalize_rune r in (97 ≤ b ∧ b ≤ 122) ∨ b = 95.
Proof. exact (normalize_rune_range r). Qed.

(** Record i is row i, with field j as the value of header column j. *)
Theorem C19_row_i header records i rec :
  records !! i = Some rec →
  ingest header records !! i = Some (record_row (map normalize_header header) rec).
Proof. exact (ingest_lookup_Some header records i rec). Qed.
Theorem C19_fields header rec c v :
  NoDup header → ((c, v) ∈ record_row header rec ↔ (c, v) ∈ zip header rec).
Proof. exact (record_row_lookup header rec c v). Qed.

(** From the BYTES of the input file (CsvBytes.v: encoding/csv with create.go's configuration,
    Go's rune decoding).  Field contents — quotes, commas, line breaks, lone CR, NUL, non-UTF-8
    bytes, empty — are preserved exactly, however the file spells the table ([q]: which fields
    are quoted although they need not be); only CR LF inside a field is read as LF. *)
Theorem C19_fields_preserved (q : str → bool) (recs : list (list str)) :
  Forall (λ r, r ≠ []) recs → same_width recs = true →
  Forall (λ r, Forall (λ f, no_crlf f = true) r) recs →
  csv_read (csv_write q recs) = Some recs.
Proof. exact (csv_roundtrip q recs). Qed.
(** A ragged table is rejected. *)
Theorem C19_ragged_rejected (q : str → bool) (recs : list (list str)) :
  Forall (λ r, r ≠ []) recs → same_width recs = false →
  Forall (λ r, Forall (λ f, no_crlf f = true) r) recs →
  csv_read (csv_write q recs) = None.
Proof. exact (csv_ragged_rejected q recs). Qed.
(** Windows line ends are read like Unix ones. *)
Theorem C19_crlf_line_ends s : Forall (λ c, c ≠ CR) s → csv_read (to_crlf s) = csv_read s.
Proof. exact (csv_read_crlf s). Qed.
(** Header names: every scalar value survives the UTF-8 encoding / Go's decoding. *)
Theorem C19_utf8 rs : Forall (λ r, scalar r = true) rs → utf8_decode (utf8_encode rs) = rs.
Proof. exact (utf8_roundtrip rs). Qed.

(** Go's decoding never yields a surrogate or a value beyond U+10FFFF, and a byte sequence that
    decodes to a rune other than U+FFFD is the shortest encoding of that rune (no overlong or
    alternative forms): header names are decoded the same way whatever bytes the file holds. *)
Theorem C19_utf8_decode_scalar s : Forall (λ b, b < 256) s → Forall (λ r, scalar r = true) (utf8_decode s).
Proof. exact (utf8_decode_scalar s). Qed.
Theorem C19_utf8_no_overlong s r rs :
  utf8_decode s = r :: rs → r ≠ 65533 → ∃ s', s = utf8_encode1 r ++ s' ∧ utf8_decode s' = rs.
Proof. exact (utf8_decode_cons_encode s r rs). Qed.
Theorem C19_utf8_ascii s : Forall (λ b, b < 128) s → utf8_decode s = s.
Proof. exact (utf8_ascii s). Qed.

Section C19.
  Context (H : list N → N).

  (** The command on the written file is the command on the table. *)
  Theorem C19_create_from_bytes (q : str → bool) (big ex : bool) (hdr : list (list N)) (recs : list (list str)) :
    hdr ≠ [] → Forall (Forall (λ r, scalar r = true)) hdr →
    Forall (λ r, length r = length hdr) recs →
    Forall (λ h, no_crlf (utf8_encode h) = true) hdr →
    Forall (Forall (λ f, no_crlf f = true)) recs →
    create_bytes H big ex (csv_write q (map utf8_encode hdr :: recs)) = create H big ex hdr recs.
  Proof. exact (create_bytes_written H q big ex hdr recs). Qed.

  Theorem C19_modes_equal ex hdr recs : create H true ex hdr recs = create H false ex hdr recs.
  Proof. exact (create_modes_equal H ex hdr recs). Qed.
  Theorem C19_existing_output big hdr recs : create H big true hdr recs = CreateErr.
  Proof. exact (create_existing_output H big hdr recs). Qed.
  Theorem C19_malformed big ex hdr recs : well_shaped hdr recs = false → create H big ex hdr recs = CreateErr.
  Proof. exact (create_malformed H big ex hdr recs). Qed.

  Context (H_inj : Inj (=) (=) H).

  (** The created index answers every query like a row scan over the ingested records (so
      C01/C02/C05 apply verbatim). *)
  Theorem C19_index_is_the_table big hdr recs s preload q :
    create H big false hdr recs = CreateOk s → N.of_nat (length recs) < 2^32 →
    expr_nul_free (q_expr q) → nonempty_ops (q_expr q) = true →
    out_bind (open_index preload s) (λ ix, execute H ix q) = spec_execute (ingest hdr recs) q.
  Proof. exact (C19_create_then_query H H_inj big hdr recs s preload q). Qed.
End C19.

Print Assumptions C19_modes_equal.
Print Assumptions C19_fields_preserved.
Print Assumptions C19_ragged_rejected.
Print Assumptions C19_crlf_line_ends.
Print Assumptions C19_utf8.
Print Assumptions C19_utf8_decode_scalar.
Print Assumptions C19_utf8_no_overlong.
Print Assumptions C19_create_from_bytes.
Print Assumptions C19_index_is_the_table.

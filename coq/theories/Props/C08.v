(** Property C08 — executing a query does not change what the Query value means.
    Statements only; proofs are [exact] of AdapterProofs.v. *)
From updog Require Import Prelude Index Adapters AdapterProofs.

Section C08.
  Context (H : list N → N).

  (** Any sequence of executions of one Query value, on the same or on different indexes:
      each returns what a freshly constructed equal query returns on that index, and the
      caller-visible fields are unchanged. *)
  Theorem C08_reuse q ixs :
    (run_q H q ixs).1 = map (λ ix, execute H ix (Query (qv_expr q) (qv_group_by q))) ixs
    ∧ qv_expr (run_q H q ixs).2 = qv_expr q ∧ qv_group_by (run_q H q ixs).2 = qv_group_by q.
  Proof. exact (AdapterProofs.C08_reuse H q ixs). Qed.

  (** Whatever scratch state an earlier execution left behind is irrelevant. *)
  Theorem C08_hidden_state_irrelevant ix e gb h1 h2 :
    (execute_q H ix (QVal e gb h1)).1 = (execute_q H ix (QVal e gb h2)).1.
  Proof. exact (execute_q_hidden_irrelevant H ix e gb h1 h2). Qed.
End C08.

(** What the repair removed: with the scratch list kept across executions the second
    execution reports every group-by column twice. *)
Theorem C08_pinned_refuted :
  ∃ ix q, (run_q_pinned H_enc q [ix; ix]).1
          ≠ map (λ ix, execute H_enc ix (Query (qv_expr q) (qv_group_by q))) [ix; ix].
Proof. exact AdapterProofs.C08_pinned_refuted. Qed.

Print Assumptions C08_reuse.
Print Assumptions C08_hidden_state_irrelevant.

(** Property C09 — the query parser is total and accepts exactly the documented grammar.
    Statements only; proofs are [exact] of ParserProofs.v.  [lex] is the byte-level lexer,
    [G_query] the EBNF of the file header over tokens. *)
From updog Require Import Prelude QParser ParserProofs LexSpec.

(** Parsing terminates on every byte string, without a run-time panic. *)
Theorem C09_total s : parse_query s ≠ Panic ∧ parse_query s ≠ Hang.
Proof. exact (parse_query_total s). Qed.

(** The lexer always ends its stream with exactly one EOF or error item (so a parser that
    drains the stream lets the lexer goroutine finish). *)
Theorem C09_lexer_stream s :
  ∃ ts t, lex s = ts ++ [t] ∧ (t = TEOF ∨ t = TError) ∧ Forall plain_tok ts.
Proof. exact (lex_shape s). Qed.

(** Token level: a query is returned exactly when the whole token sequence is a sentence of
    the grammar, and it is the tree the grammar prescribes. *)
Theorem C09_token_level ts q : parse_tokens (ts ++ [TEOF]) = Good q ↔ G_query ts q.
Proof. exact (parse_iff_strong ts q). Qed.

(** Byte level (relative to the lexer): accepted iff the input lexes without error to a
    sentence of the grammar — no unconsumed trailing text, no unterminated string. *)
Theorem C09_byte_level s q : parse_query s = Ok q ↔ ∃ ts, lex s = ts ++ [TEOF] ∧ G_query ts q.
Proof. exact (parse_query_ok_iff s q). Qed.

(** Byte level, declaratively: [Tokens s ts] says that the byte string [s] is the lexemes of
    [ts] (single-character tokens, identifiers, quoted values with doubled quotes, dollar
    followed by digits) separated by optional white space, with maximal munch — no reference to
    the lexer function.  A query is returned iff the whole input is such a sentence of the
    grammar; otherwise an error. *)
Theorem C09_byte_level_declarative s q :
  parse_query s = Ok q ↔ ∃ ts, Tokens s ts ∧ G_query ts q.
Proof. exact (parse_query_spec s q). Qed.

Theorem C09_reject_iff_not_a_sentence s :
  parse_query s = Err ↔ ¬ ∃ ts q, Tokens s ts ∧ G_query ts q.
Proof. exact (parse_query_reject s). Qed.

(** The lexer meets the lexical specification exactly, and tokenisation is unique. *)
Theorem C09_lexer_meets_spec s ts : lex s = ts ++ [TEOF] ↔ Tokens s ts.
Proof. exact (lex_spec s ts). Qed.
Theorem C09_tokenisation_unique s ts1 ts2 : Tokens s ts1 → Tokens s ts2 → ts1 = ts2.
Proof. exact (Tokens_functional s ts1 ts2). Qed.
Theorem C09_lexical_errors s : (∃ ts, lex s = ts ++ [TError]) ↔ LexError s.
Proof. exact (lex_error_spec s). Qed.

Theorem C09_lexer_error_rejects s ts :
  lex s = ts ++ [TError] → Forall plain_tok ts → parse_query s = Err.
Proof. exact (lex_error_rejects s ts). Qed.

(** "The" tree: the grammar assigns at most one tree to a token sequence. *)
Theorem C09_tree_unique ts q1 q2 : G_query ts q1 → G_query ts q2 → q1 = q2.
Proof. exact (G_query_deterministic ts q1 q2). Qed.

(** Shape: a chain of '&' (or '|') is ONE n-ary node with at least two operands, each of
    which is a simple expression ('^' binds tightest; '&' and '|' mix only through
    parentheses). *)
Theorem C09_and_is_nary ts es : G_expr ts (PAnd es) → 2 ≤ length es.
Proof. exact (G_expr_and_length ts es). Qed.
Theorem C09_or_is_nary ts es : G_expr ts (POr es) → 2 ≤ length es.
Proof. exact (G_expr_or_length ts es). Qed.
Theorem C09_chain_operands_simple op ts es :
  G_chain op ts es → Forall (λ e, ∃ ts', G_simple ts' e) es.
Proof. exact (G_chain_operands_simple op ts es). Qed.

Print Assumptions C09_total.
Print Assumptions C09_token_level.
Print Assumptions C09_byte_level.
Print Assumptions C09_byte_level_declarative.
Print Assumptions C09_reject_iff_not_a_sentence.
Print Assumptions C09_tree_unique.

(** Property C14 — no request can crash the server.  Statements only; proofs are [exact] of
    AdapterProofs.v.  [wexpr]/[wquery] are exactly the shapes the wire decoder can produce
    (any message field may be absent). *)
From updog Require Import Prelude Index Adapters AdapterProofs.

Section C14.
  Context (H : list N → N).

  Theorem C14_no_panic ix qs : serve H ix qs ≠ Panic ∧ serve H ix qs ≠ Hang.
  Proof. exact (serve_never_panics H ix qs). Qed.

  (** A request is answered with an error exactly when a member has no expression, has a
      hole in its tree, or is rejected by the library. *)
  Theorem C14_error_cases ix pos q :
    serve_one H ix pos q = Err ↔
    wq_expr q = None
    ∨ (∃ we, wq_expr q = Some we ∧ wire_expr we = None)
    ∨ (∃ we e, wq_expr q = Some we ∧ wire_expr we = Some e ∧ execute H ix (Query e (wq_group_by q)) = Err).
  Proof. exact (serve_one_err_iff H ix pos q). Qed.

  (** Later requests are unaffected by earlier ones. *)
  Theorem C14_later_requests_unaffected ix before qs :
    last (map (serve H ix) (before ++ [qs])) = Some (serve H ix qs).
  Proof. exact (serve_independent_prefix H ix before qs). Qed.
End C14.

Print Assumptions C14_no_panic.
Print Assumptions C14_error_cases.

(** Property C11 — placeholder binding is exact; too few arguments is an error.
    Statements only; proofs are [exact] of BindProofs.v / FormatProofs.v. *)
From updog Require Import Prelude QParser ParserProofs BindProofs FormatProofs.
Local Open Scope N_scope.

(** Binding succeeds iff there are at least as many arguments as the highest placeholder,
    and then every placeholder $n became the n-th argument and nothing else changed
    ([Subst] is that relation, and it is functional). *)
Theorem C11_bind_is_substitution e args e' :
  bind e args = Ok e' ↔ max_ph e ≤ N.of_nat (length args) ∧ Subst args e e'.
Proof. exact (bind_ok_iff e args e'). Qed.

Theorem C11_substitution_functional args e e1 e2 : Subst args e e1 → Subst args e e2 → e1 = e2.
Proof. exact (Subst_functional args e e1 e2). Qed.

Theorem C11_too_few_is_error e args : N.of_nat (length args) < max_ph e → bind e args = Err.
Proof. exact (bind_too_few e args). Qed.

Theorem C11_never_panics e args : bind e args ≠ Panic ∧ bind e args ≠ Hang.
Proof. exact (bind_never_panics e args). Qed.

Theorem C11_no_placeholder_left e args e' : bind e args = Ok e' → max_ph e' = 0.
Proof. exact (bind_no_placeholder_left e args e'). Qed.

Theorem C11_extra_arguments_ignored args more e e' :
  bind e args = Ok e' → bind e (args ++ more) = Ok e'.
Proof. exact (bind_extra_args_ignored' args more e e'). Qed.

(** Operators, their order and the columns are untouched. *)
Theorem C11_shape_preserved args e : shape (subst args e) = shape e.
Proof. exact (subst_shape args e). Qed.

(** A bound statement means what the one-shot query with the literal values means: its text
    parses back to the same tree up to normalisation (C10). *)
Theorem C11_bound_equals_literal_text q :
  wf_query q = true →
  ∃ q', parse_query (format_query q) = Ok q' ∧ norm (pq_expr q') = norm (pq_expr q)
        ∧ pq_group_by q' = pq_group_by q.
Proof. exact (format_roundtrip parse_complete q). Qed.

Example C11_instance :
  let e := PAnd [PEq [97] [] 2; POr [PEq [98] [120] 0; PEq [99] [] 2; PEq [100] [] 1]] in
  bind e [[49]; [50]] = Ok (PAnd [PEq [97] [50] 0; POr [PEq [98] [120] 0; PEq [99] [50] 0; PEq [100] [49] 0]])
  ∧ bind e [[49]] = Err.
Proof. split; vm_compute; reflexivity. Qed.

Print Assumptions C11_bind_is_substitution.
Print Assumptions C11_too_few_is_error.

(** Property C01 — the total count of a query is the number of added rows that satisfy
    its expression.  Theorem statements only; proofs are [exact] of lemmas of
    IndexProofs.v / BigProofs.v.  [H] is the 64-bit hash idealised as an injective
    function ("64-bit collisions are assumed away"); columns contain no NUL byte (the
    excluded domain of the property, see [C01_nul_column_refuted]). *)
From updog Require Import Prelude Index IndexProofs DataPlane.
Local Open Scope N_scope.

Section C01.
  Context (H : list N → N) (H_inj : Inj (=) (=) H).

  (** Every writer, every open mode, every dataset below 2^32 rows, every expression whose
      AND/OR nodes have at least one operand: the count is the row scan's; a query testing a
      column of no row is an error ([spec_count] is [Err] exactly then). *)
  Theorem C01_count rows e w preload :
    rows_nul_free rows → expr_nul_free e → N.of_nat (length rows) < 2^32 → nonempty_ops e = true →
    out_map r_count (run_query H w preload rows (Query e [])) = spec_count rows e.
  Proof. exact (run_query_count H H_inj rows e w preload). Qed.

  (** The in-memory writer's bitmaps may be written in any iteration order of the Go map. *)
  Theorem C01_count_any_map_order rows e preload order :
    rows_nul_free rows → expr_nul_free e → N.of_nat (length rows) < 2^32 → nonempty_ops e = true →
    order ≡ₚ map_to_list (w_vals (w_add_rows H w_init rows).2) →
    out_map r_count (out_bind (open_index preload (final_store (mem_flush_txs (w_add_rows H w_init rows).2 order)))
                              (λ ix, execute H ix (Query e [])))
    = spec_count rows e.
  Proof. exact (mem_order_count H H_inj rows e preload order). Qed.

  Theorem C01_unknown_column_is_error rows e w preload :
    rows_nul_free rows → expr_nul_free e → N.of_nat (length rows) < 2^32 → nonempty_ops e = true →
    known_columns rows e = false → run_query H w preload rows (Query e []) = Err.
  Proof. exact (run_query_unknown H H_inj rows e w preload). Qed.
End C01.

(** Why [nonempty_ops] is needed: an AND without operands counts nothing, although every row
    satisfies it vacuously. *)
Example C01_empty_and : out_map r_count (run_query H_enc WMem false [[]; []] (Query (And []) [])) = Ok 0
                        ∧ spec_count [[]; []] (And []) = Ok 2.
Proof. split; vm_compute; reflexivity. Qed.

(** The excluded domain: a NUL byte in a column name aliases two (column,value) pairs. *)
Example C01_nul_column_refuted :
  let rows := [[([97; 0; 98], [99])]; [([97], [98; 0; 99])]] in
  let e := Eq [97] [98; 0; 99] in
  out_map r_count (run_query H_enc WMem false rows (Query e [])) = Ok 2 ∧ spec_count rows e = Ok 1.
Proof. split; vm_compute; reflexivity. Qed.

(** The hypotheses are satisfiable by a non-trivial instance. *)
Example C01_instance :
  let rows := [[([97], [49]); ([98], [50])]; [([97], [50])]; []] in
  let e := Or [Not (Eq [97] [49]); And [Eq [98] [50]; Eq [97] [49]]] in
  rows_nul_free rows ∧ expr_nul_free e ∧ nonempty_ops e = true
  ∧ out_map r_count (run_query H_enc WBig true rows (Query e [])) = Ok 3.
Proof.
  split; [|split; [|split]]; [| |reflexivity|vm_compute; reflexivity];
    unfold rows_nul_free, expr_nul_free, nul_free; simpl; repeat constructor; set_solver.
Qed.

Print Assumptions C01_count.
Print Assumptions C01_count_any_map_order.
Print Assumptions C01_unknown_column_is_error.

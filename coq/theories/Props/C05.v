(** Property C05 — flush/open round trip: ids, schema, universe, membership; both writers
    agree.  Theorem statements only; proofs are [exact] of lemmas of IndexProofs.v,
    BigProofs.v, SchemaProofs.v, DataPlane.v. *)
From updog Require Import Prelude Index IndexProofs BigProofs SchemaProofs GroupByProofs DataPlane.
Local Open Scope N_scope.

Section C05.
  Context (H : list N → N).

  (** AddRow returns 0, 1, 2, ... in call order, for both writers. *)
  Theorem C05_ids_mem rows : (w_add_rows H w_init rows).1 = map N.of_nat (seq 0 (length rows)).
  Proof. exact (mem_ids H rows). Qed.
  Theorem C05_ids_big rows : (b_add_rows H b_init rows).1 = map N.of_nat (seq 0 (length rows)).
  Proof. exact (big_ids H rows). Qed.

  (** Both writers produce the same store (bucket, schema, counter and every bitmap), hence
      observationally identical indexes — for every hash function, collisions included. *)
  Theorem C05_writers_equal rows : build_store H WBig rows = build_store H WMem rows.
  Proof. exact (big_store_eq_mem H rows). Qed.

  (** After Flush, the opened index has exactly the added columns and per column its
      distinct values (both sorted), and one row per AddRow call. *)
  Theorem C05_schema_and_universe rows w preload ix :
    N.of_nat (length rows) < 2^32 →
    out_bind (build_store H w rows) (open_index preload) = Ok ix →
    get_schema ix = spec_schema rows ∧ ix_next ix = N.of_nat (length rows).
  Proof. exact (built_schema H rows w preload ix). Qed.

  (** Opening always succeeds on what the writers produce. *)
  Theorem C05_opens rows w preload :
    N.of_nat (length rows) < 2^32 →
    ∃ ix, out_bind (build_store H w rows) (open_index preload) = Ok ix ∧ IxRep H rows ix.
  Proof. exact (built_index_rep H rows w preload). Qed.

  Context (H_inj : Inj (=) (=) H).

  (** Each (column,value) holds for exactly the rows it was added to: every query (in
      particular the per-value probes and group-by on a unique column) answers as the row
      scan does.  Reopening changes nothing: [open_index] is a function of the stored data. *)
  Theorem C05_membership rows w preload q :
    N.of_nat (length rows) < 2^32 → rows_nul_free rows →
    expr_nul_free (q_expr q) → nonempty_ops (q_expr q) = true →
    run_query H w preload rows q = spec_execute rows q.
  Proof. exact (run_query_spec H H_inj rows w preload q). Qed.
End C05.

Example C05_instance :
  let rows := [[([97], [49]); ([98], [120])]; [([97], [50])]; []; [([98], [120])]] in
  (b_add_rows H_enc b_init rows).1 = [0; 1; 2; 3]
  ∧ out_map get_schema (out_bind (build_store H_enc WBig rows) (open_index true))
    = Ok [([97], [[49]; [50]]); ([98], [[120]])].
Proof. split; vm_compute; reflexivity. Qed.

Print Assumptions C05_ids_mem.
Print Assumptions C05_ids_big.
Print Assumptions C05_writers_equal.
Print Assumptions C05_schema_and_universe.
Print Assumptions C05_membership.

(** Property C05 — flush/open round trip: ids, schema, universe, membership; both writers
    agree.  Theorem statements only; proofs are [exact] of lemmas of IndexProofs.v,
    BigProofs.v, SchemaProofs.v, DataPlane.v. *)
From updog Require Import Prelude Index IndexProofs BigProofs SchemaProofs GroupByProofs DataPlane KeyBytes KeyBytesProofs.
Local Open Scope N_scope.

Section C05.
  Context (H : list N → N).

  (** AddRow returns 0, 1, 2, ... in call order, for both writers. *)
  Theorem C05_ids_mem rows : (w_add_rows H w_init rows).1 = map N.of_nat (seq 0 (length rows)).
  Proof. exact (mem_ids H rows). Qed.
  Theorem C05_ids_big rows : (b_add_rows H b_init rows).1 = map N.of_nat (seq 0 (length rows)).
  Proof. exact (big_ids H rows). Qed.

  (** Both writers produce the same store (bucket, schema, counter and every bitmap), hence
      observationally identical indexes — for every hash function, collisions included. *)
  Theorem C05_writers_equal rows : build_store H WBig rows = build_store H WMem rows.
  Proof. exact (big_store_eq_mem H rows). Qed.

  (** After Flush, the opened index has exactly the added columns and per column its
      distinct values (both sorted), and one row per AddRow call. *)
  Theorem C05_schema_and_universe rows w preload ix :
    N.of_nat (length rows) < 2^32 →
    out_bind (build_store H w rows) (open_index preload) = Ok ix →
    get_schema ix = spec_schema rows ∧ ix_next ix = N.of_nat (length rows).
  Proof. exact (built_schema H rows w preload ix). Qed.

  (** Opening always succeeds on what the writers produce. *)
  Theorem C05_opens rows w preload :
    N.of_nat (length rows) < 2^32 →
    ∃ ix, out_bind (build_store H w rows) (open_index preload) = Ok ix ∧ IxRep H rows ix.
  Proof. exact (built_index_rep H rows w preload). Qed.

  Context (H_inj : Inj (=) (=) H).

  (** Each (column,value) holds for exactly the rows it was added to: every query (in
      particular the per-value probes and group-by on a unique column) answers as the row
      scan does.  Reopening changes nothing: [open_index] is a function of the stored data. *)
  Theorem C05_membership rows w preload q :
    N.of_nat (length rows) < 2^32 → rows_nul_free rows →
    expr_nul_free (q_expr q) → nonempty_ops (q_expr q) = true →
    run_query H w preload rows q = spec_execute rows q.
  Proof. exact (run_query_spec H H_inj rows w preload q). Qed.
End C05.

Example C05_instance :
  let rows := [[([97], [49]); ([98], [120])]; [([97], [50])]; []; [([98], [120])]] in
  (b_add_rows H_enc b_init rows).1 = [0; 1; 2; 3]
  ∧ out_map get_schema (out_bind (build_store H_enc WBig rows) (open_index true))
    = Ok [([97], [[49]; [50]]); ([98], [[120]])].
Proof. split; vm_compute; reflexivity. Qed.

(** The bytes (KeyBytes.v): the numeric order in which the model walks the big writer's temp
    bucket is the byte order in which bbolt's cursor yields the keys be64(value index) ‖
    be32(row id) — for every value index below 2^64 and row id below 2^32, also beyond 2^63 —
    and the keys decode to what was encoded.  With little-endian keys this fails. *)
Theorem C05_temp_key_order h r h' r' :
  h < 2^64 → h' < 2^64 → r < 2^32 → r' < 2^32 →
  str_ltb (temp_key h r) (temp_key h' r') = true ↔ (h < h' ∨ (h = h' ∧ r < r')).
Proof. exact (temp_key_lt h r h' r'). Qed.
Theorem C05_temp_key_decode h r : h < 2^64 → r < 2^32 → temp_key_decode (temp_key h r) = (h, r).
Proof. exact (temp_key_decode_key h r). Qed.
Theorem C05_cursor_is_model_order (l : list (N * N)) :
  Forall (λ k, k.1 < 2^64 ∧ k.2 < 2^32) l →
  map (λ k, temp_key k.1 k.2) (merge_sort key_le l) = cursor_order (map (λ k, temp_key k.1 k.2) l).
Proof. exact (cursor_order_is_key_order_nodup_free l). Qed.
Theorem C05_little_endian_refuted : ∃ n m, n < m ∧ m < 2^64 ∧ str_ltb (le 8 n) (le 8 m) = false.
Proof. exact little_endian_refuted. Qed.
(** In the written file the header keys I and S precede every value key, value keys are ordered
    by value index, and the row counter decodes to the number of rows. *)
Theorem C05_header_keys_first h :
  str_ltb key_count (value_key h) = true ∧ str_ltb key_schema (value_key h) = true ∧ str_ltb key_count key_schema = true.
Proof. exact (header_keys_before_values h). Qed.
Theorem C05_value_key_order h h' : h < 2^64 → h' < 2^64 → str_ltb (value_key h) (value_key h') = (h <? h').
Proof. exact (value_key_lt h h'). Qed.
Theorem C05_count_roundtrip n : n < 2^32 → be_decode (count_value n) = n.
Proof. exact (count_value_decode n). Qed.

Print Assumptions C05_cursor_is_model_order.
Print Assumptions C05_temp_key_order.
Print Assumptions C05_ids_mem.
Print Assumptions C05_ids_big.
Print Assumptions C05_writers_equal.
Print Assumptions C05_schema_and_universe.
Print Assumptions C05_membership.

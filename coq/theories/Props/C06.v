(** Property C06 — index creation is crash-atomic: a partial file is never accepted as an
    index.  Statements only; proofs are [exact] of FilesProofs.v.  A crash state is what is
    on disk after any committed prefix of the writer's transactions (commit atomicity of
    bbolt is trusted), including none (the empty database file). *)
From updog Require Import Prelude Index Files FilesProofs.

(** In-memory writer ([Flush]/[WriteToBoltDatabase]), any iteration order of the value map:
    every crash state is rejected by OpenIndex or IS the completely written index. *)
Theorem C06_mem_writer st order s preload :
  s ∈ mem_crash_states st order →
  open_index preload s = Err ∨ s = final_store (mem_flush_txs st order).
Proof. exact (C06_mem st order s preload). Qed.

(** ... so a crash state that opens answers every query exactly as the complete index. *)
Theorem C06_mem_writer_queries H st order s preload ix q :
  s ∈ mem_crash_states st order → open_index preload s = Ok ix →
  open_index preload (final_store (mem_flush_txs st order)) = Ok ix
  ∧ execute H ix q = out_bind (open_index preload (final_store (mem_flush_txs st order))) (λ ix', execute H ix' q).
Proof. exact (C06_mem_queries H st order s preload ix q). Qed.

(** Big writer: the output file is empty until the single commit of Flush. *)
Theorem C06_big_writer st s preload :
  s ∈ big_crash_states st →
  open_index preload s = Err ∨ (∃ tx, big_flush_tx st = Ok tx ∧ s = final_store [tx]).
Proof. exact (C06_big st s preload). Qed.

(** Opening a crash state never panics or hangs. *)
Theorem C06_open_never_panics st order bst s preload :
  s ∈ mem_crash_states st order ∨ s ∈ big_crash_states bst →
  open_index preload s ≠ Panic ∧ open_index preload s ≠ Hang.
Proof. exact (C06_never_panics st order bst s preload). Qed.

(** What the repair removed: with the header written in the first transaction a crash after
    the first commit leaves a file that opens and silently misses rows. *)
Theorem C06_pinned_refuted :
  ∃ st order s,
    s ∈ empty_store :: commit_states empty_store (mem_flush_txs_pinned 2 st order)
    ∧ s ≠ final_store (mem_flush_txs_pinned 2 st order)
    ∧ ∃ ix, open_index false s = Ok ix
            ∧ ∃ q, execute H_enc ix q
                   ≠ out_bind (open_index false (final_store (mem_flush_txs_pinned 2 st order))) (λ ix', execute H_enc ix' q).
Proof. exact FilesProofs.C06_pinned_refuted. Qed.

Print Assumptions C06_mem_writer.
Print Assumptions C06_big_writer.
Print Assumptions C06_open_never_panics.

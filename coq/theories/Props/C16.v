(** Property C16 — existing files are never clobbered; reading never modifies the index.
    Statements only; proofs are [exact] of FilesProofs.v.  (These theorems are small: the
    assurance for this property comes mostly from the correspondence check, which hashes the
    files before and after.) *)
From updog Require Import Prelude Index Files FilesProofs.

Theorem C16_no_clobber fs p s : is_Some (fs_files fs !! p) → fs_flush fs p s = (Err, fs).
Proof. exact (fs_flush_no_clobber fs p s). Qed.

Theorem C16_flush_creates_only_its_path fs p s :
  fs_files fs !! p = None →
  ∃ fs', fs_flush fs p s = (Ok (), fs') ∧ fs_files fs' !! p = Some (Bolt s)
         ∧ (∀ q, q ≠ p → fs_files fs' !! q = fs_files fs !! q)
         ∧ fs_readers fs' = fs_readers fs ∧ fs_writer fs' = fs_writer fs.
Proof. exact (fs_flush_creates fs p s). Qed.

Theorem C16_open_reads_only fs p preload : fs_files (fs_open fs p preload).2 = fs_files fs.
Proof. exact (fs_open_files_unchanged fs p preload). Qed.
Theorem C16_close_reads_only fs h : fs_files (fs_close fs h).1 = fs_files fs.
Proof. exact (fs_close_files_unchanged fs h). Qed.

Print Assumptions C16_no_clobber.
Print Assumptions C16_open_reads_only.

(** Property C04 — concurrent queries return the sequential answers.  Statements only;
    proofs are [exact] of CacheProofs.v.  Every thread is the evaluation of one expression
    as a resumption whose only shared interaction is one atomic cache operation at a time
    (atomicity of Get/Put and immutability of the index are the lock obligations checked
    on the source, see Props/C04 locks in the check); the scheduler is an arbitrary list of
    thread numbers. *)
From updog Require Import Prelude Index IndexProofs LRU CacheEval CacheProofs.
Local Open Scope N_scope.

Section C04.
  Context (H : list N → N) (H_inj : Inj (=) (=) H).

  (** Under every schedule, every thread that has finished returned exactly what its
      expression evaluates to alone and without a cache. *)
  Theorem C04_every_schedule ix (C : Type) (ops : cache_ops C) (cinv : C → Prop) c es :
    cache_ok H ix ops cinv → cinv c → Forall expr_nul_free es →
    ∀ sched i r, (run_sched ops sched c (map (thread_of H ix) es)).2 !! i = Some (Ret r) →
                 ∃ e, es !! i = Some e ∧ r = eval H ix e.
  Proof. intros Hok. exact (@C04_any_schedule H H_inj ix C ops cinv Hok c es). Qed.

  Theorem C04_every_schedule_lru ix size_of max o es sched i r :
    Forall expr_nul_free es →
    (run_sched (lru_cache size_of) sched (lru_bm_init max o) (map (thread_of H ix) es)).2 !! i = Some (Ret r) →
    ∃ e, es !! i = Some e ∧ r = eval H ix e.
  Proof. exact (C04_lru H H_inj ix size_of max o es sched i r). Qed.

  Theorem C04_every_schedule_no_cache ix es sched i r :
    Forall expr_nul_free es →
    (run_sched null_cache sched () (map (thread_of H ix) es)).2 !! i = Some (Ret r) →
    ∃ e, es !! i = Some e ∧ r = eval H ix e.
  Proof. exact (C04_null H H_inj ix es sched i r). Qed.

  (** Not vacuous: some schedule finishes all threads (and then they hold the sequential
      answers). *)
  Theorem C04_some_schedule_finishes ix (C : Type) (ops : cache_ops C) (cinv : C → Prop) c es :
    cache_ok H ix ops cinv → cinv c → Forall expr_nul_free es →
    ∃ sched, (run_sched ops sched c (map (thread_of H ix) es)).2 = map (λ e, Ret (eval H ix e)) es.
  Proof. intros Hok. exact (@C04_complete_schedule H H_inj ix C ops cinv Hok c es). Qed.
End C04.

Print Assumptions C04_every_schedule.
Print Assumptions C04_every_schedule_lru.
Print Assumptions C04_some_schedule_finishes.

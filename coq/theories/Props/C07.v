(** Property C07 — LRU cache: correct lookups, byte bound, least-recently-used eviction.
    Theorem statements only; every proof is [exact] of a lemma of LRUProofs.v.
    All statements quantify over every operation list [ops], every capacity [max]
    (0 included) and every per-entry overhead [o]. *)
From updog Require Import Prelude LRU LRUProofs.
Local Open Scope N_scope.

Section C07.
  Context (max o : N) (ops : list op).
  Let s := lru_state (lru_init max o) ops.
  Let tr := lru_trace (lru_init max o) ops.

  (** A hit returns exactly the bitmap most recently stored under that key (and hence
      never one stored under another key). *)
  Theorem C07_hit_returns_latest_put k b :
    fst (lru_get s k) = RHit b → ∃ sz, last_put tr k = Some (sz, b).
  Proof. exact (T1_hit_is_latest_put max o tr s k b (reach_run max o ops)). Qed.

  (** After every operation the summed size of everything still retrievable (with and
      without the accounted overhead) is within the configured maximum. *)
  Theorem C07_byte_bound :
    sum_size (entries s) ≤ max ∧ sum_cost o (entries s) ≤ max.
  Proof. exact (T2_byte_bound max o tr s (reach_run max o ops)). Qed.

  Theorem C07_retrievable_iff_resident k :
    (∃ b, fst (lru_get s k) = RHit b) ↔ k ∈ keys (entries s).
  Proof. exact (retrievable_iff s k). Qed.

  (** Least-recently-used order over the history: the resident keys are exactly the
      [m] most recently used keys (a use is a Put or a Get that hit), for some [m]. *)
  Theorem C07_residents_are_most_recently_used :
    ∃ m, keys (entries s) = drop m (use_order (uses tr)).
  Proof. exact (T3_recency max o tr s (reach_run max o ops)). Qed.

  (** An entry that fits is retrievable right after it was stored. *)
  Theorem C07_fits_then_retrievable k sz b :
    sz + o ≤ max → fst (lru_get (lru_put s k sz b) k) = RHit b.
  Proof. exact (T4_fits_then_hit max o tr s k sz b (reach_run max o ops)). Qed.

  (** Nothing is evicted while everything ever stored fits. *)
  Theorem C07_no_needless_eviction :
    put_weight o tr ≤ max → ∀ k, k ∈ put_keys tr → k ∈ keys (entries s).
  Proof. exact (λ H, proj2 (T5_no_needless_eviction max o tr s (reach_run max o ops) H)). Qed.

  (** The four counters count exactly the events. *)
  Theorem C07_counters :
    n_get s = count_ops is_get tr ∧ n_put s = count_ops is_put tr
    ∧ n_hit s = count_ops is_hit tr ∧ n_miss s = count_ops is_miss tr.
  Proof. exact (T6_counters max o tr s (reach_run max o ops)). Qed.
End C07.

(** [use_order] is the recency order: for any split of the use history, keys used in the
    later part come after all keys not used in it; no key twice; exactly the used keys. *)
Theorem C07_use_order_is_recency (u1 u2 : list N) :
  use_order (u1 ++ u2) = filter (λ x, x ∉ u2) (use_order u1) ++ use_order u2.
Proof. exact (use_order_app u1 u2). Qed.
Theorem C07_use_order_nodup us : NoDup (use_order us).
Proof. exact (use_order_nodup us). Qed.
Theorem C07_use_order_elem us k : k ∈ use_order us ↔ k ∈ us.
Proof. exact (use_order_elem us k). Qed.

(** Non-vacuity: a concrete history with an overwrite by a larger bitmap, an eviction, a
    hit and a miss (capacity 300, overhead 64). *)
Example C07_example :
  lru_observe 300 64 [Put 1 10 100; Put 2 10 200; Get 1; Put 2 200 201; Get 1; Get 2; Put 3 400 300; Get 3; Get 2]
  = ([RPut; RPut; RHit 100; RPut; RMiss; RHit 201; RPut; RMiss; RMiss], (5, 4, 2, 3)).
Proof. vm_compute. reflexivity. Qed.

Print Assumptions C07_hit_returns_latest_put.
Print Assumptions C07_byte_bound.
Print Assumptions C07_retrievable_iff_resident.
Print Assumptions C07_residents_are_most_recently_used.
Print Assumptions C07_fits_then_retrievable.
Print Assumptions C07_no_needless_eviction.
Print Assumptions C07_counters.
Print Assumptions C07_use_order_is_recency.
Print Assumptions C07_use_order_nodup.
Print Assumptions C07_use_order_elem.

(** Property C02 — the group-by result is exactly SQL GROUP BY with COUNT > 0, in sorted
    order.  Theorem statements only; proofs are [exact] of lemmas of GroupByProofs.v /
    DataPlane.v.  The first theorem says the mechanism (nested refinement over sorted column
    values) computes [spec_groups]; the others say that [spec_groups] is the declarative
    object the property describes. *)
From updog Require Import Prelude Index IndexProofs GroupByProofs DataPlane.
Local Open Scope N_scope.

Section C02.
  Context (H : list N → N) (H_inj : Inj (=) (=) H).

  (** Every writer, every open mode, any group-by list (repeated and unknown columns
      included): the result — error, or total count and ordered groups — is the
      specification's.  [spec_execute] is [Err] iff a group-by or expression column occurs in
      no row; an empty list gives no groups. *)
  Theorem C02_groups rows w preload q :
    N.of_nat (length rows) < 2^32 → rows_nul_free rows →
    expr_nul_free (q_expr q) → nonempty_ops (q_expr q) = true →
    run_query H w preload rows q = spec_execute rows q.
  Proof. exact (run_query_spec H H_inj rows w preload q). Qed.
End C02.

(** Every group names the listed columns in list order, has a non-zero count, and the count
    is the number of rows satisfying the expression and carrying all the group's values. *)
Theorem C02_group_count rows e cols fs n :
  (fs, n) ∈ spec_groups rows e cols →
  fs.*1 = cols ∧ n ≠ 0 ∧
  n = N.of_nat (length (filter (λ r, sat r e = true ∧ Forall (λ cv, cv ∈ r) fs) rows)).
Proof. exact (spec_groups_count rows e cols fs n). Qed.

(** Every satisfying row that carries all listed columns is counted in some group; rows
    lacking a listed column are in none (by [C02_group_count]: a group's rows carry all its
    fields). *)
Theorem C02_complete rows e cols r :
  cols ≠ [] → r ∈ rows → sat r e = true → (∀ c, c ∈ cols → ∃ v, (c, v) ∈ r) →
  ∃ fs n, (fs, n) ∈ spec_groups rows e cols ∧ fs.*1 = cols ∧ Forall (λ cv, cv ∈ r) fs.
Proof. exact (spec_groups_complete rows e cols r). Qed.

(** A row (a Go map: distinct column names) is counted in one group only. *)
Theorem C02_partition rows e cols r fs n fs' n' :
  Forall row_wf rows → r ∈ rows →
  (fs, n) ∈ spec_groups rows e cols → (fs', n') ∈ spec_groups rows e cols →
  Forall (λ cv, cv ∈ r) fs → Forall (λ cv, cv ∈ r) fs' → fs = fs' ∧ n = n'.
Proof. exact (spec_groups_disjoint rows e cols r fs n fs' n'). Qed.

(** Groups are strictly increasing in the lexicographic, byte-wise order of their value
    tuples; hence no tuple appears twice. *)
Theorem C02_sorted rows e cols :
  StronglySorted tuple_lt (map (λ g : list field * N, g.1.*2) (spec_groups rows e cols)).
Proof. exact (spec_groups_sorted rows e cols). Qed.

Theorem C02_no_duplicate rows e cols :
  NoDup (map (λ g : list field * N, g.1.*2) (spec_groups rows e cols)).
Proof. exact (spec_groups_NoDup rows e cols). Qed.

Theorem C02_empty_list rows e : spec_groups rows e [] = [].
Proof. reflexivity. Qed.

(** A non-trivial instance: three rows differing only in the fourth group-by column, a row
    lacking it, and a repeated column. *)
Example C02_instance :
  let r d := [([97], [49]); ([98], [49]); ([99], [49]); ([100], [d])] in
  let rows := [r 49; r 50; r 51; [([97], [49]); ([98], [49]); ([99], [49])]] in
  let q := Query (Eq [97] [49]) [[97]; [98]; [99]; [100]; [97]] in
  rows_nul_free rows ∧
  out_map r_groups (run_query H_enc WBig true rows q)
  = Ok [([([97],[49]); ([98],[49]); ([99],[49]); ([100],[49]); ([97],[49])], 1);
        ([([97],[49]); ([98],[49]); ([99],[49]); ([100],[50]); ([97],[49])], 1);
        ([([97],[49]); ([98],[49]); ([99],[49]); ([100],[51]); ([97],[49])], 1)].
Proof.
  split; [|vm_compute; reflexivity].
  unfold rows_nul_free, nul_free; simpl; repeat constructor; set_solver.
Qed.

Print Assumptions C02_groups.
Print Assumptions C02_group_count.
Print Assumptions C02_complete.
Print Assumptions C02_partition.
Print Assumptions C02_sorted.

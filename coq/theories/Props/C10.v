(** Property C10 — formatting a query and parsing it back preserves its meaning; the second
    round is a fixpoint.  Statements only; proofs are [exact] of FormatProofs.v. *)
From updog Require Import Prelude QParser ParserProofs BindProofs FormatProofs.
Local Open Scope N_scope.

(** For every well-formed tree (identifier columns, non-empty AND/OR, any value bytes, any
    representable placeholder): the formatted text is accepted, the parsed tree equals the
    original after normalisation, and the group-by list is the same. *)
Theorem C10_roundtrip q :
  wf_query q = true →
  ∃ q', parse_query (format_query q) = Ok q'
        ∧ norm (pq_expr q') = norm (pq_expr q) ∧ pq_group_by q' = pq_group_by q.
Proof. exact (format_roundtrip parse_complete q). Qed.

(** The text obtained by formatting the re-parsed tree is stable. *)
Theorem C10_stable q q1 q2 :
  wf_query q = true →
  parse_query (format_query q) = Ok q1 → parse_query (format_query q1) = Ok q2 →
  format_query q2 = format_query q1.
Proof. exact (format_stable parse_complete q q1 q2). Qed.

Theorem C10_reparsed_is_wf q q1 :
  wf_query q = true → parse_query (format_query q) = Ok q1 → wf_query q1 = true.
Proof. exact (format_roundtrip_wf parse_complete q q1). Qed.

(** Values survive quoting: any bytes, including quotes, newlines, NUL, empty. *)
Theorem C10_value_roundtrip v : decode_string (format_string v) = v.
Proof. exact (decode_format_string v). Qed.

Theorem C10_norm_idempotent e : norm (norm e) = norm e.
Proof. exact (norm_idem e). Qed.

Example C10_instance :
  let a := PEq [97] [34; 120; 10] 0 in let b := PEq [98] [] 7 in
  let q := PQuery (PAnd [PAnd [a; b]; POr [a]; PNot (POr [a; b])]) [[99]; [99]] in
  wf_query q = true ∧
  out_map (λ q', norm (pq_expr q')) (parse_query (format_query q)) = Ok (norm (pq_expr q)).
Proof. split; vm_compute; reflexivity. Qed.

Print Assumptions C10_roundtrip.
Print Assumptions C10_stable.

(** Property C13 — the gRPC service answers each query of a batch like the library, in
    order.  Statements only; proofs are [exact] of AdapterProofs.v. *)
From updog Require Import Prelude Index QParser Adapters AdapterProofs.

Section C13.
  Context (H : list N → N).

  (** On success: exactly one result per query, in request order, each the answer to that
      query alone at its position. *)
  Theorem C13_batch ix qs rs :
    serve H ix qs = Ok rs ↔
    length rs = length qs ∧ ∀ i q, qs !! i = Some q → ∃ r, rs !! i = Some r ∧ serve_one H ix i q = Ok r.
  Proof. exact (serve_ok_pointwise H ix qs rs). Qed.

  (** Each result carries the query's id (its 1-based position when the id is 0) and the
      library's count and groups for that query. *)
  Theorem C13_result_fields ix pos q w :
    serve_one H ix pos q = Ok w →
    wr_id w = (if wq_id q =? 0 then Z.of_nat pos + 1 else wq_id q)%Z
    ∧ ∃ we e, wq_expr q = Some we ∧ wire_expr we = Some e
              ∧ execute H ix (Query e (wq_group_by q)) = Ok (result_of_wire w).
  Proof. exact (serve_one_ok_fields H ix pos q w). Qed.

  (** Any invalid member fails the whole call: never a partial response. *)
  Theorem C13_any_invalid_fails ix qs :
    serve H ix qs = Err ↔ ∃ i q, qs !! i = Some q ∧ serve_one H ix i q = Err.
  Proof. exact (serve_err_iff_exists H ix qs). Qed.
  Theorem C13_all_or_nothing ix qs :
    (∃ rs, serve H ix qs = Ok rs ∧ length rs = length qs) ∨ serve H ix qs = Err.
  Proof. exact (serve_ok_or_err H ix qs). Qed.

  (** Conversion is lossless in both directions. *)
  Theorem C13_query_conversion_lossless e : wire_expr (to_wire e) = Some (to_expr e).
  Proof. exact (wire_expr_to_wire e). Qed.
  Theorem C13_result_conversion_lossless id r : result_of_wire (WResult id (r_count r) (r_groups r)) = r.
  Proof. exact (result_of_wire_lossless id r). Qed.

  (** The sql driver's grpc:// path returns the same rows as its file path. *)
  Theorem C13_grpc_rows_equal_file_rows ix q args : grpc_stmt_query H ix q args = stmt_query H ix q args.
  Proof. exact (AdapterProofs.C13_grpc_rows H ix q args). Qed.
End C13.

Print Assumptions C13_batch.
Print Assumptions C13_result_fields.
Print Assumptions C13_grpc_rows_equal_file_rows.

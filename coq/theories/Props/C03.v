(** Property C03 — result caches are transparent; two expressions with different meaning
    never share a cached result.  Statements only; proofs are [exact] of CacheProofs.v.
    [H] is the hash used for value indexes and cache keys, idealised as injective ("up to
    64-bit collisions"); expression columns contain no NUL byte. *)
From updog Require Import Prelude Index IndexProofs LRU CacheEval CacheProofs.
Local Open Scope N_scope.

Section C03.
  Context (H : list N → N) (H_inj : Inj (=) (=) H).

  (** Cache keys are injective on expressions: a key determines the expression, hence its
      meaning on every index. *)
  Theorem C03_keys_separate_expressions e1 e2 :
    expr_nul_free e1 → expr_nul_free e2 → cache_key H e1 = cache_key H e2 → e1 = e2.
  Proof. exact (cache_key_inj H H_inj e1 e2). Qed.

  Theorem C03_keys_separate_meanings ix e1 e2 :
    expr_nul_free e1 → expr_nul_free e2 → cache_key H e1 = cache_key H e2 →
    eval H ix e1 = eval H ix e2.
  Proof. exact (key_inj H H_inj ix e1 e2). Qed.

  (** Any cache implementation that satisfies the contract [cache_ok] (a hit under key [k]
      returns a bitmap that some expression with key [k] evaluates to; storing such a
      bitmap keeps the invariant): every result of every finite query history on one open
      index equals what the uncached [execute] returns for that query alone. *)
  Theorem C03_transparent ix (C : Type) (ops : cache_ops C) (cinv : C → Prop) qs c :
    cache_ok H ix ops cinv → cinv c →
    Forall (λ q, expr_nul_free (q_expr q)) qs →
    (run_history H ops ix c qs).1 = map (execute H ix) qs.
  Proof. intros Hok. exact (@history_transparent H H_inj ix C ops cinv Hok qs c). Qed.

  (** The two built-in caches: no cache, and the LRU cache with ANY byte capacity (0
      included), any per-entry overhead and any size function. *)
  Theorem C03_no_cache ix qs :
    Forall (λ q, expr_nul_free (q_expr q)) qs →
    (run_history H null_cache ix () qs).1 = map (execute H ix) qs.
  Proof. exact (C03_null H H_inj ix qs). Qed.

  Theorem C03_lru_any_capacity ix size_of max o qs :
    Forall (λ q, expr_nul_free (q_expr q)) qs →
    (run_history H (lru_cache size_of) ix (lru_bm_init max o) qs).1 = map (execute H ix) qs.
  Proof. exact (C03_lru H H_inj ix size_of max o qs). Qed.
End C03.

Print Assumptions C03_keys_separate_expressions.
Print Assumptions C03_transparent.
Print Assumptions C03_no_cache.
Print Assumptions C03_lru_any_capacity.

(** Common definitions for the updog models. *)
From stdpp Require Export list gmap sorting.
From Coq Require Export NArith Lia.
From Coq Require Import ZifyN ZifyNat ZifyBool.

(** Strings are lists of bytes (unbounded [N]; the models never need the bound). *)
Notation str := (list N).

(** What a call into the implementation can do.  [Panic] is a Go run-time panic
    (nil dereference, index out of range); [Hang] is blocking forever. *)
Inductive outcome (A : Type) : Type :=
| Ok (a : A)
| Err
| Panic
| Hang.
Arguments Ok {A} a.
Arguments Err {A}.
Arguments Panic {A}.
Arguments Hang {A}.

Definition is_ok {A} (o : outcome A) : bool :=
  match o with Ok _ => true | _ => false end.

Definition clean {A} (o : outcome A) : Prop :=
  match o with Panic | Hang => False | _ => True end.

Definition out_bind {A B} (o : outcome A) (f : A → outcome B) : outcome B :=
  match o with Ok a => f a | Err => Err | Panic => Panic | Hang => Hang end.

Definition out_map {A B} (f : A → B) (o : outcome A) : outcome B :=
  match o with Ok a => Ok (f a) | Err => Err | Panic => Panic | Hang => Hang end.

(** Byte-wise lexicographic order on strings (Go's [<] on strings). *)
Fixpoint str_ltb (a b : str) : bool :=
  match a, b with
  | [], [] => false
  | [], _ :: _ => true
  | _ :: _, [] => false
  | x :: a', y :: b' => if (x <? y)%N then true else if (x =? y)%N then str_ltb a' b' else false
  end.

Fixpoint str_eqb (a b : str) : bool :=
  match a, b with
  | [], [] => true
  | x :: a', y :: b' => (x =? y)%N && str_eqb a' b'
  | _, _ => false
  end.

Lemma str_eqb_eq a b : str_eqb a b = true ↔ a = b.
Proof.
  revert b; induction a as [|x a IH]; intros [|y b]; simpl; try (split; congruence).
  rewrite andb_true_iff, N.eqb_eq, IH. split; [intros [-> ->]; done | intros [= -> ->]; done].
Qed.

Lemma str_eqb_refl a : str_eqb a a = true.
Proof. by apply str_eqb_eq. Qed.

Lemma str_eqb_neq a b : str_eqb a b = false ↔ a ≠ b.
Proof.
  destruct (str_eqb a b) eqn:E.
  - apply str_eqb_eq in E. split; [done | intros Hn; by destruct Hn].
  - split; [|done]. intros _ Heq. apply str_eqb_eq in Heq. congruence.
Qed.

Definition str_lt (a b : str) : Prop := str_ltb a b = true.

Lemma str_ltb_irrefl a : str_ltb a a = false.
Proof. induction a as [|x a IH]; simpl; [done|]. rewrite N.ltb_irrefl, N.eqb_refl. done. Qed.

Lemma str_ltb_trans a b c : str_ltb a b = true → str_ltb b c = true → str_ltb a c = true.
Proof.
  revert b c; induction a as [|x a IH]; intros [|y b] [|z c]; simpl; try done.
  destruct (N.ltb_spec x y) as [Hxy|Hxy].
  - destruct (N.ltb_spec y z) as [Hyz|Hyz].
    + intros _ _. destruct (N.ltb_spec x z); [done|lia].
    + destruct (N.eqb_spec y z) as [->|]; [|done]. intros _ _.
      destruct (N.ltb_spec x z); [done|lia].
  - destruct (N.eqb_spec x y) as [->|]; [|done].
    destruct (N.ltb_spec y z) as [Hyz|Hyz]; [done|].
    destruct (N.eqb_spec y z) as [->|]; [|done]. apply IH.
Qed.

Lemma str_ltb_trichotomy a b : str_ltb a b = true ∨ a = b ∨ str_ltb b a = true.
Proof.
  revert b; induction a as [|x a IH]; intros [|y b]; simpl; auto.
  destruct (N.ltb_spec x y); auto. destruct (N.ltb_spec y x); auto.
  assert (x = y) as -> by lia. rewrite N.eqb_refl.
  destruct (IH b) as [?|[->|?]]; auto.
Qed.

Lemma str_ltb_asym a b : str_ltb a b = true → str_ltb b a = false.
Proof.
  intros H. destruct (str_ltb b a) eqn:E; [|done].
  pose proof (str_ltb_trans _ _ _ H E) as Hc. by rewrite str_ltb_irrefl in Hc.
Qed.

Global Instance str_lt_dec a b : Decision (str_lt a b).
Proof. unfold str_lt. apply _. Defined.

Global Instance str_lt_strict : StrictOrder str_lt.
Proof.
  split.
  - intros a H. unfold str_lt in H. by rewrite str_ltb_irrefl in H.
  - intros a b c. apply str_ltb_trans.
Qed.

Definition str_le (a b : str) : Prop := str_ltb b a = false.
Global Instance str_le_dec a b : Decision (str_le a b).
Proof. unfold str_le. apply _. Defined.

Global Instance str_le_total : Total str_le.
Proof.
  intros a b. unfold str_le. destruct (str_ltb b a) eqn:E; [|by left].
  right. by apply str_ltb_asym.
Qed.

Global Instance str_le_trans : Transitive str_le.
Proof.
  intros a b c Hab Hbc. unfold str_le in *.
  destruct (str_ltb c a) eqn:E; [|done].
  destruct (str_ltb_trichotomy a b) as [H|[->|H]]; try congruence.
  pose proof (str_ltb_trans _ _ _ E H). congruence.
Qed.

Lemma str_le_antisym a b : str_le a b → str_le b a → a = b.
Proof.
  unfold str_le. intros H1 H2. destruct (str_ltb_trichotomy a b) as [?|[?|?]]; congruence.
Qed.

(** Data source names of the sql driver (driver/driver.go [updogDriver.Open], [openFile]):
    scheme, file path, option string; which index options a [file:] source asks for and under
    which key its connection is shared (C12, C17).  Modelled: [url.Parse] on names of the shape
    scheme ":" path [ "?" query ] whose path has no '%' and whose text has no '#' and no control
    byte (the generator writes none), [url.ParseQuery] on the query INCLUDING percent-decoding
    ([url.QueryUnescape]: "%XX" with two hex digits is one byte, '+' is a space, a malformed
    escape drops the pair) and the rejection of pairs containing ';', [url.Values.Get] (first
    value of a key), [strconv.ParseUint(s, 10, 64)].  No proofs in this file. *)
From updog Require Import Prelude.
Local Open Scope N_scope.

(** Split at the first occurrence of [c]: (before, Some after) or (all, None). *)
Fixpoint cut (c : N) (s : str) : str * option str :=
  match s with
  | [] => ([], None)
  | x :: s' => if x =? c then ([], Some s') else let '(a, b) := cut c s' in (x :: a, b)
  end.

(** Split at every occurrence of [c]. *)
Fixpoint split_on (c : N) (s : str) : list str :=
  match s with
  | [] => [[]]
  | x :: s' =>
      match split_on c s' with
      | [] => [[]]                               (* unreachable: split_on never returns [] *)
      | h :: t => if x =? c then [] :: h :: t else (x :: h) :: t
      end
  end.

(** Value of a hexadecimal digit ([net/url.unhex], guarded by [ishex]). *)
Definition hexval (c : N) : option N :=
  if (48 <=? c) && (c <=? 57) then Some (c - 48)
  else if (97 <=? c) && (c <=? 102) then Some (c - 87)
  else if (65 <=? c) && (c <=? 70) then Some (c - 55)
  else None.

(** [url.QueryUnescape]: '%' must be followed by two hex digits and stands for that byte,
    '+' stands for a space, every other byte for itself; [None]: invalid escape. *)
Fixpoint unescape (s : str) : option str :=
  match s with
  | [] => Some []
  | c :: r =>
      if c =? 37 then
        match r with
        | a :: b :: r' =>
            match hexval a, hexval b with
            | Some x, Some y => match unescape r' with Some t => Some ((16 * x + y) :: t) | None => None end
            | _, _ => None
            end
        | _ => None
        end
      else match unescape r with Some t => Some ((if c =? 43 then 32 else c) :: t) | None => None end
  end.

Definition has_byte (c : N) (s : str) : bool := existsb (N.eqb c) s.

(** [url.ParseQuery] (whose error [URL.Query] discards): pairs separated by '&'; a pair containing
    ';' and an empty pair are skipped; key and value are separated by the first '=' and each is
    percent-decoded, a pair with an invalid escape in either is skipped. *)
Definition parse_query (q : str) : list (str * str) :=
  omap (λ p, match p with
             | [] => None
             | _ => if has_byte 59 p then None else
                    let '(k, v) := cut 61 p in
                    match unescape k, unescape (default [] v) with
                    | Some k', Some v' => Some (k', v')
                    | _, _ => None
                    end
             end) (split_on 38 q).

(** [url.Values.Get]: the first value associated with the key, the empty string otherwise. *)
Fixpoint values_get (kvs : list (str * str)) (k : str) : str :=
  match kvs with
  | [] => []
  | (k', v) :: r => if str_eqb k' k then v else values_get r k
  end.

(** [strconv.ParseUint(s, 10, 64)]: one or more decimal digits (no sign, no underscore), value
    below 2^64. *)
Fixpoint digits_value (acc : N) (s : str) : option N :=
  match s with
  | [] => Some acc
  | d :: s' => if (48 <=? d) && (d <=? 57) then digits_value (10 * acc + (d - 48)) s' else None
  end.

Definition parse_uint64 (s : str) : option N :=
  match s with
  | [] => None
  | _ => match digits_value 0 s with
         | Some v => if v <? 2 ^ 64 then Some v else None
         | None => None
         end
  end.

(* the literal strings of driver.go, as bytes *)
Definition s_true : str := [116; 114; 117; 101].
Definition s_preload : str := [112; 114; 101; 108; 111; 97; 100].
Definition s_lrucache : str := [108; 114; 117; 99; 97; 99; 104; 101].
Definition s_lrucachesize : str := [108; 114; 117; 99; 97; 99; 104; 101; 115; 105; 122; 101].
Definition k_preload : str := [59] ++ s_preload ++ [61] ++ s_true.                 (* ;preload=true *)
Definition k_lrucache : str := [59] ++ s_lrucache ++ [61] ++ s_true.               (* ;lrucache=true *)
Definition k_lrucachesize : str := [59] ++ s_lrucachesize ++ [61].                 (* ;lrucachesize= *)

(** What a [file:] source asks for. *)
Record file_cfg := FileCfg { fc_preload : bool; fc_cache : option N (* capacity in bytes *) }.

(** [openFile]: the options and the option part of the connection-cache key; [None]: the open
    fails (invalid cache size). *)
Definition file_options (kvs : list (str * str)) : option (file_cfg * str) :=
  let pre := str_eqb (values_get kvs s_preload) s_true in
  let kpre := if pre then k_preload else [] in
  if str_eqb (values_get kvs s_lrucache) s_true then
    let sz := values_get kvs s_lrucachesize in
    match parse_uint64 sz with
    | Some cap => Some (FileCfg pre (Some cap), kpre ++ k_lrucache ++ k_lrucachesize ++ sz)
    | None => None
    end
  else Some (FileCfg pre None, kpre).

Inductive dsn :=
| DsnFile (path : str) (cfg : file_cfg) (key_opts : str)
| DsnGrpc (hostport : str)
| DsnError.

Definition s_file : str := [102; 105; 108; 101].
Definition s_grpc : str := [103; 114; 112; 99].

(** [Open]: scheme up to the first ':', then the path up to the first '?', then the query.
    For [grpc] the text after "//" is host:port. *)
Definition parse_dsn (name : str) : dsn :=
  match cut 58 name with
  | (scheme, Some rest) =>
      if str_eqb scheme s_file then
        let '(path, q) := cut 63 rest in
        match file_options (parse_query (default [] q)) with
        | Some (cfg, k) => DsnFile path cfg k
        | None => DsnError
        end
      else if str_eqb scheme s_grpc then
        match rest with
        | 47 :: 47 :: hp => DsnGrpc (cut 63 hp).1
        | _ => DsnGrpc []
        end
      else DsnError
  | (_, None) => DsnError
  end.

(** The connection-cache key of a [file:] source. *)
Definition dsn_key (d : dsn) : option (str * str) :=
  match d with DsnFile p _ k => Some (p, k) | _ => None end.

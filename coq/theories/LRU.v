(** Model of [LRUCache] (cache.go).  No proofs here: the model must stay runnable
    even when a proof breaks. *)
From updog Require Import Prelude.
Local Open Scope N_scope.

(** A cached bitmap is represented by its identity [e_bm] and by the number of bytes
    roaring reports for it ([GetSizeInBytes], an input of the model). *)
Record entry := Entry { e_key : N; e_size : N; e_bm : N }.

(** [entries] is the recency list, least recently used FIRST (the back of the Go list
    is the head of this list; [PushFront]/[MoveToFront] append at the end). *)
Record lru := Lru {
  entries : list entry;
  cur : N;          (* curSize *)
  maxsz : N;        (* maxSize *)
  ovh : N;          (* unsafe.Sizeof(lruCacheItem{}) + unsafe.Sizeof(list.Element{}) *)
  n_get : N; n_put : N; n_hit : N; n_miss : N   (* the four CacheMetrics counters *)
}.

Definition lru_init (max o : N) : lru := Lru [] 0 max o 0 0 0 0.

Inductive op := Put (k size bm : N) | Get (k : N).
Inductive res := RPut | RHit (bm : N) | RMiss.

Fixpoint find_key (k : N) (es : list entry) : option entry :=
  match es with
  | [] => None
  | e :: es' => if e_key e =? k then Some e else find_key k es'
  end.

Definition remove_key (k : N) (es : list entry) : list entry :=
  filter (λ e, e_key e ≠ k) es.

Definition cost (o : N) (e : entry) : N := e_size e + o.

(** [for c.curSize > c.maxSize && c.lruList.Len() > 0 { remove Back }] *)
Fixpoint evict (max o : N) (es : list entry) (c : N) : list entry * N :=
  match es with
  | [] => ([], c)
  | e :: es' => if max <? c then evict max o es' (c - cost o e) else (es, c)
  end.

Definition lru_put (s : lru) (k size bm : N) : lru :=
  let e := Entry k size bm in
  let '(es1, c1) :=
    match find_key k (entries s) with
    | Some old => (remove_key k (entries s) ++ [e], cur s - e_size old + size)
    | None => (entries s ++ [e], cur s + cost (ovh s) e)
    end in
  let '(es2, c2) := evict (maxsz s) (ovh s) es1 c1 in
  Lru es2 c2 (maxsz s) (ovh s) (n_get s) (n_put s + 1) (n_hit s) (n_miss s).

Definition lru_get (s : lru) (k : N) : res * lru :=
  match find_key k (entries s) with
  | Some e =>
      (RHit (e_bm e),
       Lru (remove_key k (entries s) ++ [e]) (cur s) (maxsz s) (ovh s)
           (n_get s + 1) (n_put s) (n_hit s + 1) (n_miss s))
  | None =>
      (RMiss,
       Lru (entries s) (cur s) (maxsz s) (ovh s)
           (n_get s + 1) (n_put s) (n_hit s) (n_miss s + 1))
  end.

Definition lru_step (s : lru) (o : op) : lru * res :=
  match o with
  | Put k sz b => (lru_put s k sz b, RPut)
  | Get k => let '(r, s') := lru_get s k in (s', r)
  end.

(** Final state and the full trace (operation, result) of an operation list. *)
Definition lru_state (s : lru) (ops : list op) : lru :=
  fold_left (λ s o, fst (lru_step s o)) ops s.

Fixpoint lru_trace (s : lru) (ops : list op) : list (op * res) :=
  match ops with
  | [] => []
  | o :: ops' => (o, snd (lru_step s o)) :: lru_trace (fst (lru_step s o)) ops'
  end.

(** What the correspondence check compares: the results and the four counters. *)
Definition lru_observe (max o : N) (ops : list op) : list res * (N * N * N * N) :=
  let s := lru_state (lru_init max o) ops in
  (map snd (lru_trace (lru_init max o) ops), (n_get s, n_put s, n_hit s, n_miss s)).

(** * History-level vocabulary used by the specification *)

(** The latest [Put] on key [k] in a history. *)
Fixpoint last_put (tr : list (op * res)) (k : N) : option (N * N) :=
  match tr with
  | [] => None
  | (o, _) :: tr' =>
      match last_put tr' k with
      | Some x => Some x
      | None => match o with
                | Put k' sz b => if k' =? k then Some (sz, b) else None
                | Get _ => None
                end
      end
  end.

(** A use of a key is a [Put] on it or a [Get] that hit. *)
Definition use_of (x : op * res) : option N :=
  match x with
  | (Put k _ _, _) => Some k
  | (Get k, RHit _) => Some k
  | _ => None
  end.
Definition uses (tr : list (op * res)) : list N := omap use_of tr.

(** Keys ordered by recency of their last use (most recent LAST). *)
Definition touch (order : list N) (k : N) : list N := filter (λ x, x ≠ k) order ++ [k].
Definition use_order (us : list N) : list N := fold_left touch us [].

Definition sum_cost (o : N) (es : list entry) : N := foldr (λ e a, cost o e + a) 0 es.
Definition sum_size (es : list entry) : N := foldr (λ e a, e_size e + a) 0 es.

(** Sum over all [Put]s of a history of (size + overhead): "everything stored". *)
Definition put_weight (o : N) (tr : list (op * res)) : N :=
  foldr (λ x a, match fst x with Put _ sz _ => sz + o + a | Get _ => a end) 0 tr.

Definition count_ops (f : op * res → bool) (tr : list (op * res)) : N :=
  N.of_nat (length (filter (λ x, f x = true) tr)).
Definition is_get (x : op * res) : bool := match fst x with Get _ => true | _ => false end.
Definition is_put (x : op * res) : bool := match fst x with Put _ _ _ => true | _ => false end.
Definition is_hit (x : op * res) : bool := match snd x with RHit _ => true | _ => false end.
Definition is_miss (x : op * res) : bool := match snd x with RMiss => true | _ => false end.

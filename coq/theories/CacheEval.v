(** Evaluation through a result cache (query.go: cacheKey, Get-before / Put-after at every
    node), query histories on one open index (C03), and the same evaluation as a resumption
    whose cache operations are interleaved by an arbitrary scheduler (C04).
    No proofs in this file. *)
From updog Require Import Prelude Index LRU.
Local Open Scope N_scope.

Section WithHash.
Context (H : list N → N).

(** ** Cache keys
    Every node hashes a tag, then its payload: a leaf its column, a NUL byte and its value;
    an operator the (fixed-width) keys of its operands in order.  In the model a child key
    is one element of the hashed list. *)
Definition tagE : N := 69.
Definition tagN : N := 78.
Definition tagA : N := 65.
Definition tagO : N := 79.

Fixpoint cache_key (e : expr) : N :=
  match e with
  | Eq c v => H (tagE :: c ++ 0 :: v)
  | Not e' => H [tagN; cache_key e']
  | And es => H (tagA :: map cache_key es)
  | Or es => H (tagO :: map cache_key es)
  end.

(** ** An abstract cache: any state type with a lookup (which may change the state, e.g. the
    recency order) and a store. *)
Record cache_ops (C : Type) := CacheOps {
  cget : C → N → option bitmap * C;
  cput : C → N → bitmap → C
}.
Arguments cget {C}.
Arguments cput {C}.

Section WithCache.
Context {C : Type} (ops : cache_ops C).

(** [eval] with the cache threaded through, in the order the code performs the calls:
    (leaf: schema check first) key, Get, on a miss the operands left to right, the operator,
    Put.  An error aborts without a Put. *)
Fixpoint eval_c (ix : index) (e : expr) (c : C) : outcome bitmap * C :=
  match e with
  | Eq col v =>
      match ix_schema ix !! col with
      | None => (Err, c)
      | Some _ =>
          match cget ops c (cache_key e) with
          | (Some b, c1) => (Ok b, c1)
          | (None, c1) => let b := default ∅ (get_col ix (vidx H col v)) in (Ok b, cput ops c1 (cache_key e) b)
          end
      end
  | Not e' =>
      match cget ops c (cache_key e) with
      | (Some b, c1) => (Ok b, c1)
      | (None, c1) =>
          match eval_c ix e' c1 with
          | (Ok b, c2) => let r := bm_flip b (ix_next ix) in (Ok r, cput ops c2 (cache_key e) r)
          | (Err, c2) => (Err, c2) | (Panic, c2) => (Panic, c2) | (Hang, c2) => (Hang, c2)
          end
      end
  | And es =>
      match cget ops c (cache_key e) with
      | (Some b, c1) => (Ok b, c1)
      | (None, c1) =>
          match (fix go (es : list expr) (c : C) : outcome (list bitmap) * C :=
                   match es with
                   | [] => (Ok [], c)
                   | e1 :: es' =>
                       match eval_c ix e1 c with
                       | (Ok b, c') => match go es' c' with
                                       | (Ok bs, c'') => (Ok (b :: bs), c'')
                                       | (Err, c'') => (Err, c'') | (Panic, c'') => (Panic, c'') | (Hang, c'') => (Hang, c'')
                                       end
                       | (Err, c') => (Err, c') | (Panic, c') => (Panic, c') | (Hang, c') => (Hang, c')
                       end
                   end) es c1 with
          | (Ok bs, c2) => let r := fast_and bs in (Ok r, cput ops c2 (cache_key e) r)
          | (Err, c2) => (Err, c2) | (Panic, c2) => (Panic, c2) | (Hang, c2) => (Hang, c2)
          end
      end
  | Or es =>
      match cget ops c (cache_key e) with
      | (Some b, c1) => (Ok b, c1)
      | (None, c1) =>
          match (fix go (es : list expr) (c : C) : outcome (list bitmap) * C :=
                   match es with
                   | [] => (Ok [], c)
                   | e1 :: es' =>
                       match eval_c ix e1 c with
                       | (Ok b, c') => match go es' c' with
                                       | (Ok bs, c'') => (Ok (b :: bs), c'')
                                       | (Err, c'') => (Err, c'') | (Panic, c'') => (Panic, c'') | (Hang, c'') => (Hang, c'')
                                       end
                       | (Err, c') => (Err, c') | (Panic, c') => (Panic, c') | (Hang, c') => (Hang, c')
                       end
                   end) es c1 with
          | (Ok bs, c2) => let r := fast_or bs in (Ok r, cput ops c2 (cache_key e) r)
          | (Err, c2) => (Err, c2) | (Panic, c2) => (Panic, c2) | (Hang, c2) => (Hang, c2)
          end
      end
  end.

(** [Index.Execute] on an index with a cache. *)
Definition execute_c (ix : index) (q : query) (c : C) : outcome result * C :=
  match populate_group_by (ix_schema ix) (q_group_by q) with
  | None => (Err, c)
  | Some gbs =>
      match eval_c ix (q_expr q) c with
      | (Ok b, c') => (Ok (Result (bm_card b) (group_by ix gbs b)), c')
      | (Err, c') => (Err, c') | (Panic, c') => (Panic, c') | (Hang, c') => (Hang, c')
      end
  end.

(** A history of queries on one open index: the results, in order, and the final cache. *)
Fixpoint run_history (ix : index) (c : C) (qs : list query) : list (outcome result) * C :=
  match qs with
  | [] => ([], c)
  | q :: qs' => let '(r, c') := execute_c ix q c in
                let '(rs, c'') := run_history ix c' qs' in (r :: rs, c'')
  end.

End WithCache.

(** ** The two built-in caches *)

(** [nullCache]. *)
Definition null_cache : cache_ops unit := CacheOps unit (λ c _, (None, c)) (λ c _ _, c).

(** [LRUCache] holding real bitmaps: the recency/size bookkeeping is [LRU.lru] (entries carry
    a bitmap identity), the identities are resolved by a table.  [size_of] is roaring's
    [GetSizeInBytes], an arbitrary function for the model. *)
Record lru_bm := LruBm { lb_lru : lru; lb_tbl : gmap N bitmap; lb_next : N }.

Definition lru_bm_init (max o : N) : lru_bm := LruBm (lru_init max o) ∅ 0.

Definition lru_cache (size_of : bitmap → N) : cache_ops lru_bm :=
  CacheOps lru_bm
    (λ c k, match lru_get (lb_lru c) k with
            | (RHit id, s') => (lb_tbl c !! id, LruBm s' (lb_tbl c) (lb_next c))
            | (_, s') => (None, LruBm s' (lb_tbl c) (lb_next c))
            end)
    (λ c k b, LruBm (lru_put (lb_lru c) k (size_of b) (lb_next c))
                    (<[lb_next c := b]> (lb_tbl c)) (lb_next c + 1)).

(** ** C04: evaluation as a resumption; the only shared interaction is the cache *)
Inductive prog :=
| Ret (r : outcome bitmap)
| DoGet (k : N) (cont : option bitmap → prog)
| DoPut (k : N) (b : bitmap) (cont : prog).

(** [compile ix e K]: evaluate [e], then continue with [K]. *)
Fixpoint compile (ix : index) (e : expr) (K : outcome bitmap → prog) {struct e} : prog :=
  match e with
  | Eq col v =>
      match ix_schema ix !! col with
      | None => K Err
      | Some _ =>
          DoGet (cache_key e) (λ r, match r with
                                    | Some b => K (Ok b)
                                    | None => let b := default ∅ (get_col ix (vidx H col v)) in
                                              DoPut (cache_key e) b (K (Ok b))
                                    end)
      end
  | Not e' =>
      DoGet (cache_key e) (λ r, match r with
                                | Some b => K (Ok b)
                                | None => compile ix e' (λ o, match o with
                                                              | Ok b => let r := bm_flip b (ix_next ix) in
                                                                        DoPut (cache_key e) r (K (Ok r))
                                                              | Err => K Err | Panic => K Panic | Hang => K Hang
                                                              end)
                                end)
  | And es =>
      DoGet (cache_key e) (λ r, match r with
                                | Some b => K (Ok b)
                                | None =>
                                    (fix go (es : list expr) (acc : list bitmap) : prog :=
                                       match es with
                                       | [] => let r := fast_and (rev acc) in DoPut (cache_key e) r (K (Ok r))
                                       | e1 :: es' => compile ix e1 (λ o, match o with
                                                                         | Ok b => go es' (b :: acc)
                                                                         | Err => K Err | Panic => K Panic | Hang => K Hang
                                                                         end)
                                       end) es []
                                end)
  | Or es =>
      DoGet (cache_key e) (λ r, match r with
                                | Some b => K (Ok b)
                                | None =>
                                    (fix go (es : list expr) (acc : list bitmap) : prog :=
                                       match es with
                                       | [] => let r := fast_or (rev acc) in DoPut (cache_key e) r (K (Ok r))
                                       | e1 :: es' => compile ix e1 (λ o, match o with
                                                                         | Ok b => go es' (b :: acc)
                                                                         | Err => K Err | Panic => K Panic | Hang => K Hang
                                                                         end)
                                       end) es []
                                end)
  end.

Definition thread_of (ix : index) (e : expr) : prog := compile ix e Ret.

Section Sched.
Context {C : Type} (ops : cache_ops C).

(** One atomic cache operation of one thread (a finished thread does nothing). *)
Definition step1 (c : C) (p : prog) : C * prog :=
  match p with
  | Ret r => (c, Ret r)
  | DoGet k cont => let '(r, c') := cget ops c k in (c', cont r)
  | DoPut k b cont => (cput ops c k b, cont)
  end.

(** A schedule names, step by step, the thread that moves (out-of-range = nobody). *)
Fixpoint run_sched (sched : list nat) (c : C) (ts : list prog) : C * list prog :=
  match sched with
  | [] => (c, ts)
  | i :: sched' =>
      match ts !! i with
      | None => run_sched sched' c ts
      | Some p => let '(c', p') := step1 c p in run_sched sched' c' (<[i := p']> ts)
      end
  end.
End Sched.

End WithHash.

(** C19, from the bytes: the CSV reader reads back what the writers write (any choice of
    additional quoting, any field bytes except CR LF), ragged tables are rejected, UTF-8
    decoding inverts encoding on scalar values, [create_bytes] on a written file is [create]
    on the table, and CR LF line ends are read like LF ones. *)
From updog Require Import Prelude Index Csv CsvBytes.
From Coq Require Import ZifyN ZifyNat ZifyBool.
Local Open Scope N_scope.
Ltac Zify.zify_post_hook ::= Z.div_mod_to_equations.

(** * UTF-8 *)

Lemma dec1 b0 s : b0 < 128 → utf8_decode (b0 :: s) = b0 :: utf8_decode s.
Proof.
  intros Hb. cbn [utf8_decode]. destruct (N.ltb_spec b0 128); [done | lia].
Qed.

Lemma dec2 b0 b1 s :
  194 ≤ b0 → b0 ≤ 223 → 128 ≤ b1 → b1 ≤ 191 →
  utf8_decode (b0 :: b1 :: s) = ((b0 - 192) * 64 + (b1 - 128)) :: utf8_decode s.
Proof.
  intros H0 H0' H1 H1'. cbn [utf8_decode].
  destruct (N.ltb_spec b0 128); [lia|].
  assert (between 194 b0 223 = true) as -> by (unfold between; lia).
  assert (cont b1 = true) as -> by (unfold cont; lia).
  done.
Qed.

Lemma dec3 b0 b1 b2 s :
  224 ≤ b0 → b0 ≤ 239 → second_lo b0 ≤ b1 → b1 ≤ second_hi b0 → 128 ≤ b2 → b2 ≤ 191 →
  utf8_decode (b0 :: b1 :: b2 :: s)
  = ((b0 - 224) * 4096 + (b1 - 128) * 64 + (b2 - 128)) :: utf8_decode s.
Proof.
  intros H0 H0' H1 H1' H2 H2'. cbn [utf8_decode].
  destruct (N.ltb_spec b0 128); [lia|].
  assert (between 194 b0 223 = false) as -> by (unfold between; lia).
  assert (between 224 b0 239 = true) as -> by (unfold between; lia).
  assert (between (second_lo b0) b1 (second_hi b0) = true) as -> by (unfold between; lia).
  assert (cont b2 = true) as -> by (unfold cont; lia).
  done.
Qed.

Lemma dec4 b0 b1 b2 b3 s :
  240 ≤ b0 → b0 ≤ 244 → second_lo b0 ≤ b1 → b1 ≤ second_hi b0 →
  128 ≤ b2 → b2 ≤ 191 → 128 ≤ b3 → b3 ≤ 191 →
  utf8_decode (b0 :: b1 :: b2 :: b3 :: s)
  = ((b0 - 240) * 262144 + (b1 - 128) * 4096 + (b2 - 128) * 64 + (b3 - 128)) :: utf8_decode s.
Proof.
  intros H0 H0' H1 H1' H2 H2' H3 H3'. cbn [utf8_decode].
  destruct (N.ltb_spec b0 128); [lia|].
  assert (between 194 b0 223 = false) as -> by (unfold between; lia).
  assert (between 224 b0 239 = false) as -> by (unfold between; lia).
  assert (between 240 b0 244 = true) as -> by (unfold between; lia).
  assert (between (second_lo b0) b1 (second_hi b0) = true) as -> by (unfold between; lia).
  assert (cont b2 = true) as -> by (unfold cont; lia).
  assert (cont b3 = true) as -> by (unfold cont; lia).
  done.
Qed.

Lemma utf8_decode_encode1 r s :
  scalar r = true → utf8_decode (utf8_encode1 r ++ s) = r :: utf8_decode s.
Proof.
  intros Hsc. unfold scalar in Hsc. unfold utf8_encode1.
  destruct (N.ltb_spec r 128) as [H1|H1].
  { cbn [app]. by apply dec1. }
  destruct (N.ltb_spec r 2048) as [H2|H2].
  { cbn [app]. rewrite dec2 by lia. f_equal. lia. }
  destruct (N.ltb_spec r 65536) as [H3|H3].
  { cbn [app].
    assert (second_lo (224 + r / 4096) ≤ 128 + (r / 64) mod 64) as Hlo.
    { unfold second_lo.
      destruct (N.eqb_spec (224 + r / 4096) 224) as [E|E]; [lia|].
      destruct (N.eqb_spec (224 + r / 4096) 240) as [E'|E']; lia. }
    assert (128 + (r / 64) mod 64 ≤ second_hi (224 + r / 4096)) as Hhi.
    { unfold second_hi.
      destruct (N.eqb_spec (224 + r / 4096) 237) as [E|E]; [lia|].
      destruct (N.eqb_spec (224 + r / 4096) 244) as [E'|E']; lia. }
    rewrite dec3 by (try assumption; lia). f_equal. lia. }
  cbn [app].
  assert (r < 1114112) as H4 by lia.
  assert (second_lo (240 + r / 262144) ≤ 128 + (r / 4096) mod 64) as Hlo.
  { unfold second_lo.
    destruct (N.eqb_spec (240 + r / 262144) 224) as [E|E]; [lia|].
    destruct (N.eqb_spec (240 + r / 262144) 240) as [E'|E']; lia. }
  assert (128 + (r / 4096) mod 64 ≤ second_hi (240 + r / 262144)) as Hhi.
  { unfold second_hi.
    destruct (N.eqb_spec (240 + r / 262144) 237) as [E|E]; [lia|].
    destruct (N.eqb_spec (240 + r / 262144) 244) as [E'|E']; lia. }
  rewrite dec4 by (try assumption; lia). f_equal. lia.
Qed.

Theorem utf8_roundtrip rs :
  Forall (λ r, scalar r = true) rs → utf8_decode (utf8_encode rs) = rs.
Proof.
  induction 1 as [|r rs Hr _ IH]; [done|].
  unfold utf8_encode in *. cbn [flat_map]. rewrite utf8_decode_encode1 by done. by f_equal.
Qed.

(** * The CR LF normalisation is the identity on written text *)

Lemma needs_quotes_cons c f :
  needs_quotes (c :: f) = false ↔
  c ≠ QUOTE ∧ c ≠ COMMA ∧ c ≠ LF ∧ c ≠ CR ∧ needs_quotes f = false.
Proof.
  unfold needs_quotes. cbn [existsb]. rewrite !orb_false_iff, !N.eqb_neq. tauto.
Qed.

(** no CR is followed by LF and the text does not end in CR *)
Fixpoint crlf_free (s : str) : bool :=
  match s with
  | [] => true
  | c :: s' =>
      if c =? CR then match s' with [] => false | d :: _ => negb (d =? LF) && crlf_free s' end
      else crlf_free s'
  end.

Lemma crlf_norm_id s : crlf_free s = true → crlf_norm s = s.
Proof.
  induction s as [|c s IH]; [done|]. cbn [crlf_free crlf_norm].
  destruct (N.eqb_spec c CR) as [->|Ec].
  - destruct s as [|d s']; [done|]. destruct (d =? LF) eqn:Ed; cbn [negb andb]; [done|].
    intros Hs. by rewrite IH.
  - intros Hs. by rewrite IH.
Qed.

Lemma crlf_free_app a b : crlf_free a = true → crlf_free b = true → crlf_free (a ++ b) = true.
Proof.
  intros Ha Hb. induction a as [|c a IH]; [done|].
  cbn [app crlf_free] in *. destruct (c =? CR).
  - destruct a as [|d a']; [done|]. cbn [app]. apply andb_true_iff in Ha as [Hd Ha].
    rewrite Hd. cbn [andb]. by apply IH.
  - by apply IH.
Qed.

Lemma crlf_free_unquoted f : needs_quotes f = false → crlf_free f = true.
Proof.
  induction f as [|c f IH]; [done|]. rewrite needs_quotes_cons. intros (_ & _ & _ & Hcr & Hf).
  cbn [crlf_free]. apply N.eqb_neq in Hcr. rewrite Hcr. by apply IH.
Qed.

Lemma escape_quotes_head d f : ∃ t, escape_quotes (d :: f) = d :: t.
Proof. cbn [escape_quotes]. destruct (N.eqb_spec d QUOTE) as [->|]; eauto. Qed.

Lemma crlf_free_escape f : no_crlf f = true → crlf_free (escape_quotes f ++ [QUOTE]) = true.
Proof.
  induction f as [|c f IH]; [done|].
  intros Hn. destruct (N.eqb_spec c CR) as [->|Hc].
  - assert (escape_quotes (CR :: f) = CR :: escape_quotes f) as -> by reflexivity.
    cbn [app crlf_free]. rewrite N.eqb_refl.
    destruct f as [|d f'].
    + reflexivity.
    + cbn [no_crlf] in Hn. rewrite N.eqb_refl in Hn. apply andb_true_iff in Hn as [Hd Hn].
      destruct (escape_quotes_head d f') as [t Et]. rewrite Et in *. cbn [app]. rewrite Hd.
      cbn [andb]. by apply IH.
  - cbn [no_crlf] in Hn. apply N.eqb_neq in Hc. rewrite Hc in Hn.
    cbn [escape_quotes]. destruct (N.eqb_spec c QUOTE) as [->|Hq].
    + cbn [app crlf_free]. change (QUOTE =? CR) with false. cbn iota. by apply IH.
    + cbn [app crlf_free]. rewrite Hc. by apply IH.
Qed.

Lemma crlf_free_quoted f : no_crlf f = true → crlf_free (quoted f) = true.
Proof. intros Hn. unfold quoted. cbn [crlf_free]. change (QUOTE =? CR) with false. by apply crlf_free_escape. Qed.

Lemma crlf_free_write_field q f : no_crlf f = true → crlf_free (write_field q f) = true.
Proof.
  intros Hn. unfold write_field. destruct (q f); cbn [orb]; [by apply crlf_free_quoted|].
  destruct (needs_quotes f) eqn:E; [by apply crlf_free_quoted | by apply crlf_free_unquoted].
Qed.

Lemma crlf_free_join ws : Forall (λ w, crlf_free w = true) ws → crlf_free (join_fields ws) = true.
Proof.
  induction 1 as [|w ws Hw Hws IH]; [done|]. destruct ws as [|w2 ws]; [done|].
  change (join_fields (w :: w2 :: ws)) with (w ++ COMMA :: join_fields (w2 :: ws)).
  apply crlf_free_app; [done|]. exact IH.
Qed.

Lemma crlf_free_write_record q r :
  Forall (λ f, no_crlf f = true) r → crlf_free (write_record q r) = true.
Proof.
  intros Hr.
  assert (crlf_free (join_fields (map (write_field q) r) ++ [LF]) = true) as Hgen.
  { apply crlf_free_app; [|done]. apply crlf_free_join.
    induction Hr as [|f r Hf _ IH]; constructor; [by apply crlf_free_write_field | done]. }
  destruct r as [|[|c f] [|f2 fs]]; try exact Hgen. reflexivity.
Qed.

Lemma crlf_free_csv_write q recs :
  Forall (λ r, Forall (λ f, no_crlf f = true) r) recs → crlf_free (csv_write q recs) = true.
Proof.
  induction 1 as [|r recs Hr _ IH]; [done|]. unfold csv_write in *. cbn [flat_map].
  apply crlf_free_app; [by apply crlf_free_write_record | done].
Qed.

Lemma crlf_norm_csv_write q recs :
  Forall (λ r, Forall (λ f, no_crlf f = true) r) recs →
  crlf_norm (csv_write q recs) = csv_write q recs.
Proof. intros Hn. by apply crlf_norm_id, crlf_free_csv_write. Qed.

(** * The reader machine on written text *)

Lemma st_FS_quote rec acc s :
  csv_records FieldStart [] rec acc (QUOTE :: s) = csv_records Quoted [] rec acc s.
Proof. reflexivity. Qed.
Lemma st_RS_quote acc s :
  csv_records RecStart [] [] acc (QUOTE :: s) = csv_records Quoted [] [] acc s.
Proof. reflexivity. Qed.
Lemma st_QS_comma fld rec acc s :
  csv_records QuoteSeen fld rec acc (COMMA :: s) = csv_records FieldStart [] (rev fld :: rec) acc s.
Proof. reflexivity. Qed.
Lemma st_QS_lf fld rec acc s :
  csv_records QuoteSeen fld rec acc (LF :: s)
  = csv_records RecStart [] [] (rev (rev fld :: rec) :: acc) s.
Proof. reflexivity. Qed.
Lemma st_U_comma fld rec acc s :
  csv_records Unquoted fld rec acc (COMMA :: s) = csv_records FieldStart [] (rev fld :: rec) acc s.
Proof. reflexivity. Qed.
Lemma st_U_lf fld rec acc s :
  csv_records Unquoted fld rec acc (LF :: s)
  = csv_records RecStart [] [] (rev (rev fld :: rec) :: acc) s.
Proof. reflexivity. Qed.

Lemma read_escaped f : ∀ fld rec acc rest,
  csv_records Quoted fld rec acc (escape_quotes f ++ QUOTE :: rest)
  = csv_records QuoteSeen (rev f ++ fld) rec acc rest.
Proof.
  induction f as [|c f IH]; intros fld rec acc rest; [reflexivity|].
  cbn [escape_quotes]. destruct (N.eqb_spec c QUOTE) as [->|Hq].
  - change (csv_records Quoted fld rec acc ((QUOTE :: QUOTE :: escape_quotes f) ++ QUOTE :: rest))
      with (csv_records Quoted (QUOTE :: fld) rec acc (escape_quotes f ++ QUOTE :: rest)).
    rewrite IH. cbn [rev]. by rewrite <- app_assoc.
  - cbn [app csv_records]. apply N.eqb_neq in Hq. rewrite Hq. rewrite IH. cbn [rev].
    by rewrite <- app_assoc.
Qed.

Lemma read_unquoted f : ∀ fld rec acc rest,
  needs_quotes f = false →
  csv_records Unquoted fld rec acc (f ++ rest) = csv_records Unquoted (rev f ++ fld) rec acc rest.
Proof.
  induction f as [|c f IH]; intros fld rec acc rest; [done|].
  rewrite needs_quotes_cons. intros (Hq & Hc & Hl & _ & Hf).
  cbn [app csv_records]. apply N.eqb_neq in Hq, Hc, Hl. rewrite Hq, Hc, Hl.
  rewrite IH by done. cbn [rev]. by rewrite <- app_assoc.
Qed.

(** [w] is a way of writing the field [f] *)
Definition wfield (f w : str) : Prop := w = quoted f ∨ (needs_quotes f = false ∧ w = f).

Lemma write_field_wfield q f : wfield f (write_field q f).
Proof.
  unfold write_field, wfield. destruct (q f); cbn [orb]; [by left|].
  destruct (needs_quotes f); [by left | by right].
Qed.

Lemma read_field_comma st f w rec acc rest :
  st = FieldStart ∨ (st = RecStart ∧ rec = []) →
  wfield f w →
  csv_records st [] rec acc (w ++ COMMA :: rest) = csv_records FieldStart [] (f :: rec) acc rest.
Proof.
  intros Hst [->|[Hn ->]].
  - unfold quoted. cbn [app]. rewrite <- app_assoc. cbn [app].
    destruct Hst as [->|[-> ->]]; rewrite ?st_FS_quote, ?st_RS_quote;
      rewrite read_escaped, app_nil_r, st_QS_comma; by rewrite rev_involutive.
  - destruct f as [|c f].
    + by destruct Hst as [->|[-> ->]].
    + apply needs_quotes_cons in Hn as (Hq & Hc & Hl & _ & Hf).
      apply N.eqb_neq in Hq, Hc, Hl.
      destruct Hst as [->|[-> ->]]; cbn [app csv_records]; rewrite Hq, Hc, Hl;
        rewrite read_unquoted by done; rewrite st_U_comma;
        by rewrite rev_app_distr, rev_involutive.
Qed.

Lemma read_field_lf_FS f w rec acc rest :
  wfield f w →
  csv_records FieldStart [] rec acc (w ++ LF :: rest)
  = csv_records RecStart [] [] (rev (f :: rec) :: acc) rest.
Proof.
  intros [->|[Hn ->]].
  - unfold quoted. cbn [app]. rewrite <- app_assoc. cbn [app].
    rewrite st_FS_quote, read_escaped, app_nil_r, st_QS_lf. by rewrite rev_involutive.
  - destruct f as [|c f]; [reflexivity|].
    apply needs_quotes_cons in Hn as (Hq & Hc & Hl & _ & Hf).
    apply N.eqb_neq in Hq, Hc, Hl.
    cbn [app csv_records]. rewrite Hq, Hc, Hl.
    rewrite read_unquoted by done. rewrite st_U_lf.
    by rewrite rev_app_distr, rev_involutive.
Qed.

Lemma read_field_lf_RS f w acc rest :
  wfield f w → w ≠ [] →
  csv_records RecStart [] [] acc (w ++ LF :: rest) = csv_records RecStart [] [] ([f] :: acc) rest.
Proof.
  intros [->|[Hn ->]] Hne.
  - unfold quoted. cbn [app]. rewrite <- app_assoc. cbn [app].
    rewrite st_RS_quote, read_escaped, app_nil_r, st_QS_lf. by rewrite rev_involutive.
  - destruct f as [|c f]; [done|].
    apply needs_quotes_cons in Hn as (Hq & Hc & Hl & _ & Hf).
    apply N.eqb_neq in Hq, Hc, Hl.
    cbn [app csv_records]. rewrite Hq, Hc, Hl.
    rewrite read_unquoted by done. rewrite st_U_lf.
    by rewrite rev_app_distr, rev_involutive.
Qed.

Lemma read_fields q fs : ∀ rec acc rest,
  fs ≠ [] →
  csv_records FieldStart [] rec acc (join_fields (map (write_field q) fs) ++ LF :: rest)
  = csv_records RecStart [] [] (rev (rev fs ++ rec) :: acc) rest.
Proof.
  induction fs as [|f fs IH]; intros rec acc rest Hne; [done|].
  destruct fs as [|f2 fs].
  - cbn [map join_fields]. by rewrite (read_field_lf_FS f) by apply write_field_wfield.
  - change (join_fields (map (write_field q) (f :: f2 :: fs)))
      with (write_field q f ++ COMMA :: join_fields (map (write_field q) (f2 :: fs))).
    rewrite <- app_assoc. cbn [app].
    rewrite (read_field_comma _ f) by (auto using write_field_wfield).
    rewrite IH by done. cbn [rev]. by rewrite <- !app_assoc.
Qed.

Lemma write_record_eq q r :
  r ≠ [[]] → write_record q r = join_fields (map (write_field q) r) ++ [LF].
Proof. by destruct r as [|[|c f] [|f2 fs]]. Qed.

Lemma write_field_nonempty q c f : write_field q (c :: f) ≠ [].
Proof. unfold write_field, quoted. by destruct (_ || _). Qed.

Lemma read_record q r acc rest :
  r ≠ [] →
  csv_records RecStart [] [] acc (write_record q r ++ rest)
  = csv_records RecStart [] [] (r :: acc) rest.
Proof.
  intros Hne. destruct r as [|f [|f2 fs]]; [done| |].
  - destruct f as [|c f]; [reflexivity|].
    rewrite write_record_eq by done. cbn [map join_fields]. rewrite <- app_assoc. cbn [app].
    by rewrite (read_field_lf_RS (c :: f)) by (auto using write_field_wfield, write_field_nonempty).
  - rewrite write_record_eq by done.
    change (join_fields (map (write_field q) (f :: f2 :: fs)))
      with (write_field q f ++ COMMA :: join_fields (map (write_field q) (f2 :: fs))).
    rewrite <- !app_assoc. cbn [app].
    rewrite (read_field_comma _ f) by (auto using write_field_wfield).
    rewrite read_fields by done. cbn [rev]. rewrite rev_app_distr, rev_app_distr, rev_involutive.
    done.
Qed.

Lemma read_records q recs : ∀ acc,
  Forall (λ r, r ≠ []) recs →
  csv_records RecStart [] [] acc (csv_write q recs) = Some (rev acc ++ recs).
Proof.
  induction recs as [|r recs IH]; intros acc Hne.
  - change (Some (rev acc) = Some (rev acc ++ [])). by rewrite app_nil_r.
  - inversion_clear Hne as [|?? Hr Hrs]. unfold csv_write in *. cbn [flat_map].
    rewrite read_record by done. rewrite IH by done. cbn [rev]. by rewrite <- app_assoc.
Qed.

Lemma csv_read_write q recs :
  Forall (λ r, r ≠ []) recs →
  Forall (λ r, Forall (λ f, no_crlf f = true) r) recs →
  csv_read (csv_write q recs) = if same_width recs then Some recs else None.
Proof.
  intros Hne Hn. unfold csv_read. rewrite crlf_norm_csv_write by done.
  by rewrite read_records by done.
Qed.

Theorem csv_roundtrip (q : str → bool) (recs : list (list str)) :
  Forall (λ r, r ≠ []) recs →
  same_width recs = true →
  Forall (λ r, Forall (λ f, no_crlf f = true) r) recs →
  csv_read (csv_write q recs) = Some recs.
Proof. intros Hne Hw Hn. by rewrite csv_read_write, Hw by done. Qed.

Theorem csv_ragged_rejected (q : str → bool) (recs : list (list str)) :
  Forall (λ r, r ≠ []) recs →
  same_width recs = false →
  Forall (λ r, Forall (λ f, no_crlf f = true) r) recs →
  csv_read (csv_write q recs) = None.
Proof. intros Hne Hw Hn. by rewrite csv_read_write, Hw by done. Qed.

(** * [updog create] from a written file *)
Section WithHash.
Context (H : list N → N).

Theorem create_bytes_written (q : str → bool) (big ex : bool)
    (hdr : list (list N)) (recs : list (list str)) :
  hdr ≠ [] →
  Forall (Forall (λ r, scalar r = true)) hdr →
  Forall (λ r, length r = length hdr) recs →
  Forall (λ h, no_crlf (utf8_encode h) = true) hdr →
  Forall (Forall (λ f, no_crlf f = true)) recs →
  create_bytes H big ex (csv_write q (map utf8_encode hdr :: recs)) = create H big ex hdr recs.
Proof.
  intros Hne Hsc Hlen Hnh Hnr. unfold create_bytes.
  rewrite csv_roundtrip.
  - f_equal. clear -Hsc. induction Hsc as [|h hdr Hh _ IH]; [done|].
    cbn [map]. rewrite utf8_roundtrip by done. by f_equal.
  - constructor; [by destruct hdr|].
    eapply Forall_impl; [exact Hlen|]. intros r Hr ->. by destruct hdr.
  - cbn [same_width]. rewrite map_length. clear -Hlen.
    induction Hlen as [|r recs Hr _ IH]; [done|]. cbn [forallb]. rewrite Hr, Nat.eqb_refl. done.
  - constructor; [|done]. clear -Hnh. induction Hnh; constructor; done.
Qed.
End WithHash.

(** * Windows line ends *)
Definition to_crlf (s : str) : str := flat_map (λ c, if c =? LF then [CR; LF] else [c]) s.

Lemma crlf_norm_no_cr s : Forall (λ c, c ≠ CR) s → crlf_norm s = s.
Proof.
  induction 1 as [|c s Hc _ IH]; [done|]. cbn [crlf_norm].
  apply N.eqb_neq in Hc. rewrite Hc. by f_equal.
Qed.

Lemma crlf_norm_to_crlf s : Forall (λ c, c ≠ CR) s → crlf_norm (to_crlf s) = s.
Proof.
  induction 1 as [|c s Hc _ IH]; [done|]. unfold to_crlf in *. cbn [flat_map].
  destruct (N.eqb_spec c LF) as [->|Hl].
  - change (crlf_norm ([CR; LF] ++ flat_map (λ c, if c =? LF then [CR; LF] else [c]) s))
      with (LF :: crlf_norm (flat_map (λ c, if c =? LF then [CR; LF] else [c]) s)).
    by f_equal.
  - cbn [app crlf_norm]. apply N.eqb_neq in Hc. rewrite Hc. by f_equal.
Qed.

Theorem csv_read_crlf s : Forall (λ c, c ≠ CR) s → csv_read (to_crlf s) = csv_read s.
Proof.
  intros Hs. unfold csv_read. by rewrite crlf_norm_to_crlf, crlf_norm_no_cr by done.
Qed.

(** * Non-vacuity *)
Definition ex_q (f : str) : bool := Nat.even (length f).

Definition ex_table : list (list str) :=
  [ [ [QUOTE; 65; QUOTE; QUOTE]; [COMMA; 66]; [] ];
    [ [LF; 67; LF]; [CR]; [68; CR; 69; 0] ];
    [ []; [70; 71]; [CR; CR; QUOTE; LF] ] ].

Example ex_table_hyps :
  forallb (λ r, negb (length r =? 0)%nat) ex_table
  && same_width ex_table
  && forallb (forallb no_crlf) ex_table = true.
Proof. vm_compute; reflexivity. Qed.

Example ex_table_reads :
  csv_read (csv_write ex_q ex_table) = Some ex_table
  ∧ csv_read (csv_write (λ _, true) ex_table) = Some ex_table
  ∧ csv_read (csv_write (λ _, false) ex_table) = Some ex_table.
Proof. vm_compute; repeat split; reflexivity. Qed.

Example ex_table_by_theorem : csv_read (csv_write ex_q ex_table) = Some ex_table.
Proof.
  apply csv_roundtrip; [by repeat constructor | reflexivity | repeat constructor].
Qed.

Definition ex_ragged : list (list str) :=
  [ [ [65]; [QUOTE] ]; [ [66]; [COMMA]; [LF] ]; [ [67]; [] ] ].

Example ex_ragged_hyps :
  forallb (λ r, negb (length r =? 0)%nat) ex_ragged
  && negb (same_width ex_ragged)
  && forallb (forallb no_crlf) ex_ragged = true.
Proof. vm_compute; reflexivity. Qed.

Example ex_ragged_rejected : csv_read (csv_write ex_q ex_ragged) = None.
Proof. vm_compute; reflexivity. Qed.

Example ex_ragged_by_theorem : csv_read (csv_write ex_q ex_ragged) = None.
Proof.
  apply csv_ragged_rejected; [by repeat constructor | reflexivity | repeat constructor].
Qed.

(** U+0041, U+00E9, U+20AC, U+1F600, the boundaries of each size class and of the surrogate gap *)
Definition ex_runes : list N :=
  [65; 233; 8364; 128512; 0; 127; 128; 2047; 2048; 55295; 57344; 65535; 65536; 1114111].

Example ex_runes_scalar : forallb scalar ex_runes = true.
Proof. vm_compute; reflexivity. Qed.

Example ex_runes_bytes :
  utf8_encode [65; 233; 8364; 128512] = [65; 195; 169; 226; 130; 172; 240; 159; 152; 128].
Proof. vm_compute; reflexivity. Qed.

Example ex_runes_roundtrip : utf8_decode (utf8_encode ex_runes) = ex_runes.
Proof. vm_compute; reflexivity. Qed.

Example ex_crlf :
  csv_read (to_crlf (csv_write ex_q [[[65]; [66; LF; 67]]; [[]; [QUOTE]]]))
  = Some [[[65]; [66; LF; 67]]; [[]; [QUOTE]]].
Proof. vm_compute; reflexivity. Qed.

Print Assumptions csv_roundtrip.
Print Assumptions csv_ragged_rejected.
Print Assumptions utf8_roundtrip.
Print Assumptions create_bytes_written.
Print Assumptions csv_read_crlf.

(** Go's UTF-8 decoding yields only scalar values, never more runes than bytes, accepts no
    overlong or alternative encodings, and is the identity on ASCII; a decimal printer that
    [strconv.ParseUint(s, 10, 64)] (the model [parse_uint64]) reads back below 2^64 and rejects
    from 2^64 on. *)
From updog Require Import Prelude Index Csv CsvBytes CsvBytesProofs Dsn.
From Coq Require Import ZifyN ZifyNat ZifyBool.
Local Open Scope N_scope.
Ltac Zify.zify_post_hook ::= Z.div_mod_to_equations.

(** * One step of the decoder *)

(** [dstep s r s']: the decoder on [s] emits [r] and continues on the strict suffix [s']. *)
Inductive dstep : str → N → str → Prop :=
| ds_ascii b0 s : b0 < 128 → dstep (b0 :: s) b0 s
| ds_bad b0 s : 128 ≤ b0 → dstep (b0 :: s) 65533 s
| ds_two b0 b1 s :
    194 ≤ b0 → b0 ≤ 223 → 128 ≤ b1 → b1 ≤ 191 →
    dstep (b0 :: b1 :: s) ((b0 - 192) * 64 + (b1 - 128)) s
| ds_three b0 b1 b2 s :
    224 ≤ b0 → b0 ≤ 239 → 128 ≤ b1 → b1 ≤ 191 →
    (b0 = 224 → 160 ≤ b1) → (b0 = 237 → b1 ≤ 159) →
    128 ≤ b2 → b2 ≤ 191 →
    dstep (b0 :: b1 :: b2 :: s) ((b0 - 224) * 4096 + (b1 - 128) * 64 + (b2 - 128)) s
| ds_four b0 b1 b2 b3 s :
    240 ≤ b0 → b0 ≤ 244 → 128 ≤ b1 → b1 ≤ 191 →
    (b0 = 240 → 144 ≤ b1) → (b0 = 244 → b1 ≤ 143) →
    128 ≤ b2 → b2 ≤ 191 → 128 ≤ b3 → b3 ≤ 191 →
    dstep (b0 :: b1 :: b2 :: b3 :: s)
      ((b0 - 240) * 262144 + (b1 - 128) * 4096 + (b2 - 128) * 64 + (b3 - 128)) s.

Lemma utf8_decode_unfold b0 s1 :
  utf8_decode (b0 :: s1) =
  if b0 <? 128 then b0 :: utf8_decode s1 else
  let bad := 65533 :: utf8_decode s1 in
  match s1 with
  | [] => bad
  | b1 :: s2 =>
      if between 194 b0 223 then
        (if cont b1 then ((b0 - 192) * 64 + (b1 - 128)) :: utf8_decode s2 else bad)
      else
      match s2 with
      | [] => bad
      | b2 :: s3 =>
          if between 224 b0 239 then
            (if between (second_lo b0) b1 (second_hi b0) && cont b2
             then ((b0 - 224) * 4096 + (b1 - 128) * 64 + (b2 - 128)) :: utf8_decode s3 else bad)
          else
          match s3 with
          | [] => bad
          | b3 :: s4 =>
              if between 240 b0 244 && between (second_lo b0) b1 (second_hi b0) && cont b2 && cont b3
              then ((b0 - 240) * 262144 + (b1 - 128) * 4096 + (b2 - 128) * 64 + (b3 - 128)) :: utf8_decode s4
              else bad
          end
      end
  end.
Proof. destruct s1 as [|b1 [|b2 [|b3 s4]]]; reflexivity. Qed.

Lemma second_range_3 b0 b1 :
  224 ≤ b0 → b0 ≤ 239 → between (second_lo b0) b1 (second_hi b0) = true →
  128 ≤ b1 ∧ b1 ≤ 191 ∧ (b0 = 224 → 160 ≤ b1) ∧ (b0 = 237 → b1 ≤ 159).
Proof.
  intros Hlo Hhi Hb. unfold between, second_lo, second_hi in Hb.
  destruct (N.eqb_spec b0 224) as [E1|E1];
    destruct (N.eqb_spec b0 240) as [E2|E2];
    destruct (N.eqb_spec b0 237) as [E3|E3];
    destruct (N.eqb_spec b0 244) as [E4|E4]; lia.
Qed.

Lemma second_range_4 b0 b1 :
  240 ≤ b0 → b0 ≤ 244 → between (second_lo b0) b1 (second_hi b0) = true →
  128 ≤ b1 ∧ b1 ≤ 191 ∧ (b0 = 240 → 144 ≤ b1) ∧ (b0 = 244 → b1 ≤ 143).
Proof.
  intros Hlo Hhi Hb. unfold between, second_lo, second_hi in Hb.
  destruct (N.eqb_spec b0 224) as [E1|E1];
    destruct (N.eqb_spec b0 240) as [E2|E2];
    destruct (N.eqb_spec b0 237) as [E3|E3];
    destruct (N.eqb_spec b0 244) as [E4|E4]; lia.
Qed.

Lemma utf8_decode_step b0 s1 :
  ∃ r s', dstep (b0 :: s1) r s' ∧ utf8_decode (b0 :: s1) = r :: utf8_decode s'.
Proof.
  rewrite utf8_decode_unfold.
  destruct (N.ltb_spec b0 128) as [Ha|Ha].
  { exists b0, s1. split; [by constructor | done]. }
  assert (dstep (b0 :: s1) 65533 s1) as Hbad by (by constructor).
  cbv zeta.
  destruct s1 as [|b1 s2]; [by eauto|].
  destruct (between 194 b0 223) eqn:E2.
  { destruct (cont b1) eqn:C1; [|by eauto].
    eexists _, s2. split; [|done].
    unfold between in E2. unfold cont in C1. constructor; lia. }
  destruct s2 as [|b2 s3]; [by eauto|].
  destruct (between 224 b0 239) eqn:E3.
  { destruct (between (second_lo b0) b1 (second_hi b0) && cont b2) eqn:C; [|by eauto].
    apply andb_true_iff in C as [C1 C2].
    eexists _, s3. split; [|done].
    assert (224 ≤ b0 ∧ b0 ≤ 239) as [Hl Hh] by (unfold between in E3; lia).
    destruct (second_range_3 b0 b1 Hl Hh C1) as (? & ? & ? & ?).
    unfold cont in C2. constructor; (assumption || lia). }
  destruct s3 as [|b3 s4]; [by eauto|].
  destruct (between 240 b0 244 && between (second_lo b0) b1 (second_hi b0) && cont b2 && cont b3)
    eqn:C; [|by eauto].
  apply andb_true_iff in C as [C C3].
  apply andb_true_iff in C as [C C2].
  apply andb_true_iff in C as [E4 C1].
  eexists _, s4. split; [|done].
  assert (240 ≤ b0 ∧ b0 ≤ 244) as [Hl Hh] by (unfold between in E4; lia).
  destruct (second_range_4 b0 b1 Hl Hh C1) as (? & ? & ? & ?).
  unfold cont in C2, C3. constructor; (assumption || lia).
Qed.

Lemma dstep_length s r s' : dstep s r s' → (length s' < length s)%nat.
Proof. destruct 1; cbn [length]; lia. Qed.

Lemma dstep_scalar s r s' : dstep s r s' → scalar r = true.
Proof.
  destruct 1 as [b0 s Ha | b0 s Ha
                | b0 b1 s H0 H0' H1 H1'
                | b0 b1 b2 s H0 H0' H1 H1' Hlo Hhi H2 H2'
                | b0 b1 b2 b3 s H0 H0' H1 H1' Hlo Hhi H2 H2' H3 H3']; unfold scalar.
  - lia.
  - reflexivity.
  - lia.
  - destruct (N.eq_dec b0 237) as [E|E].
    + specialize (Hhi E). lia.
    + destruct (N.lt_ge_cases b0 237); lia.
  - destruct (N.eq_dec b0 244) as [E|E].
    + specialize (Hhi E). lia.
    + lia.
Qed.

(** Ranges by length of the sequence (the "no overlong form" half of the analysis). *)
Lemma dstep_range s r s' :
  dstep s r s' →
  match (length s - length s')%nat with
  | 1%nat => r < 128 ∨ r = 65533
  | 2%nat => 128 ≤ r ∧ r < 2048
  | 3%nat => 2048 ≤ r ∧ r < 65536 ∧ ¬ (55296 ≤ r ∧ r < 57344)
  | 4%nat => 65536 ≤ r ∧ r < 1114112
  | _ => False
  end.
Proof.
  destruct 1 as [b0 s Ha | b0 s Ha
                | b0 b1 s H0 H0' H1 H1'
                | b0 b1 b2 s H0 H0' H1 H1' Hlo Hhi H2 H2'
                | b0 b1 b2 b3 s H0 H0' H1 H1' Hlo Hhi H2 H2' H3 H3']; cbn [length].
  - replace (S (length s) - length s)%nat with 1%nat by lia. lia.
  - replace (S (length s) - length s)%nat with 1%nat by lia. lia.
  - replace (S (S (length s)) - length s)%nat with 2%nat by lia. lia.
  - replace (S (S (S (length s))) - length s)%nat with 3%nat by lia.
    destruct (N.eq_dec b0 224) as [E|E]; [specialize (Hlo E)|];
      (destruct (N.eq_dec b0 237) as [E'|E']; [specialize (Hhi E')|]);
      lia.
  - replace (S (S (S (S (length s)))) - length s)%nat with 4%nat by lia.
    destruct (N.eq_dec b0 240) as [E|E]; [specialize (Hlo E)|];
      (destruct (N.eq_dec b0 244) as [E'|E']; [specialize (Hhi E')|]);
      lia.
Qed.

(** * 1. Only scalar values *)

Lemma utf8_decode_scalar_all s : Forall (λ r, scalar r = true) (utf8_decode s).
Proof.
  remember (length s) as n eqn:Hn. revert s Hn.
  induction n as [n IH] using lt_wf_ind. intros s Hn.
  destruct s as [|b0 s1]; [constructor|].
  destruct (utf8_decode_step b0 s1) as (r & s' & Hst & ->).
  constructor; [by eapply dstep_scalar|].
  eapply IH; [|reflexivity]. apply dstep_length in Hst. lia.
Qed.

Theorem utf8_decode_scalar s :
  Forall (λ b, b < 256) s → Forall (λ r, scalar r = true) (utf8_decode s).
Proof. intros _. apply utf8_decode_scalar_all. Qed.

(** * 2. Length *)

Theorem utf8_decode_length s : (length (utf8_decode s) ≤ length s)%nat.
Proof.
  remember (length s) as n eqn:Hn. revert s Hn.
  induction n as [n IH] using lt_wf_ind. intros s Hn.
  destruct s as [|b0 s1]; [cbn; lia|].
  destruct (utf8_decode_step b0 s1) as (r & s' & Hst & ->).
  apply dstep_length in Hst. cbn [length].
  specialize (IH (length s') ltac:(lia) s' eq_refl). lia.
Qed.

Theorem utf8_decode_nonempty s : s ≠ [] → utf8_decode s ≠ [].
Proof.
  destruct s as [|b0 s1]; [done|]. intros _.
  destruct (utf8_decode_step b0 s1) as (r & s' & _ & ->). done.
Qed.

(** * 3. No overlong forms, no alternative encodings *)

Lemma dstep_encode1 s r s' : dstep s r s' → r ≠ 65533 → s = utf8_encode1 r ++ s'.
Proof.
  destruct 1 as [b0 s Ha | b0 s Ha
                | b0 b1 s H0 H0' H1 H1'
                | b0 b1 b2 s H0 H0' H1 H1' Hlo Hhi H2 H2'
                | b0 b1 b2 b3 s H0 H0' H1 H1' Hlo Hhi H2 H2' H3 H3']; intros Hne.
  - unfold utf8_encode1. destruct (N.ltb_spec b0 128); [done | lia].
  - done.
  - set (r := (b0 - 192) * 64 + (b1 - 128)).
    assert (128 ≤ r ∧ r < 2048) as [Hr1 Hr2] by (unfold r; lia).
    unfold utf8_encode1.
    destruct (N.ltb_spec r 128); [lia|].
    destruct (N.ltb_spec r 2048); [|lia].
    cbn [app]. f_equal; [|f_equal]; unfold r; lia.
  - set (r := (b0 - 224) * 4096 + (b1 - 128) * 64 + (b2 - 128)).
    assert (2048 ≤ r ∧ r < 65536) as [Hr1 Hr2].
    { destruct (N.eq_dec b0 224) as [E|E]; [specialize (Hlo E)|]; unfold r; lia. }
    unfold utf8_encode1.
    destruct (N.ltb_spec r 128); [lia|].
    destruct (N.ltb_spec r 2048); [lia|].
    destruct (N.ltb_spec r 65536); [|lia].
    cbn [app]. f_equal; [|f_equal; [|f_equal]]; unfold r; lia.
  - set (r := (b0 - 240) * 262144 + (b1 - 128) * 4096 + (b2 - 128) * 64 + (b3 - 128)).
    assert (65536 ≤ r) as Hr1.
    { destruct (N.eq_dec b0 240) as [E|E]; [specialize (Hlo E)|]; unfold r; lia. }
    unfold utf8_encode1.
    destruct (N.ltb_spec r 128); [lia|].
    destruct (N.ltb_spec r 2048); [lia|].
    destruct (N.ltb_spec r 65536); [lia|].
    cbn [app]. f_equal; [|f_equal; [|f_equal; [|f_equal]]]; unfold r; lia.
Qed.

Lemma utf8_no_overlong_all s r : utf8_decode s = [r] → r ≠ 65533 → s = utf8_encode1 r.
Proof.
  intros Hd Hne. destruct s as [|b0 s1]; [done|].
  destruct (utf8_decode_step b0 s1) as (r' & s' & Hst & Heq).
  rewrite Heq in Hd. injection Hd as -> Hnil.
  assert (s' = []) as ->.
  { destruct s' as [|c s'']; [done|]. by apply utf8_decode_nonempty in Hnil. }
  rewrite (dstep_encode1 _ _ _ Hst Hne). by rewrite app_nil_r.
Qed.

Theorem utf8_no_overlong s r :
  Forall (λ b, b < 256) s → utf8_decode s = [r] → r ≠ 65533 → s = utf8_encode1 r.
Proof. intros _. apply utf8_no_overlong_all. Qed.

(** More generally: every decoded rune other than U+FFFD sits in the input as its shortest
    encoding. *)
Theorem utf8_decode_cons_encode s r rs :
  utf8_decode s = r :: rs → r ≠ 65533 → ∃ s', s = utf8_encode1 r ++ s' ∧ utf8_decode s' = rs.
Proof.
  intros Hd Hne. destruct s as [|b0 s1]; [done|].
  destruct (utf8_decode_step b0 s1) as (r' & s' & Hst & Heq).
  rewrite Heq in Hd. injection Hd as -> Hrs.
  exists s'. split; [by apply dstep_encode1 | done].
Qed.

(** * 4. ASCII *)

Theorem utf8_ascii s : Forall (λ b, b < 128) s → utf8_decode s = s.
Proof.
  induction 1 as [|b s Hb _ IH]; [done|].
  rewrite dec1 by done. by f_equal.
Qed.

(** * 5. Decimal numerals and [parse_uint64] *)

(** the digits of [n], least significant first; [fuel] bounds the number of digits *)
Fixpoint decimal_rev (fuel : nat) (n : N) : str :=
  match fuel with
  | O => []
  | S f => (48 + n mod 10) :: (if n / 10 =? 0 then [] else decimal_rev f (n / 10))
  end.

Definition decimal (n : N) : str := rev (decimal_rev (S (N.to_nat (N.log2 n))) n).

Definition is_digit (d : N) : bool := (48 <=? d) && (d <=? 57).

Lemma digits_value_snoc s : ∀ acc d,
  digits_value acc (s ++ [d]) =
  match digits_value acc s with
  | Some v => if is_digit d then Some (10 * v + (d - 48)) else None
  | None => None
  end.
Proof.
  induction s as [|c s IH]; intros acc d.
  - reflexivity.
  - cbn [app digits_value]. destruct ((48 <=? c) && (c <=? 57)); [apply IH | done].
Qed.

(** [digits_value] from any accumulator, in terms of the value from 0 *)
Lemma digits_value_acc s : ∀ acc v,
  digits_value 0 s = Some v → digits_value acc s = Some (acc * 10 ^ N.of_nat (length s) + v).
Proof.
  induction s as [|c s IH] using rev_ind; intros acc v Hv.
  - cbn in Hv. injection Hv as <-. cbn [length digits_value]. f_equal.
    change (N.of_nat 0) with 0. rewrite N.pow_0_r. lia.
  - rewrite digits_value_snoc in Hv |- *.
    destruct (digits_value 0 s) as [w|] eqn:Hw; [|done].
    rewrite (IH acc w eq_refl).
    destruct (is_digit c); [|done]. assert (v = 10 * w + (c - 48)) as -> by congruence.
    apply (f_equal Some).
    rewrite app_length. cbn [length].
    replace (N.of_nat (length s + 1)) with (N.succ (N.of_nat (length s))) by lia.
    rewrite N.pow_succ_r'.
    generalize (c - 48) (10 ^ N.of_nat (length s)). intros x P. ring.
Qed.

Lemma decimal_rev_nonempty f n : decimal_rev (S f) n ≠ [].
Proof. done. Qed.

Lemma decimal_rev_value f : ∀ n,
  n < 2 ^ N.of_nat (S f) → digits_value 0 (rev (decimal_rev (S f) n)) = Some n.
Proof.
  induction f as [|f IH]; intros n Hn.
  - change (2 ^ N.of_nat 1) with 2 in Hn.
    cbn [decimal_rev].
    destruct (N.eqb_spec (n / 10) 0) as [E|E]; [|lia].
    cbn [rev app digits_value].
    assert ((48 <=? 48 + n mod 10) && (48 + n mod 10 <=? 57) = true) as -> by lia.
    f_equal. lia.
  - rewrite Nat2N.inj_succ, N.pow_succ_r' in Hn.
    change (decimal_rev (S (S f)) n)
      with ((48 + n mod 10) :: (if n / 10 =? 0 then [] else decimal_rev (S f) (n / 10))).
    destruct (N.eqb_spec (n / 10) 0) as [E|E].
    + cbn [rev app digits_value].
      assert ((48 <=? 48 + n mod 10) && (48 + n mod 10 <=? 57) = true) as -> by lia.
      f_equal. lia.
    + cbn [rev]. rewrite digits_value_snoc.
      assert (n / 10 < 2 ^ N.of_nat (S f)) as Hq.
      { revert Hn. generalize (2 ^ N.of_nat (S f)). intros P HP. lia. }
      rewrite (IH _ Hq).
      assert (is_digit (48 + n mod 10) = true) as -> by (unfold is_digit; lia).
      f_equal. lia.
Qed.

Lemma decimal_value n : digits_value 0 (decimal n) = Some n.
Proof.
  unfold decimal. apply decimal_rev_value.
  rewrite Nat2N.inj_succ, N2Nat.id.
  destruct (N.eq_dec n 0) as [->|Hn]; [done|].
  apply N.log2_spec. lia.
Qed.

Lemma decimal_nonempty n : decimal n ≠ [].
Proof.
  unfold decimal. cbn [decimal_rev rev]. intros E. by apply app_eq_nil in E as [_ ?].
Qed.

Theorem parse_uint64_decimal n : n < 2 ^ 64 → parse_uint64 (decimal n) = Some n.
Proof.
  intros Hn. unfold parse_uint64.
  pose proof (decimal_nonempty n) as Hne. pose proof (decimal_value n) as Hv.
  destruct (decimal n) as [|d ds]; [done|].
  rewrite Hv. destruct (N.ltb_spec n (2 ^ 64)); [done | lia].
Qed.

Theorem parse_uint64_overflow n : 2 ^ 64 ≤ n → parse_uint64 (decimal n) = None.
Proof.
  intros Hn. unfold parse_uint64.
  pose proof (decimal_nonempty n) as Hne. pose proof (decimal_value n) as Hv.
  destruct (decimal n) as [|d ds]; [done|].
  rewrite Hv. destruct (N.ltb_spec n (2 ^ 64)); [lia | done].
Qed.

(** The printer writes digits only, and no leading zero except for 0 itself. *)
Lemma decimal_rev_digits f : ∀ n, Forall (λ d, 48 ≤ d ∧ d ≤ 57) (decimal_rev f n).
Proof.
  induction f as [|f IH]; intros n; cbn [decimal_rev]; [constructor|].
  constructor; [lia|]. destruct (n / 10 =? 0); [constructor | apply IH].
Qed.

Theorem decimal_digits n : Forall (λ d, 48 ≤ d ∧ d ≤ 57) (decimal n).
Proof. unfold decimal. apply Forall_rev, decimal_rev_digits. Qed.

Lemma decimal_rev_last f : ∀ n, n ≠ 0 → n < 2 ^ N.of_nat (S f) →
  last (decimal_rev (S f) n) ≠ Some 48.
Proof.
  induction f as [|f IH]; intros n Hn0 Hn.
  - change (2 ^ N.of_nat 1) with 2 in Hn. cbn [decimal_rev].
    destruct (N.eqb_spec (n / 10) 0) as [E|E]; [|lia].
    cbn [last]. intros [=]. lia.
  - rewrite Nat2N.inj_succ, N.pow_succ_r' in Hn.
    change (decimal_rev (S (S f)) n)
      with ((48 + n mod 10) :: (if n / 10 =? 0 then [] else decimal_rev (S f) (n / 10))).
    destruct (N.eqb_spec (n / 10) 0) as [E|E].
    + cbn [last]. intros [=]. lia.
    + rewrite last_cons.
      assert (n / 10 < 2 ^ N.of_nat (S f)) as Hq.
      { revert Hn. generalize (2 ^ N.of_nat (S f)). intros P HP. lia. }
      specialize (IH (n / 10) E Hq).
      destruct (last (decimal_rev (S f) (n / 10))) as [x|] eqn:El; [done|].
      apply last_None in El. by apply decimal_rev_nonempty in El.
Qed.

Lemma head_rev_last (l : str) : head (rev l) = last l.
Proof.
  induction l as [|x l _] using rev_ind; [done|].
  rewrite rev_unit, last_snoc. done.
Qed.

Theorem decimal_no_leading_zero n : n ≠ 0 → head (decimal n) ≠ Some 48.
Proof.
  intros Hn. unfold decimal. rewrite head_rev_last.
  apply decimal_rev_last; [done|].
  rewrite Nat2N.inj_succ, N2Nat.id. apply N.log2_spec. lia.
Qed.

Example decimal_0 : decimal 0 = [48] ∧ parse_uint64 (decimal 0) = Some 0.
Proof. vm_compute. done. Qed.
Example decimal_7 : decimal 7 = [55] ∧ parse_uint64 (decimal 7) = Some 7.
Proof. vm_compute. done. Qed.
Example decimal_max :
  decimal 18446744073709551615
  = [49;56;52;52;54;55;52;52;48;55;51;55;48;57;53;53;49;54;49;53]
  ∧ parse_uint64 (decimal 18446744073709551615) = Some 18446744073709551615.
Proof. vm_compute. done. Qed.
Example decimal_over :
  decimal 18446744073709551616
  = [49;56;52;52;54;55;52;52;48;55;51;55;48;57;53;53;49;54;49;54]
  ∧ parse_uint64 (decimal 18446744073709551616) = None.
Proof. vm_compute. done. Qed.
Example decimal_1000 : decimal 1000 = [49;48;48;48].
Proof. vm_compute. reflexivity. Qed.

(** * 6. Non-vacuity *)

(** "A", U+00E9, U+20AC, U+1F600: valid 1-, 2-, 3- and 4-byte sequences *)
Example ex_valid :
  utf8_decode [65; 195; 169; 226; 130; 172; 240; 159; 152; 128] = [65; 233; 8364; 128512].
Proof. vm_compute; reflexivity. Qed.
Example ex_valid_scalar :
  forallb scalar (utf8_decode [65; 195; 169; 226; 130; 172; 240; 159; 152; 128]) = true.
Proof. vm_compute; reflexivity. Qed.
(** overlong NUL: C0 80 *)
Example ex_overlong : utf8_decode [192; 128] = [65533; 65533].
Proof. vm_compute; reflexivity. Qed.
(** overlong '/' in three bytes: E0 80 AF *)
Example ex_overlong3 : utf8_decode [224; 128; 175] = [65533; 65533; 65533].
Proof. vm_compute; reflexivity. Qed.
(** the surrogate U+D800: ED A0 80 *)
Example ex_surrogate : utf8_decode [237; 160; 128] = [65533; 65533; 65533].
Proof. vm_compute; reflexivity. Qed.
(** U+110000: F4 90 80 80 *)
Example ex_too_big : utf8_decode [244; 144; 128; 128] = [65533; 65533; 65533; 65533].
Proof. vm_compute; reflexivity. Qed.
(** truncated U+20AC: E2 82 *)
Example ex_truncated : utf8_decode [226; 130] = [65533; 65533].
Proof. vm_compute; reflexivity. Qed.
(** the boundaries are accepted: U+D7FF (ED 9F BF), U+E000 (EE 80 80), U+10FFFF (F4 8F BF BF),
    U+0800 (E0 A0 80), U+10000 (F0 90 80 80) *)
Example ex_boundaries :
  utf8_decode [237; 159; 191; 238; 128; 128; 244; 143; 191; 191; 224; 160; 128; 240; 144; 128; 128]
  = [55295; 57344; 1114111; 2048; 65536].
Proof. vm_compute; reflexivity. Qed.
(** neither surrogates nor U+110000 are scalars, U+FFFD is *)
Example ex_scalar :
  map scalar [55295; 55296; 57343; 57344; 65533; 1114111; 1114112]
  = [true; false; false; true; true; true; false].
Proof. vm_compute; reflexivity. Qed.
(** the side condition of [utf8_no_overlong]: two inputs decode to [[65533]] *)
Example ex_fffd :
  utf8_decode [239; 191; 189] = [65533] ∧ utf8_decode [255] = [65533]
  ∧ utf8_encode1 65533 = [239; 191; 189].
Proof. vm_compute; done. Qed.
(** an instance of [utf8_no_overlong] *)
Example ex_no_overlong :
  utf8_decode [226; 130; 172] = [8364] ∧ utf8_encode1 8364 = [226; 130; 172].
Proof. vm_compute; done. Qed.
(** lengths: fewer runes than bytes, and as many for ASCII and for all-bad input *)
Example ex_length :
  length (utf8_decode [65; 195; 169; 226; 130; 172; 240; 159; 152; 128]) = 4%nat
  ∧ length (utf8_decode [255; 254; 128]) = 3%nat.
Proof. vm_compute; done. Qed.
Example ex_ascii : utf8_decode [104; 101; 108; 108; 111; 0; 127] = [104; 101; 108; 108; 111; 0; 127].
Proof. vm_compute; reflexivity. Qed.
(** 128 is not ASCII: the bound of [utf8_ascii] is tight *)
Example ex_ascii_tight : utf8_decode [128] = [65533].
Proof. vm_compute; reflexivity. Qed.

Print Assumptions utf8_decode_scalar.
Print Assumptions utf8_decode_length.
Print Assumptions utf8_decode_nonempty.
Print Assumptions utf8_no_overlong.
Print Assumptions utf8_decode_cons_encode.
Print Assumptions utf8_ascii.
Print Assumptions parse_uint64_decimal.
Print Assumptions parse_uint64_overflow.
Print Assumptions decimal_digits.
Print Assumptions decimal_no_leading_zero.

(** The sql driver's connection cache (C17): handles survive any open/close sequence, every
    query is answered on the file its handle was opened on, the last close releases the file. *)
From updog Require Import Prelude DriverSM.
From Coq Require Import ZifyN ZifyNat ZifyBool.
Local Open Scope N_scope.

(** * Counting entries of a finite map *)

Section fcount.
Context {K : Type} `{Countable K} {A : Type}.
Context (P : K * A → Prop) `{!∀ x, Decision (P x)}.

Definition fcount (m : gmap K A) : nat := size (filter P m).

Lemma fcount_empty : fcount ∅ = 0%nat.
Proof. unfold fcount. by rewrite map_filter_empty, map_size_empty. Qed.

Lemma fcount_insert_fresh m i x :
  m !! i = None → fcount (<[i := x]> m) = (fcount m + (if decide (P (i, x)) then 1 else 0))%nat.
Proof.
  intros Hi. unfold fcount. rewrite map_filter_insert. destruct (decide (P (i, x))).
  - rewrite map_size_insert_None; [lia|]. apply map_filter_lookup_None. by left.
  - rewrite delete_notin by done. lia.
Qed.

Lemma fcount_delete m i y :
  m !! i = Some y → (fcount (delete i m) + (if decide (P (i, y)) then 1 else 0))%nat = fcount m.
Proof.
  intros Hi. unfold fcount. rewrite map_filter_delete, map_size_delete.
  destruct (decide (P (i, y))) as [Hp|Hp].
  - assert (filter P m !! i = Some y) as Hf by (by apply map_filter_lookup_Some).
    rewrite Hf. assert (size (filter P m) ≠ 0%nat) as Hne; [|lia].
    apply map_size_non_empty_iff. intros Hempty. by rewrite Hempty, lookup_empty in Hf.
  - assert (filter P m !! i = None) as Hf.
    { apply map_filter_lookup_None. right. intros y' Hy'. congruence. }
    rewrite Hf. simpl. lia.
Qed.

Lemma fcount_insert m i x y :
  m !! i = Some y →
  (fcount (<[i := x]> m) + (if decide (P (i, y)) then 1 else 0))%nat
  = (fcount m + (if decide (P (i, x)) then 1 else 0))%nat.
Proof.
  intros Hi. rewrite <- (insert_delete_insert m).
  rewrite fcount_insert_fresh by apply lookup_delete.
  pose proof (fcount_delete m i y Hi). lia.
Qed.

Lemma fcount_zero m : (∀ i x, m !! i = Some x → ¬ P (i, x)) → fcount m = 0%nat.
Proof.
  intros Hall. unfold fcount. apply map_size_empty_iff, map_empty. intros i.
  apply map_filter_lookup_None. destruct (m !! i) as [x|] eqn:Hi; [|by left].
  right. intros x' [= <-]. by apply Hall.
Qed.

Lemma fcount_pos m i x : m !! i = Some x → P (i, x) → (1 ≤ fcount m)%nat.
Proof.
  intros Hi Hp. pose proof (fcount_delete m i x Hi) as Hd. rewrite decide_True in Hd by done. lia.
Qed.

Lemma fcount_pos_inv m : (1 ≤ fcount m)%nat → ∃ i x, m !! i = Some x ∧ P (i, x).
Proof.
  unfold fcount. intros Hpos.
  assert (filter P m ≠ ∅) as Hne by (apply map_size_non_empty_iff; lia).
  apply map_choose in Hne as (i & x & Hix). apply map_filter_lookup_Some in Hix.
  by exists i, x.
Qed.
End fcount.

(** * The invariant *)

(** Number of handles attached to the connection object [cid]. *)
Definition hcount (m : gmap N N) (cid : N) : nat := fcount (λ hc : N * N, hc.2 = cid) m.

(** Number of open connection objects on file [f]. *)
Definition open_on (f : N) (ic : N * dconn) : Prop := c_open ic.2 = true ∧ k_file (c_key ic.2) = f.
Global Instance open_on_dec f ic : Decision (open_on f ic).
Proof. unfold open_on. apply _. Defined.
Definition ocount (m : gmap N dconn) (f : N) : nat := fcount (open_on f) m.

Record DInv (valid : N → bool) (s : dstate) : Prop := {
  di_handle : ∀ h cid, d_handles s !! h = Some cid → is_Some (d_conns s !! cid);
  di_refs : ∀ cid c, d_conns s !! cid = Some c → c_refs c = hcount (d_handles s) cid;
  di_open : ∀ cid c, d_conns s !! cid = Some c → (c_open c = true ↔ (1 ≤ c_refs c)%nat);
  di_cache : ∀ k cid, d_cache s !! k = Some cid →
               ∃ c, d_conns s !! cid = Some c ∧ c_open c = true ∧ c_key c = k;
  di_cached : ∀ cid c, d_conns s !! cid = Some c → c_open c = true → d_cache s !! c_key c = Some cid;
  di_readers : ∀ f, file_readers s f = ocount (d_conns s) f;
  di_next : ∀ cid c, d_conns s !! cid = Some c → cid < d_next s;
  di_valid : ∀ cid c, d_conns s !! cid = Some c → c_open c = true → valid (k_file (c_key c)) = true
}.

Lemma hcount_insert_fresh m h cid cid' :
  m !! h = None → hcount (<[h := cid]> m) cid' = (hcount m cid' + (if decide (cid = cid') then 1 else 0))%nat.
Proof.
  intros Hh. unfold hcount. rewrite fcount_insert_fresh by done. cbn [snd].
  destruct (decide (cid = cid')); done.
Qed.

Lemma hcount_delete m h cid cid' :
  m !! h = Some cid → (hcount (delete h m) cid' + (if decide (cid = cid') then 1 else 0))%nat = hcount m cid'.
Proof.
  intros Hh. unfold hcount. rewrite <- (fcount_delete _ m h cid Hh). cbn [snd].
  destruct (decide (cid = cid')); done.
Qed.

Lemma hcount_pos m h cid : m !! h = Some cid → (1 ≤ hcount m cid)%nat.
Proof. intros Hh. unfold hcount. by eapply fcount_pos. Qed.

Lemma hcount_pos_inv m cid : (1 ≤ hcount m cid)%nat → ∃ h, m !! h = Some cid.
Proof.
  intros Hpos. apply fcount_pos_inv in Hpos as (h & cid' & Hh & Heq). cbn in Heq. subst. by exists h.
Qed.

Lemma hcount_zero m cid : (∀ h, m !! h ≠ Some cid) → hcount m cid = 0%nat.
Proof.
  intros Hno. apply fcount_zero. intros h cid' Hh Heq. cbn in Heq. subst. by apply (Hno h).
Qed.

Lemma file_readers_insert s f n f' cache conns handles next :
  file_readers (DState cache conns handles next (<[f := n]> (d_readers s))) f'
  = if decide (f' = f) then n else file_readers s f'.
Proof.
  unfold file_readers. cbn [d_readers]. destruct (decide (f' = f)) as [->|Hne].
  - by rewrite lookup_insert.
  - by rewrite lookup_insert_ne.
Qed.

Lemma DInv_init valid : DInv valid d_init.
Proof.
  split; cbn; intros; by simplify_map_eq.
Qed.

Section WithFiles.
Context (valid : N → bool).

(** A handle of an invariant state is attached to an open connection object. *)
Lemma DInv_handle_open s h cid :
  DInv valid s → d_handles s !! h = Some cid →
  ∃ c, d_conns s !! cid = Some c ∧ c_open c = true ∧ (1 ≤ c_refs c)%nat.
Proof.
  intros Hinv Hh. destruct (di_handle _ _ Hinv h cid Hh) as [c Hc].
  exists c. split; [done|].
  assert (1 ≤ c_refs c)%nat as Hrefs.
  { rewrite (di_refs _ _ Hinv cid c Hc). by eapply hcount_pos. }
  split; [|done]. by apply (di_open _ _ Hinv cid c Hc).
Qed.

(** ** Open *)

Lemma DInv_open_cached s h k cid c :
  DInv valid s → d_handles s !! h = None →
  d_cache s !! k = Some cid → d_conns s !! cid = Some c →
  DInv valid (DState (d_cache s) (<[cid := DConn (c_key c) (S (c_refs c)) (c_open c)]> (d_conns s))
                     (<[h := cid]> (d_handles s)) (d_next s) (d_readers s)).
Proof.
  intros Hinv Hh Hk Hc.
  destruct (di_cache _ _ Hinv k cid Hk) as (c' & Hc' & Hopen & Hkey).
  assert (c' = c) as -> by congruence.
  split; cbn [d_cache d_conns d_handles d_next d_readers].
  - intros h' cid' Hh'. apply lookup_insert_Some in Hh' as [[<- <-]|[Hne Hh']].
    + by rewrite lookup_insert.
    + destruct (decide (cid' = cid)) as [->|Hnc]; [by rewrite lookup_insert|].
      rewrite lookup_insert_ne by done. by apply (di_handle _ _ Hinv h').
  - intros cid' c1 Hc1. rewrite hcount_insert_fresh by done.
    apply lookup_insert_Some in Hc1 as [[<- <-]|[Hne Hc1]]; cbn [c_refs].
    + rewrite decide_True by done. rewrite (di_refs _ _ Hinv cid c Hc). lia.
    + rewrite decide_False by done. rewrite (di_refs _ _ Hinv cid' c1 Hc1). lia.
  - intros cid' c1 Hc1.
    apply lookup_insert_Some in Hc1 as [[<- <-]|[Hne Hc1]]; cbn [c_refs c_open].
    + rewrite Hopen. split; [lia|done].
    + by apply (di_open _ _ Hinv cid').
  - intros k' cid' Hk'. destruct (di_cache _ _ Hinv k' cid' Hk') as (c1 & Hc1 & Ho1 & Hk1).
    destruct (decide (cid' = cid)) as [->|Hne].
    + rewrite lookup_insert. eexists. split; [done|]. cbn. split; [done|]. congruence.
    + rewrite lookup_insert_ne by done. by exists c1.
  - intros cid' c1 Hc1 Ho1.
    apply lookup_insert_Some in Hc1 as [[<- <-]|[Hne Hc1]]; cbn [c_key c_open] in *.
    + by apply (di_cached _ _ Hinv cid c).
    + by apply (di_cached _ _ Hinv cid' c1).
  - intros f. unfold file_readers. cbn [d_readers]. fold (file_readers s f).
    rewrite (di_readers _ _ Hinv f). unfold ocount.
    pose proof (fcount_insert (open_on f) (d_conns s) cid (DConn (c_key c) (S (c_refs c)) (c_open c)) c Hc) as Hcnt.
    destruct (decide (open_on f (cid, c))) as [Hp|Hp];
      destruct (decide (open_on f (cid, DConn (c_key c) (S (c_refs c)) (c_open c)))) as [Hp'|Hp'];
      unfold open_on in Hp, Hp'; cbn in Hp, Hp'; try lia; tauto.
  - intros cid' c1 Hc1. apply lookup_insert_Some in Hc1 as [[<- <-]|[Hne Hc1]].
    + by apply (di_next _ _ Hinv cid c).
    + by apply (di_next _ _ Hinv cid' c1).
  - intros cid' c1 Hc1 Ho1.
    apply lookup_insert_Some in Hc1 as [[<- <-]|[Hne Hc1]]; cbn [c_key c_open] in *.
    + by apply (di_valid _ _ Hinv cid c).
    + by apply (di_valid _ _ Hinv cid' c1).
Qed.

Lemma DInv_fresh s : DInv valid s → d_conns s !! d_next s = None.
Proof.
  intros Hinv. destruct (d_conns s !! d_next s) as [c|] eqn:Hc; [|done].
  pose proof (di_next _ _ Hinv _ _ Hc). lia.
Qed.

Lemma DInv_open_new s h k :
  DInv valid s → d_handles s !! h = None → d_cache s !! k = None → valid (k_file k) = true →
  DInv valid (DState (<[k := d_next s]> (d_cache s)) (<[d_next s := DConn k 1 true]> (d_conns s))
                     (<[h := d_next s]> (d_handles s)) (d_next s + 1)
                     (<[k_file k := S (file_readers s (k_file k))]> (d_readers s))).
Proof.
  intros Hinv Hh Hk Hvalid. pose proof (DInv_fresh s Hinv) as Hfresh.
  assert (∀ h', d_handles s !! h' ≠ Some (d_next s)) as Hnoh.
  { intros h' Hh'. destruct (di_handle _ _ Hinv h' _ Hh') as [c Hc]. congruence. }
  split; cbn [d_cache d_conns d_handles d_next d_readers].
  - intros h' cid' Hh'. apply lookup_insert_Some in Hh' as [[<- <-]|[Hne Hh']].
    + by rewrite lookup_insert.
    + destruct (decide (cid' = d_next s)) as [->|Hnc]; [by rewrite lookup_insert|].
      rewrite lookup_insert_ne by done. by apply (di_handle _ _ Hinv h').
  - intros cid' c1 Hc1. rewrite hcount_insert_fresh by done.
    apply lookup_insert_Some in Hc1 as [[<- <-]|[Hne Hc1]]; cbn [c_refs].
    + rewrite decide_True by done. by rewrite hcount_zero.
    + rewrite decide_False by done. rewrite (di_refs _ _ Hinv cid' c1 Hc1). lia.
  - intros cid' c1 Hc1.
    apply lookup_insert_Some in Hc1 as [[<- <-]|[Hne Hc1]]; cbn [c_refs c_open].
    + split; [lia|done].
    + by apply (di_open _ _ Hinv cid').
  - intros k' cid' Hk'. apply lookup_insert_Some in Hk' as [[<- <-]|[Hne Hk']].
    + rewrite lookup_insert. by eexists.
    + destruct (di_cache _ _ Hinv k' cid' Hk') as (c1 & Hc1 & Ho1 & Hk1).
      rewrite lookup_insert_ne by congruence. by exists c1.
  - intros cid' c1 Hc1 Ho1.
    apply lookup_insert_Some in Hc1 as [[<- <-]|[Hne Hc1]]; cbn [c_key c_open] in *.
    + by rewrite lookup_insert.
    + pose proof (di_cached _ _ Hinv cid' c1 Hc1 Ho1) as Hcached.
      rewrite lookup_insert_ne by congruence. done.
  - intros f. rewrite file_readers_insert. unfold ocount.
    rewrite fcount_insert_fresh by done. fold (ocount (d_conns s) f).
    rewrite <- (di_readers _ _ Hinv f).
    destruct (decide (f = k_file k)) as [->|Hne].
    + rewrite decide_True by done. lia.
    + rewrite decide_False; [lia|]. unfold open_on. cbn. intros [_ Heq]. congruence.
  - intros cid' c1 Hc1. apply lookup_insert_Some in Hc1 as [[<- <-]|[Hne Hc1]]; [lia|].
    pose proof (di_next _ _ Hinv cid' c1 Hc1). lia.
  - intros cid' c1 Hc1 Ho1.
    apply lookup_insert_Some in Hc1 as [[<- <-]|[Hne Hc1]]; cbn [c_key c_open] in *; [done|].
    by apply (di_valid _ _ Hinv cid' c1).
Qed.

(** ** Close *)

Lemma DInv_close_shared s h cid c n :
  DInv valid s → d_handles s !! h = Some cid → d_conns s !! cid = Some c → c_refs c = S (S n) →
  DInv valid (DState (d_cache s) (<[cid := DConn (c_key c) (S n) (c_open c)]> (d_conns s))
                     (delete h (d_handles s)) (d_next s) (d_readers s)).
Proof.
  intros Hinv Hh Hc Hrefs.
  assert (c_open c = true) as Hopen by (apply (di_open _ _ Hinv cid c Hc); lia).
  split; cbn [d_cache d_conns d_handles d_next d_readers].
  - intros h' cid' Hh'. apply lookup_delete_Some in Hh' as [Hne Hh'].
    destruct (decide (cid' = cid)) as [->|Hnc]; [by rewrite lookup_insert|].
    rewrite lookup_insert_ne by done. by apply (di_handle _ _ Hinv h').
  - intros cid' c1 Hc1. pose proof (hcount_delete (d_handles s) h cid cid' Hh) as Hcnt.
    apply lookup_insert_Some in Hc1 as [[<- <-]|[Hne Hc1]]; cbn [c_refs].
    + rewrite decide_True in Hcnt by done. pose proof (di_refs _ _ Hinv cid c Hc). lia.
    + rewrite decide_False in Hcnt by done. rewrite (di_refs _ _ Hinv cid' c1 Hc1). lia.
  - intros cid' c1 Hc1.
    apply lookup_insert_Some in Hc1 as [[<- <-]|[Hne Hc1]]; cbn [c_refs c_open].
    + rewrite Hopen. split; [lia|done].
    + by apply (di_open _ _ Hinv cid').
  - intros k' cid' Hk'. destruct (di_cache _ _ Hinv k' cid' Hk') as (c1 & Hc1 & Ho1 & Hk1).
    destruct (decide (cid' = cid)) as [->|Hne].
    + rewrite lookup_insert. eexists. split; [done|]. cbn. split; [done|]. congruence.
    + rewrite lookup_insert_ne by done. by exists c1.
  - intros cid' c1 Hc1 Ho1.
    apply lookup_insert_Some in Hc1 as [[<- <-]|[Hne Hc1]]; cbn [c_key c_open] in *.
    + by apply (di_cached _ _ Hinv cid c).
    + by apply (di_cached _ _ Hinv cid' c1).
  - intros f. unfold file_readers. cbn [d_readers]. fold (file_readers s f).
    rewrite (di_readers _ _ Hinv f). unfold ocount.
    pose proof (fcount_insert (open_on f) (d_conns s) cid (DConn (c_key c) (S n) (c_open c)) c Hc) as Hcnt.
    destruct (decide (open_on f (cid, c))) as [Hp|Hp];
      destruct (decide (open_on f (cid, DConn (c_key c) (S n) (c_open c)))) as [Hp'|Hp'];
      unfold open_on in Hp, Hp'; cbn in Hp, Hp'; try lia; tauto.
  - intros cid' c1 Hc1. apply lookup_insert_Some in Hc1 as [[<- <-]|[Hne Hc1]].
    + by apply (di_next _ _ Hinv cid c).
    + by apply (di_next _ _ Hinv cid' c1).
  - intros cid' c1 Hc1 Ho1.
    apply lookup_insert_Some in Hc1 as [[<- <-]|[Hne Hc1]]; cbn [c_key c_open] in *.
    + by apply (di_valid _ _ Hinv cid c).
    + by apply (di_valid _ _ Hinv cid' c1).
Qed.

Lemma DInv_close_last s h cid c :
  DInv valid s → d_handles s !! h = Some cid → d_conns s !! cid = Some c → c_refs c = 1%nat →
  DInv valid (DState (delete (c_key c) (d_cache s)) (<[cid := DConn (c_key c) 0 false]> (d_conns s))
                     (delete h (d_handles s)) (d_next s)
                     (<[k_file (c_key c) := pred (file_readers s (k_file (c_key c)))]> (d_readers s))).
Proof.
  intros Hinv Hh Hc Hrefs.
  assert (c_open c = true) as Hopen by (apply (di_open _ _ Hinv cid c Hc); lia).
  pose proof (di_cached _ _ Hinv cid c Hc Hopen) as Hcached.
  split; cbn [d_cache d_conns d_handles d_next d_readers].
  - intros h' cid' Hh'. apply lookup_delete_Some in Hh' as [Hne Hh'].
    destruct (decide (cid' = cid)) as [->|Hnc]; [by rewrite lookup_insert|].
    rewrite lookup_insert_ne by done. by apply (di_handle _ _ Hinv h').
  - intros cid' c1 Hc1. pose proof (hcount_delete (d_handles s) h cid cid' Hh) as Hcnt.
    apply lookup_insert_Some in Hc1 as [[<- <-]|[Hne Hc1]]; cbn [c_refs].
    + rewrite decide_True in Hcnt by done. pose proof (di_refs _ _ Hinv cid c Hc). lia.
    + rewrite decide_False in Hcnt by done. rewrite (di_refs _ _ Hinv cid' c1 Hc1). lia.
  - intros cid' c1 Hc1.
    apply lookup_insert_Some in Hc1 as [[<- <-]|[Hne Hc1]]; cbn [c_refs c_open].
    + split; [done|lia].
    + by apply (di_open _ _ Hinv cid').
  - intros k' cid' Hk'. apply lookup_delete_Some in Hk' as [Hnk Hk'].
    destruct (di_cache _ _ Hinv k' cid' Hk') as (c1 & Hc1 & Ho1 & Hk1).
    assert (cid' ≠ cid) as Hne by (intros ->; congruence).
    rewrite lookup_insert_ne by done. by exists c1.
  - intros cid' c1 Hc1 Ho1.
    apply lookup_insert_Some in Hc1 as [[<- <-]|[Hne Hc1]]; cbn [c_key c_open] in *; [done|].
    pose proof (di_cached _ _ Hinv cid' c1 Hc1 Ho1) as Hcached1.
    rewrite lookup_delete_ne; [done|]. intros Heq. rewrite Heq in Hcached. congruence.
  - intros f. rewrite file_readers_insert. unfold ocount.
    pose proof (fcount_insert (open_on f) (d_conns s) cid (DConn (c_key c) 0 false) c Hc) as Hcnt.
    fold (ocount (d_conns s) f) in Hcnt. rewrite <- (di_readers _ _ Hinv f) in Hcnt.
    rewrite (decide_False (P := open_on f (cid, DConn (c_key c) 0 false))) in Hcnt
      by (unfold open_on; cbn; by intros [? _]).
    destruct (decide (f = k_file (c_key c))) as [->|Hne].
    + rewrite decide_True in Hcnt by (by unfold open_on). lia.
    + rewrite decide_False in Hcnt by (unfold open_on; cbn; intros [_ Heq]; congruence). lia.
  - intros cid' c1 Hc1. apply lookup_insert_Some in Hc1 as [[<- <-]|[Hne Hc1]].
    + by apply (di_next _ _ Hinv cid c).
    + by apply (di_next _ _ Hinv cid' c1).
  - intros cid' c1 Hc1 Ho1.
    apply lookup_insert_Some in Hc1 as [[<- <-]|[Hne Hc1]]; cbn [c_key c_open] in *; [done|].
    by apply (di_valid _ _ Hinv cid' c1).
Qed.

End WithFiles.

(** * Steps *)

Section Steps.
Context (valid : N → bool).

(** The ghost map [hk]: the key every live handle was opened with. *)
Record HK (s : dstate) (hk : gmap N dkey) : Prop := {
  hk_none : ∀ h, hk !! h = None → d_handles s !! h = None;
  hk_some : ∀ h k, hk !! h = Some k →
              ∃ cid c, d_handles s !! h = Some cid ∧ d_conns s !! cid = Some c ∧ c_key c = k
}.

Lemma HK_init : HK d_init ∅.
Proof. split; [done|]. intros h k Hh. by rewrite lookup_empty in Hh. Qed.

Lemma HK_handles s hk h : HK s hk → (is_Some (hk !! h) ↔ is_Some (d_handles s !! h)).
Proof.
  intros Hhk. destruct (hk !! h) as [k|] eqn:Hh.
  - destruct (hk_some _ _ Hhk h k Hh) as (cid & c & Hcid & _). rewrite Hcid. by split.
  - rewrite (hk_none _ _ Hhk h Hh). split; by intros [? ?].
Qed.

Lemma d_step_open_valid s hk h k :
  DInv valid s → HK s hk → d_handles s !! h = None → valid (k_file k) = true →
  ∃ s', d_step valid s (DOpen h k) = (s', ROpened) ∧ DInv valid s' ∧ HK s' (<[h := k]> hk).
Proof.
  intros Hinv Hhk Hh Hvalid. cbn [d_step]. rewrite Hh.
  destruct (d_cache s !! k) as [cid|] eqn:Hk.
  - destruct (di_cache _ _ Hinv k cid Hk) as (c & Hc & Hopen & Hkey). rewrite Hc.
    eexists. split; [done|]. split; [by eapply DInv_open_cached|].
    split; cbn [d_handles d_conns].
    + intros h' Hh'. apply lookup_insert_None in Hh' as [Hh' Hne].
      rewrite lookup_insert_ne by done. by apply (hk_none _ _ Hhk).
    + intros h' k' Hh'. apply lookup_insert_Some in Hh' as [[<- <-]|[Hne Hh']].
      * eexists _, _. rewrite !lookup_insert. done.
      * destruct (hk_some _ _ Hhk h' k' Hh') as (cid' & c' & Hcid' & Hc' & Hk').
        rewrite lookup_insert_ne by done.
        destruct (decide (cid' = cid)) as [->|Hnc].
        -- eexists _, _. rewrite lookup_insert. split; [done|]. split; [done|]. cbn. congruence.
        -- exists cid', c'. by rewrite lookup_insert_ne.
  - rewrite Hvalid. eexists. split; [done|]. split; [by apply DInv_open_new|].
    pose proof (DInv_fresh valid s Hinv) as Hfresh.
    split; cbn [d_handles d_conns].
    + intros h' Hh'. apply lookup_insert_None in Hh' as [Hh' Hne].
      rewrite lookup_insert_ne by done. by apply (hk_none _ _ Hhk).
    + intros h' k' Hh'. apply lookup_insert_Some in Hh' as [[<- <-]|[Hne Hh']].
      * eexists _, _. rewrite !lookup_insert. done.
      * destruct (hk_some _ _ Hhk h' k' Hh') as (cid' & c' & Hcid' & Hc' & Hk').
        rewrite lookup_insert_ne by done. exists cid', c'.
        rewrite lookup_insert_ne by congruence. done.
Qed.

Lemma d_step_open_invalid s h k :
  DInv valid s → d_handles s !! h = None → valid (k_file k) = false →
  d_step valid s (DOpen h k) = (s, ROpenErr).
Proof.
  intros Hinv Hh Hvalid. cbn [d_step]. rewrite Hh.
  destruct (d_cache s !! k) as [cid|] eqn:Hk.
  - destruct (di_cache _ _ Hinv k cid Hk) as (c & Hc & Hopen & Hkey).
    pose proof (di_valid _ _ Hinv cid c Hc Hopen) as Hv. rewrite Hkey in Hv. congruence.
  - by rewrite Hvalid.
Qed.

Lemma d_step_query s h cid :
  DInv valid s → d_handles s !! h = Some cid →
  ∃ c, d_conns s !! cid = Some c ∧ d_step valid s (DQuery h) = (s, RRows (k_file (c_key c))).
Proof.
  intros Hinv Hh. destruct (DInv_handle_open valid s h cid Hinv Hh) as (c & Hc & Hopen & _).
  exists c. split; [done|]. cbn [d_step]. by rewrite Hh, Hc, Hopen.
Qed.

Lemma d_step_query_hk s hk h k :
  DInv valid s → HK s hk → hk !! h = Some k →
  d_step valid s (DQuery h) = (s, RRows (k_file k)).
Proof.
  intros Hinv Hhk Hh. destruct (hk_some _ _ Hhk h k Hh) as (cid & c & Hcid & Hc & Hk).
  destruct (d_step_query s h cid Hinv Hcid) as (c' & Hc' & ->). congruence.
Qed.

Lemma d_step_close s hk h :
  DInv valid s → HK s hk → is_Some (d_handles s !! h) →
  ∃ s', d_step valid s (DClose h) = (s', RClosed) ∧ DInv valid s' ∧ HK s' (delete h hk).
Proof.
  intros Hinv Hhk [cid Hh].
  destruct (DInv_handle_open valid s h cid Hinv Hh) as (c & Hc & Hopen & Hrefs).
  cbn [d_step]. rewrite Hh, Hc.
  assert (∀ s', d_handles s' = delete h (d_handles s) →
                (∀ cid' c', d_conns s !! cid' = Some c' →
                            ∃ c'', d_conns s' !! cid' = Some c'' ∧ c_key c'' = c_key c') →
                HK s' (delete h hk)) as Hhk'.
  { intros s' Hhs Hcs. split.
    - intros h' Hh'. rewrite Hhs. apply lookup_delete_None in Hh' as [->|Hh'].
      + apply lookup_delete.
      + apply lookup_delete_None. right. by apply (hk_none _ _ Hhk).
    - intros h' k' Hh'. apply lookup_delete_Some in Hh' as [Hne Hh'].
      destruct (hk_some _ _ Hhk h' k' Hh') as (cid' & c' & Hcid' & Hc' & Hk').
      destruct (Hcs cid' c' Hc') as (c'' & Hc'' & Hk'').
      exists cid', c''. rewrite Hhs, lookup_delete_ne by done. split; [done|]. split; [done|]. congruence. }
  destruct (c_refs c) as [|[|n]] eqn:Hr; [lia| |].
  - pose proof (di_cached _ _ Hinv cid c Hc Hopen) as Hcached.
    rewrite Hcached, N.eqb_refl, Hopen.
    eexists. split; [done|]. split; [by apply DInv_close_last|].
    apply Hhk'; [done|]. cbn [d_conns]. intros cid' c' Hc'.
    destruct (decide (cid' = cid)) as [->|Hne].
    + rewrite lookup_insert. eexists. split; [done|]. cbn. congruence.
    + rewrite lookup_insert_ne by done. by exists c'.
  - eexists. split; [done|]. split; [by eapply DInv_close_shared|].
    apply Hhk'; [done|]. cbn [d_conns]. intros cid' c' Hc'.
    destruct (decide (cid' = cid)) as [->|Hne].
    + rewrite lookup_insert. eexists. split; [done|]. cbn. congruence.
    + rewrite lookup_insert_ne by done. by exists c'.
Qed.

(** ** The specification: every handle has its own connection *)

Definition spec_step (hk : gmap N dkey) (o : dop) : gmap N dkey * dres :=
  match o with
  | DOpen h k => if valid (k_file k) then (<[h := k]> hk, ROpened) else (hk, ROpenErr)
  | DQuery h => (hk, match hk !! h with Some k => RRows (k_file k) | None => RMisuse end)
  | DClose h => (delete h hk, match hk !! h with Some _ => RClosed | None => RMisuse end)
  end.

Fixpoint spec_run (hk : gmap N dkey) (ops : list dop) : gmap N dkey * list dres :=
  match ops with
  | [] => (hk, [])
  | o :: ops' => let '(hk1, r) := spec_step hk o in
                 let '(hk2, rs) := spec_run hk1 ops' in (hk2, r :: rs)
  end.

(** Well-formedness of one operation: what database/sql guarantees. *)
Definition op_ok (hk : gmap N dkey) (o : dop) : Prop :=
  match o with
  | DOpen h _ => hk !! h = None
  | DQuery h | DClose h => is_Some (hk !! h)
  end.

Definition good (r : dres) : Prop := r ≠ RPanic ∧ r ≠ RHang ∧ r ≠ RMisuse.

Lemma spec_step_good hk o : op_ok hk o → good (spec_step hk o).2.
Proof.
  destruct o as [h k|h|h]; cbn [op_ok spec_step].
  - intros _. by destruct (valid (k_file k)).
  - intros [k ->]. done.
  - intros [k ->]. done.
Qed.

(** One step of the driver refines one step of the specification and keeps the invariant. *)
Lemma d_step_refines s hk o :
  DInv valid s → HK s hk → op_ok hk o →
  ∃ s', d_step valid s o = (s', (spec_step hk o).2) ∧ DInv valid s' ∧ HK s' (spec_step hk o).1.
Proof.
  intros Hinv Hhk Hok. destruct o as [h k|h|h]; cbn [op_ok spec_step] in *.
  - pose proof (hk_none _ _ Hhk h Hok) as Hh. destruct (valid (k_file k)) eqn:Hvalid.
    + by apply d_step_open_valid.
    + exists s. by rewrite d_step_open_invalid.
  - destruct Hok as [k Hk]. rewrite Hk. exists s. by rewrite (d_step_query_hk s hk h k).
  - pose proof (proj1 (HK_handles s hk h Hhk) Hok) as Hsome.
    destruct Hok as [k Hk]. rewrite Hk. by apply d_step_close.
Qed.

(** The statement of the task in terms of the state alone. *)
Definition op_ok_state (s : dstate) (o : dop) : Prop :=
  match o with
  | DOpen h _ => d_handles s !! h = None
  | DQuery h | DClose h => is_Some (d_handles s !! h)
  end.

(** Every invariant state has a ghost map. *)
Lemma HK_exists s : DInv valid s → ∃ hk, HK s hk.
Proof.
  intros Hinv.
  exists (omap (λ cid, c_key <$> d_conns s !! cid) (d_handles s)). split.
  - intros h Hh. rewrite lookup_omap in Hh.
    destruct (d_handles s !! h) as [cid|] eqn:Hcid; [|done].
    destruct (di_handle _ _ Hinv h cid Hcid) as [c Hc]. cbn in Hh. by rewrite Hc in Hh.
  - intros h k Hh. rewrite lookup_omap in Hh.
    destruct (d_handles s !! h) as [cid|] eqn:Hcid; [|done]. cbn in Hh.
    destruct (d_conns s !! cid) as [c|] eqn:Hc; [|done]. cbn in Hh. injection Hh as <-.
    by exists cid, c.
Qed.

Theorem DInv_step s o :
  DInv valid s → op_ok_state s o →
  DInv valid (d_step valid s o).1 ∧ good (d_step valid s o).2.
Proof.
  intros Hinv Hok. destruct (HK_exists s Hinv) as [hk Hhk].
  assert (op_ok hk o) as Hok'.
  { destruct o as [h k|h|h]; cbn [op_ok op_ok_state] in *.
    - destruct (hk !! h) as [k'|] eqn:Hh; [|done].
      destruct (hk_some _ _ Hhk h k' Hh) as (cid & c & Hcid & _). congruence.
    - by apply (HK_handles s hk h Hhk).
    - by apply (HK_handles s hk h Hhk). }
  destruct (d_step_refines s hk o Hinv Hhk Hok') as (s' & -> & Hinv' & _).
  split; [done|]. by apply spec_step_good.
Qed.

(** [DOpen] succeeds exactly on valid files (a cached key is valid); a failed open changes nothing. *)
Theorem DInv_open_result s h k :
  DInv valid s → d_handles s !! h = None →
  ((d_step valid s (DOpen h k)).2 = ROpened ↔ valid (k_file k) = true) ∧
  (valid (k_file k) = true ∨ is_Some (d_cache s !! k) ↔ valid (k_file k) = true) ∧
  (valid (k_file k) = false → d_step valid s (DOpen h k) = (s, ROpenErr)).
Proof.
  intros Hinv Hh. destruct (HK_exists s Hinv) as [hk Hhk]. split; [|split].
  - destruct (valid (k_file k)) eqn:Hvalid.
    + destruct (d_step_open_valid s hk h k Hinv Hhk Hh Hvalid) as (s' & -> & _). done.
    + rewrite d_step_open_invalid by done. done.
  - split; [|by left]. intros [Hv|[cid Hk]]; [done|].
    destruct (di_cache _ _ Hinv k cid Hk) as (c & Hc & Hopen & Hkey).
    pose proof (di_valid _ _ Hinv cid c Hc Hopen) as Hv. by rewrite Hkey in Hv.
  - by apply d_step_open_invalid.
Qed.

Theorem DInv_query_result s h cid c :
  DInv valid s → d_handles s !! h = Some cid → d_conns s !! cid = Some c →
  d_step valid s (DQuery h) = (s, RRows (k_file (c_key c))).
Proof.
  intros Hinv Hh Hc. destruct (d_step_query s h cid Hinv Hh) as (c' & Hc' & ->). congruence.
Qed.

(** * Runs *)

(** The bookkeeping of [wf_ops] against the ghost map. *)
Record Live (hk : gmap N dkey) (live used : list N) : Prop := {
  lv_live : ∀ h, h ∈ live ↔ is_Some (hk !! h);
  lv_used : ∀ h, h ∈ live → h ∈ used
}.

Lemma Live_init : Live ∅ [] [].
Proof.
  split; [|done]. intros h. rewrite lookup_empty. split; [by intros ?%elem_of_nil|by intros [? ?]].
Qed.

Lemma wf_step hk live used o ops :
  Live hk live used → wf_ops valid live used (o :: ops) = true →
  op_ok hk o ∧ ∃ live' used', wf_ops valid live' used' ops = true ∧ Live (spec_step hk o).1 live' used'.
Proof.
  intros Hlv Hwf. destruct o as [h k|h|h]; cbn [wf_ops op_ok spec_step] in *.
  - apply andb_true_iff in Hwf as [Hfresh Hwf]. apply negb_true_iff, bool_decide_eq_false in Hfresh.
    assert (hk !! h = None) as Hh.
    { destruct (hk !! h) as [k'|] eqn:Hh; [|done]. exfalso. apply Hfresh.
      apply (lv_used _ _ _ Hlv), (lv_live _ _ _ Hlv). by rewrite Hh. }
    split; [done|]. destruct (valid (k_file k)).
    + exists (h :: live), (h :: used). split; [done|]. split; cbn [fst].
      * intros h'. rewrite elem_of_cons, (lv_live _ _ _ Hlv h').
        destruct (decide (h' = h)) as [->|Hne].
        -- rewrite lookup_insert. split; [by eexists|by left].
        -- rewrite lookup_insert_ne by done. split; [by intros [?|?]|by right].
      * intros h'. rewrite !elem_of_cons. intros [->|Hin]; [by left|right]. by apply (lv_used _ _ _ Hlv).
    + exists live, (h :: used). split; [done|]. split; cbn [fst].
      * apply (lv_live _ _ _ Hlv).
      * intros h' Hin. apply elem_of_cons. right. by apply (lv_used _ _ _ Hlv).
  - apply andb_true_iff in Hwf as [Hin Hwf]. apply bool_decide_eq_true in Hin.
    split; [by apply (lv_live _ _ _ Hlv)|]. by exists live, used.
  - apply andb_true_iff in Hwf as [Hin Hwf]. apply bool_decide_eq_true in Hin.
    split; [by apply (lv_live _ _ _ Hlv)|].
    exists (filter (λ x, x ≠ h) live), used. split; [done|]. split; cbn [fst].
    + intros h'. rewrite elem_of_list_filter, (lv_live _ _ _ Hlv h').
      destruct (decide (h' = h)) as [->|Hne].
      * rewrite lookup_delete. split; [by intros [? _]|by intros [? ?]].
      * rewrite lookup_delete_ne by done. split; [by intros [_ ?]|done].
    + intros h' [_ Hin']%elem_of_list_filter. by apply (lv_used _ _ _ Hlv).
Qed.

(** A well-formed run of the driver refines the specification and keeps the invariant. *)
Lemma d_run_refines s hk live used ops :
  DInv valid s → HK s hk → Live hk live used → wf_ops valid live used ops = true →
  ∃ s', d_run valid s ops = (s', (spec_run hk ops).2) ∧ DInv valid s' ∧ HK s' (spec_run hk ops).1
        ∧ Forall good (spec_run hk ops).2.
Proof.
  revert s hk live used. induction ops as [|o ops IH]; intros s hk live used Hinv Hhk Hlv Hwf.
  - exists s. cbn. split; [done|]. split; [done|]. split; [done|]. constructor.
  - destruct (wf_step hk live used o ops Hlv Hwf) as (Hok & live' & used' & Hwf' & Hlv').
    destruct (d_step_refines s hk o Hinv Hhk Hok) as (s1 & Hstep & Hinv1 & Hhk1).
    pose proof (spec_step_good hk o Hok) as Hgood.
    cbn [d_run spec_run]. rewrite Hstep.
    destruct (spec_step hk o) as [hk1 r]. cbn [fst snd] in *.
    destruct (IH s1 hk1 live' used' Hinv1 Hhk1 Hlv' Hwf') as (s2 & Hrun & Hinv2 & Hhk2 & Hall).
    rewrite Hrun. destruct (spec_run hk1 ops) as [hk2 rs]. cbn [fst snd] in *.
    exists s2. split; [done|]. split; [done|]. split; [done|]. by apply Forall_cons.
Qed.

(** C17: no panic, no hang, no misuse in any well-formed sequence. *)
Theorem C17_sequences ops :
  wf_ops valid [] [] ops = true →
  let '(s, rs) := d_run valid d_init ops in
  Forall (λ r, r ≠ RPanic ∧ r ≠ RHang ∧ r ≠ RMisuse) rs.
Proof.
  intros Hwf.
  destruct (d_run_refines d_init ∅ [] [] ops (DInv_init valid) HK_init Live_init Hwf)
    as (s' & -> & _ & _ & Hall). exact Hall.
Qed.

(** C17: the driver with its shared connections is indistinguishable from the specification in
    which every handle owns its connection; the final state satisfies the invariant. *)
Theorem C17_refines ops :
  wf_ops valid [] [] ops = true →
  (d_run valid d_init ops).2 = (spec_run ∅ ops).2 ∧
  DInv valid (d_run valid d_init ops).1 ∧ HK (d_run valid d_init ops).1 (spec_run ∅ ops).1.
Proof.
  intros Hwf.
  destruct (d_run_refines d_init ∅ [] [] ops (DInv_init valid) HK_init Live_init Hwf)
    as (s' & -> & Hinv & Hhk & _). done.
Qed.

End Steps.

(** * Release *)

Section Release.
Context (valid : N → bool).

(** An open connection object has a live handle. *)
Lemma DInv_open_has_handle s cid c :
  DInv valid s → d_conns s !! cid = Some c → c_open c = true → ∃ h, d_handles s !! h = Some cid.
Proof.
  intros Hinv Hc Hopen. apply hcount_pos_inv. rewrite <- (di_refs _ _ Hinv cid c Hc).
  by apply (di_open _ _ Hinv cid c Hc).
Qed.

(** Once no live handle is on file [f], the file is released. *)
Lemma DInv_release s f :
  DInv valid s →
  (∀ h cid c, d_handles s !! h = Some cid → d_conns s !! cid = Some c → k_file (c_key c) ≠ f) →
  file_readers s f = 0%nat.
Proof.
  intros Hinv Hno. rewrite (di_readers _ _ Hinv f). apply fcount_zero.
  intros cid c Hc [Hopen Hf]. cbn [snd] in *.
  destruct (DInv_open_has_handle s cid c Hinv Hc Hopen) as [h Hh].
  by apply (Hno h cid c).
Qed.

(** While a handle is live its file stays locked. *)
Lemma DInv_held s h cid c :
  DInv valid s → d_handles s !! h = Some cid → d_conns s !! cid = Some c →
  (1 ≤ file_readers s (k_file (c_key c)))%nat.
Proof.
  intros Hinv Hh Hc. destruct (DInv_handle_open valid s h cid Hinv Hh) as (c' & Hc' & Hopen & _).
  assert (c' = c) as -> by congruence.
  rewrite (di_readers _ _ Hinv). by apply (fcount_pos _ _ cid c).
Qed.

Lemma DInv_release_all s :
  DInv valid s → d_handles s = ∅ → d_cache s = ∅ ∧ ∀ f, file_readers s f = 0%nat.
Proof.
  intros Hinv Hempty. split.
  - apply map_empty. intros k. destruct (d_cache s !! k) as [cid|] eqn:Hk; [|done].
    destruct (di_cache _ _ Hinv k cid Hk) as (c & Hc & Hopen & _).
    destruct (DInv_open_has_handle s cid c Hinv Hc Hopen) as [h Hh].
    by rewrite Hempty, lookup_empty in Hh.
  - intros f. apply DInv_release; [done|]. intros h cid c Hh. by rewrite Hempty, lookup_empty in Hh.
Qed.

(** C17, release: in the state after a well-formed run, a file is locked exactly while some
    live handle was opened on it; with no live handle the cache is empty as well. *)
Theorem C17_release ops :
  wf_ops valid [] [] ops = true →
  let s := (d_run valid d_init ops).1 in
  let hk := (spec_run valid ∅ ops).1 in
  (∀ f, (∀ h k, hk !! h = Some k → k_file k ≠ f) → file_readers s f = 0%nat) ∧
  (∀ h k, hk !! h = Some k → (1 ≤ file_readers s (k_file k))%nat) ∧
  (d_handles s = ∅ → d_cache s = ∅ ∧ ∀ f, file_readers s f = 0%nat).
Proof.
  intros Hwf. destruct (C17_refines valid ops Hwf) as (_ & Hinv & Hhk). cbn zeta.
  split; [|split].
  - intros f Hno. apply (DInv_release _ _ Hinv). intros h cid c Hh Hc.
    assert (is_Some ((spec_run valid ∅ ops).1 !! h)) as [k Hk] by (apply (HK_handles _ _ h Hhk); by eexists).
    destruct (hk_some _ _ Hhk h k Hk) as (cid' & c' & Hcid' & Hc' & Hkey).
    assert (c' = c) as -> by congruence. rewrite Hkey. by apply (Hno h).
  - intros h k Hk. destruct (hk_some _ _ Hhk h k Hk) as (cid & c & Hcid & Hc & <-).
    by apply (DInv_held _ h cid c).
  - by apply DInv_release_all.
Qed.

End Release.

(** * Every query is answered on the file its handle was opened on *)

Section Queries.
Context (valid : N → bool).

Lemma wf_open_fresh live used ops j h k :
  wf_ops valid live used ops = true → ops !! j = Some (DOpen h k) → h ∉ used.
Proof.
  revert live used j. induction ops as [|o ops IH]; intros live used j Hwf Hj; [done|].
  destruct j as [|j]; cbn [lookup list_lookup] in Hj.
  - injection Hj as ->. cbn [wf_ops] in Hwf. apply andb_true_iff in Hwf as [Hfresh _].
    by apply negb_true_iff, bool_decide_eq_false in Hfresh.
  - destruct o as [h0 k0|h0|h0]; cbn [wf_ops] in Hwf; apply andb_true_iff in Hwf as [_ Hwf].
    + destruct (valid (k_file k0)); specialize (IH _ _ j Hwf Hj); set_solver.
    + by apply (IH _ _ j Hwf Hj).
    + by apply (IH _ _ j Hwf Hj).
Qed.

Lemma wf_query_live live used ops i h :
  wf_ops valid live used ops = true → h ∈ used → h ∉ live → ops !! i ≠ Some (DQuery h).
Proof.
  revert live used i. induction ops as [|o ops IH]; intros live used i Hwf Hused Hlive Hi; [done|].
  destruct i as [|i]; cbn [lookup list_lookup] in Hi.
  - injection Hi as ->. cbn [wf_ops] in Hwf. apply andb_true_iff in Hwf as [Hin _].
    by apply bool_decide_eq_true in Hin.
  - destruct o as [h0 k0|h0|h0]; cbn [wf_ops] in Hwf; apply andb_true_iff in Hwf as [Hhd Hwf].
    + apply negb_true_iff, bool_decide_eq_false in Hhd.
      assert (h ≠ h0) as Hne by (intros ->; done).
      destruct (valid (k_file k0)); apply (IH _ _ i Hwf); try done; set_solver.
    + by apply (IH _ _ i Hwf).
    + apply (IH _ _ i Hwf); [done| |done]. intros [_ Hin]%elem_of_list_filter. done.
Qed.

Lemma spec_run_cons hk o ops :
  (spec_run valid hk (o :: ops)).2
  = (spec_step valid hk o).2 :: (spec_run valid (spec_step valid hk o).1 ops).2.
Proof.
  cbn [spec_run]. destruct (spec_step valid hk o) as [hk1 r]. cbn [fst snd].
  by destruct (spec_run valid hk1 ops).
Qed.

Lemma spec_query hk live used ops i h :
  Live hk live used → wf_ops valid live used ops = true → ops !! i = Some (DQuery h) →
  (∀ k, hk !! h = Some k → (spec_run valid hk ops).2 !! i = Some (RRows (k_file k))) ∧
  (∀ j k, ops !! j = Some (DOpen h k) → (spec_run valid hk ops).2 !! i = Some (RRows (k_file k))).
Proof.
  revert hk live used i. induction ops as [|o ops IH]; intros hk live used i Hlv Hwf Hi; [done|].
  rewrite spec_run_cons.
  destruct i as [|i]; cbn [lookup list_lookup] in Hi.
  - injection Hi as ->. cbn [wf_ops] in Hwf. apply andb_true_iff in Hwf as [Hin Hwf].
    apply bool_decide_eq_true in Hin. cbn [spec_step fst snd lookup list_lookup]. split.
    + intros k Hk. by rewrite Hk.
    + intros [|j] k Hj; cbn [lookup list_lookup] in Hj; [done|].
      exfalso. apply (wf_open_fresh _ _ _ _ _ _ Hwf Hj). by apply (lv_used _ _ _ Hlv).
  - cbn [lookup list_lookup].
    destruct o as [h0 k0|h0|h0]; cbn [wf_ops] in Hwf; apply andb_true_iff in Hwf as [Hhd Hwf];
      cbn [spec_step].
    + apply negb_true_iff, bool_decide_eq_false in Hhd.
      assert (hk !! h0 = None) as Hh0.
      { destruct (hk !! h0) as [k'|] eqn:Hh0; [|done]. exfalso. apply Hhd.
        apply (lv_used _ _ _ Hlv), (lv_live _ _ _ Hlv). by rewrite Hh0. }
      destruct (valid (k_file k0)) eqn:Hvalid; cbn [fst snd].
      * assert (Live (<[h0 := k0]> hk) (h0 :: live) (h0 :: used)) as Hlv'.
        { split.
          - intros h'. rewrite elem_of_cons, (lv_live _ _ _ Hlv h').
            destruct (decide (h' = h0)) as [->|Hne].
            + rewrite lookup_insert. split; [by eexists|by left].
            + rewrite lookup_insert_ne by done. split; [by intros [?|?]|by right].
          - intros h'. rewrite !elem_of_cons. intros [->|Hin]; [by left|right].
            by apply (lv_used _ _ _ Hlv). }
        destruct (IH _ _ _ i Hlv' Hwf Hi) as [IH1 IH2]. split.
        -- intros k Hk. apply IH1. rewrite lookup_insert_ne; [done|]. intros ->. congruence.
        -- intros [|j] k Hj; cbn [lookup list_lookup] in Hj.
           ++ injection Hj as -> ->. apply IH1. by rewrite lookup_insert.
           ++ by apply (IH2 j).
      * assert (Live hk live (h0 :: used)) as Hlv'.
        { split; [apply (lv_live _ _ _ Hlv)|]. intros h' Hin. apply elem_of_cons. right.
          by apply (lv_used _ _ _ Hlv). }
        destruct (IH _ _ _ i Hlv' Hwf Hi) as [IH1 IH2]. split; [done|].
        intros [|j] k Hj; cbn [lookup list_lookup] in Hj; [|by apply (IH2 j)].
        injection Hj as -> ->. exfalso.
        apply (wf_query_live _ _ _ i h Hwf); [by left| |done].
        intros Hin. apply Hhd. by apply (lv_used _ _ _ Hlv).
    + cbn [fst snd]. destruct (IH _ _ _ i Hlv Hwf Hi) as [IH1 IH2]. split; [done|].
      intros [|j] k Hj; cbn [lookup list_lookup] in Hj; [done|]. by apply (IH2 j).
    + apply bool_decide_eq_true in Hhd. cbn [fst snd].
      assert (Live (delete h0 hk) (filter (λ x, x ≠ h0) live) used) as Hlv'.
      { split.
        - intros h'. rewrite elem_of_list_filter, (lv_live _ _ _ Hlv h').
          destruct (decide (h' = h0)) as [->|Hne].
          + rewrite lookup_delete. split; [by intros [? _]|by intros [? ?]].
          + rewrite lookup_delete_ne by done. split; [by intros [_ ?]|done].
        - intros h' [_ Hin']%elem_of_list_filter. by apply (lv_used _ _ _ Hlv). }
      destruct (IH _ _ _ i Hlv' Hwf Hi) as [IH1 IH2]. split.
      * intros k Hk. apply IH1. rewrite lookup_delete_ne; [done|]. intros ->.
        apply (wf_query_live _ _ _ i h Hwf); [|by intros [? _]%elem_of_list_filter|done].
        by apply (lv_used _ _ _ Hlv).
      * intros [|j] k Hj; cbn [lookup list_lookup] in Hj; [done|]. by apply (IH2 j).
Qed.

(** C17: in a well-formed run every query on a handle is answered with the rows of the file
    the handle was opened on. *)
Theorem C17_queries_correct ops i j h k :
  wf_ops valid [] [] ops = true →
  ops !! j = Some (DOpen h k) → ops !! i = Some (DQuery h) →
  (d_run valid d_init ops).2 !! i = Some (RRows (k_file k)).
Proof.
  intros Hwf Hj Hi. destruct (C17_refines valid ops Hwf) as (-> & _ & _).
  destruct (spec_query ∅ [] [] ops i h Live_init Hwf Hi) as [_ Hq]. by apply (Hq j).
Qed.

End Queries.

(** * The pinned Close is refuted; the repaired one passes the same sequence *)

Definition pin_key : dkey := DKey 7 0.
Definition pin_ops : list dop := [DOpen 1 pin_key; DQuery 1; DClose 1; DOpen 2 pin_key; DQuery 2].

Theorem C17_pinned_refuted :
  wf_ops (λ _, true) [] [] pin_ops = true ∧
  (d_run_pinned (λ _, true) d_init pin_ops).2 = [ROpened; RRows 7; RClosed; ROpened; RPanic] ∧
  (d_run (λ _, true) d_init pin_ops).2 = [ROpened; RRows 7; RClosed; ROpened; RRows 7].
Proof. vm_compute. done. Qed.

Print Assumptions DInv_step.
Print Assumptions DInv_open_result.
Print Assumptions C17_sequences.
Print Assumptions C17_refines.
Print Assumptions C17_queries_correct.
Print Assumptions C17_release.
Print Assumptions C17_pinned_refuted.

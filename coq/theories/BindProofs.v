(** C11: placeholder binding ([bind]/[subst]) against its relational specification [Subst]. *)
From updog Require Import Prelude QParser.
From Coq Require Import ZifyN ZifyNat ZifyBool.
Local Open Scope N_scope.

(** * Induction principle with the children under [Forall] *)
Lemma pexpr_ind' (P : pexpr → Prop)
  (Heq : ∀ c v ph, P (PEq c v ph))
  (Hnot : ∀ e, P e → P (PNot e))
  (Hand : ∀ es, Forall P es → P (PAnd es))
  (Hor : ∀ es, Forall P es → P (POr es)) :
  ∀ e, P e.
Proof.
  fix IH 1. intros [c v ph|e|es|es].
  - apply Heq.
  - apply Hnot, IH.
  - apply Hand. induction es as [|e es IHes]; constructor; [apply IH|apply IHes].
  - apply Hor. induction es as [|e es IHes]; constructor; [apply IH|apply IHes].
Qed.

(** * [max_ph] of an operand list *)
Lemma max_ph_list_le (es : list pexpr) (n : N) :
  fold_right N.max 0 (map max_ph es) ≤ n ↔ Forall (λ e, max_ph e ≤ n) es.
Proof.
  induction es as [|e es IHes]; cbn [map fold_right].
  - split; [constructor|lia].
  - rewrite Forall_cons, <- IHes. lia.
Qed.

Lemma max_ph_list_0 (es : list pexpr) :
  fold_right N.max 0 (map max_ph es) = 0 ↔ Forall (λ e, max_ph e = 0) es.
Proof.
  induction es as [|e es IHes]; cbn [map fold_right].
  - split; [constructor|done].
  - rewrite Forall_cons, <- IHes. lia.
Qed.

Lemma max_ph_list_lt (es : list pexpr) (n : N) :
  n < fold_right N.max 0 (map max_ph es) ↔ Exists (λ e, n < max_ph e) es.
Proof.
  induction es as [|e es IHes]; cbn [map fold_right].
  - rewrite Exists_nil. lia.
  - rewrite Exists_cons, <- IHes. lia.
Qed.

(** * [Subst] is a partial function, and [subst] computes it *)
Lemma Subst_functional args e : ∀ e1 e2, Subst args e e1 → Subst args e e2 → e1 = e2.
Proof.
  induction e as [c v ph|e IHe|es IHes|es IHes] using pexpr_ind'; intros e1 e2 H1 H2.
  - inversion H1 as [| ? ? ? a1 Hp1 Hl1 | | |]; subst;
      inversion H2 as [| ? ? ? a2 Hp2 Hl2 | | |]; subst; try done; try lia.
    congruence.
  - inversion H1 as [| | ? e1' Hs1 | |]; subst. inversion H2 as [| | ? e2' Hs2 | |]; subst.
    f_equal. by apply IHe.
  - inversion H1 as [| | | ? es1 Hs1 |]; subst. inversion H2 as [| | | ? es2 Hs2 |]; subst.
    f_equal. clear H1 H2. revert es1 es2 Hs1 Hs2.
    induction IHes as [|e es He _ IH]; intros es1 es2 Hs1 Hs2.
    + inversion Hs1; inversion Hs2; done.
    + inversion Hs1 as [|? x1 ? l1 Hx1 Hl1]; subst. inversion Hs2 as [|? x2 ? l2 Hx2 Hl2]; subst.
      f_equal; [by apply He | by apply IH].
  - inversion H1 as [| | | | ? es1 Hs1]; subst. inversion H2 as [| | | | ? es2 Hs2]; subst.
    f_equal. clear H1 H2. revert es1 es2 Hs1 Hs2.
    induction IHes as [|e es He _ IH]; intros es1 es2 Hs1 Hs2.
    + inversion Hs1; inversion Hs2; done.
    + inversion Hs1 as [|? x1 ? l1 Hx1 Hl1]; subst. inversion Hs2 as [|? x2 ? l2 Hx2 Hl2]; subst.
      f_equal; [by apply He | by apply IH].
Qed.

Lemma lookup_ph_in_range (args : list str) (ph : N) :
  0 < ph → ph ≤ N.of_nat (length args) → ∃ a, args !! N.to_nat (ph - 1) = Some a.
Proof.
  intros Hpos Hle. apply lookup_lt_is_Some. lia.
Qed.

Lemma subst_Subst args e :
  max_ph e ≤ N.of_nat (length args) → Subst args e (subst args e).
Proof.
  induction e as [c v ph|e IHe|es IHes|es IHes] using pexpr_ind'; cbn [max_ph subst]; intros Hle.
  - destruct (N.ltb_spec 0 ph) as [Hpos|Hz].
    + destruct (lookup_ph_in_range args ph Hpos Hle) as [a Ha]. rewrite Ha. by constructor.
    + assert (ph = 0) as -> by lia. constructor.
  - constructor. by apply IHe.
  - constructor. apply max_ph_list_le in Hle.
    induction IHes as [|e es He _ IH]; cbn [map]; [constructor|].
    apply Forall_cons in Hle as [Hle1 Hle2]. constructor; [by apply He | by apply IH].
  - constructor. apply max_ph_list_le in Hle.
    induction IHes as [|e es He _ IH]; cbn [map]; [constructor|].
    apply Forall_cons in Hle as [Hle1 Hle2]. constructor; [by apply He | by apply IH].
Qed.

(** * The driver's binding step *)
Theorem bind_ok_iff e args e' :
  bind e args = Ok e' ↔ max_ph e ≤ N.of_nat (length args) ∧ Subst args e e'.
Proof.
  unfold bind. destruct (N.leb_spec (max_ph e) (N.of_nat (length args))) as [Hle|Hgt].
  - split.
    + intros [= <-]. split; [done | by apply subst_Subst].
    + intros [_ Hs]. f_equal. eapply Subst_functional; [by apply subst_Subst | done].
  - split; [done | lia].
Qed.

Theorem bind_too_few e args :
  N.of_nat (length args) < max_ph e → bind e args = Err.
Proof.
  intros Hlt. unfold bind. destruct (N.leb_spec (max_ph e) (N.of_nat (length args))); [lia|done].
Qed.

Theorem bind_never_panics e args : bind e args ≠ Panic ∧ bind e args ≠ Hang.
Proof.
  unfold bind. destruct (max_ph e <=? N.of_nat (length args)); done.
Qed.

(** Conversely an error is only ever "too few arguments". *)
Theorem bind_err_iff e args :
  bind e args = Err ↔ N.of_nat (length args) < max_ph e.
Proof.
  unfold bind. destruct (N.leb_spec (max_ph e) (N.of_nat (length args))); split; try done; lia.
Qed.

(** * Properties of [subst] *)
Theorem subst_no_placeholder_left args e :
  max_ph e ≤ N.of_nat (length args) → max_ph (subst args e) = 0.
Proof.
  induction e as [c v ph|e IHe|es IHes|es IHes] using pexpr_ind'; cbn [max_ph subst]; intros Hle.
  - destruct (N.ltb_spec 0 ph) as [Hpos|Hz]; cbn [max_ph]; [|lia].
    destruct (lookup_ph_in_range args ph Hpos Hle) as [a ->]. done.
  - by apply IHe.
  - apply max_ph_list_0. apply max_ph_list_le in Hle.
    induction IHes as [|e es He _ IH]; cbn [map]; [constructor|].
    apply Forall_cons in Hle as [Hle1 Hle2]. constructor; [by apply He | by apply IH].
  - apply max_ph_list_0. apply max_ph_list_le in Hle.
    induction IHes as [|e es He _ IH]; cbn [map]; [constructor|].
    apply Forall_cons in Hle as [Hle1 Hle2]. constructor; [by apply He | by apply IH].
Qed.

Corollary bind_no_placeholder_left e args e' :
  bind e args = Ok e' → max_ph e' = 0.
Proof.
  unfold bind. destruct (N.leb_spec (max_ph e) (N.of_nat (length args))) as [Hle|]; [|done].
  intros [= <-]. by apply subst_no_placeholder_left.
Qed.

Theorem subst_literal_id args e : max_ph e = 0 → subst args e = e.
Proof.
  induction e as [c v ph|e IHe|es IHes|es IHes] using pexpr_ind'; cbn [max_ph subst]; intros Hz.
  - subst ph. done.
  - f_equal. by apply IHe.
  - f_equal. apply max_ph_list_0 in Hz.
    induction IHes as [|e es He _ IH]; cbn [map]; [done|].
    apply Forall_cons in Hz as [Hz1 Hz2]. f_equal; [by apply He | by apply IH].
  - f_equal. apply max_ph_list_0 in Hz.
    induction IHes as [|e es He _ IH]; cbn [map]; [done|].
    apply Forall_cons in Hz as [Hz1 Hz2]. f_equal; [by apply He | by apply IH].
Qed.

(** Literal leaves are never touched, whatever the arguments. *)
Lemma subst_literal_leaf args c v : subst args (PEq c v 0) = PEq c v 0.
Proof. done. Qed.

(** A second binding round changes nothing. *)
Corollary subst_idem args args' e :
  max_ph e ≤ N.of_nat (length args) → subst args' (subst args e) = subst args e.
Proof. intros Hle. by apply subst_literal_id, subst_no_placeholder_left. Qed.

Theorem bind_extra_args_ignored args more e :
  max_ph e ≤ N.of_nat (length args) → subst (args ++ more) e = subst args e.
Proof.
  induction e as [c v ph|e IHe|es IHes|es IHes] using pexpr_ind'; cbn [max_ph subst]; intros Hle.
  - destruct (N.ltb_spec 0 ph) as [Hpos|Hz]; [|done].
    rewrite lookup_app_l by lia. done.
  - f_equal. by apply IHe.
  - f_equal. apply max_ph_list_le in Hle.
    induction IHes as [|e es He _ IH]; cbn [map]; [done|].
    apply Forall_cons in Hle as [Hle1 Hle2]. f_equal; [by apply He | by apply IH].
  - f_equal. apply max_ph_list_le in Hle.
    induction IHes as [|e es He _ IH]; cbn [map]; [done|].
    apply Forall_cons in Hle as [Hle1 Hle2]. f_equal; [by apply He | by apply IH].
Qed.

Corollary bind_extra_args_ignored' args more e e' :
  bind e args = Ok e' → bind e (args ++ more) = Ok e'.
Proof.
  unfold bind. destruct (N.leb_spec (max_ph e) (N.of_nat (length args))) as [Hle|]; [|done].
  intros [= <-]. rewrite app_length.
  destruct (N.leb_spec (max_ph e) (N.of_nat (length args + length more))) as [_|Hgt]; [|lia].
  by rewrite bind_extra_args_ignored.
Qed.

(** Shape preservation: [subst] keeps every operator node and the column of every leaf;
    only the value/placeholder of a leaf may change. *)
Fixpoint shape (e : pexpr) : pexpr :=
  match e with
  | PEq c _ _ => PEq c [] 0
  | PNot e' => PNot (shape e')
  | PAnd es => PAnd (map shape es)
  | POr es => POr (map shape es)
  end.

Theorem subst_shape args e : shape (subst args e) = shape e.
Proof.
  induction e as [c v ph|e IHe|es IHes|es IHes] using pexpr_ind'; cbn [subst shape].
  - destruct (0 <? ph); [|done]. by destruct (args !! _).
  - by rewrite IHe.
  - f_equal. rewrite <- list_fmap_compose.
    induction IHes as [|e es He _ IH]; cbn; [done|]. by rewrite He, IH.
  - f_equal. rewrite <- list_fmap_compose.
    induction IHes as [|e es He _ IH]; cbn; [done|]. by rewrite He, IH.
Qed.

(** Files, locks and crash points: the commit sequence of a flush and its crash prefixes (C06),
    opening and closing index files (C15), and never clobbering an existing file (C16).
    Builds on the store / [open_index] model of Index.v.  No proofs in this file. *)
From updog Require Import Prelude Index.
Local Open Scope N_scope.

Section WithHash.
Context (H : list N → N).

(** * C06: what is on disk if the creating process dies *)

(** The output file of the in-memory writer after each point of [Flush]: bbolt has created
    the file (an empty database), then the transactions are committed one by one. *)
Definition mem_crash_states (st : wstate) (order : list (N * bitmap)) : list store :=
  empty_store :: commit_states empty_store (mem_flush_txs st order).

(** The output file of the big writer: empty from the moment [create] opens it until the
    single commit in [Flush] (the temporary database is a different file). *)
Definition big_crash_states (st : bstate) : list store :=
  empty_store :: match big_flush_tx st with
                 | Ok tx => [apply_tx empty_store tx]
                 | _ => []
                 end.

(** The pinned (unrepaired) order of [WriteToBoltDatabase]: schema and row counter go into
    the FIRST transaction.  Parametrised by the batch size so that a small example shows the
    defect; only used to state what the repair removed. *)
Definition mem_flush_txs_pinned (n : nat) (st : wstate) (order : list (N * bitmap)) : list (list put) :=
  let '(full, rest) := batches (length order) n (map (λ hb, PutV hb.1 hb.2) order) in
  let hdr := [PutBucket; PutS (w_schema st); PutI (w_next st `mod` 2^32)] in
  match full with
  | [] => [hdr ++ rest]
  | b :: full' => ((hdr ++ b) :: full') ++ [rest]
  end.

(** * C15 / C16: the file system as far as updog touches it *)
Inductive fcontent :=
| Garbage                 (* not a bbolt database: empty file, arbitrary bytes *)
| Bolt (s : store).

(** Paths are numbers.  [fs_readers]: how many open index handles hold the (shared) lock of a
    path; [fs_writer]: paths locked exclusively by a writer that keeps them open. *)
Record fsys := FSys {
  fs_files : gmap N fcontent;
  fs_readers : gmap N nat;
  fs_writer : gset N
}.

Definition readers (fs : fsys) (p : N) : nat := default 0%nat (fs_readers fs !! p).
Definition locked (fs : fsys) (p : N) : bool := bool_decide (p ∈ fs_writer fs) || negb (readers fs p =? 0)%nat.

(** [OpenIndex]: no O_CREATE (a missing path stays missing); a file that is not a complete
    index is rejected and released; a file held exclusively by a writer blocks. *)
Definition fs_open (fs : fsys) (p : N) (preload : bool) : outcome index * fsys :=
  match fs_files fs !! p with
  | None => (Err, fs)
  | Some Garbage => (Err, fs)
  | Some (Bolt s) =>
      if bool_decide (p ∈ fs_writer fs) then (Hang, fs)
      else match open_index preload s with
           | Ok ix => (Ok ix, FSys (fs_files fs) (<[p := S (readers fs p)]> (fs_readers fs)) (fs_writer fs))
           | Err => (Err, fs)
           | Panic => (Panic, fs)
           | Hang => (Hang, fs)
           end
  end.

(** A handle: the path it locks, and whether [Close] already ran ([Index.db == nil]). *)
Record handle := Handle { h_path : N; h_index : index; h_closed : bool }.

Definition fs_close (fs : fsys) (h : handle) : fsys * handle :=
  if h_closed h then (fs, h)
  else (FSys (fs_files fs) (<[h_path h := pred (readers fs (h_path h))]> (fs_readers fs)) (fs_writer fs),
        Handle (h_path h) (h_index h) true).

(** [IndexWriter.Flush] / create --big's output open: O_EXCL, an existing path (whatever it
    contains) is an error and is left alone. *)
Definition fs_flush (fs : fsys) (p : N) (s : store) : outcome unit * fsys :=
  match fs_files fs !! p with
  | Some _ => (Err, fs)
  | None => (Ok (), FSys (<[p := Bolt s]> (fs_files fs)) (fs_readers fs) (fs_writer fs))
  end.

(** Sequences of opens and closes on one path (C15): the observable is the outcome of each
    open; handles are closed by index into the list of handles opened so far. *)
Inductive fop := FOpen (preload : bool) | FClose (i : nat).

Fixpoint fs_run (fs : fsys) (p : N) (hs : list handle) (ops : list fop) : list (outcome unit) * fsys * list handle :=
  match ops with
  | [] => ([], fs, hs)
  | FOpen preload :: ops' =>
      match fs_open fs p preload with
      | (Ok ix, fs') => let '(rs, fs'', hs') := fs_run fs' p (hs ++ [Handle p ix false]) ops' in (Ok () :: rs, fs'', hs')
      | (Err, fs') => let '(rs, fs'', hs') := fs_run fs' p hs ops' in (Err :: rs, fs'', hs')
      | (Panic, fs') => let '(rs, fs'', hs') := fs_run fs' p hs ops' in (Panic :: rs, fs'', hs')
      | (Hang, fs') => let '(rs, fs'', hs') := fs_run fs' p hs ops' in (Hang :: rs, fs'', hs')
      end
  | FClose i :: ops' =>
      match hs !! i with
      | None => fs_run fs p hs ops'
      | Some h => let '(fs', h') := fs_close fs h in fs_run fs' p (<[i := h']> hs) ops'
      end
  end.

End WithHash.

(** Damaged index files (C15): a valid store with parts removed or made undecodable. *)
Inductive defect := DNoBucket | DNoS | DBadS | DNoI | DBadI (len : N) | DBadVAll | DBadVOne.

Definition apply_defect (s : store) (d : defect) : store :=
  match d with
  | DNoBucket => Store false None None ∅
  | DNoS => Store (st_bucket s) None (st_count s) (st_vals s)
  | DBadS => Store (st_bucket s) (Some SchemaBad) (st_count s) (st_vals s)
  | DNoI => Store (st_bucket s) (st_schema s) None (st_vals s)
  | DBadI len => Store (st_bucket s) (st_schema s) (Some (CountBad len)) (st_vals s)
  | DBadVAll => Store (st_bucket s) (st_schema s) (st_count s) ((λ _, BitmapBad) <$> st_vals s)
  | DBadVOne => match map_to_list (st_vals s) with
                | (k, _) :: _ => Store (st_bucket s) (st_schema s) (st_count s) (<[k := BitmapBad]> (st_vals s))
                | [] => s
                end
  end.
Definition damage_store (s : store) (ds : list defect) : store := fold_left apply_defect ds s.

(** Group-by (C02): on an index that represents [rows], [execute] computes [spec_execute],
    and [spec_groups] is SQL's GROUP BY with COUNT( * ) > 0, sorted by the value tuples. *)
From updog Require Import Prelude Index IndexProofs.
From stdpp Require Import mapset.
From Coq Require Import ZifyN ZifyNat ZifyBool.
Local Open Scope N_scope.

(** * Generic list facts *)

Lemma elem_of_flat_map {A B} (f : A → list B) (l : list A) (y : B) :
  y ∈ flat_map f l ↔ ∃ x, x ∈ l ∧ y ∈ f x.
Proof.
  rewrite elem_of_list_In, in_flat_map. split; intros (x & Hx & Hy); exists x.
  - by rewrite !elem_of_list_In.
  - by rewrite <- !elem_of_list_In.
Qed.

Lemma flat_map_omap {A B C} (g : B → list C) (f : A → option B) (h : A → list C) (l : list A) :
  (∀ x, x ∈ l → match f x with Some y => g y = h x | None => h x = [] end) →
  flat_map g (omap f l) = flat_map h l.
Proof.
  induction l as [|x l IH]; intros Hx; [done|]. csimpl.
  pose proof (Hx x (elem_of_list_here _ _)) as Hx0.
  rewrite <- IH by (intros y Hy; apply Hx; by right).
  destruct (f x) as [y|]; simpl; by rewrite Hx0.
Qed.

Lemma omap_flat_map {A B C} (f : B → option C) (h : A → list B) (l : list A) :
  omap f (flat_map h l) = flat_map (λ x, omap f (h x)) l.
Proof.
  induction l as [|x l IH]; [done|]. simpl. by rewrite omap_app, IH.
Qed.

Lemma omap_ext_in {A B} (f g : A → option B) (l : list A) :
  (∀ x, x ∈ l → f x = g x) → omap f l = omap g l.
Proof.
  intros Hx. apply list_omap_ext. induction l as [|x l IH]; constructor.
  - apply Hx. left.
  - apply IH. intros y Hy. apply Hx. by right.
Qed.

Lemma StronglySorted_app_intro {A} (R : relation A) l1 l2 :
  StronglySorted R l1 → StronglySorted R l2 →
  (∀ x1 x2, x1 ∈ l1 → x2 ∈ l2 → R x1 x2) → StronglySorted R (l1 ++ l2).
Proof.
  induction 1 as [|x l1 Hs IH Hx]; intros H2 Hc; simpl; [done|]. constructor.
  - apply IH; [done|]. intros x1 x2 H1 Hx2. apply Hc; [by right|done].
  - apply Forall_app. split; [done|]. apply Forall_forall. intros y Hy. apply Hc; [left|done].
Qed.

Lemma StronglySorted_omap {A B} (R : relation A) (R' : relation B) (f : A → option B) l :
  (∀ x y x' y', R x y → f x = Some x' → f y = Some y' → R' x' y') →
  StronglySorted R l → StronglySorted R' (omap f l).
Proof.
  intros Hf. induction 1 as [|x l Hs IH Hx]; csimpl; [constructor|].
  destruct (f x) as [x'|] eqn:Hfx; [|done]. constructor; [done|].
  apply Forall_forall. intros y' Hy'. apply elem_of_list_omap in Hy' as (y & Hy & Hfy).
  rewrite Forall_forall in Hx. eapply Hf; [by apply Hx| |]; done.
Qed.

Lemma StronglySorted_NoDup {A} (R : relation A) l :
  (∀ x, ¬ R x x) → StronglySorted R l → NoDup l.
Proof.
  intros Hirr. induction 1 as [|x l Hs IH Hx]; constructor; [|done].
  intros Hin. rewrite Forall_forall in Hx. by apply (Hirr x), Hx.
Qed.

(** * Sorting by the key *)

Global Instance str_le_antisymm : AntiSymm (=) str_le.
Proof. intros a b. apply str_le_antisym. Qed.

Definition skey_le (a b : str * N) : Prop := str_le a.1 b.1.

Local Instance skey_le_trans : Transitive skey_le.
Proof. intros a b c. unfold skey_le. apply str_le_trans. Qed.
Local Instance skey_le_total : Total skey_le.
Proof. intros a b. unfold skey_le. apply str_le_total. Qed.

(** A strongly [str_le]-sorted list is determined by its elements if it has no duplicates. *)
Lemma sorted_nodup_unique (l1 l2 : list str) :
  StronglySorted str_le l1 → StronglySorted str_le l2 → NoDup l1 → NoDup l2 →
  (∀ x, x ∈ l1 ↔ x ∈ l2) → l1 = l2.
Proof.
  intros Hs1 Hs2 Hn1 Hn2 Hel. apply (StronglySorted_unique str_le); [done..|].
  by apply NoDup_Permutation.
Qed.

Lemma sorted_keys_spec (m : gmap str N) (l : list str) :
  NoDup l → (∀ v, v ∈ l ↔ is_Some (m !! v)) →
  (merge_sort (λ a b : str * N, str_le a.1 b.1) (map_to_list m)).*1 = merge_sort str_le l.
Proof.
  intros Hnd Hel. change (λ a b : str * N, str_le a.1 b.1) with skey_le.
  assert ((merge_sort skey_le (map_to_list m)).*1 ≡ₚ (map_to_list m).*1) as Hp1.
  { apply fmap_Permutation, merge_sort_Permutation. }
  pose proof (merge_sort_Permutation str_le l) as Hp2.
  apply sorted_nodup_unique.
  - apply (StronglySorted_fmap fst skey_le str_le); [by intros x y|].
    apply StronglySorted_merge_sort; apply _.
  - apply StronglySorted_merge_sort; apply _.
  - rewrite Hp1. apply NoDup_fst_map_to_list.
  - by rewrite Hp2.
  - intros v. rewrite Hp1, Hp2, Hel. rewrite elem_of_list_fmap. split.
    + intros ([v' h] & -> & Hin). apply elem_of_map_to_list in Hin. eauto.
    + intros [h Hh]. exists (v, h). split; [done|]. by apply elem_of_map_to_list.
Qed.

Lemma elem_of_merge_sort_keys (m : gmap str N) (vh : str * N) :
  vh ∈ merge_sort (λ a b : str * N, str_le a.1 b.1) (map_to_list m) ↔ m !! vh.1 = Some vh.2.
Proof. rewrite merge_sort_Permutation. apply elem_of_map_to_list'. Qed.

(** * Column values of the specification *)

Lemma has_pair_exists rows c v : (∃ i, has_pair rows i c v) ↔ ∃ r, r ∈ rows ∧ (c, v) ∈ r.
Proof.
  split.
  - intros (i & r & Hl & Hin). exists r. split; [|done]. by apply elem_of_list_lookup_2 in Hl.
  - intros (r & Hr & Hin). apply elem_of_list_lookup_1 in Hr as [j Hj].
    exists (N.of_nat j), r. by rewrite Nat2N.id.
Qed.

Lemma elem_of_col_values rows c v : v ∈ col_values rows c ↔ ∃ r, r ∈ rows ∧ (c, v) ∈ r.
Proof.
  unfold col_values. rewrite merge_sort_Permutation, elem_of_remove_dups, elem_of_flat_map.
  split; intros (r & Hr & Hin); exists r; (split; [done|]).
  - apply elem_of_list_omap in Hin as ([c' v'] & Hin & Heq). simpl in Heq.
    destruct (decide (c' = c)) as [->|]; [|done]. by injection Heq as ->.
  - apply elem_of_list_omap. exists (c, v). split; [done|]. simpl. by rewrite decide_True.
Qed.

Lemma col_values_sorted rows c : StronglySorted str_le (col_values rows c).
Proof. unfold col_values. apply StronglySorted_merge_sort; apply _. Qed.

Lemma col_values_NoDup rows c : NoDup (col_values rows c).
Proof. unfold col_values. rewrite merge_sort_Permutation. apply NoDup_remove_dups. Qed.

Lemma omap_None {A B} (f : A → option B) (l : list A) :
  (∀ x, x ∈ l → f x = None) → omap f l = [].
Proof.
  induction l as [|x l IH]; intros Hx; [done|]. csimpl.
  rewrite (Hx x) by left. apply IH. intros y Hy. apply Hx. by right.
Qed.

Lemma omap_map {A B C} (f : B → option C) (h : A → B) (l : list A) :
  omap f (map h l) = omap (λ x, f (h x)) l.
Proof. induction l as [|x l IH]; [done|]. csimpl. by rewrite IH. Qed.

(** * The groups as sets of row ids *)

(** Ids in [result] whose row carries the value [t_k] for column [cs_k], for every [k]. *)
Definition grp_bm (rows : list row) (result : bitmap) (cs t : list str) : bitmap :=
  filter (λ i, row_in_group cs t (row_at rows i) = true) result.

Definition grp_entry (rows : list row) (result : bitmap) (cs t : list str)
  : option (list field * bitmap) :=
  let b := grp_bm rows result cs t in if bm_is_empty b then None else Some (zip cs t, b).

Lemma zip_snoc (cs t : list str) c v :
  length t = length cs → zip (cs ++ [c]) (t ++ [v]) = zip cs t ++ [(c, v)].
Proof. intros Hl. by rewrite zip_with_app. Qed.

Lemma row_in_group_snoc cs t c v r :
  length t = length cs →
  row_in_group (cs ++ [c]) (t ++ [v]) r = row_in_group cs t r && row_has r c v.
Proof.
  intros Hl. unfold row_in_group. rewrite zip_snoc by done. rewrite forallb_app. simpl.
  by rewrite andb_true_r.
Qed.

Lemma row_in_group_Forall cs t r :
  row_in_group cs t r = true ↔ Forall (λ cv, cv ∈ r) (zip cs t).
Proof.
  unfold row_in_group. rewrite forallb_forall, Forall_forall. unfold row_has.
  split; intros Hx [c v] Hin.
  - apply elem_of_list_In, Hx in Hin. by apply bool_decide_eq_true in Hin.
  - apply bool_decide_eq_true. apply (Hx (c, v)). by apply elem_of_list_In.
Qed.

Lemma has_pair_row_at rows i c v : has_pair rows i c v ↔ row_has (row_at rows i) c v = true.
Proof.
  rewrite has_pair_row_has. split; [by intros [_ ?]|]. intros Hr. split; [|done].
  unfold row_at, row_has in Hr. apply bool_decide_eq_true in Hr.
  destruct (rows !! N.to_nat i) as [r|] eqn:Hl; simpl in Hr.
  - apply lookup_lt_Some in Hl. lia.
  - by apply elem_of_nil in Hr.
Qed.

(** A set of ids described by a predicate on the rows has as many elements as there are
    rows with the predicate (generalises [card_sem]). *)
Lemma card_pred rows (P : row → bool) (b : bitmap) :
  (∀ i, i ∈ b ↔ i < N.of_nat (length rows) ∧ P (row_at rows i) = true) →
  bm_card b = N.of_nat (length (filter (λ r, P r = true) rows)).
Proof.
  intros Hb. unfold bm_card. f_equal.
  assert (b = list_to_set (sat_ids P 0 rows)) as ->.
  { apply set_eq. intros i. rewrite elem_of_list_to_set, elem_of_sat_ids, (Hb i). unfold row_at. split.
    - intros [Hlt Hs]. destruct (rows !! N.to_nat i) as [r|] eqn:Hl.
      + exists (N.to_nat i), r. split; [lia|done].
      + apply lookup_ge_None in Hl. lia.
    - intros (j & r & -> & Hl & Hs). rewrite N.add_0_l, Nat2N.id, Hl. simpl.
      split; [apply lookup_lt_Some in Hl; lia|done]. }
  rewrite size_list_to_set by apply NoDup_sat_ids. apply length_sat_ids.
Qed.

Lemma grp_bm_card rows e result cs t :
  sem_of rows e result → bm_card (grp_bm rows result cs t) = group_count rows e cs t.
Proof.
  intros Hres. unfold group_count.
  apply (card_pred rows (λ r, sat r e && row_in_group cs t r)). intros i.
  unfold grp_bm. rewrite elem_of_filter, (Hres i), andb_true_iff. tauto.
Qed.

Lemma bm_card_0 (b : bitmap) : bm_card b = 0 ↔ b = ∅.
Proof.
  unfold bm_card. rewrite <- (leibniz_equiv_iff b ∅), <- size_empty_iff. lia.
Qed.

(** Mapping a group to (fields, cardinality) gives the specification's entry. *)
Lemma grp_entry_count rows e result cs t :
  sem_of rows e result →
  (λ rg : list field * bitmap, (rg.1, bm_card rg.2)) <$> grp_entry rows result cs t =
  (let n := group_count rows e cs t in if n =? 0 then None else Some (zip cs t, n)).
Proof.
  intros Hres. unfold grp_entry. cbv zeta. rewrite <- (grp_bm_card rows e result cs t Hres).
  destruct (bm_is_empty (grp_bm rows result cs t)) eqn:He.
  - apply bm_is_empty_spec in He. apply bm_card_0 in He. rewrite He. done.
  - destruct (N.eqb_spec (bm_card (grp_bm rows result cs t)) 0) as [H0|H0]; [|done].
    apply bm_card_0, bm_is_empty_spec in H0. congruence.
Qed.

(** * The index side *)
Section WithHash.
Context (H : list N → N) (H_inj : Inj (=) (=) H).
Notation vidx := (vidx H).

(** What [populate_group_by] returns for a column [c]: the distinct values in ascending
    order, each with its value index, and each of them occurring in some row. *)
Definition gb_ok (rows : list row) (c : str) (g : str * list (str * N)) : Prop :=
  g.1 = c ∧ g.2.*1 = col_values rows c ∧
  Forall (λ vh, vh.2 = vidx c vh.1 ∧ ∃ i, has_pair rows i c vh.1) g.2.

Lemma gb_column_spec rows ix c :
  IxRep H rows ix →
  match gb_column (ix_schema ix) c with
  | Some g => c ∈ columns rows ∧ gb_ok rows c g
  | None => c ∉ columns rows
  end.
Proof.
  intros HR. unfold gb_column. destruct (ix_schema ix !! c) as [col|] eqn:Hcol.
  - pose proof (ir_schema _ _ _ HR c col Hcol) as Hs.
    split; [apply (ir_cols _ _ _ HR); eauto|]. split; [done|]. cbn [fst snd]. split.
    + unfold col_values. apply sorted_keys_spec; [apply NoDup_remove_dups|].
      intros v. rewrite elem_of_remove_dups, elem_of_flat_map. split.
      * intros (r & Hr & Hin). apply elem_of_list_omap in Hin as ([c' v'] & Hin & Heq).
        simpl in Heq. destruct (decide (c' = c)) as [->|]; [|done]. injection Heq as ->.
        exists (vidx c v). apply Hs. split; [done|]. apply has_pair_exists. eauto.
      * intros [h Hh]. apply Hs in Hh as [_ Hex]. apply has_pair_exists in Hex as (r & Hr & Hin).
        exists r. split; [done|]. apply elem_of_list_omap. exists (c, v). split; [done|].
        simpl. by rewrite decide_True.
    + apply Forall_forall. intros [v h] Hin. apply elem_of_merge_sort_keys in Hin.
      simpl in *. by apply Hs in Hin.
  - intros Hin. apply (ir_cols _ _ _ HR) in Hin as [? ?]. congruence.
Qed.

Lemma populate_group_by_spec rows ix cols :
  IxRep H rows ix →
  match populate_group_by (ix_schema ix) cols with
  | Some gbs => Forall (λ c, c ∈ columns rows) cols ∧ Forall2 (gb_ok rows) cols gbs
  | None => ¬ Forall (λ c, c ∈ columns rows) cols
  end.
Proof.
  intros HR. induction cols as [|c cols IH]; simpl.
  - split; constructor.
  - pose proof (gb_column_spec rows ix c HR) as Hc.
    destruct (gb_column (ix_schema ix) c) as [g|].
    + destruct Hc as [Hc Hg]. destruct (populate_group_by (ix_schema ix) cols) as [gbs|].
      * destruct IH as [Hall Hgbs]. split; by constructor.
      * intros Hall. apply Forall_cons in Hall as [_ Hall]. done.
    + intros Hall. apply Forall_cons in Hall as [Hall _]. done.
Qed.

(** ** One refinement step *)
Definition refine_one (ix : index) (c : str) (rg : list field * bitmap) (vh : str * N)
  : option (list field * bitmap) :=
  match get_col ix vh.2 with
  | None => None
  | Some vbm => let r := rg.2 ∩ vbm in
                if bm_is_empty r then None else Some (rg.1 ++ [(c, vh.1)], r)
  end.

Lemma gb_refine_unfold ix g groups :
  gb_refine ix g groups = flat_map (λ rg, omap (refine_one ix g.1 rg) g.2) groups.
Proof. reflexivity. Qed.

Lemma refine_one_spec rows ix result cs t c vh :
  rows_nul_free rows → IxRep H rows ix → nul_free c → length t = length cs →
  vh.2 = vidx c vh.1 → (∃ i, has_pair rows i c vh.1) →
  refine_one ix c (zip cs t, grp_bm rows result cs t) vh
  = grp_entry rows result (cs ++ [c]) (t ++ [vh.1]).
Proof.
  intros Hnf HR Hc Hl Hvh Hex. unfold refine_one. rewrite Hvh.
  destruct (ir_loaded _ _ _ HR c vh.1 Hex) as [vbm Hvbm]. rewrite Hvbm. cbn [fst snd]. cbv zeta.
  assert (grp_bm rows result cs t ∩ vbm = grp_bm rows result (cs ++ [c]) (t ++ [vh.1])) as ->.
  { apply set_eq. intros i. unfold grp_bm. rewrite elem_of_intersection, !elem_of_filter.
    pose proof (ix_leaf H H_inj rows ix c vh.1 i Hnf Hc HR) as Hleaf.
    rewrite Hvbm in Hleaf. simpl in Hleaf. rewrite Hleaf.
    rewrite row_in_group_snoc by done. rewrite andb_true_iff, has_pair_row_at. tauto. }
  unfold grp_entry. cbv zeta. by rewrite zip_snoc.
Qed.

Lemma refine_one_empty ix c fs vh : refine_one ix c (fs, ∅) vh = None.
Proof.
  unfold refine_one. destruct (get_col ix vh.2) as [vbm|]; [|done]. cbn [fst snd]. cbv zeta.
  assert ((∅ : bitmap) ∩ vbm = ∅) as -> by set_solver. done.
Qed.

(** All extensions of one partial group. *)
Lemma refine_group rows ix result cs t c g :
  rows_nul_free rows → IxRep H rows ix → nul_free c → length t = length cs →
  gb_ok rows c g →
  omap (refine_one ix g.1 (zip cs t, grp_bm rows result cs t)) g.2
  = omap (grp_entry rows result (cs ++ [c])) (map (λ v, t ++ [v]) (col_values rows c)).
Proof.
  intros Hnf HR Hc Hl (-> & <- & Hall). rewrite omap_map.
  change (g.2.*1) with (map fst g.2). rewrite omap_map.
  apply omap_ext_in. intros vh Hvh. rewrite Forall_forall in Hall.
  destruct (Hall vh Hvh) as [Hh Hex]. by apply refine_one_spec.
Qed.

Lemma gb_refine_spec rows ix result cs ts c g :
  rows_nul_free rows → IxRep H rows ix → nul_free c →
  Forall (λ t, length t = length cs) ts → gb_ok rows c g →
  gb_refine ix g (omap (grp_entry rows result cs) ts)
  = omap (grp_entry rows result (cs ++ [c])) (extend_tuples ts (col_values rows c)).
Proof.
  intros Hnf HR Hc Hlen Hg. rewrite gb_refine_unfold. unfold extend_tuples.
  rewrite omap_flat_map. apply flat_map_omap. intros t Ht.
  rewrite Forall_forall in Hlen. specialize (Hlen t Ht).
  rewrite <- (refine_group rows ix result cs t c g Hnf HR Hc Hlen Hg).
  unfold grp_entry. cbv zeta. destruct (bm_is_empty (grp_bm rows result cs t)) eqn:He; [|done].
  apply bm_is_empty_spec in He. rewrite He. apply omap_None. intros vh _. apply refine_one_empty.
Qed.

Lemma extend_tuples_length (ts : list (list str)) vs n :
  Forall (λ t, length t = n) ts → Forall (λ t, length t = S n) (extend_tuples ts vs).
Proof.
  intros Hts. apply Forall_forall. intros t' Ht'. unfold extend_tuples in Ht'.
  apply elem_of_flat_map in Ht' as (t & Ht & Ht'). apply elem_of_list_fmap in Ht' as (v & -> & _).
  rewrite Forall_forall in Hts. rewrite app_length, (Hts t Ht). simpl. lia.
Qed.

(** ** The whole fold, in lock-step with [all_tuples] *)
Lemma gb_fold_spec rows ix result cols gbs cs ts :
  rows_nul_free rows → IxRep H rows ix → Forall nul_free cols →
  Forall2 (gb_ok rows) cols gbs → Forall (λ t, length t = length cs) ts →
  foldl (λ groups g, gb_refine ix g groups) (omap (grp_entry rows result cs) ts) gbs
  = omap (grp_entry rows result (cs ++ cols))
         (foldl extend_tuples ts (map (col_values rows) cols)).
Proof.
  intros Hnf HR Hnul Hgbs. revert cs ts Hnul.
  induction Hgbs as [|c g cols gbs Hg Hgbs IH]; intros cs ts Hnul Hlen; simpl.
  - by rewrite app_nil_r.
  - apply Forall_cons in Hnul as [Hc Hnul].
    rewrite (gb_refine_spec rows ix result cs ts c g Hnf HR Hc Hlen Hg).
    rewrite IH; [|done|].
    + by rewrite <- app_assoc.
    + rewrite app_length. simpl. replace (length cs + 1)%nat with (S (length cs)) by lia.
      by apply extend_tuples_length.
Qed.

Lemma grp_bm_nil rows result : grp_bm rows result [] [] = result.
Proof. unfold grp_bm. apply set_eq. intros i. rewrite elem_of_filter. simpl. tauto. Qed.

Lemma gb_fold_all rows ix result cols gbs :
  rows_nul_free rows → IxRep H rows ix → Forall nul_free cols →
  Forall2 (gb_ok rows) cols gbs → cols ≠ [] →
  foldl (λ groups g, gb_refine ix g groups) [([], result)] gbs
  = omap (grp_entry rows result cols) (all_tuples (map (col_values rows) cols)).
Proof.
  intros Hnf HR Hnul Hgbs Hne. destruct Hgbs as [|c g cols gbs Hg Hgbs]; [done|].
  apply Forall_cons in Hnul as [Hc Hnul]. unfold all_tuples. cbn [foldl map].
  assert (gb_refine ix g [([], result)]
          = omap (grp_entry rows result [c]) (extend_tuples [[]] (col_values rows c))) as ->.
  { rewrite gb_refine_unfold. unfold extend_tuples. simpl. rewrite !app_nil_r.
    rewrite <- (grp_bm_nil rows result) at 1.
    apply (refine_group rows ix result [] [] c g); done. }
  rewrite (gb_fold_spec rows ix result cols gbs [c]); [done..|].
  apply (extend_tuples_length [[]] _ 0%nat). by constructor.
Qed.

(** ** [group_by] computes [spec_groups] *)
Lemma group_by_spec rows ix e result cols gbs :
  rows_nul_free rows → IxRep H rows ix → Forall nul_free cols →
  Forall2 (gb_ok rows) cols gbs → sem_of rows e result →
  group_by ix gbs result = spec_groups rows e cols.
Proof.
  intros Hnf HR Hnul Hgbs Hres. destruct Hgbs as [|c g cols gbs Hg Hgbs]; [done|].
  unfold group_by, spec_groups.
  rewrite (gb_fold_all rows ix result (c :: cols) (g :: gbs)); [|done|done|done|by constructor|done].
  change (map ?f ?l) with (f <$> l) at 1. rewrite list_fmap_omap.
  apply omap_ext_in. intros t _. by apply grp_entry_count.
Qed.

(** Known group-by columns are NUL-free because all columns of the rows are. *)
Lemma known_nul_free rows cols :
  rows_nul_free rows → Forall (λ c, c ∈ columns rows) cols → Forall nul_free cols.
Proof.
  unfold rows_nul_free. rewrite !Forall_forall. intros Hnf Hall c Hc. by apply Hnf, Hall.
Qed.

(** * Main theorem: [execute] is the row-scan GROUP BY.
    Neither [row_wf] nor NUL-freeness of the group-by columns is needed: a group-by column
    that passes the "known column" test is a column of some row, hence NUL-free by
    [rows_nul_free]; and model and specification agree even on rows with two values for one
    column (such a row is in two groups on both sides). *)
Theorem execute_spec_strong rows ix q :
  rows_nul_free rows → IxRep H rows ix →
  expr_nul_free (q_expr q) → nonempty_ops (q_expr q) = true →
  execute H ix q = spec_execute rows q.
Proof.
  intros Hnf HR Henf Hne. unfold execute, spec_execute.
  pose proof (populate_group_by_spec rows ix (q_group_by q) HR) as Hpop.
  destruct (populate_group_by (ix_schema ix) (q_group_by q)) as [gbs|].
  - destruct Hpop as [Hall Hgbs]. rewrite bool_decide_true by done.
    pose proof (eval_sem H H_inj rows ix (q_expr q) Hnf HR Henf Hne) as Hev.
    unfold eval_ok in Hev. unfold spec_count. destruct (known_columns rows (q_expr q)).
    + destruct Hev as (b & -> & Hb). simpl. f_equal. f_equal.
      * by apply card_sem.
      * apply group_by_spec; [done|done| |done|done]. by apply (known_nul_free rows).
    + by rewrite Hev.
  - by rewrite bool_decide_false.
Qed.

Theorem execute_spec rows ix q :
  Forall row_wf rows →
  rows_nul_free rows → IxRep H rows ix →
  expr_nul_free (q_expr q) → Forall nul_free (q_group_by q) → nonempty_ops (q_expr q) = true →
  execute H ix q = spec_execute rows q.
Proof. intros _ Hnf HR Henf _ Hne. by apply execute_spec_strong. Qed.

End WithHash.

(** * What [spec_groups] means (no hash, no index) *)

(** ** The candidate tuples *)
Lemma elem_of_extend_tuples ts vs (t' : list str) :
  t' ∈ extend_tuples ts vs ↔ ∃ t v, t' = t ++ [v] ∧ t ∈ ts ∧ v ∈ vs.
Proof.
  unfold extend_tuples. rewrite elem_of_flat_map. split.
  - intros (t & Ht & Hin). apply elem_of_list_fmap in Hin as (v & -> & Hv). eauto.
  - intros (t & v & -> & Ht & Hv). exists t. split; [done|]. apply elem_of_list_fmap. eauto.
Qed.

Lemma all_tuples_snoc vss vs : all_tuples (vss ++ [vs]) = extend_tuples (all_tuples vss) vs.
Proof. unfold all_tuples. by rewrite foldl_app. Qed.

Lemma elem_of_all_tuples vss (t : list str) :
  t ∈ all_tuples vss ↔ Forall2 (λ v vs, v ∈ vs) t vss.
Proof.
  revert t. induction vss as [|vs vss IH] using rev_ind; intros t.
  - unfold all_tuples. simpl. rewrite elem_of_list_singleton. split; [by intros ->|].
    apply Forall2_nil_inv_r.
  - rewrite all_tuples_snoc, elem_of_extend_tuples, Forall2_app_inv_r. split.
    + intros (t0 & v & -> & Ht0 & Hv). exists t0, [v]. split; [by apply IH|].
      split; [|done]. by repeat constructor.
    + intros (t0 & l2 & Ht0 & Hl2 & ->).
      apply Forall2_cons_inv_r in Hl2 as (v & l2' & Hv & Hl2' & ->).
      apply Forall2_nil_inv_r in Hl2' as ->. exists t0, v. split; [done|]. split; [by apply IH|done].
Qed.

Lemma elem_of_col_tuples rows cols (t : list str) :
  t ∈ all_tuples (map (col_values rows) cols) ↔
  Forall2 (λ v c, ∃ r, r ∈ rows ∧ (c, v) ∈ r) t cols.
Proof.
  rewrite elem_of_all_tuples. change (map ?f ?l) with (f <$> l). rewrite Forall2_fmap_r.
  split; intros Hf; (eapply Forall2_impl; [exact Hf|]); intros v c; simpl; apply elem_of_col_values.
Qed.

Lemma col_tuples_length rows cols (t : list str) :
  t ∈ all_tuples (map (col_values rows) cols) → length t = length cols.
Proof. rewrite elem_of_col_tuples. apply Forall2_length. Qed.

Lemma spec_groups_unfold rows e cols :
  cols ≠ [] →
  spec_groups rows e cols =
  omap (λ t, let n := group_count rows e cols t in if n =? 0 then None else Some (zip cols t, n))
       (all_tuples (map (col_values rows) cols)).
Proof. by destruct cols. Qed.

Lemma elem_of_spec_groups rows e cols fs n :
  (fs, n) ∈ spec_groups rows e cols ↔
  cols ≠ [] ∧ ∃ t, t ∈ all_tuples (map (col_values rows) cols) ∧ fs = zip cols t
                   ∧ n = group_count rows e cols t ∧ n ≠ 0.
Proof.
  destruct (decide (cols = [])) as [->|Hne].
  - simpl. rewrite elem_of_nil. split; [done|]. by intros [? _].
  - rewrite spec_groups_unfold by done. rewrite elem_of_list_omap. split.
    + intros (t & Ht & Heq). split; [done|]. exists t. split; [done|]. cbv zeta in Heq.
      destruct (N.eqb_spec (group_count rows e cols t) 0) as [|Hn0]; [done|].
      by injection Heq as <- <-.
    + intros (_ & t & Ht & -> & -> & Hn0). exists t. split; [done|]. cbv zeta.
      by destruct (N.eqb_spec (group_count rows e cols t) 0).
Qed.

(** The count of a tuple: rows satisfying the expression that carry every (column, value). *)
Lemma group_count_alt rows e cols t :
  group_count rows e cols t =
  N.of_nat (length (filter (λ r, sat r e = true ∧ Forall (λ cv, cv ∈ r) (zip cols t)) rows)).
Proof.
  unfold group_count. f_equal. f_equal. apply list_filter_iff. intros r.
  by rewrite andb_true_iff, row_in_group_Forall.
Qed.

(** ** Every listed group is a non-empty SQL group with the right count *)
Theorem spec_groups_count rows e cols fs n :
  (fs, n) ∈ spec_groups rows e cols →
  fs.*1 = cols ∧ n ≠ 0 ∧
  n = N.of_nat (length (filter (λ r, sat r e = true ∧ Forall (λ cv, cv ∈ r) fs) rows)).
Proof.
  rewrite elem_of_spec_groups. intros (_ & t & Ht & -> & -> & Hn0).
  split; [|split; [done|apply group_count_alt]].
  apply fst_zip. apply col_tuples_length in Ht. lia.
Qed.

(** ** Every row that satisfies the expression and has all listed columns is in a group *)
Lemma Forall2_zip {A B} (P : A → B → Prop) l k :
  Forall2 P l k → Forall (λ xy, P xy.1 xy.2) (zip l k).
Proof. induction 1; simpl; constructor; done. Qed.

Theorem spec_groups_complete rows e cols r :
  cols ≠ [] → r ∈ rows → sat r e = true → (∀ c, c ∈ cols → ∃ v, (c, v) ∈ r) →
  ∃ fs n, (fs, n) ∈ spec_groups rows e cols ∧ fs.*1 = cols ∧ Forall (λ cv, cv ∈ r) fs.
Proof.
  intros Hne Hr Hsat Hcols.
  assert (∃ t, Forall2 (λ c v, (c, v) ∈ r) cols t) as [t Ht].
  { clear Hne. induction cols as [|c cols IH]; [by exists []|].
    destruct (Hcols c) as [v Hv]; [left|].
    destruct IH as [t Ht]; [intros c' Hc'; apply Hcols; by right|].
    exists (v :: t). by constructor. }
  assert (Forall (λ cv, cv ∈ r) (zip cols t)) as Hin.
  { apply Forall2_zip in Ht. eapply Forall_impl; [done|]. by intros [c v]. }
  exists (zip cols t), (group_count rows e cols t). split; [|split; [|done]].
  - apply elem_of_spec_groups. split; [done|]. exists t. split; [|split; [done|split; [done|]]].
    + apply elem_of_col_tuples. apply Forall2_flip. eapply Forall2_impl; [done|].
      intros c v Hv. simpl. eauto.
    + rewrite group_count_alt.
      assert (r ∈ filter (λ r, sat r e = true ∧ Forall (λ cv, cv ∈ r) (zip cols t)) rows) as Hf.
      { apply elem_of_list_filter. done. }
      destruct (filter _ rows); [by apply elem_of_nil in Hf|]. simpl. lia.
  - apply fst_zip. apply Forall2_length in Ht. lia.
Qed.

(** With distinct column names per row, that group is unique: the groups partition the
    rows that satisfy the expression and have all listed columns.  (This is where
    [row_wf] matters: a row with two values for one column would be in two groups.) *)
Lemma row_value_unique (r : row) c v1 v2 : row_wf r → (c, v1) ∈ r → (c, v2) ∈ r → v1 = v2.
Proof.
  unfold row_wf. induction r as [|[c' v'] r IH]; intros Hnd H1 H2; [by apply elem_of_nil in H1|].
  simpl in Hnd. apply NoDup_cons in Hnd as [Hnotin Hnd].
  apply elem_of_cons in H1 as [E1|H1], H2 as [E2|H2].
  - congruence.
  - injection E1 as <- <-. exfalso. apply Hnotin. apply elem_of_list_fmap. by exists (c, v2).
  - injection E2 as <- <-. exfalso. apply Hnotin. apply elem_of_list_fmap. by exists (c, v1).
  - by apply IH.
Qed.

Lemma row_group_unique (r : row) (fs fs' : list field) :
  row_wf r → fs.*1 = fs'.*1 →
  Forall (λ cv, cv ∈ r) fs → Forall (λ cv, cv ∈ r) fs' → fs = fs'.
Proof.
  intros Hwf. revert fs'. induction fs as [|[c v] fs IH]; intros [|[c' v'] fs'] Heq H1 H2; try done.
  simpl in Heq. injection Heq as -> Heq.
  apply Forall_cons in H1 as [Hv H1], H2 as [Hv' H2].
  rewrite (row_value_unique r c' v v' Hwf Hv Hv'). f_equal. by apply IH.
Qed.

Theorem spec_groups_disjoint rows e cols r fs n fs' n' :
  Forall row_wf rows → r ∈ rows →
  (fs, n) ∈ spec_groups rows e cols → (fs', n') ∈ spec_groups rows e cols →
  Forall (λ cv, cv ∈ r) fs → Forall (λ cv, cv ∈ r) fs' → fs = fs' ∧ n = n'.
Proof.
  intros Hwf Hr Hg Hg' Hin Hin'. rewrite Forall_forall in Hwf.
  assert (fs = fs') as <-.
  { apply (row_group_unique r); [by apply Hwf| |done|done].
    apply spec_groups_count in Hg as [-> _], Hg' as [-> _]. done. }
  split; [done|]. apply spec_groups_count in Hg as (_ & _ & ->), Hg' as (_ & _ & ->). done.
Qed.

(** ** The groups are listed in strictly increasing lexicographic order *)
Fixpoint tuple_lt (a b : list str) : Prop :=
  match a, b with
  | x :: a', y :: b' => str_lt x y ∨ (x = y ∧ tuple_lt a' b')
  | _, _ => False
  end.

Lemma tuple_lt_irrefl a : ¬ tuple_lt a a.
Proof.
  induction a as [|x a IH]; simpl; [tauto|]. intros [Hlt|[_ Hlt]]; [|done].
  by apply (irreflexivity str_lt x).
Qed.

Lemma tuple_lt_trans a b c : tuple_lt a b → tuple_lt b c → tuple_lt a c.
Proof.
  revert b c. induction a as [|x a IH]; intros [|y b] [|z c]; simpl; try done.
  intros [Hxy|[-> Hab]] [Hyz|[-> Hbc]].
  - left. by trans y.
  - by left.
  - by left.
  - right. split; [done|]. by apply (IH b).
Qed.

Lemma tuple_lt_app a b x y : tuple_lt a b → tuple_lt (a ++ x) (b ++ y).
Proof.
  revert b. induction a as [|u a IH]; intros [|w b]; simpl; try done.
  intros [?|[-> ?]]; [by left|right]. split; [done|]. by apply IH.
Qed.

Lemma tuple_lt_snoc a v w : str_lt v w → tuple_lt (a ++ [v]) (a ++ [w]).
Proof. intros Hvw. induction a as [|x a IH]; simpl; [by left|by right]. Qed.

Lemma str_le_neq_lt a b : str_le a b → a ≠ b → str_lt a b.
Proof.
  unfold str_le, str_lt. intros Hle Hne.
  destruct (str_ltb_trichotomy a b) as [?|[?|?]]; [done|done|congruence].
Qed.

Lemma sorted_le_lt (l : list str) :
  StronglySorted str_le l → NoDup l → StronglySorted str_lt l.
Proof.
  induction 1 as [|x l Hs IH Hx]; intros Hnd; constructor.
  - apply IH. by apply NoDup_cons in Hnd as [_ ?].
  - apply NoDup_cons in Hnd as [Hnotin _]. rewrite Forall_forall in Hx |- *.
    intros y Hy. apply str_le_neq_lt; [by apply Hx|]. intros ->. done.
Qed.

Lemma col_values_strictly_sorted rows c : StronglySorted str_lt (col_values rows c).
Proof. apply sorted_le_lt; [apply col_values_sorted|apply col_values_NoDup]. Qed.

Lemma extend_tuples_sorted ts vs :
  StronglySorted tuple_lt ts → StronglySorted str_lt vs →
  StronglySorted tuple_lt (extend_tuples ts vs).
Proof.
  intros Hts Hvs. induction Hts as [|t ts Hts IH Ht]; [constructor|].
  unfold extend_tuples. simpl. apply StronglySorted_app_intro.
  - apply (StronglySorted_fmap (λ v, t ++ [v]) str_lt tuple_lt); [|done].
    intros v w. apply tuple_lt_snoc.
  - apply IH.
  - intros x1 x2 H1 H2. apply elem_of_list_fmap in H1 as (v & -> & _).
    apply elem_of_extend_tuples in H2 as (t2 & v2 & -> & Ht2 & _).
    apply tuple_lt_app. rewrite Forall_forall in Ht. by apply Ht.
Qed.

Lemma all_tuples_sorted vss :
  Forall (StronglySorted str_lt) vss → StronglySorted tuple_lt (all_tuples vss).
Proof.
  unfold all_tuples. assert (StronglySorted tuple_lt [[]]) as Hs by (by repeat constructor).
  revert Hs. generalize [[] : list str]. induction vss as [|vs vss IH]; intros ts Hts Hall; simpl; [done|].
  apply Forall_cons in Hall as [Hvs Hall]. apply IH; [|done]. by apply extend_tuples_sorted.
Qed.

Theorem spec_groups_sorted rows e cols :
  StronglySorted tuple_lt (map (λ g : list field * N, g.1.*2) (spec_groups rows e cols)).
Proof.
  destruct (decide (cols = [])) as [->|Hne]; [constructor|].
  rewrite spec_groups_unfold by done.
  change (map ?f ?l) with (f <$> l) at 1. rewrite list_fmap_omap.
  rewrite (omap_ext_in _ (λ t, if group_count rows e cols t =? 0 then None else Some t)).
  - apply (StronglySorted_omap tuple_lt tuple_lt).
    + intros x y x' y' Hxy Hx Hy.
      destruct (group_count rows e cols x =? 0); [done|].
      destruct (group_count rows e cols y =? 0); [done|]. by injection Hx as <-; injection Hy as <-.
    + apply all_tuples_sorted. apply Forall_forall. intros vs Hvs.
      apply elem_of_list_fmap in Hvs as (c & -> & _). apply col_values_strictly_sorted.
  - intros t Ht. cbv zeta. destruct (group_count rows e cols t =? 0); [done|]. simpl.
    f_equal. apply snd_zip. apply col_tuples_length in Ht. lia.
Qed.

Corollary spec_groups_NoDup rows e cols :
  NoDup (map (λ g : list field * N, g.1.*2) (spec_groups rows e cols)).
Proof. apply (StronglySorted_NoDup tuple_lt); [apply tuple_lt_irrefl|apply spec_groups_sorted]. Qed.

(** * End to end for the in-memory writer *)
Section MemWriter.
Context (H : list N → N) (H_inj : Inj (=) (=) H).

Corollary run_query_mem_spec rows preload q :
  N.of_nat (length rows) < 2^32 → rows_nul_free rows →
  expr_nul_free (q_expr q) → nonempty_ops (q_expr q) = true →
  run_query H WMem preload rows q = spec_execute rows q.
Proof.
  intros Hlen Hnf Henf Hne. unfold run_query, build_store. cbn [out_bind].
  destruct (mem_index_rep H rows preload
              (map_to_list (w_vals (w_add_rows H w_init rows).2)) Hlen) as (ix & -> & HR); [done|].
  cbn [out_bind]. by apply execute_spec_strong.
Qed.

End MemWriter.

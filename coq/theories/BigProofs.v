(** The big (disk-backed) writer produces the same store as the in-memory writer (C05), so
    everything proved about indexes built by the latter carries over (C01, C02). *)
From updog Require Import Prelude Index IndexProofs.
From stdpp Require Import mapset.
From Coq Require Import ZifyN ZifyNat ZifyBool.
Local Open Scope N_scope.

Global Instance key_le_trans : Transitive key_le.
Proof. intros [a1 a2] [b1 b2] [c1 c2]. unfold key_le. simpl. lia. Qed.
Global Instance key_le_total : Total key_le.
Proof. intros [a1 a2] [b1 b2]. unfold key_le. simpl. lia. Qed.

(** The value puts of a transaction as a map. *)
Definition puts_map (ps : list put) : gmap N bitmap :=
  foldl (λ m p, match p with PutV h b => <[h := b]> m | _ => m end) ∅ ps.

Lemma puts_map_snoc ps h b : puts_map (ps ++ [PutV h b]) = <[h := b]> (puts_map ps).
Proof. unfold puts_map. by rewrite foldl_app. Qed.

(** The streaming loop, started in the middle: all remaining keys have a hash >= cur, all
    hashes already written are < cur. *)
Lemma big_stream_spec (l : list (N * N)) cur (b : bitmap) out :
  StronglySorted key_le l →
  Forall (λ k, cur ≤ k.1) l →
  (∀ h, is_Some (puts_map out !! h) → h < cur) →
  ∃ cur' b' out',
    foldl big_step (Some (cur, Some b, out)) l = Some (cur', Some b', out')
    ∧ (∀ h i, i ∈ default ∅ (puts_map (out' ++ [PutV cur' b']) !! h) ↔
              (h = cur ∧ i ∈ b) ∨ (h, i) ∈ l ∨ (h ≠ cur ∧ i ∈ default ∅ (puts_map out !! h)))
    ∧ (∀ h, is_Some (puts_map (out' ++ [PutV cur' b']) !! h) ↔
            h = cur ∨ h ∈ l.*1 ∨ is_Some (puts_map out !! h)).
Proof.
  revert cur b out. induction l as [|[kh ki] l IH]; intros cur b out Hs Hge Hout.
  - exists cur, b, out. split; [done|]. split.
    + intros h i. rewrite puts_map_snoc. destruct (decide (h = cur)) as [->|Hne].
      * rewrite lookup_insert. simpl. rewrite elem_of_nil. naive_solver.
      * rewrite lookup_insert_ne by done. rewrite elem_of_nil. naive_solver.
    + intros h. rewrite puts_map_snoc. destruct (decide (h = cur)) as [->|Hne].
      * rewrite lookup_insert. simpl. rewrite elem_of_nil. naive_solver.
      * rewrite lookup_insert_ne by done. simpl. rewrite elem_of_nil. naive_solver.
  - apply StronglySorted_inv in Hs as [Hs Hhd]. apply Forall_cons in Hge as [Hk Hge]. simpl in Hk.
    cbn [foldl big_step]. simpl.
    destruct (N.eqb_spec cur kh) as [->|Hne]; simpl.
    + (* same hash: add to the current bitmap *)
      destruct (IH kh (bm_add ki b) out Hs) as (cur' & b' & out' & Hf & Hm & Hd); [|done|].
      { rewrite Forall_forall in Hhd |- *. intros [h' i'] Hin. specialize (Hhd _ Hin).
        unfold key_le in Hhd. simpl in *. lia. }
      exists cur', b', out'. split; [done|]. split.
      * intros h i. rewrite Hm, elem_of_bm_add, elem_of_cons. split.
        -- intros [[-> [->|?]]|[?|?]]; eauto.
        -- intros [[-> ?]|[[[= -> ->]|?]|?]]; eauto.
      * intros h. rewrite Hd. rewrite ?fmap_cons, elem_of_cons. simpl. naive_solver.
    + (* new hash: rotate *)
      assert (cur < kh) as Hlt by lia.
      destruct (IH kh (bm_add ki ∅) (out ++ [PutV cur b]) Hs) as (cur' & b' & out' & Hf & Hm & Hd).
      { rewrite Forall_forall in Hhd |- *. intros [h' i'] Hin. specialize (Hhd _ Hin).
        unfold key_le in Hhd. simpl in *. lia. }
      { intros h. rewrite puts_map_snoc. destruct (decide (h = cur)) as [->|Hn]; [done|].
        rewrite lookup_insert_ne by done. intros Hx. specialize (Hout h Hx). lia. }
      exists cur', b', out'. split; [done|].
      assert (∀ i, (cur, i) ∉ l) as Hnotin.
      { intros i Hin. rewrite Forall_forall in Hhd. specialize (Hhd _ Hin). unfold key_le in Hhd.
        simpl in Hhd. lia. }
      split.
      * intros h i. rewrite Hm, elem_of_bm_add, elem_of_cons, puts_map_snoc.
        destruct (decide (h = cur)) as [->|Hn].
        -- rewrite lookup_insert. simpl. split.
           ++ intros [[-> _]|[?|[_ ?]]]; [lia|by destruct (Hnotin i)|by left].
           ++ intros [[_ ?]|[[[= -> _]|?]|[? _]]]; [right; right; split; [lia|done]|lia|by destruct (Hnotin i)|done].
        -- rewrite lookup_insert_ne by done. split.
           ++ intros [[-> [->|?]]|[?|[? ?]]]; [right; left; by left|set_solver|by right; left; right|by right; right].
           ++ intros [[-> _]|[[[= -> ->]|?]|[_ ?]]]; [done|left; split; [done|by left]|by right; left|].
              destruct (decide (h = kh)) as [->|?]; [|by right; right].
              exfalso. assert (kh < cur); [|lia]. apply Hout.
              destruct (puts_map out !! kh); [by eauto|set_solver].
      * intros h. rewrite Hd, puts_map_snoc, ?fmap_cons, elem_of_cons. simpl.
        destruct (decide (h = cur)) as [->|Hn].
        -- rewrite lookup_insert. naive_solver.
        -- rewrite lookup_insert_ne by done. naive_solver.
Qed.

(** The whole loop from its initial state [(0, nil, [])]. *)
Lemma big_stream_total (l : list (N * N)) :
  StronglySorted key_le l →
  match foldl big_step (Some (0, None, [])) l with
  | None => False
  | Some (cur, bm, out) =>
      let ps := out ++ match bm with Some b => [PutV cur b] | None => [] end in
      (∀ h i, i ∈ default ∅ (puts_map ps !! h) ↔ (h, i) ∈ l)
      ∧ (∀ h, is_Some (puts_map ps !! h) ↔ h ∈ l.*1)
  end.
Proof.
  intros Hs. destruct l as [|[kh ki] l].
  - simpl. split.
    + intros h i. unfold puts_map. simpl. rewrite lookup_empty. simpl. set_solver.
    + intros h. unfold puts_map. simpl. rewrite lookup_empty. split; [by intros [? ?]|set_solver].
  - change (foldl big_step (Some (0, None, [])) ((kh, ki) :: l))
      with (foldl big_step (Some (kh, Some (bm_add ki ∅), [])) l).
    apply StronglySorted_inv in Hs as [Hs Hhd].
    destruct (big_stream_spec l kh (bm_add ki ∅) [] Hs) as (cur' & b' & out' & -> & Hm & Hd).
    { rewrite Forall_forall in Hhd |- *. intros [h' i'] Hin. specialize (Hhd _ Hin).
      unfold key_le in Hhd. simpl in *. lia. }
    { intros h. unfold puts_map. simpl. rewrite lookup_empty. by intros [? ?]. }
    split.
    + intros h i. rewrite Hm, elem_of_bm_add, elem_of_cons. unfold puts_map at 1. simpl.
      rewrite lookup_empty. simpl. split.
      * intros [[-> [->|?]]|[?|[_ ?]]]; [by left|set_solver|by right|set_solver].
      * intros [[= -> ->]|?]; [left; split; [done|by left]|by right; left].
    + intros h. rewrite Hd, ?fmap_cons, elem_of_cons. unfold puts_map at 1. simpl. rewrite lookup_empty.
      split; [intros [?|[?|[? ?]]]; [by left|by right|done]|intros [?|?]; [by left|by right; left]].
Qed.

Section BigWriter.
Context (H : list N → N).

(** Simulation between the two writers: same schema, same counter, the temp keys are exactly
    the (hash, row) memberships of the in-memory bitmaps. *)
Definition BW (bs : bstate) (ws : wstate) : Prop :=
  b_schema bs = w_schema ws ∧ b_next bs = w_next ws
  ∧ (∀ h i, (h, i) ∈ b_temp bs ↔ i ∈ default ∅ (w_vals ws !! h))
  ∧ (∀ h b, w_vals ws !! h = Some b → b ≠ ∅).

Lemma BW_init : BW b_init w_init.
Proof.
  split; [done|]. split; [done|]. split.
  - intros h i. simpl. rewrite lookup_empty. simpl. rewrite elem_of_nil. set_solver.
  - intros h b. simpl. by rewrite lookup_empty.
Qed.

Lemma BW_pair rid bs ws cv : BW bs ws → BW (b_add_pair H rid bs cv) (w_add_pair H rid ws cv).
Proof.
  intros (Hs & Hn & Ht & Hne). unfold b_add_pair, w_add_pair. repeat split; simpl.
  - by rewrite Hs.
  - done.
  - rewrite elem_of_cons. destruct (decide (h = vidx H cv.1 cv.2)) as [->|Hh].
    + rewrite lookup_insert. simpl. rewrite elem_of_bm_add. intros [[= ->]|Hin]; [by left|].
      right. by apply Ht.
    + rewrite lookup_insert_ne by done. intros [[= -> _]|Hin]; [done|]. by apply Ht.
  - rewrite elem_of_cons. destruct (decide (h = vidx H cv.1 cv.2)) as [->|Hh].
    + rewrite lookup_insert. simpl. rewrite elem_of_bm_add. intros [->|Hin]; [by left|].
      right. by apply Ht.
    + rewrite lookup_insert_ne by done. intros Hin. right. by apply Ht.
  - intros h b. destruct (decide (h = vidx H cv.1 cv.2)) as [->|Hh].
    + rewrite lookup_insert. intros [= <-]. rewrite bm_add_union. set_solver.
    + rewrite lookup_insert_ne by done. apply Hne.
Qed.

Lemma BW_row_fold rid r bs ws :
  BW bs ws → BW (foldl (b_add_pair H rid) bs r) (foldl (w_add_pair H rid) ws r).
Proof.
  revert bs ws; induction r as [|cv r IH]; intros bs ws HB; simpl; [done|].
  apply IH. by apply BW_pair.
Qed.

Lemma BW_row r bs ws :
  BW bs ws → (b_add_row H bs r).1 = (w_add_row H ws r).1 ∧ BW (b_add_row H bs r).2 (w_add_row H ws r).2.
Proof.
  intros HB. pose proof HB as (Hs & Hn & Ht & Hne). unfold b_add_row, w_add_row. cbn [fst snd].
  split; [done|]. rewrite Hn.
  pose proof (BW_row_fold (w_next ws) r bs ws HB) as (Hs' & Hn' & Ht' & Hne').
  split; [exact Hs'|]. split; [done|]. split; [exact Ht'|exact Hne'].
Qed.

Lemma b_add_rows_cons st r rows :
  b_add_rows H st (r :: rows) =
  let '(id, st1) := b_add_row H st r in
  let '(ids, st2) := b_add_rows H st1 rows in (id :: ids, st2).
Proof. reflexivity. Qed.

Lemma BW_rows rows bs ws :
  BW bs ws →
  (b_add_rows H bs rows).1 = (w_add_rows H ws rows).1
  ∧ BW (b_add_rows H bs rows).2 (w_add_rows H ws rows).2.
Proof.
  revert bs ws; induction rows as [|r rows IH]; intros bs ws HB; [done|].
  rewrite b_add_rows_cons, w_add_rows_cons.
  destruct (BW_row r bs ws HB) as [Hid HB'].
  destruct (b_add_row H bs r) as [id1 bs1], (w_add_row H ws r) as [id2 ws1]. simpl in *. subst id2.
  destruct (IH bs1 ws1 HB') as [Hids HB''].
  destruct (b_add_rows H bs1 rows) as [ids1 bs2], (w_add_rows H ws1 rows) as [ids2 ws2]. simpl in *.
  by subst.
Qed.

(** ** One transaction applied to a store *)
Definition vals_step (m : gmap N bval) (p : put) : gmap N bval :=
  match p with PutV h b => <[h := BitmapOk b]> m | _ => m end.

Lemma apply_tx_bucket s ps : st_bucket s = true → st_bucket (apply_tx s ps) = true.
Proof.
  unfold apply_tx. revert s. induction ps as [|p ps IH]; intros s Hb; [done|].
  cbn [foldl]. apply IH. by destruct p.
Qed.

Lemma apply_tx_vals s ps : st_vals (apply_tx s ps) = foldl vals_step (st_vals s) ps.
Proof.
  unfold apply_tx. revert s. induction ps as [|p ps IH]; intros s; [done|].
  cbn [foldl]. rewrite IH. by destruct p.
Qed.

Lemma vals_step_fmap (m : gmap N bitmap) ps :
  foldl vals_step (BitmapOk <$> m) ps
  = BitmapOk <$> foldl (λ m p, match p with PutV h b => <[h := b]> m | _ => m end) m ps.
Proof.
  revert m. induction ps as [|p ps IH]; intros m; [done|].
  cbn [foldl]. rewrite <- IH. f_equal. destruct p; cbn [vals_step]; try done.
  by rewrite fmap_insert.
Qed.

(** The store after the single transaction [PutBucket :: ps ++ [PutI n; PutS sch]]. *)
Lemma big_tx_store ps n sch :
  final_store [PutBucket :: ps ++ [PutI n; PutS sch]]
  = Store true (Some (SchemaOk sch)) (Some (CountOk n)) (BitmapOk <$> puts_map ps).
Proof.
  unfold final_store. cbn [foldl].
  change (PutBucket :: ps ++ [PutI n; PutS sch]) with ([PutBucket] ++ ps ++ [PutI n; PutS sch]).
  rewrite !apply_tx_app.
  pose proof (apply_tx_bucket (apply_tx empty_store [PutBucket]) ps eq_refl) as Hb.
  pose proof (apply_tx_vals (apply_tx empty_store [PutBucket]) ps) as Hv.
  destruct (apply_tx (apply_tx empty_store [PutBucket]) ps) as [b1 s1 c1 v1].
  cbn [st_bucket st_vals] in Hb, Hv. subst b1 v1.
  unfold apply_tx at 1. cbn [foldl apply_put st_bucket st_schema st_count st_vals].
  f_equal. unfold apply_tx. cbn [foldl apply_put st_vals].
  change (st_vals empty_store) with (∅ : gmap N bval).
  rewrite <- (fmap_empty (M := gmap N) BitmapOk). rewrite vals_step_fmap. done.
Qed.

(** C05: both writers produce the same store. *)
Lemma big_store_eq_mem rows :
  build_store H WBig rows = build_store H WMem rows.
Proof.
  unfold build_store.
  destruct (BW_rows rows b_init w_init BW_init) as [_ (Hs & Hn & Ht & Hne)].
  set (bs := (b_add_rows H b_init rows).2) in *. set (ws := (w_add_rows H w_init rows).2) in *.
  rewrite (mem_final_store ws (map_to_list (w_vals ws))) by done.
  unfold big_flush_tx, temp_keys.
  pose proof (big_stream_total (merge_sort key_le (b_temp bs))
                (StronglySorted_merge_sort key_le (b_temp bs))) as Hst.
  destruct (foldl big_step (Some (0, None, [])) (merge_sort key_le (b_temp bs))) as [[[cur bm] out]|]; [|done].
  cbn [out_map]. f_equal. cbv zeta in Hst. destruct Hst as [Hm Hd].
  rewrite app_assoc.
  set (ps := out ++ match bm with Some b => [PutV cur b] | None => [] end) in *.
  rewrite big_tx_store, Hs, Hn. f_equal. f_equal.
  apply map_eq. intros h.
  destruct (puts_map ps !! h) as [b1|] eqn:E1; destruct (w_vals ws !! h) as [b2|] eqn:E2.
  - f_equal. apply set_eq. intros i.
    specialize (Hm h i). rewrite E1 in Hm. cbn [default] in Hm. rewrite Hm.
    rewrite merge_sort_Permutation, Ht, E2. done.
  - exfalso. assert (h ∈ (merge_sort key_le (b_temp bs)).*1) as Hin.
    { apply Hd. rewrite E1. by eexists. }
    apply elem_of_list_fmap in Hin as ([h' i] & -> & Hin). cbn [fst] in *.
    rewrite merge_sort_Permutation in Hin. apply Ht in Hin. rewrite E2 in Hin.
    cbn [default] in Hin. set_solver.
  - exfalso. pose proof (Hne h b2 E2) as Hb2.
    apply set_choose_L in Hb2 as [i Hi].
    assert ((h, i) ∈ b_temp bs) as Hin. { apply Ht. by rewrite E2. }
    rewrite <- (merge_sort_Permutation key_le) in Hin.
    assert (is_Some (puts_map ps !! h)) as [? Hx]; [|congruence].
    apply Hd. apply elem_of_list_fmap. by exists (h, i).
  - done.
Qed.

Lemma big_never_panics rows : build_store H WBig rows ≠ Panic.
Proof. rewrite big_store_eq_mem. done. Qed.

(** Both writers hand out the same row ids. *)
Lemma big_ids_eq_mem rows : (b_add_rows H b_init rows).1 = (w_add_rows H w_init rows).1.
Proof. apply (BW_rows rows b_init w_init BW_init). Qed.

End BigWriter.

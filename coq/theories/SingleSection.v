(** * SingleSection: an entry point that acquires a mutex at most once performs all
    its accesses guarded by that mutex inside ONE critical section.

    [LockPolicy.max_acq] is an executable over-approximation of the number of
    acquisitions of a lock on any path through a skeleton.  This file proves
    - [max_acq_sound]: below the sentinel value 99 it really bounds the number of
      [EvAcq l _] events of every (possibly incomplete) execution;
    - [single_section]: in an execution of a well-locked entry with [max_acq <= 1],
      two accesses to l-guarded locations are never separated by a release of l;
    - [operation_atomic], [critical_section_atomic], [operation_atomic_excl]: the
      interleaving-level consequences (with lock exclusion and T3 of Conc). *)
From Coq Require Import String List Bool Arith Lia.
Import ListNotations.
From updog Require Import Conc LockPolicy.
Local Open Scope string_scope.
Local Open Scope list_scope.

(* ================================================================== *)
(** ** 1. Counting acquisitions; unfolding equations of [max_acq] *)

Definition is_acq (l : string) (e : event) : bool :=
  match e with
  | EvAcq l' _ => String.eqb l l'
  | _ => false
  end.

(** Number of events [EvAcq l _] (any mode) in a trace. *)
Fixpoint count_acq (l : string) (tr : list event) : nat :=
  match tr with
  | [] => 0
  | e :: r => (if is_acq l e then 1 else 0) + count_acq l r
  end.

Lemma count_acq_app l t1 t2 : count_acq l (t1 ++ t2) = count_acq l t1 + count_acq l t2.
Proof.
  induction t1 as [|e t1 IH]; simpl; [reflexivity|]. rewrite IH. lia.
Qed.

Lemma count_acq_in l m tr : In (EvAcq l m) tr -> 1 <= count_acq l tr.
Proof.
  induction tr as [|e tr IH]; simpl; intros Hin; [contradiction|].
  destruct Hin as [He|Hin].
  - subst e. simpl. rewrite String.eqb_refl. lia.
  - specialize (IH Hin). lia.
Qed.

Lemma count_acq_zero_notin l tr : count_acq l tr = 0 -> forall m, ~ In (EvAcq l m) tr.
Proof.
  intros Hz m Hin. apply count_acq_in in Hin. lia.
Qed.

Lemma max_acq_0 pol funs l s : max_acq pol funs l 0 s = 99.
Proof. reflexivity. Qed.

Lemma max_acq_S pol funs l f s :
  max_acq pol funs l (S f) s =
  match s with
  | Acq l' _ => if String.eqb l l' then 1 else 0
  | Seq a b => max_acq pol funs l (S f) a + max_acq pol funs l (S f) b
  | Branch a b => Nat.max (max_acq pol funs l (S f) a) (max_acq pol funs l (S f) b)
  | Loop a => if Nat.eqb (max_acq pol funs l (S f) a) 0 then 0 else 99
  | Call loc meth =>
      match effect_of pol loc meth with
      | Some (ECall fn) =>
          match lookup_fun funs fn with
          | Some body => max_acq pol funs l f body
          | None => 99
          end
      | Some _ => 0
      | None => 99
      end
  | Unsupported _ => 99
  | _ => 0
  end.
Proof. destruct s; reflexivity. Qed.

(* ================================================================== *)
(** ** 2. Soundness of [max_acq] below the sentinel *)

(** The value 99 is a sentinel (unknown call, unsupported construct, out of fuel, a
    loop that acquires) and NOT a bound: see [sentinel_is_not_a_bound] below.  Whenever
    the computed value is below the sentinel it bounds the number of acquisitions of [l]
    in every possibly incomplete execution.  Proved for every [fuel] at once, by
    induction on the execution derivation. *)
Theorem max_acq_sound pol funs l s tr st :
  pexec pol funs s tr st ->
  forall fuel, max_acq pol funs l fuel s < 99 ->
    count_acq l tr <= max_acq pol funs l fuel s.
Proof.
  intros Hex.
  induction Hex as
    [ s | | l0 m | l0 m | loc w | loc meth He | loc meth He | loc meth He
    | loc meth fn body tr st He Hlk Hex IH
    | a b tr st Hex IH Hst
    | a b tr1 tr2 st Hex1 IH1 Hex2 IH2
    | a b tr st Hex IH | a b tr st Hex IH
    | a
    | a tr st Hex IH Hst
    | a tr1 tr2 st Hex1 IH1 Hex2 IH2
    | ]; intros [|f] Hlt; try (rewrite max_acq_0 in Hlt; lia);
    pose proof Hlt as Hlt0; rewrite max_acq_S in Hlt; rewrite max_acq_S.
  - (* stop *) simpl. lia.
  - (* skip *) simpl. lia.
  - (* acq *) simpl. destruct (String.eqb l l0); lia.
  - (* rel *) simpl. lia.
  - (* acc *) simpl. lia.
  - (* call write *) simpl. lia.
  - (* call read *) simpl. lia.
  - (* call none *) simpl. lia.
  - (* call fn *)
    rewrite He in Hlt. rewrite He. rewrite Hlk in Hlt. rewrite Hlk.
    apply IH. exact Hlt.
  - (* seq, left part does not finish *)
    assert (Ha : max_acq pol funs l (S f) a < 99) by lia.
    specialize (IH (S f) Ha). lia.
  - (* seq *)
    assert (Ha : max_acq pol funs l (S f) a < 99) by lia.
    assert (Hb : max_acq pol funs l (S f) b < 99) by lia.
    specialize (IH1 (S f) Ha). specialize (IH2 (S f) Hb).
    rewrite count_acq_app. lia.
  - (* branch left *)
    assert (Ha : max_acq pol funs l (S f) a < 99) by lia.
    specialize (IH (S f) Ha). lia.
  - (* branch right *)
    assert (Hb : max_acq pol funs l (S f) b < 99) by lia.
    specialize (IH (S f) Hb). lia.
  - (* loop end *) simpl. lia.
  - (* loop: body does not finish *)
    destruct (Nat.eqb (max_acq pol funs l (S f) a) 0) eqn:Hz; [|lia].
    apply Nat.eqb_eq in Hz.
    assert (Ha : max_acq pol funs l (S f) a < 99) by lia.
    specialize (IH (S f) Ha). lia.
  - (* loop iteration *)
    destruct (Nat.eqb (max_acq pol funs l (S f) a) 0) eqn:Hz; [|lia].
    apply Nat.eqb_eq in Hz.
    assert (Ha : max_acq pol funs l (S f) a < 99) by lia.
    specialize (IH1 (S f) Ha).
    specialize (IH2 (S f) Hlt0). rewrite max_acq_S, Hz in IH2. simpl in IH2.
    rewrite count_acq_app. lia.
  - (* ret *) simpl. lia.
Qed.

(** The form used by the obligations: [Nat.leb (max_acq pol funs l 8 entry) 1 = true]. *)
Corollary max_acq_sound_le1 pol funs l fuel s tr st :
  pexec pol funs s tr st ->
  max_acq pol funs l fuel s <= 1 ->
  count_acq l tr <= max_acq pol funs l fuel s.
Proof.
  intros Hex Hle. apply (max_acq_sound pol funs l s tr st Hex fuel). lia.
Qed.

Corollary max_acq_leb_sound pol funs l fuel s tr st :
  pexec pol funs s tr st ->
  Nat.leb (max_acq pol funs l fuel s) 1 = true ->
  count_acq l tr <= 1.
Proof.
  intros Hex Hle. apply Nat.leb_le in Hle.
  pose proof (max_acq_sound_le1 pol funs l fuel s tr st Hex Hle). lia.
Qed.

(** Why the restriction: a loop that acquires can be executed more than 99 times. *)
Lemma loop_acq_exec pol funs l m n :
  pexec pol funs (Loop (Acq l m)) (repeat (EvAcq l m) n) Done.
Proof.
  induction n as [|n IH]; simpl.
  - apply PE_loop_end.
  - apply (PE_loop_iter pol funs (Acq l m) [EvAcq l m] (repeat (EvAcq l m) n) Done).
    + apply PE_acq.
    + exact IH.
Qed.

Example sentinel_is_not_a_bound pol funs :
  exists tr, pexec pol funs (Loop (Acq "m" Ex)) tr Done /\
             max_acq pol funs "m" 8 (Loop (Acq "m" Ex)) = 99 /\
             count_acq "m" tr = 100.
Proof.
  exists (repeat (EvAcq "m" Ex) 100). split; [apply loop_acq_exec|].
  split; vm_compute; reflexivity.
Qed.

(* ================================================================== *)
(** ** 3. One critical section per execution *)

Lemma held_from_after_rel L a l m :
  ls_lookup (held_from L (a ++ [EvRel l m])) l = None.
Proof.
  rewrite held_from_app. simpl. rewrite ls_lookup_rem, String.eqb_refl. reflexivity.
Qed.

(** Core step.  In an execution of a well-locked entry with at most one acquisition
    of [l]: once [l] has been acquired (the prefix [tr1] contains an acquisition),
    [l] is not released before any later access to an l-guarded location. *)
Lemma no_release_before_access pol funs entry l fuel tr st :
  well_locked pol funs entry = true ->
  max_acq pol funs l fuel entry <= 1 ->
  pexec pol funs entry tr st ->
  forall tr1 tr2 tr3 loc w,
    tr = tr1 ++ tr2 ++ EvAcc loc w :: tr3 ->
    1 <= count_acq l tr1 ->
    guard_of pol loc = Some (GuardedBy l) ->
    forall m, ~ In (EvRel l m) tr2.
Proof.
  intros Hwl Hmax Hex tr1 tr2 tr3 loc w Heq Hc1 Hg m Hin.
  pose proof (max_acq_sound_le1 pol funs l fuel entry tr st Hex Hmax) as Hcnt.
  apply in_split in Hin. destruct Hin as [a [b Htr2]].
  destruct (T1_lockset_soundness pol funs entry tr st Hwl Hex) as [Hev _].
  assert (Heq' : tr = ((tr1 ++ a ++ [EvRel l m]) ++ b) ++ EvAcc loc w :: tr3).
  { rewrite Heq, Htr2. rewrite <- !app_assoc. simpl. reflexivity. }
  specialize (Hev _ _ _ Heq'). simpl in Hev. rewrite Hg in Hev.
  destruct Hev as [m2 [Hm2 _]].
  unfold held in Hm2. rewrite held_from_app in Hm2.
  assert (Hnone : ls_lookup (held_from [] (tr1 ++ a ++ [EvRel l m])) l = None).
  { rewrite app_assoc. apply held_from_after_rel. }
  assert (Hacq : In (EvAcq l m2) b).
  { apply (acq_needed l m2 b (held_from [] (tr1 ++ a ++ [EvRel l m]))).
    - rewrite Hnone. discriminate.
    - exact Hm2. }
  apply count_acq_in in Hacq.
  rewrite Heq, Htr2 in Hcnt.
  rewrite !count_acq_app in Hcnt. simpl in Hcnt. rewrite ?count_acq_app in Hcnt.
  lia.
Qed.

(** At an access to an l-guarded location of a well-locked execution, [l] has been
    acquired before. *)
Lemma acq_before_access pol funs entry l tr st :
  well_locked pol funs entry = true ->
  pexec pol funs entry tr st ->
  forall tr1 tr2 loc w,
    tr = tr1 ++ EvAcc loc w :: tr2 ->
    guard_of pol loc = Some (GuardedBy l) ->
    exists m, ls_lookup (held tr1) l = Some m /\ (w = true -> m = Ex) /\ In (EvAcq l m) tr1.
Proof.
  intros Hwl Hex tr1 tr2 loc w Heq Hg.
  destruct (T1_lockset_soundness pol funs entry tr st Hwl Hex) as [Hev _].
  specialize (Hev _ _ _ Heq). simpl in Hev. rewrite Hg in Hev.
  destruct Hev as [m [Hm Hw]].
  exists m. split; [exact Hm|]. split; [exact Hw|].
  apply (acq_needed l m tr1 []); [simpl; discriminate|exact Hm].
Qed.

(** Two accesses to l-guarded locations in one (possibly incomplete) execution of a
    well-locked entry that acquires [l] at most once are never separated by a release
    of [l]: they lie in the same critical section. *)
Theorem single_section pol funs entry l fuel tr st :
  well_locked pol funs entry = true ->
  max_acq pol funs l fuel entry <= 1 ->
  pexec pol funs entry tr st ->
  forall tr1 tr2 tr3 loc1 w1 loc2 w2,
    tr = tr1 ++ EvAcc loc1 w1 :: tr2 ++ EvAcc loc2 w2 :: tr3 ->
    guard_of pol loc1 = Some (GuardedBy l) ->
    guard_of pol loc2 = Some (GuardedBy l) ->
    forall m, ~ In (EvRel l m) tr2.
Proof.
  intros Hwl Hmax Hex tr1 tr2 tr3 loc1 w1 loc2 w2 Heq Hg1 Hg2 m Hin.
  destruct (acq_before_access pol funs entry l tr st Hwl Hex tr1 _ loc1 w1 Heq Hg1)
    as [m1 [_ [_ Hacq]]].
  apply count_acq_in in Hacq.
  assert (Heq' : tr = tr1 ++ (EvAcc loc1 w1 :: tr2) ++ EvAcc loc2 w2 :: tr3).
  { rewrite Heq. simpl. reflexivity. }
  apply (no_release_before_access pol funs entry l fuel tr st Hwl Hmax Hex
           tr1 (EvAcc loc1 w1 :: tr2) tr3 loc2 w2 Heq' Hacq Hg2 m).
  right. exact Hin.
Qed.

(** Nor by another acquisition of [l] (the only acquisition precedes the first access),
    and the mode in which [l] is held is the same at both accesses. *)
Theorem single_section_no_acq pol funs entry l fuel tr st :
  well_locked pol funs entry = true ->
  max_acq pol funs l fuel entry <= 1 ->
  pexec pol funs entry tr st ->
  forall tr1 tr2 loc1 w1,
    tr = tr1 ++ EvAcc loc1 w1 :: tr2 ->
    guard_of pol loc1 = Some (GuardedBy l) ->
    forall m, ~ In (EvAcq l m) tr2.
Proof.
  intros Hwl Hmax Hex tr1 tr2 loc1 w1 Heq Hg1 m Hin.
  destruct (acq_before_access pol funs entry l tr st Hwl Hex tr1 _ loc1 w1 Heq Hg1)
    as [m1 [_ [_ Hacq]]].
  apply count_acq_in in Hacq. apply count_acq_in in Hin.
  pose proof (max_acq_sound_le1 pol funs l fuel entry tr st Hex Hmax) as Hcnt.
  rewrite Heq, count_acq_app in Hcnt. simpl in Hcnt. lia.
Qed.

(* ================================================================== *)
(** ** 4. Interleavings: the operation is atomic w.r.t. l-guarded state *)

Lemma proj_in i e it : In (i, e) it -> In e (proj i it).
Proof.
  induction it as [|[j e'] it IH]; simpl; [tauto|].
  intros [Heq|Hin].
  - inversion Heq; subst. rewrite Nat.eqb_refl. left. reflexivity.
  - destruct (Nat.eqb j i); [right|]; auto.
Qed.

Lemma option_lmode_dec (x y : option lmode) : {x = y} + {x <> y}.
Proof. decide equality. decide equality. Qed.

Section Operation.
  Variable pol : policy.
  Variable funs : funtab.
  Variable entries : list stmt.
  Variable it : itrace.
  Variable i : nat.
  Variable entry : stmt.
  Variable l : string.
  Variable fuel : nat.
  Hypothesis Hwl : well_locked_all pol funs entries = true.
  Hypothesis Hadm : admissible pol funs entries it.
  Hypothesis Hnth : nth_error entries i = Some entry.
  Hypothesis Hmax : max_acq pol funs l fuel entry <= 1.

  (** By [admissible], the projection on thread [i] is ONE (possibly incomplete)
      execution of its entry. *)
  Lemma thread_exec :
    well_locked pol funs entry = true /\ exists st, pexec pol funs entry (proj i it) st.
  Proof.
    split.
    - unfold well_locked_all in Hwl. rewrite forallb_forall in Hwl.
      apply Hwl. apply (nth_error_In _ _ Hnth).
    - destruct Hadm as [_ [Hpe _]]. apply (Hpe _ _ Hnth).
  Qed.

  (** From thread [i]'s acquisition of [l] up to any later l-guarded access of thread
      [i], thread [i] does not release [l]. *)
  Lemma thread_no_release pre m0 mid loc w post :
    it = pre ++ (i, EvAcq l m0) :: mid ++ (i, EvAcc loc w) :: post ->
    guard_of pol loc = Some (GuardedBy l) ->
    forall m, ~ In (i, EvRel l m) mid.
  Proof.
    intros Heq Hg m Hin.
    destruct thread_exec as [Hwle [st Hex]].
    apply proj_in in Hin.
    assert (Hp : proj i it =
                 (proj i pre ++ [EvAcq l m0]) ++ proj i mid ++ EvAcc loc w :: proj i post).
    { rewrite Heq, proj_app. simpl. rewrite Nat.eqb_refl. rewrite proj_app. simpl.
      rewrite Nat.eqb_refl. rewrite <- app_assoc. simpl. reflexivity. }
    assert (Hc : 1 <= count_acq l (proj i pre ++ [EvAcq l m0])).
    { rewrite count_acq_app. simpl. rewrite String.eqb_refl. lia. }
    exact (no_release_before_access pol funs entry l fuel _ st Hwle Hmax Hex
             _ _ _ loc w Hp Hc Hg m Hin).
  Qed.

  (** Between two l-guarded accesses of thread [i]: no release of [l] by [i], and [i]
      holds [l] in one and the same mode [m] at every point of the segment. *)
  Lemma section_mode pre loc1 w1 mid loc2 w2 post :
    it = pre ++ (i, EvAcc loc1 w1) :: mid ++ (i, EvAcc loc2 w2) :: post ->
    guard_of pol loc1 = Some (GuardedBy l) ->
    guard_of pol loc2 = Some (GuardedBy l) ->
    (forall m, ~ In (i, EvRel l m) mid) /\
    exists m,
      ls_lookup (holds pre i) l = Some m /\
      (w1 = true -> m = Ex) /\ (w2 = true -> m = Ex) /\
      forall mA mB, mid = mA ++ mB ->
        ls_lookup (holds (pre ++ (i, EvAcc loc1 w1) :: mA) i) l = Some m.
  Proof.
    intros Heq Hg1 Hg2.
    destruct thread_exec as [Hwle [st Hex]].
    assert (Hp : proj i it =
                 proj i pre ++ EvAcc loc1 w1 :: proj i mid ++ EvAcc loc2 w2 :: proj i post).
    { rewrite Heq, proj_app. simpl. rewrite Nat.eqb_refl. rewrite proj_app. simpl.
      rewrite Nat.eqb_refl. reflexivity. }
    assert (Hnorel : forall m, ~ In (EvRel l m) (proj i mid)).
    { apply (single_section pol funs entry l fuel _ st Hwle Hmax Hex _ _ _ _ _ _ _ Hp Hg1 Hg2). }
    split.
    { intros m Hin. apply (Hnorel m). apply proj_in. exact Hin. }
    pose proof (event_ok_at pol funs entries it Hwl Hadm pre i _ _ Heq) as H1.
    simpl in H1. unfold guard_ok in H1. rewrite Hg1 in H1. destruct H1 as [m [Hm Hw1]].
    assert (Hstable : forall mA mB, mid = mA ++ mB ->
              ls_lookup (holds (pre ++ (i, EvAcc loc1 w1) :: mA) i) l = Some m).
    { intros mA mB Hmid.
      set (p1 := pre ++ [(i, EvAcc loc1 w1)]).
      assert (Heq1 : it = p1 ++ mA ++ (mB ++ (i, EvAcc loc2 w2) :: post)).
      { unfold p1. rewrite Heq, Hmid, <- !app_assoc. simpl. reflexivity. }
      assert (Hp2 : pre ++ (i, EvAcc loc1 w1) :: mA = p1 ++ mA).
      { unfold p1. rewrite <- app_assoc. reflexivity. }
      rewrite Hp2.
      destruct (segment_ok pol funs entries it Hwl Hadm p1 mA _ i Heq1) as [Hok Hh].
      assert (Hp1 : holds p1 i = holds pre i).
      { unfold p1. rewrite holds_snoc, Nat.eqb_refl. reflexivity. }
      rewrite Hp1 in Hok, Hh. rewrite Hh.
      destruct (option_lmode_dec (ls_lookup (held_from (holds pre i) (proj i mA)) l) (Some m))
        as [Hyes|Hno]; [exact Hyes|exfalso].
      apply (Hnorel m). rewrite Hmid, proj_app. apply in_or_app. left.
      apply (rel_needed pol l m _ _ Hok Hm Hno). }
    exists m. split; [exact Hm|]. split; [exact Hw1|]. split; [|exact Hstable].
    intros Hw2.
    assert (Heq2 : it = (pre ++ (i, EvAcc loc1 w1) :: mid) ++ (i, EvAcc loc2 w2) :: post).
    { rewrite Heq, <- app_assoc. reflexivity. }
    pose proof (event_ok_at pol funs entries it Hwl Hadm _ i _ _ Heq2) as H2.
    simpl in H2. unfold guard_ok in H2. rewrite Hg2 in H2. destruct H2 as [m2 [Hm2 Hw2']].
    rewrite (Hstable mid [] (eq_sym (app_nil_r mid))) in Hm2.
    inversion Hm2; subst m2. apply Hw2'. exact Hw2.
  Qed.

  (** operation_atomic.  Let thread [i] run [entry], well-locked and acquiring [l] at
      most once.  Between two l-guarded accesses of thread [i] (they belong to the single
      execution of [entry] that [admissible] provides for thread [i]):
      - thread [i] does not release [l], and
      - an l-guarded access of another thread can lie in between only in the harmless
        all-readers situation: both accesses of [i] and the foreign access are reads
        (everybody holds [l] in shared mode).  As soon as one of the three is a write,
        no foreign l-guarded access lies in between. *)
  Theorem operation_atomic pre loc1 w1 mid loc2 w2 post :
    it = pre ++ (i, EvAcc loc1 w1) :: mid ++ (i, EvAcc loc2 w2) :: post ->
    guard_of pol loc1 = Some (GuardedBy l) ->
    guard_of pol loc2 = Some (GuardedBy l) ->
    (forall m, ~ In (i, EvRel l m) mid) /\
    forall j loc w, In (j, EvAcc loc w) mid -> j <> i ->
      guard_of pol loc = Some (GuardedBy l) ->
      w1 = false /\ w2 = false /\ w = false.
  Proof.
    intros Heq Hg1 Hg2.
    destruct (section_mode pre loc1 w1 mid loc2 w2 post Heq Hg1 Hg2)
      as [Hnorel [m [Hm [Hw1 [Hw2 Hstable]]]]].
    split; [exact Hnorel|].
    intros j loc w Hin Hji Hg.
    apply in_split in Hin. destruct Hin as [mA [mB Hmid]].
    pose proof (Hstable mA _ Hmid) as Hi.
    assert (Heq2 : it = (pre ++ (i, EvAcc loc1 w1) :: mA) ++
                        (j, EvAcc loc w) :: mB ++ (i, EvAcc loc2 w2) :: post).
    { rewrite Heq, Hmid, <- !app_assoc. simpl. rewrite <- ?app_assoc. simpl. reflexivity. }
    pose proof (event_ok_at pol funs entries it Hwl Hadm _ j _ _ Heq2) as Hj.
    simpl in Hj. unfold guard_ok in Hj. rewrite Hg in Hj. destruct Hj as [mj [Hmj Hwj]].
    destruct Hadm as [_ [_ Hlr]].
    destruct (lock_exclusion_modes it Hlr _ _ Heq2 i j l m mj (not_eq_sym Hji) Hi Hmj)
      as [Hmi Hmj'].
    subst m mj.
    split; [|split].
    - destruct w1; [|reflexivity]. specialize (Hw1 eq_refl). discriminate.
    - destruct w2; [|reflexivity]. specialize (Hw2 eq_refl). discriminate.
    - destruct w; [|reflexivity]. specialize (Hwj eq_refl). discriminate.
  Qed.

  (** Combination with T3: from an EXCLUSIVE acquisition of [l] by thread [i] up to any
      later l-guarded access of thread [i], no other thread accesses an l-guarded
      location, acquires [l] or releases [l].  (The hypothesis of T3 that the segment
      contains no release of [l] by [i] is discharged by the single-acquisition bound.) *)
  Theorem critical_section_atomic pre mid loc w post :
    it = pre ++ (i, EvAcq l Ex) :: mid ++ (i, EvAcc loc w) :: post ->
    guard_of pol loc = Some (GuardedBy l) ->
    forall j e, In (j, e) mid -> j <> i ->
      match e with
      | EvAcc loc' _ => guard_of pol loc' <> Some (GuardedBy l)
      | EvAcq l' _ => l' <> l
      | EvRel l' _ => l' <> l
      end.
  Proof.
    intros Heq Hg j e Hin Hji.
    apply (T3_atomicity pol funs entries it Hwl Hadm pre mid ((i, EvAcc loc w) :: post) i l
             Heq (thread_no_release pre Ex mid loc w post Heq Hg) j e Hin Hji).
  Qed.

  (** The writing operation: if one of two l-guarded accesses of thread [i] is a write,
      nothing of another thread that concerns [l] (access to an l-guarded location,
      acquisition or release of [l]) lies between them. *)
  Theorem operation_atomic_excl pre loc1 w1 mid loc2 w2 post :
    it = pre ++ (i, EvAcc loc1 w1) :: mid ++ (i, EvAcc loc2 w2) :: post ->
    guard_of pol loc1 = Some (GuardedBy l) ->
    guard_of pol loc2 = Some (GuardedBy l) ->
    w1 = true \/ w2 = true ->
    forall j e, In (j, e) mid -> j <> i ->
      match e with
      | EvAcc loc' _ => guard_of pol loc' <> Some (GuardedBy l)
      | EvAcq l' _ => l' <> l
      | EvRel l' _ => l' <> l
      end.
  Proof.
    intros Heq Hg1 Hg2 Hw j e Hin Hji.
    destruct (section_mode pre loc1 w1 mid loc2 w2 post Heq Hg1 Hg2)
      as [_ [m [Hm [Hw1 [Hw2 _]]]]].
    assert (Hex : m = Ex) by (destruct Hw as [Hw|Hw]; auto).
    subst m.
    assert (Hacq : In (i, EvAcq l Ex) pre).
    { apply in_proj. apply (acq_needed l Ex (proj i pre) []); [simpl; discriminate|exact Hm]. }
    apply in_split in Hacq. destruct Hacq as [p0 [p1 Hpre]].
    assert (Heq' : it = p0 ++ (i, EvAcq l Ex) ::
                        (p1 ++ (i, EvAcc loc1 w1) :: mid) ++ (i, EvAcc loc2 w2) :: post).
    { rewrite Heq, Hpre, <- !app_assoc. simpl. rewrite <- ?app_assoc. simpl. reflexivity. }
    apply (critical_section_atomic p0 (p1 ++ (i, EvAcc loc1 w1) :: mid) loc2 w2 post Heq' Hg2
             j e); [|exact Hji].
    apply in_or_app. right. right. exact Hin.
  Qed.
End Operation.

(* ================================================================== *)
(** ** 5. Examples *)

Module SSExamples.
  Import Conc.Examples.

  Example one_lock :
    max_acq pol [] "m" 8 (Seq (Acq "m" Ex) (Seq (Acc "x" true) (Rel "m" Ex))) = 1.
  Proof. vm_compute. reflexivity. Qed.

  Example two_locks_in_sequence :
    max_acq pol [] "m" 8
      (Seq (Seq (Acq "m" Ex) (Seq (Acc "x" true) (Rel "m" Ex)))
           (Seq (Acq "m" Ex) (Seq (Acc "id" true) (Rel "m" Ex)))) = 2.
  Proof. vm_compute. reflexivity. Qed.

  Example branch_each_arm_locks_once :
    max_acq pol [] "m" 8
      (Branch (Seq (Acq "m" Ex) (Seq (Acc "x" true) (Rel "m" Ex)))
              (Seq (Acq "m" Sh) (Seq (Acc "y" false) (Rel "m" Sh)))) = 1.
  Proof. vm_compute. reflexivity. Qed.

  Example other_lock_not_counted :
    max_acq pol [] "m" 8 (Seq (Acq "n" Ex) (Seq (Acq "m" Ex) (Seq (Rel "m" Ex) (Rel "n" Ex)))) = 1.
  Proof. vm_compute. reflexivity. Qed.

  (** a call of an analysed function is inlined *)
  Example call_inlined :
    max_acq pol [("f", Seq (Acq "m" Ex) (Seq (Acc "x" true) (Rel "m" Ex)))] "m" 8
      (Seq (Call "e" "f") (Call "log" "printf")) = 1.
  Proof. vm_compute. reflexivity. Qed.

  Example loop_that_locks_is_many :
    max_acq pol [] "m" 8 (Loop (Seq (Acq "m" Ex) (Rel "m" Ex))) = 99.
  Proof. vm_compute. reflexivity. Qed.

  (** [single_section] is applicable to the worker of Conc.Examples, and its
      conclusion is about a real execution. *)
  Example worker2 : stmt :=
    Seq (Acq "m" Ex) (Seq (Acc "x" true) (Seq (Acc "id" true) (Rel "m" Ex))).

  Example worker2_single :
    well_locked pol [] worker2 = true /\ max_acq pol [] "m" 8 worker2 <= 1.
  Proof. split; vm_compute; [reflexivity|lia]. Qed.

  (** the rejected variant: unlock, relock, second access *)
  Example relock_is_two :
    max_acq pol [] "m" 8
      (Seq (Acq "m" Ex) (Seq (Acc "x" true) (Seq (Rel "m" Ex)
        (Seq (Acq "m" Ex) (Seq (Acc "id" true) (Rel "m" Ex)))))) = 2.
  Proof. vm_compute. reflexivity. Qed.
End SSExamples.

(* ================================================================== *)
(** ** 6. Assumptions *)

Print Assumptions max_acq_sound.
Print Assumptions operation_atomic.
Print Assumptions critical_section_atomic.
Print Assumptions operation_atomic_excl.
Print Assumptions single_section.

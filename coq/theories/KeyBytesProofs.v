(** Proofs about the byte-level key encodings of KeyBytes.v: big-endian encoding has fixed
    width, decodes back, and is order preserving (bytes.Compare on the encoded keys = numeric
    order); hence the byte order of the temp-bucket keys is [Index.key_le], and a bbolt
    cursor yields exactly [merge_sort key_le].  Little-endian would not do. *)
From updog Require Import Prelude Index KeyBytes.
From Coq Require Import ZifyN ZifyNat ZifyBool.
Local Open Scope N_scope.

Local Ltac Zify.zify_post_hook ::= Z.div_mod_to_equations.

(** * Powers of 256 *)

Lemma pow256_succ k : 256 ^ N.of_nat (S k) = 256 * 256 ^ N.of_nat k.
Proof. by rewrite Nat2N.inj_succ, N.pow_succ_r'. Qed.

Lemma pow256_pos k : 0 < 256 ^ N.of_nat k.
Proof. apply N.neq_0_lt_0, N.pow_nonzero. done. Qed.

Lemma div256_bound k n : n < 256 ^ N.of_nat (S k) → n / 256 < 256 ^ N.of_nat k.
Proof. rewrite pow256_succ. generalize (256 ^ N.of_nat k). intros P HP. lia. Qed.

Lemma pow_2_64 : 2 ^ 64 = 256 ^ N.of_nat 8.
Proof. reflexivity. Qed.
Lemma pow_2_32 : 2 ^ 32 = 256 ^ N.of_nat 4.
Proof. reflexivity. Qed.

(** * 1. Shape of [be] *)

Lemma be_length k n : length (be k n) = k.
Proof.
  revert n; induction k as [|k IH]; intros n; cbn [be]; [done|].
  rewrite app_length, IH. cbn [length]. lia.
Qed.

Lemma be_bytes k n : Forall (λ b, b < 256) (be k n).
Proof.
  revert n; induction k as [|k IH]; intros n; cbn [be]; [constructor|].
  apply Forall_app; split; [apply IH|].
  constructor; [|constructor]. apply N.mod_lt. done.
Qed.

Lemma le_length k n : length (le k n) = k.
Proof.
  revert n; induction k as [|k IH]; intros n; cbn [le length]; [done|]. by rewrite IH.
Qed.

(** * 2. Decoding *)

Lemma be_fold k n acc rest :
  n < 256 ^ N.of_nat k →
  fold_left (λ acc b, acc * 256 + b) (be k n ++ rest) acc =
  fold_left (λ acc b, acc * 256 + b) rest (acc * 256 ^ N.of_nat k + n).
Proof.
  revert n acc rest; induction k as [|k IH]; intros n acc rest Hn.
  - cbn [be app]. change (256 ^ N.of_nat 0) with 1 in *. f_equal. lia.
  - cbn [be]. rewrite <-app_assoc. rewrite IH by by apply div256_bound.
    cbn [app fold_left]. f_equal. rewrite pow256_succ in *.
    revert Hn. generalize (256 ^ N.of_nat k). intros P HP.
    assert (n = 256 * (n / 256) + n mod 256) as Hdm by lia.
    rewrite Hdm at 3. lia.
Qed.

Theorem be_decode_be k n : n < 256 ^ N.of_nat k → be_decode (be k n) = n.
Proof.
  intros Hn. unfold be_decode.
  rewrite <-(app_nil_r (be k n)), be_fold by done. cbn [fold_left]. lia.
Qed.

Lemma be_inj k n m :
  n < 256 ^ N.of_nat k → m < 256 ^ N.of_nat k → be k n = be k m → n = m.
Proof.
  intros Hn Hm Heq. rewrite <-(be_decode_be k n), <-(be_decode_be k m) by done.
  by rewrite Heq.
Qed.

Lemma be_eqb k n m :
  n < 256 ^ N.of_nat k → m < 256 ^ N.of_nat k → str_eqb (be k n) (be k m) = (n =? m).
Proof.
  intros Hn Hm. destruct (N.eqb_spec n m) as [->|Hne].
  - apply str_eqb_refl.
  - apply str_eqb_neq. intros Heq. by apply be_inj in Heq.
Qed.

(** * 3. Big-endian is order preserving *)

Lemma str_ltb_cons_same x a b : str_ltb (x :: a) (x :: b) = str_ltb a b.
Proof. cbn [str_ltb]. by rewrite N.ltb_irrefl, N.eqb_refl. Qed.

Lemma str_ltb_app a b c d :
  length a = length b →
  str_ltb (a ++ c) (b ++ d) = str_ltb a b || (str_eqb a b && str_ltb c d).
Proof.
  revert b; induction a as [|x a IH]; intros [|y b] Hlen; try done.
  cbn [app str_ltb str_eqb]. rewrite IH by (cbn [length] in Hlen; lia).
  destruct (x <? y), (x =? y); done.
Qed.

Lemma str_ltb_singleton x y : str_ltb [x] [y] = (x <? y).
Proof. cbn [str_ltb]. destruct (x <? y), (x =? y); done. Qed.

Lemma str_ltb_snoc a b x y :
  length a = length b →
  str_ltb (a ++ [x]) (b ++ [y]) = str_ltb a b || (str_eqb a b && (x <? y)).
Proof. intros Hlen. by rewrite str_ltb_app, str_ltb_singleton. Qed.

Theorem be_lt k n m :
  n < 256 ^ N.of_nat k → m < 256 ^ N.of_nat k → str_ltb (be k n) (be k m) = (n <? m).
Proof.
  revert n m; induction k as [|k IH]; intros n m Hn Hm.
  - change (256 ^ N.of_nat 0) with 1 in *. cbn [be str_ltb].
    symmetry. apply N.ltb_ge. lia.
  - cbn [be]. rewrite str_ltb_snoc by by rewrite !be_length.
    apply div256_bound in Hn, Hm.
    rewrite IH, be_eqb by done.
    clear. destruct (N.ltb_spec (n / 256) (m / 256)), (N.eqb_spec (n / 256) (m / 256)),
      (N.ltb_spec (n mod 256) (m mod 256)), (N.ltb_spec n m); cbn [orb andb]; lia.
Qed.

(** * 4. Temp-bucket keys *)

Lemma temp_key_ltb h r h' r' :
  h < 2 ^ 64 → h' < 2 ^ 64 → r < 2 ^ 32 → r' < 2 ^ 32 →
  str_ltb (temp_key h r) (temp_key h' r') = (h <? h') || ((h =? h') && (r <? r')).
Proof.
  intros Hh Hh' Hr Hr'. rewrite pow_2_64 in Hh, Hh'. rewrite pow_2_32 in Hr, Hr'.
  unfold temp_key. rewrite str_ltb_app by by rewrite !be_length.
  by rewrite !be_lt, be_eqb.
Qed.

Theorem temp_key_lt h r h' r' :
  h < 2 ^ 64 → h' < 2 ^ 64 → r < 2 ^ 32 → r' < 2 ^ 32 →
  str_ltb (temp_key h r) (temp_key h' r') = true ↔ (h < h' ∨ (h = h' ∧ r < r')).
Proof.
  intros Hh Hh' Hr Hr'. rewrite temp_key_ltb by done.
  rewrite orb_true_iff, andb_true_iff, !N.ltb_lt, N.eqb_eq. done.
Qed.

Theorem temp_key_decode_key h r :
  h < 2 ^ 64 → r < 2 ^ 32 → temp_key_decode (temp_key h r) = (h, r).
Proof.
  intros Hh Hr. rewrite pow_2_64 in Hh. rewrite pow_2_32 in Hr.
  unfold temp_key_decode, temp_key.
  rewrite take_app_alt, drop_app_alt by by rewrite be_length.
  by rewrite !be_decode_be.
Qed.

Lemma temp_key_length h r : length (temp_key h r) = 12%nat.
Proof. unfold temp_key. by rewrite app_length, !be_length. Qed.

Lemma temp_key_inj h r h' r' :
  h < 2 ^ 64 → h' < 2 ^ 64 → r < 2 ^ 32 → r' < 2 ^ 32 →
  temp_key h r = temp_key h' r' → h = h' ∧ r = r'.
Proof.
  intros Hh Hh' Hr Hr' Heq.
  pose proof (temp_key_decode_key h r Hh Hr) as H1.
  pose proof (temp_key_decode_key h' r' Hh' Hr') as H2.
  rewrite Heq, H2 in H1. by injection H1 as -> ->.
Qed.

(** * 5. The cursor order is the numeric key order *)

Lemma key_bytes_str_le a b : str_le a b ↔ Prelude.str_le a b.
Proof. unfold str_le, str_leb, Prelude.str_le. by destruct (str_ltb b a). Qed.

Local Instance kb_str_le_total : Total str_le.
Proof.
  intros a b. rewrite !key_bytes_str_le. apply (total Prelude.str_le).
Qed.
Local Instance kb_str_le_trans : Transitive str_le.
Proof.
  intros a b c. rewrite !key_bytes_str_le. apply (transitivity (R:=Prelude.str_le)).
Qed.
Local Instance kb_str_le_antisym : AntiSymm (=) str_le.
Proof. intros a b. rewrite !key_bytes_str_le. apply str_le_antisym. Qed.

Local Instance kb_key_le_trans : Transitive key_le.
Proof. intros [a1 a2] [b1 b2] [c1 c2]. unfold key_le. cbn [fst snd]. lia. Qed.
Local Instance kb_key_le_total : Total key_le.
Proof. intros [a1 a2] [b1 b2]. unfold key_le. cbn [fst snd]. lia. Qed.

Definition key_ok (k : N * N) : Prop := k.1 < 2 ^ 64 ∧ k.2 < 2 ^ 32.

(** On keys within the uint64/uint32 ranges, the byte order of the encodings is [key_le]. *)
Lemma key_le_str_le a b :
  key_ok a → key_ok b → (key_le a b ↔ str_le (temp_key a.1 a.2) (temp_key b.1 b.2)).
Proof.
  destruct a as [h r], b as [h' r']. unfold key_ok, key_le, str_le, str_leb. cbn [fst snd].
  intros [Hh Hr] [Hh' Hr']. rewrite temp_key_ltb by done.
  destruct (N.ltb_spec h' h), (N.eqb_spec h' h), (N.ltb_spec r' r); cbn [orb andb negb]; lia.
Qed.

Lemma StronglySorted_temp_keys l :
  Forall key_ok l → StronglySorted key_le l →
  StronglySorted str_le (map (λ k, temp_key k.1 k.2) l).
Proof.
  intros Hok Hs. induction Hs as [|a l Hs IH Hall]; cbn [map]; [constructor|].
  apply Forall_cons in Hok as [Ha Hok]. constructor; [by apply IH|].
  apply Forall_fmap. rewrite Forall_forall in Hok, Hall. apply Forall_forall.
  intros b Hb. cbn. apply key_le_str_le; auto.
Qed.

(** [NoDup] is not needed: [key_le] and the byte order agree also on equal keys. *)
Theorem cursor_order_is_key_order_nodup_free (l : list (N * N)) :
  Forall (λ k, k.1 < 2 ^ 64 ∧ k.2 < 2 ^ 32) l →
  map (λ k, temp_key k.1 k.2) (merge_sort key_le l) =
  cursor_order (map (λ k, temp_key k.1 k.2) l).
Proof.
  intros Hok. unfold cursor_order. apply (StronglySorted_unique str_le).
  - apply StronglySorted_temp_keys.
    + by rewrite merge_sort_Permutation.
    + apply StronglySorted_merge_sort; apply _.
  - apply StronglySorted_merge_sort; apply _.
  - by rewrite !merge_sort_Permutation.
Qed.

Theorem cursor_order_is_key_order (l : list (N * N)) :
  Forall (λ k, k.1 < 2 ^ 64 ∧ k.2 < 2 ^ 32) l → NoDup l →
  map (λ k, temp_key k.1 k.2) (merge_sort key_le l) =
  cursor_order (map (λ k, temp_key k.1 k.2) l).
Proof. intros Hok _. by apply cursor_order_is_key_order_nodup_free. Qed.

(** Specialised to the model of the big writer: iterating the temp bucket. *)
Corollary temp_keys_cursor_order (st : bstate) :
  Forall (λ k, k.1 < 2 ^ 64 ∧ k.2 < 2 ^ 32) (b_temp st) →
  map (λ k, temp_key k.1 k.2) (temp_keys st) =
  cursor_order (map (λ k, temp_key k.1 k.2) (b_temp st)).
Proof. apply cursor_order_is_key_order_nodup_free. Qed.

(** * 6. Data bucket: header keys come before value keys; value keys in numeric order *)

Theorem header_keys_before_values h :
  str_ltb key_count (value_key h) = true ∧
  str_ltb key_schema (value_key h) = true ∧
  str_ltb key_count key_schema = true.
Proof. repeat split; reflexivity. Qed.

Theorem value_key_lt h h' :
  h < 2 ^ 64 → h' < 2 ^ 64 → str_ltb (value_key h) (value_key h') = (h <? h').
Proof.
  intros Hh Hh'. rewrite pow_2_64 in Hh, Hh'. unfold value_key.
  rewrite str_ltb_cons_same. by apply be_lt.
Qed.

Lemma value_key_inj h h' : h < 2 ^ 64 → h' < 2 ^ 64 → value_key h = value_key h' → h = h'.
Proof.
  intros Hh Hh' Heq. rewrite pow_2_64 in Hh, Hh'.
  apply (f_equal tail) in Heq. unfold value_key in Heq. cbn [tail] in Heq.
  by apply be_inj in Heq.
Qed.

Lemma count_value_decode n : n < 2 ^ 32 → be_decode (count_value n) = n.
Proof. intros Hn. rewrite pow_2_32 in Hn. by apply be_decode_be. Qed.

(** * 7. Little-endian keys would not be in numeric order *)

Theorem little_endian_refuted :
  ∃ n m, n < m ∧ m < 2 ^ 64 ∧ str_ltb (le 8 n) (le 8 m) = false.
Proof. exists 1, 256. repeat split; vm_compute; reflexivity. Qed.

(** * 8. Non-vacuity *)

Example temp_key_big :
  temp_key (2 ^ 63 + 5) (2 ^ 32 - 1) =
  [128; 0; 0; 0; 0; 0; 0; 5; 255; 255; 255; 255].
Proof. vm_compute; reflexivity. Qed.

Example temp_key_big_decode :
  temp_key_decode (temp_key (2 ^ 64 - 1) (2 ^ 32 - 1)) = (2 ^ 64 - 1, 2 ^ 32 - 1).
Proof. vm_compute; reflexivity. Qed.

Example temp_key_big_lt :
  str_ltb (temp_key (2 ^ 63) (2 ^ 32 - 1)) (temp_key (2 ^ 63 + 1) 0) = true ∧
  str_ltb (temp_key (2 ^ 63 - 1) (2 ^ 32 - 1)) (temp_key (2 ^ 63) 0) = true ∧
  str_ltb (temp_key (2 ^ 63) 0) (temp_key (2 ^ 63 - 1) (2 ^ 32 - 1)) = false.
Proof. vm_compute. done. Qed.

Example value_key_big : value_key (2 ^ 63) = [86; 128; 0; 0; 0; 0; 0; 0; 0].
Proof. vm_compute; reflexivity. Qed.

Definition ex_keys : list (N * N) :=
  [(2 ^ 63, 7); (256, 2 ^ 32 - 1); (1, 300); (256, 0); (2 ^ 63, 7)].

Example ex_keys_ok : Forall (λ k, k.1 < 2 ^ 64 ∧ k.2 < 2 ^ 32) ex_keys.
Proof. repeat constructor. Qed.

Example ex_keys_sorted :
  merge_sort key_le ex_keys =
  [(1, 300); (256, 0); (256, 2 ^ 32 - 1); (2 ^ 63, 7); (2 ^ 63, 7)].
Proof. vm_compute; reflexivity. Qed.

Example ex_cursor_order :
  map (λ k, temp_key k.1 k.2) (merge_sort key_le ex_keys) =
  cursor_order (map (λ k, temp_key k.1 k.2) ex_keys).
Proof. vm_compute; reflexivity. Qed.

Example ex_cursor_order_value :
  cursor_order (map (λ k, temp_key k.1 k.2) ex_keys) =
  [ [0; 0; 0; 0; 0; 0; 0; 1; 0; 0; 1; 44];
    [0; 0; 0; 0; 0; 0; 1; 0; 0; 0; 0; 0];
    [0; 0; 0; 0; 0; 0; 1; 0; 255; 255; 255; 255];
    [128; 0; 0; 0; 0; 0; 0; 0; 0; 0; 0; 7];
    [128; 0; 0; 0; 0; 0; 0; 0; 0; 0; 0; 7] ].
Proof. vm_compute; reflexivity. Qed.

(** With little-endian keys the cursor would not yield the numeric order. *)
Example ex_little_endian_cursor :
  map (λ k, le 8 k.1 ++ le 4 k.2) (merge_sort key_le ex_keys) ≠
  cursor_order (map (λ k, le 8 k.1 ++ le 4 k.2) ex_keys).
Proof. vm_compute. discriminate. Qed.

Print Assumptions be_length.
Print Assumptions be_bytes.
Print Assumptions be_decode_be.
Print Assumptions be_lt.
Print Assumptions temp_key_lt.
Print Assumptions temp_key_decode_key.
Print Assumptions cursor_order_is_key_order.
Print Assumptions cursor_order_is_key_order_nodup_free.
Print Assumptions header_keys_before_values.
Print Assumptions value_key_lt.
Print Assumptions little_endian_refuted.

(** End-to-end assembly of the data-plane results: writer → store → open → execute, for both
    writers and both open modes (used by Props/C01, C02, C05, C08). *)
From updog Require Import Prelude Index IndexProofs BigProofs SchemaProofs GroupByProofs.
Local Open Scope N_scope.

Section DataPlane.
Context (H : list N → N) (H_inj : Inj (=) (=) H).

(** Whatever the writer and the open mode, the opened index represents the rows. *)
Lemma built_index_rep rows w preload :
  N.of_nat (length rows) < 2^32 →
  ∃ ix, out_bind (build_store H w rows) (open_index preload) = Ok ix ∧ IxRep H rows ix.
Proof.
  intros Hlen. destruct w.
  - cbn [build_store out_bind].
    apply (mem_index_rep H rows preload (map_to_list (w_vals (w_add_rows H w_init rows).2)) Hlen).
    done.
  - rewrite big_store_eq_mem. cbn [build_store out_bind].
    apply (mem_index_rep H rows preload (map_to_list (w_vals (w_add_rows H w_init rows).2)) Hlen).
    done.
Qed.

Lemma run_query_unfold rows w preload q ix :
  out_bind (build_store H w rows) (open_index preload) = Ok ix →
  run_query H w preload rows q = execute H ix q.
Proof.
  unfold run_query. intros Hix. destruct (build_store H w rows) as [s| | |]; simpl in *; try done.
  by rewrite Hix.
Qed.

Lemma execute_no_group_by ix e :
  execute H ix (Query e []) = out_bind (eval H ix e) (λ b, Ok (Result (bm_card b) (group_by ix [] b))).
Proof. reflexivity. Qed.

Lemma run_query_count rows e w preload :
  rows_nul_free rows → expr_nul_free e → N.of_nat (length rows) < 2^32 → nonempty_ops e = true →
  out_map r_count (run_query H w preload rows (Query e [])) = spec_count rows e.
Proof.
  intros Hnf Henf Hlen Hne. destruct (built_index_rep rows w preload Hlen) as (ix & Hix & HR).
  rewrite (run_query_unfold rows w preload _ ix Hix), execute_no_group_by.
  by apply (execute_count H H_inj).
Qed.

Lemma mem_order_count rows e preload order :
  rows_nul_free rows → expr_nul_free e → N.of_nat (length rows) < 2^32 → nonempty_ops e = true →
  order ≡ₚ map_to_list (w_vals (w_add_rows H w_init rows).2) →
  out_map r_count (out_bind (open_index preload (final_store (mem_flush_txs (w_add_rows H w_init rows).2 order)))
                            (λ ix, execute H ix (Query e [])))
  = spec_count rows e.
Proof.
  intros Hnf Henf Hlen Hne Hperm.
  destruct (mem_index_rep H rows preload order Hlen Hperm) as (ix & -> & HR).
  cbn [out_bind]. rewrite execute_no_group_by. by apply (execute_count H H_inj).
Qed.

Lemma run_query_unknown rows e w preload :
  rows_nul_free rows → expr_nul_free e → N.of_nat (length rows) < 2^32 → nonempty_ops e = true →
  known_columns rows e = false → run_query H w preload rows (Query e []) = Err.
Proof.
  intros Hnf Henf Hlen Hne Hk.
  pose proof (run_query_count rows e w preload Hnf Henf Hlen Hne) as Hc.
  unfold spec_count in Hc. rewrite Hk in Hc.
  destruct (run_query H w preload rows (Query e [])) as [r| | |] eqn:E; simpl in Hc; congruence.
Qed.

(** The whole result (count and groups, or the error) is the specification's. *)
Lemma run_query_spec rows w preload q :
  N.of_nat (length rows) < 2^32 → rows_nul_free rows →
  expr_nul_free (q_expr q) → nonempty_ops (q_expr q) = true →
  run_query H w preload rows q = spec_execute rows q.
Proof.
  intros Hlen Hnf Henf Hne. destruct (built_index_rep rows w preload Hlen) as (ix & Hix & HR).
  rewrite (run_query_unfold rows w preload q ix Hix).
  by apply (execute_spec_strong H H_inj).
Qed.

Lemma built_schema rows w preload ix :
  N.of_nat (length rows) < 2^32 →
  out_bind (build_store H w rows) (open_index preload) = Ok ix →
  get_schema ix = spec_schema rows ∧ ix_next ix = N.of_nat (length rows).
Proof.
  intros Hlen Hopen. destruct (built_index_rep rows w preload Hlen) as (ix' & Hix & HR).
  rewrite Hix in Hopen. injection Hopen as <-. split; [by apply (get_schema_spec H)|apply (ir_next _ _ _ HR)].
Qed.

End DataPlane.

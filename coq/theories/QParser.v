(** Model of the text layer (internal/queryparser): the byte-level lexer, the
    recursive-descent parser, string/placeholder decoding, the formatter, normalisation and
    placeholder binding — and the grammar of the file header as an inductive specification.
    No proofs in this file. *)
From updog Require Import Prelude.
Local Open Scope N_scope.

(** * Tokens (the items the lexer goroutine sends) *)
Inductive tok :=
| TLP | TRP | TAnd | TOr | TNot | TEq | TComma | TSemi
| TField (s : str)          (* identifier *)
| TValue (raw : str)        (* the raw lexeme, both quotes included *)
| TPh (raw : str)           (* the raw lexeme, '$' included *)
| TEOF
| TError.

Definition tok_eqb (a b : tok) : bool :=
  match a, b with
  | TLP, TLP | TRP, TRP | TAnd, TAnd | TOr, TOr | TNot, TNot | TEq, TEq
  | TComma, TComma | TSemi, TSemi | TEOF, TEOF | TError, TError => true
  | TField x, TField y | TValue x, TValue y | TPh x, TPh y => str_eqb x y
  | _, _ => false
  end.

(** * Lexer *)
Definition is_ws (b : N) : bool := (b =? 32) || (b =? 10) || (b =? 13) || (b =? 9).
Definition is_upper (b : N) : bool := (65 <=? b) && (b <=? 90).
Definition is_lower (b : N) : bool := (97 <=? b) && (b <=? 122).
Definition is_alpha (b : N) : bool := is_upper b || is_lower b.
Definition is_digit (b : N) : bool := (48 <=? b) && (b <=? 57).
Definition is_ident (b : N) : bool := is_alpha b || is_digit b || (b =? 95).
Definition quote : N := 34.
Definition dollar : N := 36.

Definition single_tok (b : N) : option tok :=
  if b =? 40 then Some TLP else if b =? 41 then Some TRP else if b =? 38 then Some TAnd
  else if b =? 124 then Some TOr else if b =? 94 then Some TNot else if b =? 44 then Some TComma
  else if b =? 59 then Some TSemi else if b =? 61 then Some TEq else None.

(** The state functions of the lexer: [MText] = lexText, [MField] = inside lexField's
    acceptRun, [MPh] = inside lexPlaceholder's acceptRun, [MValue] = inside a quoted value,
    [MValueQ] = a quote was just read inside a value (it is either the first half of a
    doubled quote or the closing quote). *)
Inductive lmode := MText | MField | MPh | MValue | MValueQ.

(** [acc] is the current lexeme, reversed.  The stream always ends with exactly one [TEOF]
    or [TError]: an unknown byte in text mode and a value whose closing quote is missing are
    lexer errors. *)
Fixpoint lex_go (m : lmode) (acc : str) (s : str) : list tok :=
  match s with
  | [] =>
      match m with
      | MText => [TEOF]
      | MField => [TField (rev acc); TEOF]
      | MPh => [TPh (rev acc); TEOF]
      | MValue => [TError]
      | MValueQ => [TValue (rev acc); TEOF]
      end
  | b :: s' =>
      let text_b := fun _ : unit =>     (* a thunk: evaluated only in the branches that use it *)
        if is_ws b then lex_go MText [] s'
        else match single_tok b with
             | Some t => t :: lex_go MText [] s'
             | None =>
                 if is_alpha b then lex_go MField [b] s'
                 else if b =? quote then lex_go MValue [b] s'
                 else if b =? dollar then lex_go MPh [b] s'
                 else [TError]
             end in
      match m with
      | MText => text_b tt
      | MField => if is_ident b then lex_go MField (b :: acc) s' else TField (rev acc) :: text_b tt
      | MPh => if is_digit b then lex_go MPh (b :: acc) s' else TPh (rev acc) :: text_b tt
      | MValue => if b =? quote then lex_go MValueQ (b :: acc) s' else lex_go MValue (b :: acc) s'
      | MValueQ => if b =? quote then lex_go MValue (b :: acc) s' else TValue (rev acc) :: text_b tt
      end
  end.

Definition lex (s : str) : list tok := lex_go MText [] s.

(** * Syntax trees (proto.Query) *)
Inductive pexpr :=
| PEq (c v : str) (ph : N)       (* ph = 0: literal [v]; ph > 0: placeholder $ph *)
| PNot (e : pexpr)
| PAnd (es : list pexpr)
| POr (es : list pexpr).

Record pquery := PQuery { pq_expr : pexpr; pq_group_by : list str }.

(** [decodeString]: strip the enclosing quotes, then replace every
    doubled quote by one quote (strings.ReplaceAll: leftmost, non-overlapping). *)
Fixpoint unescape (s : str) : str :=
  match s with
  | [] => []
  | a :: r => match r with
              | b :: r' => if (a =? quote) && (b =? quote) then quote :: unescape r'
                           else a :: unescape r
              | [] => [a]
              end
  end.

Definition strip_quotes (raw : str) : str :=
  match raw with
  | [] | [_] => raw
  | a :: r =>
      let s := if a =? quote then r else raw in
      match rev s with
      | z :: s' => if z =? quote then rev s' else s
      | [] => s
      end
  end.

Definition decode_string (raw : str) : str :=
  match raw with
  | [] | [_] => raw
  | _ => unescape (strip_quotes raw)
  end.

(** Decimal value of a digit string. *)
Definition digits_val (ds : str) : N := fold_left (λ acc d, 10 * acc + (d - 48)) ds 0.

Definition max_placeholder : N := 2147483647.

(** [decodePlaceholder] + the range test: a dollar sign followed by digits denoting 1 .. 2^31-1. *)
Definition decode_placeholder (raw : str) : option N :=
  match raw with
  | _ :: ds => match ds with
               | [] => None
               | _ => let n := digits_val ds in
                      if (1 <=? n) && (n <=? max_placeholder) then Some n else None
               end
  | [] => None
  end.

(** * Parser *)
Inductive res (A : Type) := Fuel | Bad | Good (a : A).
Arguments Fuel {A}.
Arguments Bad {A}.
Arguments Good {A} a.

(** One-token look-ahead recursive descent; every function returns the remaining tokens.
    Written with explicit fuel (the recursion through parentheses is not structural);
    [parse_tokens] supplies enough. *)
Fixpoint parse_simple (fuel : nat) (ts : list tok) : res (pexpr * list tok) :=
  match fuel with
  | O => Fuel
  | S f =>
      match ts with
      | TLP :: r =>
          match parse_expr_aux f r with
          | Good (e, TRP :: r') => Good (e, r')
          | Good _ => Bad
          | Bad => Bad
          | Fuel => Fuel
          end
      | TNot :: r =>
          match parse_simple f r with
          | Good (e, r') => Good (PNot e, r')
          | Bad => Bad
          | Fuel => Fuel
          end
      | TField c :: TEq :: TValue raw :: r => Good (PEq c (decode_string raw) 0, r)
      | TField c :: TEq :: TPh raw :: r =>
          match decode_placeholder raw with
          | Some n => Good (PEq c [] n, r)
          | None => Bad
          end
      | _ => Bad
      end
  end
with parse_expr_aux (fuel : nat) (ts : list tok) : res (pexpr * list tok) :=
  match fuel with
  | O => Fuel
  | S f =>
      match parse_simple f ts with
      | Good (e, r) =>
          match r with
          | TAnd :: _ =>
              match parse_chain f TAnd [e] r with
              | Good (es, r') => Good (PAnd es, r')
              | Bad => Bad
              | Fuel => Fuel
              end
          | TOr :: _ =>
              match parse_chain f TOr [e] r with
              | Good (es, r') => Good (POr es, r')
              | Bad => Bad
              | Fuel => Fuel
              end
          | _ => Good (e, r)
          end
      | Bad => Bad
      | Fuel => Fuel
      end
  end
with parse_chain (fuel : nat) (op : tok) (acc : list pexpr) (ts : list tok) : res (list pexpr * list tok) :=
  match fuel with
  | O => Fuel
  | S f =>
      match ts with
      | t :: r =>
          if tok_eqb t op then
            match parse_simple f r with
            | Good (e, r') => parse_chain f op (acc ++ [e]) r'
            | Bad => Bad
            | Fuel => Fuel
            end
          else Good (acc, ts)
      | [] => Good (acc, ts)
      end
  end.

(** field-list ::= field { ',' field } *)
Fixpoint parse_fields_more (ts : list tok) : res (list str * list tok) :=
  match ts with
  | TComma :: TField c :: r =>
      match parse_fields_more r with
      | Good (cs, r') => Good (c :: cs, r')
      | x => x
      end
  | TComma :: _ => Bad
  | _ => Good ([], ts)
  end.

Definition parse_fields (ts : list tok) : res (list str * list tok) :=
  match ts with
  | TField c :: r =>
      match parse_fields_more r with
      | Good (cs, r') => Good (c :: cs, r')
      | x => x
      end
  | _ => Bad
  end.

(** query ::= expr [ ';' field-list ], followed by the end of the input. *)
Definition parse_tokens_fuel (fuel : nat) (ts : list tok) : res pquery :=
  match parse_expr_aux fuel ts with
  | Good (e, r) =>
      match r with
      | [TEOF] => Good (PQuery e [])
      | TSemi :: r' =>
          match parse_fields r' with
          | Good (cs, [TEOF]) => Good (PQuery e cs)
          | Good _ => Bad
          | Bad => Bad
          | Fuel => Fuel
          end
      | _ => Bad
      end
  | Bad => Bad
  | Fuel => Fuel
  end.

Definition parse_fuel (ts : list tok) : nat := 2 * length ts + 4.

Definition parse_tokens (ts : list tok) : res pquery := parse_tokens_fuel (parse_fuel ts) ts.

(** [ParseQuery]: [Panic] would be a Go run-time panic escaping, [Hang] non-termination;
    fuel exhaustion is mapped to [Hang] (and proved impossible). *)
Definition parse_query (s : str) : outcome pquery :=
  match parse_tokens (lex s) with
  | Good q => Ok q
  | Bad => Err
  | Fuel => Hang
  end.

(** * The grammar of the file header, over tokens *)
Inductive G_simple : list tok → pexpr → Prop :=
| Gs_lit c raw : G_simple [TField c; TEq; TValue raw] (PEq c (decode_string raw) 0)
| Gs_ph c raw n : decode_placeholder raw = Some n → G_simple [TField c; TEq; TPh raw] (PEq c [] n)
| Gs_not ts e : G_simple ts e → G_simple (TNot :: ts) (PNot e)
| Gs_group ts e : G_expr ts e → G_simple (TLP :: ts ++ [TRP]) e
with G_chain : tok → list tok → list pexpr → Prop :=
| Gc_two op ts1 e1 ts2 e2 : G_simple ts1 e1 → G_simple ts2 e2 → G_chain op (ts1 ++ op :: ts2) [e1; e2]
| Gc_more op ts es ts' e : G_chain op ts es → G_simple ts' e → G_chain op (ts ++ op :: ts') (es ++ [e])
with G_expr : list tok → pexpr → Prop :=
| Ge_simple ts e : G_simple ts e → G_expr ts e
| Ge_and ts es : G_chain TAnd ts es → G_expr ts (PAnd es)
| Ge_or ts es : G_chain TOr ts es → G_expr ts (POr es).

Inductive G_fields : list tok → list str → Prop :=
| Gf_one c : G_fields [TField c] [c]
| Gf_more ts cs c : G_fields ts cs → G_fields (ts ++ [TComma; TField c]) (cs ++ [c]).

Inductive G_query : list tok → pquery → Prop :=
| Gq_plain ts e : G_expr ts e → G_query ts (PQuery e [])
| Gq_group ts e fs cs : G_expr ts e → G_fields fs cs → G_query (ts ++ TSemi :: fs) (PQuery e cs).

(** A token list as the lexer can produce it before the final [TEOF]. *)
Definition plain_tok (t : tok) : Prop := t ≠ TEOF ∧ t ≠ TError.

(** * Formatter (queryformatter.go) *)
Definition sp : N := 32.

Fixpoint escape (s : str) : str :=
  match s with
  | [] => []
  | a :: r => if a =? quote then quote :: quote :: escape r else a :: escape r
  end.

Definition format_string (s : str) : str := quote :: escape s ++ [quote].

(** Decimal digits of a positive number ([%d]), most significant first. *)
Fixpoint digits_fuel (fuel : nat) (n : N) (acc : str) : str :=
  match fuel with
  | O => acc
  | S f => let acc' := (48 + n `mod` 10) :: acc in
           if n <? 10 then acc' else digits_fuel f (n / 10) acc'
  end.
Definition decimal (n : N) : str := digits_fuel (S (N.to_nat (N.log2 n))) n [].

Definition is_and (e : pexpr) : bool := match e with PAnd _ => true | _ => false end.
Definition is_or (e : pexpr) : bool := match e with POr _ => true | _ => false end.

Definition parens (b : bool) (s : str) : str := if b then [40; sp] ++ s ++ [sp; 41] else s.

Fixpoint join (sep : str) (l : list str) : str :=
  match l with
  | [] => []
  | [x] => x
  | x :: r => x ++ sep ++ join sep r
  end.

Fixpoint format_expr (e : pexpr) : str :=
  match e with
  | PEq c v ph =>
      if 0 <? ph then c ++ [sp; 61; sp; dollar] ++ decimal ph
      else c ++ [sp; 61; sp] ++ format_string v
  | PNot e' => [94; sp] ++ parens (is_and e' || is_or e') (format_expr e')
  | PAnd es => join [sp; 38; sp] (map (λ e', parens (is_or e') (format_expr e')) es)
  | POr es => join [sp; 124; sp] (map (λ e', parens (is_and e') (format_expr e')) es)
  end.

Definition format_query (q : pquery) : str :=
  format_expr (pq_expr q) ++
  match pq_group_by q with
  | [] => []
  | cs => [sp; 59; sp] ++ join [44; sp] cs
  end.

(** * Well-formed trees and normalisation (C10) *)
Definition ident (s : str) : bool :=
  match s with
  | b :: r => is_alpha b && forallb is_ident r
  | [] => false
  end.

Fixpoint wf_expr (e : pexpr) : bool :=
  match e with
  | PEq c v ph => ident c && ((ph =? 0) || (bool_decide (v = []) && (ph <=? max_placeholder)))
  | PNot e' => wf_expr e'
  | PAnd es | POr es => negb (bool_decide (es = [])) && forallb wf_expr es
  end.

Definition wf_query (q : pquery) : bool := wf_expr (pq_expr q) && forallb ident (pq_group_by q).

(** Flatten directly nested nodes of the same operator, unwrap single-operand AND/OR. *)
Fixpoint norm (e : pexpr) : pexpr :=
  match e with
  | PEq c v ph => PEq c v ph
  | PNot e' => PNot (norm e')
  | PAnd es =>
      match flat_map (λ e', match norm e' with PAnd l => l | x => [x] end) es with
      | [x] => x
      | l => PAnd l
      end
  | POr es =>
      match flat_map (λ e', match norm e' with POr l => l | x => [x] end) es with
      | [x] => x
      | l => POr l
      end
  end.

(** * Placeholder binding (walk.go ReplacePlaceholders + the driver's argument check) *)
Fixpoint max_ph (e : pexpr) : N :=
  match e with
  | PEq _ _ ph => ph
  | PNot e' => max_ph e'
  | PAnd es | POr es => fold_right N.max 0 (map max_ph es)
  end.

(** In-range placeholders are replaced by their argument; nothing else changes (an
    out-of-range placeholder is left in place). *)
Fixpoint subst (args : list str) (e : pexpr) : pexpr :=
  match e with
  | PEq c v ph =>
      if 0 <? ph then
        match args !! N.to_nat (ph - 1) with
        | Some a => PEq c a 0
        | None => PEq c v ph
        end
      else PEq c v ph
  | PNot e' => PNot (subst args e')
  | PAnd es => PAnd (map (subst args) es)
  | POr es => POr (map (subst args) es)
  end.

(** The statement paths of the driver: too few arguments is an error. *)
Definition bind (e : pexpr) (args : list str) : outcome pexpr :=
  if max_ph e <=? N.of_nat (length args) then Ok (subst args e) else Err.

(** What binding must do, as a relation. *)
Inductive Subst (args : list str) : pexpr → pexpr → Prop :=
| Sub_lit c v : Subst args (PEq c v 0) (PEq c v 0)
| Sub_ph c v ph a : 0 < ph → args !! N.to_nat (ph - 1) = Some a → Subst args (PEq c v ph) (PEq c a 0)
| Sub_not e e' : Subst args e e' → Subst args (PNot e) (PNot e')
| Sub_and es es' : Forall2 (Subst args) es es' → Subst args (PAnd es) (PAnd es')
| Sub_or es es' : Forall2 (Subst args) es es' → Subst args (POr es) (POr es').

(** Proofs about the LRU model (property C07 and the cache contract used by C03/C04). *)
From updog Require Import Prelude LRU.
From Coq Require Import ZifyN ZifyNat ZifyBool.
Local Open Scope N_scope.

Definition keys (es : list entry) : list N := e_key <$> es.

(** * Basic list facts *)

Lemma find_key_Some k es e : find_key k es = Some e → e ∈ es ∧ e_key e = k.
Proof.
  induction es as [|x es IH]; simpl; [done|].
  destruct (N.eqb_spec (e_key x) k) as [Hk|Hk].
  - intros [= ->]. split; [left|done].
  - intros H. destruct (IH H). split; [by right|done].
Qed.

Lemma find_key_None k es : find_key k es = None ↔ k ∉ keys es.
Proof.
  induction es as [|x es IH]; simpl.
  - split; [intros _; apply not_elem_of_nil|done].
  - destruct (N.eqb_spec (e_key x) k) as [Hk|Hk].
    + split; [done|]. intros H. exfalso. apply H. rewrite <- Hk. left.
    + rewrite IH. rewrite not_elem_of_cons. naive_solver.
Qed.

Lemma find_key_in k es e : NoDup (keys es) → e ∈ es → e_key e = k → find_key k es = Some e.
Proof.
  induction es as [|x es IH]; simpl; intros Hnd Hin Hk; [by apply elem_of_nil in Hin|].
  apply NoDup_cons in Hnd as [Hx Hnd].
  apply elem_of_cons in Hin as [->|Hin].
  - rewrite Hk, N.eqb_refl. done.
  - destruct (N.eqb_spec (e_key x) k) as [Hk'|Hk'].
    + exfalso. apply Hx. rewrite Hk', <- Hk. by apply elem_of_list_fmap_1.
    + by apply IH.
Qed.

Lemma keys_app a b : keys (a ++ b) = keys a ++ keys b.
Proof. apply fmap_app. Qed.

Lemma keys_drop m es : keys (drop m es) = drop m (keys es).
Proof. apply fmap_drop. Qed.

Lemma keys_remove k es : keys (remove_key k es) = filter (λ x, x ≠ k) (keys es).
Proof.
  induction es as [|x es IH]; [done|]. unfold remove_key in *. simpl.
  rewrite !filter_cons. destruct (decide (e_key x ≠ k)); simpl; by rewrite IH.
Qed.

Lemma remove_key_notin k es : k ∉ keys es → remove_key k es = es.
Proof.
  induction es as [|x es IH]; [done|]. simpl. rewrite not_elem_of_cons. intros [H1 H2].
  unfold remove_key in *. rewrite filter_cons. destruct (decide (e_key x ≠ k)); [|done].
  by rewrite IH.
Qed.

Lemma filter_ne_notin (k : N) (l : list N) : k ∉ l → filter (λ x, x ≠ k) l = l.
Proof.
  induction l as [|x l IH]; [done|]. rewrite not_elem_of_cons. intros [H1 H2].
  rewrite filter_cons. destruct (decide (x ≠ k)); [|done]. by rewrite IH.
Qed.

Lemma sum_cost_app o a b : sum_cost o (a ++ b) = sum_cost o a + sum_cost o b.
Proof. induction a as [|x a IH]; simpl; [done|]. rewrite IH. lia. Qed.

Lemma sum_cost_remove o k es e :
  NoDup (keys es) → e ∈ es → e_key e = k →
  sum_cost o es = sum_cost o (remove_key k es) + cost o e.
Proof.
  induction es as [|x es IH]; simpl; intros Hnd Hin Hk; [by apply elem_of_nil in Hin|].
  apply NoDup_cons in Hnd as [Hx Hnd]. unfold remove_key in *. rewrite filter_cons.
  apply elem_of_cons in Hin as [->|Hin].
  - destruct (decide (e_key x ≠ k)); [done|].
    fold (remove_key k es). rewrite remove_key_notin; [lia|]. by rewrite <- Hk.
  - destruct (decide (e_key x ≠ k)) as [Hne|Heq].
    + simpl. rewrite (IH Hnd Hin Hk). lia.
    + exfalso. apply Hx. apply dec_stable in Heq. rewrite Heq, <- Hk.
      by apply elem_of_list_fmap_1.
Qed.

Lemma sum_size_le_cost o es : sum_size es ≤ sum_cost o es.
Proof. induction es as [|x es IH]; simpl; [lia|]. unfold cost. lia. Qed.

(** * The eviction loop *)

Lemma evict_spec max o es c :
  c = sum_cost o es →
  ∃ m, fst (evict max o es c) = drop m es
     ∧ snd (evict max o es c) = sum_cost o (drop m es)
     ∧ snd (evict max o es c) ≤ max
     ∧ (c ≤ max → m = 0%nat).
Proof.
  revert c; induction es as [|e es IH]; intros c Hc; simpl.
  - exists 0%nat. simpl in *. repeat split; lia.
  - destruct (N.ltb_spec max c) as [Hlt|Hle].
    + destruct (IH (c - cost o e)) as (m & H1 & H2 & H3 & H4); [simpl in Hc; lia|].
      exists (S m). simpl. repeat split; try done. lia.
    + exists 0%nat. simpl. repeat split; try done.
Qed.

(** If the most recently used entry alone fits, it survives the eviction loop. *)
Lemma evict_keeps_last max o es e :
  cost o e ≤ max →
  ∃ es', fst (evict max o (es ++ [e]) (sum_cost o (es ++ [e]))) = es' ++ [e].
Proof.
  intros He. induction es as [|x es IH]; simpl.
  - destruct (N.ltb_spec max (cost o e + 0)); [lia|]. by exists [].
  - destruct (N.ltb_spec max (cost o x + sum_cost o (es ++ [e]))).
    + replace (cost o x + sum_cost o (es ++ [e]) - cost o x) with (sum_cost o (es ++ [e])) by lia.
      apply IH.
    + by exists (x :: es).
Qed.

(** * The invariant *)

Record Inv (s : lru) : Prop := {
  inv_nodup : NoDup (keys (entries s));
  inv_cur : cur s = sum_cost (ovh s) (entries s);
  inv_bound : cur s ≤ maxsz s
}.

Lemma inv_init max o : Inv (lru_init max o).
Proof. split; simpl; [constructor|done|lia]. Qed.

Lemma NoDup_drop {A} (l : list A) m : NoDup l → NoDup (drop m l).
Proof. intros H. rewrite <- (take_drop m l) in H. by apply NoDup_app in H as (_ & _ & ?). Qed.

Lemma nodup_touch (k : N) (l : list N) : NoDup l → NoDup (filter (λ x, x ≠ k) l ++ [k]).
Proof.
  intros H. apply NoDup_app. split; [by apply NoDup_filter|]. split; [|apply NoDup_singleton].
  intros x Hx Hk. apply elem_of_list_singleton in Hk as ->.
  apply elem_of_list_filter in Hx as [Hx _]. done.
Qed.

(** The entry list right before the eviction loop of [Put], on the level of keys. *)
Lemma put_pre_keys s k sz b :
  Inv s →
  let pre := match find_key k (entries s) with
             | Some old => (remove_key k (entries s) ++ [Entry k sz b], cur s - e_size old + sz)
             | None => (entries s ++ [Entry k sz b], cur s + cost (ovh s) (Entry k sz b))
             end in
  keys (fst pre) = touch (keys (entries s)) k
  ∧ snd pre = sum_cost (ovh s) (fst pre)
  ∧ snd pre ≤ cur s + sz + ovh s.
Proof.
  intros [Hnd Hcur Hb]. destruct (find_key k (entries s)) as [old|] eqn:Hf; simpl.
  - apply find_key_Some in Hf as [Hin Hk].
    rewrite keys_app, keys_remove. split; [done|].
    rewrite sum_cost_app. simpl.
    rewrite (sum_cost_remove (ovh s) k (entries s) old Hnd Hin Hk) in Hcur.
    unfold cost in *. simpl. split; lia.
  - apply find_key_None in Hf. rewrite keys_app. unfold touch.
    rewrite filter_ne_notin by done. split; [done|].
    rewrite sum_cost_app. simpl. unfold cost in *; simpl. split; lia.
Qed.

Lemma put_unfold s k sz b :
  ∃ pre, pre = match find_key k (entries s) with
             | Some old => (remove_key k (entries s) ++ [Entry k sz b], cur s - e_size old + sz)
             | None => (entries s ++ [Entry k sz b], cur s + cost (ovh s) (Entry k sz b))
             end
  ∧ lru_put s k sz b =
    Lru (fst (evict (maxsz s) (ovh s) (fst pre) (snd pre)))
        (snd (evict (maxsz s) (ovh s) (fst pre) (snd pre)))
        (maxsz s) (ovh s) (n_get s) (n_put s + 1) (n_hit s) (n_miss s).
Proof.
  eexists; split; [reflexivity|]. unfold lru_put.
  destruct (find_key k (entries s)); simpl;
    match goal with |- context [evict ?a ?b ?c ?d] => destruct (evict a b c d) end; done.
Qed.

Lemma inv_put s k sz b : Inv s → Inv (lru_put s k sz b).
Proof.
  intros HI. destruct (put_unfold s k sz b) as (pre & Hpre & ->).
  pose proof (put_pre_keys s k sz b HI) as Hk. cbv zeta in Hk. rewrite <- Hpre in Hk.
  destruct Hk as (Hkeys & Hsum & _).
  destruct (evict_spec (maxsz s) (ovh s) (fst pre) (snd pre) Hsum) as (m & H1 & H2 & H3 & _).
  split; simpl.
  - rewrite H1, keys_drop. apply NoDup_drop. rewrite Hkeys. apply nodup_touch, HI.
  - by rewrite H1, H2.
  - done.
Qed.

Lemma get_hit_unfold s k e :
  find_key k (entries s) = Some e →
  lru_get s k = (RHit (e_bm e),
       Lru (remove_key k (entries s) ++ [e]) (cur s) (maxsz s) (ovh s)
           (n_get s + 1) (n_put s) (n_hit s + 1) (n_miss s)).
Proof. intros H. unfold lru_get. by rewrite H. Qed.

Lemma get_miss_unfold s k :
  find_key k (entries s) = None →
  lru_get s k = (RMiss,
       Lru (entries s) (cur s) (maxsz s) (ovh s)
           (n_get s + 1) (n_put s) (n_hit s) (n_miss s + 1)).
Proof. intros H. unfold lru_get. by rewrite H. Qed.

Lemma inv_get s k : Inv s → Inv (snd (lru_get s k)).
Proof.
  intros [Hnd Hcur Hb]. destruct (find_key k (entries s)) as [e|] eqn:Hf.
  - rewrite (get_hit_unfold _ _ _ Hf). apply find_key_Some in Hf as [Hin Hk].
    split; simpl; [| |done].
    + rewrite keys_app, keys_remove. simpl. rewrite Hk. by apply nodup_touch.
    + rewrite sum_cost_app. simpl.
      rewrite (sum_cost_remove (ovh s) k (entries s) e Hnd Hin Hk) in Hcur. lia.
  - rewrite (get_miss_unfold _ _ Hf). by split.
Qed.

Lemma step_params s o :
  maxsz (fst (lru_step s o)) = maxsz s ∧ ovh (fst (lru_step s o)) = ovh s.
Proof.
  destruct o as [k sz b|k]; simpl.
  - destruct (put_unfold s k sz b) as (pre & _ & ->). done.
  - unfold lru_get. destruct (find_key k (entries s)); done.
Qed.

Lemma inv_step s o : Inv s → Inv (fst (lru_step s o)).
Proof.
  destruct o as [k sz b|k]; simpl; [apply inv_put|].
  intros H. pose proof (inv_get s k H). by destruct (lru_get s k).
Qed.

(** * Reachability with a history *)

Inductive reach (max o : N) : list (op * res) → lru → Prop :=
| reach_init : reach max o [] (lru_init max o)
| reach_step tr s x :
    reach max o tr s →
    reach max o (tr ++ [(x, snd (lru_step s x))]) (fst (lru_step s x)).

Lemma lru_trace_app s ops x :
  lru_trace s (ops ++ [x]) = lru_trace s ops ++ [(x, snd (lru_step (lru_state s ops) x))].
Proof.
  revert s; induction ops as [|y ops IH]; intros s; simpl; [done|]. by rewrite IH.
Qed.

Lemma lru_state_app s ops x :
  lru_state s (ops ++ [x]) = fst (lru_step (lru_state s ops) x).
Proof. unfold lru_state. by rewrite fold_left_app. Qed.

Lemma reach_run max o ops :
  reach max o (lru_trace (lru_init max o) ops) (lru_state (lru_init max o) ops).
Proof.
  induction ops as [|x ops IH] using rev_ind; [constructor|].
  rewrite lru_trace_app, lru_state_app. by constructor.
Qed.

Lemma reach_inv max o tr s : reach max o tr s → Inv s ∧ maxsz s = max ∧ ovh s = o.
Proof.
  induction 1 as [|tr s x _ (HI & Hm & Ho)]; [split; [apply inv_init|done]|].
  split; [by apply inv_step|]. destruct (step_params s x) as [-> ->]. done.
Qed.

(** * T1: a hit returns the bitmap of the latest Put on that key *)

Lemma last_put_app tr x k :
  last_put (tr ++ [x]) k =
  match fst x with
  | Put k' sz b => if k' =? k then Some (sz, b) else last_put tr k
  | Get _ => last_put tr k
  end.
Proof.
  induction tr as [|[y ry] tr IH]; simpl.
  - destruct x as [[k' sz b|k'] rx]; simpl; [|done]. by destruct (k' =? k).
  - rewrite IH. destruct x as [[k' sz b|k'] rx]; simpl; [|done].
    by destruct (k' =? k).
Qed.

Definition entries_latest (tr : list (op * res)) (s : lru) : Prop :=
  ∀ e, e ∈ entries s → last_put tr (e_key e) = Some (e_size e, e_bm e).

Lemma elem_of_remove_key e k es : e ∈ remove_key k es → e ∈ es ∧ e_key e ≠ k.
Proof. unfold remove_key. rewrite elem_of_list_filter. tauto. Qed.

Lemma reach_latest max o tr s : reach max o tr s → entries_latest tr s.
Proof.
  induction 1 as [|tr s x Hr IH]; [intros e He; by apply elem_of_nil in He|].
  destruct (reach_inv _ _ _ _ Hr) as (HI & _ & _).
  intros e He. rewrite last_put_app. simpl.
  destruct x as [k sz b|k]; simpl in *.
  - destruct (put_unfold s k sz b) as (pre & Hpre & Heq). rewrite Heq in He. simpl in He.
    pose proof (put_pre_keys s k sz b HI) as Hk. cbv zeta in Hk. rewrite <- Hpre in Hk.
    destruct Hk as (_ & Hsum & _).
    destruct (evict_spec (maxsz s) (ovh s) (fst pre) (snd pre) Hsum) as (m & H1 & _).
    rewrite H1 in He. apply elem_of_list_lookup in He as [i Hi].
    rewrite lookup_drop in Hi. apply elem_of_list_lookup_2 in Hi.
    assert (e = Entry k sz b ∨ (e ∈ entries s ∧ e_key e ≠ k)) as [->|[Hin Hne]].
    { rewrite Hpre in Hi. destruct (find_key k (entries s)) as [old|] eqn:Hf; simpl in Hi;
        apply elem_of_app in Hi as [Hi|Hi].
      - right. by apply elem_of_remove_key.
      - left. by apply elem_of_list_singleton in Hi.
      - right. split; [done|]. apply find_key_None in Hf. intros <-. apply Hf.
        by apply elem_of_list_fmap_1.
      - left. by apply elem_of_list_singleton in Hi. }
    + simpl. by rewrite N.eqb_refl.
    + destruct (N.eqb_spec k (e_key e)); [congruence|]. by apply IH.
  - apply IH. unfold lru_get in He. destruct (find_key k (entries s)) as [e'|] eqn:Hf; simpl in He.
    + apply elem_of_app in He as [He|He].
      * by apply elem_of_remove_key in He as [? _].
      * apply elem_of_list_singleton in He as ->. by apply find_key_Some in Hf as [? _].
    + done.
Qed.

Lemma T1_hit_is_latest_put max o tr s k b :
  reach max o tr s → fst (lru_get s k) = RHit b → ∃ sz, last_put tr k = Some (sz, b).
Proof.
  intros Hr Hg. unfold lru_get in Hg. destruct (find_key k (entries s)) as [e|] eqn:Hf; [|done].
  simpl in Hg. injection Hg as <-. apply find_key_Some in Hf as [Hin <-].
  exists (e_size e). by apply (reach_latest _ _ _ _ Hr).
Qed.

(** A key is retrievable iff it is in the entry list. *)
Lemma retrievable_iff s k : (∃ b, fst (lru_get s k) = RHit b) ↔ k ∈ keys (entries s).
Proof.
  unfold lru_get. destruct (find_key k (entries s)) as [e|] eqn:Hf; simpl.
  - apply find_key_Some in Hf as [Hin <-]. split; [intros _; by apply elem_of_list_fmap_1|by eauto].
  - apply find_key_None in Hf. split; [by intros [? ?]|done].
Qed.

(** * T2: the byte bound *)

Lemma T2_byte_bound max o tr s :
  reach max o tr s → sum_size (entries s) ≤ max ∧ sum_cost o (entries s) ≤ max.
Proof.
  intros Hr. destruct (reach_inv _ _ _ _ Hr) as ([_ Hc Hb] & <- & <-).
  pose proof (sum_size_le_cost (ovh s) (entries s)). lia.
Qed.

(** * T3: residents are exactly the m most recently used keys *)

Lemma uses_app tr x : uses (tr ++ [x]) = uses tr ++ match use_of x with Some k => [k] | None => [] end.
Proof. unfold uses. rewrite omap_app. simpl. by destruct (use_of x). Qed.

Lemma use_order_snoc us k : use_order (us ++ [k]) = touch (use_order us) k.
Proof. unfold use_order. by rewrite fold_left_app. Qed.

Lemma touch_drop (l : list N) m k :
  touch (drop m l) k = drop (length (filter (λ x, x ≠ k) (take m l))) (touch l k).
Proof.
  unfold touch.
  replace (filter (λ x, x ≠ k) l)
    with (filter (λ x, x ≠ k) (take m l) ++ filter (λ x, x ≠ k) (drop m l))
    by (by rewrite <- filter_app, take_drop).
  by rewrite <- app_assoc, drop_app.
Qed.

Lemma T3_recency max o tr s :
  reach max o tr s → ∃ m, keys (entries s) = drop m (use_order (uses tr)).
Proof.
  induction 1 as [|tr s x Hr [m IH]]; [by exists 0%nat|].
  destruct (reach_inv _ _ _ _ Hr) as (HI & _ & _).
  rewrite uses_app. destruct x as [k sz b|k]; simpl.
  - rewrite use_order_snoc.
    destruct (put_unfold s k sz b) as (pre & Hpre & ->). simpl.
    pose proof (put_pre_keys s k sz b HI) as Hk. cbv zeta in Hk. rewrite <- Hpre in Hk.
    destruct Hk as (Hkeys & Hsum & _).
    destruct (evict_spec (maxsz s) (ovh s) (fst pre) (snd pre) Hsum) as (m' & -> & _).
    rewrite keys_drop, Hkeys, IH, touch_drop.
    rewrite drop_drop. eauto.
  - unfold lru_get. destruct (find_key k (entries s)) as [e|] eqn:Hf; simpl.
    + rewrite use_order_snoc. apply find_key_Some in Hf as [_ Hk].
      rewrite keys_app, keys_remove. simpl. rewrite Hk.
      change (filter (λ x, x ≠ k) (keys (entries s)) ++ [k]) with (touch (keys (entries s)) k).
      rewrite IH, touch_drop. eauto.
    + rewrite app_nil_r. eauto.
Qed.

(** [use_order] really is "ordered by last use": for any split of the use history,
    every key used in the later part comes after every key not used in it, the order
    among the latter being the one they had before. *)
Lemma filter_all {A} (P : A → Prop) `{!∀ x, Decision (P x)} (l : list A) :
  (∀ x, P x) → filter P l = l.
Proof.
  intros HP. induction l as [|x l IH]; [done|]. rewrite filter_cons_True by done. by rewrite IH.
Qed.

Lemma use_order_app (u1 u2 : list N) :
  use_order (u1 ++ u2) = filter (λ x, x ∉ u2) (use_order u1) ++ use_order u2.
Proof.
  induction u2 as [|k u2 IH] using rev_ind.
  - rewrite app_nil_r. rewrite filter_all by (intros x; apply not_elem_of_nil).
    by rewrite app_nil_r.
  - rewrite app_assoc, !use_order_snoc, IH. unfold touch.
    rewrite filter_app, <- app_assoc. f_equal.
    rewrite list_filter_filter. apply list_filter_iff. intros x.
    rewrite not_elem_of_app, elem_of_list_singleton. tauto.
Qed.

Lemma use_order_nodup us : NoDup (use_order us).
Proof.
  induction us as [|k us IH] using rev_ind; [constructor|].
  rewrite use_order_snoc. by apply nodup_touch.
Qed.

Lemma use_order_elem us k : k ∈ use_order us ↔ k ∈ us.
Proof.
  induction us as [|x us IH] using rev_ind; [done|].
  rewrite use_order_snoc. unfold touch. rewrite !elem_of_app, elem_of_list_filter, IH.
  rewrite elem_of_list_singleton. destruct (decide (k = x)); naive_solver.
Qed.

(** * T4: an entry that fits is retrievable right after it was stored *)

Lemma T4_fits_then_hit max o tr s k sz b :
  reach max o tr s → sz + o ≤ max → fst (lru_get (lru_put s k sz b) k) = RHit b.
Proof.
  intros Hr Hfit. destruct (reach_inv _ _ _ _ Hr) as (HI & Hm & Ho).
  pose proof (inv_put s k sz b HI) as HI'.
  destruct (put_unfold s k sz b) as (pre & Hpre & Heq).
  pose proof (put_pre_keys s k sz b HI) as Hk. cbv zeta in Hk. rewrite <- Hpre in Hk.
  destruct Hk as (_ & Hsum & _).
  assert (∃ es, fst pre = es ++ [Entry k sz b]) as [es Hes].
  { rewrite Hpre. destruct (find_key k (entries s)); simpl; eauto. }
  destruct (evict_keeps_last (maxsz s) (ovh s) es (Entry k sz b)) as [es' Hkeep].
  { unfold cost; simpl. lia. }
  rewrite <- Hes, <- Hsum in Hkeep.
  assert (Entry k sz b ∈ entries (lru_put s k sz b)) as Hin.
  { rewrite Heq. simpl. rewrite Hkeep. apply elem_of_app. right. by left. }
  unfold lru_get. rewrite (find_key_in k _ (Entry k sz b)); [done|apply HI'|done|done].
Qed.

(** * T5: nothing is evicted while everything ever stored fits *)

Lemma put_weight_app o tr x :
  put_weight o (tr ++ [x]) =
  put_weight o tr + match fst x with Put _ sz _ => sz + o | Get _ => 0 end.
Proof.
  induction tr as [|y tr IH]; simpl.
  - destruct (fst x); lia.
  - rewrite IH. destruct (fst y), (fst x); lia.
Qed.

Definition put_keys (tr : list (op * res)) : list N :=
  omap (λ x, match fst x with Put k _ _ => Some k | Get _ => None end) tr.

Lemma T5_no_needless_eviction max o tr s :
  reach max o tr s → put_weight o tr ≤ max →
  cur s ≤ put_weight o tr ∧ ∀ k, k ∈ put_keys tr → k ∈ keys (entries s).
Proof.
  induction 1 as [|tr s x Hr IH]; intros Hw.
  - simpl. split; [lia|]. intros k Hk. by apply elem_of_nil in Hk.
  - destruct (reach_inv _ _ _ _ Hr) as (HI & Hm & Ho).
    rewrite put_weight_app in Hw |- *. simpl in *.
    unfold put_keys. rewrite omap_app. fold (put_keys tr). simpl.
    destruct x as [k sz b|k]; simpl in *.
    + destruct IH as [IH1 IH2]; [lia|].
      destruct (put_unfold s k sz b) as (pre & Hpre & ->). simpl.
      pose proof (put_pre_keys s k sz b HI) as Hk. cbv zeta in Hk. rewrite <- Hpre in Hk.
      destruct Hk as (Hkeys & Hsum & Hle).
      destruct (evict_spec (maxsz s) (ovh s) (fst pre) (snd pre) Hsum) as (m & H1 & H2 & _ & H4).
      rewrite Ho in *. rewrite Hm in *.
      assert (m = 0%nat) as -> by (apply H4; lia).
      rewrite H1, H2. rewrite !drop_0. rewrite <- Hsum. split; [lia|].
      intros k' Hk'. rewrite Hkeys. unfold touch. apply elem_of_app.
      apply elem_of_app in Hk' as [Hk'|Hk'].
      * destruct (decide (k' = k)) as [->|Hne]; [right; by left|].
        left. apply elem_of_list_filter. split; [done|]. by apply IH2.
      * right. done.
    + destruct IH as [IH1 IH2]; [lia|]. rewrite app_nil_r.
      unfold lru_get. destruct (find_key k (entries s)) as [e|] eqn:Hf; simpl.
      * split; [lia|]. intros k' Hk'. rewrite keys_app, keys_remove. simpl.
        apply find_key_Some in Hf as [_ Hke]. rewrite Hke. apply elem_of_app.
        destruct (decide (k' = k)) as [->|Hne]; [right; by left|].
        left. apply elem_of_list_filter. split; [done|]. by apply IH2.
      * split; [lia|]. done.
Qed.

(** * T6: the counters count exactly the events *)

Lemma count_ops_app f tr x :
  count_ops f (tr ++ [x]) = count_ops f tr + (if f x then 1 else 0).
Proof.
  unfold count_ops. rewrite filter_app, app_length, filter_cons, filter_nil.
  destruct (decide (f x = true)) as [->|Hn]; simpl; [lia|].
  destruct (f x); [done|]. simpl. lia.
Qed.

Lemma T6_counters max o tr s :
  reach max o tr s →
  n_get s = count_ops is_get tr ∧ n_put s = count_ops is_put tr
  ∧ n_hit s = count_ops is_hit tr ∧ n_miss s = count_ops is_miss tr.
Proof.
  induction 1 as [|tr s x Hr (I1 & I2 & I3 & I4)]; [done|].
  rewrite !count_ops_app. destruct x as [k sz b|k]; simpl.
  - destruct (put_unfold s k sz b) as (pre & _ & ->). simpl.
    unfold is_get, is_put, is_hit, is_miss in *; simpl. repeat split; lia.
  - unfold lru_get. destruct (find_key k (entries s)); simpl;
      unfold is_get, is_put, is_hit, is_miss in *; simpl; repeat split; lia.
Qed.

(** * T7: the cache contract used by C03/C04: every hit was preceded by a Put of that very
    bitmap under that very key, and no other Put on the key came in between. *)
Lemma T7_contract max o ops k :
  let s := lru_state (lru_init max o) ops in
  let tr := lru_trace (lru_init max o) ops in
  ∀ b, fst (lru_get s k) = RHit b → ∃ sz, last_put tr k = Some (sz, b).
Proof. intros s tr b. apply (T1_hit_is_latest_put max o). apply reach_run. Qed.

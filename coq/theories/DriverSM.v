(** The sql driver's per-process connection cache (driver/driver.go updogDriver.openFile,
    fileConn.Close) as a state machine over driver-level operations (C17).  Each operation is
    one critical section of the driver mutex (the lock obligations generated from the source
    establish that), so "every schedule" is "every operation list".  No proofs here. *)
From updog Require Import Prelude.
Local Open Scope N_scope.

(** A data source: the index file and the (canonical) option string. *)
Record dkey := DKey { k_file : N; k_opts : N }.
Global Instance dkey_eq_dec : EqDecision dkey.
Proof. solve_decision. Defined.
Global Instance dkey_countable : Countable dkey.
Proof.
  refine (inj_countable' (λ k, (k_file k, k_opts k)) (λ p, DKey p.1 p.2) _). by intros [].
Defined.

(** A shared connection object: its key, its reference count, whether its index is open. *)
Record dconn := DConn { c_key : dkey; c_refs : nat; c_open : bool }.

Record dstate := DState {
  d_cache : gmap dkey N;        (* fileConnCache: key → connection object *)
  d_conns : gmap N dconn;       (* all connection objects ever created *)
  d_handles : gmap N N;         (* driver.Conn handed to database/sql → connection object *)
  d_next : N;                   (* next fresh connection object *)
  d_readers : gmap N nat        (* per file: open index handles holding its (shared) lock *)
}.
Definition d_init : dstate := DState ∅ ∅ ∅ 0 ∅.

Inductive dop :=
| DOpen (h : N) (k : dkey)      (* driver.Open for a new pool connection, named h *)
| DQuery (h : N)                (* a statement executed on h *)
| DClose (h : N).               (* database/sql closes h (once) *)

Inductive dres :=
| ROpened
| ROpenErr
| RRows (file : N)              (* the rows of a query evaluated on the index of [file] *)
| RClosed
| RPanic                        (* nil index dereferenced *)
| RHang                         (* blocked for ever on a file lock *)
| RMisuse.                      (* the operation list is not well-formed (see [wf_ops]) *)

Definition file_readers (s : dstate) (f : N) : nat := default 0%nat (d_readers s !! f).

Section WithFiles.
(** Which files [OpenIndex] accepts. *)
Context (valid : N → bool).

Definition d_step (s : dstate) (o : dop) : dstate * dres :=
  match o with
  | DOpen h k =>
      match d_handles s !! h with
      | Some _ => (s, RMisuse)
      | None =>
          match d_cache s !! k with
          | Some cid =>
              match d_conns s !! cid with
              | Some c => (DState (d_cache s) (<[cid := DConn (c_key c) (S (c_refs c)) (c_open c)]> (d_conns s))
                                  (<[h := cid]> (d_handles s)) (d_next s) (d_readers s), ROpened)
              | None => (s, RPanic)
              end
          | None =>
              if valid (k_file k) then
                let cid := d_next s in
                (DState (<[k := cid]> (d_cache s)) (<[cid := DConn k 1 true]> (d_conns s))
                        (<[h := cid]> (d_handles s)) (cid + 1)
                        (<[k_file k := S (file_readers s (k_file k))]> (d_readers s)), ROpened)
              else (s, ROpenErr)
          end
      end
  | DQuery h =>
      match d_handles s !! h with
      | None => (s, RMisuse)
      | Some cid =>
          match d_conns s !! cid with
          | Some c => if c_open c then (s, RRows (k_file (c_key c))) else (s, RPanic)
          | None => (s, RPanic)
          end
      end
  | DClose h =>
      match d_handles s !! h with
      | None => (s, RMisuse)
      | Some cid =>
          match d_conns s !! cid with
          | None => (s, RPanic)
          | Some c =>
              let handles := delete h (d_handles s) in
              match c_refs c with
              | S (S n) => (DState (d_cache s) (<[cid := DConn (c_key c) (S n) (c_open c)]> (d_conns s))
                                   handles (d_next s) (d_readers s), RClosed)
              | _ =>
                  (* last reference: drop the cache entry (if it is this object), close the index *)
                  let cache := match d_cache s !! c_key c with
                               | Some cid' => if cid' =? cid then delete (c_key c) (d_cache s) else d_cache s
                               | None => d_cache s
                               end in
                  (DState cache (<[cid := DConn (c_key c) 0 false]> (d_conns s)) handles (d_next s)
                          (if c_open c then <[k_file (c_key c) := pred (file_readers s (k_file (c_key c)))]> (d_readers s)
                           else d_readers s), RClosed)
              end
          end
      end
  end.

Fixpoint d_run (s : dstate) (ops : list dop) : dstate * list dres :=
  match ops with
  | [] => (s, [])
  | o :: ops' => let '(s1, r) := d_step s o in
                 let '(s2, rs) := d_run s1 ops' in (s2, r :: rs)
  end.

(** The pinned (unrepaired) Close: the cache entry survives the last close, so the next open
    of the same key gets the closed connection object back.  Only used to state what the
    repair removed. *)
Definition d_step_pinned (s : dstate) (o : dop) : dstate * dres :=
  match o with
  | DClose h =>
      match d_handles s !! h with
      | None => (s, RMisuse)
      | Some cid =>
          match d_conns s !! cid with
          | None => (s, RPanic)
          | Some c =>
              let handles := delete h (d_handles s) in
              match c_refs c with
              | S (S n) => (DState (d_cache s) (<[cid := DConn (c_key c) (S n) (c_open c)]> (d_conns s))
                                   handles (d_next s) (d_readers s), RClosed)
              | _ => (DState (d_cache s) (<[cid := DConn (c_key c) 0 false]> (d_conns s)) handles (d_next s)
                             (if c_open c then <[k_file (c_key c) := pred (file_readers s (k_file (c_key c)))]> (d_readers s)
                              else d_readers s), RClosed)
              end
          end
      end
  | _ => d_step s o
  end.

Fixpoint d_run_pinned (s : dstate) (ops : list dop) : dstate * list dres :=
  match ops with
  | [] => (s, [])
  | o :: ops' => let '(s1, r) := d_step_pinned s o in
                 let '(s2, rs) := d_run_pinned s1 ops' in (s2, r :: rs)
  end.

End WithFiles.

(** Well-formed operation lists — what database/sql guarantees: a handle name is opened at
    most once, used only after a successful open and before its single close.  [live] are the
    handles currently open. *)
Fixpoint wf_ops (valid : N → bool) (live : list N) (used : list N) (ops : list dop) : bool :=
  match ops with
  | [] => true
  | DOpen h k :: ops' =>
      negb (bool_decide (h ∈ used)) &&
      (if valid (k_file k) then wf_ops valid (h :: live) (h :: used) ops' else wf_ops valid live (h :: used) ops')
  | DQuery h :: ops' => bool_decide (h ∈ live) && wf_ops valid live used ops'
  | DClose h :: ops' => bool_decide (h ∈ live) && wf_ops valid (filter (λ x, x ≠ h) live) used ops'
  end.

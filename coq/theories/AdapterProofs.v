(** Proofs about the adapters (Adapters.v): the Query value and its hidden scratch state
    (C08), the sql driver's rows (C12) and statement paths (C11), the gRPC batch handler
    (C13, C14). *)
From updog Require Import Prelude Index QParser Adapters IndexProofs BindProofs ParserProofs.
From Coq Require Import ZifyN ZifyNat ZifyBool.
Local Open Scope N_scope.

(** * Generic facts about outcomes *)
Lemma out_map_ok_inv {A B} (f : A → B) (o : outcome A) (b : B) :
  out_map f o = Ok b ↔ ∃ a, o = Ok a ∧ b = f a.
Proof.
  destruct o as [a| | |]; simpl; split; try done.
  - intros [= <-]. by exists a.
  - intros (a' & [= <-] & ->). done.
  - by intros (a' & Hd & _).
  - by intros (a' & Hd & _).
  - by intros (a' & Hd & _).
Qed.

Lemma out_map_clean {A B} (f : A → B) (o : outcome A) :
  o ≠ Panic ∧ o ≠ Hang → out_map f o ≠ Panic ∧ out_map f o ≠ Hang.
Proof. destruct o; simpl; intros [Hp Hh]; done. Qed.

Lemma out_bind_clean {A B} (o : outcome A) (f : A → outcome B) :
  o ≠ Panic ∧ o ≠ Hang → (∀ a, f a ≠ Panic ∧ f a ≠ Hang) →
  out_bind o f ≠ Panic ∧ out_bind o f ≠ Hang.
Proof. destruct o; simpl; intros [Hp Hh] Hf; try done; apply Hf. Qed.

Section AdapterProofs.
Context (H : list N → N).

(** * C08: executing a Query value does not change what it means *)

Lemma populate_into_some sch cols acc gbs :
  populate_group_by sch cols = Some gbs → populate_into sch cols acc = (true, acc ++ gbs).
Proof.
  revert acc gbs. induction cols as [|c cols IH]; intros acc gbs; cbn [populate_group_by populate_into].
  - intros [= <-]. by rewrite app_nil_r.
  - destruct (gb_column sch c) as [g|]; [|done].
    destruct (populate_group_by sch cols) as [gs|] eqn:Hgs; [|done].
    intros [= <-]. rewrite (IH (acc ++ [g]) gs eq_refl). by rewrite <- app_assoc.
Qed.

Lemma populate_into_none sch cols acc :
  populate_group_by sch cols = None → ∃ pre, populate_into sch cols acc = (false, acc ++ pre).
Proof.
  revert acc. induction cols as [|c cols IH]; intros acc; cbn [populate_group_by populate_into]; [done|].
  destruct (gb_column sch c) as [g|].
  - destruct (populate_group_by sch cols) as [gs|] eqn:Hgs; [done|]. intros _.
    destruct (IH (acc ++ [g]) eq_refl) as [pre Hpre]. exists (g :: pre).
    rewrite Hpre. by rewrite <- app_assoc.
  - intros _. exists []. by rewrite app_nil_r.
Qed.

(** General form: whatever is already in the list stays in front. *)
Lemma populate_into_acc_spec sch cols acc :
  (∀ gbs, populate_into sch cols acc = (true, acc ++ gbs) ↔ populate_group_by sch cols = Some gbs)
  ∧ ((populate_into sch cols acc).1 = false ↔ populate_group_by sch cols = None).
Proof.
  destruct (populate_group_by sch cols) as [gs|] eqn:Hgs.
  - rewrite (populate_into_some sch cols acc gs Hgs). split.
    + intros gbs. split.
      * intros [= Heq]. apply app_inv_head in Heq. by subst.
      * by intros [= ->].
    + done.
  - destruct (populate_into_none sch cols acc Hgs) as [pre ->]. split; [|done].
    intros gbs. split; intros Hx; discriminate Hx.
Qed.

Theorem populate_into_spec sch cols :
  (∀ gbs, populate_into sch cols [] = (true, gbs) ↔ populate_group_by sch cols = Some gbs)
  ∧ ((∃ pre, populate_into sch cols [] = (false, pre)) ↔ populate_group_by sch cols = None).
Proof.
  destruct (populate_into_acc_spec sch cols []) as [Hs Hn]. split.
  - intros gbs. apply (Hs gbs).
  - rewrite <- Hn. split.
    + intros [pre ->]. done.
    + destruct (populate_into sch cols []) as [b pre]. simpl. intros ->. by exists pre.
Qed.

(** The result of an execution does not depend on the hidden field, and the visible fields
    are not changed. *)
Theorem execute_q_fresh ix q :
  (execute_q H ix q).1 = execute H ix (Query (qv_expr q) (qv_group_by q)).
Proof.
  unfold execute_q, execute. cbn [q_group_by q_expr].
  destruct (populate_group_by (ix_schema ix) (qv_group_by q)) as [gbs|] eqn:Hp.
  - rewrite (populate_into_some _ _ [] gbs Hp). reflexivity.
  - destruct (populate_into_none _ _ [] Hp) as [pre ->]. reflexivity.
Qed.

Theorem execute_q_visible ix q :
  qv_expr (execute_q H ix q).2 = qv_expr q ∧ qv_group_by (execute_q H ix q).2 = qv_group_by q.
Proof.
  unfold execute_q. destruct (populate_into _ _ _) as [[|] hidden]; done.
Qed.

Corollary execute_q_hidden_irrelevant ix e gb h1 h2 :
  (execute_q H ix (QVal e gb h1)).1 = (execute_q H ix (QVal e gb h2)).1.
Proof. by rewrite !execute_q_fresh. Qed.

Theorem C08_reuse q ixs :
  (run_q H q ixs).1 = map (λ ix, execute H ix (Query (qv_expr q) (qv_group_by q))) ixs
  ∧ qv_expr (run_q H q ixs).2 = qv_expr q
  ∧ qv_group_by (run_q H q ixs).2 = qv_group_by q.
Proof.
  revert q. induction ixs as [|ix ixs IH]; intros q; cbn [run_q map]; [done|].
  pose proof (execute_q_fresh ix q) as Hr. pose proof (execute_q_visible ix q) as [He Hg].
  destruct (execute_q H ix q) as [r q1]. cbn [fst snd] in *.
  destruct (IH q1) as (IH1 & IH2 & IH3).
  destruct (run_q H q1 ixs) as [rs q2]. cbn [fst snd] in *.
  rewrite Hr, IH1, IH2, IH3, He, Hg. done.
Qed.

End AdapterProofs.

(** The pinned behaviour: the second execution of the same Query value on the same index
    reports the group-by column twice. *)
Definition c08_ix : index :=
  match out_bind (build_store H_enc WMem [[([97], [49])]]) (open_index false) with
  | Ok ix => ix
  | _ => Index ∅ 0 ∅ false
  end.
Definition c08_q : qval := QVal (Eq [97] [49]) [[97]] [].

Example C08_pinned_values :
  (run_q_pinned H_enc c08_q [c08_ix; c08_ix]).1
  = [Ok (Result 1 [([([97], [49])], 1)]); Ok (Result 1 [([([97], [49]); ([97], [49])], 1)])]
  ∧ (run_q H_enc c08_q [c08_ix; c08_ix]).1
  = [Ok (Result 1 [([([97], [49])], 1)]); Ok (Result 1 [([([97], [49])], 1)])].
Proof. split; vm_compute; reflexivity. Qed.

Theorem C08_pinned_refuted :
  ∃ ix q, (run_q_pinned H_enc q [ix; ix]).1
          ≠ map (λ ix, execute H_enc ix (Query (qv_expr q) (qv_group_by q))) [ix; ix].
Proof. exists c08_ix, c08_q. vm_compute. intros Heq. discriminate Heq. Qed.

Section AdapterProofs2.
Context (H : list N → N).

(** * The library never panics or hangs on a query (used by C12, C13, C14) *)
Lemma eval_list_clean ix es :
  Forall (λ e, eval H ix e ≠ Panic ∧ eval H ix e ≠ Hang) es →
  eval_list H ix es ≠ Panic ∧ eval_list H ix es ≠ Hang.
Proof.
  induction 1 as [|e es He _ IH]; cbn [eval_list]; [done|].
  fold (eval_list H ix). apply out_bind_clean; [done|]. intros b.
  apply out_bind_clean; [done|]. done.
Qed.

Lemma eval_clean ix e : eval H ix e ≠ Panic ∧ eval H ix e ≠ Hang.
Proof.
  induction e as [c v|e IHe|es IHes|es IHes] using expr_ind'.
  - cbn [eval]. destruct (ix_schema ix !! c); done.
  - cbn [eval]. apply out_bind_clean; [done|]. done.
  - rewrite eval_And. apply out_bind_clean; [by apply eval_list_clean|]. done.
  - rewrite eval_Or. apply out_bind_clean; [by apply eval_list_clean|]. done.
Qed.

Theorem execute_clean ix q : execute H ix q ≠ Panic ∧ execute H ix q ≠ Hang.
Proof.
  unfold execute. destruct (populate_group_by _ _) as [gbs|]; [|done].
  apply out_bind_clean; [apply eval_clean|]. done.
Qed.

(** * C12: the sql driver returns exactly the library result as rows *)

Theorem rows_of_cols r gb : rs_cols (rows_of r gb) = gb ++ [count_name].
Proof. reflexivity. Qed.

Theorem rows_of_types r gb :
  rs_types (rows_of r gb) = replicate (length gb) TText ++ [TBigint]
  ∧ length (rs_types (rows_of r gb)) = length (rs_cols (rows_of r gb)).
Proof.
  cbn [rows_of rs_types rs_cols]. split.
  - f_equal. induction gb as [|c gb IH]; cbn; [done|]. by rewrite IH.
  - by rewrite !app_length, map_length.
Qed.

Theorem rows_of_ungrouped r : rs_rows (rows_of r []) = [[CInt (r_count r)]].
Proof. reflexivity. Qed.

Definition group_row (g : list field * N) : list cell := map (λ f : field, CText f.2) g.1 ++ [CInt g.2].

Theorem rows_of_grouped r gb :
  gb ≠ [] → rs_rows (rows_of r gb) = map group_row (r_groups r).
Proof. destruct gb; [done|]. reflexivity. Qed.

Corollary rows_of_grouped_length r gb :
  gb ≠ [] → length (rs_rows (rows_of r gb)) = length (r_groups r).
Proof. intros Hgb. by rewrite rows_of_grouped, map_length. Qed.

Corollary rows_of_grouped_no_match r gb :
  gb ≠ [] → r_groups r = [] → rs_rows (rows_of r gb) = [].
Proof. intros Hgb Hr. by rewrite rows_of_grouped, Hr. Qed.

Corollary rows_of_grouped_lookup r gb i :
  gb ≠ [] →
  rs_rows (rows_of r gb) !! i
  = (λ g : list field * N, map (λ f : field, CText f.2) g.1 ++ [CInt g.2]) <$> (r_groups r !! i).
Proof. intros Hgb. by rewrite rows_of_grouped, list_lookup_fmap. Qed.

Theorem rows_of_row_width r gb :
  Forall (λ g : list field * N, length g.1 = length gb) (r_groups r) →
  Forall (λ row, length row = length (rs_cols (rows_of r gb))) (rs_rows (rows_of r gb)).
Proof.
  intros Hall. rewrite rows_of_cols, app_length. destruct gb as [|c gb].
  - rewrite rows_of_ungrouped. by repeat constructor.
  - rewrite rows_of_grouped by done. apply Forall_fmap.
    eapply Forall_impl; [exact Hall|]. intros g Hg. unfold compose, group_row. cbn beta.
    by rewrite app_length, map_length, Hg.
Qed.

Theorem stmt_query_bind_err ix q args :
  bind (pq_expr q) args = Err → stmt_query H ix q args = Err.
Proof. unfold stmt_query. by intros ->. Qed.

Theorem stmt_query_execute_err ix q args e :
  bind (pq_expr q) args = Ok e → execute H ix (Query (to_expr e) (pq_group_by q)) = Err →
  stmt_query H ix q args = Err.
Proof. unfold stmt_query. intros -> Hex. cbn [out_bind]. by rewrite Hex. Qed.

Theorem stmt_query_ok ix q args e r :
  bind (pq_expr q) args = Ok e → execute H ix (Query (to_expr e) (pq_group_by q)) = Ok r →
  stmt_query H ix q args = Ok (rows_of r (pq_group_by q)).
Proof. unfold stmt_query. intros -> Hex. cbn [out_bind]. by rewrite Hex. Qed.

Theorem stmt_query_ok_iff ix q args rs :
  stmt_query H ix q args = Ok rs ↔
  ∃ e r, bind (pq_expr q) args = Ok e ∧ execute H ix (Query (to_expr e) (pq_group_by q)) = Ok r
         ∧ rs = rows_of r (pq_group_by q).
Proof.
  unfold stmt_query. destruct (bind (pq_expr q) args) as [e| | |]; cbn [out_bind].
  - rewrite out_map_ok_inv. split.
    + intros (r & Hr & ->). by exists e, r.
    + intros (e' & r & [= <-] & Hr & ->). by exists r.
  - split; [done|]. by intros (e' & r & Hd & _).
  - split; [done|]. by intros (e' & r & Hd & _).
  - split; [done|]. by intros (e' & r & Hd & _).
Qed.

Theorem stmt_query_never_panics ix q args :
  stmt_query H ix q args ≠ Panic ∧ stmt_query H ix q args ≠ Hang.
Proof.
  unfold stmt_query. apply out_bind_clean; [apply bind_never_panics|].
  intros e. apply out_map_clean, execute_clean.
Qed.

(** The pinned variant looked at the result instead of the query. *)
Definition rows_of_pinned (r : result) (group_by : list str) : rowset :=
  RowSet (group_by ++ [count_name])
         (map (λ _, TText) group_by ++ [TBigint])
         (match r_groups r with
          | [] => [[CInt (r_count r)]]
          | gs => map (λ g : list field * N, map (λ f : field, CText f.2) g.1 ++ [CInt g.2]) gs
          end).

Theorem C12_pinned_refuted :
  ∃ r gb, gb ≠ [] ∧ r_groups r = []
          ∧ rs_rows (rows_of r gb) = []
          ∧ rs_rows (rows_of_pinned r gb) = [[CInt 0]]
          ∧ ¬ Forall (λ row, length row = length (rs_cols (rows_of_pinned r gb))) (rs_rows (rows_of_pinned r gb)).
Proof.
  exists (Result 0 []), [[97]]. repeat split; [done|].
  intros Hall. apply Forall_cons in Hall as [Hlen _]. discriminate Hlen.
Qed.

(** * C11, driver side *)

Theorem prepared_equals_direct ix text args q :
  parse_query text = Ok q → max_ph (pq_expr q) = N.of_nat (length args) →
  prepared_query H ix text args = stmt_query H ix q args
  ∧ sql_query H ix text args = stmt_query H ix q args.
Proof.
  unfold prepared_query, sql_query. intros -> Hn. cbn [out_bind].
  by rewrite Hn, N.eqb_refl.
Qed.

Theorem prepared_equals_sql ix text args :
  (∀ q, parse_query text = Ok q → max_ph (pq_expr q) = N.of_nat (length args)) →
  prepared_query H ix text args = sql_query H ix text args.
Proof.
  unfold prepared_query, sql_query. intros Hq.
  destruct (parse_query text) as [q| | |]; cbn [out_bind]; try done.
  by rewrite (Hq q eq_refl), N.eqb_refl.
Qed.

Theorem too_few_args_err ix q args :
  N.of_nat (length args) < max_ph (pq_expr q) → stmt_query H ix q args = Err.
Proof. intros Hlt. apply stmt_query_bind_err. by apply bind_too_few. Qed.

Theorem too_few_args_err_both ix text args q :
  parse_query text = Ok q → N.of_nat (length args) < max_ph (pq_expr q) →
  sql_query H ix text args = Err ∧ prepared_query H ix text args = Err.
Proof.
  unfold prepared_query, sql_query. intros -> Hlt. cbn [out_bind]. split.
  - by apply too_few_args_err.
  - destruct (N.eqb_spec (max_ph (pq_expr q)) (N.of_nat (length args))); [lia|done].
Qed.

Theorem sql_query_never_panics ix text args :
  sql_query H ix text args ≠ Panic ∧ sql_query H ix text args ≠ Hang.
Proof.
  unfold sql_query. apply out_bind_clean; [apply parse_query_total|].
  intros q. apply stmt_query_never_panics.
Qed.

Theorem prepared_query_never_panics ix text args :
  prepared_query H ix text args ≠ Panic ∧ prepared_query H ix text args ≠ Hang.
Proof.
  unfold prepared_query. apply out_bind_clean; [apply parse_query_total|].
  intros q. destruct (_ =? _); [apply stmt_query_never_panics|done].
Qed.

End AdapterProofs2.

Section AdapterProofs3.
Context (H : list N → N).

(** * C13: a batch is answered like the library, in order *)

(** The inner loop of [wire_expr] on operand lists. *)
Definition wire_list : list wexpr → option (list expr) :=
  fix go (es : list wexpr) : option (list expr) :=
    match es with
    | [] => Some []
    | e1 :: es' => match wire_expr e1, go es' with
                   | Some x, Some xs => Some (x :: xs)
                   | _, _ => None
                   end
    end.

Lemma wire_expr_And es :
  wire_expr (WAnd es) = match wire_list es with Some xs => Some (And xs) | None => None end.
Proof. reflexivity. Qed.
Lemma wire_expr_Or es :
  wire_expr (WOr es) = match wire_list es with Some xs => Some (Or xs) | None => None end.
Proof. reflexivity. Qed.

Lemma wire_list_mapM es : wire_list es = mapM wire_expr es.
Proof.
  induction es as [|e es IH]; [done|]. cbn [wire_list mapM]. fold wire_list. rewrite IH.
  destruct (wire_expr e) as [x|]; cbn; [|done]. by destruct (mapM wire_expr es).
Qed.

Lemma wire_list_some es xs :
  wire_list es = Some xs ↔ Forall2 (λ e x, wire_expr e = Some x) es xs.
Proof. rewrite wire_list_mapM. apply mapM_Some. Qed.

Lemma wire_list_none es :
  wire_list es = None ↔ Exists (λ e, wire_expr e = None) es.
Proof.
  induction es as [|e es IH]; cbn [wire_list]; fold wire_list.
  - split; [done|]. by intros Hx%Exists_nil.
  - rewrite Exists_cons, <- IH. destruct (wire_expr e) as [x|].
    + destruct (wire_list es); split; try done; try (intros [Hx|Hx]; done). by right.
    + split; [by left|done].
Qed.

Lemma wire_list_to_wire es :
  Forall (λ e, wire_expr (to_wire e) = Some (to_expr e)) es →
  wire_list (map to_wire es) = Some (map to_expr es).
Proof.
  induction 1 as [|e es He _ IH]; [done|]. cbn [map wire_list]. fold wire_list.
  by rewrite He, IH.
Qed.

(** A complete tree crosses the wire unchanged. *)
Theorem wire_expr_to_wire e : wire_expr (to_wire e) = Some (to_expr e).
Proof.
  induction e as [c v ph|e IHe|es IHes|es IHes] using pexpr_ind'; cbn [to_wire to_expr].
  - reflexivity.
  - cbn [wire_expr]. by rewrite IHe.
  - by rewrite wire_expr_And, wire_list_to_wire.
  - by rewrite wire_expr_Or, wire_list_to_wire.
Qed.

Theorem result_of_wire_lossless id r : result_of_wire (WResult id (r_count r) (r_groups r)) = r.
Proof. by destruct r. Qed.

(** The id rule of the handler. *)
Definition wire_id (pos : nat) (q : wquery) : Z :=
  if (wq_id q =? 0)%Z then Z.of_nat (S pos) else wq_id q.

Theorem serve_one_ok_iff ix pos q w :
  serve_one H ix pos q = Ok w ↔
  ∃ we e r, wq_expr q = Some we ∧ wire_expr we = Some e
            ∧ execute H ix (Query e (wq_group_by q)) = Ok r
            ∧ w = WResult (wire_id pos q) (r_count r) (r_groups r).
Proof.
  unfold serve_one. destruct (wq_expr q) as [we|].
  - destruct (wire_expr we) as [e|] eqn:Hwe.
    + rewrite out_map_ok_inv. split.
      * intros (r & Hr & ->). by exists we, e, r.
      * intros (we' & e' & r & [= <-] & He' & Hr & ->). rewrite Hwe in He'. injection He' as <-.
        by exists r.
    + split; [done|]. intros (we' & e' & r & [= <-] & Hd & _). congruence.
  - split; [done|]. by intros (we' & e' & r & Hd & _).
Qed.

Corollary serve_one_ok_fields ix pos q w :
  serve_one H ix pos q = Ok w →
  wr_id w = (if (wq_id q =? 0)%Z then Z.of_nat pos + 1 else wq_id q)%Z
  ∧ ∃ we e, wq_expr q = Some we ∧ wire_expr we = Some e
            ∧ execute H ix (Query e (wq_group_by q)) = Ok (result_of_wire w).
Proof.
  intros (we & e & r & Hwe & He & Hr & ->)%serve_one_ok_iff. split.
  - cbn [wr_id]. unfold wire_id. destruct (wq_id q =? 0)%Z; lia.
  - exists we, e. by rewrite result_of_wire_lossless.
Qed.

Theorem serve_one_err_iff ix pos q :
  serve_one H ix pos q = Err ↔
  wq_expr q = None
  ∨ (∃ we, wq_expr q = Some we ∧ wire_expr we = None)
  ∨ (∃ we e, wq_expr q = Some we ∧ wire_expr we = Some e ∧ execute H ix (Query e (wq_group_by q)) = Err).
Proof.
  unfold serve_one. destruct (wq_expr q) as [we|].
  - destruct (wire_expr we) as [e|] eqn:Hwe.
    + split.
      * intros Hm. right; right. exists we, e.
        destruct (execute H ix (Query e (wq_group_by q))); done.
      * intros [Hd|[(we' & [= <-] & Hd)|(we' & e' & [= <-] & He' & Hx)]]; [done|congruence|].
        rewrite Hwe in He'. injection He' as <-. by rewrite Hx.
    + split; [|done]. intros _. right; left. by exists we.
  - split; [|done]. by left.
Qed.

Theorem serve_one_never_panics ix pos q :
  serve_one H ix pos q ≠ Panic ∧ serve_one H ix pos q ≠ Hang.
Proof.
  unfold serve_one. destruct (wq_expr q) as [we|]; [|done].
  destruct (wire_expr we) as [e|]; [|done]. apply out_map_clean, execute_clean.
Qed.

(** Success: one result per query, in order, each the single-query answer. *)
Lemma serve_from_ok_iff ix pos qs rs :
  serve_from H ix pos qs = Ok rs ↔
  Forall2 (λ (pq : nat * wquery) r, serve_one H ix pq.1 pq.2 = Ok r) (zip (seq pos (length qs)) qs) rs.
Proof.
  revert pos rs. induction qs as [|q qs IH]; intros pos rs; cbn [serve_from length seq zip zip_with].
  - split.
    + intros [= <-]. constructor.
    + intros Hf. by inversion Hf.
  - destruct (serve_one H ix pos q) as [r| | |] eqn:Hq; cbn [out_bind].
    + rewrite out_map_ok_inv. split.
      * intros (rs' & Hrs & ->). constructor; [done|]. by apply IH.
      * intros Hf. inversion Hf as [|? r' ? rs' Hr Hrs]; subst. cbn [fst snd] in Hr.
        rewrite Hq in Hr. injection Hr as <-. exists rs'. split; [by apply IH|done].
    + split; [done|]. intros Hf. inversion Hf as [|? r' ? rs' Hr Hrs]; subst. cbn [fst snd] in Hr. congruence.
    + split; [done|]. intros Hf. inversion Hf as [|? r' ? rs' Hr Hrs]; subst. cbn [fst snd] in Hr. congruence.
    + split; [done|]. intros Hf. inversion Hf as [|? r' ? rs' Hr Hrs]; subst. cbn [fst snd] in Hr. congruence.
Qed.

Theorem serve_ok_iff ix qs rs :
  serve H ix qs = Ok rs ↔
  Forall2 (λ (pq : nat * wquery) r, serve_one H ix pq.1 pq.2 = Ok r) (zip (seq 0 (length qs)) qs) rs.
Proof. apply serve_from_ok_iff. Qed.

(** The same, pointwise. *)
Theorem serve_ok_pointwise ix qs rs :
  serve H ix qs = Ok rs ↔
  length rs = length qs ∧ ∀ i q, qs !! i = Some q → ∃ r, rs !! i = Some r ∧ serve_one H ix i q = Ok r.
Proof.
  rewrite serve_ok_iff.
  assert (Hz : ∀ i q, qs !! i = Some q → zip (seq 0 (length qs)) qs !! i = Some (i, q)).
  { intros i q Hq. apply lookup_zip_with_Some. exists i, q. split; [done|]. split; [|done].
    apply lookup_seq. split; [done|]. by apply lookup_lt_Some in Hq. }
  split.
  - intros Hall. split.
    + apply Forall2_length in Hall. rewrite zip_with_length, seq_length in Hall. lia.
    + intros i q Hq. destruct (Forall2_lookup_l _ _ _ _ _ Hall (Hz i q Hq)) as (r & Hr & Hs).
      by exists r.
  - intros [Hlen Hall]. apply Forall2_same_length_lookup_2.
    + rewrite zip_with_length, seq_length. lia.
    + intros i [j q] r Hl Hr. apply lookup_zip_with_Some in Hl as (j' & q' & [= <- <-] & Hj & Hq).
      apply lookup_seq in Hj as [-> _]. cbn [fst snd Nat.add].
      destruct (Hall i q Hq) as (r' & Hr' & Hs). congruence.
Qed.

Corollary serve_ok_length ix qs rs : serve H ix qs = Ok rs → length rs = length qs.
Proof. intros Hs. by apply serve_ok_pointwise in Hs as [Hlen _]. Qed.

(** Failure: the whole call is an error exactly when some member fails; there is no
    partial response (the outcome type has no such value), and the first failing member
    decides. *)
Lemma serve_from_err_iff ix pos qs :
  serve_from H ix pos qs = Err ↔
  ∃ i q, qs !! i = Some q ∧ serve_one H ix (pos + i) q = Err
         ∧ ∀ j q', (j < i)%nat → qs !! j = Some q' → ∃ r, serve_one H ix (pos + j) q' = Ok r.
Proof.
  revert pos. induction qs as [|q qs IH]; intros pos; cbn [serve_from].
  - split; [done|]. by intros (i & q & Hd & _).
  - destruct (serve_one H ix pos q) as [r| | |] eqn:Hq; cbn [out_bind].
    + assert (Hm : out_map (cons r) (serve_from H ix (S pos) qs) = Err ↔ serve_from H ix (S pos) qs = Err).
      { destruct (serve_from H ix (S pos) qs); done. }
      rewrite Hm, IH. split.
      * intros (i & q' & Hl & He & Hb). exists (S i), q'. split; [done|].
        split; [by rewrite Nat.add_succ_r|].
        intros [|j] q'' Hj Hl'; cbn in Hl'.
        -- injection Hl' as <-. exists r. by rewrite Nat.add_0_r.
        -- rewrite Nat.add_succ_r. apply (Hb j q''); [lia|done].
      * intros (i & q' & Hl & He & Hb). destruct i as [|i]; cbn in Hl.
        -- injection Hl as <-. rewrite Nat.add_0_r in He. congruence.
        -- exists i, q'. split; [done|]. split; [by rewrite Nat.add_succ_r in He|].
           intros j q'' Hj Hl'. specialize (Hb (S j) q''). rewrite Nat.add_succ_r in Hb.
           apply Hb; [lia|done].
    + split; [|done]. intros _. exists 0%nat, q. split; [done|]. split; [by rewrite Nat.add_0_r|].
      intros j q' Hj. lia.
    + split; [done|]. intros (i & q' & Hl & He & Hb). destruct i as [|i]; cbn in Hl.
      * injection Hl as <-. rewrite Nat.add_0_r in He. congruence.
      * destruct (Hb 0%nat q) as [r Hr]; [lia|done|]. rewrite Nat.add_0_r in Hr. congruence.
    + split; [done|]. intros (i & q' & Hl & He & Hb). destruct i as [|i]; cbn in Hl.
      * injection Hl as <-. rewrite Nat.add_0_r in He. congruence.
      * destruct (Hb 0%nat q) as [r Hr]; [lia|done|]. rewrite Nat.add_0_r in Hr. congruence.
Qed.

Theorem serve_err_iff ix qs :
  serve H ix qs = Err ↔
  ∃ i q, qs !! i = Some q ∧ serve_one H ix i q = Err
         ∧ ∀ j q', (j < i)%nat → qs !! j = Some q' → ∃ r, serve_one H ix j q' = Ok r.
Proof. apply serve_from_err_iff. Qed.

(** * C14: no request can crash the server *)
Lemma serve_from_never_panics ix pos qs :
  serve_from H ix pos qs ≠ Panic ∧ serve_from H ix pos qs ≠ Hang.
Proof.
  revert pos. induction qs as [|q qs IH]; intros pos; cbn [serve_from]; [done|].
  apply out_bind_clean; [apply serve_one_never_panics|]. intros r. apply out_map_clean, IH.
Qed.

Theorem serve_never_panics ix qs : serve H ix qs ≠ Panic ∧ serve H ix qs ≠ Hang.
Proof. apply serve_from_never_panics. Qed.

(** Since the handler cannot fail in another way, any failing member makes the call fail,
    and the call is an all-or-nothing answer. *)
Theorem serve_err_iff_exists ix qs :
  serve H ix qs = Err ↔ ∃ i q, qs !! i = Some q ∧ serve_one H ix i q = Err.
Proof.
  split.
  - intros (i & q & Hl & He & _)%serve_err_iff. by exists i, q.
  - intros (i & q & Hl & He).
    destruct (serve H ix qs) as [rs| | |] eqn:Hs; [|done|by destruct (serve_never_panics ix qs)..].
    apply serve_ok_pointwise in Hs as [_ Hall]. destruct (Hall i q Hl) as (r & _ & Hr). congruence.
Qed.

Corollary serve_ok_or_err ix qs : (∃ rs, serve H ix qs = Ok rs ∧ length rs = length qs) ∨ serve H ix qs = Err.
Proof.
  destruct (serve H ix qs) as [rs| | |] eqn:Hs; [|by right|by destruct (serve_never_panics ix qs)..].
  left. exists rs. split; [done|]. by apply (serve_ok_length ix).
Qed.

(** The handler keeps no state between requests: a session is answered request by request,
    each answer being the one the request gets alone. *)
Theorem serve_independent ix (reqs : list (list wquery)) i qs :
  reqs !! i = Some qs → map (serve H ix) reqs !! i = Some (serve H ix qs).
Proof. intros Hl. by rewrite list_lookup_fmap, Hl. Qed.

Theorem serve_independent_prefix ix (before : list (list wquery)) qs :
  last (map (serve H ix) (before ++ [qs])) = Some (serve H ix qs).
Proof. rewrite map_app. cbn [map]. by rewrite last_snoc. Qed.

(** Incomplete requests are errors. *)
Example serve_no_expr ix id gb : serve H ix [WQuery id None gb] = Err.
Proof. reflexivity. Qed.
Example serve_not_none ix id gb : serve H ix [WQuery id (Some (WNot None)) gb] = Err.
Proof. reflexivity. Qed.
Example serve_and_unset ix id gb : serve H ix [WQuery id (Some (WAnd [WUnset])) gb] = Err.
Proof. reflexivity. Qed.
Example serve_or_unset ix id gb : serve H ix [WQuery id (Some (WOr [WEq [97] [49] 0; WUnset])) gb] = Err.
Proof. reflexivity. Qed.
Example serve_unset ix id gb : serve H ix [WQuery id (Some WUnset) gb] = Err.
Proof. reflexivity. Qed.
Example serve_deep_hole ix id gb :
  serve H ix [WQuery id (Some (WNot (Some (WAnd [WEq [97] [49] 0; WOr [WNot None]])))) gb] = Err.
Proof. reflexivity. Qed.

(** * C13: the grpc data source returns the same rows as the file data source *)
Theorem C13_grpc_rows ix q args : grpc_stmt_query H ix q args = stmt_query H ix q args.
Proof.
  unfold grpc_stmt_query, stmt_query. destruct (bind (pq_expr q) args) as [e| | |]; cbn [out_bind]; try done.
  unfold serve. cbn [serve_from]. unfold serve_one. cbn [wq_expr wq_group_by wq_id].
  rewrite wire_expr_to_wire.
  destruct (execute H ix (Query (to_expr e) (pq_group_by q))) as [r| | |]; cbn [out_map out_bind]; try done.
Qed.

End AdapterProofs3.

Print Assumptions populate_into_spec.
Print Assumptions execute_q_fresh.
Print Assumptions C08_reuse.
Print Assumptions C08_pinned_refuted.
Print Assumptions execute_clean.
Print Assumptions rows_of_row_width.
Print Assumptions stmt_query_ok_iff.
Print Assumptions stmt_query_never_panics.
Print Assumptions C12_pinned_refuted.
Print Assumptions prepared_equals_direct.
Print Assumptions too_few_args_err_both.
Print Assumptions prepared_query_never_panics.
Print Assumptions sql_query_never_panics.
Print Assumptions wire_expr_to_wire.
Print Assumptions serve_ok_iff.
Print Assumptions serve_ok_pointwise.
Print Assumptions serve_err_iff.
Print Assumptions serve_err_iff_exists.
Print Assumptions serve_never_panics.
Print Assumptions C13_grpc_rows.

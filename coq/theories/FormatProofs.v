(** C10: the formatted text of a well-formed query is accepted by the parser, the parsed
    tree has the same meaning (equal [norm]), and a second round is a fixpoint. *)
From updog Require Import Prelude QParser BindProofs.
From Coq Require Import ZifyN ZifyNat ZifyBool.
Local Open Scope N_scope.

(** * (a) Token view of the formatter *)
Definition tparens (b : bool) (ts : list tok) : list tok := if b then TLP :: ts ++ [TRP] else ts.

Fixpoint tjoin (op : tok) (l : list (list tok)) : list tok :=
  match l with
  | [] => []
  | [x] => x
  | x :: r => x ++ op :: tjoin op r
  end.

Fixpoint fmt_toks (e : pexpr) : list tok :=
  match e with
  | PEq c v ph => if 0 <? ph then [TField c; TEq; TPh (dollar :: decimal ph)]
                  else [TField c; TEq; TValue (format_string v)]
  | PNot e' => TNot :: tparens (is_and e' || is_or e') (fmt_toks e')
  | PAnd es => tjoin TAnd (map (λ e', tparens (is_or e') (fmt_toks e')) es)
  | POr es => tjoin TOr (map (λ e', tparens (is_and e') (fmt_toks e')) es)
  end.

Definition lexeme (t : tok) : str :=
  match t with
  | TLP => [40] | TRP => [41] | TAnd => [38] | TOr => [124] | TNot => [94] | TEq => [61]
  | TComma => [44] | TSemi => [59]
  | TField s => s | TValue s => s | TPh s => s
  | TEOF => [] | TError => []
  end.

(** Lexemes separated by single spaces. *)
Definition spell (ts : list tok) : str := join [sp] (map lexeme ts).

(** The tokens of the group-by list: fields separated by commas. *)
Fixpoint fields_toks (cs : list str) : list tok :=
  match cs with
  | [] => []
  | [c] => [TField c]
  | c :: r => TField c :: TComma :: fields_toks r
  end.

Definition query_toks (q : pquery) : list tok :=
  fmt_toks (pq_expr q) ++
  match pq_group_by q with
  | [] => []
  | cs => TSemi :: fields_toks cs
  end.

(** Every operator node has at least one operand (implied by [wf_expr]). *)
Fixpoint ne_expr (e : pexpr) : bool :=
  match e with
  | PEq _ _ _ => true
  | PNot e' => ne_expr e'
  | PAnd es | POr es => negb (bool_decide (es = [])) && forallb ne_expr es
  end.

Lemma forallb_Forall {A} (f : A → bool) (l : list A) :
  forallb f l = true ↔ Forall (λ x, f x = true) l.
Proof.
  induction l as [|x l IH]; cbn [forallb]; [split; [constructor|done]|].
  by rewrite andb_true_iff, Forall_cons, IH.
Qed.

Lemma Forall_mp2 {A} (P Q : A → Prop) (l : list A) :
  Forall (λ x, P x → Q x) l → Forall P l → Forall Q l.
Proof.
  intros H. induction H as [|x l Hx _ IH]; intros HP; [constructor|].
  apply Forall_cons in HP as [H1 H2]. constructor; [by apply Hx | by apply IH].
Qed.

Lemma negb_nil_ne {A} (l : list A) `{!Decision (l = [])} :
  negb (bool_decide (l = [])) = true ↔ l ≠ [].
Proof. rewrite negb_true_iff, bool_decide_eq_false. done. Qed.

Lemma wf_ne e : wf_expr e = true → ne_expr e = true.
Proof.
  induction e as [c v ph|e IHe|es IHes|es IHes] using pexpr_ind'; cbn [wf_expr ne_expr]; intros Hwf.
  - done.
  - by apply IHe.
  - apply andb_true_iff in Hwf as [Hne Hall]. rewrite Hne. cbn [andb].
    apply forallb_Forall. apply forallb_Forall in Hall. exact (Forall_mp2 _ _ _ IHes Hall).
  - apply andb_true_iff in Hwf as [Hne Hall]. rewrite Hne. cbn [andb].
    apply forallb_Forall. apply forallb_Forall in Hall. exact (Forall_mp2 _ _ _ IHes Hall).
Qed.

(** ** [join], [spell], [tjoin] *)
Lemma join_cons2 (sep : str) x y r : join sep (x :: y :: r) = x ++ sep ++ join sep (y :: r).
Proof. done. Qed.

Lemma join_app (sep : str) (l1 l2 : list str) :
  l1 ≠ [] → l2 ≠ [] → join sep (l1 ++ l2) = join sep l1 ++ sep ++ join sep l2.
Proof.
  intros H1 H2. induction l1 as [|x l1 IH]; [done|].
  destruct l1 as [|y l1].
  - destruct l2 as [|z l2]; [done|]. done.
  - change ((x :: y :: l1) ++ l2) with (x :: y :: (l1 ++ l2)).
    rewrite !join_cons2. change (y :: l1 ++ l2) with ((y :: l1) ++ l2).
    rewrite IH by done. by rewrite <- !app_assoc.
Qed.

Lemma spell_app ts1 ts2 :
  ts1 ≠ [] → ts2 ≠ [] → spell (ts1 ++ ts2) = spell ts1 ++ sp :: spell ts2.
Proof.
  intros H1 H2. unfold spell. rewrite map_app, join_app.
  - done.
  - by destruct ts1.
  - by destruct ts2.
Qed.

Lemma spell_cons t ts : ts ≠ [] → spell (t :: ts) = lexeme t ++ sp :: spell ts.
Proof. intros H. by apply (spell_app [t] ts). Qed.

Lemma spell_parens b ts :
  ts ≠ [] → spell (tparens b ts) = parens b (spell ts).
Proof.
  intros Hne. destruct b; [|done]. unfold tparens, parens.
  rewrite spell_cons by (by destruct ts).
  rewrite spell_app by done. done.
Qed.

Lemma tparens_ne b ts : ts ≠ [] → tparens b ts ≠ [].
Proof. by destruct b. Qed.

Lemma tjoin_cons2 op x y r : tjoin op (x :: y :: r) = x ++ op :: tjoin op (y :: r).
Proof. done. Qed.

Lemma tjoin_ne op l : l ≠ [] → Forall (λ x, x ≠ []) l → tjoin op l ≠ [].
Proof.
  intros Hl Hall. destruct l as [|x [|y r]]; [done| |].
  - by apply Forall_cons in Hall as [? _].
  - rewrite tjoin_cons2. apply Forall_cons in Hall as [Hx _]. by destruct x.
Qed.

Lemma tjoin_app op l1 l2 :
  l1 ≠ [] → l2 ≠ [] → tjoin op (l1 ++ l2) = tjoin op l1 ++ op :: tjoin op l2.
Proof.
  intros H1 H2. induction l1 as [|x l1 IH]; [done|].
  destruct l1 as [|y l1].
  - by destruct l2.
  - change ((x :: y :: l1) ++ l2) with (x :: y :: (l1 ++ l2)).
    rewrite !tjoin_cons2. change (y :: l1 ++ l2) with ((y :: l1) ++ l2).
    rewrite IH by done. by rewrite <- !app_assoc.
Qed.

Lemma spell_tjoin op (l : list (list tok)) :
  Forall (λ x, x ≠ []) l →
  spell (tjoin op l) = join ([sp] ++ lexeme op ++ [sp]) (map spell l).
Proof.
  intros Hall. induction Hall as [|x l Hx Hall IH]; [done|].
  destruct l as [|y l]; [done|].
  rewrite tjoin_cons2. cbn [map]. rewrite join_cons2.
  rewrite spell_app by done.
  rewrite spell_cons by (apply tjoin_ne; done).
  rewrite IH. cbn [map]. by rewrite <- !app_assoc.
Qed.

Lemma fmt_toks_ne e : ne_expr e = true → fmt_toks e ≠ [].
Proof.
  induction e as [c v ph|e IHe|es IHes|es IHes] using pexpr_ind'; cbn [ne_expr fmt_toks]; intros Hne.
  - by destruct (0 <? ph).
  - done.
  - apply andb_true_iff in Hne as [Hnil Hall]. apply forallb_Forall in Hall.
    apply tjoin_ne.
    + destruct es; [by rewrite bool_decide_eq_true_2 in Hnil | done].
    + rewrite Forall_map. eapply Forall_impl; [exact (Forall_mp2 _ _ _ IHes Hall)|].
      intros e He; cbn. by apply tparens_ne.
  - apply andb_true_iff in Hne as [Hnil Hall]. apply forallb_Forall in Hall.
    apply tjoin_ne.
    + destruct es; [by rewrite bool_decide_eq_true_2 in Hnil | done].
    + rewrite Forall_map. eapply Forall_impl; [exact (Forall_mp2 _ _ _ IHes Hall)|].
      intros e He; cbn. by apply tparens_ne.
Qed.

Theorem format_expr_spell e : ne_expr e = true → format_expr e = spell (fmt_toks e).
Proof.
  induction e as [c v ph|e IHe|es IHes|es IHes] using pexpr_ind';
    cbn [ne_expr fmt_toks format_expr]; intros Hne.
  - destruct (0 <? ph); unfold spell; cbn [map lexeme join]; by rewrite <- ?app_assoc.
  - rewrite spell_cons by (apply tparens_ne, fmt_toks_ne; done).
    rewrite spell_parens by (by apply fmt_toks_ne). by rewrite IHe.
  - apply andb_true_iff in Hne as [_ Hall]. apply forallb_Forall in Hall.
    rewrite spell_tjoin.
    + cbn [lexeme app]. f_equal. rewrite map_map.
      induction IHes as [|e es He _ IH]; [done|]. cbn [map].
      apply Forall_cons in Hall as [H1 H2]. rewrite IH by done. f_equal.
      rewrite spell_parens by (by apply fmt_toks_ne). by rewrite He.
    + rewrite Forall_map. eapply Forall_impl; [exact Hall|].
      intros e He; cbn. apply tparens_ne, fmt_toks_ne, He.
  - apply andb_true_iff in Hne as [_ Hall]. apply forallb_Forall in Hall.
    rewrite spell_tjoin.
    + cbn [lexeme app]. f_equal. rewrite map_map.
      induction IHes as [|e es He _ IH]; [done|]. cbn [map].
      apply Forall_cons in Hall as [H1 H2]. rewrite IH by done. f_equal.
      rewrite spell_parens by (by apply fmt_toks_ne). by rewrite He.
    + rewrite Forall_map. eapply Forall_impl; [exact Hall|].
      intros e He; cbn. apply tparens_ne, fmt_toks_ne, He.
Qed.

(** The query text: the expression, then [" ; "] and the fields joined by [", "]. *)
Theorem format_query_spell q :
  ne_expr (pq_expr q) = true →
  format_query q = spell (fmt_toks (pq_expr q)) ++
                   match pq_group_by q with
                   | [] => []
                   | cs => [sp; 59; sp] ++ join [44; sp] cs
                   end.
Proof. intros Hne. unfold format_query. by rewrite format_expr_spell. Qed.

(** * (b) The lexer reads back the spelled tokens *)

(** One-step unfoldings of [lex_go] (all by computation). *)
Definition text_step (b : N) (s' : str) : list tok :=
  if is_ws b then lex_go MText [] s'
  else match single_tok b with
       | Some t => t :: lex_go MText [] s'
       | None =>
           if is_alpha b then lex_go MField [b] s'
           else if b =? quote then lex_go MValue [b] s'
           else if b =? dollar then lex_go MPh [b] s'
           else [TError]
       end.

Lemma lex_text_cons acc b s : lex_go MText acc (b :: s) = text_step b s.
Proof. done. Qed.
Lemma lex_field_cons acc b s :
  lex_go MField acc (b :: s) =
  if is_ident b then lex_go MField (b :: acc) s else TField (rev acc) :: lex_go MText [] (b :: s).
Proof. done. Qed.
Lemma lex_ph_cons acc b s :
  lex_go MPh acc (b :: s) =
  if is_digit b then lex_go MPh (b :: acc) s else TPh (rev acc) :: lex_go MText [] (b :: s).
Proof. done. Qed.
Lemma lex_value_cons acc b s :
  lex_go MValue acc (b :: s) =
  if b =? quote then lex_go MValueQ (b :: acc) s else lex_go MValue (b :: acc) s.
Proof. done. Qed.
Lemma lex_valueq_cons acc b s :
  lex_go MValueQ acc (b :: s) =
  if b =? quote then lex_go MValue (b :: acc) s else TValue (rev acc) :: lex_go MText [] (b :: s).
Proof. done. Qed.

(** "The rest of the input does not continue the lexeme." *)
Definition hd_not (p : N → bool) (rest : str) : Prop :=
  match rest with b :: _ => p b = false | [] => True end.

Lemma lex_field_run r : ∀ acc rest,
  forallb is_ident r = true → hd_not is_ident rest →
  lex_go MField acc (r ++ rest) = TField (rev acc ++ r) :: lex_go MText [] rest.
Proof.
  induction r as [|b r IH]; intros acc rest Hr Hrest.
  - rewrite app_nil_r. cbn [app]. destruct rest as [|b rest]; [done|].
    cbn [hd_not] in Hrest. by rewrite lex_field_cons, Hrest.
  - cbn [forallb] in Hr. apply andb_true_iff in Hr as [Hb Hr].
    cbn [app]. rewrite lex_field_cons, Hb, IH by done. cbn [rev]. by rewrite <- app_assoc.
Qed.

Lemma alpha_text_step b s : is_alpha b = true → text_step b s = lex_go MField [b] s.
Proof.
  intros Hb. unfold text_step.
  assert (is_ws b = false) as ->.
  { unfold is_alpha, is_upper, is_lower, is_ws in *. lia. }
  assert (single_tok b = None) as ->.
  { unfold single_tok. unfold is_alpha, is_upper, is_lower in Hb.
    repeat match goal with
           | |- context [N.eqb b ?k] => destruct (N.eqb_spec b k) as [Hk|_]; [exfalso; lia|]
           end. done. }
  by rewrite Hb.
Qed.

Lemma lex_field c rest :
  ident c = true → hd_not is_ident rest →
  lex_go MText [] (c ++ rest) = TField c :: lex_go MText [] rest.
Proof.
  intros Hc Hrest. destruct c as [|b r]; [done|]. cbn [ident] in Hc.
  apply andb_true_iff in Hc as [Hb Hr]. cbn [app].
  rewrite lex_text_cons, alpha_text_step, lex_field_run by done. done.
Qed.

Lemma lex_ph_run r : ∀ acc rest,
  forallb is_digit r = true → hd_not is_digit rest →
  lex_go MPh acc (r ++ rest) = TPh (rev acc ++ r) :: lex_go MText [] rest.
Proof.
  induction r as [|b r IH]; intros acc rest Hr Hrest.
  - rewrite app_nil_r. cbn [app]. destruct rest as [|b rest]; [done|].
    cbn [hd_not] in Hrest. by rewrite lex_ph_cons, Hrest.
  - cbn [forallb] in Hr. apply andb_true_iff in Hr as [Hb Hr].
    cbn [app]. rewrite lex_ph_cons, Hb, IH by done. cbn [rev]. by rewrite <- app_assoc.
Qed.

Lemma lex_ph ds rest :
  forallb is_digit ds = true → hd_not is_digit rest →
  lex_go MText [] ((dollar :: ds) ++ rest) = TPh (dollar :: ds) :: lex_go MText [] rest.
Proof.
  intros Hds Hrest. cbn [app]. rewrite lex_text_cons.
  change (text_step dollar (ds ++ rest)) with (lex_go MPh [dollar] (ds ++ rest)).
  by rewrite lex_ph_run.
Qed.

Lemma lex_value_run v : ∀ acc rest,
  hd_not (λ b, b =? quote) rest →
  lex_go MValue acc (escape v ++ quote :: rest) =
  TValue (rev acc ++ escape v ++ [quote]) :: lex_go MText [] rest.
Proof.
  induction v as [|a v IH]; intros acc rest Hrest.
  - cbn [escape app]. rewrite lex_value_cons. change (quote =? quote) with true. cbv iota.
    destruct rest as [|b rest]; [done|]. cbn [hd_not] in Hrest.
    by rewrite lex_valueq_cons, Hrest.
  - cbn [escape]. destruct (N.eqb_spec a quote) as [->|Hne].
    + cbn [app]. rewrite lex_value_cons. change (quote =? quote) with true. cbv iota.
      rewrite lex_valueq_cons. change (quote =? quote) with true. cbv iota.
      rewrite IH by done. cbn [rev]. by rewrite <- !app_assoc.
    + cbn [app]. rewrite lex_value_cons.
      destruct (N.eqb_spec a quote) as [|_]; [done|].
      rewrite IH by done. cbn [rev]. by rewrite <- !app_assoc.
Qed.

Lemma lex_value v rest :
  hd_not (λ b, b =? quote) rest →
  lex_go MText [] (format_string v ++ rest) = TValue (format_string v) :: lex_go MText [] rest.
Proof.
  intros Hrest. unfold format_string. cbn [app]. rewrite lex_text_cons.
  change (text_step quote ?s) with (lex_go MValue [quote] s).
  rewrite <- app_assoc. cbn [app]. by rewrite lex_value_run.
Qed.

(** Tokens the formatter can write. *)
Definition good_tok (t : tok) : Prop :=
  match t with
  | TField c => ident c = true
  | TValue raw => ∃ v, raw = format_string v
  | TPh raw => ∃ ds, raw = dollar :: ds ∧ forallb is_digit ds = true
  | TEOF | TError => False
  | _ => True
  end.

(** The text that follows a token: nothing, or a space. *)
Definition sep_ok (rest : str) : Prop := match rest with b :: _ => b = sp | [] => True end.

Lemma lex_tok t rest :
  good_tok t → sep_ok rest →
  lex_go MText [] (lexeme t ++ rest) = t :: lex_go MText [] rest.
Proof.
  intros Ht Hrest.
  assert (hd_not is_ident rest ∧ hd_not is_digit rest ∧ hd_not (λ b, b =? quote) rest)
    as (Hi & Hd & Hq).
  { destruct rest as [|b r]; [done|]. cbn in Hrest. subst b. done. }
  destruct t; cbn [lexeme good_tok] in *; try done.
  - by apply lex_field.
  - destruct Ht as [v ->]. by apply lex_value.
  - destruct Ht as (ds & -> & Hds). by apply lex_ph.
Qed.

Lemma lex_sp rest : lex_go MText [] (sp :: rest) = lex_go MText [] rest.
Proof. done. Qed.

Lemma lex_spell_go ts : ∀ rest,
  Forall good_tok ts → sep_ok rest →
  lex_go MText [] (spell ts ++ rest) = ts ++ lex_go MText [] rest.
Proof.
  induction ts as [|t ts IH]; intros rest Hts Hrest; [done|].
  apply Forall_cons in Hts as [Ht Hts].
  destruct ts as [|t' ts].
  - unfold spell. cbn [map join app]. by apply lex_tok.
  - rewrite spell_cons by done. rewrite <- app_assoc. cbn [app].
    rewrite lex_tok, lex_sp, IH by done. done.
Qed.

Theorem lex_spell ts : Forall good_tok ts → lex (spell ts) = ts ++ [TEOF].
Proof.
  intros Hts. unfold lex. rewrite <- (app_nil_r (spell ts)). by rewrite lex_spell_go.
Qed.

(** The group-by list ["c, d, e"]. *)
Lemma lex_fields cs :
  Forall (λ c, ident c = true) cs →
  lex_go MText [] (join [44; sp] cs) = fields_toks cs ++ [TEOF].
Proof.
  intros Hcs. induction Hcs as [|c cs Hc Hcs IH]; [done|].
  destruct cs as [|c' cs].
  - cbn [join fields_toks]. pose proof (lex_field c [] Hc I) as Hl. by rewrite app_nil_r in Hl.
  - rewrite join_cons2. cbn [fields_toks]. rewrite lex_field by done.
    cbn [app]. change (lex_go MText [] (44 :: sp :: ?s)) with (TComma :: lex_go MText [] s).
    by rewrite IH.
Qed.

(** * (c) Decoding inverts formatting *)
Lemma unescape_cons_nq a s : a ≠ quote → unescape (a :: s) = a :: unescape s.
Proof.
  intros Hne. cbn [unescape]. destruct s as [|b s]; [done|].
  destruct (N.eqb_spec a quote) as [|_]; done.
Qed.

Lemma unescape_escape v : unescape (escape v) = v.
Proof.
  induction v as [|a v IH]; [done|]. cbn [escape].
  destruct (N.eqb_spec a quote) as [->|Hne].
  - cbn [unescape]. change (quote =? quote) with true. cbn [andb]. by rewrite IH.
  - by rewrite unescape_cons_nq, IH.
Qed.

Lemma strip_quotes_format_string v : strip_quotes (format_string v) = escape v.
Proof.
  unfold format_string, strip_quotes.
  destruct (escape v ++ [quote]) as [|b r] eqn:E; [by destruct (escape v)|].
  change (quote =? quote) with true. cbv iota. rewrite <- E, rev_app_distr. cbn [rev app].
  change (quote =? quote) with true. cbv iota. apply rev_involutive.
Qed.

Theorem decode_format_string v : decode_string (format_string v) = v.
Proof.
  unfold decode_string.
  assert (unescape (strip_quotes (format_string v)) = v) as Hu
    by (by rewrite strip_quotes_format_string, unescape_escape).
  unfold format_string in *.
  destruct (escape v ++ [quote]) as [|b r] eqn:E; [by destruct (escape v)|]. exact Hu.
Qed.

(** ** Decimal numerals *)
Definition dstep (acc d : N) : N := 10 * acc + (d - 48).

Lemma digits_val_fold ds : digits_val ds = fold_left dstep ds 0.
Proof. done. Qed.

Lemma digits_fuel_spec fuel : ∀ n acc,
  n < 2 ^ N.of_nat fuel → fuel ≠ O →
  ∃ ds, digits_fuel fuel n acc = ds ++ acc ∧ ds ≠ [] ∧ forallb is_digit ds = true ∧
        ∀ a, fold_left dstep ds a = a * 10 ^ N.of_nat (length ds) + n.
Proof.
  induction fuel as [|f IH]; intros n acc Hn Hf; [done|]. clear Hf.
  pose proof (N.div_mod n 10 ltac:(done)) as Hdm.
  pose proof (N.mod_lt n 10 ltac:(done)) as Hml.
  cbn [digits_fuel]. destruct (N.ltb_spec n 10) as [Hlt|Hge].
  - exists [48 + n `mod` 10]. split; [done|]. split; [done|]. split.
    + cbn [forallb]. unfold is_digit. lia.
    + intros a. cbn [fold_left length]. unfold dstep. change (10 ^ N.of_nat 1) with 10.
      rewrite (N.mod_small n 10) by done. lia.
  - rewrite Nat2N.inj_succ, N.pow_succ_r' in Hn.
    assert (n / 10 < 2 ^ N.of_nat f) as Hq by lia.
    assert (f ≠ O) as Hf.
    { intros ->. cbn in Hq. lia. }
    destruct (IH (n / 10) ((48 + n `mod` 10) :: acc) Hq Hf) as (ds & Hds & Hne & Hdig & Hval).
    exists (ds ++ [48 + n `mod` 10]). split; [|split; [|split]].
    + rewrite Hds, <- app_assoc. done.
    + by destruct ds.
    + rewrite forallb_app, Hdig. cbn [forallb]. unfold is_digit. lia.
    + intros a. rewrite fold_left_app, Hval. cbn [fold_left]. unfold dstep.
      rewrite app_length. cbn [length]. rewrite Nat.add_1_r, Nat2N.inj_succ, N.pow_succ_r'.
      set (p := 10 ^ N.of_nat (length ds)). nia.
Qed.

Lemma decimal_spec n :
  ∃ ds, decimal n = ds ∧ ds ≠ [] ∧ forallb is_digit ds = true ∧ digits_val ds = n.
Proof.
  unfold decimal.
  destruct (digits_fuel_spec (S (N.to_nat (N.log2 n))) n []) as (ds & Hds & Hne & Hdig & Hval).
  - rewrite Nat2N.inj_succ, N2Nat.id.
    destruct (N.eq_dec n 0) as [->|Hn0]; [done|].
    apply N.log2_spec. lia.
  - done.
  - exists ds. rewrite app_nil_r in Hds. split; [done|]. split; [done|]. split; [done|].
    rewrite digits_val_fold, Hval. lia.
Qed.

Theorem digits_val_decimal n : digits_val (decimal n) = n.
Proof. destruct (decimal_spec n) as (ds & -> & _ & _ & H). done. Qed.

Lemma decimal_digits n : forallb is_digit (decimal n) = true.
Proof. destruct (decimal_spec n) as (ds & -> & _ & H & _). done. Qed.

Lemma decimal_ne n : decimal n ≠ [].
Proof. destruct (decimal_spec n) as (ds & -> & H & _ & _). done. Qed.

Theorem decode_placeholder_decimal n :
  1 ≤ n → n ≤ max_placeholder → decode_placeholder (dollar :: decimal n) = Some n.
Proof.
  intros H1 H2. unfold decode_placeholder.
  pose proof (decimal_ne n) as Hne. pose proof (digits_val_decimal n) as Hv.
  destruct (decimal n) as [|d ds]; [done|]. rewrite Hv.
  destruct (N.leb_spec 1 n); [|lia]. destruct (N.leb_spec n max_placeholder); [|lia]. done.
Qed.

(** * (d) The tree the grammar assigns to the formatted tokens *)
Definition mk_and (l : list pexpr) : pexpr := match l with [x] => x | l => PAnd l end.
Definition mk_or (l : list pexpr) : pexpr := match l with [x] => x | l => POr l end.

(** [and_items e]: the trees of the '&'-separated simple expressions that [e] contributes when
    it is written as an operand of an AND (an AND operand is spliced: it is written without
    parentheses); [or_items] likewise; [reparse e] is the tree of the whole text. *)
Fixpoint reparse (e : pexpr) : pexpr :=
  match e with
  | PEq c v ph => PEq c v ph
  | PNot e' => PNot (reparse e')
  | PAnd es => mk_and (flat_map and_items es)
  | POr es => mk_or (flat_map or_items es)
  end
with and_items (e : pexpr) : list pexpr :=
  match e with
  | PEq c v ph => [PEq c v ph]
  | PNot e' => [PNot (reparse e')]
  | PAnd es => flat_map and_items es
  | POr es => [mk_or (flat_map or_items es)]
  end
with or_items (e : pexpr) : list pexpr :=
  match e with
  | PEq c v ph => [PEq c v ph]
  | PNot e' => [PNot (reparse e')]
  | PAnd es => [mk_and (flat_map and_items es)]
  | POr es => flat_map or_items es
  end.

Lemma and_items_not_and e : is_and e = false → and_items e = [reparse e].
Proof. by destruct e. Qed.
Lemma or_items_not_or e : is_or e = false → or_items e = [reparse e].
Proof. by destruct e. Qed.

(** One or more simple expressions separated by [op]. *)
Inductive G_seq (op : tok) : list tok → list pexpr → Prop :=
| Gsq_one ts e : G_simple ts e → G_seq op ts [e]
| Gsq_more ts es ts' e :
    G_seq op ts es → G_simple ts' e → G_seq op (ts ++ op :: ts') (es ++ [e]).

Lemma G_seq_app op ts1 l1 ts2 l2 :
  G_seq op ts1 l1 → G_seq op ts2 l2 → G_seq op (ts1 ++ op :: ts2) (l1 ++ l2).
Proof.
  intros H1 H2. induction H2 as [ts e He|ts es ts' e Hs IH He].
  - by constructor.
  - replace (ts1 ++ op :: ts ++ op :: ts') with ((ts1 ++ op :: ts) ++ op :: ts')
      by (by rewrite <- app_assoc).
    rewrite app_assoc. by constructor.
Qed.

Lemma G_chain_length op ts l : G_chain op ts l → (2 ≤ length l)%nat.
Proof.
  induction 1 as [|op ts es ts' e Hc IH Hs]; [done|]. rewrite app_length. lia.
Qed.

Lemma G_seq_chain op ts l :
  G_seq op ts l → (∃ e, l = [e] ∧ G_simple ts e) ∨ G_chain op ts l.
Proof.
  induction 1 as [ts e He|ts es ts' e Hs IH He].
  - left. by exists e.
  - right. destruct IH as [(e1 & -> & H1)|Hc].
    + by apply Gc_two.
    + by apply Gc_more.
Qed.

Lemma mk_and_ge2 l : (2 ≤ length l)%nat → mk_and l = PAnd l.
Proof. destruct l as [|x [|y r]]; cbn; intros; try lia; done. Qed.
Lemma mk_or_ge2 l : (2 ≤ length l)%nat → mk_or l = POr l.
Proof. destruct l as [|x [|y r]]; cbn; intros; try lia; done. Qed.

Lemma G_seq_expr_and ts l : G_seq TAnd ts l → G_expr ts (mk_and l).
Proof.
  intros H. apply G_seq_chain in H as [(e & -> & He)|Hc].
  - by apply Ge_simple.
  - rewrite mk_and_ge2 by (by eapply G_chain_length). by apply Ge_and.
Qed.

Lemma G_seq_expr_or ts l : G_seq TOr ts l → G_expr ts (mk_or l).
Proof.
  intros H. apply G_seq_chain in H as [(e & -> & He)|Hc].
  - by apply Ge_simple.
  - rewrite mk_or_ge2 by (by eapply G_chain_length). by apply Ge_or.
Qed.

Lemma G_seq_flat op (f : pexpr → list tok) (g : pexpr → list pexpr) es :
  es ≠ [] → Forall (λ e, G_seq op (f e) (g e)) es →
  G_seq op (tjoin op (map f es)) (flat_map g es).
Proof.
  intros Hne Hall. induction Hall as [|e es He Hall IH]; [done|].
  destruct es as [|e' es].
  - cbn [map tjoin flat_map]. by rewrite app_nil_r.
  - change (map f (e :: e' :: es)) with (f e :: f e' :: map f es). rewrite tjoin_cons2.
    change (flat_map g (e :: e' :: es)) with (g e ++ flat_map g (e' :: es)).
    apply G_seq_app; [done|]. by apply IH.
Qed.

Lemma wf_leaf c v ph :
  wf_expr (PEq c v ph) = true →
  ident c = true ∧ (ph = 0 ∨ (v = [] ∧ 1 ≤ ph ∧ ph ≤ max_placeholder)).
Proof.
  cbn [wf_expr]. intros H. apply andb_true_iff in H as [Hc H]. split; [done|].
  apply orb_true_iff in H as [H|H]; [left; lia|].
  apply andb_true_iff in H as [Hv Hp]. apply bool_decide_eq_true in Hv.
  destruct (N.eq_dec ph 0); [by left|right]. split; [done|]. split; [lia|].
  by apply N.leb_le.
Qed.

Lemma G_simple_leaf c v ph :
  wf_expr (PEq c v ph) = true → G_simple (fmt_toks (PEq c v ph)) (PEq c v ph).
Proof.
  intros Hwf. apply wf_leaf in Hwf as [_ [->|(-> & H1 & H2)]]; cbn [fmt_toks].
  - change (0 <? 0) with false. cbv iota.
    pose proof (Gs_lit c (format_string v)) as H. by rewrite decode_format_string in H.
  - destruct (N.ltb_spec 0 ph); [|lia]. apply Gs_ph. by apply decode_placeholder_decimal.
Qed.

Definition item_and (e : pexpr) : list tok := tparens (is_or e) (fmt_toks e).
Definition item_or (e : pexpr) : list tok := tparens (is_and e) (fmt_toks e).

Lemma wf_operands es :
  negb (bool_decide (es = [])) && forallb wf_expr es = true →
  es ≠ [] ∧ Forall (λ e, wf_expr e = true) es.
Proof.
  intros H. apply andb_true_iff in H as [H1 H2].
  split; [|by apply forallb_Forall]. intros ->. by vm_compute in H1.
Qed.

Theorem reparse_grammar e :
  wf_expr e = true →
  G_seq TAnd (item_and e) (and_items e) ∧
  G_seq TOr (item_or e) (or_items e) ∧
  G_expr (fmt_toks e) (reparse e) ∧
  G_simple (tparens (is_and e || is_or e) (fmt_toks e)) (reparse e).
Proof.
  unfold item_and, item_or.
  induction e as [c v ph|e IHe|es IHes|es IHes] using pexpr_ind'; intros Hwf.
  - pose proof (G_simple_leaf c v ph Hwf) as Hs.
    cbn [is_and is_or orb tparens reparse and_items or_items].
    repeat split; try (by constructor); done.
  - cbn [wf_expr] in Hwf. destruct (IHe Hwf) as (_ & _ & _ & H4).
    assert (G_simple (fmt_toks (PNot e)) (PNot (reparse e))) as Hs
      by (cbn [fmt_toks]; by apply Gs_not).
    cbn [is_and is_or orb tparens reparse and_items or_items].
    repeat split; try (by constructor); done.
  - cbn [wf_expr] in Hwf. apply wf_operands in Hwf as [Hne Hall].
    assert (G_seq TAnd (fmt_toks (PAnd es)) (flat_map and_items es)) as H1.
    { cbn [fmt_toks]. apply (G_seq_flat TAnd item_and and_items); [done|].
      eapply Forall_impl; [exact (Forall_mp2 _ _ _ IHes Hall)|]. intros e He; cbn. apply He. }
    assert (G_expr (fmt_toks (PAnd es)) (reparse (PAnd es))) as H3
      by (by apply G_seq_expr_and).
    cbn [is_and is_or orb tparens and_items or_items].
    repeat split; try done.
    + apply Gsq_one. by apply Gs_group.
    + by apply Gs_group.
  - cbn [wf_expr] in Hwf. apply wf_operands in Hwf as [Hne Hall].
    assert (G_seq TOr (fmt_toks (POr es)) (flat_map or_items es)) as H1.
    { cbn [fmt_toks]. apply (G_seq_flat TOr item_or or_items); [done|].
      eapply Forall_impl; [exact (Forall_mp2 _ _ _ IHes Hall)|]. intros e He; cbn. apply He. }
    assert (G_expr (fmt_toks (POr es)) (reparse (POr es))) as H3
      by (by apply G_seq_expr_or).
    cbn [is_and is_or orb tparens and_items or_items].
    repeat split; try done.
    + apply Gsq_one. by apply Gs_group.
    + by apply Gs_group.
Qed.

Corollary fmt_toks_G_expr e : wf_expr e = true → G_expr (fmt_toks e) (reparse e).
Proof. intros H. by apply reparse_grammar. Qed.

(** ** Normal forms: [norm] is idempotent *)
Definition un_and (e : pexpr) : list pexpr := match e with PAnd l => l | x => [x] end.
Definition un_or (e : pexpr) : list pexpr := match e with POr l => l | x => [x] end.

Lemma norm_and es : norm (PAnd es) = mk_and (flat_map (λ e', un_and (norm e')) es).
Proof.
  cbn [norm].
  rewrite (flat_map_ext _ (λ e', un_and (norm e'))) by (intros a; by destruct (norm a)).
  by destruct (flat_map _ es) as [|x [|y r]].
Qed.
Lemma norm_or es : norm (POr es) = mk_or (flat_map (λ e', un_or (norm e')) es).
Proof.
  cbn [norm].
  rewrite (flat_map_ext _ (λ e', un_or (norm e'))) by (intros a; by destruct (norm a)).
  by destruct (flat_map _ es) as [|x [|y r]].
Qed.

(** No AND directly under an AND, no OR directly under an OR, no single-operand AND/OR. *)
Fixpoint nf (e : pexpr) : bool :=
  match e with
  | PEq _ _ _ => true
  | PNot e' => nf e'
  | PAnd es => negb (length es =? 1)%nat && forallb (λ e', nf e' && negb (is_and e')) es
  | POr es => negb (length es =? 1)%nat && forallb (λ e', nf e' && negb (is_or e')) es
  end.

Lemma nf_and_inv es :
  nf (PAnd es) = true → length es ≠ 1%nat ∧ Forall (λ x, nf x = true ∧ is_and x = false) es.
Proof.
  cbn [nf]. intros H. apply andb_true_iff in H as [H1 H2]. split.
  - destruct (Nat.eqb_spec (length es) 1); done.
  - apply forallb_Forall in H2. eapply Forall_impl; [exact H2|]. intros x Hx; cbn in Hx.
    apply andb_true_iff in Hx as [? ?]. split; [done|]. by apply negb_true_iff.
Qed.

Lemma nf_or_inv es :
  nf (POr es) = true → length es ≠ 1%nat ∧ Forall (λ x, nf x = true ∧ is_or x = false) es.
Proof.
  cbn [nf]. intros H. apply andb_true_iff in H as [H1 H2]. split.
  - destruct (Nat.eqb_spec (length es) 1); done.
  - apply forallb_Forall in H2. eapply Forall_impl; [exact H2|]. intros x Hx; cbn in Hx.
    apply andb_true_iff in Hx as [? ?]. split; [done|]. by apply negb_true_iff.
Qed.

Lemma nf_and_intro es :
  length es ≠ 1%nat → Forall (λ x, nf x = true ∧ is_and x = false) es → nf (PAnd es) = true.
Proof.
  intros H1 H2. cbn [nf]. apply andb_true_iff. split.
  - destruct (Nat.eqb_spec (length es) 1); done.
  - apply forallb_Forall. eapply Forall_impl; [exact H2|]. intros x [Hx1 Hx2]; cbn.
    by rewrite Hx1, Hx2.
Qed.

Lemma nf_or_intro es :
  length es ≠ 1%nat → Forall (λ x, nf x = true ∧ is_or x = false) es → nf (POr es) = true.
Proof.
  intros H1 H2. cbn [nf]. apply andb_true_iff. split.
  - destruct (Nat.eqb_spec (length es) 1); done.
  - apply forallb_Forall. eapply Forall_impl; [exact H2|]. intros x [Hx1 Hx2]; cbn.
    by rewrite Hx1, Hx2.
Qed.

Lemma nf_mk_and m :
  Forall (λ x, nf x = true ∧ is_and x = false) m → nf (mk_and m) = true.
Proof.
  intros H. destruct m as [|x [|y r]].
  - done.
  - apply Forall_cons in H as [[H _] _]. done.
  - cbn [mk_and]. by apply nf_and_intro.
Qed.

Lemma nf_mk_or m :
  Forall (λ x, nf x = true ∧ is_or x = false) m → nf (mk_or m) = true.
Proof.
  intros H. destruct m as [|x [|y r]].
  - done.
  - apply Forall_cons in H as [[H _] _]. done.
  - cbn [mk_or]. by apply nf_or_intro.
Qed.

Lemma un_and_nf y :
  nf y = true → Forall (λ x, nf x = true ∧ is_and x = false) (un_and y).
Proof.
  intros H. destruct y; cbn [un_and]; try (by repeat constructor). by apply nf_and_inv.
Qed.

Lemma un_or_nf y :
  nf y = true → Forall (λ x, nf x = true ∧ is_or x = false) (un_or y).
Proof.
  intros H. destruct y; cbn [un_or]; try (by repeat constructor). by apply nf_or_inv.
Qed.

Lemma Forall_flat_map_intro {A B} (P : B → Prop) (Q : A → Prop) (f : A → list B) l :
  Forall Q l → (∀ x, Q x → Forall P (f x)) → Forall P (flat_map f l).
Proof.
  intros Hl Hf. induction Hl as [|x l Hx _ IH]; [constructor|].
  cbn [flat_map]. apply Forall_app. split; [by apply Hf | done].
Qed.

Theorem nf_norm e : nf (norm e) = true.
Proof.
  induction e as [c v ph|e IHe|es IHes|es IHes] using pexpr_ind'.
  - done.
  - done.
  - rewrite norm_and. apply nf_mk_and.
    eapply Forall_flat_map_intro; [exact IHes|]. intros x Hx. by apply un_and_nf.
  - rewrite norm_or. apply nf_mk_or.
    eapply Forall_flat_map_intro; [exact IHes|]. intros x Hx. by apply un_or_nf.
Qed.

Lemma un_and_mk_and m : Forall (λ x, is_and x = false) m → un_and (mk_and m) = m.
Proof.
  intros H. destruct m as [|x [|y r]]; [done| |done].
  apply Forall_cons in H as [H _]. by destruct x.
Qed.

Lemma un_or_mk_or m : Forall (λ x, is_or x = false) m → un_or (mk_or m) = m.
Proof.
  intros H. destruct m as [|x [|y r]]; [done| |done].
  apply Forall_cons in H as [H _]. by destruct x.
Qed.

Lemma mk_and_un_and y : nf y = true → mk_and (un_and y) = y.
Proof.
  intros H. destruct y as [| |es|]; try done. cbn [un_and].
  apply nf_and_inv in H as [H _]. by destruct es as [|x [|z r]].
Qed.

Lemma mk_or_un_or y : nf y = true → mk_or (un_or y) = y.
Proof.
  intros H. destruct y as [| | |es]; try done. cbn [un_or].
  apply nf_or_inv in H as [H _]. by destruct es as [|x [|z r]].
Qed.

Lemma norm_items_not_and es : Forall (λ x, is_and x = false) (flat_map (λ e', un_and (norm e')) es).
Proof.
  apply (Forall_flat_map_intro _ (λ _, True)); [by apply Forall_true|].
  intros x _. eapply Forall_impl; [apply un_and_nf, nf_norm|]. by intros y [_ ?].
Qed.

Lemma norm_items_not_or es : Forall (λ x, is_or x = false) (flat_map (λ e', un_or (norm e')) es).
Proof.
  apply (Forall_flat_map_intro _ (λ _, True)); [by apply Forall_true|].
  intros x _. eapply Forall_impl; [apply un_or_nf, nf_norm|]. by intros y [_ ?].
Qed.

Lemma flat_map_id_Forall {A} (f : A → list A) l :
  Forall (λ x, f x = [x]) l → flat_map f l = l.
Proof.
  induction 1 as [|x l Hx _ IH]; [done|]. cbn [flat_map]. by rewrite Hx, IH.
Qed.

Lemma nf_norm_id e : nf e = true → norm e = e.
Proof.
  induction e as [c v ph|e IHe|es IHes|es IHes] using pexpr_ind'; intros Hnf.
  - done.
  - cbn [norm]. cbn [nf] in Hnf. by rewrite IHe.
  - apply nf_and_inv in Hnf as [Hlen Hall]. rewrite norm_and, flat_map_id_Forall.
    + by destruct es as [|x [|y r]].
    + clear Hlen. induction IHes as [|x es Hx _ IH]; [constructor|].
      apply Forall_cons in Hall as [[H1 H2] Hall]. constructor; [|by apply IH].
      cbn. rewrite Hx by done. by destruct x.
  - apply nf_or_inv in Hnf as [Hlen Hall]. rewrite norm_or, flat_map_id_Forall.
    + by destruct es as [|x [|y r]].
    + clear Hlen. induction IHes as [|x es Hx _ IH]; [constructor|].
      apply Forall_cons in Hall as [[H1 H2] Hall]. constructor; [|by apply IH].
      cbn. rewrite Hx by done. by destruct x.
Qed.

Theorem norm_idem e : norm (norm e) = norm e.
Proof. apply nf_norm_id, nf_norm. Qed.

(** ** [reparse] preserves the meaning *)
Lemma norm_mk_and l : norm (mk_and l) = mk_and (flat_map (λ e', un_and (norm e')) l).
Proof.
  destruct l as [|x [|y r]]; [done| |apply norm_and].
  cbn [mk_and flat_map]. rewrite app_nil_r. symmetry. apply mk_and_un_and, nf_norm.
Qed.

Lemma norm_mk_or l : norm (mk_or l) = mk_or (flat_map (λ e', un_or (norm e')) l).
Proof.
  destruct l as [|x [|y r]]; [done| |apply norm_or].
  cbn [mk_or flat_map]. rewrite app_nil_r. symmetry. apply mk_or_un_or, nf_norm.
Qed.

Lemma flat_map_flat_map {A B C} (f : B → list C) (g : A → list B) l :
  flat_map f (flat_map g l) = flat_map (λ x, flat_map f (g x)) l.
Proof.
  induction l as [|x l IH]; [done|]. cbn [flat_map]. by rewrite flat_map_app, IH.
Qed.

Lemma flat_map_ext_Forall {A B} (f g : A → list B) l :
  Forall (λ x, f x = g x) l → flat_map f l = flat_map g l.
Proof. induction 1 as [|x l Hx _ IH]; [done|]. cbn [flat_map]. by rewrite Hx, IH. Qed.

Theorem reparse_norm_items e :
  flat_map (λ e', un_and (norm e')) (and_items e) = un_and (norm e) ∧
  flat_map (λ e', un_or (norm e')) (or_items e) = un_or (norm e) ∧
  norm (reparse e) = norm e.
Proof.
  induction e as [c v ph|e IHe|es IHes|es IHes] using pexpr_ind'.
  - done.
  - destruct IHe as (_ & _ & IH3). cbn [and_items or_items reparse flat_map norm].
    rewrite IH3. done.
  - assert (flat_map (λ e', un_and (norm e')) (flat_map and_items es) =
            flat_map (λ e', un_and (norm e')) es) as Hm.
    { rewrite flat_map_flat_map. apply flat_map_ext_Forall.
      eapply Forall_impl; [exact IHes|]. by intros x (? & _). }
    assert (norm (reparse (PAnd es)) = norm (PAnd es)) as H3.
    { cbn [reparse]. by rewrite norm_mk_and, Hm, norm_and. }
    cbn [and_items or_items]. split; [|split; [|done]].
    + rewrite Hm, norm_and, un_and_mk_and; [done|apply norm_items_not_and].
    + change (mk_and (flat_map and_items es)) with (reparse (PAnd es)).
      cbn [flat_map]. by rewrite app_nil_r, H3.
  - assert (flat_map (λ e', un_or (norm e')) (flat_map or_items es) =
            flat_map (λ e', un_or (norm e')) es) as Hm.
    { rewrite flat_map_flat_map. apply flat_map_ext_Forall.
      eapply Forall_impl; [exact IHes|]. by intros x (_ & ? & _). }
    assert (norm (reparse (POr es)) = norm (POr es)) as H3.
    { cbn [reparse]. by rewrite norm_mk_or, Hm, norm_or. }
    cbn [and_items or_items]. split; [|split; [|done]].
    + change (mk_or (flat_map or_items es)) with (reparse (POr es)).
      cbn [flat_map]. by rewrite app_nil_r, H3.
    + rewrite Hm, norm_or, un_or_mk_or; [done|apply norm_items_not_or].
Qed.

(** The parsed tree of the formatted text means the same as the original (no side condition). *)
Theorem norm_reparse e : norm (reparse e) = norm e.
Proof. apply reparse_norm_items. Qed.

(** * Trees as the parser produces them: well-formed, every AND/OR with ≥ 2 operands *)
Fixpoint pwf (e : pexpr) : bool :=
  match e with
  | PEq c v ph => wf_expr (PEq c v ph)
  | PNot e' => pwf e'
  | PAnd es | POr es => (2 <=? length es)%nat && forallb pwf es
  end.

Lemma pwf_operands es :
  (2 <=? length es)%nat && forallb pwf es = true →
  (2 ≤ length es)%nat ∧ Forall (λ e, pwf e = true) es.
Proof.
  intros H. apply andb_true_iff in H as [H1 H2].
  split; [by apply Nat.leb_le | by apply forallb_Forall].
Qed.

Lemma pwf_wf e : pwf e = true → wf_expr e = true.
Proof.
  induction e as [c v ph|e IHe|es IHes|es IHes] using pexpr_ind'; intros Hp.
  - done.
  - cbn [pwf wf_expr] in *. by apply IHe.
  - cbn [pwf] in Hp. apply pwf_operands in Hp as [Hlen Hall]. cbn [wf_expr].
    apply andb_true_iff. split; [destruct es; [cbn in Hlen; lia | done]|].
    apply forallb_Forall. exact (Forall_mp2 _ _ _ IHes Hall).
  - cbn [pwf] in Hp. apply pwf_operands in Hp as [Hlen Hall]. cbn [wf_expr].
    apply andb_true_iff. split; [destruct es; [cbn in Hlen; lia | done]|].
    apply forallb_Forall. exact (Forall_mp2 _ _ _ IHes Hall).
Qed.

Lemma flat_map_ne {A B} (g : A → list B) l :
  l ≠ [] → Forall (λ x, g x ≠ []) l → flat_map g l ≠ [].
Proof.
  intros Hne Hall. destruct Hall as [|x l Hx _]; [done|].
  cbn [flat_map]. by destruct (g x).
Qed.

Lemma flat_map_length_ge2 {A B} (g : A → list B) l :
  (2 ≤ length l)%nat → Forall (λ x, g x ≠ []) l → (2 ≤ length (flat_map g l))%nat.
Proof.
  intros Hlen Hall. destruct Hall as [|x l Hx Hall]; [cbn in Hlen; lia|].
  destruct Hall as [|y l Hy _]; [cbn in Hlen; lia|].
  cbn [flat_map]. rewrite !app_length.
  destruct (g x); [done|]. destruct (g y); [done|]. cbn [length]. lia.
Qed.

Lemma pwf_mk_and l : l ≠ [] → Forall (λ e, pwf e = true) l → pwf (mk_and l) = true.
Proof.
  intros Hne Hall. destruct l as [|x [|y r]]; [done| |].
  - by apply Forall_cons in Hall as [? _].
  - cbn [mk_and pwf]. apply andb_true_iff. split; [done|]. by apply forallb_Forall.
Qed.

Lemma pwf_mk_or l : l ≠ [] → Forall (λ e, pwf e = true) l → pwf (mk_or l) = true.
Proof.
  intros Hne Hall. destruct l as [|x [|y r]]; [done| |].
  - by apply Forall_cons in Hall as [? _].
  - cbn [mk_or pwf]. apply andb_true_iff. split; [done|]. by apply forallb_Forall.
Qed.

Theorem reparse_pwf_items e :
  wf_expr e = true →
  (and_items e ≠ [] ∧ Forall (λ x, pwf x = true) (and_items e)) ∧
  (or_items e ≠ [] ∧ Forall (λ x, pwf x = true) (or_items e)) ∧
  pwf (reparse e) = true.
Proof.
  induction e as [c v ph|e IHe|es IHes|es IHes] using pexpr_ind'; intros Hwf.
  - cbn [and_items or_items reparse]. repeat split; try done; by repeat constructor.
  - cbn [wf_expr] in Hwf. destruct (IHe Hwf) as (_ & _ & H3).
    cbn [and_items or_items reparse]. repeat split; try done; by repeat constructor.
  - cbn [wf_expr] in Hwf. apply wf_operands in Hwf as [Hne Hall].
    pose proof (Forall_mp2 _ _ _ IHes Hall) as IH. clear IHes.
    assert (flat_map and_items es ≠ [] ∧ Forall (λ x, pwf x = true) (flat_map and_items es))
      as [H1 H2].
    { split.
      - apply flat_map_ne; [done|]. eapply Forall_impl; [exact IH|]. by intros x ((? & _) & _).
      - eapply Forall_flat_map_intro; [exact IH|]. by intros x ((_ & ?) & _). }
    assert (pwf (reparse (PAnd es)) = true) as H3 by (by apply pwf_mk_and).
    cbn [and_items or_items]. repeat split; try done. by repeat constructor.
  - cbn [wf_expr] in Hwf. apply wf_operands in Hwf as [Hne Hall].
    pose proof (Forall_mp2 _ _ _ IHes Hall) as IH. clear IHes.
    assert (flat_map or_items es ≠ [] ∧ Forall (λ x, pwf x = true) (flat_map or_items es))
      as [H1 H2].
    { split.
      - apply flat_map_ne; [done|]. eapply Forall_impl; [exact IH|]. by intros x (_ & (? & _) & _).
      - eapply Forall_flat_map_intro; [exact IH|]. by intros x (_ & (_ & ?) & _). }
    assert (pwf (reparse (POr es)) = true) as H3 by (by apply pwf_mk_or).
    cbn [and_items or_items]. repeat split; try done. by repeat constructor.
Qed.

(** The tree the parser returns for a formatted well-formed tree is again well-formed. *)
Corollary reparse_pwf e : wf_expr e = true → pwf (reparse e) = true.
Proof. intros H. by apply reparse_pwf_items. Qed.

Corollary reparse_wf e : wf_expr e = true → wf_expr (reparse e) = true.
Proof. intros H. by apply pwf_wf, reparse_pwf. Qed.

(** On such trees re-parsing only removes same-operator nesting, which the formatter does
    not show: the tokens are unchanged. *)
Lemma tjoin_flat_map op (it : pexpr → list tok) (g : pexpr → list pexpr) es :
  Forall (λ e, g e ≠ [] ∧ tjoin op (map it (g e)) = it e) es →
  tjoin op (map it (flat_map g es)) = tjoin op (map it es).
Proof.
  induction 1 as [|e es [Hne He] Hall IH]; [done|].
  destruct es as [|e' es].
  - cbn [flat_map map tjoin]. by rewrite app_nil_r.
  - change (flat_map g (e :: e' :: es)) with (g e ++ flat_map g (e' :: es)).
    rewrite map_app, tjoin_app.
    + rewrite He, IH. done.
    + by destruct (g e).
    + apply Forall_cons in Hall as [[Hne' _] _]. cbn [flat_map]. by destruct (g e').
Qed.

Theorem reparse_proper_items e :
  pwf e = true →
  tjoin TAnd (map item_and (and_items e)) = item_and e ∧
  tjoin TOr (map item_or (or_items e)) = item_or e ∧
  fmt_toks (reparse e) = fmt_toks e ∧
  is_and (reparse e) = is_and e ∧ is_or (reparse e) = is_or e.
Proof.
  induction e as [c v ph|e IHe|es IHes|es IHes] using pexpr_ind'; intros Hp.
  - done.
  - cbn [pwf] in Hp. destruct (IHe Hp) as (_ & _ & H3 & H4 & H5).
    assert (fmt_toks (reparse (PNot e)) = fmt_toks (PNot e)) as Hf.
    { cbn [reparse fmt_toks]. by rewrite H3, H4, H5. }
    cbn [and_items or_items map tjoin]. unfold item_and, item_or.
    change (PNot (reparse e)) with (reparse (PNot e)). rewrite Hf. done.
  - cbn [pwf] in Hp. apply pwf_operands in Hp as [Hlen Hall].
    pose proof (Forall_mp2 _ _ _ IHes Hall) as IH. clear IHes.
    assert (Forall (λ x, and_items x ≠ []) es) as Hne.
    { eapply Forall_impl; [exact Hall|]. intros x Hx. cbn.
      by apply (reparse_pwf_items x (pwf_wf x Hx)). }
    assert (tjoin TAnd (map item_and (flat_map and_items es)) = fmt_toks (PAnd es)) as H1.
    { cbn [fmt_toks]. apply tjoin_flat_map.
      apply Forall_and. split; [done|]. eapply Forall_impl; [exact IH|]. by intros x (? & _). }
    assert (reparse (PAnd es) = PAnd (flat_map and_items es)) as Hr.
    { cbn [reparse]. apply mk_and_ge2. by apply flat_map_length_ge2. }
    assert (fmt_toks (reparse (PAnd es)) = fmt_toks (PAnd es)) as H3.
    { rewrite Hr. exact H1. }
    cbn [and_items or_items]. change (mk_and (flat_map and_items es)) with (reparse (PAnd es)).
    split; [exact H1|]. split; [|split; [done|by rewrite Hr]].
    cbn [map tjoin]. unfold item_or. rewrite H3, Hr. done.
  - cbn [pwf] in Hp. apply pwf_operands in Hp as [Hlen Hall].
    pose proof (Forall_mp2 _ _ _ IHes Hall) as IH. clear IHes.
    assert (Forall (λ x, or_items x ≠ []) es) as Hne.
    { eapply Forall_impl; [exact Hall|]. intros x Hx. cbn.
      by apply (reparse_pwf_items x (pwf_wf x Hx)). }
    assert (tjoin TOr (map item_or (flat_map or_items es)) = fmt_toks (POr es)) as H1.
    { cbn [fmt_toks]. apply tjoin_flat_map.
      apply Forall_and. split; [done|]. eapply Forall_impl; [exact IH|]. by intros x (_ & ? & _). }
    assert (reparse (POr es) = POr (flat_map or_items es)) as Hr.
    { cbn [reparse]. apply mk_or_ge2. by apply flat_map_length_ge2. }
    assert (fmt_toks (reparse (POr es)) = fmt_toks (POr es)) as H3.
    { rewrite Hr. exact H1. }
    cbn [and_items or_items]. change (mk_or (flat_map or_items es)) with (reparse (POr es)).
    split; [|split; [exact H1|split; [done|by rewrite Hr]]].
    cbn [map tjoin]. unfold item_and. rewrite H3, Hr. done.
Qed.

Corollary fmt_toks_reparse e : pwf e = true → fmt_toks (reparse e) = fmt_toks e.
Proof. intros H. by apply reparse_proper_items. Qed.

(** Second-round fixpoint at the token level. *)
Corollary fmt_toks_reparse2 e :
  wf_expr e = true → fmt_toks (reparse (reparse e)) = fmt_toks (reparse e).
Proof. intros H. by apply fmt_toks_reparse, reparse_pwf. Qed.

(** * Queries *)
Lemma Forall_tjoin (P : tok → Prop) op l :
  P op → Forall (Forall P) l → Forall P (tjoin op l).
Proof.
  intros Hop Hall. induction Hall as [|x l Hx Hall IH]; [constructor|].
  destruct l as [|y l]; [done|]. rewrite tjoin_cons2.
  apply Forall_app. split; [done|]. by constructor.
Qed.

Lemma Forall_tparens (P : tok → Prop) b ts :
  P TLP → P TRP → Forall P ts → Forall P (tparens b ts).
Proof.
  intros H1 H2 H. destruct b; [|done]. cbn [tparens]. constructor; [done|].
  apply Forall_app. split; [done|]. by repeat constructor.
Qed.

Lemma fmt_toks_good e : wf_expr e = true → Forall good_tok (fmt_toks e).
Proof.
  induction e as [c v ph|e IHe|es IHes|es IHes] using pexpr_ind'; intros Hwf.
  - apply wf_leaf in Hwf as [Hc _]. cbn [fmt_toks].
    destruct (0 <? ph); repeat constructor; try done.
    + exists (decimal ph). split; [done|apply decimal_digits].
    + by exists v.
  - cbn [wf_expr] in Hwf. cbn [fmt_toks]. constructor; [done|].
    apply Forall_tparens; [done|done|]. by apply IHe.
  - cbn [wf_expr] in Hwf. apply wf_operands in Hwf as [_ Hall]. cbn [fmt_toks].
    apply Forall_tjoin; [done|]. rewrite Forall_map.
    eapply Forall_impl; [exact (Forall_mp2 _ _ _ IHes Hall)|]. intros x Hx. cbn.
    by apply Forall_tparens.
  - cbn [wf_expr] in Hwf. apply wf_operands in Hwf as [_ Hall]. cbn [fmt_toks].
    apply Forall_tjoin; [done|]. rewrite Forall_map.
    eapply Forall_impl; [exact (Forall_mp2 _ _ _ IHes Hall)|]. intros x Hx. cbn.
    by apply Forall_tparens.
Qed.

Lemma G_fields_cons c ts cs :
  G_fields ts cs → G_fields (TField c :: TComma :: ts) (c :: cs).
Proof.
  induction 1 as [c'|ts cs c' H IH].
  - apply (Gf_more [TField c] [c] c'). constructor.
  - apply (Gf_more (TField c :: TComma :: ts) (c :: cs) c'). exact IH.
Qed.

Lemma G_fields_toks cs : cs ≠ [] → G_fields (fields_toks cs) cs.
Proof.
  intros Hne. induction cs as [|c cs IH]; [done|].
  destruct cs as [|c' cs]; [constructor|].
  change (fields_toks (c :: c' :: cs)) with (TField c :: TComma :: fields_toks (c' :: cs)).
  apply G_fields_cons. by apply IH.
Qed.

Lemma wf_query_inv q :
  wf_query q = true →
  wf_expr (pq_expr q) = true ∧ Forall (λ c, ident c = true) (pq_group_by q).
Proof.
  unfold wf_query. intros H. apply andb_true_iff in H as [H1 H2].
  split; [done | by apply forallb_Forall].
Qed.

(** The lexer returns exactly the formatter's tokens. *)
Theorem lex_format_query q :
  wf_query q = true → lex (format_query q) = query_toks q ++ [TEOF].
Proof.
  intros Hwf. apply wf_query_inv in Hwf as [He Hcs].
  rewrite format_query_spell by (by apply wf_ne). unfold query_toks, lex.
  pose proof (fmt_toks_good _ He) as Hgood.
  destruct (pq_group_by q) as [|c cs].
  - rewrite !app_nil_r. by apply lex_spell.
  - rewrite lex_spell_go by done.
    change (lex_go MText [] ([sp; 59; sp] ++ ?s)) with (TSemi :: lex_go MText [] s).
    rewrite lex_fields by done. by rewrite <- app_assoc.
Qed.

(** The grammar derives the formatter's tokens, with tree [reparse]. *)
Theorem query_toks_grammar q :
  wf_query q = true →
  G_query (query_toks q) (PQuery (reparse (pq_expr q)) (pq_group_by q)).
Proof.
  intros Hwf. apply wf_query_inv in Hwf as [He Hcs]. unfold query_toks.
  pose proof (fmt_toks_G_expr _ He) as HG.
  destruct (pq_group_by q) as [|c cs] eqn:E.
  - rewrite app_nil_r. by apply Gq_plain.
  - apply Gq_group; [done|]. by apply G_fields_toks.
Qed.

(** * (e) Final theorems, relative to the parser's completeness w.r.t. the grammar *)
Section roundtrip.
  Hypothesis parse_complete : ∀ ts q, G_query ts q → parse_tokens (ts ++ [TEOF]) = Good q.

  Lemma parse_format_query q :
    wf_query q = true →
    parse_query (format_query q) = Ok (PQuery (reparse (pq_expr q)) (pq_group_by q)).
  Proof.
    intros Hwf. unfold parse_query. rewrite lex_format_query by done.
    by rewrite (parse_complete _ _ (query_toks_grammar q Hwf)).
  Qed.

  Theorem format_roundtrip q :
    wf_query q = true →
    ∃ q', parse_query (format_query q) = Ok q' ∧
          norm (pq_expr q') = norm (pq_expr q) ∧
          pq_group_by q' = pq_group_by q.
  Proof.
    intros Hwf. exists (PQuery (reparse (pq_expr q)) (pq_group_by q)).
    split; [by apply parse_format_query|]. split; [apply norm_reparse | done].
  Qed.

  Lemma reparse_query_wf q :
    wf_query q = true → wf_query (PQuery (reparse (pq_expr q)) (pq_group_by q)) = true.
  Proof.
    intros Hwf. unfold wf_query in *. apply andb_true_iff in Hwf as [H1 H2].
    cbn [pq_expr pq_group_by]. by rewrite reparse_wf, H2.
  Qed.

  (** The parsed query is again well-formed, so it can be formatted and parsed again. *)
  Theorem format_roundtrip_wf q q1 :
    wf_query q = true → parse_query (format_query q) = Ok q1 → wf_query q1 = true.
  Proof.
    intros Hwf Hp. rewrite parse_format_query in Hp by done. injection Hp as <-.
    by apply reparse_query_wf.
  Qed.

  Theorem format_stable q q1 q2 :
    wf_query q = true →
    parse_query (format_query q) = Ok q1 →
    parse_query (format_query q1) = Ok q2 →
    format_query q2 = format_query q1.
  Proof.
    intros Hwf H1 H2.
    rewrite parse_format_query in H1 by done. injection H1 as <-.
    pose proof (reparse_query_wf q Hwf) as Hwf1.
    rewrite parse_format_query in H2 by done. injection H2 as <-.
    cbn [pq_expr pq_group_by].
    apply wf_query_inv in Hwf as [He _].
    unfold format_query. cbn [pq_expr pq_group_by]. f_equal.
    rewrite !format_expr_spell.
    - by rewrite fmt_toks_reparse2.
    - by apply wf_ne, reparse_wf.
    - by apply wf_ne, reparse_wf, reparse_wf.
  Qed.

  (** The second round returns a query with the same meaning as the first, too. *)
  Theorem format_roundtrip2 q q1 q2 :
    wf_query q = true →
    parse_query (format_query q) = Ok q1 →
    parse_query (format_query q1) = Ok q2 →
    norm (pq_expr q2) = norm (pq_expr q) ∧ pq_group_by q2 = pq_group_by q.
  Proof.
    intros Hwf H1 H2.
    rewrite parse_format_query in H1 by done. injection H1 as <-.
    pose proof (reparse_query_wf q Hwf) as Hwf1.
    rewrite parse_format_query in H2 by done. injection H2 as <-.
    cbn [pq_expr pq_group_by]. by rewrite !norm_reparse.
  Qed.
End roundtrip.

(** From the BYTES of the input file to the created index (C19): encoding/csv.Reader with the
    configuration create.go uses (the defaults: comma, no comment character, no lazy quotes, no
    trimming, field count fixed by the first record), Go's UTF-8 decoding of a header field
    into runes, and [updog create] on top of them.  A canonical writer (every field quoted) and
    a hand-written style writer (quotes only where the format needs them) for the round-trip
    theorems.  No proofs in this file. *)
From updog Require Import Prelude Index Csv.
Local Open Scope N_scope.

Definition LF : N := 10.
Definition CR : N := 13.
Definition QUOTE : N := 34.
Definition COMMA : N := 44.

(** [Reader.readLine]: a line ending in CR LF ends in LF, and a CR right before the end of the
    file is dropped.  Every CR LF of the file ends a line, so one pass over the file does it. *)
Fixpoint crlf_norm (s : str) : str :=
  match s with
  | [] => []
  | c :: s' =>
      if c =? CR then
        match s' with
        | [] => []
        | d :: s'' => if d =? LF then LF :: crlf_norm s'' else CR :: crlf_norm s'
        end
      else c :: crlf_norm s'
  end.

(** [Reader.readRecord] as a machine over the normalised bytes.  [fld]: the field being read,
    reversed; [rec]: the finished fields of the current record, reversed; [acc]: the finished
    records, reversed.  [None] is any parse error (bare quote, text after a closing quote,
    end of file inside quotes). *)
Inductive cstate := RecStart | FieldStart | Unquoted | Quoted | QuoteSeen.

Fixpoint csv_records (st : cstate) (fld : str) (rec : list str) (acc : list (list str)) (s : str)
  : option (list (list str)) :=
  match s with
  | [] =>
      match st with
      | RecStart => Some (rev acc)
      | FieldStart | Unquoted | QuoteSeen => Some (rev (rev (rev fld :: rec) :: acc))
      | Quoted => None
      end
  | c :: s' =>
      match st with
      | RecStart =>
          if c =? LF then csv_records RecStart [] [] acc s'          (* an empty line is skipped *)
          else if c =? QUOTE then csv_records Quoted [] [] acc s'
          else if c =? COMMA then csv_records FieldStart [] [[]] acc s'
          else csv_records Unquoted [c] [] acc s'
      | FieldStart =>
          if c =? LF then csv_records RecStart [] [] (rev ([] :: rec) :: acc) s'
          else if c =? QUOTE then csv_records Quoted [] rec acc s'
          else if c =? COMMA then csv_records FieldStart [] ([] :: rec) acc s'
          else csv_records Unquoted [c] rec acc s'
      | Unquoted =>
          if c =? LF then csv_records RecStart [] [] (rev (rev fld :: rec) :: acc) s'
          else if c =? COMMA then csv_records FieldStart [] (rev fld :: rec) acc s'
          else if c =? QUOTE then None                                (* bare quote *)
          else csv_records Unquoted (c :: fld) rec acc s'
      | Quoted =>
          if c =? QUOTE then csv_records QuoteSeen fld rec acc s'
          else csv_records Quoted (c :: fld) rec acc s'
      | QuoteSeen =>
          if c =? QUOTE then csv_records Quoted (QUOTE :: fld) rec acc s'   (* a doubled quote *)
          else if c =? COMMA then csv_records FieldStart [] (rev fld :: rec) acc s'
          else if c =? LF then csv_records RecStart [] [] (rev (rev fld :: rec) :: acc) s'
          else None                                                   (* text after the closing quote *)
      end
  end.

(** FieldsPerRecord = 0: the first record fixes the number of fields. *)
Definition same_width (recs : list (list str)) : bool :=
  match recs with
  | [] => true
  | r0 :: rest => forallb (λ r, (length r =? length r0)%nat) rest
  end.

Definition csv_read (file : str) : option (list (list str)) :=
  match csv_records RecStart [] [] [] (crlf_norm file) with
  | Some recs => if same_width recs then Some recs else None
  | None => None
  end.

(** * Go's UTF-8 decoding ([for _, r := range s], [[]rune(s)], [strings.Map]): a byte that does
    not start a well-formed sequence yields U+FFFD and is consumed alone. *)
Definition cont (b : N) : bool := (128 <=? b) && (b <=? 191).
Definition between (lo b hi : N) : bool := (lo <=? b) && (b <=? hi).

(** accepted range of the second byte, by first byte (unicode/utf8 acceptRanges) *)
Definition second_lo (b0 : N) : N := if b0 =? 224 then 160 else if b0 =? 240 then 144 else 128.
Definition second_hi (b0 : N) : N := if b0 =? 237 then 159 else if b0 =? 244 then 143 else 191.

Fixpoint utf8_decode (s : str) : list N :=
  match s with
  | [] => []
  | b0 :: s1 =>
      if b0 <? 128 then b0 :: utf8_decode s1 else
      let bad := 65533 :: utf8_decode s1 in
      match s1 with
      | [] => bad
      | b1 :: s2 =>
          if between 194 b0 223 then
            (if cont b1 then ((b0 - 192) * 64 + (b1 - 128)) :: utf8_decode s2 else bad)
          else
          match s2 with
          | [] => bad
          | b2 :: s3 =>
              if between 224 b0 239 then
                (if between (second_lo b0) b1 (second_hi b0) && cont b2
                 then ((b0 - 224) * 4096 + (b1 - 128) * 64 + (b2 - 128)) :: utf8_decode s3 else bad)
              else
              match s3 with
              | [] => bad
              | b3 :: s4 =>
                  if between 240 b0 244 && between (second_lo b0) b1 (second_hi b0) && cont b2 && cont b3
                  then ((b0 - 240) * 262144 + (b1 - 128) * 4096 + (b2 - 128) * 64 + (b3 - 128)) :: utf8_decode s4
                  else bad
              end
          end
      end
  end.

(** A Unicode scalar value: below 0x110000 and not a surrogate. *)
Definition scalar (r : N) : bool := (r <? 55296) || ((57344 <=? r) && (r <? 1114112)).

Definition utf8_encode1 (r : N) : str :=
  if r <? 128 then [r]
  else if r <? 2048 then [192 + r / 64; 128 + r mod 64]
  else if r <? 65536 then [224 + r / 4096; 128 + (r / 64) mod 64; 128 + r mod 64]
  else [240 + r / 262144; 128 + (r / 4096) mod 64; 128 + (r / 64) mod 64; 128 + r mod 64].

Definition utf8_encode (rs : list N) : str := flat_map utf8_encode1 rs.

(** * [updog create] from the bytes of the input file: the first record is the header (an empty
    file has none: io.EOF is an error there). *)
Section WithHash.
Context (H : list N → N).

Definition create_bytes (big : bool) (exists_ : bool) (file : str) : create_result :=
  match csv_read file with
  | None | Some [] => CreateErr
  | Some (hdr :: recs) => create H big exists_ (map utf8_decode hdr) recs
  end.
End WithHash.

(** * Writers (for the round-trip theorems and the generator of the correspondence check) *)
Fixpoint escape_quotes (f : str) : str :=
  match f with
  | [] => []
  | c :: f' => if c =? QUOTE then QUOTE :: QUOTE :: escape_quotes f' else c :: escape_quotes f'
  end.

Definition quoted (f : str) : str := QUOTE :: escape_quotes f ++ [QUOTE].

Definition needs_quotes (f : str) : bool :=
  existsb (λ c, (c =? QUOTE) || (c =? COMMA) || (c =? LF) || (c =? CR)) f.

(** [q] says which fields are quoted although they need not be. *)
Definition write_field (q : str → bool) (f : str) : str :=
  if q f || needs_quotes f then quoted f else f.

Fixpoint join_fields (fs : list str) : str :=
  match fs with
  | [] => []
  | [f] => f
  | f :: fs' => f ++ COMMA :: join_fields fs'
  end.

Definition write_record (q : str → bool) (r : list str) : str :=
  match r with
  | [[]] => quoted [] ++ [LF]               (* a lone empty field would be an empty line *)
  | _ => join_fields (map (write_field q) r) ++ [LF]
  end.

Definition csv_write (q : str → bool) (recs : list (list str)) : str :=
  flat_map (write_record q) recs.

(** no CR LF inside a field and no field ending in CR (the reader turns CR LF into LF) *)
Fixpoint no_crlf (f : str) : bool :=
  match f with
  | [] => true
  | c :: f' =>
      if c =? CR then match f' with [] => true | d :: _ => negb (d =? LF) && no_crlf f' end
      else no_crlf f'
  end.

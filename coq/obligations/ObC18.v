(** Lock obligations of C18 (concurrent AddRow) for the skeletons generated from the current
    source: both writers; any number of goroutines all running AddRow on one writer. *)
From Coq Require Import String List.
Import ListNotations.
From updog Require Import Conc LockPolicy.
From Gen Require Import LockFacts.
Local Open Scope list_scope.

Definition policy_C18_mem : policy := Eval vm_compute in choose_policy (LockPolicy.policy_C18_mem gen_mutexes gen_methods gen_external gen_selfsync gen_funs) gen_funs ["IndexWriter.AddRow"] gen_all_mutexes.
Definition policy_C18_big : policy := Eval vm_compute in choose_policy (LockPolicy.policy_C18_big gen_mutexes gen_methods gen_external gen_selfsync gen_funs) gen_funs ["BigIndexWriter.AddRow"] gen_all_mutexes.
Definition mem_mtx : string := Eval vm_compute in mutex_of gen_mutexes "IndexWriter".
Definition big_mtx : string := Eval vm_compute in mutex_of gen_mutexes "BigIndexWriter".
Definition funs_mem := reachable_funs policy_C18_mem gen_funs ["IndexWriter.AddRow"].
Definition funs_big := reachable_funs policy_C18_big gen_funs ["BigIndexWriter.AddRow"].
Definition addrow_mem := gen_entry "IndexWriter.AddRow".
Definition addrow_big := gen_entry "BigIndexWriter.AddRow".

(* explanation printed before the obligations are attempted: what the policies do not know *)
Definition unknown_to_policy := Eval vm_compute in
  diagnose policy_C18_mem gen_funs ["IndexWriter.AddRow"] ++ diagnose policy_C18_big gen_funs ["BigIndexWriter.AddRow"].
Print unknown_to_policy.

Lemma C18_locks_mem : well_locked policy_C18_mem funs_mem addrow_mem = true.
Proof. vm_compute. reflexivity. Qed.
Lemma C18_locks_big : well_locked policy_C18_big funs_big addrow_big = true.
Proof. vm_compute. reflexivity. Qed.

(** AddRow takes the writer mutex exactly once: reading the counter, the updates and the
    increment are ONE critical section (a version that reads the id under a read lock and
    re-locks for the update satisfies the lockset discipline but not this). *)
Lemma C18_single_section_mem : Nat.leb (max_acq policy_C18_mem funs_mem mem_mtx 8 addrow_mem) 1 = true.
Proof. vm_compute. reflexivity. Qed.
Lemma C18_single_section_big : Nat.leb (max_acq policy_C18_big funs_big big_mtx 8 addrow_big) 1 = true.
Proof. vm_compute. reflexivity. Qed.

Lemma all_repeat pol funs e n : well_locked pol funs e = true -> well_locked_all pol funs (repeat e n) = true.
Proof.
  intros H. unfold well_locked_all. apply forallb_forall. intros x Hx. apply repeat_spec in Hx. subst. exact H.
Qed.

(** The whole body of AddRow — reading the row counter, updating schema and bitmaps (or the
    temp transaction), incrementing the counter — is one atomic section of the writer mutex:
    while goroutine i holds it, no other goroutine touches writer state. *)
Theorem C18_addrow_atomic_mem n it :
  admissible policy_C18_mem funs_mem (repeat addrow_mem n) it ->
  forall pre mid post i l,
    it = pre ++ (i, EvAcq l Ex) :: mid ++ post -> (forall m, ~ In (i, EvRel l m) mid) ->
    forall j e, In (j, e) mid -> j <> i ->
      match e with
      | EvAcc loc w => guard_of policy_C18_mem loc <> Some (GuardedBy l)
      | EvAcq l' _ => l' <> l
      | EvRel l' _ => l' <> l
      end.
Proof. apply T3_atomicity, all_repeat, C18_locks_mem. Qed.

Theorem C18_addrow_atomic_big n it :
  admissible policy_C18_big funs_big (repeat addrow_big n) it ->
  forall pre mid post i l,
    it = pre ++ (i, EvAcq l Ex) :: mid ++ post -> (forall m, ~ In (i, EvRel l m) mid) ->
    forall j e, In (j, e) mid -> j <> i ->
      match e with
      | EvAcc loc w => guard_of policy_C18_big loc <> Some (GuardedBy l)
      | EvAcq l' _ => l' <> l
      | EvRel l' _ => l' <> l
      end.
Proof. apply T3_atomicity, all_repeat, C18_locks_big. Qed.

Theorem C18_race_free_mem n it :
  admissible policy_C18_mem funs_mem (repeat addrow_mem n) it ->
  forall pre mid post i j loc w1 w2,
    it = pre ++ (i, EvAcc loc w1) :: mid ++ (j, EvAcc loc w2) :: post ->
    i <> j -> (w1 || w2)%bool = true -> guard_of policy_C18_mem loc <> Some Unshared ->
    exists l m1 m2 mA mB, guard_of policy_C18_mem loc = Some (GuardedBy l) /\
      ls_lookup (holds pre i) l = Some m1 /\ mid = mA ++ (j, EvAcq l m2) :: mB /\
      In (i, EvRel l m1) mA /\ (m1 = Ex \/ m2 = Ex).
Proof. apply T2_happens_before, all_repeat, C18_locks_mem. Qed.

Theorem C18_race_free_big n it :
  admissible policy_C18_big funs_big (repeat addrow_big n) it ->
  forall pre mid post i j loc w1 w2,
    it = pre ++ (i, EvAcc loc w1) :: mid ++ (j, EvAcc loc w2) :: post ->
    i <> j -> (w1 || w2)%bool = true -> guard_of policy_C18_big loc <> Some Unshared ->
    exists l m1 m2 mA mB, guard_of policy_C18_big loc = Some (GuardedBy l) /\
      ls_lookup (holds pre i) l = Some m1 /\ mid = mA ++ (j, EvAcq l m2) :: mB /\
      In (i, EvRel l m1) mA /\ (m1 = Ex \/ m2 = Ex).
Proof. apply T2_happens_before, all_repeat, C18_locks_big. Qed.

Print Assumptions C18_addrow_atomic_mem.
Print Assumptions C18_addrow_atomic_big.
Print Assumptions C18_race_free_mem.

(** Lock obligations of C17 (driver connection cache) for the skeletons generated from the
    current driver/driver.go: every access to the cache map, to a connection's reference count
    and to its index pointer happens under the driver mutex, and Open and Close each take that
    mutex at most once — so lookup / open / insert, and decrement / remove / close, are single
    critical sections and every schedule of goroutines is a sequence of whole operations. *)
From Coq Require Import String List.
Import ListNotations.
From updog Require Import Conc LockPolicy SingleSection.
From Gen Require Import LockFacts.
Local Open Scope list_scope.

Definition policy_C17 : policy := Eval vm_compute in choose_policy (LockPolicy.policy_C17 gen_mutexes gen_methods gen_external gen_selfsync gen_funs) gen_funs entries_C17 gen_all_mutexes.
Definition drv_mtx : string := Eval vm_compute in mutex_of gen_mutexes "updogDriver".
Definition funs := reachable_funs policy_C17 gen_funs entries_C17.
Definition skeletons_C17 : list stmt := map gen_entry entries_C17.

(* explanation printed before the obligations are attempted: what the policy does not know *)
Definition unknown_to_policy := Eval vm_compute in diagnose policy_C17 gen_funs entries_C17.
Print unknown_to_policy.

Lemma C17_locks : well_locked_all policy_C17 funs skeletons_C17 = true.
Proof. vm_compute. reflexivity. Qed.

Lemma C17_single_section :
  forallb (fun s => Nat.leb (max_acq policy_C17 funs drv_mtx 8 s) 1) skeletons_C17 = true.
Proof. vm_compute. reflexivity. Qed.

Lemma C17_locks_any_threads (threads : list stmt) :
  (forall t, In t threads -> In t skeletons_C17) -> well_locked_all policy_C17 funs threads = true.
Proof.
  intros Hin. unfold well_locked_all. apply forallb_forall. intros t Ht.
  pose proof C17_locks as H. unfold well_locked_all in H. rewrite forallb_forall in H. apply H, Hin, Ht.
Qed.

Theorem C17_operations_atomic threads it :
  (forall t, In t threads -> In t skeletons_C17) -> admissible policy_C17 funs threads it ->
  forall pre mid post i l,
    it = pre ++ (i, EvAcq l Ex) :: mid ++ post -> (forall m, ~ In (i, EvRel l m) mid) ->
    forall j e, In (j, e) mid -> j <> i ->
      match e with
      | EvAcc loc w => guard_of policy_C17 loc <> Some (GuardedBy l)
      | EvAcq l' _ => l' <> l
      | EvRel l' _ => l' <> l
      end.
Proof. intros Hin. apply T3_atomicity. apply C17_locks_any_threads, Hin. Qed.

(** Each Open / Close is ONE critical section: between two guarded accesses of one operation
    (at least one of them a write) no other goroutine touches the connection cache, acquires
    or releases the driver mutex (SingleSection.v: max_acq <= 1 bounds the acquisitions of every
    execution). *)
Theorem C17_operation_is_one_section threads it i entry :
  (forall t, In t threads -> In t skeletons_C17) -> admissible policy_C17 funs threads it ->
  nth_error threads i = Some entry ->
  forall pre loc1 w1 mid loc2 w2 post,
    it = pre ++ (i, EvAcc loc1 w1) :: mid ++ (i, EvAcc loc2 w2) :: post ->
    guard_of policy_C17 loc1 = Some (GuardedBy drv_mtx) ->
    guard_of policy_C17 loc2 = Some (GuardedBy drv_mtx) ->
    w1 = true \/ w2 = true ->
    forall j e, In (j, e) mid -> j <> i ->
      match e with
      | EvAcq l' _ | EvRel l' _ => l' <> drv_mtx
      | EvAcc loc' _ => guard_of policy_C17 loc' <> Some (GuardedBy drv_mtx)
      end.
Proof.
  intros Hin Hadm Hnth.
  apply (operation_atomic_excl policy_C17 funs threads it i entry drv_mtx 8).
  - apply C17_locks_any_threads, Hin.
  - exact Hadm.
  - exact Hnth.
  - apply PeanoNat.Nat.leb_le.
    pose proof C17_single_section as Hs. rewrite forallb_forall in Hs. apply Hs, Hin.
    eapply nth_error_In. exact Hnth.
Qed.

Print Assumptions C17_operations_atomic.
Print Assumptions C17_operation_is_one_section.

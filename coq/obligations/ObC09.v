(** Goroutine obligation of C09 for the skeleton of ParseQuery regenerated from the current
    internal/queryparser.  The translator finds, structurally, the functions that leave a
    goroutine running when they return (a go statement, directly or through calls, and no join)
    and the functions that join it (a range loop over a channel-typed field, which ends when the
    goroutine closes the channel); a call of the former is written as the acquisition of the
    resource goroutine, a call of the latter as its release, deferred calls are expanded at
    every return.  The lockset checker of Conc.v then shows that on every path through
    ParseQuery to a return everything acquired has been released: no lexer goroutine is left
    behind, whatever the input (the parse itself may panic: deferred calls still run). *)
From Coq Require Import String List.
Import ListNotations.
From updog Require Import Conc LockPolicy.
From Gen Require Import LockFacts.
Local Open Scope list_scope.
Local Open Scope string_scope.

Definition entry_name : string := "func.internal/queryparser.ParseQuery".
Definition policy_C09 : policy :=
  Eval vm_compute in mk_policy_inferred [] [] gen_mutexes gen_methods gen_external gen_selfsync gen_funs [entry_name].
Definition funs := reachable_funs policy_C09 gen_funs [entry_name].
Definition parse_query : stmt := gen_entry entry_name.

(* explanation printed before the obligation is attempted *)
Definition unknown_to_policy := Eval vm_compute in diagnose policy_C09 gen_funs [entry_name].
Print unknown_to_policy.

Fixpoint count_acq (s : stmt) : nat :=
  match s with
  | Acq _ _ => 1
  | Seq a b | Branch a b => count_acq a + count_acq b
  | Loop a => count_acq a
  | _ => 0
  end.
Definition goroutine_starts_seen := Eval vm_compute in count_acq parse_query.
Print goroutine_starts_seen.

Lemma C09_locks : well_locked policy_C09 funs parse_query = true.
Proof. vm_compute. reflexivity. Qed.

(** Every finished execution of ParseQuery (fell off the end or returned) holds nothing: each
    goroutine it started has been joined; and no join happens without a start. *)
Theorem C09_goroutine_joined tr st :
  pexec policy_C09 funs parse_query tr st ->
  (forall tr1 e tr2, tr = (tr1 ++ e :: tr2)%list ->
     match e with
     | EvRel l m => ls_lookup (held tr1) l = Some m
     | EvAcq l _ => ls_lookup (held tr1) l = None
     | _ => True
     end) /\
  (st <> Running -> held tr = []).
Proof.
  intros Hex. destruct (T1_lockset_soundness _ _ _ _ _ C09_locks Hex) as [Hev Hend].
  split.
  - intros tr1 e tr2 Heq. specialize (Hev tr1 e tr2 Heq). destruct e; try exact Hev; exact I.
  - intros Hst. apply Hend, Hst.
Qed.

Print Assumptions C09_locks.
Print Assumptions C09_goroutine_joined.

(** Lock obligations of C04 for the skeletons generated from the current source. *)
From Coq Require Import String List.
Import ListNotations.
From updog Require Import Conc LockPolicy.
From Gen Require Import LockFacts.
Local Open Scope list_scope.

Definition policy_C04 : policy := Eval vm_compute in choose_policy (LockPolicy.policy_C04 gen_mutexes gen_methods gen_external gen_selfsync gen_funs) gen_funs entries_C04 gen_all_mutexes.
Definition funs := reachable_funs policy_C04 gen_funs entries_C04.
Definition skeletons_C04 : list stmt := map gen_entry entries_C04.

(* explanation printed before the obligations are attempted: what the policy does not know *)
Definition unknown_to_policy := Eval vm_compute in diagnose policy_C04 gen_funs entries_C04.
Print unknown_to_policy.

Lemma C04_locks : well_locked_all policy_C04 funs skeletons_C04 = true.
Proof. vm_compute. reflexivity. Qed.

(** Any number of goroutines, each running any of the four entry points. *)
Lemma C04_locks_any_threads (threads : list stmt) :
  (forall t, In t threads -> In t skeletons_C04) -> well_locked_all policy_C04 funs threads = true.
Proof.
  intros Hin. unfold well_locked_all. apply forallb_forall. intros t Ht.
  pose proof C04_locks as H. unfold well_locked_all in H. rewrite forallb_forall in H. apply H, Hin, Ht.
Qed.

(** Hence (Conc.T2_happens_before): in every admissible interleaving, two conflicting
    accesses to shared state are separated by a release and an acquire of their lock. *)
Theorem C04_race_free threads it :
  (forall t, In t threads -> In t skeletons_C04) -> admissible policy_C04 funs threads it ->
  forall pre mid post i j loc w1 w2,
    it = pre ++ (i, EvAcc loc w1) :: mid ++ (j, EvAcc loc w2) :: post ->
    i <> j -> (w1 || w2)%bool = true -> guard_of policy_C04 loc <> Some Unshared ->
    exists l m1 m2 mA mB, guard_of policy_C04 loc = Some (GuardedBy l) /\
      ls_lookup (holds pre i) l = Some m1 /\ mid = mA ++ (j, EvAcq l m2) :: mB /\
      In (i, EvRel l m1) mA /\ (m1 = Ex \/ m2 = Ex).
Proof. intros Hin. apply T2_happens_before. apply C04_locks_any_threads, Hin. Qed.

(** The cache's Get and Put are atomic: nothing guarded by the cache mutex happens in another
    goroutine while one holds it. *)
Theorem C04_cache_ops_atomic threads it :
  (forall t, In t threads -> In t skeletons_C04) -> admissible policy_C04 funs threads it ->
  forall pre mid post i l,
    it = pre ++ (i, EvAcq l Ex) :: mid ++ post ->
    (forall m, ~ In (i, EvRel l m) mid) ->
    forall j e, In (j, e) mid -> j <> i ->
      match e with
      | EvAcc loc w => guard_of policy_C04 loc <> Some (GuardedBy l)
      | EvAcq l' _ => l' <> l
      | EvRel l' _ => l' <> l
      end.
Proof. intros Hin. apply T3_atomicity. apply C04_locks_any_threads, Hin. Qed.

Print Assumptions C04_race_free.
Print Assumptions C04_cache_ops_atomic.

"""Generators and runner for the text layer (C09, C10, C11): harness/parse.go vs the extracted
QParser.v."""
import random
from . import core

IDENT_START = "abcxyzABZ"
IDENT_REST = "abz019_AZ"
HOSTILE_VALUES = [b"", b"1", b"x", b'"', b'""', b'"x', b'x"', b'a"b', b'a""b', b"new\nline", b"\x00", b" ", b"\xc3\xa9", b"\xff\xfe", b"\xf0\x9f\x90\xb6",
                  b"a b", b"$1", b"&|^()", b";,=", b"L" * 70, b"\t\r\n", b"'", b"\\", b'\\"',
                  b"100%", b"%d", b"%%", b"%s%v%n", b"%!(EXTRA", b"{}", b"\\n", b"\x7f", b"\xe2\x80\xa8"]
WS = [b"", b" ", b"  ", b"\t", b"\n", b"\r\n", b" \t "]


def rand_ident(rng):
    return (rng.choice(IDENT_START) + "".join(rng.choice(IDENT_REST) for _ in range(rng.choice([0, 0, 1, 2, 5])))).encode()


def rand_value(rng):
    if rng.random() < 0.6:
        return rng.choice(HOSTILE_VALUES)
    return bytes(rng.choice([34, 34, 32, 65, 97, 49, 0, 10, 200, 255, 36, 38, 37, 37, 92, 39, 123]) for _ in range(rng.randrange(0, 7)))


def rand_tree(rng, depth, ph_rate=0.25, max_arity=4, min_arity=1):
    """('E', col, val, ph) | ('N', e) | ('A', [..]) | ('O', [..])"""
    if depth <= 0 or rng.random() < 0.3:
        if rng.random() < ph_rate:
            return ("E", rand_ident(rng), b"", rng.choice([1, 1, 2, 3, 7, 10, 2147483647]))
        return ("E", rand_ident(rng), rand_value(rng), 0)
    k = rng.random()
    if k < 0.25:
        return ("N", rand_tree(rng, depth - 1, ph_rate, max_arity, min_arity))
    n = rng.randrange(min_arity, max_arity + 1)
    return ("A" if k < 0.62 else "O", [rand_tree(rng, depth - 1, ph_rate, max_arity, min_arity) for _ in range(n)])


def enc_tree(t):
    if t[0] == "E":
        return "E %s %s %d" % (core.enc_str(t[1]), core.enc_str(t[2]), t[3])
    if t[0] == "N":
        return "N " + enc_tree(t[1])
    return "%s %d%s" % (t[0], len(t[1]), "".join(" " + enc_tree(x) for x in t[1]))


def enc_query(t, gb):
    return "%s GB %d%s" % (enc_tree(t), len(gb), "".join(" " + core.enc_str(c) for c in gb))


def show_tree(t):
    if t[0] == "E":
        return "%s=%s" % (t[1].decode("latin1"), ("$%d" % t[3]) if t[3] else repr(t[2]))
    if t[0] == "N":
        return "^(" + show_tree(t[1]) + ")"
    return ("AND" if t[0] == "A" else "OR") + "[" + ", ".join(show_tree(x) for x in t[1]) + "]"


def quote(v):
    return b'"' + v.replace(b'"', b'""') + b'"'


def tokens_of(rng, t, top=True, ctx=None):
    """A token list (bytes lexemes) spelling a grammatical sentence for tree t, with the
    parentheses the grammar needs (and sometimes redundant ones)."""
    if t[0] == "E":
        toks = [t[1], b"=", (b"$%d" % t[3]) if t[3] else quote(t[2])]
    elif t[0] == "N":
        inner = tokens_of(rng, t[1], False, "N")
        toks = [b"^"] + inner
    else:
        op = b"&" if t[0] == "A" else b"|"
        toks = []
        for i, x in enumerate(t[1]):
            if i:
                toks.append(op)
            toks += tokens_of(rng, x, False, t[0])
    need = (t[0] in ("A", "O") and len(t[1]) >= 2 and ctx is not None) or (t[0] in ("A", "O") and len(t[1]) == 1 and False)
    if need or (rng.random() < 0.08):
        toks = [b"("] + toks + [b")"]
    return toks


def spell(rng, toks, tight=0.3):
    out = rng.choice(WS) if rng.random() < 0.3 else b""
    for i, t in enumerate(toks):
        out += t
        if i + 1 < len(toks):
            nxt = toks[i + 1]
            # identifiers must not merge with a following identifier/digit start
            must = (t[:1].isalpha() and (nxt[:1].isalnum() or nxt[:1] == b"_")) or (t[:1] == b"$" and nxt[:1].isdigit()) or (t[:1] == b'"' and nxt[:1] == b'"')
            if must or rng.random() > tight:
                out += rng.choice(WS[1:])
    if rng.random() < 0.3:
        out += rng.choice(WS)
    return out


def sentence(rng, depth=None):
    """(bytes, tree, group_by): a grammatical query text."""
    d = rng.choice([0, 1, 1, 2, 2, 3, 4, 6]) if depth is None else depth
    t = rand_tree(rng, d, min_arity=2)
    toks = tokens_of(rng, t)
    gb = []
    if rng.random() < 0.35:
        gb = [rand_ident(rng) for _ in range(rng.randrange(1, 5))]
        toks = toks + [b";"]
        for i, c in enumerate(gb):
            if i:
                toks.append(b",")
            toks.append(c)
    return spell(rng, toks), t, gb, toks


ALL_TOKENS = [b"(", b")", b"&", b"|", b"^", b"=", b",", b";", b"a", b"b1", b'"v"', b'""', b"$1", b"$0", b"$", b'"unterminated', b"\xc3\xa9", b"#", b"\x00", b"$99999999999999999999"]


def mutate(rng, toks):
    toks = list(toks)
    k = rng.randrange(8)
    if not toks:
        return toks
    i = rng.randrange(len(toks))
    if k == 0:
        del toks[i]
    elif k == 1:
        toks.insert(i, toks[i])
    elif k == 2 and len(toks) > 1:
        j = rng.randrange(len(toks))
        toks[i], toks[j] = toks[j], toks[i]
    elif k == 3:
        toks.append(rng.choice(ALL_TOKENS))
    elif k == 4:
        toks.insert(i, rng.choice(ALL_TOKENS))
    elif k == 5:
        toks[i] = rng.choice(ALL_TOKENS)
    elif k == 6:
        toks = toks[:i]
    else:
        toks.append(rng.choice([b")", b"(", b'"abc', b"| c=\"3\"", b"x y"]))
    return toks


PLACEHOLDERS = [b"$", b"$0", b"$1", b"$007", b"$2147483647", b"$2147483648", b"$4294967296", b"$4294967297", b"$99999999999999999999",
                b"$18446744073709551617", b"$-1", b"$+1", b"$1_0", b"$ 1", b"$1a", b"$0x1", b"$1e3", b"$00000000000000000000001",
                b"$010", b"$0017", b"$08", b"$09", b"$0100", b"$0777", b"$00", b"$000", b"$012345670", b"$019"]

DIRECTED = [b'a="1" & b="2" | c="3"', b'a="1" "abc', b'a="1" \xc3\xa9', b'a="1" ; x y', b'a="1" )', b'a="1" ;', b'a="1" ; x,', b'a="1" ; ,x', b'(a="1"', b'a="1")',
            b'((a="1"))', b'^^a="1"', b'^(a="1" & b="2")', b'a = "x""y"', b'a=""', b'a="', b'a=', b'a', b'', b' ', b'^', b'()', b'a="1" & ', b'& a="1"',
            b'a="1" | b="2" & c="3"', b'(a="1" | b="2") & c="3"', b'a="1" & (b="2" | c="3") ; x, y', b'A_1z="\x00\xff"', b'_a="1"', b'1a="1"', b'a.b="1"',
            b'a="1";b', b'a="1";b,c', b'a="1" ; b ; c', b'a="1" , b', b'a=="1"', b'a="1""', b'a="1" "2"', b'a="1"b="2"', b'a="1"&b="2"', b'a="1"^b="2"',
            b'a=$1&b=$2', b'\xef\xbb\xbfa="1"', b'a\x00="1"', b'a="1"\x00', b'a="1" \x0b', b'a="1"\xc2\xa0', b'\xe2\x80\xa8a="1"']


def run_text(scratch, lines, tag, timeout=1200):
    path = scratch.path("text-%s.txt" % tag)
    with open(path, "w") as fh:
        fh.write("\n".join(lines) + "\n")
    ilines, rc, err = core.run_impl(scratch, "parse", path, timeout=timeout)
    mlines = core.run_model("parse", path, timeout=timeout)
    impl, model = {}, {}
    for l in ilines:
        f = l.split(" ", 2)
        if len(f) >= 2:
            impl[(f[0], f[1])] = f[2] if len(f) > 2 else ""
    for l in mlines:
        f = l.split(" ", 2)
        if len(f) >= 2:
            model[(f[0], f[1])] = f[2] if len(f) > 2 else ""
    return impl, model, rc, err

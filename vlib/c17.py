"""C17 — sql driver handles survive any open/close/concurrent-use sequence.
(T) lock obligations regenerated from driver/driver.go (coq/obligations/ObC17.v: the connection
    cache is only touched inside ONE critical section per Open / Close);
(D) random well-formed histories of driver.Conn-level Open / query / Close on 2 index files x 3
    option strings (+ a missing file, + an invalid option) vs the extracted DriverSM.d_run, each
    history in a fresh process; the same through database/sql with pool sizes 1..4; first use of
    a fresh handle by 16 goroutines; lock release probed after the last close."""
import os, random, concurrent.futures
from . import core, dp, locks

PID = "C17"
OPTS = ["-", "preload=true", "lrucache=true&lrucachesize=1000", "preload=false"]
SPELL = ["lrucache=true&lrucachesize=1000", "lrucache=true&lrucachesize=01000", "lrucache=true&lrucachesize=%31000", "lrucache=true&lrucachesize=007",
         "lrucachesize=1000&lrucache=true", "lrucache=true&lrucachesize=1000&x=1", "lrucache=%74rue&lrucachesize=1000&lrucachesize=5",
         "preload=true", "preload=%74rue", "preload=true&preload=false", "-", "preload=tru%"]


def datasets():
    d1 = dp.Dataset("fa", [{b"a": b"1"}, {b"a": b"1"}, {b"a": b"2"}], "three")
    d2 = dp.Dataset("fb", [{b"a": b"1"}] * 7 + [{b"a": b"3"}], "eight")
    return [d1, d2], {"fa": 2, "fb": 7}


def gen_history(rng, maxlen, optlist=None):
    optlist = optlist or OPTS
    ops, live, used, nh = [], [], 0, 0
    for _ in range(rng.randrange(3, maxlen + 1)):
        k = rng.random()
        if not live or k < 0.35:
            nh += 1
            h = "h%d" % nh
            f = rng.choice(["fa", "fa", "fb", "fb", "fmissing"])
            o = rng.choice(optlist + (["lrucache=true&lrucachesize=abc"] if rng.random() < 0.1 else []))
            ops.append(("DOPEN", h, f, o))
            if f != "fmissing" and "abc" not in o:
                live.append(h)
        elif k < 0.7:
            ops.append(("DQUERY", rng.choice(live)))
        else:
            h = rng.choice(live)
            live.remove(h)
            ops.append(("DCLOSE", h))
    if rng.random() < 0.6:
        rng.shuffle(live)
        for h in list(live):
            ops.append(("DCLOSE", h))
        live = []
    if rng.random() < 0.3:
        ops.insert(0, ("RELPATHS",))
    return ops, live


def history_lines(dss, ops, probe):
    lines = []
    for ds in dss:
        lines += ds.lines()
    if any(o[0] == "RELPATHS" for o in ops):
        lines.append("RELPATHS on")         # data source names relative to the working directory
    lines.append("MISSINGFILE fmissing")
    qn = 0
    for o in ops:
        if o[0] == "DOPEN":
            lines.append("DOPEN %s %s %s" % (o[1], o[2], o[3]))
        elif o[0] == "DQUERY":
            qn += 1
            # every third query asks for a value that occurs in no row (count 0)
            lines.append("DQUERY q%d %s %s" % (qn, o[1], core.enc_str(b'a="1"' if qn % 3 else b'a="no-such-value"')))
        elif o[0] == "DCLOSE":
            lines.append("DCLOSE %s" % o[1])
    for f in probe:
        lines.append("SQLPROBE p_%s %s" % (f, f))
    return lines


def run_one(scratch, lines, tag):
    path = scratch.path("c17-%s.txt" % tag)
    with open(path, "w") as fh:
        fh.write("\n".join(lines) + "\n")
    ilines, rc, err = core.run_impl(scratch, "sql", path, timeout=200)
    mlines = core.run_model("drv", path)
    return ilines, mlines, rc, err


def judge(ilines, mlines, counts, live_files):
    """First discrepancy of a history, or None."""
    impl = {l.split(" ", 2)[1]: l.split(" ", 2)[2] if len(l.split(" ", 2)) > 2 else "" for l in ilines if l.startswith("D ")}
    model = [(l.split(" ", 2)[1], l.split(" ", 2)[2]) for l in mlines if l.startswith("D ")]
    wf = next((l for l in mlines if l.startswith("WF")), "WF true")
    if wf != "WF true":
        raise core.FrameworkError("generator produced an ill-formed history")
    for lab, want in model:
        got = impl.get(lab)
        if got is None:
            return (lab, "no output (process died?)", want)
        if want.startswith("ROWSOF"):
            f = want.split()[1]
            exp = "DROWS 1 %d |" % (counts[f] if (not lab.startswith("q") or int(lab[1:]) % 3) else 0)
            if got != exp:
                return (lab, got, "%s (the count of a=\"1\" on %s)" % (exp, f))
        elif got != want:
            return (lab, got, want)
    for l in ilines:
        if l.startswith("SQLPROBE"):
            f = l.split()[1][2:]
            if l.split()[2] == "LOCK-HELD" and f not in live_files:
                return ("probe " + f, "LOCK-HELD after the last handle on the file was closed", "RELEASED")
    return None


def dynamic(rep, scratch, tier, seed):
    rng = random.Random(seed)
    dss, counts = datasets()
    scratch.harness()
    hist = []
    fixed = [[("DOPEN", "h1", "fa", "-"), ("DQUERY", "h1"), ("DCLOSE", "h1"), ("DOPEN", "h2", "fa", "-"), ("DQUERY", "h2"), ("DCLOSE", "h2")],
             [("DOPEN", "h1", "fa", "-"), ("DOPEN", "h2", "fa", "preload=true"), ("DQUERY", "h2"), ("DQUERY", "h1"), ("DCLOSE", "h1"), ("DCLOSE", "h2")],
             [("DOPEN", "h1", "fa", "-"), ("DOPEN", "h2", "fa", "-"), ("DCLOSE", "h1"), ("DQUERY", "h2"), ("DCLOSE", "h2"), ("DOPEN", "h3", "fa", "preload=false"), ("DQUERY", "h3"), ("DCLOSE", "h3")]]
    fixed += [[("RELPATHS",), ("DOPEN", "h1", "fa", "-"), ("DOPEN", "h2", "fb", "-"), ("DQUERY", "h1"), ("DQUERY", "h2"), ("DCLOSE", "h1"), ("DQUERY", "h2"), ("DCLOSE", "h2"),
               ("DOPEN", "h3", "fb", "preload=true"), ("DOPEN", "h4", "fa", "preload=true"), ("DQUERY", "h4"), ("DQUERY", "h3"), ("DCLOSE", "h3"), ("DCLOSE", "h4")]]
    lru = "lrucache=true&lrucachesize=1000"
    fixed += [[("DOPEN", "h1", "fa", lru), ("DQUERY", "h1"), ("DCLOSE", "h1"), ("DOPEN", "h2", "fa", lru), ("DQUERY", "h2"), ("DCLOSE", "h2"),
               ("DOPEN", "h3", "fa", "preload=true&" + lru), ("DOPEN", "h4", "fa", "preload=true&" + lru), ("DCLOSE", "h3"), ("DCLOSE", "h4"),
               ("DOPEN", "h5", "fa", "preload=true&" + lru), ("DQUERY", "h5"), ("DCLOSE", "h5")]]
    for ops in fixed:
        hist.append((ops, []))
    for _ in range(60 if tier == "quick" else 4000):
        hist.append(gen_history(rng, 14))
    # the same options written differently (leading zeros, escapes, other order, repeated and
    # unknown keys): the key a connection is cached under and the key it is released under must be
    # the same one (Dsn.parse_dsn computes the model's key).  A separate random stream, so the
    # histories above stay what they were.
    rng2 = random.Random(seed * 7919 + 3)
    for sp in SPELL[:4]:
        hist.append(([("DOPEN", "h1", "fa", sp), ("DQUERY", "h1"), ("DCLOSE", "h1"), ("DOPEN", "h2", "fa", sp), ("DQUERY", "h2"), ("DCLOSE", "h2"),
                      ("DOPEN", "h3", "fa", SPELL[0]), ("DOPEN", "h4", "fa", sp), ("DCLOSE", "h3"), ("DQUERY", "h4"), ("DCLOSE", "h4")], []))
    for _ in range(40 if tier == "quick" else 2000):
        hist.append(gen_history(rng2, 14, SPELL))
    results = []

    def work(i):
        ops, live = hist[i]
        live_files = set(o[2] for o in ops if o[0] == "DOPEN" and o[1] in live)
        lines = history_lines(dss, ops, ["fa", "fb"])
        il, ml, rc, err = run_one(scratch, lines, "h%d" % i)
        return i, judge(il, ml, counts, live_files), lines, il, ml
    with concurrent.futures.ThreadPoolExecutor(max_workers=12) as ex:
        results = list(ex.map(work, range(len(hist))))
    bad = [(i, j, lines, il, ml) for i, j, lines, il, ml in results if j]
    seen = set()
    for i, j, lines, il, ml in bad:
        cls = j[1].split()[0]
        if cls in seen:
            continue
        seen.add(cls)
        # shrink the history: drop operations (keeping it well-formed) while it still fails
        ops = hist[i][0]

        def wf(ops):
            live, used = set(), set()
            for o in ops:
                if o[0] == "RELPATHS":
                    continue
                if o[0] == "DOPEN":
                    if o[1] in used:
                        return False
                    used.add(o[1])
                    if o[2] != "fmissing" and "abc" not in o[3]:
                        live.add(o[1])
                elif o[1] not in live:
                    return False
                elif o[0] == "DCLOSE":
                    live.discard(o[1])
            return True

        def fails(sub):
            if not wf(sub):
                return False
            live_files = set()
            lv = {}
            for o in sub:
                if o[0] == "DOPEN":
                    lv[o[1]] = o[2]
                elif o[0] == "DCLOSE":
                    lv.pop(o[1], None)
            il2, ml2, _, _ = run_one(scratch, history_lines(dss, sub, ["fa", "fb"]), "s")
            return judge(il2, ml2, counts, set(lv.values())) is not None
        small = core.ddmin(ops, fails, budget=40)
        il2, ml2, _, _ = run_one(scratch, history_lines(dss, small, ["fa", "fb"]), "s")
        lv = {}
        for o in small:
            if o[0] == "DOPEN":
                lv[o[1]] = o[2]
            elif o[0] == "DCLOSE":
                lv.pop(o[1], None)
        j2 = judge(il2, ml2, counts, set(lv.values())) or j
        rep.violation("correspondence", "driver-level history %s: at %s the implementation answered %s, the model %s" % (
            " ; ".join(" ".join(o) for o in small), j2[0], j2[1][:120], j2[2][:120]),
            {"lines": history_lines(dss, small, ["fa", "fb"]), "impl": [l for l in il2 if l.startswith(("D ", "SQLPROBE"))], "model": [l for l in ml2 if l.startswith("D ")]})
    # database/sql level: pools, concurrent first use, reopen after close
    sql_bad = sql_level(rep, scratch, rng, tier, dss, counts)
    return len(hist), len(bad) + sql_bad, hist


def sql_level(rep, scratch, rng, tier, dss, counts):
    nbad = 0
    scen = []
    q = core.enc_str(b'a="1"')
    for pool in (1, 2, 4):
        scen.append(("reopen-pool%d" % pool, ["SQLOPEN d1 fa - %d" % pool, "SQLQ s1 d1 direct %s 1" % q, "ARGS 0", "SQLCLOSE d1", "SQLPROBE p1 fa",
                                              "SQLOPEN d2 fa - %d" % pool, "SQLQ s2 d2 prepared %s 2" % q, "ARGS 0", "ARGS 0", "SQLCLOSE d2", "SQLPROBE p2 fa"]))
        scen.append(("two-options-pool%d" % pool, ["SQLOPEN d1 fa - %d" % pool, "SQLQ s1 d1 direct %s 1" % q, "ARGS 0",
                                                   "SQLOPEN d2 fa preload=true %d" % pool, "SQLQ s2 d2 direct %s 1" % q, "ARGS 0",
                                                   "SQLQ s3 d1 direct %s 1" % q, "ARGS 0", "SQLCLOSE d1", "SQLCLOSE d2", "SQLPROBE p1 fa"]))
    for n in (2, 16):
        scen.append(("concurrent-first-use-%d" % n, ["SQLOPEN d1 fb lrucache=true&lrucachesize=1000 4", "SQLCONC c1 d1 %d %s" % (n, q), "SQLCLOSE d1", "SQLPROBE p1 fb",
                                                     "SQLOPEN d2 fb - 2", "SQLCONC c2 d2 %d %s" % (n, q), "SQLQ s9 d2 direct %s 1" % q, "ARGS 0", "SQLCLOSE d2", "SQLPROBE p2 fb"]))
    # operator nodes (whose results go through the LRU cache) evaluated by many goroutines at once,
    # and a prepared statement with a placeholder below a negation executed several times
    qnn = core.enc_str(b'^ ^ a="1"')
    qph = core.enc_str(b"^ ^ a = $1")
    for n in (4, 16):
        body = []
        for rnd in range(40):       # a fresh cache every round: the first use is where several goroutines miss and store the same key
            body += ["SQLOPEN d%d fa lrucache=true&lrucachesize=100000 %d" % (rnd, n), "SQLCONC c%d d%d %d %s" % (rnd, rnd, n, qnn),
                     "SQLQ s%d d%d direct %s 1" % (rnd, rnd, qnn), "ARGS 0", "SQLCLOSE d%d" % rnd]
        scen.append(("concurrent-cached-operators-%d" % n, body + ["SQLPROBE p1 fa"]))
    scen.append(("prepared-placeholder-under-not", ["SQLOPEN d1 fa - 2", "SQLQ s1 d1 prepared %s 3" % qph, "ARGS 1 S 1 49", "ARGS 1 S 1 49", "ARGS 1 S 1 49",
                                                    "SQLQ s2 d1 direct %s 2" % qph, "ARGS 1 S 1 49", "ARGS 1 S 1 49", "SQLCLOSE d1", "SQLPROBE p1 fa"]))
    # queries that fail at execution (unknown column, too few arguments) between good ones, then
    # the last close: the file must be released; two transactions open at the same time
    lru = "lrucache=true&lrucachesize=1000"
    qbad = core.enc_str(b'nosuchcolumn="1"')
    qfew = core.enc_str(b"a = $1 | a = $2")
    for pool in (1, 3):
        scen.append(("failing-queries-then-close-pool%d" % pool, ["SQLOPEN d1 fa %s %d" % (lru, pool), "SQLQ s1 d1 direct %s 1" % q, "ARGS 0", "SQLQ e1 d1 direct %s 2" % qbad, "ARGS 0", "ARGS 0",
                                                                  "SQLQ e2 d1 direct %s 1" % qfew, "ARGS 1 S 1 49", "SQLQ e3 d1 prepared %s 1" % qbad, "ARGS 0", "SQLQ e4 d1 tx %s 1" % qbad, "ARGS 0",
                                                                  "SQLQ s2 d1 direct %s 1" % q, "ARGS 0", "SQLCLOSE d1", "SQLPROBE p1 fa",
                                                                  "SQLOPEN d2 fa %s %d" % (lru, pool), "SQLQ s3 d2 direct %s 1" % q, "ARGS 0", "SQLCLOSE d2", "SQLPROBE p2 fa"]))
    qarg = core.enc_str(b'^ ^ a = $1 ; a')
    scen.append(("concurrent-queries-with-different-arguments", ["SQLOPEN d1 fa - 8", "SQLCONCA ca d1 16 %d %s 4 1 S 1 49 1 S 1 50 1 S 2 122 122 1 I 1" % (30 if tier == "quick" else 300, qarg),
                                                                "SQLOPEN d2 fa - 2", "SQLCONCA cb d2 8 %d %s 3 1 S 1 49 1 S 1 50 1 S 1 51" % (30 if tier == "quick" else 300, qarg),
                                                                "SQLCLOSE d1", "SQLCLOSE d2", "SQLPROBE p1 fa"]))
    scen.append(("overlapping-transactions", ["SQLOPEN d1 fa - 4", "SQLTX2 s1 d1 %s" % q, "SQLTX2 s2 d1 %s" % q, "SQLQ s3 d1 direct %s 1" % q, "ARGS 0", "SQLCLOSE d1", "SQLPROBE p1 fa"]))
    for n, iters in ((8, 150), (16, 60)):
        scen.append(("open-query-close-churn-%d" % n, ["SQLCHURN ch fa preload=true %d %d %s" % (n, iters if tier == "quick" else iters * 5, q), "SQLPROBE p1 fa"]))
    for name, body in scen:
        lines = []
        for ds in dss:
            lines += ds.lines()
        lines += body
        path = scratch.path("c17-sql-%s.txt" % name)
        with open(path, "w") as fh:
            fh.write("\n".join(lines) + "\n")
        il, rc, err = core.run_impl(scratch, "sql", path, timeout=300)
        why = None
        for l in il:
            f = l.split(" ", 2)
            if f[0] == "SQL" and f[1].startswith("e"):
                if f[2] != "ERR":
                    why = "%s (a query the library rejects) answered %s (expected an error)" % (f[1], f[2][:80])
                    break
                continue
            if f[0] == "SQL":
                file = "fb" if "fb" in " ".join(body[:1]) or f[1].startswith(("c", "s9")) and "fb" in " ".join(body) else "fa"
                want = "ROWS 1 5 99 111 117 110 116 TYPES BIGINT:int64 N 1 | I %d" % counts[file]
                if f[2] != want:
                    why = "%s answered %s (expected %s)" % (f[1], f[2][:80], want[-12:])
                    break
            if f[0] == "CONCA" and not f[2].startswith("OK"):
                why = "queries with different arguments run at the same time on one data source: %s" % f[2][:200]
                break
            if f[0] == "CHURN":
                want = "ROWS 1 5 99 111 117 110 116 TYPES BIGINT:int64 N 1 | I %d" % counts["fa"]
                g = l.split(" ", 3)
                if g[3] != want:
                    why = "%s iterations of sql.Open/Query/Close under concurrency answered %s" % (g[2], g[3][:80])
                    break
            if f[0] == "SQLCLOSE" and f[2] != "OK":
                why = "Close of %s: %s" % (f[1], f[2])
                break
            if f[0] == "SQLPROBE" and f[2] != "RELEASED":
                why = "the file is still locked after the last handle was closed"
                break
        if rc != 0 and not why:
            why = "harness died rc=%s %s" % (rc, err[:200])
        if why:
            nbad += 1
            if nbad <= 3:
                rep.violation("monitor:database/sql", "scenario %s: %s" % (name, why), {"lines": lines, "impl": il})
    return nbad


def run(rep, scratch, tier, seed, replay=None):
    if replay:
        il, ml, rc, err = run_one(scratch, replay["lines"], "replay")
        j = judge(il, ml, datasets()[1], set())
        if j:
            rep.violation("correspondence", "replay: at %s implementation %s, model %s" % j, {"lines": replay["lines"], "impl": il})
        return
    ob = locks.check_obligations(scratch, PID)
    rep.coverage["lock_obligations"] = {"file": "coq/obligations/ObC17.v", "ok": ob["ok"], "theorems": ob["theorems"], "closed_under_global_context": ob["closed"]}
    rep.coverage["obligations"] = rep.coverage.get("obligations", 0) + len(ob["theorems"])
    rep.coverage["discharged"] = rep.coverage.get("discharged", 0) + (len(ob["theorems"]) if ob["ok"] else 0)
    nh, nbad, hist = dynamic(rep, scratch, tier, seed)
    if not ob["ok"] and nbad == 0:
        for extra in (1, 2):
            n2, b2, _ = dynamic(rep, scratch, tier, seed + extra)
            nbad += b2
            if nbad:
                break
        if nbad == 0:
            rep.violation("obligation", "the generated lock obligation of C17 no longer checks (coq/obligations/ObC17.v); histories and concurrent first use found no failing schedule",
                          {"broken": "C17_locks / C17_single_section", "unknown_to_policy": ob.get("unknown_to_policy", ""), "coqc_output": ob["output"][-2500:]}, no_input=True)
    rep.coverage.update({
        "evaluations": nh + 15, "distinct_nontrivial": len(set(tuple(o[0] for o in h[0]) for h in hist)),
        "rule": "well-formed histories of 3..14 driver.Conn-level operations (Open / query / Close) over 2 index files x option strings %s (+ missing file, + invalid cache size, + the same options spelled differently: leading zeros, escapes, order, repeated keys), each in a fresh process, compared with DriverSM.d_run (result class per operation; a query must return the count of its own file); database/sql scenarios: reopen after the last close, the same file under two option strings, pool sizes 1,2,4, first use by 2 and 16 goroutines; after the last close a non-blocking flock must succeed. Non-trivial = distinct operation-kind sequences." % OPTS,
        "failures": nbad, "samples": [" ; ".join(" ".join(o) for o in hist[5][0])],
    })
    rep.assumptions += ["database/sql uses a driver.Conn only between its Open and its single Close (well-formed histories)",
                        "each driver operation is one critical section (lock obligations); the watchdog (10 s) stands for 'hangs'"]

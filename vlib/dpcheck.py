"""Engine of the data-plane checks C01 (counts), C02 (group-by), C05 (round trip)."""
import json, os, random
from . import core, dp


def project(focus, line):
    """The observable the property fixes."""
    if line is None:
        return None
    if focus == "count":
        f = line.split()
        return " ".join(f[:2]) if f and f[0] == "OK" else line
    return line


def has_nul_column(ds, q=None):
    if any(0 in c for r in ds.rows for c in r):
        return True
    if q is not None and any(0 in c for c in dp.expr_cols(q.expr)):
        return True
    return False


def gen_plan(rng, tier, focus):
    """Returns a list of (dataset, [queries], [extra lines])."""
    plan = []
    nd = [0]

    def new_id():
        nd[0] += 1
        return "d%d" % nd[0]

    def add_queries(ds, nrand, gb_mode, per_value=True, writers=dp.WRITERS, modes=dp.MODES, unknown_rate=0.1):
        qs = []
        vals = ds.values()
        cols = sorted(vals)
        qn = [0]

        def mk(expr, gb, writer=None, mode=None):
            qn[0] += 1
            w = writer or rng.choice(writers)
            m = mode or rng.choice(modes)
            return dp.Query("%s.q%d" % (ds.did, qn[0]), ds, w, m, expr, gb, 1 if dp.spec_affordable(ds, gb) else 0)

        leaves = dp.leaves_for(rng, ds)
        leaves_u = dp.leaves_for(rng, ds, unknown=True)
        fixed = []
        if leaves:
            l0 = leaves[0]
            fixed = [l0, ("N", l0), ("N", ("N", l0)), ("A", [l0]), ("O", [l0]), ("A", [l0, l0]), ("O", [l0, ("N", l0)]), ("A", [l0, ("N", l0)])]
            l1 = leaves[-1]
            # operators whose operands are all negations; repeated operands next to a different one
            fixed += [("A", [("N", l0)]), ("A", [("N", l0), ("N", l1)]), ("O", [("N", l0), ("N", l1)]), ("O", [l0, l0, l1]), ("A", [l0, l0, l1]),
                      ("O", [l1, l1, l0]), ("A", [l1, l1, l0]), ("O", [l0, l1, l1, l0])]
            if b"o" in vals:
                fixed.append(("N", dp.e_eq(b"o", b"o1")))    # NOT over rows lacking the column
        def gb_for():
            if gb_mode == "none" or not cols:
                return []
            k = rng.choice([0, 1, 1, 2, 2, 3, 4, 5, 6])
            pool = [c for c in cols if len(vals[c]) <= 40] or cols
            gb = [rng.choice(pool) for _ in range(k)]
            if rng.random() < 0.07:
                gb.insert(rng.randrange(len(gb) + 1), rng.choice([b"nosuchcol", b"", b"A"]))
            return gb
        for e in fixed:
            for w in writers:
                for m in modes:
                    qs.append(mk(e, gb_for() if gb_mode != "none" and rng.random() < 0.5 else [], w, m))
        for _ in range(nrand):
            lv = leaves_u if rng.random() < unknown_rate else leaves
            e = dp.rand_expr(rng, lv, rng.randrange(0, 7))
            qs.append(mk(e, gb_for()))
        if len(leaves) >= 2:
            # wide operators (17..65 operands) in which the LAST operand decides the answer
            la, lb = leaves[0], leaves[-1]
            k = len(ds.rows) % 4
            for arity in ((17, 33), (18, 40), (31, 65), (16, 17))[k]:
                qs.append(mk(("A", [la] * (arity - 1) + [lb]), [], writers[(arity + k) % len(writers)], modes[arity % len(modes)]))
                qs.append(mk(("O", [la] * (arity - 1) + [lb]), [], writers[(arity + k + 1) % len(writers)], modes[(arity + 1) % len(modes)]))
                qs.append(mk(("O", [leaves[i % len(leaves)] for i in range(arity)]), [], writers[k % len(writers)], modes[k % len(modes)]))
        if per_value:
            allv = [(c, v) for c in cols for v in sorted(vals[c])]
            if len(allv) > 5000:
                allv = rng.sample(allv, 5000)
            for i, (c, v) in enumerate(allv):
                qs.append(mk(dp.e_eq(c, v), [], dp.WRITERS[i % 3] if len(writers) == 3 else None, dp.MODES[(i // 3) % 2]))
        if gb_mode == "directed" and cols:
            # >= 4 columns with sibling values at the deepest levels, repeated columns, inner column missing
            any_e = ("O", [dp.e_eq(c, v) for c in cols[:2] for v in sorted(vals[c])[:3]]) if cols else None
            for k in (1, 2, 3, 4, 5, 6):
                pool = [c for c in cols if len(vals[c]) <= 12] or cols
                gb = [pool[i % len(pool)] for i in range(k)]
                rng.shuffle(gb)
                for w in writers:
                    qs.append(mk(any_e, gb, w, rng.choice(modes)))
                qs.append(mk(("N", any_e), gb))
            if b"u" in vals:
                for w in writers:
                    qs.append(mk(("O", [dp.e_eq(b"d", b"0"), dp.e_eq(b"d", b"1")]), [b"d", b"u"], w, rng.choice(modes)))
                    qs.append(mk(dp.e_eq(b"d", b"1"), [b"u"], w, rng.choice(modes)))
        return qs

    gb_mode = {"count": "none", "groups": "directed", "roundtrip": "directed"}[focus]
    nsmall = 30 if tier == "quick" else 300
    for _ in range(nsmall):
        ds = dp.small_dataset(rng, new_id())
        plan.append((ds, add_queries(ds, 25, gb_mode)))
    # directed small dataset for deep group-by (siblings differing only in the last column)
    if focus != "count":
        for depth in (4, 5, 6):
            cols = [b"a", b"b", b"c", b"d", b"e", b"f"][:depth]
            rows = []
            for x in range(3):
                r = {c: b"1" for c in cols}
                r[cols[-1]] = b"%d" % (x + 1)
                rows.append(r)
            rows.append({c: b"1" for c in cols[:-1]})      # lacks the last column
            ds = dp.Dataset(new_id(), rows, "siblings%d" % depth)
            qs = []
            for w in dp.WRITERS:
                for m in dp.MODES:
                    qs.append(dp.Query("%s.s%d" % (ds.did, len(qs)), ds, w, m, dp.e_eq(b"a", b"1"), cols, 1))
            plan.append((ds, qs + add_queries(ds, 10, gb_mode)))
    # column names that are prefixes of each other (the pre-hash encoding must separate them)
    for sep in dp.SEPARATORS:
        ds = dp.prefix_dataset(new_id(), sep)
        plan.append((ds, add_queries(ds, 6, gb_mode)))
    # value lengths 0..140 under column names of several lengths, two values per length that differ
    # only in their last byte (plus the value one byte shorter): every total length of column +
    # value around 16, 32, 64, 128 occurs, so a fixed-size buffer anywhere in the hashing shows
    rows = []
    for cname in (b"c", b"kk", b"column7", b"a_name_of_31_bytes_____________"):
        for L in range(0, 141):
            base = (b"0123456789abcdefghijklmnopqrstuvwxyzABCDEFGHIJKLMNOPQRSTUVWXYZ-_" * 3)[:max(0, L - 1)]
            for last in ((b"a", b"b") if L > 0 else (b"",)):
                rows.append({cname: base + last})
    for PL in (200, 250, 254, 255, 256, 257, 300, 511, 512, 1000, 4096, 5000):
        P = (b"http://example.org/some/long/path/segment/" * 130)[:PL]
        rows += [{b"c": P + b"1", b"u": b"x"}, {b"c": P + b"2", b"u": b"x"}, {b"c": P + b"2", b"u": b"y"}, {b"c": P}]
    ds = dp.Dataset(new_id(), rows, "length-ladder")
    plan.append((ds, add_queries(ds, 4, gb_mode, per_value=True)))
    # values held by exactly 4096, 8192 and 16384 rows (whole chunks of a streaming writer)
    rows = [{b"v": (b"a" if i < 8192 else b"b"), b"w": b"%d" % (i % 2), b"q": (b"x" if i < 4096 else b"y" if i < 8192 else b"z"), b"all": b"1"} for i in range(16384)]
    ds = dp.Dataset(new_id(), rows, "whole-chunks")
    qs = []
    for n, (c, v) in enumerate([(b"v", b"a"), (b"v", b"b"), (b"w", b"0"), (b"w", b"1"), (b"q", b"x"), (b"q", b"y"), (b"q", b"z"), (b"all", b"1")]):
        for w in dp.WRITERS:
            qs.append(dp.Query("%s.k%d%s" % (ds.did, n, w), ds, w, dp.MODES[n % 2], dp.e_eq(c, v), [], 0))
    plan.append((ds, qs))
    # the same in-memory writer flushed twice
    for n in ([5, 1200] if tier == "quick" else [5, 999, 1200, 2500]):
        ds = dp.shaped_dataset(rng, new_id(), n, unique=(focus != "count")) if n > 5 else dp.small_dataset(rng, new_id(), hostile=False)
        plan.append((ds, add_queries(ds, 6, gb_mode, per_value=(n <= 1200), writers=["mem2"])))
    # the value whose (column,value) hash is zero
    ds = dp.Dataset(new_id(), [{b"a": dp.HASH0_VALUE, b"b": b"1"}, {b"a": b"x"}, {b"a": dp.HASH0_VALUE}], "hash0")
    plan.append((ds, add_queries(ds, 5, gb_mode)))
    # quick keeps the batch boundaries (1000 values / rows) and one container boundary; the
    # 65536 boundary and 150k rows cost the extracted model a minute each: thorough only
    sizes = [999, 1000, 1001, 2001, 4096] if tier == "quick" else [999, 1000, 1001, 2000, 2001, 4095, 4096, 4097, 65535, 65536, 65537, 150000]
    for n in sizes:
        uniq = n <= 2001 or (tier == "thorough" and n <= 4097)
        ds = dp.shaped_dataset(rng, new_id(), n, unique=uniq and focus != "count")
        plan.append((ds, add_queries(ds, 30 if n <= 5000 else 12, gb_mode, per_value=((n <= 2001 if tier == "quick" else n <= 5000) or (focus == "roundtrip" and tier != "quick")))))
    return plan


def plan_lines(plan, extra=None):
    lines = []
    for ds, qs in plan:
        lines += ds.lines()
        if extra:
            lines += extra(ds)
        lines += [q.line() for q in qs]
        lines.append("DROP " + ds.did)
    return lines


def shrink_case(scratch, focus, ds, q):
    """Minimise rows, then the expression, keeping impl != model on the projected observable."""
    def differs(rows, expr=None, gb=None):
        d = dp.Dataset("x", rows, ds.kind)
        qq = dp.Query("x.q", d, q.writer, q.mode, expr or q.expr, q.gb if gb is None else gb, 0)
        impl, model, spec, rc, err = dp.run_dp(scratch, d.lines() + [qq.line()], "shrink", timeout=600)
        a, b = impl.get(("Q", "x.q")), model.get(("Q", "x.q"))
        return project(focus, a) != project(focus, b)

    rows = ds.rows
    if len(rows) <= 3000:
        rows = core.ddmin(rows, lambda rs: differs(rs), budget=80)
    expr = q.expr
    changed = True
    steps = 0
    while changed and steps < 40:
        changed = False
        steps += 1
        cands = []
        if expr[0] == "N":
            cands.append(expr[1])
        elif expr[0] in ("A", "O"):
            cands += list(expr[1])
            if len(expr[1]) > 1:
                for i in range(len(expr[1])):
                    cands.append((expr[0], expr[1][:i] + expr[1][i + 1:]))
        for c in cands:
            if differs(rows, c):
                expr, changed = c, True
                break
    gb = list(q.gb)
    i = 0
    while i < len(gb) and len(gb) > 0:
        cand = gb[:i] + gb[i + 1:]
        if differs(rows, expr, cand):
            gb = cand
        else:
            i += 1
    d = dp.Dataset("x", rows, ds.kind)
    qq = dp.Query("x.q", d, q.writer, q.mode, expr, gb, 1 if dp.spec_affordable(d, gb) else 0)
    impl, model, spec, rc, err = dp.run_dp(scratch, d.lines() + [qq.line()], "shrink", timeout=600)
    return d, qq, impl.get(("Q", "x.q")), model.get(("Q", "x.q")), spec.get(("Q", "x.q"))


def classify(ds, q):
    if has_nul_column(ds, q):
        return "nul_in_column_name"
    return None


def run_focus(rep, scratch, tier, seed, replay, focus, pid, extra_lines=None, extra_compare=None):
    rng = random.Random(seed)
    if replay:
        ds = dp.Dataset.from_json("d1", replay["dataset"])
        qj = replay["query"]
        q = dp.Query("d1.q1", ds, qj["writer"], qj["mode"], dp.expr_unjson(qj["expr"]), [bytes.fromhex(c) for c in qj["group_by"]], 1 if dp.spec_affordable(ds, [bytes.fromhex(c) for c in qj["group_by"]]) else 0)
        plan = [(ds, [q])]
    else:
        plan = corpus_plan(pid) + gen_plan(rng, tier, focus)
        plan.append(nul_probe())
    lines = plan_lines(plan, extra_lines)
    impl, model, spec, rc, err = dp.run_dp(scratch, lines, "main")
    nq = 0
    nontrivial = set()
    stats = {"datasets": len(plan), "rows_total": sum(len(ds.rows) for ds, _ in plan), "max_rows": max(len(ds.rows) for ds, _ in plan),
             "queries_by_writer": {}, "queries_by_mode": {}, "errors_expected": 0, "with_group_by": 0, "spec_evaluated": 0,
             "python_oracle_evaluated": 0, "dataset_kinds": sorted(set(ds.kind for ds, _ in plan))}
    failures = []
    for ds, qs in plan:
        rowcount = len(ds.rows)
        for q in qs:
            nq += 1
            key = ("Q", q.qid)
            a, b, s = impl.get(key), model.get(key), spec.get(key)
            stats["queries_by_writer"][q.writer] = stats["queries_by_writer"].get(q.writer, 0) + 1
            stats["queries_by_mode"][q.mode] = stats["queries_by_mode"].get(q.mode, 0) + 1
            if q.gb:
                stats["with_group_by"] += 1
            if b is None:
                raise core.FrameworkError("model produced no output for %s" % q.qid)
            if s is not None:
                stats["spec_evaluated"] += 1
                if project(focus, s) != project(focus, b) and not has_nul_column(ds, q):
                    raise core.FrameworkError("model-internal disagreement (mechanism vs specification, impossible if the theorems hold) on %s: %s vs %s" % (q.qid, b[:200], s[:200]))
            if b == "ERR":
                stats["errors_expected"] += 1
            fb = b.split()
            if fb[0] == "OK":
                cnt = int(fb[1])
                if (0 < cnt < rowcount) or dp.expr_depth(q.expr) >= 2 or int(fb[2]) > 1:
                    nontrivial.add((ds.did, dp.enc_expr(q.expr), tuple(q.gb)))
            if rowcount <= 400 and not has_nul_column(ds, q):
                o = dp.py_execute(ds.rows, q.expr, q.gb)
                stats["python_oracle_evaluated"] += 1
                if project(focus, o) != project(focus, b):
                    raise core.FrameworkError("model disagrees with the Python row-scan oracle on %s: %s vs %s" % (q.qid, b[:200], o[:200]))
            if has_nul_column(ds, q) and s is not None:
                b = s          # excluded domain: compare with the specification, the model aliases like the code
            if project(focus, a) != project(focus, b):
                failures.append((ds, q, a, b))
        if extra_compare:
            failures += extra_compare(ds, impl, model, spec)
    if rc != 0 and not failures:
        raise core.FrameworkError("harness exited with %d: %s" % (rc, err[-2000:]))
    # report one minimised representative per (writer, outcome-kind) class
    seen = set()
    for ds, q, a, b in failures:
        if q is None:
            cls = ("extra", str(a)[:40])
            if cls in seen:
                continue
            seen.add(cls)
            rep.violation("correspondence", "%s: dataset %s (%d rows): implementation %s, model/specification %s" % (pid, ds.kind, len(ds.rows), str(a)[:300], str(b)[:300]),
                          {"dataset": ds.to_json() if len(ds.rows) <= 2000 else {"kind": ds.kind, "rows_omitted": len(ds.rows), "generator_seed": seed},
                           "impl": a, "model": b})
            continue
        kind = (a or "NONE").split()[0]
        fclass = classify(ds, q)
        cls = (q.writer, kind, fclass, bool(q.gb))
        if cls in seen:
            continue
        seen.add(cls)
        sd, sq, sa, sb, ss = shrink_case(scratch, focus, ds, q)
        if project(focus, sa) == project(focus, sb):
            sd, sq, sa, sb, ss = ds, q, a, b, None
        rep.violation("correspondence",
                      "%s rows, %s writer, %s: %s%s -> implementation %s, model %s" % (
                          len(sd.rows), sq.writer, sq.mode, dp.show_expr(sq.expr), (" group by " + ",".join(core.show_bytes(c) for c in sq.gb)) if sq.gb else "",
                          (project(focus, sa) or "NONE")[:300], (project(focus, sb) or "NONE")[:300]),
                      {"dataset": sd.to_json(), "query": sq.to_json(), "impl": sa, "model": sb, "spec": ss,
                       "python_oracle": dp.py_execute(sd.rows, sq.expr, sq.gb) if len(sd.rows) <= 5000 else None,
                       "how": "rows are [column hex, value hex] pairs; writer mem=IndexWriter.Flush, memdb=WriteToBoltDatabase, big=BigIndexWriter"},
                      finding_class=fclass)
    sample_ds, sample_qs = plan[min(3, len(plan) - 1)]
    rep.coverage.update({
        "evaluations": nq, "distinct_nontrivial": len(nontrivial),
        "rule": "datasets: small random with hostile strings (empty, NUL in values, invalid UTF-8, long), rows lacking columns, empty/trailing empty rows; a (column,value) hashing to 0; boundary sizes around 1000/2000/4096/65536 with sparse, dense, run-shaped, >1000-valued and unique columns. Queries: fixed shapes (NOT NOT, single-operand AND/OR, NOT over rows lacking the column), random trees (depth<=6, arity<=5, duplicates, absent values, unknown columns), one leaf per (column,value); every dataset written by IndexWriter.Flush, WriteToBoltDatabase and BigIndexWriter and opened on demand and preloaded. Non-trivial = distinct (dataset, expression, group-by) with 0<count<rows, or depth>=2, or >1 group.",
        "distribution": stats,
        "samples": [{"dataset_kind": sample_ds.kind, "rows": len(sample_ds.rows), "first_rows": sample_ds.to_json()["rows"][:3],
                     "query": sample_qs[min(len(sample_qs) - 1, 9)].to_json() if sample_qs else None}],
        "correspondence_failures": len(failures),
    })
    rep.assumptions += ["64-bit hash collisions assumed away (the model's hash is an injective function)",
                        "roaring, bbolt, gob are modelled (set semantics, key/value map with atomic commits), not verified",
                        "column names containing NUL are outside the property's domain (known finding, probed separately)"]


def nul_probe():
    """The excluded domain of C01: a NUL byte in a column name aliases two (column,value) pairs."""
    ds = dp.Dataset("dnul", [{b"a\x00b": b"c"}, {b"a": b"b\x00c"}], "nul-column")
    qs = [dp.Query("dnul.q1", ds, "mem", "ondemand", dp.e_eq(b"a", b"b\x00c"), [], 1)]
    return (ds, qs)


def corpus_plan(pid):
    d = os.path.join(core.VERIF, "corpus", pid)
    plan = []
    if os.path.isdir(d):
        for i, f in enumerate(sorted(os.listdir(d))):
            if not f.endswith(".json"):
                continue
            j = json.load(open(os.path.join(d, f)))
            if "dataset" not in j or "query" not in j or "rows" not in j["dataset"]:
                continue
            ds = dp.Dataset.from_json("c%d" % i, j["dataset"])
            qj = j["query"]
            gb = [bytes.fromhex(c) for c in qj["group_by"]]
            plan.append((ds, [dp.Query("c%d.q%s%s" % (i, w, m), ds, w, m, dp.expr_unjson(qj["expr"]), gb, 1 if dp.spec_affordable(ds, gb) else 0)
                              for w in dp.WRITERS for m in dp.MODES]))
    return plan

"""Shared runner for the file-level checks (harness/files.go): C06, C15, C16."""
from . import core


def run_files(scratch, lines, tag, timeout=1800, model=True):
    path = scratch.path("files-%s.txt" % tag)
    with open(path, "w") as fh:
        fh.write("\n".join(lines) + "\n")
    ilines, rc, err = core.run_impl(scratch, "files", path, timeout=timeout)
    mlines = core.run_model("dp", path, timeout=timeout) if model else []
    return ilines, mlines, rc, err

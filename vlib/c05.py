"""C05 — flush/open round trip: ids, schema, universe, membership, reopen, both writers agree."""
from . import dpcheck, dp

PID = "C05"


def extra_lines(ds):
    res = []
    for w in dp.WRITERS:
        res.append("IDS %s.ids.%s %s %s" % (ds.did, w, ds.did, w))
        res.append("SCHEMA %s.sch.%s %s %s" % (ds.did, w, ds.did, w))
    # close and reopen: the queries that follow run on freshly reopened handles
    for w in dp.WRITERS:
        for m in dp.MODES:
            res.append("REOPEN %s %s %s" % (ds.did, w, m))
    for w in dp.WRITERS:
        res.append("SCHEMA %s.sch2.%s %s %s" % (ds.did, w, ds.did, w))
    # other ways of driving the writers: ONE map object refilled by the caller for every row (memr,
    # bigr), and a writer written out half-way and filled further before its Flush (mem3)
    import random as _r
    rq = _r.Random(len(ds.rows) * 31 + 7)
    vals = ds.values()
    for w in ("memr", "bigr", "mem3"):
        res.append("IDS %s.ids.%s %s %s" % (ds.did, w, ds.did, w))
        res.append("SCHEMA %s.sch.%s %s %s" % (ds.did, w, ds.did, w))
        leaves = [dp.e_eq(c, v) for c in sorted(vals) for v in sorted(vals[c])]
        rq.shuffle(leaves)
        for qn, e in enumerate(leaves[:6] + [("N", x) for x in leaves[:2]] + ([("O", leaves[:3])] if leaves else [])):
            res.append("QUERY %s.x%s%d %s %s %s 0 %s GB 0" % (ds.did, w, qn, ds.did, w, dp.MODES[qn % 2], dp.enc_expr(e)))
    # the file as bbolt sees it: key I = be32(number of rows), keys I, S, then one 9-byte
    # V key per distinct (column, value) pair in ascending order (KeyBytes.v)
    for w in dp.WRITERS:
        res.append("RAWKEYS %s.raw.%s %s %s" % (ds.did, w, ds.did, w))
    # bbolt's cursor order on be64(value index) ‖ be32(row) keys vs KeyBytes.cursor_order
    import random
    rng = random.Random(len(ds.rows) * 7919 + len(ds.did))
    special = [0, 1, 255, 256, 257, 65535, 65536, (1 << 32) - 1, 1 << 32, (1 << 63) - 1, 1 << 63, (1 << 64) - 1, 0x0100000000000000, 0x00ffffffffffffff]
    pairs = []
    for _ in range(rng.choice([3, 10, 40])):
        h = rng.choice(special) if rng.random() < 0.6 else rng.randrange(1 << 64)
        r = rng.choice([0, 1, 255, 256, 65536, (1 << 32) - 1, (1 << 31), (1 << 24)]) if rng.random() < 0.6 else rng.randrange(1 << 32)
        pairs.append((h, r))
    pairs += pairs[:2]                      # a key put twice is stored once
    res.append("CURSOR %s.cur %d %s" % (ds.did, len(pairs), " ".join("%d %d" % p for p in pairs)))
    return res


def extra_compare(ds, impl, model, spec):
    fails = []
    nul = dpcheck.has_nul_column(ds)
    for w in dp.WRITERS:
        k = ("IDS", "%s.ids.%s" % (ds.did, w))
        a, b = impl.get(k), model.get(k)
        if a != b:
            fails.append((ds, None, "AddRow ids (%s writer): %s" % (w, (a or "NONE")[:200]), "ids: %s" % (b or "NONE")[:200]))
        for tag in ("sch", "sch2"):
            k = ("SCHEMA", "%s.%s.%s" % (ds.did, tag, w))
            a, b, s = impl.get(k), model.get(k), spec.get(k)
            if b != s and not nul and s is not None:
                from . import core
                raise core.FrameworkError("model-internal disagreement on the schema of %s" % ds.did)
            if a != b:
                fails.append((ds, None, "GetSchema (%s writer, %s): %s" % (w, "after reopen" if tag == "sch2" else "first open", (a or "NONE")[:300]), "schema: %s" % (b or "NONE")[:300]))
    for w in ("memr", "bigr", "mem3"):
        how = {"memr": "IndexWriter fed from ONE map object refilled for every row", "bigr": "BigIndexWriter fed from ONE map object refilled for every row",
               "mem3": "IndexWriter written out half-way (WriteToBoltDatabase), filled further, then flushed"}[w]
        for k in [key for key in model if key[1].startswith(ds.did + ".") and (key[1].endswith(".ids." + w) or key[1].endswith(".sch." + w) or (".x" + w) in key[1])]:
            a, b = impl.get(k), model.get(k)
            if a != b and not nul:
                fails.append((ds, None, "%s — %s %s: %s" % (how, k[0], k[1], (a or "NONE")[:200]), "%s" % (b or "NONE")[:200]))
                break
    for k in [("RAWKEYS", "%s.raw.%s" % (ds.did, w)) for w in dp.WRITERS] + [("CURSOR", "%s.cur" % ds.did)]:
        a, b = impl.get(k), model.get(k)
        if a != b and not (nul and k[0] == "RAWKEYS"):
            fails.append((ds, None, "%s: %s" % ("keys of the written file (value of I, header keys, number and order of V keys)" if k[0] == "RAWKEYS" else "bbolt cursor order of be64‖be32 keys", (a or "NONE")[:300]),
                          "KeyBytes.v: %s" % (b or "NONE")[:300]))
    return fails


def writers_under_race_detector(rep, scratch, tier):
    """Both writers (and the twice-flushed / half-way written paths) on a dataset with thousands of
    bitmaps, in the harness built with -race: the writers start goroutines of their own
    (optimize), whose mistakes change the stored bytes only on some schedules."""
    import re
    from . import core
    nv = 3000 if tier == "quick" else 6000
    rows = [{b"a": b"v%05d" % (i % nv), b"b": b"%d" % (i % 7)} for i in range(nv * 2)]
    ds = dp.Dataset("rw", rows, "many-bitmaps")
    lines = ds.lines()
    for rnd in range(3):
        for w in ("mem", "mem2", "mem3", "memr", "big", "memdb"):
            lines.append("SCHEMA rw.s%d%s rw %s" % (rnd, w, w))
            lines.append("QUERY rw.q%d%s rw %s ondemand 0 %s GB 0" % (rnd, w, w, dp.enc_expr(dp.e_eq(b"a", b"v%05d" % (rnd * 7)))))
        lines += ["DROP rw"] + (ds.lines() if rnd < 2 else [])
    path = scratch.path("c05-race.txt")
    open(path, "w").write("\n".join(lines) + "\n")
    out, rc, err = core.run_impl(scratch, "dp", path, race=True, timeout=900, env={"GORACE": "halt_on_error=1 exitcode=66"})
    races = len(re.findall(r"WARNING: DATA RACE", err))
    if races or rc != 0:
        m = re.search(r"WARNING: DATA RACE.*?(?=\n==================|\Z)", err, re.S)
        rep.violation("monitor:race", "writing an index of %d bitmaps (all writer paths) in the harness built with -race: %d data race report(s), harness exit %s" % (nv + 7, races, rc),
                      {"first_race_report": (m.group(0) if m else err[-1500:])[:3000], "how": "vlib/c05.py writers_under_race_detector"})
    rep.coverage["writers_under_race_detector"] = {"bitmaps": nv + 7, "rounds": 3, "race_reports": races, "exit": rc}


def run(rep, scratch, tier, seed, replay=None):
    dpcheck.run_focus(rep, scratch, tier, seed, replay, "roundtrip", PID, extra_lines=extra_lines, extra_compare=extra_compare)
    if not replay:
        writers_under_race_detector(rep, scratch, tier)

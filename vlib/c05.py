"""C05 — flush/open round trip: ids, schema, universe, membership, reopen, both writers agree."""
from . import dpcheck, dp

PID = "C05"


def extra_lines(ds):
    res = []
    for w in dp.WRITERS:
        res.append("IDS %s.ids.%s %s %s" % (ds.did, w, ds.did, w))
        res.append("SCHEMA %s.sch.%s %s %s" % (ds.did, w, ds.did, w))
    # close and reopen: the queries that follow run on freshly reopened handles
    for w in dp.WRITERS:
        for m in dp.MODES:
            res.append("REOPEN %s %s %s" % (ds.did, w, m))
    for w in dp.WRITERS:
        res.append("SCHEMA %s.sch2.%s %s %s" % (ds.did, w, ds.did, w))
    return res


def extra_compare(ds, impl, model, spec):
    fails = []
    nul = dpcheck.has_nul_column(ds)
    for w in dp.WRITERS:
        k = ("IDS", "%s.ids.%s" % (ds.did, w))
        a, b = impl.get(k), model.get(k)
        if a != b:
            fails.append((ds, None, "AddRow ids (%s writer): %s" % (w, (a or "NONE")[:200]), "ids: %s" % (b or "NONE")[:200]))
        for tag in ("sch", "sch2"):
            k = ("SCHEMA", "%s.%s.%s" % (ds.did, tag, w))
            a, b, s = impl.get(k), model.get(k), spec.get(k)
            if b != s and not nul and s is not None:
                from . import core
                raise core.FrameworkError("model-internal disagreement on the schema of %s" % ds.did)
            if a != b:
                fails.append((ds, None, "GetSchema (%s writer, %s): %s" % (w, "after reopen" if tag == "sch2" else "first open", (a or "NONE")[:300]), "schema: %s" % (b or "NONE")[:300]))
    return fails


def run(rep, scratch, tier, seed, replay=None):
    dpcheck.run_focus(rep, scratch, tier, seed, replay, "roundtrip", PID, extra_lines=extra_lines, extra_compare=extra_compare)

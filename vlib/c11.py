"""C11 — placeholder binding is exact; prepared statements are reusable; too few arguments is
an error.  (a) ReplacePlaceholders vs the model's subst on trees x argument lists, template
compared before/after; (b) database/sql with the updog driver: DB.Query and DB.Prepare +
Stmt.Query (1..5 executions) vs the model's sql_query / prepared_query on the same index."""
import random
from . import core, dp, text, sqlcommon

PID = "C11"
ARGS = [b"1", b"2", b"x", b"", b'q"uote', b"new\nline", b"\xc3\xa9", b" ", b"$1", b"zz-absent"]


def run(rep, scratch, tier, seed, replay=None):
    rng = random.Random(seed)
    # ---- (a) ReplacePlaceholders
    cases = []
    for _ in range(5000 if tier == "quick" else 40000):
        t = text.rand_tree(rng, rng.choice([0, 1, 2, 3, 5]), ph_rate=0.6, max_arity=4)
        # small placeholder numbers so that "too few / exact / too many" all occur
        def small(t):
            if t[0] == "E":
                return ("E", t[1], t[2], rng.choice([1, 1, 2, 3, 4]) if t[3] else 0)
            if t[0] == "N":
                return ("N", small(t[1]))
            return (t[0], [small(x) for x in t[1]])
        t = small(t)
        args = [rng.choice(ARGS) for _ in range(rng.choice([0, 1, 2, 3, 4, 6]))]
        cases.append((t, args))
    lines = ["B c%d %s %d%s" % (i, text.enc_query(t, []), len(a), "".join(" " + core.enc_str(x) for x in a)) for i, (t, a) in enumerate(cases)]
    if replay and "line" in replay:
        lines, cases = [replay["line"]], [(None, None)]
    impl, model, rc, err = text.run_text(scratch, lines, "c11")
    if rc != 0:
        raise core.FrameworkError("harness exited with %d: %s" % (rc, err[:1500]))
    bad = []
    toofew = 0
    for i in range(len(cases)):
        a, b = impl.get(("B", "c%d" % i)), model.get(("B", "c%d" % i))
        mx = int(model.get(("BM", "c%d" % i), "0"))
        if cases[i][1] is not None and mx > len(cases[i][1]):
            toofew += 1
        if a != b:
            bad.append((i, a, b))
    for i, a, b in bad[:2]:
        rep.violation("correspondence", "ReplacePlaceholders(%s, %d values): implementation %s, model %s" % (
            text.show_tree(cases[i][0])[:160] if cases[i][0] else "replay", len(cases[i][1] or []), str(a)[:160], str(b)[:160]),
            {"line": lines[i], "impl": a, "model": b, "how": "B <id> <tree> GB 0 <n> <values>: the template is serialised before and after (SAME/CHANGED)"})
    # ---- (b) through database/sql
    sql_stats, sql_bad = sqlcommon.run_sql(rep, scratch, rng, tier, focus="bind")
    rep.coverage.update({
        "evaluations": len(cases) + sql_stats.get("statements", 0), "distinct_nontrivial": len(set(model.get(("B", "c%d" % i)) for i in range(len(cases)))),
        "rule": "(a) random trees with repeated / out-of-order / gapped placeholders $1..$4 x argument lists of 0..6 hostile strings through ReplacePlaceholders, result tree and untouched template compared with the model; (b) query texts x argument lists (too few, exact, too many; strings and integers) x 1..5 executions of one prepared statement through DB.Prepare+Stmt.Query and through DB.Query on an index file, rows compared with the model. Non-trivial = distinct bound trees.",
        "replace_cases": len(cases), "too_few_argument_cases": toofew, "failures": len(bad) + len(sql_bad), "sql": sql_stats,
        "samples": [lines[len(lines) // 2][:300]],
    })
    rep.assumptions += ["database/sql rejects a prepared-statement call whose argument count differs from NumInput (documented library behaviour)"]

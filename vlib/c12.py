"""C12 — the sql driver returns exactly the library's result as rows: datasets x query texts
x bound arguments x DSN options through database/sql (Columns, ColumnTypes, every row scanned)
vs the model's rows_of (Adapters.v)."""
import random
from . import core, sqlcommon

PID = "C12"


def run(rep, scratch, tier, seed, replay=None):
    rng = random.Random(seed)
    if replay:
        impl, model, rc, err = sqlcommon.run_lines(scratch, replay["lines"], "replay")
        for k, v in model.items():
            if k[0] == "SQL" and impl.get(k) != v:
                rep.violation("correspondence", "replay: %s implementation %s, model %s" % (k[1], str(impl.get(k))[:200], v[:200]), {"lines": replay["lines"]})
        return
    stats, bad = sqlcommon.run_sql(rep, scratch, rng, tier, focus="rows")
    rep.coverage.update({
        "evaluations": stats["executions"], "distinct_nontrivial": stats["statements"] - stats["errors_expected"],
        "rule": "small datasets (hostile values, missing columns) x grammatical query texts over their columns (literals and placeholders, 0..3 group-by columns incl. unknown ones, expressions matching nothing / everything) x argument lists x DSN options %s, through DB.Query and DB.Prepare+Stmt.Query; compared: column names, DatabaseTypeName and ScanType per column, every scanned row in order, or the error class. Non-trivial = statements whose first execution is not an error." % sqlcommon.OPTS,
        "distribution": stats, "samples": ["a = \"zzz\" ; c, b  (grouped, no matching group)"],
    })
    rep.assumptions += ["the connection-pool policy of database/sql is trusted", "fmt.Sprint renders integer arguments in decimal"]

"""C02 — group-by = SQL GROUP BY with COUNT(*) > 0, sorted (model Index.v, theorems Props/C02.v)."""
from . import dpcheck

PID = "C02"


def run(rep, scratch, tier, seed, replay=None):
    dpcheck.run_focus(rep, scratch, tier, seed, replay, "groups", PID)

"""C16 — existing files are never clobbered; reading never modifies the index: pre-existing
output files of several kinds x both create paths, SHA-256 before/after; SHA-256 of a valid
index before/after open(+options)/queries/GetSchema/close sequences."""
import random
from . import core, dp, filescommon

PID = "C16"
KINDS = ["empty", "valid", "random", "readonly", "short", "leftover", "noI", "nobucket", "noSnoI", "emptybolt", "otherbolt", "boltdata"]


def create_command(scratch):
    """`updog create` (both modes) onto an existing output path, with a well-formed and with
    malformed input: non-zero exit and the existing file byte for byte unchanged."""
    import hashlib, os, subprocess
    d = scratch.path("c16cmd")
    os.makedirs(d, exist_ok=True)
    inputs = {"well-formed": b"a,b\n1,2\n3,4\n", "ragged": b"a,b\n1,2\n3\n", "ragged-first": b"a,b\n1\n", "bare-quote": b'a,b\n1,x"y\n',
              "header-only": b"a,b\n", "empty": b"", "ragged-late": b"a,b\n" + b"1,2\n" * 1500 + b"3\n"}
    valid = os.path.join(d, "valid.updog")
    open(os.path.join(d, "ok.csv"), "wb").write(inputs["well-formed"])
    p = subprocess.run([scratch.updog_binary(), "create", "-o", valid, os.path.join(d, "ok.csv")], cwd=d, env=core.GOENV, capture_output=True, timeout=120)
    if p.returncode != 0:
        raise core.FrameworkError("updog create failed on a well-formed CSV: %s" % p.stderr.decode("utf-8", "replace")[-300:])
    existing = {"valid-index": open(valid, "rb").read(), "empty-file": b"", "other-bytes": b"precious bytes, not an index" * 40}
    bad, n = [], 0
    for iname, data in inputs.items():
        csvp = os.path.join(d, "in-%s.csv" % iname)
        open(csvp, "wb").write(data)
        for ename, content in existing.items():
            for big in (False, True):
                out = os.path.join(d, "out-%s-%s-%d.updog" % (iname, ename, big))
                open(out, "wb").write(content)
                h0 = hashlib.sha256(content).hexdigest()
                try:
                    rc = subprocess.run([scratch.updog_binary(), "create"] + (["-b"] if big else []) + ["-o", out, csvp], cwd=d, env=core.GOENV, capture_output=True, timeout=60).returncode
                except subprocess.TimeoutExpired:
                    rc = -9999
                n += 1
                try:
                    h1 = hashlib.sha256(open(out, "rb").read()).hexdigest()
                except OSError:
                    h1 = "ABSENT"
                if rc == 0 or h1 != h0:
                    bad.append(("updog create%s with %s input onto an existing output (%s): exit %s, existing file %s" % (
                        " -b" if big else "", iname, ename, "status %d" % rc if rc != -9999 else "never", "unchanged" if h1 == h0 else ("REMOVED" if h1 == "ABSENT" else "MODIFIED")),
                        {"input_csv_hex": data[:400].hex(), "existing": ename, "big": big}))
                if os.path.exists(out):
                    os.remove(out)
    return n, bad


def run(rep, scratch, tier, seed, replay=None):
    rng = random.Random(seed)
    lines, cases = [], []
    dss = [dp.Dataset("w0", [{b"a": b"1"}, {b"a": b"2", b"b": b"x"}], "tiny"), dp.shaped_dataset(rng, "w1", 1200)]
    for i in range(3 if tier == "quick" else 250):
        dss.append(dp.small_dataset(rng, "w%d" % (i + 2), hostile=True))
    # writers that hold nothing to write: no rows at all, rows without any column
    dss += [dp.Dataset("wnone", [], "no-rows"), dp.Dataset("wbare", [{}, {}, {}], "rows-without-columns")]
    k = 0
    for ds in dss:
        if any(0 in c for r in ds.rows for c in r):
            continue
        lines += ds.lines()
        for kind in KINDS:
            for w in ("mem", "bigopen"):
                k += 1
                lines.append("CLOBBER c%d %s %s %s" % (k, ds.did, kind, w))
                cases.append(("c%d" % k, "CLOBBER", kind, w))
        if ds.did in ("w0", "w1"):
            k += 1
            lines.append("CLOBBERRACE c%d %s" % (k, ds.did))
            cases.append(("c%d" % k, "CLOBBERRACE", "", ""))
        k += 1
        lines.append("DOUBLEFLUSH c%d %s" % (k, ds.did))
        cases.append(("c%d" % k, "DOUBLEFLUSH", "", ""))
        for mode in ("ondemand", "preload", "cached", "cached+preload", "big/ondemand", "big/cached+preload"):
            k += 1
            lines.append("READONLYDB c%d %s %s" % (k, ds.did, mode))
            cases.append(("c%d" % k, "READONLYDB", mode, ""))
        for mode in ("ondemand", "preload", "cached", "cached+preload"):
            k += 1
            lines.append("READONLY c%d %s %s %d" % (k, ds.did, mode, rng.randrange(1, 1 << 30)))
            cases.append(("c%d" % k, "READONLY", mode, ""))
    if replay:
        lines = replay["lines"]
    ilines, _, rc, err = filescommon.run_files(scratch, lines, "c16", model=False)
    if rc != 0:
        raise core.FrameworkError("harness exited with %d: %s" % (rc, err[-2000:]))
    out = {l.split()[1]: l.split() for l in ilines if l.startswith(("CLOBBER ", "READONLY ", "CLOBBERRACE ", "DOUBLEFLUSH ", "READONLYDB "))}
    bad = []
    for cid, what, x, y in cases:
        o = out.get(cid)
        if o is None:
            continue
        if what == "CLOBBERRACE":
            if o[2] != "OK":
                bad.append((cid, "concurrent creation of the output path: %s (two writers flushing to one path: exactly one may succeed; a file that appears during a Flush must not be replaced by a Flush that reports success)" % o[2]))
        elif what == "DOUBLEFLUSH":
            if o[2] != "ERR" or o[3] != "UNCHANGED":
                bad.append((cid, "second Flush of the same writer onto its own (now existing) output: outcome %s, file %s (model: ERR, UNCHANGED)" % (o[2], o[3])))
        elif what == "READONLYDB":
            if o[2] != "OK" or o[3] != "UNCHANGED":
                bad.append((cid, "OpenIndexFromBoltDatabase(%s) on a handle opened read-write + queries + close: %s, file %s" % (x, o[2], o[3])))
        elif what == "CLOBBER":
            # model (Files.fs_flush): existing path -> Err and file system unchanged
            if o[2] != "ERR" or o[3] != "UNCHANGED":
                bad.append((cid, "Flush/create on an existing %s file (%s path): outcome %s, file %s (model: ERR, UNCHANGED)" % (x, y, o[2], o[3])))
        else:
            if o[3] != "UNCHANGED" or not o[2].endswith("OK"):
                bad.append((cid, "open(%s)+queries+GetSchema+close on a valid index: %s, file %s (model: read path leaves fs_files unchanged)" % (x, o[2], o[3])))
    for cid, msg in bad[:3]:
        blk = [l for l in lines if l.split()[0] in ("DATASET", "R") or l.split()[1] == cid]
        rep.violation("monitor:file-hash", msg, {"lines": blk[:400], "case": cid})
    ncmd = 0
    if not replay:
        ncmd, cmd_bad = create_command(scratch)
        for msg, extra in cmd_bad[:3]:
            rep.violation("monitor:file-hash", msg, extra)
        bad += cmd_bad
    rep.coverage.update({
        "evaluations": len(cases) + ncmd, "create_command_runs": ncmd, "distinct_nontrivial": len(set((w, x, y) for _, w, x, y in cases)),
        "rule": "pre-existing output contents %s x {IndexWriter.Flush, the exclusive-create open of create --big} x writer contents: must fail and leave the SHA-256 unchanged; `updog create` (both modes) x {well-formed, ragged early / late, bare quote, header only, empty} input onto an existing valid index / empty file / other bytes: non-zero exit, file unchanged; valid index x {on demand, preloaded, cached, cached+preloaded}: three rounds of open, 30-60 probe queries, GetSchema, Close (one double Close): SHA-256 and size unchanged. Non-trivial = distinct (kind, path, option) combinations." % KINDS,
        "failures": len(bad), "samples": [lines[next(i for i, l in enumerate(lines) if l.startswith("CLOBBER"))]],
    })
    rep.assumptions += ["O_EXCL / O_CREATE semantics of the kernel are trusted", "the model theorems for this property are small (Props/C16.v); the assurance comes mostly from this file-hash comparison"]

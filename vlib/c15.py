"""C15 — opening fails cleanly on non-index files and always releases the file: files derived
from a valid index through the bbolt API with any subset of defects x open options; outcome
class compared with the model (Files.v damage_store + open_index), lock release probed with a
non-blocking flock, file hash compared, open/fail/open and open/close/close/open sequences."""
import itertools, random
from . import core, dp, filescommon

PID = "C15"
SINGLE = ["none", "nobucket", "noS", "truncS", "randS", "emptyS", "noI", "I0", "I3", "I5", "badV1", "emptyV1", "badVall"]
SPECIAL = ["missing", "zerolen", "garbage"]   # a truncated bbolt file makes bbolt itself die with SIGBUS (mmap beyond EOF): not a structurally valid bbolt file, outside C15
MODES = ["ondemand", "preload", "cached", "cached+preload"]


def gen(rng, tier):
    lines, cases = [], []
    dss = [dp.Dataset("f0", [{b"a": b"1", b"b": b"x"}, {b"a": b"2"}, {}, {b"a": b"1", b"b": b"y"}], "tiny"),
           dp.shaped_dataset(rng, "f1", 300)]
    if tier == "thorough":
        dss += [dp.shaped_dataset(rng, "f2", 2500), dp.small_dataset(rng, "f3", hostile=True), dp.Dataset("f4", [], "empty")]
        dss = [d for d in dss if not any(0 in c for r in d.rows for c in r)]
    k = 0
    for ds in dss:
        lines += ds.lines()
        combos = [[d] for d in SINGLE] + [[d] for d in SPECIAL]
        groups = [["noS", "truncS", "randS"], ["noI", "I0", "I3", "I5"], ["badV1", "badVall"]]
        for a in range(len(groups)):
            for b in range(a + 1, len(groups)):
                for x in groups[a]:
                    for y in groups[b]:
                        combos.append([x, y])
        if tier == "thorough":
            for x in groups[0]:
                for y in groups[1]:
                    for z in groups[2] + ["emptyV1"]:
                        combos.append([x, y, z])
            for x in ["nobucket"]:
                for y in SINGLE[2:]:
                    combos.append([x, y])
        combos.append(["randS", "I5", "badVall"])
        combos.append(["noS", "noI"])
        if tier == "quick" and ds.did == "f1":
            combos = [[d] for d in SINGLE + SPECIAL]
        for defects in combos:
            for mode in MODES:
                if tier == "quick" and mode == "cached+preload" and len(defects) > 1:
                    continue
                k += 1
                cid = "d%d" % k
                lines.append("DAMAGE %s %s %s %d %s" % (cid, ds.did, mode, rng.randrange(1, 1 << 30), " ".join(defects)))
                cases.append((cid, ds.did, mode, defects))
    return lines, cases


def run(rep, scratch, tier, seed, replay=None):
    rng = random.Random(seed)
    lines, cases = gen(rng, tier)
    if replay:
        lines = replay["lines"]
        cases = [(l.split()[1], l.split()[2], l.split()[3], l.split()[5:]) for l in lines if l.startswith("DAMAGE")]
    ilines, mlines, rc, err = filescommon.run_files(scratch, lines, "c15")
    if rc != 0:
        # the process that opened the files died (a fault the Go runtime cannot recover, e.g. a read
        # from memory bbolt has unmapped): run the cases one per process to name the one
        ds_blocks, cur = {}, None
        for l in lines:
            if l.startswith("DATASET "):
                cur = l.split()[1]
                ds_blocks[cur] = []
            if cur and (l.startswith("DATASET ") or l.startswith("R ")):
                ds_blocks[cur].append(l)
        for l in [x for x in lines if x.startswith("DAMAGE ")]:
            one = ds_blocks[l.split()[2]] + [l]
            il1, _, rc1, err1 = filescommon.run_files(scratch, one, "c15one", model=False)
            if rc1 != 0:
                rep.violation("monitor:crash", "valid index with defects %s, opened %s: the process opening it died (exit %s): %s" % (" ".join(l.split()[5:]), l.split()[3], rc1, err1.strip().splitlines()[0][:200] if err1.strip() else ""),
                              {"lines": one[:400], "stderr_head": err1[:1500]})
                rep.coverage.update({"evaluations": len(cases), "distinct_nontrivial": 0, "failures": 1, "rule": "aborted: the harness process died", "samples": [l]})
                return
        raise core.FrameworkError("harness exited with %d: %s" % (rc, err[-2000:]))
    impl = {l.split()[1]: l.split()[2:] for l in ilines if l.startswith("DAMAGE ")}
    model = {l.split()[1]: l.split()[2] for l in mlines if l.startswith("DAMAGE ")}
    bad = []
    classes = {}
    for cid, dsid, mode, defects in cases:
        a, b = impl.get(cid), model.get(cid)
        if a is None or b is None:
            raise core.FrameworkError("missing output for %s" % cid)
        oc = a[0]
        classes[oc] = classes.get(oc, 0) + 1
        why = None
        rel = [x for x in a if x in ("RELEASED", "LOCK-HELD")]
        same = [x for x in a if x in ("UNCHANGED", "MODIFIED")]
        if oc in ("PANIC", "HANG"):
            why = "opening %s" % oc
        elif oc != b:
            why = "opening returned %s, the model says %s" % (oc, b)
        elif rel and rel[0] == "LOCK-HELD":
            why = "the file is still locked after %s" % ("a failed open" if oc == "ERR" else "Close")
        elif same and same[0] == "MODIFIED" and defects[0] == "missing":
            why = "opening a path that does not exist created it"
        elif same and same[0] == "MODIFIED" and defects[0] not in ("zerolen", "garbage"):
            # (a zero-length file is initialised by bbolt when opened read-write; the properties
            #  only speak about missing paths, index files and bbolt files here)
            why = "the file was modified by opening it"
        elif "CLOSE-PANIC" in a or "CLOSE2-ERR" in a or "CLOSE-HANG" in a:
            why = "repeated Close (4 calls) %s" % ("panicked" if "CLOSE-PANIC" in a else "did not return" if "CLOSE-HANG" in a else "returned an error")
        elif a[-1] not in ("RELEASED", "UNCHANGED", "MODIFIED") and any(x in a[-1] for x in ("PANIC", "HANG")):
            why = "re-opening after the first attempt: %s" % a[-1]
        elif oc == "ERR" and a[-1] not in ("", "ERR") and a[-1].split(",")[0] != "ERR":
            why = "the second open of the same damaged file returned %s" % a[-1]
        if why:
            bad.append((cid, dsid, mode, defects, why, a, b))
    seen = set()
    for cid, dsid, mode, defects, why, a, b in bad:
        cls = (why.split(",")[0][:30], tuple(defects) if len(seen) < 3 else defects[0])
        if cls in seen or len(seen) >= 6:
            continue
        seen.add(cls)
        blk = []
        on = False
        for l in lines:
            if l.startswith("DATASET"):
                on = l.split()[1] == dsid
            if on and (l.startswith("DATASET") or l.startswith("R ")):
                blk.append(l)
        blk.append(next(l for l in lines if l.startswith("DAMAGE %s " % cid)))
        rep.violation("monitor:open" if "model says" not in why else "correspondence",
                      "valid index with defects %s, opened %s: %s (harness: %s)" % ("+".join(defects), mode, why, " ".join(a)[:200]),
                      {"lines": blk, "defects": defects, "mode": mode, "impl": a, "model": b,
                       "how": "harness/files.go damageCase applies the defects through the bbolt API to a copy of a valid index, then OpenIndex under a watchdog"})
    rep.coverage.update({
        "evaluations": len(cases), "distinct_nontrivial": len(set((tuple(d), m) for _, _, m, d in cases if d != ["none"])),
        "rule": "files derived from a valid index by every single defect in %s, every pair across {schema, counter, bitmaps} defects, plus missing path / zero-length / garbage / truncated file, x open options %s; outcome class compared with the model, lock release probed by a non-blocking exclusive flock, file hash before/after, second Close, and re-open after failure / after close. Non-trivial = distinct (defect set, mode) other than the undamaged file." % (SINGLE, MODES),
        "outcome_classes": classes, "failures": len(bad), "samples": [" ".join(["DAMAGE"] + [cases[len(cases) // 3][0], cases[len(cases) // 3][2]] + cases[len(cases) // 3][3])],
    })
    rep.assumptions += ["flock(2) semantics of the kernel and bbolt's own page validation are trusted",
                        "a corrupt bitmap on an on-demand index is accepted at open time (the property only requires rejection when preloading)"]

"""C18 — concurrent AddRow calls lose, duplicate and mix nothing.
(T) lock obligations regenerated from writer.go / writer_big.go / types.go (coq/obligations/
    ObC18.v: the whole AddRow body is one atomic section of the writer mutex; Conc.v);
    AddRowConc.v proves that any schedule of such atomic-by-lock micro-steps yields the sequential
    insertion in lock-acquisition order with ids 0..n-1;
(D) 2..32 goroutines add tagged rows (-race), ids must be a permutation, and the flushed index
    must equal the MODEL's index of the same rows in id order (schema, per-tag probes, group-by)."""
import random, re
from . import core, dp, locks

PID = "C18"


def conc_row(j):
    if j % 11 == 10:
        return {}            # a row without columns: it still takes a row id
    r = {b"tag": b"t%06d" % j, b"c": b"v%d" % (j % 7)}
    if j % 5 != 0:
        r[b"d"] = b"w%d" % (j % 3)
    return r


OFF = 1000000   # second writer of a pair: rows OFF, OFF+1, ... (other tags, other value phase)


def probes(cid, writer, total, rng, off=0):
    """QUERY/SCHEMA lines on dataset cid (count(tag=t)=1, count(tag=t AND col=val)=1, totals, group-by)."""
    lines = ["SCHEMA %s.sch %s %s" % (cid, cid, writer)]
    qn = 0

    def q(e, gb=()):
        nonlocal qn
        qn += 1
        lines.append("QUERY %s.q%d %s %s %s 0 %s GB %d%s" % (cid, qn, cid, writer, rng.choice(dp.MODES), dp.enc_expr(e), len(gb), "".join(" " + core.enc_str(c) for c in gb)))
    js = list(range(total)) if total <= 120 else sorted(rng.sample(range(total), 120))
    for j in js:
        r = conc_row(j + off)
        if not r:
            continue
        q(dp.e_eq(b"tag", r[b"tag"]))
        q(("A", [dp.e_eq(b"tag", r[b"tag"])] + [dp.e_eq(c, v) for c, v in r.items() if c != b"tag"]), [b"c"])
    q(("O", [dp.e_eq(b"c", b"v%d" % k) for k in range(7)]), [b"c", b"d"])
    q(("N", dp.e_eq(b"c", b"nope")))
    if total <= 400:
        q(("N", dp.e_eq(b"c", b"nope")), [b"tag"])            # exact row membership
    return lines


def dynamic(rep, scratch, tier, seed, note=""):
    rng = random.Random(seed)
    cases = []
    totals = [100, 999, 1000, 1001, 3000] if tier == "quick" else [1, 2, 100, 999, 1000, 1001, 1002, 2001, 3000, 10000]
    for total in totals:
        for writer in ("mem", "big"):
            for nth in ([2, 8, 32] if tier == "quick" else [2, 3, 4, 8, 16, 32]):
                if tier == "quick" and total in (999, 1001) and nth == 8:
                    continue
                cases.append(("a%d_%s_%d" % (total, writer, nth), writer, nth, total))
    cases = [c + (0,) for c in cases]
    ilines = []
    for cid, writer, nth, total, off in cases:
        ilines.append("ADDROW %s %s %d %d" % (cid, writer, nth, total))
        ilines += probes(cid, writer, total, random.Random(total * 31 + nth))
        ilines.append("DROP " + cid)
    # two writer instances filled at the same time (nothing may be shared between instances)
    pairs = [("mem", "mem"), ("mem", "big"), ("big", "big")]
    for pi, (wa, wb) in enumerate(pairs):
        for total in ([600, 1500] if tier == "quick" else [100, 1000, 1001, 3000]):
            nth = [2, 4, 8][pi % 3] if tier == "quick" else 4
            a, b = "p%d_%d_a" % (pi, total), "p%d_%d_b" % (pi, total)
            ilines.append("ADDROWPAIR %s %s %s %s %d %d %d" % (a, wa, b, wb, nth, total, OFF))
            for cid, w, off in ((a, wa, 0), (b, wb, OFF)):
                ilines += probes(cid, w, total, random.Random(total * 31 + nth), off)
                ilines.append("DROP " + cid)
                cases.append((cid, w, nth, total, off))
    path = scratch.path("c18.txt")
    with open(path, "w") as fh:
        fh.write("\n".join(ilines) + "\n")
    out, rc, err = core.run_impl(scratch, "dp", path, race=True, timeout=2400, env={"GORACE": "halt_on_error=1 exitcode=66"})
    races = len(re.findall(r"WARNING: DATA RACE", err))
    impl = {}
    heads = {}
    for l in out:
        f = l.split(" ", 2)
        if f[0] == "ADDROW":
            g = l.split()
            heads[g[1]] = g
        elif len(f) >= 2:
            impl[(f[0], f[1])] = f[2] if len(f) > 2 else ""
    bad = []
    if races or rc not in (0,):
        m = re.search(r"WARNING: DATA RACE.*?(?=\n==================|\Z)", err, re.S)
        bad.append(("race", "%s%d data race report(s) / harness rc=%s during concurrent AddRow" % (note, races, rc), {"first_race_report": (m.group(0) if m else err[-1500:])[:3000]}))
    # model: the same rows inserted sequentially in id order
    mlines = []
    for cid, writer, nth, total, off in cases:
        h = heads.get(cid)
        if h is None:
            continue
        if h[2] != "OK" or h[3] != "PERMUTATION":
            bad.append(("ids", "%s writer, %d goroutines, %d rows: AddRow/Flush outcome %s, returned ids: %s" % (writer, nth, total, h[2], h[3]), {"case": cid, "ids": h[5:60]}))
            continue
        ids = [int(x) for x in h[5:]]
        order = sorted(range(total), key=lambda j: ids[j])
        ds = dp.Dataset(cid, [conc_row(j + off) for j in order], "conc")
        mlines += ds.lines() + probes(cid, writer, total, random.Random(total * 31 + nth), off) + ["DROP " + cid]
    mpath = scratch.path("c18-model.txt")
    with open(mpath, "w") as fh:
        fh.write("\n".join(mlines) + "\n")
    model = {}
    for l in core.run_model("dp", mpath, timeout=2400):
        f = l.split(" ", 2)
        if len(f) >= 2 and f[0] in ("Q", "SCHEMA"):
            model[(f[0], f[1])] = f[2] if len(f) > 2 else ""
    nq = 0
    for k, b in model.items():
        nq += 1
        a = impl.get(k)
        if a != b:
            bad.append(("index", "flushed index after concurrent AddRow differs from the sequential insertion in id order at %s: implementation %s, model %s" % (k[1], str(a)[:160], b[:160]),
                        {"probe": k[1], "impl": a, "model": b}))
            break
    for kind, msg, extra in bad[:3]:
        extra.update({"how": "harness/addrow.go: row j = {tag: t%06d, c: v(j%7), d: w(j%3) unless j%5==0}, goroutine g adds rows g, g+n, ...; re-run ./check C18 --seed N"})
        rep.violation("monitor:" + kind, msg, extra)
    rep.coverage.update({
        "evaluations": len(cases) + nq, "distinct_nontrivial": len(cases),
        "rule": "row totals %s x {IndexWriter, BigIndexWriter} x goroutines {2,8,32} (thorough: 2..32), and pairs of writer instances (mem/mem, mem/big, big/big) filled at the same time with different rows, built with -race; returned ids must be a permutation of 0..n-1; the flushed index is compared with the model's index of the same rows in returned-id order: schema, count(tag=t)=1 and count(tag=t AND all its values)=1 for up to 120 rows, totals, group-by over two columns, group-by tag (exact membership) for n<=400. Non-trivial = concurrent cases." % totals,
        "race_reports": races, "failures": len(bad), "samples": [" ".join(heads[cases[0][0]][:12]) if cases and cases[0][0] in heads else ""],
    })
    return len(bad)


def run(rep, scratch, tier, seed, replay=None):
    ob = locks.check_obligations(scratch, PID)
    rep.coverage["lock_obligations"] = {"file": "coq/obligations/ObC18.v", "ok": ob["ok"], "theorems": ob["theorems"], "closed_under_global_context": ob["closed"]}
    rep.coverage["obligations"] = rep.coverage.get("obligations", 0) + len(ob["theorems"])
    rep.coverage["discharged"] = rep.coverage.get("discharged", 0) + (len(ob["theorems"]) if ob["ok"] else 0)
    nbad = dynamic(rep, scratch, tier, seed, note="" if ob["ok"] else "lock obligation C18_locks fails; search: ")
    if not ob["ok"] and nbad == 0:
        for extra in (1, 2, 3):
            nbad = dynamic(rep, scratch, tier, seed + extra, note="lock obligation C18_locks fails; search: ")
            if nbad:
                break
        if nbad == 0:
            rep.violation("obligation", "the generated lock obligation of C18 no longer checks (coq/obligations/ObC18.v against the skeletons of AddRow in the working tree); the race stress found no failing schedule",
                          {"broken": "C18_locks_mem / C18_locks_big", "unknown_to_policy": ob.get("unknown_to_policy", ""), "coqc_output": ob["output"][-2500:]}, no_input=True)
    rep.assumptions += ["the lock policy is hand-written; the translator is syntactic", "bbolt transactions used by the big writer are only touched under the writer mutex (checked by the policy)"]

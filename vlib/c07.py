"""C07 — LRU cache: correspondence between LRUCache (cache.go) and the Coq model LRU.v,
plus trace monitors that evaluate the property text directly on the implementation."""
import itertools, json, os, random
from . import core

PID = "C07"
KEYS = [1, 2, 3]
PROBE16 = list(range(1, 17))


def calibrate(scratch, nelems_list):
    path = scratch.path("c07-cal.txt")
    with open(path, "w") as fh:
        fh.write("CASE cal CAP 0\n")
        for i, n in enumerate(nelems_list):
            fh.write("P 1 %d %d\n" % (n, i))
    lines, rc, err = core.run_impl(scratch, "c07", path)
    if rc != 0:
        raise core.FrameworkError("c07 calibration failed: " + err[-2000:])
    ovh = int(lines[0].split()[1])
    sizes = [int(l.split()[1]) for l in lines if l.startswith("PUT ")]
    return ovh, dict(zip(nelems_list, sizes))


class Case:
    __slots__ = ("cid", "cap", "ops", "probe", "kind")

    def __init__(self, cid, cap, ops, probe, kind):
        self.cid, self.cap, self.ops, self.probe, self.kind = cid, cap, ops, probe, kind

    def all_ops(self):
        return self.ops + [("G", k) for k in self.probe]

    def impl_lines(self):
        res = ["CASE %s CAP %d" % (self.cid, self.cap)]
        for o in self.all_ops():
            res.append("P %d %d %d" % (o[1], o[2], o[3]) if o[0] == "P" else "G %d" % o[1])
        return res

    def model_lines(self, ovh, sizes):
        res = ["CASE %s CAP %d OVH %d" % (self.cid, self.cap, ovh)]
        for o in self.all_ops():
            res.append("P %d %d %d" % (o[1], sizes[o[2]], o[3]) if o[0] == "P" else "G %d" % o[1])
        return res

    def to_json(self):
        return {"cap": self.cap, "ops": [list(o) for o in self.ops], "probe": self.probe, "kind": self.kind}


def number_bitmaps(ops):
    """Give every Put its own bitmap identity (its position, from 1)."""
    res = []
    for i, o in enumerate(ops):
        res.append(("P", o[1], o[2], i + 1) if o[0] == "P" else o)
    return res


def gen_cases(rng, tier, ovh, sizes):
    tiny, medium, huge = 10, 1000, 40000
    ct, cm = sizes[tiny] + ovh, sizes[medium] + ovh
    caps = [0, ct - 1, ct, ct + cm, 2 * cm + ct - 1, 1 << 22]
    alphabet = [("P", k, n, 0) for k in KEYS for n in (tiny, medium, huge)] + [("G", k) for k in KEYS]
    cases = []
    cid = 0
    maxlen = 5 if tier == "thorough" else 3
    for L in range(0, maxlen + 1):
        for seq in itertools.product(alphabet, repeat=L):
            ops = number_bitmaps(list(seq))
            # length 5 (thorough): the three capacities around one and two entries
            for cap in (caps if L <= 4 else caps[2:5]):
                cid += 1
                cases.append(Case("e%d" % cid, cap, ops, KEYS, "exhaustive"))
    # huge capacities (a cache meant to be unbounded): nothing may ever be evicted
    for cap in ((1 << 63) - 1, 1 << 63, (1 << 64) - 1):
        for seq in itertools.product(alphabet, repeat=2):
            cid += 1
            cases.append(Case("h%d" % cid, cap, number_bitmaps(list(seq)), KEYS, "huge-capacity"))
    n_exh = len(cases)
    # sampled sequences one step beyond the exhaustive length
    for _ in range(3000 if tier == "quick" else 20000):
        L = maxlen + 1 + rng.randrange(3)
        ops = number_bitmaps([rng.choice(alphabet) for _ in range(L)])
        cid += 1
        cases.append(Case("s%d" % cid, rng.choice(caps), ops, KEYS, "sampled"))
    # long random sequences over 16 keys with real bitmaps of 8 B .. 33 KB
    nel = sorted(sizes)
    for _ in range(60 if tier == "quick" else 600):
        L = rng.randrange(200, 801 if tier == "quick" else 2001)
        nkeys = rng.choice([2, 4, 16])
        small_bias = rng.random() < 0.5
        ops = []
        for _ in range(L):
            if rng.random() < 0.55:
                n = rng.choice(nel[:5]) if small_bias and rng.random() < 0.9 else rng.choice(nel)
                ops.append(("P", rng.randrange(1, nkeys + 1), n, 0))
            else:
                ops.append(("G", rng.randrange(1, nkeys + 2)))
        probe = PROBE16
        if rng.random() < 0.5:
            # keys are 64-bit hashes in real use: spread them so that pairs of keys agree modulo
            # 2^8, 2^12, 2^16, 2^32 or differ only in the top bit (any shortcut keyed by part of
            # the key then sees two resident keys as one)
            M = rng.choice([256, 4096, 65536, 1 << 32, 1 << 63])
            half = max(1, nkeys // 2)
            km = lambda k: k if k <= half else ((k - half) + M * rng_mul) & ((1 << 64) - 1)
            rng_mul = rng.choice([1, 1, 3])
            ops = [(o[0], km(o[1])) + tuple(o[2:]) for o in ops]
            probe = sorted(set(km(k) for k in range(1, nkeys + 2)))
        ops = number_bitmaps(ops)
        base = sum(sizes[n] + ovh for n in nel[:5])
        cap = rng.choice([0, 1, ovh, sizes[nel[2]] + ovh, base, base * 2, sizes[nel[-1]] + ovh, 3 * (sizes[nel[-1]] + ovh), 1 << 24])
        cap = max(0, cap + rng.choice([-1, 0, 0, 1]))
        if rng.random() < 0.12:
            cap = rng.choice([(1 << 63) - 1, 1 << 63, (1 << 64) - 1, (1 << 32), (1 << 31) - 1])   # "unbounded" capacities
        cid += 1
        cases.append(Case("r%d" % cid, cap, ops, probe, "random"))
    return cases, n_exh


def corpus_cases(sizes):
    d = os.path.join(core.VERIF, "corpus", PID)
    res = []
    if os.path.isdir(d):
        for f in sorted(os.listdir(d)):
            if f.endswith(".json"):
                doc = json.load(open(os.path.join(d, f)))
                c = doc["case"] if "case" in doc else doc
                ops = [tuple(o) for o in c["ops"]]
                if all(o[0] != "P" or o[2] in sizes for o in ops):
                    res.append(Case("c" + f.split(".")[0], c["cap"], ops, c.get("probe", KEYS), "corpus"))
    return res


def parse_trace(case, lines):
    """Pair every op of the case with the implementation's output line."""
    ops = case.all_ops()
    body = [l for l in lines if not l.startswith("CNT")]
    cnt = [l for l in lines if l.startswith("CNT")]
    if len(body) != len(ops) or len(cnt) != 1:
        return None, None
    tr = []
    for o, l in zip(ops, body):
        f = l.split()
        if o[0] == "P":
            if f[0] != "PUT":
                return None, None
            tr.append((o, ("PUT", int(f[1]) if len(f) > 1 else None)))
        else:
            if f[0] == "HIT":
                tr.append((o, ("HIT", int(f[1]))))
            elif f[0] == "MISS":
                tr.append((o, ("MISS",)))
            else:
                return None, None
    return tr, tuple(int(x) for x in cnt[0].split()[1:])


def monitors(case, tr, cnt, ovh):
    """The property text evaluated directly on the implementation's trace.  Returns a list of
    (monitor name, message)."""
    bad = []
    latest = {}      # key -> (bmid, size) of the latest Put
    order = []       # keys by recency of use, most recent last
    weight = 0
    put_keys = set()
    n = len(case.ops)
    gets = puts = hits = misses = 0
    pre_probe_order = None
    for i, (o, r) in enumerate(tr):
        if i == n:
            pre_probe_order = list(order)
        if o[0] == "P":
            puts += 1
            latest[o[1]] = (o[3], r[1])
            weight += r[1] + ovh
            put_keys.add(o[1])
            order = [k for k in order if k != o[1]] + [o[1]]
            # an entry that fits is retrievable right after it was stored
            if i + 1 < len(tr) and tr[i + 1][0] == ("G", o[1]) and r[1] + ovh <= case.cap:
                if tr[i + 1][1] != ("HIT", o[3]):
                    bad.append(("fits_then_retrievable", "op %d: Put(%d) of %d+%d bytes fits in %d but the Get right after it returned %s" % (i, o[1], r[1], ovh, case.cap, tr[i + 1][1])))
        else:
            gets += 1
            if r[0] == "HIT":
                hits += 1
                if o[1] not in latest or latest[o[1]][0] != r[1]:
                    bad.append(("hit_returns_latest_put", "op %d: Get(%d) returned bitmap %s, latest Put stored %s" % (i, o[1], r[1], latest.get(o[1]))))
                order = [k for k in order if k != o[1]] + [o[1]]
            else:
                misses += 1
    if pre_probe_order is None:
        pre_probe_order = list(order)
    if cnt != (gets, puts, hits, misses):
        bad.append(("counters", "counters (get,put,hit,miss)=%s but the trace has %s" % (cnt, (gets, puts, hits, misses))))
    probe = tr[n:]
    resident = [o[1] for o, r in probe if r[0] == "HIT"]
    if probe:
        total = sum(latest[k][1] for k in resident if k in latest)
        if total > case.cap:
            bad.append(("byte_bound", "retrievable bitmaps sum to %d bytes in a cache of %d bytes (keys %s)" % (total, case.cap, resident)))
        probed = set(o[1] for o, _ in probe)
        expect = [k for k in pre_probe_order if k in probed]
        m = len(resident)
        if set(resident) != set(expect[len(expect) - m:] if m else []):
            bad.append(("lru_order", "resident keys %s are not the %d most recently used of %s" % (sorted(resident), m, expect)))
        if weight <= case.cap:
            missing = sorted((put_keys & probed) - set(resident))
            if missing:
                bad.append(("no_needless_eviction", "all Puts together weigh %d <= capacity %d, yet keys %s are gone" % (weight, case.cap, missing)))
    return bad


def strip_sizes(lines):
    return ["PUT" if l.startswith("PUT") else l for l in lines]


def run_cases(scratch, cases, ovh, sizes, tag):
    ipath, mpath = scratch.path("c07-%s-impl.txt" % tag), scratch.path("c07-%s-model.txt" % tag)
    with open(ipath, "w") as fh:
        for c in cases:
            fh.write("\n".join(c.impl_lines()) + "\n")
    lines, rc, err = core.run_impl(scratch, "c07", ipath)
    crashed = rc != 0
    with open(mpath, "w") as fh:
        for c in cases:
            fh.write("\n".join(c.model_lines(ovh, sizes)) + "\n")
    mlines = core.run_model("c07", mpath)
    return core.split_cases(lines), core.split_cases(mlines), crashed, err


def evaluate(case, impl, model, ovh):
    """Returns (monitor failures, correspondence diff or None)."""
    il, ml = impl.get(case.cid), model.get(case.cid)
    if il is None:
        return [("crash", "the implementation produced no output for this case (process died)")], None
    tr, cnt = parse_trace(case, il)
    if tr is None:
        return [("crash", "truncated or malformed output: %s" % il[-3:])], None
    bad = monitors(case, tr, cnt, ovh)
    diff = None
    si = strip_sizes(il)
    if si != ml:
        for i, (a, b) in enumerate(zip(si, ml)):
            if a != b:
                diff = {"line": i, "impl": a, "model": b}
                break
        else:
            diff = {"line": min(len(si), len(ml)), "impl": len(si), "model": len(ml)}
    return bad, diff


def shrink(scratch, case, ovh, sizes, pred):
    """ddmin over the operation list; [pred](bad, diff) says whether the failure persists."""
    counter = [0]

    def fails(ops):
        counter[0] += 1
        c = Case("x", case.cap, number_ops_keep(ops), case.probe, case.kind)
        impl, model, crashed, _ = run_cases(scratch, [c], ovh, sizes, "shrink")
        bad, diff = evaluate(c, impl, model, ovh)
        return pred(bad, diff)

    ops = core.ddmin(case.ops, fails, budget=120)
    c = Case("x", case.cap, number_ops_keep(ops), [k for k in case.probe if any(o[1] == k for o in ops)] or case.probe[:1], case.kind)
    impl, model, _, _ = run_cases(scratch, [c], ovh, sizes, "shrink")
    bad, diff = evaluate(c, impl, model, ovh)
    if not pred(bad, diff):
        c = Case("x", case.cap, number_ops_keep(ops), case.probe, case.kind)
        impl, model, _, _ = run_cases(scratch, [c], ovh, sizes, "shrink")
        bad, diff = evaluate(c, impl, model, ovh)
    return c, bad, diff, impl.get("x"), model.get("x")


def number_ops_keep(ops):
    return [tuple(o) for o in ops]


def partial_metrics_level(rep, scratch, ovh, sizes):
    """Every subset of the four counters configured (and no metrics option at all): results and
    the configured counters must be those of the fully instrumented cache (lru_observe); a
    missing counter must not make a call panic."""
    n = 10
    cap2 = 2 * (sizes[n] + ovh)
    ops = [("P", 1, n, 1), ("G", 1), ("G", 9), ("P", 2, n, 2), ("P", 3, n, 3), ("G", 1), ("G", 3), ("P", 3, n, 4), ("G", 2), ("G", 3)]
    il, ml = [], []
    masks = list(range(16)) + [-1]
    for mk in masks:
        il += ["CASE pm%d CAP %d MASK %d" % (mk, cap2, mk)] + ["P %d %d %d" % (o[1], o[2], o[3]) if o[0] == "P" else "G %d" % o[1] for o in ops]
    ml += ["CASE pm CAP %d OVH %d" % (cap2, ovh)] + ["P %d %d %d" % (o[1], sizes[o[2]], o[3]) if o[0] == "P" else "G %d" % o[1] for o in ops]
    ipath, mpath = scratch.path("c07-pm-impl.txt"), scratch.path("c07-pm-model.txt")
    open(ipath, "w").write("\n".join(il) + "\n")
    open(mpath, "w").write("\n".join(ml) + "\n")
    lines, rc, err = core.run_impl(scratch, "c07", ipath, timeout=120)
    impl = core.split_cases(lines)
    want = core.split_cases(core.run_model("c07", mpath)).get("pm")
    wcnt = [int(x) for x in want[-1].split()[1:]]          # get put hit miss
    nbad = 0
    for mk in masks:
        got = strip_sizes(impl.get("pm%d" % mk) or [])
        exp = list(want[:-1])
        bits = {0: 4, 1: 8, 2: 1, 3: 2}                    # position in the CNT line -> mask bit
        ok = got[:-1] == exp and len(got) == len(want)
        if ok:
            gc = [int(x) for x in got[-1].split()[1:]]
            for pos in range(4):
                expect = wcnt[pos] if (mk >= 0 and mk & bits[pos]) else 0
                if gc[pos] != expect:
                    ok = False
        if not ok and nbad < 2:
            rep.violation("monitor:counters", "cache with %s: results / counters %s, expected %s with counters (get, put, hit, miss) = %s on the configured ones%s" % (
                "no metrics option" if mk < 0 else "only the counters of mask %d configured (1 hit, 2 miss, 4 get, 8 put)" % mk, got[-4:], exp[-3:], wcnt, "" if rc == 0 else " — harness exit %s: %s" % (rc, err[-200:])),
                {"impl_lines": [l for l in il if True][:40], "mask": mk, "impl": got, "model": want})
        if not ok:
            nbad += 1
    return len(masks), nbad


def overlap_level(rep, scratch, ovh, sizes):
    """Two cache calls that overlap in time (the second is started while the first is inside
    the cache: its call counter blocks).  Whatever the cache does, the outcome must be that of
    ONE of the two sequential orders of the two calls (LRU.lru_observe on both orders): results,
    later evictions, counters."""
    n = 10
    cap3 = 3 * (sizes[n] + ovh)
    scen = [
        ("get-get", [("P", 3, n, 1), ("P", 1, n, 2), ("P", 2, n, 3)], ("G", 1), ("G", 3), [("P", 4, n, 9)]),
        ("get-get-b", [("P", 3, n, 1), ("P", 1, n, 2), ("P", 2, n, 3)], ("G", 3), ("G", 1), [("P", 4, n, 9)]),
        ("put-get", [("P", 3, n, 1), ("P", 1, n, 2), ("P", 2, n, 3)], ("P", 1, n, 7), ("G", 3), [("P", 4, n, 9)]),
        ("get-put", [("P", 3, n, 1), ("P", 1, n, 2), ("P", 2, n, 3)], ("G", 3), ("P", 4, n, 8), [("P", 5, n, 9)]),
        ("put-put", [("P", 3, n, 1), ("P", 1, n, 2), ("P", 2, n, 3)], ("P", 3, n, 7), ("P", 4, n, 8), [("G", 1)]),
        ("miss-get", [("P", 3, n, 1), ("P", 1, n, 2), ("P", 2, n, 3)], ("G", 99), ("G", 3), [("P", 4, n, 9), ("P", 5, n, 10)]),
    ]
    probe = [1, 2, 3, 4, 5, 99]

    def iop(o):
        return "P %d %d %d" % (o[1], o[2], o[3]) if o[0] == "P" else "G %d" % o[1]

    def mop(o):
        return "P %d %d %d" % (o[1], sizes[o[2]], o[3]) if o[0] == "P" else "G %d" % o[1]
    il, ml = [], []
    for name, pre, a, b, post in scen:
        il += ["CASE ov-%s CAP %d" % (name, cap3)] + [iop(o) for o in pre] + ["OV %s | %s" % (iop(a), iop(b))] + [iop(o) for o in post] + ["G %d" % k for k in probe]
        for tag, first, second in (("ab", a, b), ("ba", b, a)):
            ml += ["CASE ov-%s.%s CAP %d OVH %d" % (name, tag, cap3, ovh)] + [mop(o) for o in pre] + [mop(first), mop(second)] + [mop(o) for o in post] + ["G %d" % k for k in probe]
    ipath, mpath = scratch.path("c07-ov-impl.txt"), scratch.path("c07-ov-model.txt")
    open(ipath, "w").write("\n".join(il) + "\n")
    open(mpath, "w").write("\n".join(ml) + "\n")
    lines, rc, err = core.run_impl(scratch, "c07", ipath, timeout=120)
    impl = core.split_cases(lines)
    model = core.split_cases(core.run_model("c07", mpath))
    nbad = 0
    for name, pre, a, b, post in scen:
        got = strip_sizes(impl.get("ov-" + name) or [])
        ab = model.get("ov-%s.ab" % name)
        ba = list(model.get("ov-%s.ba" % name))
        k = len(pre)
        ba[k], ba[k + 1] = ba[k + 1], ba[k]          # printed as (result of A, result of B)
        if rc != 0 or (got != ab and got != ba):
            nbad += 1
            rep.violation("monitor:linearizable", "overlapping calls %s ‖ %s after %s, then %s: the outcome %s is that of neither sequential order (A then B: %s ; B then A: %s)%s" % (
                iop(a), iop(b), " ".join(iop(o) for o in pre), " ".join(iop(o) for o in post), got[k:], ab[k:], ba[k:], "" if rc == 0 else " — harness exit %s: %s" % (rc, err[-300:])),
                {"impl_lines": il, "scenario": name, "impl": got, "model_ab": ab, "model_ba": ba})
    return len(scen), nbad


def run(rep, scratch, tier, seed, replay=None):
    rng = random.Random(seed)
    nelems = [0, 1, 10, 100, 1000, 5000, 20000, 40000, 70000]
    ovh, sizes = calibrate(scratch, nelems)
    if replay:
        c = replay["case"]
        cases = [Case("replay", c["cap"], [tuple(o) for o in c["ops"]], c["probe"], c.get("kind", "replay"))]
        n_exh = 0
    else:
        corpus = corpus_cases(sizes)
        gen, n_exh = gen_cases(rng, tier, ovh, sizes)
        cases = corpus + gen
    impl, model, crashed, err = run_cases(scratch, cases, ovh, sizes, "main")
    failing_mon, failing_diff = [], []
    nontrivial = set()
    kinds = {}
    nops = 0
    for c in cases:
        bad, diff = evaluate(c, impl, model, ovh)
        kinds[c.kind] = kinds.get(c.kind, 0) + 1
        nops += len(c.ops) + len(c.probe)
        il = impl.get(c.cid) or []
        if any(l.startswith("HIT") for l in il) and any(l.startswith("MISS") for l in il):
            nontrivial.add((c.cap, tuple(c.ops)))
        if bad:
            failing_mon.append((c, bad))
        elif diff:
            failing_diff.append((c, diff))
    # report: at most a few minimised representatives per monitor
    seen = set()
    for c, bad in failing_mon:
        name = bad[0][0]
        if name in seen:
            continue
        seen.add(name)
        sc, sbad, sdiff, il, ml = shrink(scratch, c, ovh, sizes, lambda b, d, name=name: any(x[0] == name for x in b))
        rep.violation("monitor:" + name, "%s: %s" % (name, (sbad or bad)[0][1]),
                      {"case": sc.to_json(), "overhead_calibrated": ovh, "sizes": {str(k): v for k, v in sizes.items()},
                       "impl_output": il, "model_output": ml, "monitor_failures": sbad or bad,
                       "how": "ops are (P key nelems bmid | G key); bitmaps built by harness/c07.go:mkBitmap"})
    if failing_diff and not failing_mon:
        c, diff = failing_diff[0]
        sc, sbad, sdiff, il, ml = shrink(scratch, c, ovh, sizes, lambda b, d: d is not None)
        rep.violation("correspondence", "LRUCache and the model lru_observe disagree (%s) but no property monitor fails on %d differing cases" % (sdiff or diff, len(failing_diff)),
                      {"case": sc.to_json(), "overhead_calibrated": ovh, "impl_output": il, "model_output": ml,
                       "broken": "correspondence LRUCache ~ LRU.lru_observe (theorems of Props/C07.v no longer shown to describe this code)"},
                      no_input=True)
    nov, nov_bad = overlap_level(rep, scratch, ovh, sizes) if not replay else (0, 0)
    rep.coverage["overlapping_call_scenarios"] = {"scenarios": nov, "failures": nov_bad}
    npm, npm_bad = partial_metrics_level(rep, scratch, ovh, sizes) if not replay else (0, 0)
    rep.coverage["partial_metrics_configurations"] = {"configurations": npm, "failures": npm_bad}
    sample = cases[min(len(cases) - 1, n_exh + 5)] if cases else None
    rep.coverage.update({
        "evaluations": len(cases), "operations_run": nops,
        "distinct_nontrivial": len(nontrivial),
        "rule": "corpus first, then every sequence of length <= %d over {Put(k,size) | k in 1..3, size in tiny/medium/larger-than-capacity} u {Get k} x 6 capacities (0, one entry -1 byte, one entry, two entries, ...), each followed by a probe Get of every key; sampled longer sequences; long random sequences over up to 16 keys with roaring bitmaps of 8 B..33 KB. Non-trivial = distinct (capacity, sequence) whose trace contains both a hit and a miss." % (4 if tier == "thorough" else 3),
        "exhaustive": n_exh > 0, "exhaustive_cases": n_exh, "case_kinds": kinds,
        "overhead_calibrated": ovh, "bitmap_sizes": {str(k): v for k, v in sizes.items()},
        "monitors": ["hit_returns_latest_put", "byte_bound", "lru_order", "fits_then_retrievable", "no_needless_eviction", "counters"],
        "monitor_failures": len(failing_mon), "correspondence_diffs": len(failing_diff) + sum(1 for c, b in failing_mon if evaluate(c, impl, model, ovh)[1]),
        "samples": [sample.to_json()] if sample else [],
    })
    rep.assumptions += [
        "roaring bitmaps are represented in the model by an identity and by GetSizeInBytes (both read from the implementation run)",
        "the per-entry overhead is calibrated from the implementation's behaviour and universally quantified in the theorems",
    ]

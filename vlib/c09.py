"""C09 — the parser is total and accepts exactly the documented grammar: strings (grammar
derivations with random white space, token-level mutations, raw bytes, placeholder edge cases,
directed cases) through ParseQuery and through the extracted QParser.parse_query; accept/reject
and the tree compared; goroutine count must return to its baseline after every case."""
import random
from . import core, text

PID = "C09"


def gen(rng, tier):
    cases = []
    n = 20000 if tier == "quick" else 150000
    for s in text.DIRECTED:
        cases.append((s, "directed"))
    for p in text.PLACEHOLDERS:
        cases.append((b"a=" + p, "placeholder"))
        cases.append((b"a = " + p + b" & b=" + p, "placeholder"))
    # exhaustive: every byte value in every lexer state (text, field, value, after a quote inside
    # a value, placeholder), before and after each token kind
    for b in range(256):
        bb = bytes([b])
        for tmpl in (b"%s", b"a%s", b"a%s=\"1\"", b"a=%s", b"a=\"x%s\"", b"a=\"x\"%s", b"a=\"x\"\"%s\"", b"a=$1%s", b"a=$%s", b"a=\"1\"%s", b"a=\"1\";c%s", b"a=\"1\";c,%sd", b"(%sa=\"1\")", b"a=\"1\"&%sb=\"2\""):
            cases.append((tmpl % bb, "exhaustive-byte"))
    for _ in range(n):
        s, t, gb, toks = text.sentence(rng)
        k = rng.random()
        if k < 0.45:
            cases.append((s, "sentence"))
        elif k < 0.85:
            m = toks
            for _ in range(rng.choice([1, 1, 2, 3])):
                m = text.mutate(rng, m)
            cases.append((text.spell(rng, m), "mutation"))
        elif k < 0.93:
            cut = rng.randrange(len(s) + 1)
            cases.append((s[:cut] + bytes([rng.randrange(256)]) + s[cut:], "byte-insert"))
        else:
            cases.append((bytes(rng.choice([34, 40, 41, 38, 124, 94, 61, 59, 44, 36, 97, 49, 32, 0, 10, 128, 255, 95]) for _ in range(rng.randrange(0, 14))), "raw"))
    # long and wide sentences: flat chains of many comparisons, many parenthesised groups, long
    # group-by lists, moderate nesting (any counter or limit inside the parser meets them)
    for cnt in ((300, 1001, 2500) if tier == "quick" else (300, 999, 1000, 1001, 1002, 2500, 10000)):
        for op in (b" | ", b" & "):
            cases.append((op.join(b'c%d="v%d"' % (i % 7, i) for i in range(cnt)), "long-chain"))
        cases.append((b" & ".join(b'(a="%d" | b="%d")' % (i, i) for i in range(cnt // 2)), "long-chain"))
        cases.append((b" | ".join(b'^ a="%d"' % i for i in range(cnt)), "long-chain"))
        cases.append((b'a="1" ; ' + b", ".join(b"g%d" % i for i in range(cnt)), "long-chain"))
        cases.append((b" | ".join(b"a=$%d" % (i + 1) for i in range(cnt)), "long-chain"))
    for d in (40, 200):
        cases.append((b"^" * d + b'a="1"', "deep"))
        cases.append((b"(" * d + b'a="1"' + b")" * d, "deep"))
        cases.append((b"(" * d + b'a="1"' + b' | b="2")' * d, "deep"))
    if tier == "thorough":
        # deep nesting (well below the stack limit of the recursive-descent parser)
        for d in (100, 1000, 5000):
            cases.append((b"^" * d + b'a="1"', "deep"))
            cases.append((b"(" * d + b'a="1"' + b")" * d, "deep"))
    return cases


def run(rep, scratch, tier, seed, replay=None):
    rng = random.Random(seed)
    if replay:
        cases = [(bytes.fromhex(replay["input_hex"]), "replay")]
    else:
        cases = [(bytes.fromhex(c), "corpus") for c in corpus()] + gen(rng, tier)
    lines = ["P c%d %s" % (i, core.enc_str(s)) for i, (s, k) in enumerate(cases)]
    impl, model, rc, err = text.run_text(scratch, lines, "c09")
    if rc != 0:
        raise core.FrameworkError("harness exited with %d (a panic escaped ParseQuery's recover?): %s" % (rc, err[:1500]))
    kinds, acc, bad = {}, 0, []
    distinct = set()
    for i, (s, kind) in enumerate(cases):
        a, b = impl.get(("P", "c%d" % i)), model.get(("P", "c%d" % i))
        kinds[kind] = kinds.get(kind, 0) + 1
        if b is None or a is None:
            raise core.FrameworkError("missing output for case %d" % i)
        if b.startswith("ACCEPT"):
            acc += 1
            distinct.add(b)
        if a.startswith("SKIPPED"):
            continue
        leak = " LEAK" in a
        a0 = a.split(" LEAK")[0]
        if a0 != b:
            bad.append((i, s, kind, "result", a0, b))
        elif leak:
            bad.append((i, s, kind, "leak", a, b))
    seen = set()
    for i, s, kind, what, a, b in bad:
        cls = (what, a.split()[0], b.split()[0])
        if cls in seen:
            continue
        seen.add(cls)
        # shrink: delete bytes while the same class of failure persists
        def fails(bs):
            ss = bytes(bs)
            im, mo, _, _ = text.run_text(scratch, ["P x %s" % core.enc_str(ss)], "c09s")
            x, y = im.get(("P", "x"), ""), mo.get(("P", "x"), "")
            if what == "leak":
                return " LEAK" in x
            return x.split(" LEAK")[0] != y and (x.split()[0], y.split()[0]) == (a.split()[0], b.split()[0])
        small = bytes(core.ddmin(list(s), fails, budget=80)) if len(s) <= 400 else s
        im, mo, _, _ = text.run_text(scratch, ["P x %s" % core.enc_str(small)], "c09s")
        rep.violation("monitor:goroutine-leak" if what == "leak" else "correspondence",
                      "ParseQuery(%s): implementation %s, model %s%s" % (core.show_bytes(small)[:120], im.get(("P", "x"), a)[:160], mo.get(("P", "x"), b)[:160],
                                                                       " (lexer goroutine left behind)" if what == "leak" else ""),
                      {"input_hex": small.hex(), "input": core.show_bytes(small), "impl": im.get(("P", "x"), a), "model": mo.get(("P", "x"), b), "kind": kind})
    # the goroutine clause as an obligation on the regenerated skeleton of ParseQuery
    if not replay:
        from . import locks
        ob = locks.check_obligations(scratch, PID, dirs="internal/queryparser")
        rep.coverage["goroutine_obligation"] = {"file": "coq/obligations/ObC09.v", "ok": ob["ok"], "theorems": ob["theorems"], "closed_under_global_context": ob["closed"],
                                                "translator": "tools/lockskel -dirs=internal/queryparser: a call of a function that leaves a goroutine running is an acquisition, a call of a function that ranges over the lexer's channel until it is closed is its release"}
        rep.coverage["obligations"] = rep.coverage.get("obligations", 0) + len(ob["theorems"])
        rep.coverage["discharged"] = rep.coverage.get("discharged", 0) + (len(ob["theorems"]) if ob["ok"] else 0)
        if not ob["ok"] and not any(what == "leak" for _, _, _, what, _, _ in bad):
            rep.violation("obligation", "the goroutine obligation of C09 no longer checks (coq/obligations/ObC09.v against the skeleton of ParseQuery in the working tree: some path to a return does not join the lexer goroutine it started, or the translator no longer recognises the join); no input of this run left a goroutine behind",
                          {"broken": "C09_locks / C09_goroutine_joined", "unknown_to_policy": ob.get("unknown_to_policy", ""), "coqc_output": ob["output"][-2500:]}, no_input=True)
    rep.coverage.update({
        "evaluations": len(cases), "distinct_nontrivial": len(distinct),
        "rule": "directed cases, placeholder edge cases ($, $0, $007, 2^31-1, 2^31, 2^32+1, 20 digits, signs), random derivations of the grammar (depth<=6, arity 2..4, hostile values, group-by lists) spelled with random white space, 1-3 token-level mutations of them (drop/duplicate/swap/insert/replace/truncate/append), single-byte insertions, raw byte strings. Compared: accept/reject and the tree; goroutine count polled back to baseline after each case. Non-trivial = distinct accepted trees.",
        "kinds": kinds, "exhaustive": True, "exhaustive_part": "all 256 byte values in 14 lexer contexts", "accepted": acc, "rejected": len(cases) - acc, "failures": len(bad),
        "samples": [core.show_bytes(cases[min(len(cases) - 1, len(text.DIRECTED) + 60)][0])],
    })
    rep.assumptions += ["goroutine stack exhaustion at ~10^6 nesting levels is outside the model (known finding, see DESIGN.md)",
                        "the byte-level lexer model coincides with the rune-level code because every byte >= 0x80 is an unknown token outside values and opaque inside them"]


def corpus():
    import json, os
    d = os.path.join(core.VERIF, "corpus", PID)
    res = []
    if os.path.isdir(d):
        for f in sorted(os.listdir(d)):
            j = json.load(open(os.path.join(d, f)))
            if "input_hex" in j:
                res.append(j["input_hex"])
    return res

"""C06 — index creation is crash-atomic.  With -tags verif a hook snapshots the output file
after every committed transaction (and at creation); every snapshot must be rejected by
OpenIndex or answer schema and probes exactly like the completely written index; opening never
panics, hangs, leaves the lock held or modifies the file.  A SIGKILL stream kills `updog
create` at seeded instants and applies the same verdict to what is left on disk."""
import os, random, signal, subprocess, time
from . import core, dp, filescommon

PID = "C06"


def dataset_values(did, nvals, nrows_per=1, extra_cols=True):
    rows = []
    for i in range(nvals):
        for _ in range(nrows_per):
            r = {b"a": b"v%05d" % i}
            if extra_cols:
                r[b"b"] = b"%d" % (i % 3)
            rows.append(r)
    return dp.Dataset(did, rows, "values%d" % nvals)


def gen(rng, tier):
    lines, cases = [], []
    k = 0
    # n values of column a (+ 3 of column b): the number of BITMAPS is what the batching counts,
    # so both n and n+3 are placed on and around the multiples of 1000
    sizes_mem = [0, 1, 995, 996, 997, 998, 999, 1000, 1001, 1996, 1997, 2500] if tier == "quick" else \
        [0, 1, 2, 994, 995, 996, 997, 998, 999, 1000, 1001, 1002, 1995, 1996, 1997, 1998, 1999, 2000, 2001, 2500, 2996, 2997, 5001]
    for n in sizes_mem:
        ds = dataset_values("m%d" % n, n)
        lines += ds.lines()
        cid = "cm%d" % n
        lines.append("CRASH %s %s mem" % (cid, ds.did))
        cases.append((cid, ds, "mem"))
        lines.append("DROP " + ds.did)
    sizes_big = [0, 1, 1000, 1001, 2001] if tier == "quick" else [0, 1, 2, 999, 1000, 1001, 1002, 2000, 2001, 2002, 3001]
    for n in sizes_big:
        ds = dataset_values("b%d" % n, n)
        lines += ds.lines()
        cid = "cb%d" % n
        lines.append("CRASH %s %s big" % (cid, ds.did))
        cases.append((cid, ds, "big"))
        lines.append("DROP " + ds.did)
    # bitmaps that serialise to more than 16 KiB (three roaring containers: > 131072 rows with an
    # irregular flag) next to small ones: anything that treats large values specially
    nbig = 140000 if tier == "quick" else 300000
    rows = [{b"f": (b"y" if (i * 2654435761 >> 7) & 1 else b"n"), b"g": b"%d" % (i % 5)} for i in range(nbig)]
    ds = dp.Dataset("lb", rows, "large-bitmaps")
    lines += ds.lines()
    for w in ("mem", "big"):
        lines.append("CRASH clb%s lb %s" % (w, w))
        cases.append(("clb" + w, ds, w))
    lines.append("DROP lb")
    for i in range(6 if tier == "quick" else 300):
        ds = dp.small_dataset(rng, "s%d" % i, hostile=True)
        if any(0 in c for r in ds.rows for c in r):
            continue
        lines += ds.lines()
        for w in ("mem", "big"):
            cid = "cs%d%s" % (i, w)
            lines.append("CRASH %s %s %s" % (cid, ds.did, w))
            cases.append((cid, ds, w))
        lines.append("DROP " + ds.did)
    return lines, cases


def kill_stream(rep, scratch, rng, tier):
    """SIGKILL `updog create` at seeded instants; verdict on the output file."""
    updog = scratch.updog_binary()
    n = 8 if tier == "quick" else 150
    d = scratch.path("kill")
    os.makedirs(d, exist_ok=True)
    csv = os.path.join(d, "in.csv")
    with open(csv, "w") as fh:
        fh.write("a,b,c\n")
        for i in range(40000):
            fh.write("v%05d,%d,x\n" % (i % 26000, i % 7))
    results = {}
    bad = []
    # scratch files of the command on ANOTHER file system than the output (TMPDIR), if there is one
    other_tmp = None
    try:
        if os.path.isdir("/dev/shm") and os.stat("/dev/shm").st_dev != os.stat(d).st_dev:
            other_tmp = os.path.join("/dev/shm", "updog-verif-kill-%d" % os.getpid())
            os.makedirs(other_tmp, exist_ok=True)
    except OSError:
        other_tmp = None
    results["tmpdir_on_other_filesystem"] = bool(other_tmp)
    same_tmp = os.path.join(d, "tmp")
    os.makedirs(same_tmp, exist_ok=True)
    for big in (False, True):
        ref = os.path.join(d, "ref-%s.updog" % ("big" if big else "mem"))
        cmd = [updog, "create"] + (["-b"] if big else []) + ["-o", ref, csv]
        t0 = time.time()
        p = subprocess.run(cmd, cwd=d, env=core.GOENV, capture_output=True, timeout=600)
        full = time.time() - t0
        if p.returncode != 0:
            raise core.FrameworkError("updog create failed on the reference run: %s" % p.stderr.decode("utf-8", "replace")[-500:])
        refsize = os.path.getsize(ref)
        for i in range(n):
            out = os.path.join(d, "k%d-%s.updog" % (i, "big" if big else "mem"))
            env = dict(core.GOENV)
            # the command's scratch files never go to the system's /tmp: a killed run cannot remove them
            env["TMPDIR"] = other_tmp if (other_tmp and i % 2 == 1) else same_tmp
            # even runs: a random instant; odd runs: the instant at which the OUTPUT PATH has
            # reached a fraction of its final size (the window in which a leftover can exist)
            delay = rng.random() * full * 1.05
            threshold = None if i % 4 in (0, 1) and i % 2 == 0 else max(1, int(refsize * rng.choice([0.0, 0.05, 0.3, 0.6, 0.9])))
            proc = subprocess.Popen([updog, "create"] + (["-b"] if big else []) + ["-o", out, csv], cwd=d, env=env,
                                    stdout=subprocess.DEVNULL, stderr=subprocess.DEVNULL)
            if threshold is None:
                time.sleep(delay)
            else:
                tend = time.time() + full * 3 + 2
                while time.time() < tend and proc.poll() is None:
                    try:
                        if os.path.getsize(out) >= threshold:
                            break
                    except OSError:
                        pass
                    time.sleep(0.00005)
                delay = -threshold
            finished = proc.poll() is not None
            if not finished:
                proc.send_signal(signal.SIGKILL)
            proc.wait()
            if finished:
                results["completed"] = results.get("completed", 0) + 1
                os.path.exists(out) and os.remove(out)
                continue
            q = subprocess.run([scratch.harness(), "snapcheck", out, ref], cwd=scratch.dir, env=core.GOENV, capture_output=True, timeout=120)
            verdicts = [l.split(" ", 2)[-1] if l.startswith("KILL ABSENT") else l.split(" ", 2)[2] for l in q.stdout.decode("utf-8", "replace").splitlines() if l.startswith("KILL")]
            if q.stdout.decode().startswith("KILL ABSENT"):
                verdicts = ["ABSENT"]
            if q.returncode != 0:
                # the process that opened the leftover died (e.g. SIGBUS on pages beyond the end of the file)
                verdicts.append("OPENER-DIED rc=%d %s" % (q.returncode, q.stderr.decode("utf-8", "replace")[:200].replace("\n", " ")))
            for v in verdicts:
                key = v.split()[0]
                results[key] = results.get(key, 0) + 1
                if key not in ("ABSENT", "ERR", "OK-EQUAL"):
                    bad.append({"writer": "big" if big else "mem", "delay_s": round(delay, 4), "tmpdir_on_other_filesystem": bool(other_tmp) and env.get("TMPDIR") == other_tmp, "verdict": v[:400]})
            os.path.exists(out) and os.remove(out)
    if other_tmp:
        import shutil
        shutil.rmtree(other_tmp, ignore_errors=True)
    return results, bad


def run(rep, scratch, tier, seed, replay=None):
    rng = random.Random(seed)
    lines, cases = gen(rng, tier)
    if replay:
        lines, cases = replay["lines"], []
    ilines, _, rc, err = filescommon.run_files(scratch, lines, "c06", model=False)
    if rc != 0:
        raise core.FrameworkError("harness exited with %d: %s" % (rc, err[-2000:]))
    snaps = [l.split(" ", 5) for l in ilines if l.startswith("SNAP ")]
    heads = {l.split()[1]: l.split() for l in ilines if l.startswith("CRASH ")}
    refs = {l.split()[1]: l.split(" ", 2)[2] for l in ilines if l.startswith("CRASHREF ")}
    verdicts = {}
    bad = []
    for f in snaps:
        _, cid, k, site, mode, v = f
        key = v.split()[0]
        verdicts[key] = verdicts.get(key, 0) + 1
        if key not in ("ERR", "OK-EQUAL"):
            bad.append((cid, int(k), site, mode, v))
    for cid, h in heads.items():
        if h[2] != "OK":
            bad.append((cid, -1, "writer", "-", "the writer itself ended with " + h[2]))
        elif refs.get(cid) != "OK":
            bad.append((cid, -1, "final", "-", "the completely written index does not open: " + str(refs.get(cid))))
    seen = set()
    for cid, k, site, mode, v in bad:
        cls = (cid[:2], v.split()[0])
        if cls in seen:
            continue
        seen.add(cls)
        # the dataset of this case
        blk, on = [], False
        for l in lines:
            if l.startswith("DATASET"):
                on = False
                blk_tmp = [l]
                cur = l.split()[1]
            if l.startswith("R "):
                blk_tmp.append(l)
            if l.startswith("CRASH %s " % cid):
                blk = blk_tmp + [l]
        rep.violation("monitor:crash-state",
                      "%s writer, %s: the file as of commit point #%d (%s), opened %s -> %s (must be rejected or answer like the complete index)" % (
                          "big" if cid.startswith("cb") or cid.endswith("big") else "mem", cid, k, site, mode, v[:300]),
                      {"lines": blk if len(blk) < 6000 else blk[:3] + ["... %d rows ..." % (len(blk) - 4)] + blk[-1:], "snapshot": k, "site": site, "mode": mode, "verdict": v,
                       "how": "harness/files.go crashCase: VerifCommitHook copies the output file after every tx.Commit(); each copy is opened with OpenIndex"})
    kills, kbad = ({}, [])
    if not replay:
        kills, kbad = kill_stream(rep, scratch, rng, tier)
        for b in kbad[:2]:
            rep.violation("monitor:sigkill", "updog create (%s) killed %s left a file that is accepted but wrong, or that kills the process opening it: %s" % (
                b["writer"], ("after %.4fs" % b["delay_s"]) if b["delay_s"] >= 0 else ("when its output had reached %d bytes" % -b["delay_s"]), b["verdict"][:200]), b)
    ncommit = {cid: int(h[3]) for cid, h in heads.items()}
    rep.coverage.update({
        "evaluations": len(snaps), "distinct_nontrivial": sum(1 for f in snaps if f[3] not in ("created",) and f[5].startswith("ERR")),
        "rule": "datasets with 0,1,999,1000,1001,2500 (+more in thorough) distinct values for the in-memory writer and 0,1,1000,1001,2001 rows for the big writer, plus small hostile datasets; the output file is copied at creation and after every committed transaction (build tag verif) and each copy is opened on demand and preloaded under a watchdog; verdicts: ERR (rejected, lock released, file untouched) or OK-EQUAL (schema and up to 400 probe answers equal to the complete index). Non-trivial = snapshots taken after at least one commit that are rejected. SIGKILL stream on `updog create` with and without -b.",
        "crash_cases": len(heads), "snapshots_checked": len(snaps), "verdicts": verdicts, "commits_per_case": ncommit,
        "sigkill": kills, "samples": [" ".join(snaps[len(snaps) // 2][:5])] if snaps else [],
    })
    rep.assumptions += ["atomicity of a bbolt commit and of bbolt's file initialisation under SIGKILL/power loss is trusted; the kill stream only samples it",
                        "the verif hook observes the file between transactions, which is exactly the set of crash states of the model"]

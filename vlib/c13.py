"""C13 — the gRPC service answers each query of a batch like the library, in order: the real
`updog server` (cache on/off x preload on/off) on a loopback port; batches of 0..12 queries with
explicit, zero, negative and duplicate ids, valid and invalid members; every response compared
with the model (Adapters.serve = per-query library answers with the id rule, all-or-nothing);
database/sql with a grpc:// data source compared with the file data source and the model."""
import random
from . import core, dp, wirecommon as wc, sqlcommon

PID = "C13"


def gen(rng, tier, ds):
    reqs = []
    nb = 150 if tier == "quick" else 8000
    for i in range(nb):
        k = rng.choice([0, 1, 1, 2, 3, 5, 8, 12])
        qs = []
        for j in range(k):
            t = wc.rand_valid(rng, rng.choice([0, 1, 2, 3]), ds)
            if rng.random() < 0.06:
                t = ("E", b"nosuchcolumn", b"1", 0)              # invalid member: unknown column
            elif rng.random() < 0.04:                            # invalid member: incomplete tree
                t = rng.choice([("A", [t, ("U",)]), ("O", [("U",), t]), ("N0",), ("A", [("N", ("O", [t, ("N0",)]))]), ("U",)])
            gb = [rng.choice(wc.COLS + ([b"nosuch"] if rng.random() < 0.03 else [])) for _ in range(rng.choice([0, 0, 1, 2, 3]))]
            qid = rng.choice([0, 0, 0, 1, 2, 7, 7, -4, 2147483647, -2147483648])
            qs.append(wc.enc_q(qid, t, gb))
        reqs.append(("b%d" % i, qs))
    # directed: the same query several times in one batch (ids defaulted, explicit, repeated),
    # the same expression with different group-by lists, ids in descending order
    a1 = ("E", wc.COLS[0], b"1", 0)
    t2 = ("O", [a1, ("N", ("E", wc.COLS[1], b"x", 0))])
    reqs.append(("d0", [wc.enc_q(0, a1, []), wc.enc_q(0, a1, []), wc.enc_q(0, a1, [])]))
    reqs.append(("d1", [wc.enc_q(5, t2, [wc.COLS[0]]), wc.enc_q(9, t2, [wc.COLS[0]]), wc.enc_q(0, t2, [wc.COLS[0]]), wc.enc_q(5, t2, [wc.COLS[0]])]))
    reqs.append(("d2", [wc.enc_q(0, t2, [wc.COLS[0]]), wc.enc_q(0, t2, [wc.COLS[1]]), wc.enc_q(0, t2, []), wc.enc_q(0, t2, [wc.COLS[1], wc.COLS[0]])]))
    reqs.append(("d3", [wc.enc_q(40, a1, []), wc.enc_q(30, t2, []), wc.enc_q(20, a1, [wc.COLS[0]]), wc.enc_q(10, t2, [])]))
    for j, qs in enumerate([[wc.enc_q(0, a1, []), wc.enc_q(0, None, []), wc.enc_q(0, t2, [])], [wc.enc_q(0, None, [])], [wc.enc_q(0, None, [wc.COLS[0]]), wc.enc_q(0, a1, [])],
                            [wc.enc_q(0, a1, []), wc.enc_q(7, None, [])]]):
        reqs.append(("dn%d" % j, qs))                       # a member without expression fails the whole call
    reqs.append(("d4", [wc.enc_q(0, a1, []), wc.enc_q(1, t2, []), wc.enc_q(0, a1, []), wc.enc_q(-4, a1, [])]))
    return reqs


def run(rep, scratch, tier, seed, replay=None):
    rng = random.Random(seed)
    ds = wc.dataset()
    idx = wc.make_index(scratch, ds, "c13")
    reqs = gen(rng, tier, ds)
    if replay:
        reqs = [("b0", replay["request"])]
    nbad = 0
    configs = [(True, False), (False, True)] if tier == "quick" else [(True, False), (True, True), (False, False), (False, True)]
    stats = {}
    for cache, preload in configs:
        srv = wc.Server(scratch, idx, cache=cache, preload=preload)
        try:
            impl, model, rc, err, lines = wc.run_wire(scratch, ds, reqs, srv.addr, idx, "c13")
            alive = srv.alive()
            # the sql driver over grpc:// vs file: on the same index
            sql_bad = grpc_sql(rep, scratch, rng, ds, srv.addr, tier) if not replay else 0
        finally:
            srv.stop()
        if rc != 0:
            raise core.FrameworkError("wire harness exited with %d: %s" % (rc, err[:1200]))
        if not alive:
            rep.violation("monitor:server-died", "the updog server exited during the batch run", {"server_output_tail": srv.output()[-1500:]})
            nbad += 1
            continue
        seen = set()
        for rid, qs in reqs:
            a, b = impl.get(rid), model.get(rid)
            if b is None:
                raise core.FrameworkError("model produced nothing for " + rid)
            stats[b.split()[0]] = stats.get(b.split()[0], 0) + 1
            if a != b:
                nbad += 1
                cls = ((a or "NONE").split()[0], b.split()[0])
                if cls in seen:
                    continue
                seen.add(cls)
                rep.violation("correspondence", "server (cache %s, preload %s): batch of %d queries -> implementation %s, model %s" % (
                    cache, preload, len(qs), str(a)[:200], b[:200]), {"request": qs, "impl": a, "model": b, "dataset_lines": lines[:45]})
        nbad += sql_bad
    if not replay:
        nbad += grpc_big(rep, scratch, tier)
    # known finding probe: a value that is not valid UTF-8 cannot cross proto3 string fields
    srv = wc.Server(scratch, idx)
    try:
        probe = [("u1", [wc.enc_q(0, ("E", b"b", b"x\xff", 0), [])])]
        impl, model, rc, err, lines = wc.run_wire(scratch, ds, probe, srv.addr, idx, "c13u")
    finally:
        srv.stop()
    if impl.get("u1") != model.get("u1"):
        rep.violation("correspondence", "non-UTF-8 value over gRPC: implementation %s, model %s" % (impl.get("u1"), model.get("u1")),
                      {"request": probe[0][1]}, finding_class="non_utf8_over_grpc")
    rep.coverage.update({
        "evaluations": len(reqs) * len(configs), "distinct_nontrivial": len(set(" ".join(qs) for _, qs in reqs if len(qs) > 1)),
        "rule": "batches of 0,1,2,3,5,8,12 queries (random valid trees incl. empty AND/OR, values incl. non-ASCII UTF-8 and empty, group-by lists of 0..3 columns), ids in {0, 1, 2, 7 (duplicates), -4, 2^31-1}, ~6%% invalid members (unknown column) -> whole call must fail; server options cache on/off x preload on/off; response compared with the model in full (count, ids, groups in order). sql driver grpc:// vs file:. Non-trivial = distinct batches with more than one query.",
        "model_outcomes": stats, "failures": nbad, "samples": [reqs[3][1][:2]],
    })
    rep.assumptions += ["strings are valid UTF-8 (proto3 string fields); non-UTF-8 data cannot cross gRPC: known finding",
                        "HTTP/2 transport and protobuf (un)marshalling are trusted"]


def grpc_big(rep, scratch, tier):
    """A result of 40 000 groups (32-byte values: about 1.8 MB on the wire, between 1 MiB and gRPC's default limit of 4 MiB) through grpc:// and through file:."""
    from . import dp
    n = 40000
    big = dp.Dataset("big40k", [{b"g": b"value-%026d" % i, b"a": b"1"} for i in range(n)], "forty-thousand-groups")
    idx = wc.make_index(scratch, big, "c13big")
    srv = wc.Server(scratch, idx, cache=True, preload=False)
    try:
        q = core.enc_str(b'a = "1" ; g')
        lf = big.lines()[:1] and ["MISSINGFILE unused"]          # no dataset lines needed: the file exists already
        out = {}
        for tag, src in (("file", None), ("grpc", "grpc://%s" % srv.addr)):
            lines = ["LOADFILE big40k %s" % idx] if src is None else []
            lines += ["SQLOPEN h %s -" % (src or "big40k"), "SQLQ s1 h direct %s 1" % q, "ARGS 0", "SQLCLOSE h"]
            path = scratch.path("c13-big-%s.txt" % tag)
            open(path, "w").write("\n".join(lines) + "\n")
            il, rc, err = core.run_impl(scratch, "sql", path, timeout=300)
            out[tag] = next((l for l in il if l.startswith("SQL s1.0 ")), "NONE rc=%s %s" % (rc, err[-200:]))
    finally:
        srv.stop()
    import hashlib
    fa, ga = out["file"], out["grpc"]
    ok = fa == ga and (" N %d " % n) in fa[:200]
    if not ok:
        rep.violation("correspondence", "a grouped query with %d result groups: file: source %s… ; grpc:// source %s…" % (n, fa[:160], ga[:160]),
                      {"groups": n, "file": fa[:400], "grpc": ga[:400], "how": "vlib/c13.py grpc_big: rows {g: v00000..v39999, a: 1}, query a = \"1\" ; g"})
    rep.coverage["large_result"] = {"groups": n, "equal": ok, "sha256": hashlib.sha256(fa.encode()).hexdigest()[:16]}
    return 0 if ok else 1


def grpc_sql(rep, scratch, rng, ds, addr, tier):
    """The same statements through file: and grpc:// data sources."""
    lines_f, lines_g, lines_m = ds.lines(), ds.lines(), ds.lines()
    lines_f.append("SQLOPEN hf %s -" % ds.did)
    lines_g.append("SQLOPEN hg grpc://%s -" % addr)
    lines_m.append("SQLOPEN hg %s -" % ds.did)
    stmts = []
    directed = [(b'a = "1" & b = $1 ; c', 1), (b'b = $1 | a = "0"', 1), (b'^ a = "2" & (b = $2 | a = $1) ; b', 2), (b'a = "1" & b = "x" & c = $1', 1), (b'a = $1', 1)]
    for i in range(25 if tier == "quick" else 600):
        txt, t, gb = sqlcommon.query_text(rng, ds)
        m = sqlcommon.max_ph(t)
        if i < 2 * len(directed):
            # literal first, placeholder later: a prepared statement executed with different arguments
            txt, m = directed[i % len(directed)]
            vals = [("S", b"x"), ("S", b"y"), ("S", b""), ("S", b"0"), ("S", b"1"), ("S", b"2"), ("S", b"v3")]
            argsets = [[rng.choice(vals) for _ in range(m)] for _ in range(3)]
            mode = "prepared" if i % 2 == 0 else "direct"
            for lines, h in ((lines_f, "hf"), (lines_g, "hg"), (lines_m, "hg")):
                lines.append("SQLQ s%d %s %s %s %d" % (i, h, mode, core.enc_str(txt), len(argsets)))
                for a in argsets:
                    lines.append(sqlcommon.enc_args(a))
            stmts.append((i, txt, argsets, mode))
            continue
        args = [rng.choice([a for a in sqlcommon.ARG_POOL if a[0] == "I" or all(x < 128 for x in a[1])]) for _ in range(m - rng.choice([0, 0, 0, 1 if m else 0]))]   # exact or too few: grpcConn has no direct query path, so database/sql itself rejects surplus arguments there
        mode = rng.choice(["direct", "prepared"])
        # a prepared statement is executed several times with different arguments
        nexec = rng.choice([1, 2, 3]) if mode == "prepared" else 1
        argsets = [args] + [[rng.choice([a for a in sqlcommon.ARG_POOL if a[0] == "I" or all(x < 128 for x in a[1])]) for _ in range(len(args))] for _ in range(nexec - 1)]
        for lines, h in ((lines_f, "hf"), (lines_g, "hg"), (lines_m, "hg")):
            lines.append("SQLQ s%d %s %s %s %d" % (i, h, mode, core.enc_str(txt), len(argsets)))
            for a in argsets:
                lines.append(sqlcommon.enc_args(a))
        stmts.append((i, txt, argsets, mode))
    # several handles on one data source: closing one must not disturb the others (a second handle,
    # then a pooled handle used by four goroutines, each closed again), then the first handle
    q1 = core.enc_str(b'a = "1" ; b')
    nxt = 9000
    for lines, src, h in ((lines_f, ds.did, "hf"), (lines_g, "grpc://%s" % addr, "hg"), (lines_m, ds.did, "hg")):
        lines += ["SQLOPEN %s2 %s -" % (h, src), "SQLQ s9000 %s2 direct %s 1" % (h, q1), "ARGS 0", "SQLCLOSE %s2" % h,
                  "SQLQ s9001 %s direct %s 1" % (h, q1), "ARGS 0",
                  "SQLOPEN %s3 %s - 3" % (h, src), "SQLCONC c9 %s3 4 %s" % (h, q1), "SQLQ s9002 %s3 prepared %s 2" % (h, q1), "ARGS 0", "ARGS 0", "SQLCLOSE %s3" % h,
                  "SQLQ s9003 %s prepared %s 1" % (h, q1), "ARGS 0"]
    stmts += [(9000, b'a = "1" ; b', [[]], "direct"), (9001, b'a = "1" ; b', [[]], "direct"), (9002, b'a = "1" ; b', [[], []], "prepared"), (9003, b'a = "1" ; b', [[]], "prepared")]
    # a prepared statement that is still in use 11 s after it was prepared (only the grpc run waits)
    for lines, h, ms in ((lines_f, "hf", 0), (lines_g, "hg", 11000), (lines_m, "hg", 0)):
        lines.append("SQLPREPSLEEP s9100 %s %s %d" % (h, q1, ms))
    stmts.append((9100, b'a = "1" ; b', [[], []], "prepared, second execution 11 s after Prepare"))
    fi, fm, rc1, e1 = sqlcommon.run_lines(scratch, lines_f, "c13f", model_side=False)
    gi, _, rc2, e2 = sqlcommon.run_lines(scratch, lines_g, "c13g", model_side=False)
    _, gm, _, _ = sqlcommon.run_lines(scratch, lines_m, "c13m", impl_side=False)
    bad = 0
    for i, txt, argsets, mode in stmts:
        for j, args in enumerate(argsets):
            k = ("SQL", "s%d.%d" % (i, j))
            if not (fi.get(k) == gi.get(k) == gm.get(k)):
                bad += 1
                if bad <= 2:
                    rep.violation("correspondence", "sql driver: %s (%s, execution #%d with %d args): file: %s, grpc: %s, model %s" % (
                        core.show_bytes(txt)[:100], mode, j + 1, len(args), str(fi.get(k))[:120], str(gi.get(k))[:120], str(gm.get(k))[:120]),
                        {"query_text": core.show_bytes(txt), "argsets": [[str(v[1]) for v in a] for a in argsets], "file": fi.get(k), "grpc": gi.get(k), "model": gm.get(k)})
                break
    return bad

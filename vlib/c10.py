"""C10 — formatting a query and parsing it back preserves its meaning; second round is a
fixpoint: well-formed trees (exhaustive small ones, random deep/wide ones, hostile values,
placeholders, group-by lists) through QueryToString / ParseQuery and through the extracted
format_query / parse_query; the text, the re-parsed tree and the second/third-round texts are
compared byte for byte, and the property itself (norm equality, same group-by, stable text) is
evaluated on the implementation's own outputs."""
import itertools, random
from . import core, text

PID = "C10"


def small_trees(leaves, depth):
    if depth == 0:
        return list(leaves)
    sub = small_trees(leaves, depth - 1)
    res = list(leaves)
    for x in sub:
        res.append(("N", x))
    for op in ("A", "O"):
        for k in (1, 2, 3):
            for combo in itertools.product(sub if depth == 1 else sub[:7], repeat=k):
                res.append((op, list(combo)))
    return res


def norm(t):
    if t[0] == "E":
        return t
    if t[0] == "N":
        return ("N", norm(t[1]))
    out = []
    for x in t[1]:
        n = norm(x)
        if n[0] == t[0]:
            out += n[1]
        else:
            out.append(n)
    return out[0] if len(out) == 1 else (t[0], out)


def parse_tree(tokens, pos=0):
    """Parse the harness' prefix syntax back into a Python tree (for the oracle)."""
    t = tokens[pos]
    if t == "E":
        def rd(p):
            n = int(tokens[p])
            return bytes(int(x) for x in tokens[p + 1:p + 1 + n]), p + 1 + n
        c, p = rd(pos + 1)
        v, p = rd(p)
        return ("E", c, v, int(tokens[p])), p + 1
    if t == "N":
        x, p = parse_tree(tokens, pos + 1)
        return ("N", x), p
    k = int(tokens[pos + 1])
    p = pos + 2
    xs = []
    for _ in range(k):
        x, p = parse_tree(tokens, p)
        xs.append(x)
    return (t, xs), p


def gen(rng, tier):
    cases = []
    a, b, c, d = ("E", b"a", b"1", 0), ("E", b"b", b'x"y', 0), ("E", b"c", b"", 2), ("E", b"d", b"\n\x00\xff", 0)
    small = small_trees([a, b, c, d], 2)
    if tier == "quick":
        small = small[:400] + rng.sample(small[400:], min(2600, max(0, len(small) - 400)))
    for t in small:
        cases.append((t, [], "exhaustive-small"))
    for _ in range(6000 if tier == "quick" else 60000):
        t = text.rand_tree(rng, rng.choice([1, 2, 3, 4, 6, 9]), max_arity=rng.choice([2, 3, 6]), min_arity=1)
        gb = [text.rand_ident(rng) for _ in range(rng.choice([0, 0, 1, 2, 8]))]
        cases.append((t, gb, "random"))
    return cases


def run(rep, scratch, tier, seed, replay=None):
    rng = random.Random(seed)
    cases = gen(rng, tier)
    if replay:
        lines = [replay["line"]]
        cases = [(parse_tree(replay["line"].split()[2:])[0], [], "replay")]
    else:
        lines = ["F c%d %s" % (i, text.enc_query(t, gb)) for i, (t, gb, k) in enumerate(cases)]
    impl, model, rc, err = text.run_text(scratch, lines, "c10")
    if rc != 0:
        raise core.FrameworkError("harness exited with %d: %s" % (rc, err[:1500]))
    bad = []
    kinds = {}
    distinct = set()
    for i, (t, gb, kind) in enumerate(cases):
        cid = "c%d" % i
        kinds[kind] = kinds.get(kind, 0) + 1
        if model.get(("FW", cid)) != "WF":
            raise core.FrameworkError("the generator produced a tree that is not wf_query: %s" % text.show_tree(t))
        if model.get(("FN", cid)) != "NORM-EQUAL":
            raise core.FrameworkError("model-internal: norm(parse(format q)) != norm q on %s (impossible if C10_roundtrip holds)" % text.show_tree(t))
        diff = None
        for tag in ("F", "F1", "F2", "F3"):
            a, b = impl.get((tag, cid)), model.get((tag, cid))
            if a != b:
                diff = "%s: implementation %s, model %s" % ({"F": "formatted text", "F1": "re-parse of the text", "F2": "second-round text", "F3": "third-round text"}[tag], str(a)[:160], str(b)[:160])
                break
        # the property itself, on the implementation's own outputs
        prop = None
        a1 = impl.get(("F1", cid), "")
        if not a1.startswith("ACCEPT"):
            prop = "the formatted text %s is rejected by the parser: %s" % (str(impl.get(("F", cid)))[:100], a1[:80])
        else:
            toks = a1.split()[1:]
            t1, p = parse_tree(toks)
            gb1 = []
            if toks[p] == "GB":
                m = int(toks[p + 1])
                q = p + 2
                for _ in range(m):
                    n = int(toks[q])
                    gb1.append(bytes(int(x) for x in toks[q + 1:q + 1 + n]))
                    q += 1 + n
            if norm(t1) != norm(t) or gb1 != gb:
                prop = "the re-parsed tree means something else: %s vs %s" % (text.show_tree(t1)[:120], text.show_tree(t)[:120])
            elif impl.get(("F3", cid)) != impl.get(("F2", cid)):
                prop = "the second-round text is not stable"
            distinct.add(a1)
        if prop or diff:
            bad.append((i, t, gb, prop, diff))
    bad.sort(key=lambda x: (x[3] is None, len(text.show_tree(x[1]))))
    nprop = sum(1 for x in bad if x[3])
    for i, t, gb, prop, diff in bad[:3]:
        rep.violation("monitor:roundtrip" if prop else "correspondence",
                      "tree %s ; %s -> %s" % (text.show_tree(t)[:200], [c.decode() for c in gb], prop or (diff + " (text differs from the model's; no tree was found whose meaning is lost)")),
                      {"line": lines[i], "tree": text.show_tree(t), "group_by": [c.hex() for c in gb], "property_failure": prop, "text_difference": diff,
                       "impl": {k[0]: v for k, v in impl.items() if k[1] == "c%d" % i}, "model": {k[0]: v for k, v in model.items() if k[1] == "c%d" % i}},
                      no_input=(prop is None and nprop == 0))
    bad = [(i, t, gb, prop or diff) for i, t, gb, prop, diff in bad]
    rep.coverage.update({
        "evaluations": len(cases), "distinct_nontrivial": len(distinct),
        "rule": "all trees of depth<=2 / arity<=3 over a 4-leaf alphabet (literal, value with quote, placeholder, value with newline/NUL/0xff) — exhaustive in thorough, a fixed prefix plus a sample in quick — and random trees (depth<=9, arity<=6, single-operand and directly nested operators, hostile values, placeholders up to 2^31-1, group-by lists of 0..8 identifiers). Compared byte for byte: formatted text, re-parsed tree, second- and third-round text; the property (norm equality, same group-by, stable text) evaluated on the implementation's outputs. Non-trivial = distinct re-parsed trees.",
        "kinds": kinds, "exhaustive": tier == "thorough", "failures": len(bad),
        "samples": [text.show_tree(cases[len(cases) // 2][0])[:300]],
    })
    rep.assumptions += ["trees with an unset oneof member or an empty AND/OR are outside the property's quantifier"]

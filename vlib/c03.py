"""C03 — result caches are transparent and evaluation is side-effect free: histories of
queries on one open index with a (recording) cache of some capacity; every result must equal
what a fresh uncached handle returns and what the model (= uncached execute, proved equal to
the cached evaluation for every cache obeying the contract) returns; bitmaps that passed
through the cache must never change."""
import itertools, json, os, random
from . import core, dp

PID = "C03"
CAPS = [-2, -1, 0, 71, 72, 73, 150, 400, 2000, 1 << 22]


def pool_for(rng, ds):
    """Expressions over 3-5 leaves with shared sub-expressions, permuted / duplicated
    operands, re-associations and NOT pairs."""
    leaves = dp.leaves_for(rng, ds, absent=True)
    rng.shuffle(leaves)
    lv = leaves[:rng.randrange(3, 6)] or leaves
    pool = list(lv)
    x, y, z = (lv + lv + lv)[:3]
    N = lambda e: ("N", e)
    A = lambda *es: ("A", list(es))
    O = lambda *es: ("O", list(es))
    directed = [
        A(O(x, z), O(y, z)), A(N(x), N(y)),            # same multiset of leaf keys under xor
        A(x, x), A(y, y), O(x, x), O(y, y), A(x), O(x), N(N(x)), x,
        A(x, y), A(y, x), O(x, y), O(y, x), A(x, y, z), A(A(x, y), z), A(x, A(y, z)), O(O(x, y), z), O(x, O(y, z)),
        A(x, y, x), O(x, y, y), N(A(x, y)), A(N(x), N(y)), N(O(x, y)), O(N(x), N(y)),
        A(O(x, y), z), O(A(x, y), z), A(O(x, y), O(x, z)), O(A(x, y), A(x, z)),
        N(A(N(x), N(y))), O(x, N(x)), A(x, N(x)),
    ]
    # an operand that cannot be evaluated (unknown column): the error must come back every time,
    # also when the node is asked again or sits inside a later query
    u = dp.e_eq(b"nosuchcol", b"1")
    directed += [O(x, u), O(x, u), A(x, u), A(x, u), N(O(x, u)), O(u, x), A(y, O(x, u)), O(x, u)]
    pool += directed
    for _ in range(12):
        pool.append(dp.rand_expr(rng, lv, rng.randrange(1, 4), max_arity=3))
    return pool


def leaves_first(ds):
    vals = ds.values()
    if not vals:
        return dp.e_eq(b"a", b"1")
    c = sorted(vals)[0]
    return dp.e_eq(c, sorted(vals[c])[0])


def mutate_tree(rng, e, pool):
    """A second tree obtained from e by a small change (leaf replaced, operand appended or
    dropped, or nothing): what a caller does to a query object it reuses."""
    leaves = [x for x in pool if x[0] == "E"]
    k = rng.random()
    if e[0] == "E":
        return rng.choice(leaves) if leaves else e
    if e[0] == "N":
        return ("N", mutate_tree(rng, e[1], pool))
    kids = list(e[1])
    if k < 0.35 and kids:
        i = rng.randrange(len(kids))
        kids[i] = mutate_tree(rng, kids[i], pool)
    elif k < 0.65:
        kids.append(rng.choice(pool))
    elif k < 0.8 and len(kids) > 1:
        kids.pop()
    return (e[0], kids)


def gen(rng, tier):
    lines, hists = [], []
    nds = 14 if tier == "quick" else 400
    for i in range(nds):
        if i % 4 == 3:
            ds = dp.shaped_dataset(rng, "h%d" % i, rng.choice([300, 1001, 3000]))
        else:
            ds = dp.small_dataset(rng, "h%d" % i, hostile=(i % 2 == 0))
            if i == 0:   # the design-phase witness: abc = 100, 010, 001, 000
                ds = dp.Dataset("h0", [{b"a": b"1", b"b": b"0", b"c": b"0"}, {b"a": b"0", b"b": b"1", b"c": b"0"},
                                       {b"a": b"0", b"b": b"0", b"c": b"1"}, {b"a": b"0", b"b": b"0", b"c": b"0"}], "witness")
        if any(0 in c for r in ds.rows for c in r):
            continue
        lines += ds.lines()
        cols = sorted(ds.values())
        for hn in range(8 if tier == "quick" else 12):
            pool = pool_for(rng, ds)
            if i == 0 and hn == 0:
                a1, b1, c1 = dp.e_eq(b"a", b"1"), dp.e_eq(b"b", b"1"), dp.e_eq(b"c", b"1")
                seq = [("A", [("O", [a1, c1]), ("O", [b1, c1])]), ("A", [("N", a1), ("N", b1)])]
            elif hn == 1:
                a0 = leaves_first(ds)
                u = dp.e_eq(b"nosuchcol", b"1")
                seq = [("O", [a0, u]), ("O", [a0, u]), ("N", ("O", [a0, u])), ("A", [a0, u]), ("A", [a0, u]), ("A", [a0, ("O", [a0, u])]), a0]
            else:
                seq = [rng.choice(pool) for _ in range(rng.randrange(2, 41))]
            w, m, cap = rng.choice(dp.WRITERS), rng.choice(dp.MODES), rng.choice(CAPS)
            if i == 0 and hn == 0:
                cap = 1 << 22
            hid = "%s.t%d" % (ds.did, hn)
            lines.append("HIST %s %s %s %s %d %d" % (hid, ds.did, w, m, cap, len(seq)))
            qs = []
            for j, e in enumerate(seq):
                gb = [rng.choice(cols)] if cols and rng.random() < 0.15 else []
                q = dp.Query("%s.%d" % (hid, j), ds, w, m, e, gb, 0)
                lines.append("HQ " + q.line().split(" ", 1)[1].replace(" 0 ", " ", 1) if False else
                             "HQ %s %s %s %s %s GB %d%s" % (q.qid, ds.did, w, m, dp.enc_expr(e), len(gb), "".join(" " + core.enc_str(c) for c in gb)))
                qs.append(q)
            # a query object reused and modified in place between executions
            for rn in range(2):
                e1 = rng.choice(pool)
                e2 = mutate_tree(rng, e1, pool)
                rq = "%s.r%d" % (hid, rn)
                lines.append("HREUSE %s %s %s %s %s THEN %s GB 0" % (rq, ds.did, w, m, dp.enc_expr(e1), dp.enc_expr(e2)))
                qs.append(dp.Query(rq + ".a", ds, w, m, e1, [], 0))
                qs.append(dp.Query(rq + ".b", ds, w, m, e2, [], 0))
            lines.append("ENDHIST")
            hists.append((hid, ds, w, m, cap, qs))
        lines.append("DROP " + ds.did)
    # values and column names that agree on a long prefix (URLs, paths): a cache key built from
    # a bounded part of the operands would confuse them
    for pl in (30, 61, 62, 63, 64, 127, 128, 255, 256, 1000):
        P = (b"http://example.org/a/rather/long/path/with/many/segments/" * 20)[:pl]
        cl1, cl2 = P.replace(b"/", b"_").replace(b":", b"_").replace(b".", b"_") + b"a", P.replace(b"/", b"_").replace(b":", b"_").replace(b".", b"_") + b"b"
        rows = [{b"u": P + b"1", cl1: b"1", b"k": b"x"}, {b"u": P + b"2", cl2: b"1", b"k": b"x"}, {b"u": P + b"2", cl1: b"1", cl2: b"1"},
                {b"u": P + b"1" + P, b"k": b"y"}, {b"u": P, cl1: b"2"}, {b"u": P + b"3", b"k": b"x"}, {b"u": P + b"3"}]
        ds = dp.Dataset("hl%d" % pl, rows, "long-common-prefix")
        lines += ds.lines()
        u = [dp.e_eq(b"u", P + b"1"), dp.e_eq(b"u", P + b"2"), dp.e_eq(b"u", P + b"3"), dp.e_eq(b"u", P), dp.e_eq(b"u", P + b"1" + P), dp.e_eq(b"u", P + b"4")]
        c = [dp.e_eq(cl1, b"1"), dp.e_eq(cl2, b"1"), dp.e_eq(cl1, b"2")]
        k = dp.e_eq(b"k", b"x")
        seq = u + c + [("N", x) for x in u[:3]] + [("A", [x, k]) for x in u[:3]] + [("O", [x, k]) for x in u[:3]] + [("A", [x, k]) for x in c] + [("O", [u[0], u[1]]), ("O", [u[1], u[0]]), ("A", [c[0], c[1]]), ("A", [c[1], c[0]])]
        for hn, (w, m) in enumerate([("mem", "ondemand"), ("big", "preload")][:1 if tier == "quick" and pl not in (62, 64) else 2]):
            hid = "%s.t%d" % (ds.did, hn)
            lines.append("HIST %s %s %s %s %d %d" % (hid, ds.did, w, m, 1 << 22, len(seq)))
            qs = []
            for j, e in enumerate(seq):
                q = dp.Query("%s.%d" % (hid, j), ds, w, m, e, [], 0)
                lines.append("HQ %s %s %s %s %s GB 0" % (q.qid, ds.did, w, m, dp.enc_expr(e)))
                qs.append(q)
            lines.append("ENDHIST")
            hists.append((hid, ds, w, m, 1 << 22, qs))
        lines.append("DROP " + ds.did)
    # column names and values that contain the printed forms of other expressions (String() of
    # the library, the query language, separators): a key derived from a rendering that does not
    # delimit its parts would confuse a one-operand node over such a column with a two-operand
    # node over ordinary columns
    weird = [b'a "x") (EQUAL b', b'a = "x" & b', b"a\x01x\x01b", b"a=x,b", b"(EQUAL a", b'a" "x']
    rows = [{b"a": b"x", b"b": b"y"}, {b"a": b"x", b"b": b"z"}, {b"a": b"w", b"b": b"y"}, {b"a": b"x"}, {b"b": b"y"}]
    for i, wcol in enumerate(weird):
        rows += [{wcol: b"y"}] * (i + 2) + [{wcol: b"y", b"a": b"x"}]
    rows += [{b"a": b'x") (EQUAL b "y', b"b": b"q"}, {b"a": b'x" & b = "y', b"b": b"q"}]
    ds = dp.Dataset("hq", rows, "names-that-look-like-expressions")
    lines += ds.lines()
    ax, by = dp.e_eq(b"a", b"x"), dp.e_eq(b"b", b"y")
    seq = []
    for wcol in weird:
        wy = dp.e_eq(wcol, b"y")
        seq += [("A", [ax, by]), ("A", [wy]), ("O", [ax, by]), ("O", [wy]), ("N", ("A", [ax, by])), ("N", ("A", [wy])), wy, ("N", wy)]
    seq += [dp.e_eq(b"a", b'x") (EQUAL b "y'), ("A", [ax, by]), dp.e_eq(b"a", b'x" & b = "y'), ("A", [dp.e_eq(b"a", b'x") (EQUAL b "y')]), ("A", [ax, by])]
    for hn, (w, m, order) in enumerate([("mem", "ondemand", 1), ("big", "preload", -1)]):
        sq = seq[::order]
        hid = "hq.t%d" % hn
        lines.append("HIST %s hq %s %s %d %d" % (hid, w, m, 1 << 22, len(sq)))
        qs = []
        for j, e in enumerate(sq):
            q = dp.Query("%s.%d" % (hid, j), ds, w, m, e, [], 0)
            lines.append("HQ %s hq %s %s %s GB 0" % (q.qid, w, m, dp.enc_expr(e)))
            qs.append(q)
        lines.append("ENDHIST")
        hists.append((hid, ds, w, m, 1 << 22, qs))
    lines.append("DROP hq")
    # group-by lists that coincide once their names are glued together: (a, b) / ("a,b") / () / ("")
    # on ONE open handle, in both orders (anything the index memoises per group-by list)
    seps = [b",", b";", b" ", b"|", b"/", b"\x1f", b""]
    rows = [{b"a": b"1", b"b": b"x"}, {b"a": b"1", b"b": b"y"}, {b"a": b"2", b"b": b"x"}, {b"a": b"2"}, {b"b": b"y"}, {b"ab": b"q", b"a": b"1"}]
    for sp in seps[:-1]:
        rows.append({b"a" + sp + b"b": b"glued", b"a": b"2", b"b": b"y"})
    ds = dp.Dataset("hg", rows, "glued-group-by-names")
    lines += ds.lines()
    any_e = ("O", [dp.e_eq(b"a", b"1"), dp.e_eq(b"a", b"2"), dp.e_eq(b"b", b"y")])
    gbs = [[b"a", b"b"]] + [[b"a" + sp + b"b"] for sp in seps] + [[], [b""], [b"a", b"b"], [b"b", b"a"], [b"a"], [b"a", b""], [b"", b"a"], [b"a", b"b"]]
    for hn, (w, m, cap, order) in enumerate([("mem", "ondemand", -2, 1), ("big", "preload", 1 << 22, -1), ("mem", "preload", 0, 1)]):
        sq = gbs[::order]
        hid = "hg.t%d" % hn
        lines.append("HIST %s hg %s %s %d %d" % (hid, w, m, cap, len(sq)))
        qs = []
        for j, gb in enumerate(sq):
            q = dp.Query("%s.%d" % (hid, j), ds, w, m, any_e, gb, 0)
            lines.append("HQ %s hg %s %s %s GB %d%s" % (q.qid, w, m, dp.enc_expr(any_e), len(gb), "".join(" " + core.enc_str(c) for c in gb)))
            qs.append(q)
        lines.append("ENDHIST")
        hists.append((hid, ds, w, m, cap, qs))
    lines.append("DROP hg")
    # more operands than any one byte of an operand key can tell apart: 700 AND / OR nodes that
    # differ only in their first operand (pigeonhole against keys built from part of the
    # operand keys)
    rows = [({b"c": b"v%d" % i, b"d": b"z"} if i % 3 == 0 else {b"c": b"v%d" % i}) for i in range(700)]
    ds = dp.Dataset("hp", rows, "pigeonhole")
    lines += ds.lines()
    dz = dp.e_eq(b"d", b"z")
    seq = [("A", [dp.e_eq(b"c", b"v%d" % i), dz]) for i in range(700)] + [("O", [dp.e_eq(b"c", b"v%d" % i), dp.e_eq(b"c", b"v%d" % (i + 1)), dz]) for i in range(0, 698, 7)]
    hid = "hp.t0"
    lines.append("HIST %s hp mem preload %d %d" % (hid, 1 << 24, len(seq)))
    qs = []
    for j, e in enumerate(seq):
        q = dp.Query("%s.%d" % (hid, j), ds, "mem", "preload", e, [], 0)
        lines.append("HQ %s hp mem preload %s GB 0" % (q.qid, dp.enc_expr(e)))
        qs.append(q)
    lines.append("ENDHIST")
    hists.append((hid, ds, "mem", "preload", 1 << 24, qs))
    lines.append("DROP hp")
    lines.append("KEYFEED kf1")
    return lines, hists


def run_lines(scratch, lines, tag):
    impl, model, spec, rc, err = dp.run_dp(scratch, lines, tag)
    return impl, model, rc, err


def check_hist(h, impl, model):
    """First failure of a history: (index, kind, impl, fresh, model) or None."""
    hid, ds, w, m, cap, qs = h
    for j, q in enumerate(qs):
        a, f, b = impl.get(("HQ", q.qid)), impl.get(("HF", q.qid)), model.get(("HQ", q.qid))
        if a != b or (f is not None and f != b):
            return (j, "result", a, f, b)
    mut = impl.get(("HMUT", hid), "")
    if mut.startswith("MUTATED"):
        return (len(qs), "mutation", mut, None, "OK")
    post = impl.get(("HPOST", hid), "OK")
    if post.startswith("DIFF"):
        return (len(qs), "stored-value", post, None, "OK")
    return None


def hist_lines(h, qs=None):
    hid, ds, w, m, cap, all_qs = h
    qs = all_qs if qs is None else qs
    res = ds.lines() + ["HIST %s %s %s %s %d %d" % (hid, ds.did, w, m, cap, len(qs))]
    i = 0
    while i < len(qs):
        q = qs[i]
        if q.qid.endswith(".a") and i + 1 < len(qs) and qs[i + 1].qid == q.qid[:-2] + ".b":
            # a reused-and-modified query object: both executions stay together
            res.append("HREUSE %s %s %s %s %s THEN %s GB 0" % (q.qid[:-2], ds.did, w, m, dp.enc_expr(q.expr), dp.enc_expr(qs[i + 1].expr)))
            i += 2
            continue
        res.append("HQ %s %s %s %s %s GB %d%s" % (q.qid, ds.did, w, m, dp.enc_expr(q.expr), len(q.gb), "".join(" " + core.enc_str(c) for c in q.gb)))
        i += 1
    return res + ["ENDHIST"]


def run(rep, scratch, tier, seed, replay=None):
    rng = random.Random(seed)
    if replay:
        ds = dp.Dataset.from_json("r0", replay["dataset"])
        qs = [dp.Query("r0.t0.%d" % j, ds, replay["writer"], replay["mode"], dp.expr_unjson(q["expr"]), [bytes.fromhex(c) for c in q["group_by"]], 0)
              for j, q in enumerate(replay["history"])]
        hists = [("r0.t0", ds, replay["writer"], replay["mode"], replay["capacity"], qs)]
        lines = hist_lines(hists[0])
    else:
        lines, hists = gen(rng, tier)
        for f in sorted(os.listdir(os.path.join(core.VERIF, "corpus", PID))) if os.path.isdir(os.path.join(core.VERIF, "corpus", PID)) else []:
            j = json.load(open(os.path.join(core.VERIF, "corpus", PID, f)))
            if "history" not in j:
                continue
            ds = dp.Dataset.from_json("k" + f.split("-")[0], j["dataset"])
            qs = [dp.Query("%s.t0.%d" % (ds.did, n), ds, j["writer"], j["mode"], dp.expr_unjson(q["expr"]), [bytes.fromhex(c) for c in q["group_by"]], 0)
                  for n, q in enumerate(j["history"])]
            h = ("%s.t0" % ds.did, ds, j["writer"], j["mode"], j["capacity"], qs)
            hists.insert(0, h)
            lines = hist_lines(h) + ["DROP " + ds.did] + lines
    impl, model, rc, err = run_lines(scratch, lines, "c03")
    if rc != 0:
        raise core.FrameworkError("harness exited with %d: %s" % (rc, err[-2000:]))
    kf = impl.get(("KEYFEED", "kf1"))
    if kf is not None and not kf.startswith("OK"):
        rep.violation("monitor:cache-transparency", "the cache keys the library produced, fed back to it as column names and values (every key, with and without each node tag, big- and little-endian, split at the first NUL): on that index a cached handle answers differently from an uncached one: %s" % kf[:300],
                      {"how": "harness/keyfeed.go (deterministic): ./check C03", "harness_line": kf})
    rep.coverage["key_feedback"] = kf
    nq = hits = 0
    caps = {}
    failing = []
    for h in hists:
        nq += len(h[5])
        caps[str(h[4])] = caps.get(str(h[4]), 0) + 1
        mut = impl.get(("HMUT", h[0]), "").split()
        if len(mut) >= 3 and mut[0] == "OK":
            hits += int(mut[2])
        f = check_hist(h, impl, model)
        if f:
            failing.append((h, f))
    seen = set()
    for h, f in failing:
        if f[1] in seen:
            continue
        seen.add(f[1])
        hid, ds, w, m, cap, qs = h
        # shrink the history (keep order), then the rows
        def fails(sub):
            hh = (hid, ds, w, m, cap, sub)
            i2, m2, _, _ = run_lines(scratch, hist_lines(hh), "c03s")
            return check_hist(hh, i2, m2) is not None
        sub = core.ddmin(qs[:f[0] + 1] if f[0] < len(qs) else qs, fails, budget=60)
        hh = (hid, ds, w, m, cap, sub)
        if len(ds.rows) <= 400:
            def fails_rows(rows):
                d2 = dp.Dataset(ds.did, rows, ds.kind)
                h2 = (hid, d2, w, m, cap, [dp.Query(q.qid, d2, w, m, q.expr, q.gb, 0) for q in sub])
                i2, m2, _, _ = run_lines(scratch, hist_lines(h2), "c03s")
                return check_hist(h2, i2, m2) is not None
            rows = core.ddmin(ds.rows, fails_rows, budget=60)
            ds = dp.Dataset(ds.did, rows, ds.kind)
            hh = (hid, ds, w, m, cap, [dp.Query(q.qid, ds, w, m, q.expr, q.gb, 0) for q in sub])
        i2, m2, _, _ = run_lines(scratch, hist_lines(hh), "c03s")
        f2 = check_hist(hh, i2, m2) or f
        rep.violation("correspondence:" + f2[1],
                      "cache capacity %d, %s/%s, history of %d queries: query #%d %s -> cached handle %s, fresh uncached handle %s, model %s" % (
                          cap, w, m, len(hh[5]), f2[0] + 1, dp.show_expr(hh[5][min(f2[0], len(hh[5]) - 1)].expr), str(f2[2])[:200], str(f2[3])[:200], str(f2[4])[:200]),
                      {"dataset": ds.to_json(), "writer": w, "mode": m, "capacity": cap,
                       "history": [{"expr": dp.expr_json(q.expr), "expr_text": dp.show_expr(q.expr), "group_by": [c.hex() for c in q.gb]} for q in hh[5]],
                       "failure": {"index": f2[0], "kind": f2[1], "impl": f2[2], "fresh": f2[3], "model": f2[4]},
                       "how": "capacity -2: no cache option; -1: a cache that never stores; >=0: NewLRUCache(capacity) behind a recording wrapper"})
    rep.coverage.update({
        "evaluations": nq, "distinct_nontrivial": hits,
        "rule": "histories of 2..40 queries drawn from a pool over 3-5 leaves (shared sub-expressions, permuted/duplicated operands, re-associations, NOT pairs, xor-colliding shapes) on one handle; capacities %s (-2 no cache option, -1 never stores); on-demand and preloaded; all three writers. Each result compared with a fresh uncached handle and with the model; bitmaps seen by the cache re-serialised at every later sight and at the end; every stored (column,value) re-probed after the history. Non-trivial = cache hits observed." % CAPS,
        "histories": len(hists), "by_capacity": caps, "cache_hits_observed": hits, "failures": len(failing),
        "samples": [{"capacity": hists[0][4], "queries": [dp.show_expr(q.expr) for q in hists[0][5][:4]]}] if hists else [],
    })
    rep.assumptions += ["64-bit collisions of the cache-key hash are assumed away (injective hash in the model)",
                        "roaring's operators are trusted to be set operations; the recording cache detects in-place mutation by re-serialisation"]

"""Shared machinery of the /verif checks: build of the Coq development and the extracted
model driver, scratch copies of /repo with the Go harness, running both sides, delta
debugging, replays, known findings and evidence files."""
import atexit, fcntl, hashlib, json, os, random, re, shutil, subprocess, sys, tempfile, time

VERIF = os.path.dirname(os.path.dirname(os.path.abspath(__file__)))
REPO = os.environ.get("VERIF_REPO", "/repo")
COQ = os.path.join(VERIF, "coq")
MODELDRV = os.path.join(VERIF, "modeldrv", "modeldrv")
GOENV = dict(os.environ, GOFLAGS="-mod=mod", GOPROXY="off", GOSUMDB="off", GOTOOLCHAIN="local",
             CGO_ENABLED=os.environ.get("CGO_ENABLED", "1"))
SCRATCH_ROOT = os.environ.get("VERIF_SCRATCH", "/var/tmp")
# where evidence/ and replays/ are written (overridden when a seeded change is evaluated, so that
# the committed evidence of the unchanged tree is not overwritten)
OUT = os.environ.get("VERIF_OUT", VERIF)

FORBIDDEN = r"Admitted|admit\b|\bAxiom\b|\bParameter\b|\bConjecture\b|Unset Guard|bypass_check|Admit Obligations|-type-in-type|impredicative-set"


class FrameworkError(Exception):
    """Something in /verif itself (or the harness build) failed: not evidence either way."""


def log(msg):
    print(msg, flush=True)


def sh(cmd, cwd=None, env=None, timeout=None, check=True, stdin=None):
    p = subprocess.run(cmd, cwd=cwd, env=env, timeout=timeout, input=stdin,
                       stdout=subprocess.PIPE, stderr=subprocess.PIPE, text=True, errors="replace")
    if check and p.returncode != 0:
        raise FrameworkError("command failed (%d): %s\n%s\n%s" % (p.returncode, " ".join(cmd), p.stdout[-4000:], p.stderr[-4000:]))
    return p


# --------------------------------------------------------------------------- Coq side

def v_files():
    res = []
    for root, _, files in os.walk(os.path.join(COQ, "theories")):
        for f in sorted(files):
            if f.endswith(".v"):
                res.append(os.path.join(root, f))
    return sorted(res)


def audit_sources():
    """The development may contain no admitted proof, declared axiom or disabled check."""
    bad = []
    pat = re.compile(FORBIDDEN)
    for f in v_files() + [os.path.join(VERIF, "modeldrv", "Extract.v")]:
        for i, line in enumerate(open(f, encoding="utf-8"), 1):
            if pat.search(line):
                bad.append("%s:%d: %s" % (f, i, line.strip()))
    return bad


def ensure_built(regen=None):
    """(Re)build the Coq development and the extracted driver under a lock.  [regen] is an
    optional callback run under the lock before make (generated .v files)."""
    lock = open(os.path.join(VERIF, ".build.lock"), "w")
    fcntl.flock(lock, fcntl.LOCK_EX)
    try:
        if regen:
            regen()
        if not os.path.exists(os.path.join(COQ, "Makefile")):
            sh(["coq_makefile", "-f", "_CoqProject", "-o", "Makefile"], cwd=COQ, timeout=120)
        p = sh(["make", "-j16"], cwd=COQ, timeout=3000, check=False)
        if p.returncode != 0:
            return False, (p.stdout + p.stderr)[-6000:]
        srcs = v_files() + [os.path.join(VERIF, "modeldrv", f) for f in ("Extract.v", "driver.ml", "build.sh")]
        newest = max(os.path.getmtime(f) for f in srcs)
        if not os.path.exists(MODELDRV) or os.path.getmtime(MODELDRV) < newest:
            sh([os.path.join(VERIF, "modeldrv", "build.sh")], timeout=1200)
        return True, ""
    finally:
        fcntl.flock(lock, fcntl.LOCK_UN)
        lock.close()


def check_props_file(pid):
    """Re-check Props/<pid>.v with coqc and collect the theorem names and what
    [Print Assumptions] reports for each."""
    path = os.path.join(COQ, "theories", "Props", pid + ".v")
    src = open(path, encoding="utf-8").read()
    theorems = re.findall(r"^\s*Theorem\s+(C\d\d\w*)", src, re.M)
    examples = re.findall(r"^\s*Example\s+(\w+)", src, re.M)
    t0 = time.time()
    lock = open(os.path.join(VERIF, ".build.lock"), "w")
    fcntl.flock(lock, fcntl.LOCK_EX)
    try:
        p = sh(["coqc", "-Q", "theories", "updog", "-w", "-notation-overridden,-deprecated-hint-without-locality,-deprecated-instance-without-locality", path], cwd=COQ, timeout=1200, check=False)
    finally:
        fcntl.flock(lock, fcntl.LOCK_UN)
        lock.close()
    ok = p.returncode == 0
    text = p.stdout
    closed = text.count("Closed under the global context")
    axioms = []
    m = re.findall(r"Axioms:\n((?:.+\n)+)", text)
    for blk in m:
        for l in blk.splitlines():
            l = l.strip()
            if l and not l.startswith(":") and ":" in l:
                axioms.append(l.split(":")[0].strip())
    return {"ok": ok, "theorems": theorems, "examples": examples, "closed": closed,
            "axioms": sorted(set(axioms)), "stderr": (p.stdout + p.stderr)[-3000:] if not ok else "",
            "wall_s": round(time.time() - t0, 2)}


# --------------------------------------------------------------------------- Go side

class Scratch:
    """A scratch copy of /repo's current working tree with the harness inside it."""

    def __init__(self, race=False, tags="verif"):
        self.dir = tempfile.mkdtemp(prefix="updog-verif.", dir=SCRATCH_ROOT)
        atexit.register(self.cleanup)
        self.repo = os.path.join(self.dir, "repo")
        sh(["rsync", "-a", "--exclude", ".git", REPO + "/", self.repo + "/"], timeout=300)
        hz = os.path.join(self.repo, "zzverif")
        os.makedirs(hz, exist_ok=True)
        for f in os.listdir(os.path.join(VERIF, "harness")):
            if f.endswith(".go"):
                shutil.copy(os.path.join(VERIF, "harness", f), hz)
        self.tags = tags
        self.bin = {}
        self.build_error = None

    def harness(self, race=False):
        key = "race" if race else "plain"
        if key not in self.bin:
            out = os.path.join(self.dir, "zzverif-" + key)
            cmd = ["go", "build", "-tags", self.tags]
            if race:
                cmd.append("-race")
            cmd += ["-o", out, "./zzverif"]
            p = sh(cmd, cwd=self.repo, env=GOENV, timeout=1200, check=False)
            if p.returncode != 0:
                raise FrameworkError("harness does not build against the working tree:\n" + (p.stdout + p.stderr)[-4000:])
            self.bin[key] = out
        return self.bin[key]

    def updog_binary(self, race=False):
        key = "updog-race" if race else "updog"
        if key not in self.bin:
            out = os.path.join(self.dir, key)
            cmd = ["go", "build", "-tags", self.tags]
            if race:
                cmd.append("-race")
            cmd += ["-o", out, "./cmd/updog"]
            p = sh(cmd, cwd=self.repo, env=GOENV, timeout=1200, check=False)
            if p.returncode != 0:
                raise FrameworkError("updog binary does not build:\n" + (p.stdout + p.stderr)[-4000:])
            self.bin[key] = out
        return self.bin[key]

    def path(self, name):
        return os.path.join(self.dir, name)

    def cleanup(self):
        shutil.rmtree(self.dir, ignore_errors=True)


def run_impl(scratch, command, casefile, extra=(), race=False, timeout=1800, env=None):
    """Run the harness; returns (lines, returncode, stderr).  A crash of the harness process
    itself (panic that escaped, fatal error) is reported to the caller, not raised."""
    e = dict(GOENV)
    if env:
        e.update(env)
    try:
        p = subprocess.run([scratch.harness(race), command, casefile] + list(extra), cwd=scratch.dir, env=e,
                           timeout=timeout, stdout=subprocess.PIPE, stderr=subprocess.PIPE)
        rc, outb, errb = p.returncode, p.stdout, p.stderr
    except subprocess.TimeoutExpired as ex:
        rc, outb, errb = -999, ex.stdout or b"", (ex.stderr or b"") + b"\nTIMEOUT"
    return outb.decode("utf-8", "replace").splitlines(), rc, errb.decode("utf-8", "replace")


def run_model(prop, casefile, timeout=1800):
    p = subprocess.run(["/bin/sh", "-c", "ulimit -s unlimited 2>/dev/null; exec \"$0\" \"$@\"", MODELDRV, prop, casefile],
                       stdout=subprocess.PIPE, stderr=subprocess.PIPE, timeout=timeout)
    if p.returncode != 0:
        raise FrameworkError("model driver failed on %s: %s" % (casefile, p.stderr.decode("utf-8", "replace")[-2000:]))
    return p.stdout.decode("utf-8", "replace").splitlines()


def split_cases(lines, marker="CASE"):
    """Split output lines into {case id: [lines]} (lines before the first marker under '')."""
    res, cur = {"": []}, ""
    for l in lines:
        if l.startswith(marker + " "):
            cur = l.split()[1]
            res[cur] = []
        else:
            res[cur].append(l)
    return res


# --------------------------------------------------------------------------- strings

def enc_str(b):
    """bytes -> '<len> b1 ... blen'"""
    if isinstance(b, str):
        b = b.encode("utf-8")
    return " ".join([str(len(b))] + [str(x) for x in b])


def show_bytes(b):
    try:
        s = b.decode("utf-8")
        if s.isprintable():
            return s
    except Exception:
        pass
    return "hex:" + b.hex()


# --------------------------------------------------------------------------- ddmin

def ddmin(items, fails, budget=200):
    """Classic delta debugging: a small sublist of [items] on which [fails] still holds."""
    items = list(items)
    n = 2
    calls = 0
    while len(items) >= 2 and calls < budget:
        chunk = max(1, len(items) // n)
        subsets = [items[i:i + chunk] for i in range(0, len(items), chunk)]
        reduced = False
        for i in range(len(subsets)):
            cand = [x for j, s in enumerate(subsets) if j != i for x in s]
            calls += 1
            if cand != items and fails(cand):
                items = cand
                n = max(n - 1, 2)
                reduced = True
                break
            if calls >= budget:
                break
        if not reduced:
            if chunk == 1:
                break
            n = min(len(items), n * 2)
    return items


# --------------------------------------------------------------------------- findings / evidence

def load_known_findings():
    path = os.path.join(VERIF, "known_findings.json")
    if not os.path.exists(path):
        return []
    return json.load(open(path))["findings"]


class Report:
    def __init__(self, pid, tier, seed):
        self.pid, self.tier, self.seed = pid, tier, seed
        self.t0 = time.time()
        self.violations = []      # (replay path, summary)
        self.known = []           # summaries of known findings reproduced
        self.coverage = {}
        self.assumptions = []
        self.nrep = 0
        self.known_entries = [f for f in load_known_findings() if f.get("property") == pid and f.get("status") == "known"]

    def replay_path(self):
        d = os.path.join(OUT, "replays")
        os.makedirs(d, exist_ok=True)
        self.nrep += 1
        return os.path.join(d, "%s-seed%d-%d.json" % (self.pid, self.seed, self.nrep))

    def violation(self, kind, summary, replay, finding_class=None, no_input=False):
        """Record a violation.  [finding_class] is the input class of the failing case; when
        the committed known-findings file lists it the violation is printed as KNOWN-FINDING."""
        for f in self.known_entries:
            if finding_class is not None and f.get("match", {}).get("class") == finding_class:
                msg = "KNOWN-FINDING: property=%s %s" % (self.pid, f.get("what", finding_class))
                if msg not in self.known:
                    self.known.append(msg)
                    log(msg)
                return False
        path = self.replay_path()
        doc = {"property": self.pid, "kind": kind, "summary": summary, "seed": self.seed, "tier": self.tier,
               "replay_cmd": "./check %s --replay %s" % (self.pid, path)}
        doc.update(replay)
        with open(path, "w") as fh:
            json.dump(doc, fh, indent=1, default=repr)
        self.violations.append((path, summary, no_input))
        return True

    def finish(self, level="proof"):
        wall = round(time.time() - self.t0, 2)
        ev = {"property_id": self.pid, "tier": self.tier, "seed": self.seed, "level": level,
              "coverage": self.coverage, "assumptions": self.assumptions, "wall_s": wall,
              "violations": len(self.violations), "known_findings_reproduced": self.known}
        os.makedirs(os.path.join(OUT, "evidence"), exist_ok=True)
        with open(os.path.join(OUT, "evidence", self.pid + ".json"), "w") as fh:
            json.dump(ev, fh, indent=1, default=repr)
        for path, summary, no_input in self.violations:
            log("  violation: " + summary)
        seen = set()
        for path, summary, no_input in self.violations[:20]:
            log("VIOLATION property=%s replay=%s%s" % (self.pid, path, " no-failing-input-found" if no_input else ""))
        log("%s %s tier=%s seed=%d wall=%.1fs violations=%d known=%d" % (
            "FAIL" if self.violations else "PASS", self.pid, self.tier, self.seed, wall, len(self.violations), len(self.known)))
        return 1 if self.violations else 0


TRUSTED_BASE = [
    "Coq 8.16.1 kernel (coqc); vm_compute used for closed examples and finite sweeps; native_compute not used",
    "std++ 1.8.0 and the Coq standard library (no axioms reported by Print Assumptions unless listed in 'axioms')",
    "extraction to OCaml 4.13.1 with ExtrOcamlBasic only (Extract Inductive bool/option/unit/list/prod/sumbool/sumor; no Extract Constant)",
    "hand-written OCaml driver (parsing/printing), Go harness and Python comparator of /verif",
]


def coqchk_all():
    """Thorough tier: re-check every compiled Props file and everything it depends on with the
    independent checker coqchk, print the context summary (axioms).  Cached by the hash of all
    sources, shared between properties."""
    h = hashlib.sha256()
    for f in v_files():
        h.update(open(f, "rb").read())
    cache = os.path.join(COQ, ".coqchk-%s.log" % h.hexdigest()[:16])
    lock = open(os.path.join(VERIF, ".build.lock"), "w")
    fcntl.flock(lock, fcntl.LOCK_EX)
    try:
        if not os.path.exists(cache):
            mods = ["updog.Props." + os.path.basename(f)[:-2] for f in v_files() if os.sep + "Props" + os.sep in f]
            t0 = time.time()
            p = sh(["coqchk", "-silent", "-o", "-Q", "theories", "updog"] + mods, cwd=COQ, timeout=6000, check=False)
            with open(cache, "w") as fh:
                fh.write(p.stdout + p.stderr + "\nrc=%d wall=%.0fs\n" % (p.returncode, time.time() - t0))
        out = open(cache).read()
    finally:
        fcntl.flock(lock, fcntl.LOCK_UN)
        lock.close()
    m = re.search(r"\* Axioms:(.*?)\n\s*\n\* ", out, re.S)
    axioms = (m.group(1).strip() if m else "?")
    return {"ok": "rc=0" in out, "axioms": axioms, "summary": out[out.find("CONTEXT SUMMARY"):][:1200] if "CONTEXT SUMMARY" in out else out[-800:]}


def proof_coverage(rep, pid, extra_obligations=0, extra_discharged=0):
    """Audit + re-check of Props/<pid>.v; fills the proof-level keys of the evidence."""
    bad = audit_sources()
    if bad:
        raise FrameworkError("forbidden constructs in the Coq development:\n" + "\n".join(bad))
    info = check_props_file(pid)
    n = len(info["theorems"])
    rep.coverage.update({
        "obligations": n + extra_obligations,
        "discharged": (n if info["ok"] else 0) + extra_discharged,
        "checker_cmd": "make -C /verif/coq (coq_makefile, full .vo build) + coqc -Q theories updog theories/Props/%s.v" % pid,
        "trusted_base": list(TRUSTED_BASE),
        "theorems": info["theorems"], "examples": info["examples"],
        "print_assumptions": {"closed_under_global_context": info["closed"], "axioms": info["axioms"]},
        "props_recheck_wall_s": info["wall_s"],
    })
    if not info["ok"]:
        raise FrameworkError("Props/%s.v does not check:\n%s" % (pid, info["stderr"]))
    if rep.tier == "thorough":
        chk = coqchk_all()
        rep.coverage["coqchk"] = chk
        if not chk["ok"]:
            raise FrameworkError("coqchk rejects the compiled development:\n" + chk["summary"])
    return info

"""Lock obligations: regenerate the skeletons from /repo's working tree with tools/lockskel and
re-check coq/obligations/Ob<pid>.v against them (coqc in a scratch directory)."""
import os, re, shutil, subprocess, time
from . import core


def build_translator(scratch):
    out = scratch.path("lockskel")
    if not os.path.exists(out):
        p = core.sh(["go", "build", "-o", out, "."], cwd=os.path.join(core.VERIF, "tools", "lockskel"), env=core.GOENV, timeout=600, check=False)
        if p.returncode != 0:
            raise core.FrameworkError("lockskel does not build: " + (p.stdout + p.stderr)[-2000:])
    return out


def check_obligations(scratch, pid, repo=None, dirs=None):
    """Returns dict(ok, theorems, closed, axioms, output, facts_path, unsupported)."""
    t0 = time.time()
    tr = build_translator(scratch)
    gen = scratch.path("gen-" + pid)
    os.makedirs(gen, exist_ok=True)
    facts = os.path.join(gen, "LockFacts.v")
    p = core.sh([tr] + (["-dirs=" + dirs] if dirs else []) + [repo or scratch.repo, facts], timeout=300, check=False)
    if p.returncode != 0:
        return {"ok": False, "stage": "translator", "output": (p.stdout + p.stderr)[-3000:], "theorems": [], "closed": 0, "axioms": [], "facts": facts}
    ob = "Ob%s.v" % pid
    shutil.copy(os.path.join(core.COQ, "obligations", ob), gen)
    src = open(os.path.join(gen, ob), encoding="utf-8").read()
    theorems = re.findall(r"^\s*(?:Theorem|Lemma)\s+(C\d\d\w*)", src, re.M)
    base = ["coqc", "-Q", os.path.join(core.COQ, "theories"), "updog", "-Q", gen, "Gen"]
    out = ""
    ok = True
    for f in ("LockFacts.v", ob):
        q = core.sh(base + [os.path.join(gen, f)], cwd=gen, timeout=900, check=False)
        out += q.stdout + q.stderr
        if q.returncode != 0:
            ok = False
            break
    closed = out.count("Closed under the global context")
    m = re.search(r"unknown_to_policy\s*=\s*(\[.*?\])\s*:\s*list string", out, re.S)
    unknown = re.sub(r"\s+", " ", m.group(1)) if m else ""
    return {"ok": ok, "unknown_to_policy": unknown, "stage": "coqc", "output": out[-3000:], "theorems": theorems, "closed": closed,
            "axioms": re.findall(r"^(\w+) :", out.split("Axioms:")[1], re.M) if "Axioms:" in out else [],
            "facts": facts, "wall_s": round(time.time() - t0, 2)}

"""Data-plane correspondence shared by C01, C02, C05 (and reused by others): datasets,
expressions, case files for harness/dp.go and the extracted model (driver.ml: dp)."""
import json, os, random
from . import core

WRITERS = ["mem", "memdb", "big"]
ALL_WRITERS = ["mem", "memdb", "big", "mem2"]     # mem2: one IndexWriter flushed twice (into a DB, then to the file)
MODES = ["ondemand", "preload"]

# xxhash64("a" ‖ 0x00 ‖ value) == 0 for this value (found by inverting xxhash on 16 bytes)
HASH0_VALUE = bytes.fromhex("626364656667b4afc94c7cbfa843")

HOSTILE_VALUES = [b"", b"x", b"1", b"2", b"3", b"a\x00b", b"\x00", b"\xff\xfe", b"\xc3\xa9t\xc3\xa9", b'q"uote"', b"new\nline",
                  b" ", b"L" * 300, b"\xf0\x9f\x90\xb6", b"1 ", b"=", b"\xc3", b"x,y", b"%d%s", b"-1", b"0", b";", b"\n"]
COLS = [b"a", b"b", b"c", b"d", b"e", b"f"]
ODD_COLS = [b"", b"A", b"a b", b"\xc3\xa9", b"col_1", b"\xff"]


# ----------------------------------------------------------------------------- expressions

def e_eq(c, v):
    return ("E", c, v)


def enc_expr(e):
    if e[0] == "E":
        return "E %s %s" % (core.enc_str(e[1]), core.enc_str(e[2]))
    if e[0] == "N":
        return "N " + enc_expr(e[1])
    return "%s %d %s" % (e[0], len(e[1]), " ".join(enc_expr(x) for x in e[1])) if e[1] else "%s 0" % e[0]


def show_expr(e):
    if e[0] == "E":
        return "%s=%r" % (core.show_bytes(e[1]), core.show_bytes(e[2]))
    if e[0] == "N":
        return "NOT(" + show_expr(e[1]) + ")"
    return ("AND" if e[0] == "A" else "OR") + "(" + ", ".join(show_expr(x) for x in e[1]) + ")"


def expr_depth(e):
    if e[0] == "E":
        return 0
    if e[0] == "N":
        return 1 + expr_depth(e[1])
    return 1 + max([expr_depth(x) for x in e[1]] or [0])


def expr_json(e):
    if e[0] == "E":
        return ["E", e[1].hex(), e[2].hex()]
    if e[0] == "N":
        return ["N", expr_json(e[1])]
    return [e[0], [expr_json(x) for x in e[1]]]


def expr_unjson(j):
    if j[0] == "E":
        return ("E", bytes.fromhex(j[1]), bytes.fromhex(j[2]))
    if j[0] == "N":
        return ("N", expr_unjson(j[1]))
    return (j[0], [expr_unjson(x) for x in j[1]])


def py_sat(row, e):
    if e[0] == "E":
        return row.get(e[1]) == e[2]
    if e[0] == "N":
        return not py_sat(row, e[1])
    if e[0] == "A":
        return all(py_sat(row, x) for x in e[1])
    return any(py_sat(row, x) for x in e[1])


def expr_cols(e):
    if e[0] == "E":
        return [e[1]]
    if e[0] == "N":
        return expr_cols(e[1])
    return [c for x in e[1] for c in expr_cols(x)]


def py_execute(rows, e, gb):
    """Independent oracle: the property text evaluated by a row scan (SQL semantics)."""
    cols = set(c for r in rows for c in r)
    if any(c not in cols for c in gb) or any(c not in cols for c in expr_cols(e)):
        return "ERR"
    match = [r for r in rows if py_sat(r, e)]
    groups = {}
    if gb:
        for r in match:
            if all(c in r for c in gb):
                t = tuple(r[c] for c in gb)
                groups[t] = groups.get(t, 0) + 1
    out = "OK %d %d" % (len(match), len(groups))
    for t in sorted(groups):
        out += " %d" % len(gb)
        for c, v in zip(gb, t):
            out += " " + core.enc_str(c) + " " + core.enc_str(v)
        out += " %d" % groups[t]
    return out


def rand_expr(rng, leaves, depth, max_arity=5):
    if depth <= 0 or rng.random() < 0.25:
        return rng.choice(leaves)
    k = rng.random()
    if k < 0.25:
        return ("N", rand_expr(rng, leaves, depth - 1, max_arity))
    n = rng.choice([1, 2, 2, 3, 3, 4, 5][:max_arity + 2])
    kids = [rand_expr(rng, leaves, depth - 1, max_arity) for _ in range(n)]
    if rng.random() < 0.2 and kids:
        kids.append(rng.choice(kids))          # duplicated operand
    return ("A" if k < 0.65 else "O", kids)


# ----------------------------------------------------------------------------- datasets

class Dataset:
    def __init__(self, did, rows, kind):
        self.did, self.rows, self.kind = did, rows, kind   # rows: list of dict bytes->bytes

    def lines(self):
        res = ["DATASET %s %d" % (self.did, len(self.rows))]
        for r in self.rows:
            res.append("R %d" % len(r) + "".join(" %s %s" % (core.enc_str(c), core.enc_str(v)) for c, v in r.items()))
        return res

    def values(self):
        vals = {}
        for r in self.rows:
            for c, v in r.items():
                vals.setdefault(c, set()).add(v)
        return vals

    def to_json(self):
        return {"kind": self.kind, "rows": [[[c.hex(), v.hex()] for c, v in r.items()] for r in self.rows]}

    @staticmethod
    def from_json(did, j):
        return Dataset(did, [{bytes.fromhex(c): bytes.fromhex(v) for c, v in r} for r in j["rows"]], j.get("kind", "replay"))


SEPARATORS = [b"", b"\x01", b":", b"=", b" ", b"|", b"\xff", b"\n", b"/"]


def prefix_dataset(did, sep):
    """Column names that are prefixes of each other with values that line up: column ‖ sep ‖
    value coincides for different (column,value) pairs unless the separator really separates
    (the NUL separator itself is the excluded domain of C01)."""
    rows = [{b"a": b"b" + sep + b"c"}, {b"a" + sep + b"b": b"c"}, {b"a": b"b"}, {b"a" + sep + b"b": b""}, {b"a" + sep + b"b" + sep + b"c": b""},
            {b"a": b"b" + sep + b"c", b"a" + sep + b"b": b"x"}, {}]
    if sep == b"":
        rows = [{b"a": b"bc"}, {b"ab": b"c"}, {b"a": b"b"}, {b"ab": b""}, {b"abc": b""}, {b"a": b"bc", b"ab": b"x"}, {}]
    return Dataset(did, rows, "prefix-columns")


def small_dataset(rng, did, hostile=True):
    n = rng.choice([0, 1, 2, 3, 5, 8, 13, 21, 40, 60])
    ncols = rng.randrange(1, 5)
    cols = rng.sample(COLS, ncols)
    if hostile and rng.random() < 0.3:
        cols[rng.randrange(len(cols))] = rng.choice(ODD_COLS)
    pool = {c: rng.sample(HOSTILE_VALUES if hostile and rng.random() < 0.5 else [b"1", b"2", b"3", b"4", b"5", b"x", b""], rng.randrange(1, 6)) for c in cols}
    rows = []
    for i in range(n):
        r = {}
        for c in cols:
            if rng.random() < 0.8:
                r[c] = rng.choice(pool[c])
        if rng.random() < 0.1:
            r = {}
        rows.append(r)
    for _ in range(rng.choice([0, 0, 1, 3])):
        rows.append({})                         # trailing empty rows
    return Dataset(did, rows, "small")


def shaped_dataset(rng, did, n, unique=False):
    """Boundary-size datasets with sparse / dense / run-shaped / many-valued columns."""
    rows = []
    nm = 1500 if n > 1500 else max(1, n)
    for i in range(n):
        r = {b"d": b"%d" % (i % 2), b"r": b"r%d" % (i // 500), b"m": b"m%d" % ((i * 7919) % nm)}
        if i % 97 == 0:
            r[b"s"] = b"1"
        if i % 3 != 0:
            r[b"o"] = b"o%d" % (i % 5)
        if unique:
            r[b"u"] = b"u%06d" % i
        rows.append(r)
    if n and rng.random() < 0.5:
        rows[-1] = {}
    return Dataset(did, rows, "shaped%d%s" % (n, "u" if unique else ""))


def leaves_for(rng, ds, absent=True, unknown=False):
    vals = ds.values()
    leaves = []
    for c, vs in vals.items():
        vs = sorted(vs)
        for v in (vs if len(vs) <= 6 else rng.sample(vs, 6)):
            leaves.append(e_eq(c, v))
        if absent:
            leaves.append(e_eq(c, b"zz-absent"))
    if unknown or not leaves:
        leaves.append(e_eq(b"nosuchcol", b"1"))
    return leaves


class Query:
    __slots__ = ("qid", "ds", "writer", "mode", "expr", "gb", "spec")

    def __init__(self, qid, ds, writer, mode, expr, gb, spec=1):
        self.qid, self.ds, self.writer, self.mode, self.expr, self.gb, self.spec = qid, ds, writer, mode, expr, gb, spec

    def line(self):
        return "QUERY %s %s %s %s %d %s GB %d%s" % (self.qid, self.ds.did, self.writer, self.mode, self.spec, enc_expr(self.expr),
                                                   len(self.gb), "".join(" " + core.enc_str(c) for c in self.gb))

    def to_json(self):
        return {"writer": self.writer, "mode": self.mode, "expr": expr_json(self.expr), "expr_text": show_expr(self.expr),
                "group_by": [c.hex() for c in self.gb], "group_by_text": [core.show_bytes(c) for c in self.gb]}


def spec_affordable(ds, gb, limit=20000):
    vals = ds.values()
    p = 1
    for c in gb:
        p *= max(1, len(vals.get(c, ())))
        if p > limit:
            return False
    return p * max(1, len(ds.rows)) <= 30_000_000


def run_dp(scratch, lines, tag, timeout=3000):
    """Run a case file on both sides; returns ({qid: impl line}, {qid: model line}, {qid: spec line}, rc, stderr)."""
    path = scratch.path("dp-%s.txt" % tag)
    with open(path, "w") as fh:
        fh.write("\n".join(lines) + "\n")
    ilines, rc, err = core.run_impl(scratch, "dp", path, timeout=timeout)
    mlines = core.run_model("dp", path, timeout=timeout)
    impl, model, spec = {}, {}, {}
    for l in ilines:
        f = l.split(" ", 2)
        if len(f) >= 2:
            impl[(f[0], f[1])] = f[2] if len(f) > 2 else ""
    for l in mlines:
        f = l.split(" ", 2)
        tagk = f[0]
        if tagk in ("S", "SS"):
            spec[("Q" if tagk == "S" else "SCHEMA", f[1])] = f[2] if len(f) > 2 else ""
        else:
            model[(tagk, f[1])] = f[2] if len(f) > 2 else ""
    return impl, model, spec, rc, err
